/-
  Helper lemmas for C05: the library model of the signature hashes (Buidl.Model.Tx) against the
  specification (Buidl.Spec.Sighash).  Part 1: representation relation, serialisation bridges.
-/
import Buidl.Proofs.Tx
import Buidl.Spec.Sighash
namespace Buidl.Tx
open Buidl Buidl.Script

/-! ### integers and lengths -/

theorem le_eq (w n : Nat) : Spec.Sighash.le w n = natToLE' w n := by
  induction w generalizing n with
  | zero => rfl
  | succ w ih => simp [Spec.Sighash.le, natToLE', ih]

theorem natToLE_spec {n w : Nat} (h : n < 256 ^ w) : natToLE n w = some (Spec.Sighash.le w n) := by
  rw [le_eq, natToLE_some h]

theorem compactSize_eq {n : Nat} (h : n < 2 ^ 64) : encodeVarint n = some (Spec.Sighash.compactSize n) := by
  unfold Spec.Sighash.compactSize
  by_cases h0 : n < 0xFD
  · rw [encodeVarint_c0 h0, if_pos h0]
  · by_cases h1 : n < 0x10000
    · rw [encodeVarint_c1 h0 h1, if_neg h0, if_pos (by omega), le_eq]
    · by_cases h2 : n < 0x100000000
      · rw [encodeVarint_c2 h1 h2, if_neg h0, if_neg (by omega), if_pos (by omega), le_eq]
      · rw [encodeVarint_c3 h2 (by omega), if_neg h0, if_neg (by omega), if_neg (by omega), le_eq]

theorem encodeVarstr_spec {b : Bytes} (h : b.length < 2 ^ 64) : encodeVarstr b = some (Spec.Sighash.serScript b) := by
  simp [encodeVarstr, compactSize_eq h, Spec.Sighash.serScript]

theorem script_serialize_spec {s : Script} {b : Bytes} (h : rawSerialize s = some b) (hl : b.length < 2 ^ 64) :
    Script.serialize s = some (Spec.Sighash.serScript b) := by
  simp [Script.serialize, h, encodeVarstr_spec hl]

/-! ### representation of a library transaction by a specification transaction -/

/-- two lists of the same length, related element by element -/
inductive All₂ {α β} (R : α → β → Prop) : List α → List β → Prop
  | nil : All₂ R [] []
  | cons {a b l₁ l₂} : R a b → All₂ R l₁ l₂ → All₂ R (a :: l₁) (b :: l₂)

/-- the specification input that a library input stands for (outpoint hash in wire order) -/
def RepIn (i : TxIn) (si : Spec.Sighash.TxIn) : Prop :=
  si.prevout.hash = i.prevTx.reverse ∧ si.prevout.n = i.prevIndex ∧ si.nSequence = i.sequence ∧
  i.prevIndex < 2 ^ 32 ∧ i.sequence < 2 ^ 32

def RepOut (o : TxOut) (so : Spec.Sighash.TxOut) : Prop :=
  so.nValue = o.amount ∧ rawSerialize o.scriptPubkey = some so.scriptPubKey ∧
  o.amount < 2 ^ 64 ∧ so.scriptPubKey.length < 2 ^ 64

/-- `st` is the transaction `t` in raw-bytes form, all fields within their wire widths.  (The
    scriptSigs of `st` are not constrained: no signature message reads them.) -/
def Rep (t : Tx) (st : Spec.Sighash.Tx) : Prop :=
  st.nVersion = t.version ∧ st.nLockTime = t.locktime ∧ t.version < 2 ^ 32 ∧ t.locktime < 2 ^ 32 ∧
  t.ins.length < 2 ^ 64 ∧ t.outs.length < 2 ^ 64 ∧
  All₂ RepIn t.ins st.vin ∧ All₂ RepOut t.outs st.vout

/-- the spent outputs, as preset in `_value` / `_script_pubkey` -/
def RepSpent (i : TxIn) (so : Spec.Sighash.TxOut) : Prop :=
  i.value = some so.nValue ∧ so.nValue < 2 ^ 64 ∧ so.scriptPubKey.length < 2 ^ 64 ∧
  ∃ spk, i.scriptPubkey = some spk ∧ rawSerialize spk = some so.scriptPubKey

theorem forall₂_getElem? {α β} {R : α → β → Prop} {l₁ : List α} {l₂ : List β} (h : All₂ R l₁ l₂) (k : Nat) :
    (l₁[k]? = none ∧ l₂[k]? = none) ∨ ∃ a b, l₁[k]? = some a ∧ l₂[k]? = some b ∧ R a b := by
  induction h generalizing k with
  | nil => left; simp
  | cons hab _ ih =>
    cases k with
    | zero => right; exact ⟨_, _, by simp, by simp, hab⟩
    | succ k => simpa using ih k

theorem forall₂_length {α β} {R : α → β → Prop} {l₁ : List α} {l₂ : List β} (h : All₂ R l₁ l₂) :
    l₁.length = l₂.length := by
  induction h with
  | nil => rfl
  | cons _ _ ih => simp [ih]

/-! ### concatenations -/

theorem txout_serialize_spec {o : TxOut} {so : Spec.Sighash.TxOut} (r : RepOut o so) :
    o.serialize = some (Spec.Sighash.serTxOut so) := by
  obtain ⟨hv, hs, ha, hl⟩ := r
  have a : o.amount < 256 ^ 8 := by omega
  simp [TxOut.serialize, Gen.txoutSerAmountW, natToLE_spec a, script_serialize_spec hs hl, Spec.Sighash.serTxOut, hv]

theorem serOuts_spec {outs : List TxOut} {vout : List Spec.Sighash.TxOut} (h : All₂ RepOut outs vout) :
    serOuts outs = some (vout.map Spec.Sighash.serTxOut).flatten := by
  induction h with
  | nil => rfl
  | cons hab _ ih => simp [serOuts, txout_serialize_spec hab, ih]

theorem prevoutsBytes_spec {ins : List TxIn} {vin : List Spec.Sighash.TxIn} (h : All₂ RepIn ins vin) :
    prevoutsBytes ins = some (vin.map fun i => Spec.Sighash.serOutPoint i.prevout).flatten := by
  induction h with
  | nil => rfl
  | @cons i si _ _ hab _ ih =>
    obtain ⟨h1, h2, _, h4, _⟩ := hab
    have a : i.prevIndex < 256 ^ 4 := by omega
    simp [prevoutsBytes, natToLE_spec a, ih, Spec.Sighash.serOutPoint, h1, h2]

theorem sequencesBytes_spec {ins : List TxIn} {vin : List Spec.Sighash.TxIn} (h : All₂ RepIn ins vin) :
    sequencesBytes ins = some (vin.map fun i => Spec.Sighash.le 4 i.nSequence).flatten := by
  induction h with
  | nil => rfl
  | @cons i si _ _ hab _ ih =>
    obtain ⟨_, _, h3, _, h5⟩ := hab
    have a : i.sequence < 256 ^ 4 := by omega
    simp [sequencesBytes, Gen.sequenceSerW, natToLE_spec a, ih, h3]

theorem amountsBytes_spec {ins : List TxIn} {spent : List Spec.Sighash.TxOut} (h : All₂ RepSpent ins spent) :
    amountsBytes ins = some (spent.map fun o => Spec.Sighash.le 8 o.nValue).flatten := by
  induction h with
  | nil => rfl
  | @cons i so _ _ hab _ ih =>
    obtain ⟨h1, h2, _, _⟩ := hab
    have a : so.nValue < 256 ^ 8 := by omega
    simp [amountsBytes, h1, natToLE_spec a, ih]

theorem spksBytes_spec {ins : List TxIn} {spent : List Spec.Sighash.TxOut} (h : All₂ RepSpent ins spent) :
    spksBytes ins = some (spent.map fun o => Spec.Sighash.serScript o.scriptPubKey).flatten := by
  induction h with
  | nil => rfl
  | @cons i so _ _ hab _ ih =>
    obtain ⟨_, _, h3, spk, h4, h5⟩ := hab
    simp [spksBytes, h4, script_serialize_spec h5 h3, ih]

/-! ### hash types -/

theorem ht_facts : ∀ ht ∈ Spec.Sighash.stdHashTypes,
    acp ht = Spec.Sighash.anyoneCanPay ht ∧
    (decide (base ht = Gen.sighashSingle) = Spec.Sighash.isSingle ht) ∧
    (decide (base ht = Gen.sighashNone) = Spec.Sighash.isNone ht) ∧
    ht < 256 ∧ base ht = ht % 4 ∧ (Spec.Sighash.anyoneCanPay ht = decide (ht / 128 % 2 = 1)) := by
  decide

theorem zero32_eq : zero32 = Spec.Sighash.zero32 := rfl

/-- what the legacy / BIP143 proofs need of a hash type: the library's decoding (`& 0x80`, `& 3`) agrees with
    Core's (`& 0x80`, `& 0x1f`), and the value fits its serialised width -/
def HtOK (ht : Nat) : Prop :=
  acp ht = Spec.Sighash.anyoneCanPay ht ∧
  (decide (base ht = Gen.sighashSingle) = Spec.Sighash.isSingle ht) ∧
  (decide (base ht = Gen.sighashNone) = Spec.Sighash.isNone ht) ∧ ht < 256

theorem htOK_std {ht : Nat} (h : ht ∈ Spec.Sighash.stdHashTypes) : HtOK ht := by
  obtain ⟨a, b, c, d, _, _⟩ := ht_facts ht h
  exact ⟨a, b, c, d⟩

/-- all hash-type bytes on which the two decodings agree: `ht & 3 < 2` (both treat it like ALL) or
    `ht & 0x1f < 4` (the low five bits are the low two) — 160 of the 256 byte values -/
theorem htOK_byte : ∀ ht, ht < 256 → (ht % 4 < 2 ∨ ht % 32 < 4) → HtOK ht := by
  unfold HtOK; decide +kernel

/-- … and on the other 96 byte values they do not -/
theorem htOK_byte_iff : ∀ ht, ht < 256 → (HtOK ht ↔ (ht % 4 < 2 ∨ ht % 32 < 4)) := by
  unfold HtOK; decide +kernel

/-! ### BIP143 -/

theorem bip143Prevouts_spec (H : Hashes) (t : Tx) (st : Spec.Sighash.Tx) (ht : Nat)
    (hins : All₂ RepIn t.ins st.vin) (ha : acp ht = Spec.Sighash.anyoneCanPay ht) :
    bip143Prevouts Cfg.repaired H { tx := t } ht =
      some (if ¬ Spec.Sighash.anyoneCanPay ht then H.hash256 (st.vin.map fun i => Spec.Sighash.serOutPoint i.prevout).flatten
            else Spec.Sighash.zero32, { tx := t }) := by
  rw [← ha]
  cases h : acp ht <;>
    simp [bip143Prevouts, h, hashPrevouts, Cfg.repaired, prevoutsBytes_spec hins, zero32_eq]

theorem bip143Sequence_spec (H : Hashes) (t : Tx) (st : Spec.Sighash.Tx) (ht : Nat)
    (hins : All₂ RepIn t.ins st.vin) (ha : acp ht = Spec.Sighash.anyoneCanPay ht)
    (hs : decide (base ht = Gen.sighashSingle) = Spec.Sighash.isSingle ht)
    (hn : decide (base ht = Gen.sighashNone) = Spec.Sighash.isNone ht) :
    bip143Sequence Cfg.repaired H { tx := t } ht =
      some (if ¬ Spec.Sighash.anyoneCanPay ht ∧ ¬ Spec.Sighash.isSingle ht ∧ ¬ Spec.Sighash.isNone ht then
              H.hash256 (st.vin.map fun i => Spec.Sighash.le 4 i.nSequence).flatten
            else Spec.Sighash.zero32, { tx := t }) := by
  rw [← ha, ← hs, ← hn]
  by_cases c : !acp ht ∧ base ht ≠ Gen.sighashSingle ∧ base ht ≠ Gen.sighashNone
  · have c' : ¬ acp ht = true ∧ ¬ decide (base ht = Gen.sighashSingle) = true ∧ ¬ decide (base ht = Gen.sighashNone) = true := by
      simpa using c
    rw [bip143Sequence, if_pos c, if_pos c']
    simp [hashSequence, Cfg.repaired, sequencesBytes_spec hins]
  · have c' : ¬ (¬ acp ht = true ∧ ¬ decide (base ht = Gen.sighashSingle) = true ∧ ¬ decide (base ht = Gen.sighashNone) = true) := by
      simpa using c
    rw [bip143Sequence, if_neg c, if_neg c', zero32_eq]

theorem bip143Outputs_spec (H : Hashes) (t : Tx) (st : Spec.Sighash.Tx) (i ht : Nat)
    (houts : All₂ RepOut t.outs st.vout)
    (hs : decide (base ht = Gen.sighashSingle) = Spec.Sighash.isSingle ht)
    (hn : decide (base ht = Gen.sighashNone) = Spec.Sighash.isNone ht) :
    bip143Outputs Cfg.repaired H { tx := t } i ht =
      some (if ¬ Spec.Sighash.isSingle ht ∧ ¬ Spec.Sighash.isNone ht then H.hash256 (st.vout.map Spec.Sighash.serTxOut).flatten
            else if Spec.Sighash.isSingle ht ∧ i < st.vout.length then
              (match st.vout[i]? with | some o => H.hash256 (Spec.Sighash.serTxOut o) | none => Spec.Sighash.zero32)
            else Spec.Sighash.zero32, { tx := t }) := by
  rw [← hs, ← hn]
  have len := forall₂_length houts
  unfold bip143Outputs
  by_cases c : base ht ≠ Gen.sighashSingle ∧ base ht ≠ Gen.sighashNone
  · have c' : ¬ decide (base ht = Gen.sighashSingle) = true ∧ ¬ decide (base ht = Gen.sighashNone) = true := by simpa using c
    rw [if_pos c, if_pos c']
    simp [hashOutputs, Cfg.repaired, serOuts_spec houts]
  · have c' : ¬ (¬ decide (base ht = Gen.sighashSingle) = true ∧ ¬ decide (base ht = Gen.sighashNone) = true) := by simpa using c
    rw [if_neg c, if_neg c']
    by_cases d : base ht = Gen.sighashSingle ∧ i < t.outs.length
    · have d' : decide (base ht = Gen.sighashSingle) = true ∧ i < st.vout.length := by rw [← len]; simpa using d
      rw [if_pos d, if_pos d']
      rcases forall₂_getElem? houts i with ⟨h1, _⟩ | ⟨o, so, h1, h2, hr⟩
      · have := d.2
        rw [List.getElem?_eq_none_iff] at h1; omega
      · simp [h1, h2, txout_serialize_spec hr]
    · have d' : ¬ (decide (base ht = Gen.sighashSingle) = true ∧ i < st.vout.length) := by rw [← len]; simpa using d
      rw [if_neg d, if_neg d', zero32_eq]

theorem bip143Input_spec (txin : TxIn) (si : Spec.Sighash.TxIn) (redeem ws : Option Script) (code : Script)
    (codeRaw : Bytes) (amount : Nat) (hr : RepIn txin si)
    (hcode : scriptCode143 txin redeem ws = some code) (hraw : rawSerialize code = some codeRaw)
    (hlen : codeRaw.length < 2 ^ 64) (hval : txin.value = some amount) (hamt : amount < 2 ^ 64) :
    bip143Input txin redeem ws = some (Spec.Sighash.serOutPoint si.prevout ++ Spec.Sighash.serScript codeRaw
      ++ Spec.Sighash.le 8 amount ++ Spec.Sighash.le 4 si.nSequence) := by
  obtain ⟨r1, r2, r3, r4, r5⟩ := hr
  have e3 : natToLE txin.prevIndex 4 = some (Spec.Sighash.le 4 si.prevout.n) := by rw [r2]; exact natToLE_spec (by omega)
  have e4 : natToLE txin.sequence 4 = some (Spec.Sighash.le 4 si.nSequence) := by rw [r3]; exact natToLE_spec (by omega)
  have e5 : natToLE amount 8 = some (Spec.Sighash.le 8 amount) := natToLE_spec (by omega)
  simp [bip143Input, Gen.bip143IndexW, Gen.bip143AmountW, Gen.sequenceSerW, e3, e4, e5, hcode, hval,
    script_serialize_spec hraw hlen, Spec.Sighash.serOutPoint, r1]

/-- BIP143: the preimage the repaired code hashes is the preimage of the specification -/
theorem bip143_pre_spec_gen (H : Hashes) (t : Tx) (st : Spec.Sighash.Tx) (i ht amount : Nat) (txin : TxIn)
    (redeem ws : Option Script) (code : Script) (codeRaw : Bytes)
    (rep : Rep t st) (hht : HtOK ht)
    (hin : t.ins[i]? = some txin) (hcode : scriptCode143 txin redeem ws = some code)
    (hraw : rawSerialize code = some codeRaw) (hlen : codeRaw.length < 2 ^ 64)
    (hval : txin.value = some amount) (hamt : amount < 2 ^ 64) :
    sigHashBip143Pre Cfg.repaired H { tx := t } i redeem ws ht =
      (Spec.Sighash.bip143 H.hash256 st i codeRaw amount ht).map fun p => (p, { tx := t }) := by
  obtain ⟨hv, hl, rv, rl, _, _, hins, houts⟩ := rep
  obtain ⟨ha, hs, hn, hlt⟩ := hht
  rcases forall₂_getElem? hins i with ⟨h1, _⟩ | ⟨a, si, h1, h2, hr⟩
  · rw [hin] at h1; cases h1
  rw [hin] at h1; cases h1
  have e1 : natToLE t.version 4 = some (Spec.Sighash.le 4 st.nVersion) := by rw [hv]; exact natToLE_spec (by omega)
  have e2 : natToLE t.locktime 4 = some (Spec.Sighash.le 4 st.nLockTime) := by rw [hl]; exact natToLE_spec (by omega)
  have e6 : natToLE ht 4 = some (Spec.Sighash.le 4 ht) := natToLE_spec (by omega)
  simp only [sigHashBip143Pre, hin, Gen.bip143VersionW, Gen.locktimeSerW, Gen.bip143HashTypeW, e1, e2, e6,
    bip143Prevouts_spec H t st ht hins ha, bip143Sequence_spec H t st ht hins ha hs hn,
    bip143Input_spec txin si redeem ws code codeRaw amount hr hcode hraw hlen hval hamt,
    bip143Outputs_spec H t st i ht houts hs hn, Option.pure_def, Option.bind_eq_bind, Option.bind_some,
    Spec.Sighash.bip143, h2, Option.map_some, List.append_assoc]
  rfl

/-! ### BIP341 -/

/-- BIP143: the preimage the repaired code hashes is the preimage of the specification -/
theorem bip143_pre_spec (H : Hashes) (t : Tx) (st : Spec.Sighash.Tx) (i ht amount : Nat) (txin : TxIn)
    (redeem ws : Option Script) (code : Script) (codeRaw : Bytes)
    (rep : Rep t st) (hht : ht ∈ Spec.Sighash.stdHashTypes)
    (hin : t.ins[i]? = some txin) (hcode : scriptCode143 txin redeem ws = some code)
    (hraw : rawSerialize code = some codeRaw) (hlen : codeRaw.length < 2 ^ 64)
    (hval : txin.value = some amount) (hamt : amount < 2 ^ 64) :
    sigHashBip143Pre Cfg.repaired H { tx := t } i redeem ws ht =
      (Spec.Sighash.bip143 H.hash256 st i codeRaw amount ht).map fun p => (p, { tx := t }) :=
  bip143_pre_spec_gen H t st i ht amount txin redeem ws code codeRaw rep (htOK_std hht) hin hcode hraw hlen hval hamt

theorem ht_facts341 : ∀ ht ∈ Spec.Sighash.stdHashTypes,
    (decide ((if ht = 0 then 1 else ht % 4) = 3) = decide (base ht = Gen.sighashSingle)) ∧
    (decide ((if ht = 0 then 1 else ht % 4) = 2) = decide (base ht = Gen.sighashNone)) ∧
    (decide (ht / 128 % 2 = 1) = acp ht) ∧ Spec.Sighash.stdHashTypes.contains ht = true := by
  decide

/-- the annex the code feeds into the message: `witness[-1]` when `has_annex()` -/
def modelAnnex (cfg : Cfg) (w : Witness) : Option (Option Bytes) := do
  let a ← w.hasAnnex cfg
  if a then (fromEnd w.items 1).map some else pure none

theorem bip341Mid_spec (H : Hashes) (t : Tx) (st : Spec.Sighash.Tx) (spent : List Spec.Sighash.TxOut) (ht : Nat)
    (hins : All₂ RepIn t.ins st.vin) (hsp : All₂ RepSpent t.ins spent) :
    bip341Mid Cfg.repaired H { tx := t } ht =
      some (if ¬ acp ht then
              H.sha256 (st.vin.map fun i => Spec.Sighash.serOutPoint i.prevout).flatten
              ++ H.sha256 (spent.map fun o => Spec.Sighash.le 8 o.nValue).flatten
              ++ H.sha256 (spent.map fun o => Spec.Sighash.serScript o.scriptPubKey).flatten
              ++ H.sha256 (st.vin.map fun i => Spec.Sighash.le 4 i.nSequence).flatten
            else [], { tx := t }) := by
  cases h : acp ht <;>
    simp [bip341Mid, h, shaPrevouts, shaAmounts, shaScriptPubkeys, shaSequences, Cfg.repaired, prevoutsBytes_spec hins,
      sequencesBytes_spec hins, amountsBytes_spec hsp, spksBytes_spec hsp]

theorem bip341Outs_spec (H : Hashes) (t : Tx) (st : Spec.Sighash.Tx) (ht : Nat) (houts : All₂ RepOut t.outs st.vout) :
    bip341Outs Cfg.repaired H { tx := t } ht =
      some (if base ht ≠ Gen.sighashNone ∧ base ht ≠ Gen.sighashSingle then H.sha256 (st.vout.map Spec.Sighash.serTxOut).flatten
            else [], { tx := t }) := by
  unfold bip341Outs
  by_cases c : base ht ≠ Gen.sighashNone ∧ base ht ≠ Gen.sighashSingle
  · rw [if_pos c, if_pos c]; simp [shaOutputs, Cfg.repaired, serOuts_spec houts]
  · rw [if_neg c, if_neg c]

theorem bip341Input_spec (txin : TxIn) (si : Spec.Sighash.TxIn) (sp : Spec.Sighash.TxOut) (i ht : Nat)
    (hi : i < 2 ^ 32) (hr : RepIn txin si) (hs : RepSpent txin sp) :
    bip341Input txin i ht =
      some (if acp ht then Spec.Sighash.serOutPoint si.prevout ++ Spec.Sighash.le 8 sp.nValue
              ++ Spec.Sighash.serScript sp.scriptPubKey ++ Spec.Sighash.le 4 si.nSequence
            else Spec.Sighash.le 4 i) := by
  obtain ⟨r1, r2, r3, r4, r5⟩ := hr
  obtain ⟨s1, s2, s3, spk, s4, s5⟩ := hs
  have e3 : natToLE txin.prevIndex 4 = some (Spec.Sighash.le 4 si.prevout.n) := by rw [r2]; exact natToLE_spec (by omega)
  have e4 : natToLE txin.sequence 4 = some (Spec.Sighash.le 4 si.nSequence) := by rw [r3]; exact natToLE_spec (by omega)
  have e5 : natToLE sp.nValue 8 = some (Spec.Sighash.le 8 sp.nValue) := natToLE_spec (by omega)
  have e6 : natToLE i 4 = some (Spec.Sighash.le 4 i) := natToLE_spec (by omega)
  cases h : acp ht <;>
    simp [bip341Input, h, Gen.bip341PrevIndexW, Gen.bip341AmountW, Gen.sequenceSerW, Gen.bip341InputIndexW, e3, e4, e5, e6,
      s1, s4, script_serialize_spec s5 s3, Spec.Sighash.serOutPoint, r1]

theorem bip341Single_spec (H : Hashes) (t : Tx) (st : Spec.Sighash.Tx) (i ht : Nat) (houts : All₂ RepOut t.outs st.vout) :
    bip341Single H t i ht =
      if base ht = Gen.sighashSingle then (st.vout[i]?).map fun o => H.sha256 (Spec.Sighash.serTxOut o) else some [] := by
  unfold bip341Single
  by_cases c : base ht = Gen.sighashSingle
  · rw [if_pos c, if_pos c]
    rcases forall₂_getElem? houts i with ⟨h1, h2⟩ | ⟨o, so, h1, h2, hr⟩
    · simp [h1, h2]
    · simp [h1, h2, txout_serialize_spec hr]
  · rw [if_neg c, if_neg c]

theorem modelAnnex_inv {cfg : Cfg} {w : Witness} {annex : Option Bytes} (h : modelAnnex cfg w = some annex) :
    ∃ a, w.hasAnnex cfg = some a ∧ a = annex.isSome ∧ (a = true → fromEnd w.items 1 = annex) := by
  simp only [modelAnnex, Option.pure_def, Option.bind_eq_bind, bind_some_iff] at h
  obtain ⟨a, h1, h2⟩ := h
  cases a with
  | false => simp at h2; subst h2; exact ⟨false, h1, rfl, by simp⟩
  | true =>
    simp only [if_true, Option.map_eq_some_iff] at h2
    obtain ⟨l, h3, h4⟩ := h2
    subst h4
    exact ⟨true, h1, rfl, fun _ => h3⟩

theorem bip341Annex_spec (H : Hashes) (txin : TxIn) (annex : Option Bytes) (a : Bool)
    (ha : a = annex.isSome) (hl : a = true → fromEnd txin.witness.items 1 = annex)
    (hlen : ∀ x, annex = some x → x.length < 2 ^ 64) :
    bip341Annex H txin a =
      some (match annex with | some x => H.sha256 (Spec.Sighash.compactSize x.length ++ x) | none => []) := by
  cases annex with
  | none => simp at ha; subst ha; simp [bip341Annex]
  | some x =>
    simp at ha; subst ha
    have := hl rfl
    simp [bip341Annex, this, encodeVarstr_spec (hlen x rfl), Spec.Sighash.serScript]

/-- the extension the code appends for `ext_flag == 1`, as the specification's `Ext` -/
def modelExt (cfg : Cfg) (H : Hashes) (xonlyOK : Bytes → Bool) (w : Witness) (extFlag : Nat) : Option (Option Spec.Sighash.Ext) :=
  if extFlag = 1 then (tapLeafHash cfg H.sha256 xonlyOK w).map fun lh => some { tapleafHash := lh }
  else if extFlag = 0 then some none else none

theorem bip341_pre_spec (H : Hashes) (xonlyOK : Bytes → Bool) (t : Tx) (st : Spec.Sighash.Tx)
    (spent : List Spec.Sighash.TxOut) (i ht extFlag : Nat) (txin : TxIn) (annex : Option Bytes) (ext : Option Spec.Sighash.Ext)
    (rep : Rep t st) (hsp : All₂ RepSpent t.ins spent) (hht : ht ∈ Spec.Sighash.stdHashTypes)
    (hin : t.ins[i]? = some txin) (hi : i < 2 ^ 32)
    (hann : modelAnnex Cfg.repaired txin.witness = some annex) (hannlen : ∀ x, annex = some x → x.length < 2 ^ 64)
    (hext : modelExt Cfg.repaired H xonlyOK txin.witness extFlag = some ext) :
    sigHashBip341Pre Cfg.repaired H xonlyOK { tx := t } i extFlag ht =
      (Spec.Sighash.taprootMsg H.sha256 st spent i ht annex ext).map fun p => (p, { tx := t }) := by
  obtain ⟨hv, hl, rv, rl, hnin, _, hins, houts⟩ := rep
  obtain ⟨ha, hs, hn, hlt, _, _⟩ := ht_facts ht hht
  obtain ⟨f1, f2, f3, f4⟩ := ht_facts341 ht hht
  rcases forall₂_getElem? hins i with ⟨h1, _⟩ | ⟨a, si, h1, h2, hr⟩
  · rw [hin] at h1; cases h1
  rw [hin] at h1; cases h1
  rcases forall₂_getElem? hsp i with ⟨h1, _⟩ | ⟨a, sp, h1, h3, hrs⟩
  · rw [hin] at h1; cases h1
  rw [hin] at h1; cases h1
  have ilt : i < t.ins.length := by
    have := List.getElem?_eq_some_iff.mp hin; exact this.1
  have e1 : natToLE t.version 4 = some (Spec.Sighash.le 4 st.nVersion) := by rw [hv]; exact natToLE_spec (by omega)
  have e2 : natToLE t.locktime 4 = some (Spec.Sighash.le 4 st.nLockTime) := by rw [hl]; exact natToLE_spec (by omega)
  have e0 : byteOf ht = some [UInt8.ofNat ht] := by simp [byteOf]; omega
  obtain ⟨ab, a1, a2, a3⟩ := modelAnnex_inv hann
  have len1 := forall₂_length hins
  have len2 := forall₂_length hsp
  have hlen : ¬ spent.length ≠ st.vin.length := by rw [← len1, ← len2]; simp
  have hst : byteOf (extFlag * 2 + if ab = true then 1 else 0) = (if extFlag * 2 + (if annex.isSome then 1 else 0) ≤ 255 then
      some [UInt8.ofNat (extFlag * 2 + (if annex.isSome then 1 else 0))] else none) := by
    rw [a2]; rfl
  have model : sigHashBip341Pre Cfg.repaired H xonlyOK { tx := t } i extFlag ht =
      (do
        let st' ← byteOf (extFlag * 2 + if ab = true then 1 else 0)
        let single ← bip341Single H t i ht
        let ext' ← bip341Ext Cfg.repaired H xonlyOK txin extFlag
        pure ([0] ++ [UInt8.ofNat ht] ++ Spec.Sighash.le 4 st.nVersion ++ Spec.Sighash.le 4 st.nLockTime ++
          (if ¬ acp ht then
              H.sha256 (st.vin.map fun i => Spec.Sighash.serOutPoint i.prevout).flatten
              ++ H.sha256 (spent.map fun o => Spec.Sighash.le 8 o.nValue).flatten
              ++ H.sha256 (spent.map fun o => Spec.Sighash.serScript o.scriptPubKey).flatten
              ++ H.sha256 (st.vin.map fun i => Spec.Sighash.le 4 i.nSequence).flatten
            else []) ++
          (if base ht ≠ Gen.sighashNone ∧ base ht ≠ Gen.sighashSingle then H.sha256 (st.vout.map Spec.Sighash.serTxOut).flatten
            else []) ++ st' ++
          (if acp ht then Spec.Sighash.serOutPoint si.prevout ++ Spec.Sighash.le 8 sp.nValue
              ++ Spec.Sighash.serScript sp.scriptPubKey ++ Spec.Sighash.le 4 si.nSequence
            else Spec.Sighash.le 4 i) ++
          (match annex with | some x => H.sha256 (Spec.Sighash.compactSize x.length ++ x) | none => []) ++
          single ++ ext', ({ tx := t } : TxObj))) := by
    simp only [sigHashBip341Pre, hin, e0, e1, e2, Gen.bip341VersionW, Gen.locktimeSerW, Gen.bip341Epoch,
      bip341Mid_spec H t st spent ht hins hsp, bip341Outs_spec H t st ht houts, a1,
      bip341Input_spec txin si sp i ht hi hr hrs, bip341Annex_spec H txin annex ab a2 a3 hannlen,
      Option.pure_def, Option.bind_eq_bind, Option.bind_some]
  rw [model, hst, bip341Single_spec H t st i ht houts]
  have hsingle : decide ((if ht = 0 then 1 else ht % 4) = 3) = decide (base ht = Gen.sighashSingle) := f1
  have hnone : decide ((if ht = 0 then 1 else ht % 4) = 2) = decide (base ht = Gen.sighashNone) := f2
  have g3 : ((if ht = 0 then 1 else ht % 4) = 3) ↔ base ht = Gen.sighashSingle := by
    constructor <;> intro h <;> simpa [h] using hsingle
  have g2 : ((if ht = 0 then 1 else ht % 4) = 2) ↔ base ht = Gen.sighashNone := by
    constructor <;> intro h <;> simpa [h] using hnone
  have gacp : (ht / 128 % 2 = 1) ↔ acp ht = true := by
    constructor <;> intro h <;> simpa [h] using f3
  have spec : Spec.Sighash.sigMsg H.sha256 st spent i ht = fun extF annex =>
      (if base ht = Gen.sighashSingle then
        (st.vout[i]?).map fun o =>
          [UInt8.ofNat ht] ++ (Spec.Sighash.le 4 st.nVersion ++ Spec.Sighash.le 4 st.nLockTime ++
          (if ¬ acp ht then
              H.sha256 (st.vin.map fun i => Spec.Sighash.serOutPoint i.prevout).flatten
              ++ H.sha256 (spent.map fun o => Spec.Sighash.le 8 o.nValue).flatten
              ++ H.sha256 (spent.map fun o => Spec.Sighash.serScript o.scriptPubKey).flatten
              ++ H.sha256 (st.vin.map fun i => Spec.Sighash.le 4 i.nSequence).flatten
            else []) ++
          (if base ht ≠ Gen.sighashNone ∧ base ht ≠ Gen.sighashSingle then H.sha256 (st.vout.map Spec.Sighash.serTxOut).flatten
            else [])) ++ ([UInt8.ofNat (extF * 2 + (if annex.isSome then 1 else 0))] ++
          (if acp ht then Spec.Sighash.serOutPoint si.prevout ++ Spec.Sighash.le 8 sp.nValue
              ++ Spec.Sighash.serScript sp.scriptPubKey ++ Spec.Sighash.le 4 si.nSequence
            else Spec.Sighash.le 4 i) ++
          (match annex with | some x => H.sha256 (Spec.Sighash.compactSize x.length ++ x) | none => [])) ++
          H.sha256 (Spec.Sighash.serTxOut o)
       else some (
          [UInt8.ofNat ht] ++ (Spec.Sighash.le 4 st.nVersion ++ Spec.Sighash.le 4 st.nLockTime ++
          (if ¬ acp ht then
              H.sha256 (st.vin.map fun i => Spec.Sighash.serOutPoint i.prevout).flatten
              ++ H.sha256 (spent.map fun o => Spec.Sighash.le 8 o.nValue).flatten
              ++ H.sha256 (spent.map fun o => Spec.Sighash.serScript o.scriptPubKey).flatten
              ++ H.sha256 (st.vin.map fun i => Spec.Sighash.le 4 i.nSequence).flatten
            else []) ++
          (if base ht ≠ Gen.sighashNone ∧ base ht ≠ Gen.sighashSingle then H.sha256 (st.vout.map Spec.Sighash.serTxOut).flatten
            else [])) ++ ([UInt8.ofNat (extF * 2 + (if annex.isSome then 1 else 0))] ++
          (if acp ht then Spec.Sighash.serOutPoint si.prevout ++ Spec.Sighash.le 8 sp.nValue
              ++ Spec.Sighash.serScript sp.scriptPubKey ++ Spec.Sighash.le 4 si.nSequence
            else Spec.Sighash.le 4 i) ++
          (match annex with | some x => H.sha256 (Spec.Sighash.compactSize x.length ++ x) | none => [])))) := by
    funext extF annex
    simp only [Spec.Sighash.sigMsg, f4, hlen, h2, h3, not_true_eq_false, if_false, gacp]
    generalize (if ht = 0 then 1 else ht % 4) = ot at g2 g3
    by_cases c : base ht = Gen.sighashSingle
    · have o3 : ot = 3 := g3.mpr c
      subst o3
      simp only [c, if_true, ne_eq, not_true_eq_false, and_false, if_false, List.append_nil]
      cases st.vout[i]? <;> simp only [Option.map_none, Option.map_some, List.append_assoc] <;> rfl
    · have o3 : ¬ ot = 3 := fun h => c (g3.mp h)
      simp only [c, o3, if_false, g2, ne_eq, not_false_eq_true, and_true, List.append_assoc]
      try rfl
  have extBytes : ([UInt8.ofNat 0] ++ Spec.Sighash.le 4 0xFFFFFFFF : Bytes) = Gen.bip342Ext := by decide
  unfold modelExt at hext
  by_cases x1 : extFlag = 1
  · rw [if_pos x1, Option.map_eq_some_iff] at hext
    obtain ⟨lh, hlh, hx⟩ := hext
    subst hx; subst x1
    have sp255 : (1 * 2 + if annex.isSome = true then 1 else 0) ≤ 255 := by split <;> omega
    simp only [Spec.Sighash.taprootMsg, spec, bip341Ext, hlh, if_true, sp255, Option.pure_def, Option.bind_eq_bind,
      Option.bind_some]
    by_cases c : base ht = Gen.sighashSingle
    · simp only [c, if_true]
      cases st.vout[i]? with
      | none => rfl
      | some o =>
        simp only [Option.map_some, Option.bind_some, List.append_assoc, List.cons_append, List.nil_append, ← extBytes]
        rfl
    · simp only [c, if_false, Option.map_some, Option.bind_some, List.append_assoc, List.cons_append, List.nil_append,
        List.append_nil, ← extBytes]
      rfl
  · rw [if_neg x1] at hext
    by_cases x0 : extFlag = 0
    · rw [if_pos x0] at hext; cases hext; subst x0
      have sp255 : (0 * 2 + if annex.isSome = true then 1 else 0) ≤ 255 := by split <;> omega
      simp only [Spec.Sighash.taprootMsg, spec, bip341Ext, if_true, sp255, Option.pure_def, Option.bind_eq_bind,
        Option.bind_some, Nat.zero_ne_one, if_false]
      by_cases c : base ht = Gen.sighashSingle
      · simp only [c, if_true]
        cases st.vout[i]? with
        | none => rfl
        | some o =>
          simp only [Option.map_some, Option.bind_some, List.append_assoc, List.cons_append, List.nil_append, List.append_nil]
          rfl
      · simp only [c, if_false, Option.map_some, Option.bind_some, List.append_assoc, List.cons_append, List.nil_append,
          List.append_nil]
        rfl
    · rw [if_neg x0] at hext; cases hext

/-! ### legacy -/

theorem blank_eq : Gen.legacyBlankOut = Spec.Sighash.nullTxOut := by decide

theorem emptyScript_serialize : Script.serialize { cmds := [] } = some (Spec.Sighash.compactSize 0) := by decide

theorem flatten_only_at {α} (g : Nat → α → Bytes) (l : List α) (k i : Nat) :
    ((l.zipIdx k).map fun (p : α × Nat) => if p.2 ≠ i then [] else g p.2 p.1).flatten =
      if k ≤ i then (match l[i - k]? with | some a => g i a | none => []) else [] := by
  induction l generalizing k with
  | nil => simp
  | cons a l ih =>
    simp only [List.zipIdx_cons, List.map_cons, List.flatten_cons, ih]
    by_cases h : k = i
    · subst h; simp; intro h; omega
    · by_cases h2 : k ≤ i
      · have h3 : k + 1 ≤ i := by omega
        have h4 : i - k = (i - (k + 1)) + 1 := by omega
        simp [h, h2, h3, h4]
      · have h3 : ¬ k + 1 ≤ i := by omega
        simp [h, h2, h3]

theorem legacyIns_spec (i ht : Nat) (redeem : Option Script) (codeS : Script) (codeRaw : Bytes)
    (hraw : rawSerialize codeS = some codeRaw) (hlen : codeRaw.length < 2 ^ 64)
    (hs : decide (base ht = Gen.sighashSingle) = Spec.Sighash.isSingle ht)
    (hn : decide (base ht = Gen.sighashNone) = Spec.Sighash.isNone ht)
    {ins : List TxIn} {vin : List Spec.Sighash.TxIn} (h : All₂ RepIn ins vin) (k : Nat)
    (hcode : ∀ txin, k ≤ i → ins[i - k]? = some txin → legacyCode redeem txin = some codeS) :
    legacyIns i ht redeem k ins =
      some ((vin.zipIdx k).map fun (p : Spec.Sighash.TxIn × Nat) =>
        if acp ht ∧ p.2 ≠ i then []
        else Spec.Sighash.serOutPoint p.1.prevout
          ++ (if p.2 = i then Spec.Sighash.serScript codeRaw else Spec.Sighash.compactSize 0)
          ++ Spec.Sighash.le 4 (if p.2 ≠ i ∧ (Spec.Sighash.isSingle ht ∨ Spec.Sighash.isNone ht) then 0 else p.1.nSequence)).flatten := by
  induction h generalizing k with
  | nil => rfl
  | @cons txin si r vr hab _ ih =>
    obtain ⟨r1, r2, r3, r4, r5⟩ := hab
    have ihk := ih (k + 1) (fun txin' hk hx => hcode txin' (by omega) (by
      have : i - k = (i - (k + 1)) + 1 := by omega
      rw [this]; simpa using hx))
    have e3 : natToLE txin.prevIndex 4 = some (Spec.Sighash.le 4 si.prevout.n) := by rw [r2]; exact natToLE_spec (by omega)
    have e0 : natToLE 0 4 = some (Spec.Sighash.le 4 0) := natToLE_spec (by omega)
    have e4 : natToLE txin.sequence 4 = some (Spec.Sighash.le 4 si.nSequence) := by rw [r3]; exact natToLE_spec (by omega)
    have rng0 : inRange 0 Gen.maxSequence = true := by decide
    have rngs : inRange txin.sequence Gen.maxSequence = true := by simp [inRange, Gen.maxSequence]; omega
    rw [← hs, ← hn]
    simp only [legacyIns, List.zipIdx_cons, List.map_cons, List.flatten_cons, ihk, ← hs, ← hn]
    by_cases hk : k = i
    · subst hk
      have hc := hcode txin (Nat.le_refl _) (by simp)
      simp [hc, rngs, TxIn.serialize, Gen.txinSerIndexW, Gen.sequenceSerW, e3, e4, script_serialize_spec hraw hlen,
        Spec.Sighash.serOutPoint, r1]
    · by_cases hb : base ht = Gen.sighashNone ∨ base ht = Gen.sighashSingle
      · have hb' : (decide (base ht = Gen.sighashSingle) = true ∨ decide (base ht = Gen.sighashNone) = true) := by
          rcases hb with hb | hb <;> simp [hb]
        have hb2 : base ht = Gen.sighashSingle ∨ base ht = Gen.sighashNone := hb.symm
        cases ha : acp ht <;>
          simp [hk, hb, hb2, ha, rng0, TxIn.serialize, Gen.txinSerIndexW, Gen.sequenceSerW, e3, e0, emptyScript_serialize,
            Spec.Sighash.serOutPoint, r1]
      · have hb' : ¬ (decide (base ht = Gen.sighashSingle) = true ∨ decide (base ht = Gen.sighashNone) = true) := by
          simp only [decide_eq_true_eq]; intro h; exact hb (h.symm)
        have hb2 : ¬ (base ht = Gen.sighashSingle ∨ base ht = Gen.sighashNone) := fun h => hb h.symm
        cases ha : acp ht <;>
          simp [hk, hb, hb2, ha, rngs, TxIn.serialize, Gen.txinSerIndexW, Gen.sequenceSerW, e3, e4, emptyScript_serialize,
            Spec.Sighash.serOutPoint, r1]

theorem legacyOuts_none (i ht : Nat) (h : base ht = Gen.sighashNone) (j : Nat) (outs : List TxOut) :
    legacyOuts i ht j outs = some [] := by
  induction outs generalizing j with
  | nil => rfl
  | cons o r ih => simp only [legacyOuts, h, if_true, ih]

theorem legacyOuts_all (i ht : Nat) (h1 : base ht ≠ Gen.sighashNone) (h2 : base ht ≠ Gen.sighashSingle)
    {outs : List TxOut} {vout : List Spec.Sighash.TxOut} (houts : All₂ RepOut outs vout) (j : Nat) :
    legacyOuts i ht j outs = some (vout.map Spec.Sighash.serTxOut).flatten := by
  induction houts generalizing j with
  | nil => rfl
  | cons hab _ ih => simp [legacyOuts, h1, h2, txout_serialize_spec hab, ih]

theorem legacyOuts_single (i ht : Nat) (h : base ht = Gen.sighashSingle)
    {outs : List TxOut} {vout : List Spec.Sighash.TxOut} (houts : All₂ RepOut outs vout) (j : Nat)
    (hj : j ≤ i) (hi : i - j < outs.length) :
    legacyOuts i ht j outs =
      some (((vout.take (i + 1 - j)).zipIdx j).map fun (p : Spec.Sighash.TxOut × Nat) =>
        if p.2 ≠ i then Spec.Sighash.nullTxOut else Spec.Sighash.serTxOut p.1).flatten := by
  have hne : Gen.sighashSingle ≠ Gen.sighashNone := by decide
  induction houts generalizing j with
  | nil => simp at hi
  | @cons o so r vr hab _ ih =>
    by_cases hk : j = i
    · subst hk
      have : j + 1 - j = 1 := by omega
      simp [legacyOuts, h, hne, this, txout_serialize_spec hab]
    · have h3 : i + 1 - j = (i + 1 - (j + 1)) + 1 := by omega
      have ih' := ih (j + 1) (by omega) (by simp at hi; omega)
      simp [legacyOuts, h, hne, hk, h3, ih', blank_eq]

theorem zipIdx_map_all {α} (f : Nat → α → Bytes) (g : α → Bytes) (l : List α) (k : Nat) (h : ∀ j a, f j a = g a) :
    ((l.zipIdx k).map fun (p : α × Nat) => f p.2 p.1).flatten = (l.map g).flatten := by
  induction l generalizing k with
  | nil => rfl
  | cons a l ih => rw [List.zipIdx_cons, List.map_cons, List.flatten_cons, ih, List.map_cons, List.flatten_cons, h]


def legacyOfSpec : Spec.Sighash.LegacyResult → LegacyPre
  | .one => .one
  | .preimage b => .pre b

theorem legacy_pre_spec_gen (t : Tx) (st : Spec.Sighash.Tx) (i ht : Nat) (redeem : Option Script) (codeS : Script)
    (codeRaw : Bytes) (rep : Rep t st) (hht : HtOK ht)
    (hcode : ∀ txin, t.ins[i]? = some txin → legacyCode redeem txin = some codeS)
    (hraw : rawSerialize codeS = some codeRaw) (hlen : codeRaw.length < 2 ^ 64)
    (hsep : Spec.Sighash.stripCodeSep codeRaw.length codeRaw = codeRaw) :
    sigHashLegacyPre t i redeem ht = some (legacyOfSpec (Spec.Sighash.legacy st i codeRaw ht)) := by
  obtain ⟨hv, hl, rv, rl, nin, nout, hins, houts⟩ := rep
  obtain ⟨ha, hs, hn, hlt⟩ := hht
  have len1 := forall₂_length hins
  have len2 := forall₂_length houts
  have gS : Spec.Sighash.isSingle ht = true ↔ base ht = Gen.sighashSingle := by rw [← hs]; simp
  have gN : Spec.Sighash.isNone ht = true ↔ base ht = Gen.sighashNone := by rw [← hn]; simp
  unfold sigHashLegacyPre Spec.Sighash.legacy
  by_cases c1 : i ≥ t.ins.length
  · have c1' : i ≥ st.vin.length := by rw [← len1]; exact c1
    rw [if_pos c1, if_pos c1']; rfl
  have c1' : ¬ i ≥ st.vin.length := by rw [← len1]; exact c1
  rw [if_neg c1, if_neg c1']
  by_cases c2 : base ht = Gen.sighashSingle ∧ i ≥ t.outs.length
  · have c2' : Spec.Sighash.isSingle ht = true ∧ i ≥ st.vout.length := by rw [gS, ← len2]; exact c2
    rw [if_pos c2, if_pos c2']; rfl
  have c2' : ¬ (Spec.Sighash.isSingle ht = true ∧ i ≥ st.vout.length) := by rw [gS, ← len2]; exact c2
  rw [if_neg c2, if_neg c2']
  have e1 : natToLE t.version 4 = some (Spec.Sighash.le 4 st.nVersion) := by rw [hv]; exact natToLE_spec (by omega)
  have e2 : natToLE t.locktime 4 = some (Spec.Sighash.le 4 st.nLockTime) := by rw [hl]; exact natToLE_spec (by omega)
  have e6 : natToLE ht 4 = some (Spec.Sighash.le 4 ht) := natToLE_spec (by omega)
  have insEq := legacyIns_spec i ht redeem codeS codeRaw hraw hlen hs hn hins 0
    (fun txin _ hx => hcode txin (by simpa using hx))
  have ssc : Spec.Sighash.serializeScriptCode codeRaw = Spec.Sighash.serScript codeRaw := by
    simp [Spec.Sighash.serializeScriptCode, hsep]
  have ilt : i < t.ins.length := by omega
  -- counts
  have inCount : legacyInCount t ht = some (if Spec.Sighash.anyoneCanPay ht = true then Spec.Sighash.compactSize 1
      else Spec.Sighash.compactSize st.vin.length) := by
    rw [← ha, ← len1]
    cases h : acp ht <;> simp [legacyInCount, h, compactSize_eq nin, compactSize_eq (by omega : 1 < 2 ^ 64)]
  have outCount : legacyOutCount t i ht = some (Spec.Sighash.compactSize
      (if Spec.Sighash.isNone ht = true then 0 else if Spec.Sighash.isSingle ht = true then i + 1 else st.vout.length)) := by
    unfold legacyOutCount
    by_cases n : base ht = Gen.sighashNone
    · rw [if_pos n, if_pos (gN.mpr n)]; exact compactSize_eq (by omega)
    · rw [if_neg n, if_neg (fun h => n (gN.mp h))]
      by_cases sgl : base ht = Gen.sighashSingle
      · rw [if_pos sgl, if_pos (gS.mpr sgl)]; exact compactSize_eq (by omega)
      · rw [if_neg sgl, if_neg (fun h => sgl (gS.mp h)), ← len2]; exact compactSize_eq nout
  -- inputs
  have insSpec : ((st.vin.zipIdx 0).map fun (p : Spec.Sighash.TxIn × Nat) =>
        if acp ht ∧ p.2 ≠ i then []
        else Spec.Sighash.serOutPoint p.1.prevout
          ++ (if p.2 = i then Spec.Sighash.serScript codeRaw else Spec.Sighash.compactSize 0)
          ++ Spec.Sighash.le 4 (if p.2 ≠ i ∧ (Spec.Sighash.isSingle ht ∨ Spec.Sighash.isNone ht) then 0 else p.1.nSequence)).flatten
      = (if Spec.Sighash.anyoneCanPay ht = true then
          (match st.vin[i]? with | some inp => Spec.Sighash.legacyInput i ht codeRaw i inp | none => [])
        else Spec.Sighash.concatIdx (Spec.Sighash.legacyInput i ht codeRaw) st.vin) := by
    rw [← ha]
    cases h : acp ht
    · simp only [Bool.false_eq_true, false_and, if_false, Spec.Sighash.concatIdx, Spec.Sighash.legacyInput, ssc]
    · have := flatten_only_at (fun j (a : Spec.Sighash.TxIn) => Spec.Sighash.legacyInput i ht codeRaw j a) st.vin 0 i
      simp only [Nat.zero_le, if_true, Nat.sub_zero] at this
      simp only [true_and, if_true]
      refine Eq.trans ?_ (this.trans ?_)
      · simp only [Spec.Sighash.legacyInput, ssc]
      · cases st.vin[i]? <;> rfl
  -- outputs
  have outsSpec : legacyOuts i ht 0 t.outs = some (Spec.Sighash.concatIdx (Spec.Sighash.legacyOutput i ht)
      (st.vout.take (if Spec.Sighash.isNone ht = true then 0 else if Spec.Sighash.isSingle ht = true then i + 1 else st.vout.length))) := by
    by_cases n : base ht = Gen.sighashNone
    · rw [legacyOuts_none i ht n, if_pos (gN.mpr n)]; rfl
    · rw [if_neg (fun h => n (gN.mp h))]
      by_cases sgl : base ht = Gen.sighashSingle
      · have io : i < t.outs.length := by
          have := c2; simp only [not_and] at this; have := this sgl; omega
        rw [if_pos (gS.mpr sgl), legacyOuts_single i ht sgl houts 0 (Nat.zero_le _) (by omega)]
        simp only [Spec.Sighash.concatIdx, Spec.Sighash.legacyOutput, gS.mpr sgl, true_and, Nat.sub_zero]
      · have ns : ¬ Spec.Sighash.isSingle ht = true := fun h => sgl (gS.mp h)
        rw [if_neg ns, legacyOuts_all i ht n sgl houts 0, List.take_length]
        simp only [Spec.Sighash.concatIdx, Spec.Sighash.legacyOutput, ns, false_and, if_false, Bool.false_eq_true]
        rw [zipIdx_map_all (fun _ o => Spec.Sighash.serTxOut o) Spec.Sighash.serTxOut st.vout 0 (fun _ _ => rfl)]
  simp only [legacyBody, Gen.legacyVersionW, Gen.locktimeSerW, Gen.legacyHashTypeW, e1, e2, e6, inCount, insEq, insSpec,
    outCount, outsSpec, Option.pure_def, Option.bind_eq_bind, Option.bind_some, Option.map_some, legacyOfSpec]
  cases Spec.Sighash.anyoneCanPay ht <;> simp only [List.append_assoc, if_true, if_false, Bool.false_eq_true] <;> rfl

theorem legacy_pre_spec (t : Tx) (st : Spec.Sighash.Tx) (i ht : Nat) (redeem : Option Script) (codeS : Script)
    (codeRaw : Bytes) (rep : Rep t st) (hht : ht ∈ Spec.Sighash.stdHashTypes)
    (hcode : ∀ txin, t.ins[i]? = some txin → legacyCode redeem txin = some codeS)
    (hraw : rawSerialize codeS = some codeRaw) (hlen : codeRaw.length < 2 ^ 64)
    (hsep : Spec.Sighash.stripCodeSep codeRaw.length codeRaw = codeRaw) :
    sigHashLegacyPre t i redeem ht = some (legacyOfSpec (Spec.Sighash.legacy st i codeRaw ht)) :=
  legacy_pre_spec_gen t st i ht redeem codeS codeRaw rep (htOK_std hht) hcode hraw hlen hsep

/-! ### history independence of the repaired code -/

/-- `f` reads only the fields of the object and returns the object unchanged -/
def Framed {α} (f : TxObj → Option (α × TxObj)) : Prop :=
  ∀ o, f o = (f { tx := o.tx }).map fun r => (r.1, o)

theorem framed_of_pure {α} (g : Tx → Option α) : Framed (fun o => (g o.tx).map fun a => (a, o)) := by
  intro o; show (g o.tx).map _ = ((g o.tx).map _).map _; cases g o.tx <;> rfl

theorem hashPrevouts_framed (H : Hashes) : Framed (hashPrevouts Cfg.repaired H) := by
  intro o; simp only [hashPrevouts, Cfg.repaired]; cases prevoutsBytes o.tx.ins <;> rfl
theorem hashSequence_framed (H : Hashes) : Framed (hashSequence Cfg.repaired H) := by
  intro o; simp only [hashSequence, Cfg.repaired]; cases sequencesBytes o.tx.ins <;> rfl
theorem hashOutputs_framed (H : Hashes) : Framed (hashOutputs Cfg.repaired H) := by
  intro o; simp only [hashOutputs, Cfg.repaired]; cases serOuts o.tx.outs <;> rfl
theorem shaPrevouts_framed (H : Hashes) : Framed (shaPrevouts Cfg.repaired H) := by
  intro o; simp only [shaPrevouts, Cfg.repaired]; cases prevoutsBytes o.tx.ins <;> rfl
theorem shaAmounts_framed (H : Hashes) : Framed (shaAmounts Cfg.repaired H) := by
  intro o; simp only [shaAmounts, Cfg.repaired]; cases amountsBytes o.tx.ins <;> rfl
theorem shaScriptPubkeys_framed (H : Hashes) : Framed (shaScriptPubkeys Cfg.repaired H) := by
  intro o; simp only [shaScriptPubkeys, Cfg.repaired]; cases spksBytes o.tx.ins <;> rfl
theorem shaSequences_framed (H : Hashes) : Framed (shaSequences Cfg.repaired H) := by
  intro o; simp only [shaSequences, Cfg.repaired]; cases sequencesBytes o.tx.ins <;> rfl
theorem shaOutputs_framed (H : Hashes) : Framed (shaOutputs Cfg.repaired H) := by
  intro o; simp only [shaOutputs, Cfg.repaired]; cases serOuts o.tx.outs <;> rfl

theorem framed_const {α} (a : α) : Framed (fun o => some (a, o)) := fun _ => rfl

/-- sequencing preserves framing -/
theorem framed_bind {α β} {f : TxObj → Option (α × TxObj)} {k : α → TxObj → Option (β × TxObj)}
    (hf : Framed f) (hk : ∀ a, Framed (k a)) :
    Framed (fun o => (f o).bind fun r => k r.1 r.2) := by
  intro o
  simp only
  rw [hf o]
  cases h : f { tx := o.tx } with
  | none => rfl
  | some r =>
    have hr : r.2 = { tx := o.tx } := by
      have := hf { tx := o.tx }
      rw [h] at this
      simp at this
      exact (congrArg Prod.snd this)
    simp only [Option.map_some, Option.bind_some]
    rw [hk r.1 o, hr]

/-- a pure step in the middle -/
theorem framed_bind_pure {α β} (x : Tx → Option α) {k : α → TxObj → Option (β × TxObj)} (hk : ∀ a, Framed (k a)) :
    Framed (fun o => (x o.tx).bind fun a => k a o) := by
  intro o
  simp only
  cases x o.tx with
  | none => rfl
  | some a => simp only [Option.bind_some]; exact hk a o

theorem framed_ite {α} (c : Prop) [Decidable c] {f g : TxObj → Option (α × TxObj)} (hf : Framed f) (hg : Framed g) :
    Framed (fun o => if c then f o else g o) := by
  intro o
  by_cases h : c
  · simp only [h, if_true]; exact hf o
  · simp only [h, if_false]; exact hg o

theorem frame_step {α} {f : TxObj → Option (α × TxObj)} (hf : Framed f) (o : TxObj) :
    (f o = none ∧ f { tx := o.tx } = none) ∨
    ∃ a, f o = some (a, o) ∧ f { tx := o.tx } = some (a, { tx := o.tx }) := by
  have h1 := hf o
  have h2 := hf { tx := o.tx }
  cases h : f { tx := o.tx } with
  | none => left; rw [h] at h1; exact ⟨h1, rfl⟩
  | some r =>
    right
    rw [h] at h1 h2
    simp only [Option.map_some, Option.some.injEq] at h1 h2
    refine ⟨r.1, h1, ?_⟩
    rw [h2]

theorem bip143Prevouts_framed (H : Hashes) (ht : Nat) : Framed (fun o => bip143Prevouts Cfg.repaired H o ht) := by
  unfold bip143Prevouts
  exact framed_ite _ (hashPrevouts_framed H) (framed_const _)
theorem bip143Sequence_framed (H : Hashes) (ht : Nat) : Framed (fun o => bip143Sequence Cfg.repaired H o ht) := by
  unfold bip143Sequence
  exact framed_ite _ (hashSequence_framed H) (framed_const _)
theorem bip143Outputs_framed (H : Hashes) (i ht : Nat) : Framed (fun o => bip143Outputs Cfg.repaired H o i ht) := by
  intro o
  show bip143Outputs _ _ o _ _ = (bip143Outputs _ _ { tx := o.tx } _ _).map _
  unfold bip143Outputs
  by_cases c : base ht ≠ Gen.sighashSingle ∧ base ht ≠ Gen.sighashNone
  · rw [if_pos c, if_pos c]; exact hashOutputs_framed H o
  · rw [if_neg c, if_neg c]
    by_cases d : base ht = Gen.sighashSingle ∧ i < o.tx.outs.length
    · rw [if_pos d, if_pos d]
      cases h : o.tx.outs[i]? with
      | none => rfl
      | some out => cases hs : out.serialize <;> simp [hs]
    · rw [if_neg d, if_neg d]; rfl

theorem sigHashBip143Pre_framed (H : Hashes) (i : Nat) (r w : Option Script) (ht : Nat) :
    Framed (fun o => sigHashBip143Pre Cfg.repaired H o i r w ht) := by
  intro o
  simp only [sigHashBip143Pre, Option.pure_def, Option.bind_eq_bind]
  cases o.tx.ins[i]? with
  | none => rfl
  | some txin =>
    simp only [Option.bind_some]
    cases natToLE o.tx.version Gen.bip143VersionW with
    | none => rfl
    | some v =>
      simp only [Option.bind_some]
      rcases frame_step (bip143Prevouts_framed H ht) o with ⟨h1, h2⟩ | ⟨a, h1, h2⟩
      · simp only [h1, h2, Option.bind_none, Option.map_none]
      simp only [h1, h2, Option.bind_some]
      rcases frame_step (bip143Sequence_framed H ht) o with ⟨h1, h2⟩ | ⟨b, h1, h2⟩
      · simp only [h1, h2, Option.bind_none, Option.map_none]
      simp only [h1, h2, Option.bind_some]
      cases bip143Input txin r w with
      | none => rfl
      | some inp =>
        simp only [Option.bind_some]
        rcases frame_step (bip143Outputs_framed H i ht) o with ⟨h1, h2⟩ | ⟨c, h1, h2⟩
        · simp only [h1, h2, Option.bind_none, Option.map_none]
        simp only [h1, h2, Option.bind_some]
        cases natToLE o.tx.locktime Gen.locktimeSerW with
        | none => rfl
        | some lt => cases natToLE ht Gen.bip143HashTypeW <;> rfl

theorem bip341Mid_framed (H : Hashes) (ht : Nat) : Framed (fun o => bip341Mid Cfg.repaired H o ht) := by
  intro o
  show bip341Mid _ _ o _ = (bip341Mid _ _ { tx := o.tx } _).map _
  unfold bip341Mid
  by_cases c : (!acp ht) = true
  · rw [if_pos c, if_pos c]
    simp only [Option.pure_def, Option.bind_eq_bind]
    rcases frame_step (shaPrevouts_framed H) o with ⟨h1, h2⟩ | ⟨a, h1, h2⟩
    · simp only [h1, h2, Option.bind_none, Option.map_none]
    simp only [h1, h2, Option.bind_some]
    rcases frame_step (shaAmounts_framed H) o with ⟨h1, h2⟩ | ⟨b, h1, h2⟩
    · simp only [h1, h2, Option.bind_none, Option.map_none]
    simp only [h1, h2, Option.bind_some]
    rcases frame_step (shaScriptPubkeys_framed H) o with ⟨h1, h2⟩ | ⟨c', h1, h2⟩
    · simp only [h1, h2, Option.bind_none, Option.map_none]
    simp only [h1, h2, Option.bind_some]
    rcases frame_step (shaSequences_framed H) o with ⟨h1, h2⟩ | ⟨d, h1, h2⟩
    · simp only [h1, h2, Option.bind_none, Option.map_none]
    simp only [h1, h2, Option.bind_some, Option.map_some]
  · rw [if_neg c, if_neg c]; rfl

theorem bip341Outs_framed (H : Hashes) (ht : Nat) : Framed (fun o => bip341Outs Cfg.repaired H o ht) := by
  unfold bip341Outs
  exact framed_ite _ (shaOutputs_framed H) (framed_const _)

theorem sigHashBip341Pre_framed (H : Hashes) (x : Bytes → Bool) (i e ht : Nat) :
    Framed (fun o => sigHashBip341Pre Cfg.repaired H x o i e ht) := by
  intro o
  simp only [sigHashBip341Pre, Option.pure_def, Option.bind_eq_bind]
  cases o.tx.ins[i]? with
  | none => rfl
  | some txin =>
    simp only [Option.bind_some]
    cases byteOf ht with
    | none => rfl
    | some hb =>
    cases natToLE o.tx.version Gen.bip341VersionW with
    | none => rfl
    | some v =>
    cases natToLE o.tx.locktime Gen.locktimeSerW with
    | none => rfl
    | some lt =>
      simp only [Option.bind_some]
      rcases frame_step (bip341Mid_framed H ht) o with ⟨h1, h2⟩ | ⟨a, h1, h2⟩
      · simp only [h1, h2, Option.bind_none, Option.map_none]
      simp only [h1, h2, Option.bind_some]
      rcases frame_step (bip341Outs_framed H ht) o with ⟨h1, h2⟩ | ⟨b, h1, h2⟩
      · simp only [h1, h2, Option.bind_none, Option.map_none]
      simp only [h1, h2, Option.bind_some]
      cases txin.witness.hasAnnex Cfg.repaired with
      | none => rfl
      | some an =>
      simp only [Option.bind_some]
      cases byteOf (e * 2 + if an = true then 1 else 0) with
      | none => rfl
      | some st =>
      cases bip341Input txin i ht with
      | none => rfl
      | some inp =>
      cases bip341Annex H txin an with
      | none => rfl
      | some ann =>
      simp only [Option.bind_some]
      cases bip341Single H o.tx i ht with
      | none => rfl
      | some sg =>
      cases bip341Ext Cfg.repaired H x txin e <;> rfl

theorem framed_map {α β} {f : TxObj → Option (α × TxObj)} (hf : Framed f) (g : α → β) :
    Framed (fun o => (f o).map fun r => (g r.1, r.2)) := by
  intro o
  rcases frame_step hf o with ⟨h1, h2⟩ | ⟨a, h1, h2⟩ <;> simp only [h1, h2, Option.map_none, Option.map_some]

theorem sigHashBip143_framed (H : Hashes) (i : Nat) (r w : Option Script) (ht : Nat) :
    Framed (fun o => (sigHashBip143 Cfg.repaired H o i r w ht).map fun p => (SigHash.int p.1, p.2)) :=
  framed_map (framed_map (sigHashBip143Pre_framed H i r w ht) (fun p => beToNat (H.hash256 p))) SigHash.int

theorem sigHashBip341_framed (H : Hashes) (x : Bytes → Bool) (i e ht : Nat) :
    Framed (fun o => (sigHashBip341 Cfg.repaired H x o i e ht).map fun p => (SigHash.bytes p.1, p.2)) :=
  framed_map (framed_map (sigHashBip341Pre_framed H x i e ht) _) _

/-- every query of the repaired code reads only the fields and leaves the object as it was -/
theorem runQuery_framed (H : Hashes) (x : Bytes → Bool) (q : Query) :
    Framed (fun o => runQuery Cfg.repaired H x o q) := by
  cases q with
  | legacy i r ht =>
    intro o
    simp only [runQuery]
    cases sigHashLegacy H.hash256 o.tx i r ht <;> rfl
  | bip143 i r w ht => exact sigHashBip143_framed H i r w ht
  | bip341 i e ht => exact sigHashBip341_framed H x i e ht
  | auto i ht =>
    intro o
    simp only [runQuery, sigHash, Option.pure_def, Option.bind_eq_bind]
    cases o.tx.ins[i]? with
    | none => rfl
    | some txin =>
      simp only [Option.bind_some]
      cases route Cfg.repaired txin with
      | none => rfl
      | some rt =>
        simp only [Option.bind_some]
        cases rt with
        | legacy r => simp only []; cases sigHashLegacy H.hash256 o.tx i r ht <;> rfl
        | bip143 r w => exact sigHashBip143_framed H i r w ht o
        | bip341 e => exact sigHashBip341_framed H x i e ht o

/-- what a fresh object with the given fields answers -/
def freshAnswer (H : Hashes) (x : Bytes → Bool) (t : Tx) (q : Query) : Option SigHash :=
  (runQuery Cfg.repaired H x { tx := t } q).map (·.1)

/-- the answers an operation list must produce: each query is answered for the fields as they are
    at that moment (after the edits that precede it), by a fresh object -/
def expectedAnswers (H : Hashes) (x : Bytes → Bool) : Tx → List Op → List (Option SigHash)
  | _, [] => []
  | t, .edit f :: r => expectedAnswers H x (f t) r
  | t, .query q :: r => freshAnswer H x t q :: expectedAnswers H x t r

/-- replace the witness items of input `j` by `g items` (any in-place mutation of `witness.items`) -/
def editWitness (j : Nat) (g : List Bytes → List Bytes) (t : Tx) : Tx :=
  { t with ins := t.ins.zipIdx.map fun (p : TxIn × Nat) =>
      if p.2 = j then { p.1 with witness := { items := g p.1.witness.items } } else p.1 }

theorem run_repaired (H : Hashes) (x : Bytes → Bool) (ops : List Op) (o : TxObj) :
    run Cfg.repaired H x o ops = expectedAnswers H x o.tx ops := by
  induction ops generalizing o with
  | nil => rfl
  | cons op r ih =>
    cases op with
    | edit f => simp only [run, expectedAnswers]; exact ih _
    | query q =>
      simp only [run, expectedAnswers, freshAnswer]
      rcases frame_step (runQuery_framed H x q) o with ⟨h1, h2⟩ | ⟨a, h1, h2⟩
      · simp only [h1, h2, Option.map_none]; rw [ih o]
      · simp only [h1, h2, Option.map_some]; rw [ih o]

/-! ### annex, ext_flag, tap leaf, dispatcher -/

theorem u8_eq_iff_toNat (b : UInt8) (n : Nat) (h : n < 256) : (b.toNat == n) = decide (b = UInt8.ofNat n) := by
  by_cases hb : b = UInt8.ofNat n
  · subst hb; simp [u8_ofNat_toNat, Nat.mod_eq_of_lt h]
  · have : ¬ b.toNat = n := by
      intro e; apply hb; rw [← e]; simp
    simp [hb, this]

theorem fromEnd_one (items : List Bytes) : fromEnd items 1 = items.getLast? := by
  unfold fromEnd
  cases items with
  | nil => rfl
  | cons a l => simp [List.getLast?_eq_getElem?]

/-- the annex the code uses is BIP341's annex, provided the last witness element is not empty
    (the code raises IndexError on an empty last element of a stack of two or more) -/
theorem modelAnnex_spec (w : Witness) (hlast : w.items.length < 2 ∨ w.items.getLast? ≠ some []) :
    modelAnnex Cfg.repaired w = some (Spec.Sighash.annexOf w.items) := by
  unfold modelAnnex Witness.hasAnnex Spec.Sighash.annexOf
  simp only [Cfg.repaired]
  by_cases h2 : w.items.length < 2
  · have : ¬ w.items.length ≥ 2 := by omega
    simp [h2, this]
  · have h2' : w.items.length ≥ 2 := by omega
    simp only [h2, if_false, h2', if_true]
    cases hl : w.items.getLast? with
    | none => simp
    | some last =>
      cases last with
      | nil =>
        rcases hlast with h | h
        · omega
        · exact absurd hl h
      | cons b r =>
        simp only [Option.pure_def, Option.bind_eq_bind, Option.bind_some, Gen.annexTag, fromEnd_one, hl]
        rw [u8_eq_iff_toNat b 80 (by omega)]
        by_cases hb : b = 0x50
        · subst hb; simp
        · have : ¬ b = UInt8.ofNat 80 := hb
          simp [this, hb]

theorem hasAnnex_spec (w : Witness) (hlast : w.items.length < 2 ∨ w.items.getLast? ≠ some []) :
    w.hasAnnex Cfg.repaired = some (Spec.Sighash.annexOf w.items).isSome := by
  obtain ⟨a, h1, h2, _⟩ := modelAnnex_inv (modelAnnex_spec w hlast)
  rw [h1, h2]

/-- key path / script path: the code's `ext_flag` is the one BIP341 implies (the annex is not counted) -/
theorem extFlagOf_spec (w : Witness) (hlast : w.items.length < 2 ∨ w.items.getLast? ≠ some []) :
    extFlagOf Cfg.repaired w = some (Spec.Sighash.extFlagOf w.items) := by
  simp only [extFlagOf, hasAnnex_spec w hlast, Option.pure_def, Option.bind_eq_bind, Option.bind_some,
    Spec.Sighash.extFlagOf, Spec.Sighash.scriptPath, Spec.Sighash.withoutAnnex]
  by_cases hsome : (Spec.Sighash.annexOf w.items).isSome = true
  · simp only [hsome, if_true, decide_eq_true_eq, List.length_dropLast]
    by_cases h : w.items.length - 1 > 1
    · have : w.items.length - 1 ≥ 2 := h
      simp [h, this]
    · have : ¬ w.items.length - 1 ≥ 2 := by omega
      simp [h, this]
  · simp only [hsome, if_false, decide_eq_true_eq]
    by_cases h : w.items.length > 1
    · have : w.items.length ≥ 2 := h
      simp [h, this]
    · have : ¬ w.items.length ≥ 2 := by omega
      simp [h, this]

theorem tapLeafTag_eq : Gen.tapLeafTag = Spec.Sighash.tagTapLeaf := by decide
theorem tapSighashTag_eq : Gen.tapSighashTag = Spec.Sighash.tagTapSighash := by decide

/-- a canonically encoded script is re-serialised to itself (C04 round trip) -/
theorem reserialize_canonical (cs : List Cmd) (raw : Bytes) (wf : ∀ c ∈ cs, CmdWF c) (h : serCmds cs = some raw)
    (hl : raw.length < 2 ^ 63) :
    Script.serialize (parseRaw raw) = some (Spec.Sighash.serScript raw) := by
  rw [parseRaw_serCmds cs raw wf h]
  have : rawSerialize { cmds := canon cs, raw := none } = some raw := by simp [rawSerialize, serCmds_canon, h]
  exact script_serialize_spec this (by omega)

/-- `Witness.tap_script()` keeps the witness element in `raw`, so it serialises to exactly those bytes -/
theorem tapScript_serialize (raw : Bytes) (hl : raw.length < 2 ^ 63) :
    Script.serialize { parseRaw raw with raw := some raw } = some (Spec.Sighash.serScript raw) := by
  have hr : rawSerialize { parseRaw raw with raw := some raw } = some raw := by
    cases raw with
    | nil => decide
    | cons a l => simp [rawSerialize]
  exact script_serialize_spec hr (by omega)

/-- the leaf hash the code computes from the witness is BIP341's `hash_TapLeaf(v ‖ compact_size(s) ‖ s)` of
    the script element exactly as it is in the witness, for a control block of valid shape -/
theorem tapLeafHash_spec (sha : Bytes → Bytes) (xonlyOK : Bytes → Bool) (w : Witness) (a : Bool) (v0 : UInt8)
    (cbt raw : Bytes)
    (ha : w.hasAnnex Cfg.repaired = some a) (hcb : fromEnd w.items (if a then 2 else 1) = some (v0 :: cbt))
    (hlen1 : (cbt.length + 1) % 32 = 1) (hlen2 : 33 ≤ cbt.length + 1) (hlen3 : cbt.length + 1 ≤ 4129)
    (hkey : xonlyOK (cbt.take 32) = true)
    (hraw : fromEnd w.items (if a then 3 else 2) = some raw) (hrl : raw.length < 2 ^ 63) :
    tapLeafHash Cfg.repaired sha xonlyOK w = some (Spec.Sighash.tapleafHash sha (v0.toNat &&& 0xFE) raw) := by
  have c0 : cmpAt Gen.txCbParseCmp 0 ((cbt.length + 1) % 32) = false := by
    simp [cmpAt, Gen.txCbParseCmp, cmpOp, hlen1]
  have c1 : cmpAt Gen.txCbParseCmp 1 (cbt.length + 1) = false := by
    simp [cmpAt, Gen.txCbParseCmp, cmpOp]; omega
  have c2 : cmpAt Gen.txCbParseCmp 2 (cbt.length + 1) = false := by
    simp [cmpAt, Gen.txCbParseCmp, cmpOp]; omega
  have hb : (v0.toNat &&& 0xFE) ≤ 255 := by
    have := v0.toNat_lt
    exact Nat.le_trans (Nat.and_le_left) (by omega)
  simp only [tapLeafHash, ha, hcb, hraw, Option.pure_def, Option.bind_eq_bind, Option.bind_some, List.length_cons,
    c0, c1, c2, Bool.false_eq_true, if_false, Bool.or_self, List.head?_cons, List.drop_succ_cons, List.drop_zero,
    hkey, Bool.not_true, hrl, not_true_eq_false, tapScript_serialize raw hrl, byteOf, hb, if_true,
    Spec.Sighash.tapleafHash, tapLeafTag_eq]
  rfl

/-! ### the dispatcher on the standard output kinds -/

theorem route_p2pkh (txin : TxIn) (spk : Script) (h : Bytes) (hspk : txin.scriptPubkey = some spk)
    (hc : spk.cmds = [.op 0x76, .op 0xA9, .push h, .op 0x88, .op 0xAC]) :
    route Cfg.repaired txin = some (.legacy none) ∧ legacyCode none txin = some spk := by
  simp [route, hspk, isP2sh, isP2wsh, isP2wpkh, isP2tr, hc, legacyCode]

theorem route_p2wpkh (txin : TxIn) (spk : Script) (h : Bytes) (hspk : txin.scriptPubkey = some spk)
    (hc : spk.cmds = [.op 0, .push h]) (hl : h.length = 20) :
    route Cfg.repaired txin = some (.bip143 none none) ∧ scriptCode143 txin none none = some (p2pkhScript h) := by
  simp [route, hspk, isP2sh, isP2wsh, isP2wpkh, isP2tr, hc, hl, scriptCode143, p2pkhOfSecond]

theorem route_p2wsh (txin : TxIn) (spk : Script) (h raw : Bytes) (hspk : txin.scriptPubkey = some spk)
    (hc : spk.cmds = [.op 0, .push h]) (hl : h.length = 32)
    (hw : txin.witness.items.getLast? = some raw) (hr : raw.length < 2 ^ 63) :
    route Cfg.repaired txin = some (.bip143 none (some (parseRaw raw))) ∧
    scriptCode143 txin none (some (parseRaw raw)) = some (parseRaw raw) := by
  simp [route, hspk, isP2sh, isP2wsh, isP2wpkh, isP2tr, hc, hl, scriptCode143, hw, convertScript, hr]

theorem route_p2tr (txin : TxIn) (spk : Script) (h : Bytes) (hspk : txin.scriptPubkey = some spk)
    (hc : spk.cmds = [.op 0x51, .push h]) (hl : h.length = 32)
    (hlast : txin.witness.items.length < 2 ∨ txin.witness.items.getLast? ≠ some []) :
    route Cfg.repaired txin = some (.bip341 (Spec.Sighash.extFlagOf txin.witness.items)) := by
  simp [route, hspk, isP2sh, isP2wsh, isP2wpkh, isP2tr, hc, hl, extFlagOf_spec txin.witness hlast]

theorem route_p2sh_legacy (txin : TxIn) (spk : Script) (h raw : Bytes) (hspk : txin.scriptPubkey = some spk)
    (hc : spk.cmds = [.op 0xA9, .push h, .op 0x87]) (hl : h.length = 20)
    (hs : txin.scriptSig.cmds.getLast? = some (.push raw)) (hr : raw.length < 2 ^ 63)
    (hn1 : isP2wpkh (parseRaw raw) = false) (hn2 : isP2wsh (parseRaw raw) = false) :
    route Cfg.repaired txin = some (.legacy (some (parseRaw raw))) ∧
    legacyCode (some (parseRaw raw)) txin = some (parseRaw raw) := by
  have f1 : isP2sh spk = true := by simp [isP2sh, hc, hl]
  have f2 : isP2wsh spk = false := by simp [isP2wsh, hc]
  have f3 : isP2wpkh spk = false := by simp [isP2wpkh, hc]
  have f4 : isP2tr spk = false := by simp [isP2tr, hc]
  simp [route, hspk, f1, f2, f3, f4, hs, convertScript, hr, hn1, hn2, legacyCode]

theorem route_p2sh_p2wpkh (txin : TxIn) (spk : Script) (h raw h' : Bytes) (hspk : txin.scriptPubkey = some spk)
    (hc : spk.cmds = [.op 0xA9, .push h, .op 0x87]) (hl : h.length = 20)
    (hs : txin.scriptSig.cmds.getLast? = some (.push raw)) (hr : raw.length < 2 ^ 63)
    (hrc : (parseRaw raw).cmds = [.op 0, .push h']) (hl' : h'.length = 20) :
    route Cfg.repaired txin = some (.bip143 (some (parseRaw raw)) none) ∧
    scriptCode143 txin (some (parseRaw raw)) none = some (p2pkhScript h') := by
  simp [route, hspk, isP2sh, isP2wsh, isP2wpkh, isP2tr, hc, hl, hs, convertScript, hr, hrc, hl', scriptCode143, p2pkhOfSecond]

theorem route_p2sh_p2wsh (txin : TxIn) (spk : Script) (h raw h' wraw : Bytes) (hspk : txin.scriptPubkey = some spk)
    (hc : spk.cmds = [.op 0xA9, .push h, .op 0x87]) (hl : h.length = 20)
    (hs : txin.scriptSig.cmds.getLast? = some (.push raw)) (hr : raw.length < 2 ^ 63)
    (hrc : (parseRaw raw).cmds = [.op 0, .push h']) (hl' : h'.length = 32)
    (hw : txin.witness.items.getLast? = some wraw) (hwr : wraw.length < 2 ^ 63) :
    route Cfg.repaired txin = some (.bip143 (some (parseRaw raw)) (some (parseRaw wraw))) ∧
    scriptCode143 txin (some (parseRaw raw)) (some (parseRaw wraw)) = some (parseRaw wraw) := by
  simp [route, hspk, isP2sh, isP2wsh, isP2wpkh, isP2tr, hc, hl, hs, convertScript, hr, hrc, hl', scriptCode143, hw, hwr]

/-! the specification's choice on the serialised templates -/

theorem dispatch_p2pkh (h : Bytes) (hl : h.length = 20) (w : List Bytes) :
    Spec.Sighash.dispatch ([0x76, 0xa9, 0x14] ++ h ++ [0x88, 0xac]) none w
      = some (.legacy ([0x76, 0xa9, 0x14] ++ h ++ [0x88, 0xac])) := by
  simp [Spec.Sighash.dispatch, Spec.Sighash.isP2SH, Spec.Sighash.witnessProgram]

theorem dispatch_p2wpkh (h : Bytes) (hl : h.length = 20) (w : List Bytes) :
    Spec.Sighash.dispatch ([0x00, 0x14] ++ h) none w = some (.bip143 (Spec.Sighash.p2pkhCode h)) := by
  simp [Spec.Sighash.dispatch, Spec.Sighash.isP2SH, Spec.Sighash.witnessProgram, Spec.Sighash.witnessRule, hl]

theorem dispatch_p2wsh (h : Bytes) (hl : h.length = 32) (w : List Bytes) :
    Spec.Sighash.dispatch ([0x00, 0x20] ++ h) none w = (w.getLast?).map .bip143 := by
  simp [Spec.Sighash.dispatch, Spec.Sighash.isP2SH, Spec.Sighash.witnessProgram, Spec.Sighash.witnessRule, hl]

theorem dispatch_p2tr (h : Bytes) (hl : h.length = 32) (w : List Bytes) :
    Spec.Sighash.dispatch ([0x51, 0x20] ++ h) none w =
      some (.bip341 (Spec.Sighash.extFlagOf w) (Spec.Sighash.annexOf w)) := by
  simp [Spec.Sighash.dispatch, Spec.Sighash.isP2SH, Spec.Sighash.witnessProgram, Spec.Sighash.witnessRule, hl]

/-! ### OP_CODESEPARATOR -/

theorem stripCodeSep_nil (f : Nat) : Spec.Sighash.stripCodeSep f [] = [] := by cases f <;> rfl

/-- one `GetOp` step of Core's `SerializeScriptCode` walks over exactly one serialised command -/
theorem stripCodeSep_step (f : Nat) (c : Cmd) (b rest : Bytes) (wf : CmdWF c) (h : serCmd c = some b)
    (hno : c ≠ .op 0xab) :
    Spec.Sighash.stripCodeSep (f + 1) (b ++ rest) = b ++ Spec.Sighash.stripCodeSep f rest := by
  cases c with
  | op n =>
    have hn : n ≤ 255 := by unfold CmdWF at wf; omega
    rw [serCmd_op hn] at h; cases h
    have e : (UInt8.ofNat n).toNat = n := u8_toNat_ofNat_lt (by omega)
    have hne : n ≠ 0xab := fun hh => hno (by rw [hh])
    unfold CmdWF at wf
    simp only [List.cons_append, List.nil_append, Spec.Sighash.stripCodeSep, e, hne, if_false]
    have hh : Spec.Sighash.pushHeader n rest = some (0, 0) := by
      unfold Spec.Sighash.pushHeader
      rcases wf with rfl | ⟨w1, w2⟩
      · simp
      · have a0 : ¬ n ≤ 75 := by omega
        have a1 : ¬ n = 76 := by omega
        have a2 : ¬ n = 77 := by omega
        have a3 : ¬ n = 78 := by omega
        simp [a0, a1, a2, a3]
    simp [hh]
  | push d =>
    unfold CmdWF at wf
    by_cases h0 : d.length ≤ 75
    · rw [serCmd_push_small h0] at h; cases h
      have e : (UInt8.ofNat d.length).toNat = d.length := u8_toNat_ofNat_lt (by omega)
      have hne : ¬ d.length = 0xab := by omega
      simp only [List.cons_append, Spec.Sighash.stripCodeSep, e, hne, if_false, Spec.Sighash.pushHeader, h0, if_true,
        Nat.zero_add]
      have hl : ¬ (d ++ rest).length < d.length := by simp
      simp only [hl, if_false, take_append_len _ _ _ rfl, drop_append_len _ _ _ rfl]
    · by_cases h1 : d.length < 256
      · rw [serCmd_push_mid (by omega) h1] at h; cases h
        have e : (UInt8.ofNat d.length).toNat = d.length := u8_toNat_ofNat_lt h1
        have t : (76 : UInt8).toNat = 76 := rfl
        simp only [List.cons_append, Spec.Sighash.stripCodeSep, t, Spec.Sighash.pushHeader, e]
        have hl : ¬ (UInt8.ofNat d.length :: (d ++ rest)).length < 1 + d.length := by simp; omega
        have tk : (UInt8.ofNat d.length :: (d ++ rest)).take (1 + d.length) = UInt8.ofNat d.length :: d := by
          rw [Nat.add_comm, List.take_succ_cons, take_append_len _ _ _ rfl]
        have dr : (UInt8.ofNat d.length :: (d ++ rest)).drop (1 + d.length) = rest := by
          rw [Nat.add_comm, List.drop_succ_cons, drop_append_len _ _ _ rfl]
        simp [hl, tk, dr]
        intro hh; exfalso; omega
      · rw [serCmd_push_big (by omega) wf] at h; cases h
        have hl2 : d.length < 256 ^ 2 := by omega
        have t : (77 : UInt8).toNat = 77 := rfl
        have hle : natToLE' 2 d.length = [UInt8.ofNat (d.length % 256), UInt8.ofNat (d.length / 256 % 256)] := by
          simp [natToLE']
        have e0 : (UInt8.ofNat (d.length % 256)).toNat = d.length % 256 := u8_toNat_ofNat_lt (by omega)
        have e1 : (UInt8.ofNat (d.length / 256 % 256)).toNat = d.length / 256 % 256 := u8_toNat_ofNat_lt (by omega)
        have sum : d.length % 256 + 256 * (d.length / 256 % 256) = d.length := by omega
        simp only [List.cons_append, List.append_assoc, Spec.Sighash.stripCodeSep, t, Spec.Sighash.pushHeader, hle,
          List.cons_append, List.nil_append, e0, e1, sum]
        have hl : ¬ (UInt8.ofNat (d.length % 256) :: UInt8.ofNat (d.length / 256 % 256) :: (d ++ rest)).length < 2 + d.length := by
          simp; omega
        have tk : (UInt8.ofNat (d.length % 256) :: UInt8.ofNat (d.length / 256 % 256) :: (d ++ rest)).take (2 + d.length)
            = UInt8.ofNat (d.length % 256) :: UInt8.ofNat (d.length / 256 % 256) :: d := by
          rw [Nat.add_comm, List.take_succ_cons, List.take_succ_cons, take_append_len _ _ _ rfl]
        have dr : (UInt8.ofNat (d.length % 256) :: UInt8.ofNat (d.length / 256 % 256) :: (d ++ rest)).drop (2 + d.length) = rest := by
          rw [Nat.add_comm, List.drop_succ_cons, List.drop_succ_cons, drop_append_len _ _ _ rfl]
        simp [hl, tk, dr]
        intro hh; exfalso; omega

theorem stripCodeSep_serCmds (cs : List Cmd) (b rest : Bytes) (f : Nat) (wf : ∀ c ∈ cs, CmdWF c)
    (h : serCmds cs = some b) (hno : Cmd.op 0xab ∉ cs) (hf : cs.length ≤ f) :
    Spec.Sighash.stripCodeSep f (b ++ rest) = b ++ Spec.Sighash.stripCodeSep (f - cs.length) rest := by
  induction cs generalizing b f with
  | nil => cases h; simp
  | cons c cs ih =>
    obtain ⟨b1, b2, h1, h2, rfl⟩ := serCmds_cons h
    obtain ⟨f', rfl⟩ : ∃ f', f = f' + 1 := ⟨f - 1, by simp at hf; omega⟩
    have hc : c ≠ .op 0xab := fun e => hno (by simp [e])
    rw [List.append_assoc, stripCodeSep_step f' c b1 _ (wf c (by simp)) h1 hc,
      ih b2 f' (fun c hc => wf c (by simp [hc])) h2 (fun hm => hno (by simp [hm])) (by simp at hf; omega)]
    simp [List.append_assoc]

/-- a canonically encoded script without the opcode OP_CODESEPARATOR passes through Core's
    `SerializeScriptCode` unchanged: the hypothesis `hsep` of the legacy theorem holds for it -/
theorem no_codesep_strip (cs : List Cmd) (b : Bytes) (wf : ∀ c ∈ cs, CmdWF c) (h : serCmds cs = some b)
    (hno : Cmd.op 0xab ∉ cs) : Spec.Sighash.stripCodeSep b.length b = b := by
  have hl := serCmds_length wf h
  have hge := cmdsSize_ge_length cs
  have := stripCodeSep_serCmds cs b [] b.length wf h hno (by omega)
  rw [List.append_nil, stripCodeSep_nil, List.append_nil] at this
  exact this

/-! ### digest consumers: finalize_p2tr_multisig -/

theorem sigHash_framed (H : Hashes) (x : Bytes → Bool) (i ht : Nat) : Framed (fun o => sigHash Cfg.repaired H x o i ht) :=
  runQuery_framed H x (.auto i ht)

/-- the digest the object answers for hash type `ht` of input `i` (the BIP341 message hash for a taproot input) -/
def digestFor (H : Hashes) (x : Bytes → Bool) (o : TxObj) (i ht : Nat) : Option SigHash :=
  (sigHash Cfg.repaired H x o i ht).map (·.1)

/-- signature element `s` is no match for `point`: it is empty, or it fails against the digest of its own hash type -/
def NoMatch (H : Hashes) (x : Bytes → Bool) (verify : Bytes → Bytes → Bytes → Option Bool) (o : TxObj) (i : Nat)
    (point s : Bytes) : Prop :=
  schnorrSigKind s = .skip ∨
  ∃ ht body msg, schnorrSigKind s = .sig ht body ∧ digestFor H x o i ht = some (.bytes msg) ∧ verify point msg body = some false

theorem pickSig_spec (H : Hashes) (x : Bytes → Bool) (verify : Bytes → Bytes → Bytes → Option Bool) (i : Nat) (point : Bytes)
    (o : TxObj) (sigs : List Bytes) (pick : Option Bytes) (o' : TxObj)
    (h : pickSig Cfg.repaired H x verify i point o sigs = some (pick, o')) :
    o' = o ∧
    match pick with
    | some s => ∃ pre post ht body msg, sigs = pre ++ s :: post ∧ schnorrSigKind s = .sig ht body ∧
        digestFor H x o i ht = some (.bytes msg) ∧ verify point msg body = some true ∧
        ∀ s' ∈ pre, NoMatch H x verify o i point s'
    | none => ∀ s' ∈ sigs, NoMatch H x verify o i point s' := by
  induction sigs with
  | nil =>
    simp only [pickSig, Option.some.injEq, Prod.mk.injEq] at h
    obtain ⟨rfl, rfl⟩ := h
    exact ⟨rfl, by intro s' hs; cases hs⟩
  | cons sig r ih =>
    unfold pickSig at h
    cases hk : schnorrSigKind sig with
    | skip =>
      rw [hk] at h
      obtain ⟨e, hp⟩ := ih h
      refine ⟨e, ?_⟩
      cases pick with
      | some s =>
        obtain ⟨pre, post, ht, body, msg, h1, h2, h3, h4, h5⟩ := hp
        refine ⟨sig :: pre, post, ht, body, msg, by simp [h1], h2, h3, h4, ?_⟩
        intro s' hs
        rcases List.mem_cons.mp hs with rfl | hs
        · exact Or.inl hk
        · exact h5 s' hs
      | none =>
        intro s' hs
        rcases List.mem_cons.mp hs with rfl | hs
        · exact Or.inl hk
        · exact hp s' hs
    | bad => rw [hk] at h; cases h
    | sig ht body =>
      rw [hk] at h
      simp only at h
      rcases frame_step (sigHash_framed H x i ht) o with ⟨h1, _⟩ | ⟨a, h1, _⟩
      · rw [h1] at h; cases h
      · rw [h1] at h
        cases a with
        | int n => cases h
        | bytes msg =>
          simp only at h
          have hd : digestFor H x o i ht = some (.bytes msg) := by simp [digestFor, h1]
          cases hv : verify point msg body with
          | none => rw [hv] at h; cases h
          | some b =>
            rw [hv] at h
            cases b with
            | true =>
              simp only [Option.some.injEq, Prod.mk.injEq] at h
              obtain ⟨rfl, rfl⟩ := h
              exact ⟨rfl, [], r, ht, body, msg, rfl, hk, hd, hv, by intro s' hs; cases hs⟩
            | false =>
              simp only at h
              obtain ⟨e, hp⟩ := ih h
              refine ⟨e, ?_⟩
              have nm : NoMatch H x verify o i point sig := Or.inr ⟨ht, body, msg, hk, hd, hv⟩
              cases pick with
              | some s =>
                obtain ⟨pre, post, ht', body', msg', g1, g2, g3, g4, g5⟩ := hp
                refine ⟨sig :: pre, post, ht', body', msg', by simp [g1], g2, g3, g4, ?_⟩
                intro s' hs
                rcases List.mem_cons.mp hs with rfl | hs
                · exact nm
                · exact g5 s' hs
              | none =>
                intro s' hs
                rcases List.mem_cons.mp hs with rfl | hs
                · exact nm
                · exact hp s' hs

end Buidl.Tx
