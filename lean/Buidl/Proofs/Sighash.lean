/-
  Helper lemmas for C05: the library model of the signature hashes (Buidl.Model.Tx) against the
  specification (Buidl.Spec.Sighash).  Part 1: representation relation, serialisation bridges.
-/
import Buidl.Proofs.Tx
import Buidl.Spec.Sighash
namespace Buidl.Tx
open Buidl Buidl.Script

/-! ### integers and lengths -/

theorem le_eq (w n : Nat) : Spec.Sighash.le w n = natToLE' w n := by
  induction w generalizing n with
  | zero => rfl
  | succ w ih => simp [Spec.Sighash.le, natToLE', ih]

theorem natToLE_spec {n w : Nat} (h : n < 256 ^ w) : natToLE n w = some (Spec.Sighash.le w n) := by
  rw [le_eq, natToLE_some h]

theorem compactSize_eq {n : Nat} (h : n < 2 ^ 64) : encodeVarint n = some (Spec.Sighash.compactSize n) := by
  unfold Spec.Sighash.compactSize
  by_cases h0 : n < 0xFD
  · rw [encodeVarint_c0 h0, if_pos h0]
  · by_cases h1 : n < 0x10000
    · rw [encodeVarint_c1 h0 h1, if_neg h0, if_pos (by omega), le_eq]
    · by_cases h2 : n < 0x100000000
      · rw [encodeVarint_c2 h1 h2, if_neg h0, if_neg (by omega), if_pos (by omega), le_eq]
      · rw [encodeVarint_c3 h2 (by omega), if_neg h0, if_neg (by omega), if_neg (by omega), le_eq]

theorem encodeVarstr_spec {b : Bytes} (h : b.length < 2 ^ 64) : encodeVarstr b = some (Spec.Sighash.serScript b) := by
  simp [encodeVarstr, compactSize_eq h, Spec.Sighash.serScript]

theorem script_serialize_spec {s : Script} {b : Bytes} (h : rawSerialize s = some b) (hl : b.length < 2 ^ 64) :
    Script.serialize s = some (Spec.Sighash.serScript b) := by
  simp [Script.serialize, h, encodeVarstr_spec hl]

/-! ### representation of a library transaction by a specification transaction -/

/-- two lists of the same length, related element by element -/
inductive All₂ {α β} (R : α → β → Prop) : List α → List β → Prop
  | nil : All₂ R [] []
  | cons {a b l₁ l₂} : R a b → All₂ R l₁ l₂ → All₂ R (a :: l₁) (b :: l₂)

/-- the specification input that a library input stands for (outpoint hash in wire order) -/
def RepIn (i : TxIn) (si : Spec.Sighash.TxIn) : Prop :=
  si.prevout.hash = i.prevTx.reverse ∧ si.prevout.n = i.prevIndex ∧ si.nSequence = i.sequence ∧
  i.prevIndex < 2 ^ 32 ∧ i.sequence < 2 ^ 32

def RepOut (o : TxOut) (so : Spec.Sighash.TxOut) : Prop :=
  so.nValue = o.amount ∧ rawSerialize o.scriptPubkey = some so.scriptPubKey ∧
  o.amount < 2 ^ 64 ∧ so.scriptPubKey.length < 2 ^ 64

/-- `st` is the transaction `t` in raw-bytes form, all fields within their wire widths.  (The
    scriptSigs of `st` are not constrained: no signature message reads them.) -/
def Rep (t : Tx) (st : Spec.Sighash.Tx) : Prop :=
  st.nVersion = t.version ∧ st.nLockTime = t.locktime ∧ t.version < 2 ^ 32 ∧ t.locktime < 2 ^ 32 ∧
  t.ins.length < 2 ^ 64 ∧ t.outs.length < 2 ^ 64 ∧
  All₂ RepIn t.ins st.vin ∧ All₂ RepOut t.outs st.vout

/-- the spent outputs, as preset in `_value` / `_script_pubkey` -/
def RepSpent (i : TxIn) (so : Spec.Sighash.TxOut) : Prop :=
  i.value = some so.nValue ∧ so.nValue < 2 ^ 64 ∧ so.scriptPubKey.length < 2 ^ 64 ∧
  ∃ spk, i.scriptPubkey = some spk ∧ rawSerialize spk = some so.scriptPubKey

theorem forall₂_getElem? {α β} {R : α → β → Prop} {l₁ : List α} {l₂ : List β} (h : All₂ R l₁ l₂) (k : Nat) :
    (l₁[k]? = none ∧ l₂[k]? = none) ∨ ∃ a b, l₁[k]? = some a ∧ l₂[k]? = some b ∧ R a b := by
  induction h generalizing k with
  | nil => left; simp
  | cons hab _ ih =>
    cases k with
    | zero => right; exact ⟨_, _, by simp, by simp, hab⟩
    | succ k => simpa using ih k

theorem forall₂_length {α β} {R : α → β → Prop} {l₁ : List α} {l₂ : List β} (h : All₂ R l₁ l₂) :
    l₁.length = l₂.length := by
  induction h with
  | nil => rfl
  | cons _ _ ih => simp [ih]

/-! ### concatenations -/

theorem txout_serialize_spec {o : TxOut} {so : Spec.Sighash.TxOut} (r : RepOut o so) :
    o.serialize = some (Spec.Sighash.serTxOut so) := by
  obtain ⟨hv, hs, ha, hl⟩ := r
  have a : o.amount < 256 ^ 8 := by omega
  simp [TxOut.serialize, Gen.txoutSerAmountW, natToLE_spec a, script_serialize_spec hs hl, Spec.Sighash.serTxOut, hv]

theorem serOuts_spec {outs : List TxOut} {vout : List Spec.Sighash.TxOut} (h : All₂ RepOut outs vout) :
    serOuts outs = some (vout.map Spec.Sighash.serTxOut).flatten := by
  induction h with
  | nil => rfl
  | cons hab _ ih => simp [serOuts, txout_serialize_spec hab, ih]

theorem prevoutsBytes_spec {ins : List TxIn} {vin : List Spec.Sighash.TxIn} (h : All₂ RepIn ins vin) :
    prevoutsBytes ins = some (vin.map fun i => Spec.Sighash.serOutPoint i.prevout).flatten := by
  induction h with
  | nil => rfl
  | @cons i si _ _ hab _ ih =>
    obtain ⟨h1, h2, _, h4, _⟩ := hab
    have a : i.prevIndex < 256 ^ 4 := by omega
    simp [prevoutsBytes, natToLE_spec a, ih, Spec.Sighash.serOutPoint, h1, h2]

theorem sequencesBytes_spec {ins : List TxIn} {vin : List Spec.Sighash.TxIn} (h : All₂ RepIn ins vin) :
    sequencesBytes ins = some (vin.map fun i => Spec.Sighash.le 4 i.nSequence).flatten := by
  induction h with
  | nil => rfl
  | @cons i si _ _ hab _ ih =>
    obtain ⟨_, _, h3, _, h5⟩ := hab
    have a : i.sequence < 256 ^ 4 := by omega
    simp [sequencesBytes, Gen.sequenceSerW, natToLE_spec a, ih, h3]

theorem amountsBytes_spec {ins : List TxIn} {spent : List Spec.Sighash.TxOut} (h : All₂ RepSpent ins spent) :
    amountsBytes ins = some (spent.map fun o => Spec.Sighash.le 8 o.nValue).flatten := by
  induction h with
  | nil => rfl
  | @cons i so _ _ hab _ ih =>
    obtain ⟨h1, h2, _, _⟩ := hab
    have a : so.nValue < 256 ^ 8 := by omega
    simp [amountsBytes, h1, natToLE_spec a, ih]

theorem spksBytes_spec {ins : List TxIn} {spent : List Spec.Sighash.TxOut} (h : All₂ RepSpent ins spent) :
    spksBytes ins = some (spent.map fun o => Spec.Sighash.serScript o.scriptPubKey).flatten := by
  induction h with
  | nil => rfl
  | @cons i so _ _ hab _ ih =>
    obtain ⟨_, _, h3, spk, h4, h5⟩ := hab
    simp [spksBytes, h4, script_serialize_spec h5 h3, ih]

/-! ### hash types -/

theorem ht_facts : ∀ ht ∈ Spec.Sighash.stdHashTypes,
    acp ht = Spec.Sighash.anyoneCanPay ht ∧
    (decide (base ht = Gen.sighashSingle) = Spec.Sighash.isSingle ht) ∧
    (decide (base ht = Gen.sighashNone) = Spec.Sighash.isNone ht) ∧
    ht < 256 ∧ base ht = ht % 4 ∧ (Spec.Sighash.anyoneCanPay ht = decide (ht / 128 % 2 = 1)) := by
  decide

theorem zero32_eq : zero32 = Spec.Sighash.zero32 := rfl

/-! ### BIP143 -/

theorem bip143Prevouts_spec (H : Hashes) (t : Tx) (st : Spec.Sighash.Tx) (ht : Nat)
    (hins : All₂ RepIn t.ins st.vin) (ha : acp ht = Spec.Sighash.anyoneCanPay ht) :
    bip143Prevouts Cfg.repaired H { tx := t } ht =
      some (if ¬ Spec.Sighash.anyoneCanPay ht then H.hash256 (st.vin.map fun i => Spec.Sighash.serOutPoint i.prevout).flatten
            else Spec.Sighash.zero32, { tx := t }) := by
  rw [← ha]
  cases h : acp ht <;>
    simp [bip143Prevouts, h, hashPrevouts, Cfg.repaired, prevoutsBytes_spec hins, zero32_eq]

theorem bip143Sequence_spec (H : Hashes) (t : Tx) (st : Spec.Sighash.Tx) (ht : Nat)
    (hins : All₂ RepIn t.ins st.vin) (ha : acp ht = Spec.Sighash.anyoneCanPay ht)
    (hs : decide (base ht = Gen.sighashSingle) = Spec.Sighash.isSingle ht)
    (hn : decide (base ht = Gen.sighashNone) = Spec.Sighash.isNone ht) :
    bip143Sequence Cfg.repaired H { tx := t } ht =
      some (if ¬ Spec.Sighash.anyoneCanPay ht ∧ ¬ Spec.Sighash.isSingle ht ∧ ¬ Spec.Sighash.isNone ht then
              H.hash256 (st.vin.map fun i => Spec.Sighash.le 4 i.nSequence).flatten
            else Spec.Sighash.zero32, { tx := t }) := by
  rw [← ha, ← hs, ← hn]
  by_cases c : !acp ht ∧ base ht ≠ Gen.sighashSingle ∧ base ht ≠ Gen.sighashNone
  · have c' : ¬ acp ht = true ∧ ¬ decide (base ht = Gen.sighashSingle) = true ∧ ¬ decide (base ht = Gen.sighashNone) = true := by
      simpa using c
    rw [bip143Sequence, if_pos c, if_pos c']
    simp [hashSequence, Cfg.repaired, sequencesBytes_spec hins]
  · have c' : ¬ (¬ acp ht = true ∧ ¬ decide (base ht = Gen.sighashSingle) = true ∧ ¬ decide (base ht = Gen.sighashNone) = true) := by
      simpa using c
    rw [bip143Sequence, if_neg c, if_neg c', zero32_eq]

theorem bip143Outputs_spec (H : Hashes) (t : Tx) (st : Spec.Sighash.Tx) (i ht : Nat)
    (houts : All₂ RepOut t.outs st.vout)
    (hs : decide (base ht = Gen.sighashSingle) = Spec.Sighash.isSingle ht)
    (hn : decide (base ht = Gen.sighashNone) = Spec.Sighash.isNone ht) :
    bip143Outputs Cfg.repaired H { tx := t } i ht =
      some (if ¬ Spec.Sighash.isSingle ht ∧ ¬ Spec.Sighash.isNone ht then H.hash256 (st.vout.map Spec.Sighash.serTxOut).flatten
            else if Spec.Sighash.isSingle ht ∧ i < st.vout.length then
              (match st.vout[i]? with | some o => H.hash256 (Spec.Sighash.serTxOut o) | none => Spec.Sighash.zero32)
            else Spec.Sighash.zero32, { tx := t }) := by
  rw [← hs, ← hn]
  have len := forall₂_length houts
  unfold bip143Outputs
  by_cases c : base ht ≠ Gen.sighashSingle ∧ base ht ≠ Gen.sighashNone
  · have c' : ¬ decide (base ht = Gen.sighashSingle) = true ∧ ¬ decide (base ht = Gen.sighashNone) = true := by simpa using c
    rw [if_pos c, if_pos c']
    simp [hashOutputs, Cfg.repaired, serOuts_spec houts]
  · have c' : ¬ (¬ decide (base ht = Gen.sighashSingle) = true ∧ ¬ decide (base ht = Gen.sighashNone) = true) := by simpa using c
    rw [if_neg c, if_neg c']
    by_cases d : base ht = Gen.sighashSingle ∧ i < t.outs.length
    · have d' : decide (base ht = Gen.sighashSingle) = true ∧ i < st.vout.length := by rw [← len]; simpa using d
      rw [if_pos d, if_pos d']
      rcases forall₂_getElem? houts i with ⟨h1, _⟩ | ⟨o, so, h1, h2, hr⟩
      · have := d.2
        rw [List.getElem?_eq_none_iff] at h1; omega
      · simp [h1, h2, txout_serialize_spec hr]
    · have d' : ¬ (decide (base ht = Gen.sighashSingle) = true ∧ i < st.vout.length) := by rw [← len]; simpa using d
      rw [if_neg d, if_neg d', zero32_eq]

theorem bip143Input_spec (txin : TxIn) (si : Spec.Sighash.TxIn) (redeem ws : Option Script) (code : Script)
    (codeRaw : Bytes) (amount : Nat) (hr : RepIn txin si)
    (hcode : scriptCode143 txin redeem ws = some code) (hraw : rawSerialize code = some codeRaw)
    (hlen : codeRaw.length < 2 ^ 64) (hval : txin.value = some amount) (hamt : amount < 2 ^ 64) :
    bip143Input txin redeem ws = some (Spec.Sighash.serOutPoint si.prevout ++ Spec.Sighash.serScript codeRaw
      ++ Spec.Sighash.le 8 amount ++ Spec.Sighash.le 4 si.nSequence) := by
  obtain ⟨r1, r2, r3, r4, r5⟩ := hr
  have e3 : natToLE txin.prevIndex 4 = some (Spec.Sighash.le 4 si.prevout.n) := by rw [r2]; exact natToLE_spec (by omega)
  have e4 : natToLE txin.sequence 4 = some (Spec.Sighash.le 4 si.nSequence) := by rw [r3]; exact natToLE_spec (by omega)
  have e5 : natToLE amount 8 = some (Spec.Sighash.le 8 amount) := natToLE_spec (by omega)
  simp [bip143Input, Gen.bip143IndexW, Gen.bip143AmountW, Gen.sequenceSerW, e3, e4, e5, hcode, hval,
    script_serialize_spec hraw hlen, Spec.Sighash.serOutPoint, r1]

/-- BIP143: the preimage the repaired code hashes is the preimage of the specification -/
theorem bip143_pre_spec (H : Hashes) (t : Tx) (st : Spec.Sighash.Tx) (i ht amount : Nat) (txin : TxIn)
    (redeem ws : Option Script) (code : Script) (codeRaw : Bytes)
    (rep : Rep t st) (hht : ht ∈ Spec.Sighash.stdHashTypes)
    (hin : t.ins[i]? = some txin) (hcode : scriptCode143 txin redeem ws = some code)
    (hraw : rawSerialize code = some codeRaw) (hlen : codeRaw.length < 2 ^ 64)
    (hval : txin.value = some amount) (hamt : amount < 2 ^ 64) :
    sigHashBip143Pre Cfg.repaired H { tx := t } i redeem ws ht =
      (Spec.Sighash.bip143 H.hash256 st i codeRaw amount ht).map fun p => (p, { tx := t }) := by
  obtain ⟨hv, hl, rv, rl, _, _, hins, houts⟩ := rep
  obtain ⟨ha, hs, hn, hlt, _, _⟩ := ht_facts ht hht
  rcases forall₂_getElem? hins i with ⟨h1, _⟩ | ⟨a, si, h1, h2, hr⟩
  · rw [hin] at h1; cases h1
  rw [hin] at h1; cases h1
  have e1 : natToLE t.version 4 = some (Spec.Sighash.le 4 st.nVersion) := by rw [hv]; exact natToLE_spec (by omega)
  have e2 : natToLE t.locktime 4 = some (Spec.Sighash.le 4 st.nLockTime) := by rw [hl]; exact natToLE_spec (by omega)
  have e6 : natToLE ht 4 = some (Spec.Sighash.le 4 ht) := natToLE_spec (by omega)
  simp only [sigHashBip143Pre, hin, Gen.bip143VersionW, Gen.locktimeSerW, Gen.bip143HashTypeW, e1, e2, e6,
    bip143Prevouts_spec H t st ht hins ha, bip143Sequence_spec H t st ht hins ha hs hn,
    bip143Input_spec txin si redeem ws code codeRaw amount hr hcode hraw hlen hval hamt,
    bip143Outputs_spec H t st i ht houts hs hn, Option.pure_def, Option.bind_eq_bind, Option.bind_some,
    Spec.Sighash.bip143, h2, Option.map_some, List.append_assoc]
  rfl

end Buidl.Tx
