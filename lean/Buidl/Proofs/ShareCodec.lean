/-
  Buidl.Proofs.ShareCodec — `Share.parse (share.mnemonic()) = share` for in-range fields: base-1024 digit
  arithmetic for the header / padded value, RS1024 create/verify, and the word table.
-/
import Buidl.Proofs.RS1024
import Buidl.Proofs.Mnemonic
namespace Buidl.Shamir
open Buidl Buidl.Mnemonic

/-! ## base-1024 digits -/

/-- the `n` low base-1024 digits of `N`, most significant first -/
def digits10 : Nat → Nat → List Nat
  | 0, _ => []
  | n + 1, N => digits10 n (N / 1024) ++ [N % 1024]

theorem digits10_length (n N : Nat) : (digits10 n N).length = n := by
  induction n generalizing N with
  | zero => rfl
  | succ n ih => simp [digits10, ih]

theorem digits10_lt (n N : Nat) : ∀ d ∈ digits10 n N, d < 1024 := by
  induction n generalizing N with
  | zero => simp [digits10]
  | succ n ih =>
    intro d hd
    simp only [digits10, List.mem_append, List.mem_singleton] at hd
    rcases hd with h | h
    · exact ih _ d h
    · subst h; exact Nat.mod_lt _ (by decide)

theorem and1023 (x : Nat) : x &&& 1023 = x % 1024 := Nat.and_two_pow_sub_one_eq_mod x 10

theorem toWords10_succ (a : Nat) : ∀ n, toWords10 a (n + 1) = toWords10 (a / 1024) n ++ [a % 1024] := by
  intro n
  induction n with
  | zero => simp [toWords10, and1023]
  | succ n ih =>
    rw [toWords10, ih]
    have : toWords10 (a / 1024) (n + 1) = ((a / 1024) >>> (10 * n) &&& 1023) :: toWords10 (a / 1024) n := rfl
    rw [this]
    simp only [List.cons_append, List.cons.injEq, and_true]
    rw [Nat.shiftRight_eq_div_pow, Nat.shiftRight_eq_div_pow, Nat.div_div_eq_div_mul]
    congr 2
    rw [show 10 * (n + 1) = 10 + 10 * n by ring, Nat.pow_add]

theorem toWords10_eq (n a : Nat) : toWords10 a n = digits10 n a := by
  induction n generalizing a with
  | zero => rfl
  | succ n ih => rw [toWords10_succ, digits10, ih]

theorem digits10_add (m : Nat) : ∀ (n N : Nat),
    digits10 (m + n) N = digits10 m (N / 1024 ^ n) ++ digits10 n N := by
  intro n
  induction n with
  | zero => intro N; simp [digits10]
  | succ n ih =>
    intro N
    rw [← Nat.add_assoc, digits10, ih, digits10, List.append_assoc, Nat.div_div_eq_div_mul, ← Nat.pow_succ']

/-- `wordsValue` is the positional value -/
theorem wordsValue_digits10 (n N : Nat) : wordsValue (digits10 n N) = N % 1024 ^ n := by
  unfold wordsValue
  suffices ∀ acc, (digits10 n N).foldl (fun v i => (v <<< 10) ||| i) acc = acc * 1024 ^ n + N % 1024 ^ n by
    simpa using this 0
  induction n generalizing N with
  | zero => intro acc; simp [digits10, Nat.mod_one]
  | succ n ih =>
    intro acc
    rw [digits10, List.foldl_append, ih]
    simp only [List.foldl_cons, List.foldl_nil]
    have hlt : N % 1024 < 2 ^ 10 := Nat.mod_lt _ (by decide)
    rw [← Nat.shiftLeft_add_eq_or_of_lt hlt, Nat.shiftLeft_eq]
    have e1 : (1024 : Nat) ^ (n + 1) = 1024 * 1024 ^ n := Nat.pow_succ'
    rw [e1, Nat.mod_mul]
    ring

/-! ## Share.parse ∘ Share.mnemonic -/

/-- the fields of a share are in the ranges its 40-bit header and padded value can hold -/
structure ShareOK (s : Share) : Prop where
  hid : s.id < 2 ^ 15
  hexp : s.exponent < 32
  hgi : s.groupIndex < 16
  hgt1 : 1 ≤ s.groupThreshold
  hgt2 : s.groupThreshold ≤ s.groupCount
  hgc : s.groupCount ≤ 16
  hmi : s.memberIndex < 16
  hmt1 : 1 ≤ s.memberThreshold
  hmt2 : s.memberThreshold ≤ 16
  hsbl16 : s.shareBitLength % 16 = 0
  hsbl128 : 128 ≤ s.shareBitLength
  hval : s.value < 2 ^ s.shareBitLength
  hbytes : s.bytes = natToBE' (s.shareBitLength / 8) s.value

theorem shl_or (a f k : Nat) (hf : f < 2 ^ k) : (a <<< k) ||| f = a * 2 ^ k + f := by
  rw [← Nat.shiftLeft_add_eq_or_of_lt hf, Nat.shiftLeft_eq]

/-- the 40-bit header as a number -/
def headerOf (s : Share) : Nat :=
  (((((s.id * 32 + s.exponent) * 16 + s.groupIndex) * 16 + (s.groupThreshold - 1)) * 16
    + (s.groupCount - 1)) * 16 + s.memberIndex) * 16 + (s.memberThreshold - 1)

theorem digits10_four (H : Nat) :
    digits10 4 H = [H / 1073741824 % 1024, H / 1048576 % 1024, H / 1024 % 1024, H % 1024] := by
  simp only [digits10, List.nil_append, List.cons_append, Nat.div_div_eq_div_mul]

theorem indices_eq (s : Share) (ok : ShareOK s) :
    ∃ q, 10 * q = (10 - s.shareBitLength % 10) + s.shareBitLength ∧
      s.indices = (digits10 4 (headerOf s) ++ digits10 q (headerOf s * 1024 ^ q + s.value))
        ++ rs1024Create Gen.mnemonicCustomization
            (digits10 4 (headerOf s) ++ digits10 q (headerOf s * 1024 ^ q + s.value)) := by
  have hP : ((10 - s.shareBitLength % 10) + s.shareBitLength) % 10 = 0 := by omega
  obtain ⟨q, hq⟩ : ∃ q, (10 - s.shareBitLength % 10) + s.shareBitLength = 10 * q :=
    ⟨_, (Nat.div_add_mod _ 10).symm.trans (by rw [hP, Nat.add_zero])⟩
  refine ⟨q, hq.symm, ?_⟩
  have hv : s.value < 2 ^ (10 - s.shareBitLength % 10 + s.shareBitLength) :=
    Nat.lt_of_lt_of_le ok.hval (Nat.pow_le_pow_right (by decide) (by omega))
  have h1024 : (2 : Nat) ^ (10 * q) = 1024 ^ q := by rw [Nat.pow_mul]
  have hall : ((((((((s.id <<< 5 ||| s.exponent) <<< 4 ||| s.groupIndex) <<< 4 ||| (s.groupThreshold - 1)) <<< 4
      ||| (s.groupCount - 1)) <<< 4 ||| s.memberIndex) <<< 4 ||| (s.memberThreshold - 1))
        <<< (10 - s.shareBitLength % 10 + s.shareBitLength)) ||| s.value)
      = headerOf s * 1024 ^ q + s.value := by
    have := ok.hexp; have := ok.hgi; have := ok.hgt1; have := ok.hgt2; have := ok.hgc; have := ok.hmi
    have := ok.hmt1; have := ok.hmt2
    rw [shl_or _ _ _ hv, shl_or _ (s.memberThreshold - 1) 4 (by show _ < 16; omega),
      shl_or _ s.memberIndex 4 (by simpa using ok.hmi),
      shl_or _ (s.groupCount - 1) 4 (by show _ < 16; omega),
      shl_or _ (s.groupThreshold - 1) 4 (by show _ < 16; omega),
      shl_or _ s.groupIndex 4 (by simpa using ok.hgi),
      shl_or _ s.exponent 5 (by simpa using ok.hexp), hq, h1024]
    rfl
  have hnw : 4 + (10 - s.shareBitLength % 10 + s.shareBitLength) / 10 = 4 + q := by
    rw [hq, Nat.mul_div_cancel_left _ (by decide)]
  unfold Share.indices
  simp only [hall, hnw]
  rw [toWords10_eq, digits10_add 4 q]
  have hdiv : (headerOf s * 1024 ^ q + s.value) / 1024 ^ q = headerOf s := by
    have hvq : s.value < 1024 ^ q := by rw [← h1024, ← hq]; exact hv
    rw [Nat.mul_comm, Nat.mul_add_div (Nat.pow_pos (by decide)), Nat.div_eq_of_lt hvq, Nat.add_zero]
  rw [hdiv]

/-- decoding the index list of a share gives the share back -/
theorem ofIndices_indices (s : Share) (ok : ShareOK s) : Share.ofIndices s.indices = some s := by
  obtain ⟨q, hq, hidx⟩ := indices_eq s ok
  have hcs : Gen.parseCustomization = Gen.mnemonicCustomization := by decide
  have hvq : s.value < 1024 ^ q := by
    have : (2 : Nat) ^ (10 * q) = 1024 ^ q := by rw [Nat.pow_mul]
    rw [← this, hq]
    exact Nat.lt_of_lt_of_le ok.hval (Nat.pow_le_pow_right (by decide) (by omega))
  set vd := digits10 q (headerOf s * 1024 ^ q + s.value) with hvd
  set cs := rs1024Create Gen.mnemonicCustomization (digits10 4 (headerOf s) ++ vd) with hcsdef
  have hcslen : cs.length = 3 := rfl
  have hws : ∀ v ∈ digits10 4 (headerOf s) ++ vd, v < 2 ^ 30 := by
    intro v hv
    simp only [List.mem_append] at hv
    rcases hv with h | h
    · have := digits10_lt _ _ v h; omega
    · have := digits10_lt _ _ v h; omega
  have hver : rs1024Verify Gen.parseCustomization s.indices = true := by
    rw [hidx, hcs]; exact verify_create _ _ hws
  have hvdlen : vd.length = q := digits10_length _ _
  have hlen : s.indices.length = 4 + q + 3 := by
    rw [hidx]; simp only [List.length_append, digits10_length, hcslen, hvdlen]
  have hq12 : 13 ≤ q := by have := ok.hsbl128; omega
  unfold Share.ofIndices
  rw [hver]
  simp only [Bool.not_true, Bool.false_eq_true, if_false]
  rw [if_neg (by rw [hlen]; omega)]
  rw [hidx, digits10_four]
  simp only [List.cons_append, List.nil_append]
  have htake : (vd ++ cs).take ((vd ++ cs).length - 3) = vd := by
    rw [List.length_append, hcslen, Nat.add_sub_cancel, List.take_left']
    rfl
  rw [htake]
  have hval : wordsValue vd = s.value := by
    rw [hvd, wordsValue_digits10, Nat.mul_comm, Nat.mul_add_mod, Nat.mod_eq_of_lt hvq]
  rw [hval]
  have hlen2 : (headerOf s / 1073741824 % 1024 :: headerOf s / 1048576 % 1024 :: headerOf s / 1024 % 1024 ::
      headerOf s % 1024 :: (vd ++ cs)).length = 4 + q + 3 := by
    simp only [List.length_cons, List.length_append, hvdlen, hcslen]; omega
  rw [hlen2]
  have hsbl : (4 + q + 3 - 7) * 10 / 16 * 16 = s.shareBitLength := by
    have := ok.hsbl16; omega
  rw [hsbl]
  have hshift : s.value >>> s.shareBitLength = 0 := by
    rw [Nat.shiftRight_eq_div_pow]; exact Nat.div_eq_of_lt ok.hval
  rw [hshift]
  simp only [bne_self_eq_false, Bool.false_eq_true, if_false]
  rw [if_neg (by show ¬ s.shareBitLength < 128; have := ok.hsbl128; omega)]
  -- the header fields
  have hid := ok.hid; have hexp := ok.hexp; have hgi := ok.hgi; have hgt1 := ok.hgt1; have hgt2 := ok.hgt2
  have hgc := ok.hgc; have hmi := ok.hmi; have hmt1 := ok.hmt1; have hmt2 := ok.hmt2
  have and31 : ∀ x : Nat, x &&& 31 = x % 32 := fun x => Nat.and_two_pow_sub_one_eq_mod x 5
  have and15 : ∀ x : Nat, x &&& 15 = x % 16 := fun x => Nat.and_two_pow_sub_one_eq_mod x 4
  have and3 : ∀ x : Nat, x &&& 3 = x % 4 := fun x => Nat.and_two_pow_sub_one_eq_mod x 2
  have hH : headerOf s = (((((s.id * 32 + s.exponent) * 16 + s.groupIndex) * 16 + (s.groupThreshold - 1)) * 16
    + (s.groupCount - 1)) * 16 + s.memberIndex) * 16 + (s.memberThreshold - 1) := rfl
  generalize headerOf s = H at hH ⊢
  have f_id : ((H / 1073741824 % 1024) <<< 5) ||| ((H / 1048576 % 1024) >>> 5) = s.id := by
    rw [Nat.shiftRight_eq_div_pow, shl_or _ _ 5 (by
      have : H / 1048576 % 1024 < 1024 := Nat.mod_lt _ (by decide)
      show _ / 32 < 32; omega)]
    show _ * 32 + _ / 32 = _
    omega
  have f_exp : (H / 1048576 % 1024) &&& 31 = s.exponent := by rw [and31]; omega
  have f_gi : (H / 1024 % 1024) >>> 6 = s.groupIndex := by
    rw [Nat.shiftRight_eq_div_pow]; show _ / 64 = _; omega
  have f_gt : (((H / 1024 % 1024) >>> 2) &&& 15) + 1 = s.groupThreshold := by
    rw [Nat.shiftRight_eq_div_pow, and15]; show _ / 4 % 16 + 1 = _; omega
  have f_gc : ((((H / 1024 % 1024) &&& 3) <<< 2) ||| ((H % 1024) >>> 8)) + 1 = s.groupCount := by
    rw [and3, Nat.shiftRight_eq_div_pow, shl_or _ _ 2 (by
      have : H % 1024 < 1024 := Nat.mod_lt _ (by decide)
      show _ / 256 < 4; omega)]
    show _ % 4 * 4 + _ / 256 + 1 = _
    omega
  have f_mi : ((H % 1024) >>> 4) &&& 15 = s.memberIndex := by
    rw [Nat.shiftRight_eq_div_pow, and15]; show _ / 16 % 16 = _; omega
  have f_mt : ((H % 1024) &&& 15) + 1 = s.memberThreshold := by rw [and15]; omega
  rw [f_id, f_exp, f_gi, f_gt, f_gc, f_mi, f_mt]
  -- Share.__init__ accepts
  unfold Share.new
  rw [if_neg (by omega), if_neg (by omega), if_neg (by omega), if_neg (by omega), if_neg (by omega)]
  have h8 : s.shareBitLength = 8 * (s.shareBitLength / 8) := by have := ok.hsbl16; omega
  have hlt : s.value < 256 ^ (s.shareBitLength / 8) := by
    have : (256 : Nat) ^ (s.shareBitLength / 8) = 2 ^ (8 * (s.shareBitLength / 8)) := by
      rw [Nat.pow_mul]
    rw [this, ← h8]; exact ok.hval
  rw [natToBE_some' hlt, ← ok.hbytes]

/-! ## strings -/

theorem mapM_word (wl : WordList) : ∀ (idx : List Nat), (∀ i ∈ idx, i < wl.words.length) →
    mapM? wl.word idx = some (idx.map fun i => wl.words.getD i []) := by
  intro idx
  induction idx with
  | nil => intro _; rfl
  | cons i r ih =>
    intro h
    have hi := h i (by simp)
    have hw : wl.word i = some (wl.words.getD i []) := by
      show wl.words[i]? = _
      rw [List.getD_eq_getElem?_getD, List.getElem?_eq_getElem hi]; rfl
    simp [mapM?, hw, ih (fun x hx => h x (by simp [hx]))]

theorem indices_lt (s : Share) (ok : ShareOK s) : ∀ i ∈ s.indices, i < 1024 := by
  obtain ⟨q, _, hidx⟩ := indices_eq s ok
  rw [hidx]
  intro i hi
  simp only [List.mem_append] at hi
  rcases hi with (h | h) | h
  · exact digits10_lt _ _ i h
  · exact digits10_lt _ _ i h
  · simp only [rs1024Create, List.mem_cons, List.not_mem_nil, or_false] at h
    rcases h with rfl | rfl | rfl <;> (rw [and1023]; exact Nat.mod_lt _ (by decide))

/-- `Share.parse (share.mnemonic()) = share` for every share with in-range fields -/
theorem parse_mnemonic (wl : WordList) (tok : TableOK 1024 wl) (s : Share) (ok : ShareOK s) :
    ∃ m, Share.mnemonic wl s = some m ∧ Share.parse wl m = some s := by
  have hlt : ∀ i ∈ s.indices, i < wl.words.length := by
    intro i hi; rw [tok.hlen]; exact indices_lt s ok i hi
  refine ⟨pyJoin (s.indices.map fun i => wl.words.getD i []), ?_, ?_⟩
  · simp [Share.mnemonic, mapM_word wl _ hlt]
  · unfold Share.parse
    rw [pySplit_pyJoin, lookupAll_map_words wl tok.huniq _ hlt]
    · exact ofIndices_indices s ok
    · intro w hw
      simp only [List.mem_map] at hw
      obtain ⟨i, hi, rfl⟩ := hw
      exact (lowerWord_isWord _ (tok.hlower _ (getD_mem _ _ (hlt i hi)))).1

/-! ## a single wrong word is rejected -/

theorem lookupAll_append (wl : WordList) : ∀ (a b : List PyStr),
    lookupAll wl (a ++ b) = match lookupAll wl a, lookupAll wl b with
      | some x, some y => some (x ++ y)
      | _, _ => none := by
  intro a
  induction a with
  | nil => intro b; cases h : lookupAll wl b <;> simp [lookupAll, h]
  | cons w r ih =>
    intro b
    simp only [List.cons_append, lookupAll, ih]
    cases wl.lookup w <;> cases lookupAll wl r <;> cases lookupAll wl b <;> simp

theorem ofIndices_verify (idx : List Nat) (sh : Share) (h : Share.ofIndices idx = some sh) :
    rs1024Verify Gen.parseCustomization idx = true := by
  unfold Share.ofIndices at h
  cases hv : rs1024Verify Gen.parseCustomization idx with
  | true => rfl
  | false => simp [hv] at h

/-- if a word sequence parses as a share, replacing one word by a word with a different table index (or by
    an unknown word) makes `Share.parse` fail -/
theorem parse_single_word_error (wl : WordList) (hlen : wl.words.length ≤ 2 ^ 30) (pre post : List PyStr)
    (w w' : PyStr) (sh : Share)
    (h : (lookupAll wl (pre ++ w :: post)).bind Share.ofIndices = some sh)
    (hne : wl.lookup w' ≠ wl.lookup w) :
    (lookupAll wl (pre ++ w' :: post)).bind Share.ofIndices = none := by
  have h0 := h
  rw [lookupAll_append, lookupAll] at h0
  cases hp : lookupAll wl pre with
  | none => rw [hp] at h0; simp at h0
  | some ipre =>
    cases hw : wl.lookup w with
    | none => rw [hp, hw] at h0; simp at h0
    | some i =>
      cases hpost : lookupAll wl post with
      | none => rw [hp, hw, hpost] at h0; simp at h0
      | some ipost =>
        rw [hp, hw, hpost] at h0
        simp only [Option.bind_some] at h0
        rw [lookupAll_append, lookupAll, hp, hpost]
        cases hw' : wl.lookup w' with
        | none => simp
        | some j =>
          simp only [Option.bind_some]
          have hij : i ≠ j := by
            intro e; apply hne; rw [hw', hw, e]
          have hi := (lookup_some wl i w hw).1
          have hj := (lookup_some wl j w' hw').1
          have hver := ofIndices_verify _ _ h0
          have hbad := verify_single_error Gen.parseCustomization ipre ipost i j (by omega) (by omega) hij hver
          unfold Share.ofIndices
          rw [hbad]
          rfl

/-! ## Share.__init__ and the soundness of Share.parse -/

/-- `Share(...)` succeeds exactly on in-range arguments, and then stores them with the big-endian value -/
theorem share_new_some (sbl id e gi gt gc mi mt v : Nat) (sh : Share) :
    Share.new sbl id e gi gt gc mi mt v = some sh ↔
      (gi ≤ 15 ∧ 1 ≤ gt ∧ gt ≤ gc ∧ gc ≤ 16 ∧ mi ≤ 15 ∧ 1 ≤ mt ∧ mt ≤ 16 ∧ v < 256 ^ (sbl / 8) ∧
        sh = ⟨sbl, id, e, gi, gt, gc, mi, mt, v, natToBE' (sbl / 8) v⟩) := by
  unfold Share.new
  by_cases h1 : gi > 15
  · rw [if_pos h1]; constructor
    · intro h; cases h
    · intro h; omega
  rw [if_neg h1]
  by_cases h2 : gt < 1 ∨ gt > gc
  · rw [if_pos h2]; constructor
    · intro h; cases h
    · intro h; omega
  rw [if_neg h2]
  by_cases h3 : gc < 1 ∨ gc > 16
  · rw [if_pos h3]; constructor
    · intro h; cases h
    · intro h; omega
  rw [if_neg h3]
  by_cases h4 : mi > 15
  · rw [if_pos h4]; constructor
    · intro h; cases h
    · intro h; omega
  rw [if_neg h4]
  by_cases h5 : mt < 1 ∨ mt > 16
  · rw [if_pos h5]; constructor
    · intro h; cases h
    · intro h; omega
  rw [if_neg h5]
  by_cases h6 : v < 256 ^ (sbl / 8)
  · rw [natToBE_some' h6]
    constructor
    · intro h
      simp only [Option.some.injEq] at h
      exact ⟨by omega, by omega, by omega, by omega, by omega, by omega, by omega, h6, h.symm⟩
    · intro h; rw [h.2.2.2.2.2.2.2.2]
  · have : natToBE v (sbl / 8) = none := by simp [natToBE, h6]
    rw [this]
    constructor
    · intro h; cases h
    · intro h; exact absurd h.2.2.2.2.2.2.2.1 h6

/-- whatever `Share.parse` returns has in-range fields (so it can be re-encoded and parses back to itself) -/
theorem ofIndices_ok (idx : List Nat) (sh : Share) (hlt : ∀ i ∈ idx, i < 1024)
    (h : Share.ofIndices idx = some sh) : ShareOK sh := by
  unfold Share.ofIndices at h
  by_cases hv : rs1024Verify Gen.parseCustomization idx = true
  swap
  · simp [hv] at h
  rw [hv] at h
  simp only [Bool.not_true, Bool.false_eq_true, if_false] at h
  by_cases hl : idx.length < 7
  · rw [if_pos hl] at h; cases h
  rw [if_neg hl] at h
  match idx, hlt, hl, h with
  | i0 :: i1 :: i2 :: i3 :: rest, hlt, hl, h =>
    simp only at h
    have h0 : i0 < 1024 := hlt i0 (by simp)
    have h1 : i1 < 1024 := hlt i1 (by simp)
    have h2 : i2 < 1024 := hlt i2 (by simp)
    have h3 : i3 < 1024 := hlt i3 (by simp)
    split at h
    · cases h
    · rename_i hshift
      split at h
      · cases h
      · rename_i hmin
        rw [share_new_some] at h
        obtain ⟨g1, g2, g3, g4, g5, g6, g7, g8, rfl⟩ := h
        have hid : (i0 <<< 5 ||| i1 >>> 5) < 2 ^ 15 := by
          rw [Nat.shiftRight_eq_div_pow, shl_or _ _ 5 (by show i1 / 32 < 32; omega)]
          show i0 * 32 + i1 / 32 < 32768; omega
        have hexp : i1 &&& 31 < 32 := by
          rw [show i1 &&& 31 = i1 % 32 from Nat.and_two_pow_sub_one_eq_mod i1 5]; omega
        simp only [bne_iff_ne, ne_eq, not_not] at hshift
        have hval : wordsValue (rest.take (rest.length - 3))
            < 2 ^ ((((i0 :: i1 :: i2 :: i3 :: rest).length - 7) * 10 / 16) * 16) := by
          rw [Nat.shiftRight_eq_div_pow] at hshift
          exact (Nat.div_eq_zero_iff_lt (Nat.pow_pos (by decide))).mp hshift
        exact ⟨hid, hexp, Nat.lt_succ_of_le g1, g2, g3, g4, Nat.lt_succ_of_le g5, g6, g7,
          Nat.mul_mod_left _ _, by simpa [Gen.shareMinBits] using hmin, hval, rfl⟩
  | [], _, hl, _ => simp at hl
  | [_], _, hl, _ => simp at hl
  | [_, _], _, hl, _ => simp at hl
  | [_, _, _], _, hl, _ => simp at hl

theorem lookupAll_lt_of_table (wl : WordList) (tok : TableOK 1024 wl) (ws : List PyStr) (idx : List Nat)
    (h : lookupAll wl ws = some idx) : ∀ i ∈ idx, i < 1024 := by
  intro i hi
  have := lookupAll_lt wl ws idx h i hi
  rwa [tok.hlen] at this

/-- a parsed share re-encodes to a mnemonic that parses to the same share (`parse ∘ mnemonic ∘ parse = parse`) -/
theorem parse_then_mnemonic (wl : WordList) (tok : TableOK 1024 wl) (m : PyStr) (sh : Share)
    (h : Share.parse wl m = some sh) :
    ShareOK sh ∧ ∃ m', Share.mnemonic wl sh = some m' ∧ Share.parse wl m' = some sh := by
  unfold Share.parse at h
  cases hidx : lookupAll wl (pySplit m) with
  | none => rw [hidx] at h; cases h
  | some idx =>
    rw [hidx] at h
    have ok := ofIndices_ok idx sh (lookupAll_lt_of_table wl tok _ idx hidx) h
    exact ⟨ok, parse_mnemonic wl tok sh ok⟩

end Buidl.Shamir
