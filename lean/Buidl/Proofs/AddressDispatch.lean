/-
  The dispatch of `address_to_script_pubkey` and `TxOut.to_address` on the strings that
  `.address(network)` produces, per template; WIF.
-/
import Buidl.Proofs.Address
namespace Buidl.Address
open Buidl Buidl.Base58 Buidl.Bech32 Buidl.Script

/-! ### segwit strings through `address_to_script_pubkey` -/

theorem hrpOf_length (net : Str) : (hrpOf net).length = 2 ∨ (hrpOf net).length = 4 := by
  rcases hrpOf_cases net with e | e | e <;> rw [e] <;> simp

/-- a string `hrp ‖ "1q" ‖ …` reaches the version-0 branch -/
theorem a2s_v0 (hash256 : Bytes → Bytes) (net : Str) (rest : Str) :
    addressToScriptPubkey hash256 (hrpOf net ++ '1' :: 'q' :: rest) =
      if Gen.a2sWpkhLens.contains (hrpOf net ++ '1' :: 'q' :: rest).length then
        (decodeBech32 (hrpOf net ++ '1' :: 'q' :: rest)).map fun r => Spk.p2wpkh r.2.2
      else if Gen.a2sWshLens.contains (hrpOf net ++ '1' :: 'q' :: rest).length then
        (decodeBech32 (hrpOf net ++ '1' :: 'q' :: rest)).map fun r => Spk.p2wsh r.2.2
      else none := by
  rcases hrpOf_cases net with e | e | e <;> rw [e]
  · have t1 : (['b', 'c'] ++ '1' :: 'q' :: rest).take 1 = ['b'] := rfl
    have t4 : (['b', 'c'] ++ '1' :: 'q' :: rest).take 4 = ['b', 'c', '1', 'q'] := rfl
    have a1 : inStrs ['b'] Gen.a2sP2pkhFirst = false := by decide
    have a2 : inStrs ['b'] Gen.a2sP2shFirst = false := by decide
    have a3 : inStrs ['b', 'c', '1', 'q'] Gen.a2sV0Prefixes = true := by decide
    unfold addressToScriptPubkey
    simp only [Gen.a2sW0, Gen.a2sW1, Gen.a2sW2, t1, t4, a1, a2, a3, Bool.false_eq_true, if_false, true_or, if_true]
  · have t1 : (['t', 'b'] ++ '1' :: 'q' :: rest).take 1 = ['t'] := rfl
    have t4 : (['t', 'b'] ++ '1' :: 'q' :: rest).take 4 = ['t', 'b', '1', 'q'] := rfl
    have a1 : inStrs ['t'] Gen.a2sP2pkhFirst = false := by decide
    have a2 : inStrs ['t'] Gen.a2sP2shFirst = false := by decide
    have a3 : inStrs ['t', 'b', '1', 'q'] Gen.a2sV0Prefixes = true := by decide
    unfold addressToScriptPubkey
    simp only [Gen.a2sW0, Gen.a2sW1, Gen.a2sW2, t1, t4, a1, a2, a3, Bool.false_eq_true, if_false, true_or, if_true]
  · have t1 : (['b', 'c', 'r', 't'] ++ '1' :: 'q' :: rest).take 1 = ['b'] := rfl
    have t6 : (['b', 'c', 'r', 't'] ++ '1' :: 'q' :: rest).take 6 = Gen.a2sV0Regtest.toList := by
      have : Gen.a2sV0Regtest.toList = ['b', 'c', 'r', 't', '1', 'q'] := by decide
      rw [this]; rfl
    have a1 : inStrs ['b'] Gen.a2sP2pkhFirst = false := by decide
    have a2 : inStrs ['b'] Gen.a2sP2shFirst = false := by decide
    unfold addressToScriptPubkey
    simp only [Gen.a2sW0, Gen.a2sW1, Gen.a2sW3, t1, t6, a1, a2, Bool.false_eq_true, if_false, or_true, if_true]

/-- a string `hrp ‖ "1p" ‖ …` reaches the version-1 branch -/
theorem a2s_v1 (hash256 : Bytes → Bytes) (net : Str) (rest : Str) :
    addressToScriptPubkey hash256 (hrpOf net ++ '1' :: 'p' :: rest) =
      if ¬ Gen.a2sTrLens.contains (hrpOf net ++ '1' :: 'p' :: rest).length then none
      else (decodeBech32 (hrpOf net ++ '1' :: 'p' :: rest)).map fun r => Spk.p2tr r.2.2 := by
  rcases hrpOf_cases net with e | e | e <;> rw [e]
  · have t1 : (['b', 'c'] ++ '1' :: 'p' :: rest).take 1 = ['b'] := rfl
    have t4 : (['b', 'c'] ++ '1' :: 'p' :: rest).take 4 = ['b', 'c', '1', 'p'] := rfl
    have t6 : (['b', 'c'] ++ '1' :: 'p' :: rest).take 6 ≠ Gen.a2sV0Regtest.toList := by
      have : Gen.a2sV0Regtest.toList = ['b', 'c', 'r', 't', '1', 'q'] := by decide
      rw [this]; intro h
      have := congrArg (fun l => l.take 3) h
      simp at this
    have a1 : inStrs ['b'] Gen.a2sP2pkhFirst = false := by decide
    have a2 : inStrs ['b'] Gen.a2sP2shFirst = false := by decide
    have a3 : inStrs ['b', 'c', '1', 'p'] Gen.a2sV0Prefixes = false := by decide
    have a4 : inStrs ['b', 'c', '1', 'p'] Gen.a2sV1Prefixes = true := by decide
    unfold addressToScriptPubkey
    simp only [Gen.a2sW0, Gen.a2sW1, Gen.a2sW2, Gen.a2sW3, Gen.a2sW4, t1, t4, t6, a1, a2, a3, a4, Bool.false_eq_true,
      if_false, false_or, true_or, if_true]
  · have t1 : (['t', 'b'] ++ '1' :: 'p' :: rest).take 1 = ['t'] := rfl
    have t4 : (['t', 'b'] ++ '1' :: 'p' :: rest).take 4 = ['t', 'b', '1', 'p'] := rfl
    have t6 : (['t', 'b'] ++ '1' :: 'p' :: rest).take 6 ≠ Gen.a2sV0Regtest.toList := by
      have : Gen.a2sV0Regtest.toList = ['b', 'c', 'r', 't', '1', 'q'] := by decide
      rw [this]; intro h
      have := congrArg (fun l => l.take 1) h
      simp at this
    have a1 : inStrs ['t'] Gen.a2sP2pkhFirst = false := by decide
    have a2 : inStrs ['t'] Gen.a2sP2shFirst = false := by decide
    have a3 : inStrs ['t', 'b', '1', 'p'] Gen.a2sV0Prefixes = false := by decide
    have a4 : inStrs ['t', 'b', '1', 'p'] Gen.a2sV1Prefixes = true := by decide
    unfold addressToScriptPubkey
    simp only [Gen.a2sW0, Gen.a2sW1, Gen.a2sW2, Gen.a2sW3, Gen.a2sW4, t1, t4, t6, a1, a2, a3, a4, Bool.false_eq_true,
      if_false, false_or, true_or, if_true]
  · have t1 : (['b', 'c', 'r', 't'] ++ '1' :: 'p' :: rest).take 1 = ['b'] := rfl
    have t4 : (['b', 'c', 'r', 't'] ++ '1' :: 'p' :: rest).take 4 = ['b', 'c', 'r', 't'] := rfl
    have t6 : (['b', 'c', 'r', 't'] ++ '1' :: 'p' :: rest).take 6 = Gen.a2sV1Regtest.toList := by
      have : Gen.a2sV1Regtest.toList = ['b', 'c', 'r', 't', '1', 'p'] := by decide
      rw [this]; rfl
    have d6 : ¬ (Gen.a2sV1Regtest.toList = Gen.a2sV0Regtest.toList) := by decide
    have a1 : inStrs ['b'] Gen.a2sP2pkhFirst = false := by decide
    have a2 : inStrs ['b'] Gen.a2sP2shFirst = false := by decide
    have a3 : inStrs ['b', 'c', 'r', 't'] Gen.a2sV0Prefixes = false := by decide
    unfold addressToScriptPubkey
    simp only [Gen.a2sW0, Gen.a2sW1, Gen.a2sW2, Gen.a2sW3, Gen.a2sW4, Gen.a2sW5, t1, t4, t6, d6, a1, a2, a3,
      Bool.false_eq_true, if_false, false_or, or_true, if_true, or_self]

/-! ### segwit strings through `TxOut.to_address` -/

/-- with the repaired prefix list all three prefixes reach the segwit branch -/
theorem toAddress_segwit_repaired (hash256 : Bytes → Bytes) (net : Str) (rest : Str) :
    toAddress segPrefixesRepaired hash256 (hrpOf net ++ '1' :: rest) =
      match decodeBech32 (hrpOf net ++ '1' :: rest) with
      | none => none
      | some (_, version, h) =>
        if version = Gen.toAddrV0 then
          if h.length = Gen.toAddrV0LenA then some (.p2wpkh h)
          else if h.length = Gen.toAddrV0LenB then some (.p2wsh h) else none
        else if version = Gen.toAddrV1 then (if h.length = Gen.toAddrV1Len then some (.p2tr h) else none)
        else none := by
  have hany : segPrefixesRepaired.any (fun p => p.toList.isPrefixOf (hrpOf net ++ '1' :: rest)) = true := by
    rcases hrpOf_cases net with e | e | e <;> rw [e] <;> simp [segPrefixesRepaired, List.isPrefixOf]
  unfold toAddress
  rw [if_pos hany]
  rfl

/-- with the list in today's source only "bc1" / "tb1" do -/
theorem toAddress_segwit_asis (hash256 : Bytes → Bytes) (net : Str) (hnr : hrpOf net ≠ ['b', 'c', 'r', 't']) (rest : Str) :
    toAddress segPrefixesAsIs hash256 (hrpOf net ++ '1' :: rest) =
      match decodeBech32 (hrpOf net ++ '1' :: rest) with
      | none => none
      | some (_, version, h) =>
        if version = Gen.toAddrV0 then
          if h.length = Gen.toAddrV0LenA then some (.p2wpkh h)
          else if h.length = Gen.toAddrV0LenB then some (.p2wsh h) else none
        else if version = Gen.toAddrV1 then (if h.length = Gen.toAddrV1Len then some (.p2tr h) else none)
        else none := by
  have hany : segPrefixesAsIs.any (fun p => p.toList.isPrefixOf (hrpOf net ++ '1' :: rest)) = true := by
    rcases hrpOf_cases net with e | e | e
    · rw [e]; simp [segPrefixesAsIs, List.isPrefixOf]
    · rw [e]; simp [segPrefixesAsIs, List.isPrefixOf]
    · exact absurd e hnr
  unfold toAddress
  rw [if_pos hany]
  rfl

/-- F09a: every string starting with "bcrt1" is refused when the prefix list is the one in
    today's source -/
theorem toAddress_asis_regtest (hash256 : Bytes → Bytes) (rest : Str) :
    toAddress segPrefixesAsIs hash256 (['b', 'c', 'r', 't'] ++ '1' :: rest) = none := by
  have hany : segPrefixesAsIs.any (fun p => p.toList.isPrefixOf (['b', 'c', 'r', 't'] ++ '1' :: rest)) = false := by
    simp [segPrefixesAsIs, List.isPrefixOf]
  have a1 : inStrs ['b'] Gen.toAddrP2shFirst = false := by decide
  have a2 : inStrs ['b'] Gen.toAddrP2pkhFirst = false := by decide
  unfold toAddress
  rw [if_neg (by rw [hany]; decide)]
  simp only [List.cons_append, a1, a2, Bool.false_eq_true, if_false]

/-! ### Base58 strings through both functions -/

theorem a2s_base58 (hash256 : Bytes → Bytes) (s : Str) (c : Char) (hc : s.take 1 = [c]) :
    addressToScriptPubkey hash256 s =
      if inStrs [c] Gen.a2sP2pkhFirst then (decodeBase58 hash256 s).map .p2pkh
      else if inStrs [c] Gen.a2sP2shFirst then (decodeBase58 hash256 s).map .p2sh
      else addressToScriptPubkey hash256 s := by
  unfold addressToScriptPubkey
  simp only [Gen.a2sW0, Gen.a2sW1, hc]
  split
  · rfl
  · split <;> rfl

theorem toAddress_base58 (segs : List String) (hash256 : Bytes → Bytes) (s : Str) (c : Char) (hc : s.take 1 = [c])
    (hseg : segs.any (fun p => p.toList.isPrefixOf s) = false) :
    toAddress segs hash256 s =
      if inStrs [c] Gen.toAddrP2shFirst then
        (match decodeBase58 hash256 s with
         | none => none
         | some h => if h.length = Gen.toAddrP2shLen then some (.p2sh h) else none)
      else if inStrs [c] Gen.toAddrP2pkhFirst then
        (match decodeBase58 hash256 s with
         | none => none
         | some h => if h.length = Gen.toAddrP2pkhLen then some (.p2pkh h) else none)
      else none := by
  unfold toAddress
  rw [if_neg (by rw [hseg]; decide)]
  cases s with
  | nil => simp at hc
  | cons x xs =>
    have : x = c := by simpa using hc
    subst this
    rfl

/-- a Base58 text never starts with "bc1", "tb1" or "bcrt1" when its first character is one of 1, m, n, 2, 3 -/
theorem no_segwit_prefix (segs : List String) (hsegs : segs = segPrefixesAsIs ∨ segs = segPrefixesRepaired)
    (s : Str) (c : Char) (hc : s.take 1 = [c]) (hcc : c ≠ 'b' ∧ c ≠ 't') :
    segs.any (fun p => p.toList.isPrefixOf s) = false := by
  cases s with
  | nil => simp at hc
  | cons x xs =>
    have : x = c := by simpa using hc
    subst this
    have h1 : ¬ 'b' = x := fun e => hcc.1 e.symm
    have h2 : ¬ 't' = x := fun e => hcc.2 e.symm
    rcases hsegs with e | e <;> rw [e] <;> simp [segPrefixesAsIs, segPrefixesRepaired, List.isPrefixOf, h1, h2]

/-! ### WIF -/

theorem wif_parse_roundtrip (hash256 : Bytes → Bytes) (hh : ∀ b, (hash256 b).length = 32) (secret : Nat)
    (hlo : 1 ≤ secret) (hhi : secret ≤ Gen.privMaxSecret) (net : Str) (compressed : Bool) (s : Str)
    (hw : wif hash256 secret net compressed = some s) :
    wifParse hash256 s = some (secret, if net = Gen.wifMainnetName.toList then Gen.wifParseMainName.toList
      else Gen.wifParseTestName.toList, compressed) := by
  have h256 : secret < 256 ^ 32 := by
    have : Gen.privMaxSecret < 256 ^ 32 := by decide
    omega
  have hrange : ¬ (secret > Gen.privMaxSecret ∨ secret < Gen.privMinSecret) := by
    simp only [Gen.privMinSecret]; omega
  unfold wif at hw
  rw [if_neg hrange] at hw
  simp only [Gen.wifSecretWidth, natToBE, h256, if_true] at hw
  have hraw := rawDecodeBase58_encodeBase58Checksum hash256 (fun b => by rw [hh b]; omega) _ _ hw
  have hsec : beToNat (natToBE' 32 secret) = secret := beToNat_natToBE' h256
  unfold wifParse
  rw [hraw]
  cases compressed with
  | true =>
    have hl : (UInt8.ofNat (if net = Gen.wifMainnetName.toList then Gen.wifVersionMain else Gen.wifVersionOther) ::
        natToBE' 32 secret ++ [UInt8.ofNat Gen.wifCompressedSuffix]).length = Gen.wifParseCompressedLen := by
      simp [Gen.wifParseCompressedLen]
    simp only [if_true, hl]
    have hlast : ((UInt8.ofNat (if net = Gen.wifMainnetName.toList then Gen.wifVersionMain else Gen.wifVersionOther) ::
        natToBE' 32 secret ++ [UInt8.ofNat Gen.wifCompressedSuffix]).getLast?.map (·.toNat)) = some Gen.wifParseCompressedFlag := by
      rw [List.getLast?_concat]; rfl
    have hdl : (UInt8.ofNat (if net = Gen.wifMainnetName.toList then Gen.wifVersionMain else Gen.wifVersionOther) ::
        natToBE' 32 secret ++ [UInt8.ofNat Gen.wifCompressedSuffix]).dropLast =
        UInt8.ofNat (if net = Gen.wifMainnetName.toList then Gen.wifVersionMain else Gen.wifVersionOther) :: natToBE' 32 secret := by
      rw [List.dropLast_concat]
    simp only [hlast, ne_eq, not_true_eq_false, if_false, hdl, hsec, hrange]
    by_cases hn : net = Gen.wifMainnetName.toList
    · simp [hn, Gen.wifVersionMain, Gen.wifParseTestByte, Gen.wifParseMainByte]
    · simp [hn, Gen.wifVersionOther, Gen.wifParseTestByte]
  | false =>
    have hl : ¬ (UInt8.ofNat (if net = Gen.wifMainnetName.toList then Gen.wifVersionMain else Gen.wifVersionOther) ::
        natToBE' 32 secret ++ []).length = Gen.wifParseCompressedLen := by
      simp [Gen.wifParseCompressedLen]
    simp only [Bool.false_eq_true, if_false, hl, List.append_nil, hsec, hrange]
    simp only [List.append_nil] at hl
    by_cases hn : net = Gen.wifMainnetName.toList
    · simp [hn, Gen.wifVersionMain, Gen.wifParseTestByte, Gen.wifParseMainByte]
      rw [hsec]
      omega
    · simp [hn, Gen.wifVersionOther, Gen.wifParseTestByte]
      rw [hsec]
      omega

theorem wif_isSome (hash256 : Bytes → Bytes) (secret : Nat) (hlo : 1 ≤ secret) (hhi : secret ≤ Gen.privMaxSecret)
    (net : Str) (compressed : Bool) : ∃ s, wif hash256 secret net compressed = some s := by
  have h256 : secret < 256 ^ 32 := by
    have : Gen.privMaxSecret < 256 ^ 32 := by decide
    omega
  have hrange : ¬ (secret > Gen.privMaxSecret ∨ secret < Gen.privMinSecret) := by
    simp only [Gen.privMinSecret]; omega
  unfold wif
  rw [if_neg hrange]
  simp only [Gen.wifSecretWidth, natToBE, h256, if_true]
  exact encodeBase58Checksum_isSome hash256 _ _

end Buidl.Address
