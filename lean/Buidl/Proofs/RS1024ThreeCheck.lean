/-
  Buidl.Proofs.RS1024ThreeCheck — the kernel computation behind three-word error detection (module of its own).

  Three errors d₁, d₂, d₃ (< 1024) at positions p₁ < p₂ < p₃ cancel iff  L^s(d₁) ⊕ L^g(d₂) ⊕ d₃ = 0  with
  s = p₃ − p₁, g = p₃ − p₂.  As d₃ only touches the low ten bits it suffices that the 20 high parts (bits 10…29)
  of L^s(2^j), L^g(2^j), j < 10, are linearly independent over GF(2).  Independence is certified by an inverse
  matrix: `invert` (Gauss–Jordan on Nat bitmasks, NOT verified) proposes it, `checkInv` verifies that it maps
  the 20 images back to the unit vectors.  Done for all 1 ≤ g < s ≤ 32 (every triple of positions of a 20- or
  33-word share).
-/
import Buidl.Proofs.RS1024TwoCheck
namespace Buidl.Shamir
open Buidl

/-- bits 10 and up -/
def hi (x : Nat) : Nat := x >>> 10

/-- rows `v_i | e_i` as 40-bit numbers -/
def augment : Nat → List Nat → List Nat
  | _, [] => []
  | i, v :: r => (v ||| (1 <<< (20 + i))) :: augment (i + 1) r

/-- one Gauss–Jordan step on column `k` (unverified helper) -/
def gjStep (st : List Nat × List Nat) (k : Nat) : List Nat × List Nat :=
  match st.2.find? (fun r => r.testBit k) with
  | none => st
  | some p =>
    let elim := fun r : Nat => if r.testBit k then r ^^^ p else r
    (st.1.map elim ++ [p], (st.2.erase p).map elim)

/-- proposed inverse: entry `k` is the combination of the `v_i` that gives the unit vector `e_k` -/
def invert (vs : List Nat) : List Nat :=
  (((List.range 20).foldl gjStep ([], augment 0 vs)).1).map (· >>> 20)

/-- `m` maps the images of the unit vectors under `vs` back to the unit vectors -/
def checkInv (vs m : List Nat) : Bool :=
  (List.range 20).all fun i => combo m (combo vs (2 ^ i)) == 2 ^ i

def checkPair (ws wg : List Nat) : Bool :=
  checkInv (ws.map hi ++ wg.map hi) (invert (ws.map hi ++ wg.map hi))

/-- every element against all earlier ones -/
def pairsFrom (prev : List (List Nat)) : List (List Nat) → Bool
  | [] => true
  | ws :: rest => prev.all (fun wg => checkPair ws wg) && pairsFrom (prev ++ [ws]) rest

/-- `[basisAt (g+1), …, basisAt (g+n)]` computed by repeated application of `L` -/
def basesChain : Nat → List Nat → List (List Nat)
  | 0, _ => []
  | n + 1, ws => ws.map rsL :: basesChain n (ws.map rsL)

theorem three_check : pairsFrom [] (basesChain 32 (basisAt 0)) = true := by decide +kernel

end Buidl.Shamir
