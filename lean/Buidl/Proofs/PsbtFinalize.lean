/-
  Buidl.Proofs.PsbtFinalize — PSBTIn.finalize (buidl/psbt.py), model `Buidl.Psbt.finalizeIn`.

  Property clause: "finalize raises iff fewer than m of the script's keys have signatures, otherwise
  emits the first m in script order — a function of the SET of signatures only".

    1. the two collection loops: `collectWitnessSigs` / `collectScriptSigs` with `1 ≤ m` return the
       first `m` signatures of the script's keys in script order (`collect*_acc`, `collect*_eq`);
       for `m ≤ 0` the first command (p2wsh) / first data push (p2sh) ends the loop (`collect*_nonpos`)
    2. counting: with distinct keys in the script, `(scriptSigs sigs cmds).length ≤ sigs.length`
       (`scriptSigs_length_le`), so the test `len(self.sigs) < num_sigs` is implied by the second one
    3. per branch of `finalizeIn` a closed form (`finalizeIn_witness`, `finalizeIn_p2sh`,
       `finalizeIn_p2sh_fixed`, `finalizeIn_p2wpkh`, `finalizeIn_p2pkh`) and from it
         `finalize_*_iff` / `finalize_*_raises_iff`   when it raises
         `finalize_*_emits`                           what it installs
         `finalize_*_set_only`                        the insertion order of the signatures is irrelevant
       (`finalizeIn_sigs_ext`: for every branch and both variants, two dicts with the same lookups
       finalise identically)
    4. F10d: today's p2sh count includes the leading OP_0 (`F10d_general`, `F10d_witness`)

  The branch conditions are bundled in `WitnessBranch`, `P2shBranch`, `P2wpkhBranch`, `P2pkhBranch`
  (hypotheses on the input map in the model's own predicates); each has a concrete inhabitant below.
-/
import Buidl.Model.PsbtFlow
import Buidl.Proofs.PsbtDict
namespace Buidl.Psbt
open Buidl Buidl.Script

/-! ## the loops -/

/-- the signatures of the script's keys, in script order -/
def scriptSigs (sigs : Dict Bytes) (cmds : List Cmd) : List Bytes :=
  cmds.filterMap fun c => match c with | .push k => dget sigs k | .op _ => none

/-- the data pushes of a script -/
def scriptKeys (cmds : List Cmd) : List Bytes :=
  cmds.filterMap fun c => match c with | .push k => some k | .op _ => none

@[simp] theorem scriptSigs_nil (sigs : Dict Bytes) : scriptSigs sigs [] = [] := rfl
theorem scriptSigs_op (sigs : Dict Bytes) (n : Nat) (r : List Cmd) :
    scriptSigs sigs (.op n :: r) = scriptSigs sigs r := rfl
theorem scriptSigs_push_none {sigs : Dict Bytes} {k : Bytes} (r : List Cmd) (h : dget sigs k = none) :
    scriptSigs sigs (.push k :: r) = scriptSigs sigs r := by
  simp [scriptSigs, h]
theorem scriptSigs_push_some {sigs : Dict Bytes} {k s : Bytes} (r : List Cmd) (h : dget sigs k = some s) :
    scriptSigs sigs (.push k :: r) = s :: scriptSigs sigs r := by
  simp [scriptSigs, h]

theorem collectWitnessSigs_acc (sigs : Dict Bytes) (m : Int) (cmds : List Cmd) (acc : List Bytes)
    (h : (acc.length : Int) < m) :
    collectWitnessSigs sigs m cmds acc = acc ++ (scriptSigs sigs cmds).take (m.toNat - acc.length) := by
  induction cmds generalizing acc with
  | nil => simp [collectWitnessSigs]
  | cons c r ih =>
    cases c with
    | op n =>
      have : ¬ ((acc.length : Int) ≥ m) := by omega
      simp only [collectWitnessSigs, this, if_false, scriptSigs_op]
      exact ih acc h
    | push k =>
      cases hk : dget sigs k with
      | none =>
        have : ¬ ((acc.length : Int) ≥ m) := by omega
        simp only [collectWitnessSigs, hk, this, if_false, scriptSigs_push_none r hk]
        exact ih acc h
      | some s =>
        simp only [collectWitnessSigs, hk, scriptSigs_push_some r hk]
        by_cases hge : (((acc ++ [s]).length : Nat) : Int) ≥ m
        · simp only [hge, if_true]
          have : m.toNat - acc.length = 1 := by
            simp only [List.length_append, List.length_singleton] at hge; omega
          rw [this]; simp
        · simp only [hge, if_false]
          rw [ih (acc ++ [s]) (by omega)]
          have : m.toNat - acc.length = (m.toNat - (acc ++ [s]).length) + 1 := by
            simp only [List.length_append, List.length_singleton] at hge ⊢; omega
          rw [this, List.take_succ_cons]; simp

theorem collectScriptSigs_acc (sigs : Dict Bytes) (m : Int) (cmds : List Cmd) (acc : List Bytes)
    (h : (acc.length : Int) < m) :
    collectScriptSigs sigs m cmds acc = acc ++ (scriptSigs sigs cmds).take (m.toNat - acc.length) := by
  induction cmds generalizing acc with
  | nil => simp [collectScriptSigs]
  | cons c r ih =>
    cases c with
    | op n =>
      simp only [collectScriptSigs, scriptSigs_op]
      exact ih acc h
    | push k =>
      cases hk : dget sigs k with
      | none =>
        have : ¬ ((acc.length : Int) ≥ m) := by omega
        simp only [collectScriptSigs, hk, this, if_false, scriptSigs_push_none r hk]
        exact ih acc h
      | some s =>
        simp only [collectScriptSigs, hk, scriptSigs_push_some r hk]
        by_cases hge : (((acc ++ [s]).length : Nat) : Int) ≥ m
        · simp only [hge, if_true]
          have : m.toNat - acc.length = 1 := by
            simp only [List.length_append, List.length_singleton] at hge; omega
          rw [this]; simp
        · simp only [hge, if_false]
          rw [ih (acc ++ [s]) (by omega)]
          have : m.toNat - acc.length = (m.toNat - (acc ++ [s]).length) + 1 := by
            simp only [List.length_append, List.length_singleton] at hge ⊢; omega
          rw [this, List.take_succ_cons]; simp

/-- the p2wsh loop, `1 ≤ m`: the first `m` signatures of the script's keys, in script order -/
theorem collectWitnessSigs_eq (sigs : Dict Bytes) {m : Int} (hm : 1 ≤ m) (cmds : List Cmd) :
    collectWitnessSigs sigs m cmds [] = (scriptSigs sigs cmds).take m.toNat := by
  rw [collectWitnessSigs_acc sigs m cmds [] (by simp; omega)]; simp

/-- the p2sh loop, `1 ≤ m`: the same list -/
theorem collectScriptSigs_eq (sigs : Dict Bytes) {m : Int} (hm : 1 ≤ m) (cmds : List Cmd) :
    collectScriptSigs sigs m cmds [] = (scriptSigs sigs cmds).take m.toNat := by
  rw [collectScriptSigs_acc sigs m cmds [] (by simp; omega)]; simp

/-- both loops compute the same list when `1 ≤ m` (they differ for `m ≤ 0`, below) -/
theorem collectScriptSigs_eq_collectWitnessSigs (sigs : Dict Bytes) {m : Int} (hm : 1 ≤ m) (cmds : List Cmd) :
    collectScriptSigs sigs m cmds [] = collectWitnessSigs sigs m cmds [] := by
  rw [collectScriptSigs_eq sigs hm, collectWitnessSigs_eq sigs hm]

/-- `m ≤ 0` (OP_0 or OP_1NEGATE as first command): the `>=` test after the first command ends the
    p2wsh loop, so at most the first command's signature is collected -/
theorem collectWitnessSigs_nonpos (sigs : Dict Bytes) {m : Int} (hm : m ≤ 0) (cmds : List Cmd) :
    collectWitnessSigs sigs m cmds [] = scriptSigs sigs (cmds.take 1) := by
  have hm' : ∀ n : Nat, (n : Int) ≥ m := fun n => by omega
  cases cmds with
  | nil => rfl
  | cons c r =>
    cases c with
    | op n => simp only [collectWitnessSigs, hm', if_true]; rfl
    | push k =>
      cases hk : dget sigs k with
      | none =>
        simp only [collectWitnessSigs, hk, hm', if_true, List.take_succ_cons, List.take_zero,
          scriptSigs_push_none [] hk, scriptSigs_nil]
      | some s =>
        simp only [collectWitnessSigs, hk, hm', if_true, List.take_succ_cons, List.take_zero,
          scriptSigs_push_some [] hk, scriptSigs_nil, List.nil_append]

/-- `m ≤ 0`: the p2sh loop skips the opcodes and stops after the first data push -/
theorem collectScriptSigs_nonpos (sigs : Dict Bytes) {m : Int} (hm : m ≤ 0) (cmds : List Cmd) :
    collectScriptSigs sigs m cmds [] = ((scriptKeys cmds).take 1).filterMap (dget sigs) := by
  have hm' : ∀ n : Nat, (n : Int) ≥ m := fun n => by omega
  induction cmds with
  | nil => rfl
  | cons c r ih =>
    cases c with
    | op n => simp only [collectScriptSigs]; exact ih
    | push k =>
      have e : scriptKeys (.push k :: r) = k :: scriptKeys r := rfl
      cases hk : dget sigs k with
      | none =>
        simp only [collectScriptSigs, hk, hm', if_true, e, List.take_succ_cons, List.take_zero,
          List.filterMap_cons, List.filterMap_nil]
      | some s =>
        simp only [collectScriptSigs, hk, hm', if_true, e, List.take_succ_cons, List.take_zero,
          List.filterMap_cons, List.filterMap_nil, List.nil_append]

/-- in `finalize` the first command is the quorum opcode, so for every `m` (also `OP_0`,
    `OP_1NEGATE`) the p2wsh loop returns the first `m` script signatures (none for `m ≤ 0`) -/
theorem collectWitnessSigs_of_quorum (sigs : Dict Bytes) {m : Int} {cmds : List Cmd}
    (hq : opCodeToNumber cmds[0]? = some m) :
    collectWitnessSigs sigs m cmds [] = (scriptSigs sigs cmds).take m.toNat := by
  by_cases hm : 1 ≤ m
  · exact collectWitnessSigs_eq sigs hm cmds
  · have hm0 : m ≤ 0 := by omega
    rw [collectWitnessSigs_nonpos sigs hm0]
    have : m.toNat = 0 := by omega
    rw [this, List.take_zero]
    match cmds, hq with
    | .op n :: r, _ => rfl
    | .push _ :: _, hq => simp [opCodeToNumber] at hq
    | [], hq => simp [opCodeToNumber] at hq

/-! ## counting -/

theorem scriptSigs_eq_filterMap_keys (sigs : Dict Bytes) (cmds : List Cmd) :
    scriptSigs sigs cmds = (scriptKeys cmds).filterMap (dget sigs) := by
  induction cmds with
  | nil => rfl
  | cons c r ih =>
    cases c with
    | op n => exact ih
    | push k =>
      have e : scriptKeys (.push k :: r) = k :: scriptKeys r := rfl
      cases hk : dget sigs k with
      | none => rw [scriptSigs_push_none r hk, e, List.filterMap_cons, hk]; exact ih
      | some s => rw [scriptSigs_push_some r hk, e, List.filterMap_cons, hk, ih]

/-- a list without repetition inside another list is not longer -/
private theorem length_le_of_nodup_subset {α : Type} [DecidableEq α] {l : List α} (hl : l.Nodup) {l' : List α}
    (hs : ∀ x ∈ l, x ∈ l') : l.length ≤ l'.length := by
  induction l generalizing l' with
  | nil => simp
  | cons a r ih =>
    rw [List.nodup_cons] at hl
    have ha : a ∈ l' := hs a (List.mem_cons_self ..)
    have hr : ∀ x ∈ r, x ∈ l'.erase a := by
      intro x hx
      have hne : x ≠ a := fun e => hl.1 (e ▸ hx)
      exact (List.mem_erase_of_ne hne).mpr (hs x (List.mem_cons_of_mem _ hx))
    have := ih hl.2 hr
    rw [List.length_erase_of_mem ha] at this
    have hpos : 0 < l'.length := List.length_pos_of_mem ha
    simp only [List.length_cons]; omega

private theorem length_filterMap_dget_le (sigs : Dict Bytes) {keys : List Bytes} (hk : keys.Nodup) :
    (keys.filterMap (dget sigs)).length ≤ sigs.length := by
  have h1 : (keys.filterMap (dget sigs)).length = (keys.filter fun k => (dget sigs k).isSome).length := by
    clear hk
    induction keys with
    | nil => rfl
    | cons k r ih =>
      cases h : dget sigs k with
      | none => simp [h, ih]
      | some s => simp [h, ih]
  rw [h1]
  have h2 : (keys.filter fun k => (dget sigs k).isSome).length ≤ (dkeys sigs).length :=
    length_le_of_nodup_subset (hk.sublist List.filter_sublist) (by
      intro x hx
      rw [List.mem_filter] at hx
      exact (mem_dkeys_iff sigs x).mpr hx.2)
  simpa [dkeys] using h2

/-- every signature found belongs to a different key of the dict: with distinct keys in the script
    the number of script signatures is at most `len(self.sigs)`.  (`DNodup sigs` is not needed.) -/
theorem scriptSigs_length_le (sigs : Dict Bytes) {cmds : List Cmd} (hk : (scriptKeys cmds).Nodup) :
    (scriptSigs sigs cmds).length ≤ sigs.length := by
  rw [scriptSigs_eq_filterMap_keys]; exact length_filterMap_dget_le sigs hk

/-! ## only the lookups matter -/

/-- the lookups decide the script signatures -/
theorem scriptSigs_congr {s s' : Dict Bytes} (h : ∀ k, dget s k = dget s' k) (cmds : List Cmd) :
    scriptSigs s cmds = scriptSigs s' cmds := by
  have : dget s = dget s' := funext h
  simp only [scriptSigs, this]

theorem collectWitnessSigs_congr {s s' : Dict Bytes} (h : ∀ k, dget s k = dget s' k) (m : Int)
    (cmds : List Cmd) (acc : List Bytes) :
    collectWitnessSigs s m cmds acc = collectWitnessSigs s' m cmds acc := by
  induction cmds generalizing acc with
  | nil => rfl
  | cons c r ih => simp only [collectWitnessSigs, h, ih]

theorem collectScriptSigs_congr {s s' : Dict Bytes} (h : ∀ k, dget s k = dget s' k) (m : Int)
    (cmds : List Cmd) (acc : List Bytes) :
    collectScriptSigs s m cmds acc = collectScriptSigs s' m cmds acc := by
  induction cmds generalizing acc with
  | nil => rfl
  | cons c r ih =>
    cases c with
    | op n => simp only [collectScriptSigs, ih]
    | push k => simp only [collectScriptSigs, h, ih]

theorem dlength_eq_of_dget_eq {s s' : Dict Bytes} (hs : DNodup s) (hs' : DNodup s')
    (h : ∀ k, dget s k = dget s' k) : s.length = s'.length := by
  have := (dkeys_perm_of_dget_eq hs hs' h).length_eq
  simpa [dkeys] using this

/-- a one-entry dict is determined by its lookups -/
theorem dsingle_of_dget_eq {s s' : Dict Bytes} (hs : DNodup s) (hs' : DNodup s')
    (h : ∀ k, dget s k = dget s' k) {sec sig : Bytes} (e : s = [(sec, sig)]) : s' = [(sec, sig)] := by
  have hl := dlength_eq_of_dget_eq hs hs' h
  subst e
  match s', hl, h with
  | [(k, v)], _, h =>
    have := h sec
    simp only [dget_cons, if_true, dget_nil] at this
    by_cases hk : k = sec
    · subst hk; simp only [if_true, Option.some.injEq] at this; subst this; rfl
    · simp [hk] at this

/-! ## `finalizeIn`, branch by branch -/

/-- the input map `finalize` leaves behind: ScriptSig and Witness set, everything else reset -/
def finalized {Tx} (p : PIn Tx) (ss : Option Script) (w : Option (List Bytes)) : PIn Tx :=
  { p with scriptSig := ss, witness := w, sigs := [], hashType := none, redeem := none,
           witnessScript := none, namedPubs := [] }

/-- the ScriptSig of the segwit branches: empty, or the single push of the RedeemScript -/
def segwitScriptSig : Option Script → Option Script
  | some r => singlePush r
  | none => some { cmds := [] }

/-- the conditions under which `finalize` takes the p2wsh / p2sh-p2wsh branch and gets as far as the
    signature count: ScriptPubKey `spk` present, a p2sh ScriptPubKey has its RedeemScript, neither
    `spk` nor the RedeemScript is p2wpkh, one of them is p2wsh, WitnessScript `ws` present with
    quorum opcode `m` and serialisation `wraw`, the RedeemScript (if any) serialises -/
structure WitnessBranch {Tx} (C : TxCodec Tx) (txin : TxInV) (p : PIn Tx) (spk ws : Script) (m : Int)
    (wraw : Bytes) : Prop where
  hspk : p.scriptPubkey C txin = some (some spk)
  redeemPresent : ¬ (isP2sh spk = true ∧ p.redeem = none)
  notP2wpkh : isP2wpkh spk = false
  redeemNotP2wpkh : ∀ r, p.redeem = some r → isP2wpkh r = false
  p2wsh : isP2wsh spk = true ∨ ∃ r, p.redeem = some r ∧ isP2wsh r = true
  hws : p.witnessScript = some ws
  quorum : opCodeToNumber ws.cmds[0]? = some m
  raw : rawOf ws = some wraw
  redeemRaw : ∀ r, p.redeem = some r → (rawOf r).isSome

/-- closed form of the p2wsh / p2sh-p2wsh branch (both variants of `finalizeIn`; every quorum `m`,
    also `m ≤ 0`).  With distinct keys in the WitnessScript the test `len(self.sigs) < num_sigs` is
    subsumed by the count of the collected signatures. -/
theorem finalizeIn_witness {Tx} {C : TxCodec Tx} {txin : TxInV} {p : PIn Tx} {spk ws : Script} {m : Int}
    {wraw : Bytes} (fc : Bool) (hb : WitnessBranch C txin p spk ws m wraw)
    (hk : (scriptKeys ws.cmds).Nodup) :
    finalizeIn fc C txin p =
      if m ≤ (scriptSigs p.sigs ws.cmds).length then
        some (finalized p (segwitScriptSig p.redeem)
          (some ([] :: (scriptSigs p.sigs ws.cmds).take m.toNat ++ [wraw])))
      else none := by
  obtain ⟨h1, h2, h3, h4, h5, h6, h7, h8, h9⟩ := hb
  have hle := scriptSigs_length_le p.sigs hk
  have hgl : (m ≤ ((collectWitnessSigs p.sigs m ws.cmds []).length : Nat)) ↔
      m ≤ ((scriptSigs p.sigs ws.cmds).length : Nat) := by
    rw [collectWitnessSigs_of_quorum p.sigs h7, List.length_take]; omega
  rw [← collectWitnessSigs_of_quorum p.sigs h7]
  cases hr : p.redeem with
  | none =>
    have hsh : isP2sh spk = false := by simpa [hr] using h2
    have hw : isP2wsh spk = true := by simpa [hr] using h5
    by_cases hq : m ≤ ((scriptSigs p.sigs ws.cmds).length : Nat)
    · have hq' : m ≤ (p.sigs.length : Nat) := by omega
      simp [finalizeIn, h1, hr, h6, h7, h8, req, h3, hsh, hw, hgl, hq, hq', finalized, segwitScriptSig]
    · simp [finalizeIn, h1, hr, h6, h7, h8, req, h3, hsh, hw, hgl, hq]
  | some r =>
    have h4' := h4 r hr
    have hw : isP2wsh spk = true ∨ isP2wsh r = true := by
      rcases h5 with h | ⟨r', e, h⟩
      · exact Or.inl h
      · rw [hr] at e; cases e; exact Or.inr h
    obtain ⟨rr, hrr⟩ := Option.isSome_iff_exists.mp (h9 r hr)
    by_cases hq : m ≤ ((scriptSigs p.sigs ws.cmds).length : Nat)
    · have hq' : m ≤ (p.sigs.length : Nat) := by omega
      simp [finalizeIn, h1, hr, h6, h7, h8, req, h3, h4', hw, hgl, hq, hq', finalized, segwitScriptSig,
        singlePush, hrr]
    · simp [finalizeIn, h1, hr, h6, h7, h8, req, h3, h4', hw, hgl, hq]

/-! the templates exclude one another by their lengths -/

theorem not_witness_of_isP2sh {s : Script} (h : isP2sh s = true) : isP2wpkh s = false ∧ isP2wsh s = false := by
  simp only [isP2sh, isP2wpkh, isP2wsh, pat, Gen.psbtP2shPattern, Gen.psbtP2wpkhPattern, Gen.psbtP2wshPattern,
    List.getD_cons_zero, Bool.and_eq_true, beq_iff_eq] at h ⊢
  have := h.1.1.1
  simp [this]

theorem not_others_of_isP2pkh {s : Script} (h : isP2pkh s = true) :
    isP2sh s = false ∧ isP2wpkh s = false ∧ isP2wsh s = false := by
  simp only [isP2pkh, isP2sh, isP2wpkh, isP2wsh, pat, Gen.psbtP2shPattern, Gen.psbtP2wpkhPattern, Gen.psbtP2wshPattern,
    Gen.psbtP2pkhPattern, List.getD_cons_zero, Bool.and_eq_true, beq_iff_eq] at h ⊢
  have := h.1.1.1.1.1
  simp [this]

/-- **a function of the set of signatures only**: in every branch, repaired or not, two dicts with
    the same lookups (the same set of key–signature pairs, inserted in any order) finalise
    identically -/
theorem finalizeIn_sigs_ext {Tx} (fc : Bool) (C : TxCodec Tx) (txin : TxInV) (p : PIn Tx) (s' : Dict Bytes)
    (hs : DNodup p.sigs) (hs' : DNodup s') (h : ∀ k, dget p.sigs k = dget s' k) :
    finalizeIn fc C txin { p with sigs := s' } = finalizeIn fc C txin p := by
  have hl := dlength_eq_of_dget_eq hs hs' h
  have hcw : collectWitnessSigs s' = collectWitnessSigs p.sigs := by
    funext m c a; exact (collectWitnessSigs_congr h m c a).symm
  have hcs : collectScriptSigs s' = collectScriptSigs p.sigs := by
    funext m c a; exact (collectScriptSigs_congr h m c a).symm
  obtain ⟨prevTx, prevOut, sigs, hashType, redeem, witnessScript, namedPubs, scriptSig, witness, extra, value⟩ := p
  simp only at hs h hl hcw hcs ⊢
  match sigs, s', hl with
  | [], [], _ => rfl
  | [(k, v)], s', _ =>
    have := dsingle_of_dget_eq hs hs' h rfl
    subst this; rfl
  | (k1, v1) :: (k2, v2) :: t, (k1', v1') :: (k2', v2') :: t', hl =>
    simp only [List.length_cons] at hl
    have hl' : t'.length = t.length := by omega
    simp only [finalizeIn, PIn.scriptPubkey, hcw, hcs, List.length_cons, hl']

variable {Tx : Type} {C : TxCodec Tx} {txin : TxInV} {p : PIn Tx}

/-! ### the witness-script multisig branch: the three statements -/

theorem finalize_witness_iff {spk ws : Script} {m : Int} {wraw : Bytes} (fc : Bool)
    (hb : WitnessBranch C txin p spk ws m wraw) (hk : (scriptKeys ws.cmds).Nodup) :
    (finalizeIn fc C txin p).isSome ↔ m ≤ ((scriptSigs p.sigs ws.cmds).length : Nat) := by
  rw [finalizeIn_witness fc hb hk]
  split <;> simp [*]

theorem finalize_witness_raises_iff {spk ws : Script} {m : Int} {wraw : Bytes} (fc : Bool)
    (hb : WitnessBranch C txin p spk ws m wraw) (hk : (scriptKeys ws.cmds).Nodup) :
    finalizeIn fc C txin p = none ↔ ((scriptSigs p.sigs ws.cmds).length : Nat) < m := by
  rw [finalizeIn_witness fc hb hk]
  split <;> simp [*] <;> omega

theorem finalize_witness_emits {spk ws : Script} {m : Int} {wraw : Bytes} (fc : Bool)
    (hb : WitnessBranch C txin p spk ws m wraw) (hk : (scriptKeys ws.cmds).Nodup)
    {q : PIn Tx} (hq : finalizeIn fc C txin p = some q) :
    q.witness = some ([] :: (scriptSigs p.sigs ws.cmds).take m.toNat ++ [wraw]) ∧
    q.scriptSig = segwitScriptSig p.redeem ∧
    q.sigs = [] ∧ q.redeem = none ∧ q.witnessScript = none ∧ q.namedPubs = [] ∧ q.hashType = none ∧
    q.prevTx = p.prevTx ∧ q.prevOut = p.prevOut ∧ q.extra = p.extra ∧ q.value = p.value := by
  rw [finalizeIn_witness fc hb hk] at hq
  split at hq
  · cases hq; simp [finalized]
  · cases hq

theorem segwitScriptSig_none : segwitScriptSig none = some { cmds := [] } := rfl
theorem segwitScriptSig_some (r : Script) : segwitScriptSig (some r) = singlePush r := rfl
theorem singlePush_of_raw {r : Script} {rraw : Bytes} (h : rawOf r = some rraw) :
    singlePush r = some { cmds := [.push rraw] } := by simp [singlePush, h]

/-- the branch conditions do not mention the signatures -/
theorem WitnessBranch.with_sigs {spk ws : Script} {m : Int} {wraw : Bytes}
    (hb : WitnessBranch C txin p spk ws m wraw) (s' : Dict Bytes) :
    WitnessBranch C txin { p with sigs := s' } spk ws m wraw := by
  obtain ⟨h1, h2, h3, h4, h5, h6, h7, h8, h9⟩ := hb
  exact ⟨h1, h2, h3, h4, h5, h6, h7, h8, h9⟩

/-- (an instance of `finalizeIn_sigs_ext`; the branch conditions are not needed) -/
theorem finalize_witness_set_only (s' : Dict Bytes) (hs : DNodup p.sigs) (hs' : DNodup s')
    (h : ∀ k, dget p.sigs k = dget s' k) :
    finalizeIn true C txin { p with sigs := s' } = finalizeIn true C txin p :=
  finalizeIn_sigs_ext true C txin p s' hs hs' h

/-- variant: with distinct keys in the script even lists with repeated keys (not Python dicts) with
    the same lookups give the same result -/
theorem finalize_witness_set_only' {spk ws : Script} {m : Int} {wraw : Bytes}
    (hb : WitnessBranch C txin p spk ws m wraw) (hk : (scriptKeys ws.cmds).Nodup)
    (s' : Dict Bytes) (h : ∀ k, dget p.sigs k = dget s' k) :
    finalizeIn true C txin { p with sigs := s' } = finalizeIn true C txin p := by
  rw [finalizeIn_witness true hb hk, finalizeIn_witness true (hb.with_sigs s') hk]
  simp only [scriptSigs_congr h ws.cmds]
  rfl

/-! ### bare p2sh multisig -/

/-- the conditions of the bare p2sh branch: p2sh ScriptPubKey (hence not p2wpkh / p2wsh), RedeemScript
    `r` present and neither p2wpkh nor p2wsh, quorum opcode `m`, serialisation `rraw` -/
structure P2shBranch {Tx} (C : TxCodec Tx) (txin : TxInV) (p : PIn Tx) (spk r : Script) (m : Int)
    (rraw : Bytes) : Prop where
  hspk : p.scriptPubkey C txin = some (some spk)
  hp2sh : isP2sh spk = true
  hredeem : p.redeem = some r
  redeemNotP2wpkh : isP2wpkh r = false
  redeemNotP2wsh : isP2wsh r = false
  quorum : opCodeToNumber r.cmds[0]? = some m
  raw : rawOf r = some rraw

/-- both variants of the p2sh branch, without any assumption on repeated keys -/
theorem finalizeIn_p2sh {spk r : Script} {m : Int} {rraw : Bytes} (fc : Bool)
    (hb : P2shBranch C txin p spk r m rraw) (hm : 1 ≤ m) :
    finalizeIn fc C txin p =
      if m ≤ (p.sigs.length : Nat) ∧
         m ≤ (((scriptSigs p.sigs r.cmds).length + (if fc then 0 else 1) : Nat) : Int) then
        some (finalized p
          (some { cmds := .op 0 :: ((scriptSigs p.sigs r.cmds).take m.toNat).map .push ++ [.push rraw] })
          p.witness)
      else none := by
  obtain ⟨h1, h2, h3, h4, h5, h6, h7⟩ := hb
  obtain ⟨h8, h9⟩ := not_witness_of_isP2sh h2
  have hgl : ∀ j : Nat, j ≤ 1 → ((m ≤ (((collectScriptSigs p.sigs m r.cmds []).length + j : Nat) : Int)) ↔
      m ≤ (((scriptSigs p.sigs r.cmds).length + j : Nat) : Int)) := by
    intro j hj
    rw [collectScriptSigs_eq p.sigs hm, List.length_take]; omega
  rw [← collectScriptSigs_eq p.sigs hm r.cmds]
  cases fc with
  | true =>
    have hg := hgl 0 (by omega)
    simp only [Nat.add_zero] at hg
    by_cases hq : m ≤ (p.sigs.length : Nat) ∧ m ≤ ((scriptSigs p.sigs r.cmds).length : Nat)
    · simp [finalizeIn, h1, h2, h3, h4, h5, h6, h7, h8, h9, req, hg, hq.1, hq.2, finalized]
    · simp [finalizeIn, h1, h2, h3, h4, h5, h6, h7, h8, h9, req, hg, hq]
      intro h; omega
  | false =>
    have hg : (m ≤ ((collectScriptSigs p.sigs m r.cmds []).length : Int) + 1) ↔
        m ≤ ((scriptSigs p.sigs r.cmds).length : Int) + 1 := by
      have := hgl 1 (by omega); omega
    by_cases hq : m ≤ (p.sigs.length : Nat) ∧ m ≤ ((scriptSigs p.sigs r.cmds).length : Int) + 1
    · simp [finalizeIn, h1, h2, h3, h4, h5, h6, h7, h8, h9, req, hg, hq.1, hq.2, finalized]
    · simp [finalizeIn, h1, h2, h3, h4, h5, h6, h7, h8, h9, req, hg, hq]
      intro h; omega


/-- the repaired p2sh branch with distinct keys in the RedeemScript -/
theorem finalizeIn_p2sh_fixed {spk r : Script} {m : Int} {rraw : Bytes}
    (hb : P2shBranch C txin p spk r m rraw) (hm : 1 ≤ m) (hk : (scriptKeys r.cmds).Nodup) :
    finalizeIn true C txin p =
      if m ≤ ((scriptSigs p.sigs r.cmds).length : Nat) then
        some (finalized p
          (some { cmds := .op 0 :: ((scriptSigs p.sigs r.cmds).take m.toNat).map .push ++ [.push rraw] })
          p.witness)
      else none := by
  have hle := scriptSigs_length_le p.sigs hk
  rw [finalizeIn_p2sh true hb hm]
  by_cases hq : m ≤ ((scriptSigs p.sigs r.cmds).length : Nat)
  · have : m ≤ (p.sigs.length : Nat) := by omega
    simp [hq, this]
  · simp [hq]

theorem finalize_p2sh_iff {spk r : Script} {m : Int} {rraw : Bytes}
    (hb : P2shBranch C txin p spk r m rraw) (hm : 1 ≤ m) (hk : (scriptKeys r.cmds).Nodup) :
    (finalizeIn true C txin p).isSome ↔ m ≤ ((scriptSigs p.sigs r.cmds).length : Nat) := by
  rw [finalizeIn_p2sh_fixed hb hm hk]
  split <;> simp [*]

theorem finalize_p2sh_raises_iff {spk r : Script} {m : Int} {rraw : Bytes}
    (hb : P2shBranch C txin p spk r m rraw) (hm : 1 ≤ m) (hk : (scriptKeys r.cmds).Nodup) :
    finalizeIn true C txin p = none ↔ ((scriptSigs p.sigs r.cmds).length : Nat) < m := by
  rw [finalizeIn_p2sh_fixed hb hm hk]
  split <;> simp [*] <;> omega

theorem finalize_p2sh_emits {spk r : Script} {m : Int} {rraw : Bytes}
    (hb : P2shBranch C txin p spk r m rraw) (hm : 1 ≤ m) (hk : (scriptKeys r.cmds).Nodup)
    {q : PIn Tx} (hq : finalizeIn true C txin p = some q) :
    q.scriptSig = some { cmds := .op 0 :: ((scriptSigs p.sigs r.cmds).take m.toNat).map .push ++ [.push rraw] } ∧
    q.witness = p.witness ∧
    q.sigs = [] ∧ q.redeem = none ∧ q.witnessScript = none ∧ q.namedPubs = [] ∧ q.hashType = none ∧
    q.prevTx = p.prevTx ∧ q.prevOut = p.prevOut ∧ q.extra = p.extra ∧ q.value = p.value := by
  rw [finalizeIn_p2sh_fixed hb hm hk] at hq
  split at hq
  · cases hq; simp [finalized]
  · cases hq

theorem P2shBranch.with_sigs {spk r : Script} {m : Int} {rraw : Bytes}
    (hb : P2shBranch C txin p spk r m rraw) (s' : Dict Bytes) :
    P2shBranch C txin { p with sigs := s' } spk r m rraw := by
  obtain ⟨h1, h2, h3, h4, h5, h6, h7⟩ := hb
  exact ⟨h1, h2, h3, h4, h5, h6, h7⟩

/-- (an instance of `finalizeIn_sigs_ext`; the branch conditions are not needed) -/
theorem finalize_p2sh_set_only (s' : Dict Bytes) (hs : DNodup p.sigs) (hs' : DNodup s')
    (h : ∀ k, dget p.sigs k = dget s' k) :
    finalizeIn true C txin { p with sigs := s' } = finalizeIn true C txin p :=
  finalizeIn_sigs_ext true C txin p s' hs hs' h

theorem finalize_p2sh_set_only' {spk r : Script} {m : Int} {rraw : Bytes}
    (hb : P2shBranch C txin p spk r m rraw) (hm : 1 ≤ m) (hk : (scriptKeys r.cmds).Nodup)
    (s' : Dict Bytes) (h : ∀ k, dget p.sigs k = dget s' k) :
    finalizeIn true C txin { p with sigs := s' } = finalizeIn true C txin p := by
  rw [finalizeIn_p2sh_fixed hb hm hk, finalizeIn_p2sh_fixed (hb.with_sigs s') hm hk]
  simp only [scriptSigs_congr h r.cmds]
  rfl

/-! ### F10d -/

/-- F10d: today's count includes the leading OP_0, so one missing signature goes unnoticed as soon
    as the dict holds `m` entries (e.g. one under a key that is not in the RedeemScript): the input
    is "finalised" with `m - 1` signatures, where the repaired code raises. -/
theorem F10d_general {spk r : Script} {m : Int} {rraw : Bytes}
    (hb : P2shBranch C txin p spk r m rraw) (hm : 1 ≤ m)
    (hshort : (scriptSigs p.sigs r.cmds).length + 1 = m.toNat) (hlen : m ≤ (p.sigs.length : Nat)) :
    finalizeIn false C txin p =
      some (finalized p
        (some { cmds := .op 0 :: (scriptSigs p.sigs r.cmds).map .push ++ [.push rraw] }) p.witness) ∧
    finalizeIn true C txin p = none := by
  rw [finalizeIn_p2sh false hb hm, finalizeIn_p2sh true hb hm]
  have h1 : m ≤ (((scriptSigs p.sigs r.cmds).length + 1 : Nat) : Int) := by omega
  have h2 : ¬ m ≤ (((scriptSigs p.sigs r.cmds).length + 0 : Nat) : Int) := by omega
  have h3 : (scriptSigs p.sigs r.cmds).take m.toNat = scriptSigs p.sigs r.cmds :=
    List.take_of_length_le (by omega)
  constructor
  · rw [if_pos ⟨hlen, by simpa using h1⟩, h3]
  · rw [if_neg (by simpa using fun _ => h2)]

theorem F10d_isSome {spk r : Script} {m : Int} {rraw : Bytes}
    (hb : P2shBranch C txin p spk r m rraw) (hm : 1 ≤ m)
    (hshort : (scriptSigs p.sigs r.cmds).length + 1 = m.toNat) (hlen : m ≤ (p.sigs.length : Nat)) :
    (finalizeIn false C txin p).isSome = true := by
  rw [(F10d_general hb hm hshort hlen).1]; rfl

/-! ### the single-key branches -/

/-- p2wpkh / p2sh-p2wpkh -/
structure P2wpkhBranch {Tx} (C : TxCodec Tx) (txin : TxInV) (p : PIn Tx) (spk : Script) : Prop where
  hspk : p.scriptPubkey C txin = some (some spk)
  redeemPresent : ¬ (isP2sh spk = true ∧ p.redeem = none)
  p2wpkh : isP2wpkh spk = true ∨ ∃ r, p.redeem = some r ∧ isP2wpkh r = true
  redeemRaw : ∀ r, p.redeem = some r → (rawOf r).isSome

theorem finalizeIn_p2wpkh {spk : Script} (fc : Bool) (hb : P2wpkhBranch C txin p spk) :
    finalizeIn fc C txin p =
      match p.sigs with
      | [(sec, sig)] => some (finalized p (segwitScriptSig p.redeem) (some [sig, sec]))
      | _ => none := by
  obtain ⟨h1, h2, h3, h4⟩ := hb
  cases hr : p.redeem with
  | none =>
    have hsh : isP2sh spk = false := by simpa [hr] using h2
    have hw : isP2wpkh spk = true := by simpa [hr] using h3
    simp only [finalizeIn, h1, hr, req]
    split <;> simp_all [finalized, segwitScriptSig]
  | some r =>
    have hw : isP2wpkh spk = true ∨ isP2wpkh r = true := by
      rcases h3 with h | ⟨r', e, h⟩
      · exact Or.inl h
      · rw [hr] at e; cases e; exact Or.inr h
    obtain ⟨rr, hrr⟩ := Option.isSome_iff_exists.mp (h4 r hr)
    simp only [finalizeIn, h1, hr, req]
    split <;> simp_all [finalized, segwitScriptSig, singlePush]


private theorem length_eq_one_iff_single (s : Dict Bytes) : s.length = 1 ↔ ∃ sec sig, s = [(sec, sig)] := by
  match s with
  | [] => simp
  | [(k, v)] => simp
  | _ :: _ :: _ => simp

theorem finalize_p2wpkh_iff {spk : Script} (fc : Bool) (hb : P2wpkhBranch C txin p spk) :
    (finalizeIn fc C txin p).isSome ↔ p.sigs.length = 1 := by
  rw [finalizeIn_p2wpkh fc hb, length_eq_one_iff_single]
  split
  · rename_i sec sig e
    simp only [Option.isSome_some, true_iff]
    exact ⟨sec, sig, e⟩
  · rename_i h
    simp only [Option.isSome_none, Bool.false_eq_true, false_iff]
    rintro ⟨sec, sig, e⟩
    exact h sec sig e

theorem finalize_p2wpkh_emits {spk : Script} (fc : Bool) (hb : P2wpkhBranch C txin p spk)
    {q : PIn Tx} (hq : finalizeIn fc C txin p = some q) :
    ∃ sec sig, p.sigs = [(sec, sig)] ∧
      q.witness = some [sig, sec] ∧ q.scriptSig = segwitScriptSig p.redeem ∧
      q.sigs = [] ∧ q.redeem = none ∧ q.witnessScript = none ∧ q.namedPubs = [] ∧ q.hashType = none ∧
      q.prevTx = p.prevTx ∧ q.prevOut = p.prevOut ∧ q.extra = p.extra ∧ q.value = p.value := by
  rw [finalizeIn_p2wpkh fc hb] at hq
  split at hq
  · rename_i sec sig e
    cases hq
    exact ⟨sec, sig, e, by simp [finalized]⟩
  · cases hq

/-- p2pkh -/
structure P2pkhBranch {Tx} (C : TxCodec Tx) (txin : TxInV) (p : PIn Tx) (spk : Script) : Prop where
  hspk : p.scriptPubkey C txin = some (some spk)
  p2pkh : isP2pkh spk = true
  /-- a (stray) RedeemScript of segwit shape would send a p2pkh input into the segwit branches -/
  redeemNotP2wpkh : ∀ r, p.redeem = some r → isP2wpkh r = false
  redeemNotP2wsh : ∀ r, p.redeem = some r → isP2wsh r = false

theorem finalizeIn_p2pkh {spk : Script} (fc : Bool) (hb : P2pkhBranch C txin p spk) :
    finalizeIn fc C txin p =
      match p.sigs with
      | [(sec, sig)] => some (finalized p (some { cmds := [.push sig, .push sec] }) p.witness)
      | _ => none := by
  obtain ⟨h1, h2, h3, h4⟩ := hb
  obtain ⟨h5, h6, h7⟩ := not_others_of_isP2pkh h2
  cases hr : p.redeem with
  | none =>
    simp only [finalizeIn, h1, hr, req]
    split <;> simp_all [finalized]
  | some r =>
    have h3' := h3 r hr
    have h4' := h4 r hr
    simp only [finalizeIn, h1, hr, req]
    split <;> simp_all [finalized]

theorem finalize_p2pkh_iff {spk : Script} (fc : Bool) (hb : P2pkhBranch C txin p spk) :
    (finalizeIn fc C txin p).isSome ↔ p.sigs.length = 1 := by
  rw [finalizeIn_p2pkh fc hb, length_eq_one_iff_single]
  split
  · rename_i sec sig e
    simp only [Option.isSome_some, true_iff]
    exact ⟨sec, sig, e⟩
  · rename_i h
    simp only [Option.isSome_none, Bool.false_eq_true, false_iff]
    rintro ⟨sec, sig, e⟩
    exact h sec sig e

theorem finalize_p2pkh_emits {spk : Script} (fc : Bool) (hb : P2pkhBranch C txin p spk)
    {q : PIn Tx} (hq : finalizeIn fc C txin p = some q) :
    ∃ sec sig, p.sigs = [(sec, sig)] ∧
      q.scriptSig = some { cmds := [.push sig, .push sec] } ∧ q.witness = p.witness ∧
      q.sigs = [] ∧ q.redeem = none ∧ q.witnessScript = none ∧ q.namedPubs = [] ∧ q.hashType = none ∧
      q.prevTx = p.prevTx ∧ q.prevOut = p.prevOut ∧ q.extra = p.extra ∧ q.value = p.value := by
  rw [finalizeIn_p2pkh fc hb] at hq
  split at hq
  · rename_i sec sig e
    cases hq
    exact ⟨sec, sig, e, by simp [finalized]⟩
  · cases hq

/-! ## concrete instances -/

/-- a transaction is its output list; nothing is serialised or parsed -/
def toyCodec : TxCodec (List TxOutV) where
  parseLegacy := fun _ => none
  parse := fun _ => none
  serialize := fun _ => some []
  serializeLegacy := fun _ => some []
  hash := fun _ => some []
  ins := fun _ => []
  outs := id
  finalSerialize := fun _ _ => some []

def toyTxin : TxInV := { prevTx := [], prevIndex := 0, scriptSigEmpty := true }

/-- 2-of-3 over the "keys" [1], [2], [3] -/
def toyMultisig : Script := { cmds := [.op 82, .push [1], .push [2], .push [3], .op 83, .op 174] }
def toyMultisigRaw : Bytes := [82, 1, 1, 1, 2, 1, 3, 83, 174]
def toyP2wshSpk : Script := { cmds := [.op 0, .push (List.replicate 32 0)] }
def toyP2shSpk : Script := { cmds := [.op 169, .push (List.replicate 20 0), .op 135] }

/-- p2wsh 2-of-3 with the signatures of keys [3] and [1] (inserted in that order) -/
def toyWitnessIn : PIn (List TxOutV) :=
  { prevOut := some { amount := 0, spk := toyP2wshSpk }
    witnessScript := some toyMultisig
    sigs := [([3], [0xA3]), ([1], [0xA1])] }

example : WitnessBranch toyCodec toyTxin toyWitnessIn toyP2wshSpk toyMultisig 2 toyMultisigRaw :=
  ⟨by decide, by decide, by decide, (by intro r h; cases h), Or.inl (by decide), rfl, by decide, by decide,
   (by intro r h; cases h)⟩
example : (scriptKeys toyMultisig.cmds).Nodup := by decide
example : DNodup toyWitnessIn.sigs := by unfold DNodup; decide
example : scriptSigs toyWitnessIn.sigs toyMultisig.cmds = [[0xA1], [0xA3]] := by decide
/-- the signatures come out in script order, not in insertion order -/
example : (finalizeIn true toyCodec toyTxin toyWitnessIn).map (fun q => (q.witness, q.scriptSig, q.sigs)) =
    some (some [[], [0xA1], [0xA3], toyMultisigRaw], some { cmds := [] }, []) := by decide
/-- one signature only: raises -/
example : (finalizeIn true toyCodec toyTxin { toyWitnessIn with sigs := [([3], [0xA3])] }).isSome = false := by
  decide

/-- bare p2sh 2-of-3 with the signature of key [1] and a signature under a key that is not in the
    RedeemScript -/
def toyP2shIn : PIn (List TxOutV) :=
  { prevTx := some [{ amount := 0, spk := toyP2shSpk }]
    redeem := some toyMultisig
    sigs := [([1], [0xA1]), ([9], [0xA9])] }

example : P2shBranch toyCodec toyTxin toyP2shIn toyP2shSpk toyMultisig 2 toyMultisigRaw :=
  ⟨by decide, by decide, rfl, by decide, by decide, by decide, by decide⟩

/-- F10d on a concrete input: one of two required signatures, and today's code finalises with a
    ScriptSig `OP_0 <sig1> <RedeemScript>`; the repaired code raises -/
theorem F10d_witness :
    (finalizeIn false toyCodec toyTxin toyP2shIn).map (·.scriptSig) =
      some (some { cmds := [.op 0, .push [0xA1], .push toyMultisigRaw] }) ∧
    (finalizeIn true toyCodec toyTxin toyP2shIn).isSome = false := by decide

/-- with both signatures the two variants agree -/
example :
    (finalizeIn true toyCodec toyTxin { toyP2shIn with sigs := [([2], [0xA2]), ([1], [0xA1])] }).map (·.scriptSig) =
      some (some { cmds := [.op 0, .push [0xA1], .push [0xA2], .push toyMultisigRaw] }) := by decide

/-- the hypothesis `(scriptKeys ws.cmds).Nodup` is needed: with the same key twice in the script
    "two script keys have signatures" although the dict has one entry, and `finalize` raises on its
    first test -/
example :
    let p : PIn (List TxOutV) :=
      { toyWitnessIn with
        witnessScript := some { cmds := [.op 82, .push [1], .push [1], .op 82, .op 174] }
        sigs := [([1], [0xA1])] }
    (scriptSigs p.sigs [.op 82, .push [1], .push [1], .op 82, .op 174]).length = 2 ∧
    (finalizeIn true toyCodec toyTxin p).isSome = false := by decide

/-- p2sh-p2wsh: the ScriptSig is the single push of the RedeemScript -/
def toyP2shP2wshIn : PIn (List TxOutV) :=
  { toyWitnessIn with prevOut := some { amount := 0, spk := toyP2shSpk }, redeem := some toyP2wshSpk }

example : WitnessBranch toyCodec toyTxin toyP2shP2wshIn toyP2shSpk toyMultisig 2 toyMultisigRaw :=
  ⟨by decide, by decide, by decide, (by intro r h; cases h; decide), Or.inr ⟨_, rfl, by decide⟩, rfl, by decide,
   by decide, (by intro r h; cases h; decide)⟩
example : (finalizeIn true toyCodec toyTxin toyP2shP2wshIn).map (fun q => (q.witness, q.scriptSig)) =
    some (some [[], [0xA1], [0xA3], toyMultisigRaw],
          some { cmds := [.push (0 :: 32 :: List.replicate 32 0)] }) := by decide

/-- the hypothesis `1 ≤ m` of the p2sh theorems is needed: with `OP_0` as quorum the p2sh loop stops
    after the first data push and emits its signature — one signature where "the first 0" are none
    (the p2wsh loop tests after the quorum opcode itself and emits none: `collectWitnessSigs_of_quorum`) -/
example :
    (finalizeIn true toyCodec toyTxin
      { toyP2shIn with redeem := some { cmds := [.op 0, .push [1], .op 81, .op 174] } }).map (·.scriptSig) =
      some (some { cmds := [.op 0, .push [0xA1], .push [0, 1, 1, 81, 174]] }) := by decide

/-! single-key inputs -/

def toyP2wpkhSpk : Script := { cmds := [.op 0, .push (List.replicate 20 0)] }
def toyP2pkhSpk : Script := { cmds := [.op 118, .op 169, .push (List.replicate 20 0), .op 136, .op 172] }

def toyP2wpkhIn : PIn (List TxOutV) :=
  { prevOut := some { amount := 0, spk := toyP2wpkhSpk }, sigs := [([2], [0xA2])] }
def toyP2pkhIn : PIn (List TxOutV) :=
  { prevTx := some [{ amount := 0, spk := toyP2pkhSpk }], sigs := [([2], [0xA2])] }

example : P2wpkhBranch toyCodec toyTxin toyP2wpkhIn toyP2wpkhSpk :=
  ⟨by decide, by decide, Or.inl (by decide), (by intro r h; cases h)⟩
example : (finalizeIn true toyCodec toyTxin toyP2wpkhIn).map (fun q => (q.witness, q.scriptSig)) =
    some (some [[0xA2], [2]], some { cmds := [] }) := by decide
example : P2pkhBranch toyCodec toyTxin toyP2pkhIn toyP2pkhSpk :=
  ⟨by decide, by decide, (by intro r h; cases h), (by intro r h; cases h)⟩
example : (finalizeIn true toyCodec toyTxin toyP2pkhIn).map (fun q => (q.witness, q.scriptSig)) =
    some (none, some { cmds := [.push [0xA2], .push [2]] }) := by decide
/-- two signatures: raises -/
example : (finalizeIn true toyCodec toyTxin { toyP2pkhIn with sigs := [([2], [0xA2]), ([3], [0xA3])] }).isSome =
    false := by decide

end Buidl.Psbt
