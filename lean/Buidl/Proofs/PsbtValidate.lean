/-
  PSBT.validate (Buidl.Model.PsbtCodec): what a successful run of the input loop establishes for
  every input — used for "a PSBT with a non-empty scriptSig / a non-verifying partial signature is
  refused".
-/
import Buidl.Model.PsbtCodec
namespace Buidl.Psbt
open Buidl

theorem req_eq_some {b : Bool} : req b = some () ↔ b = true := by
  unfold req; cases b <;> simp

theorem validateInsLoop_some {Tx : Type} (H : Hashes) (C : TxCodec Tx) (O : Oracles) (hd : Dict HdPub) :
    ∀ (i0 : Nat) (txins : List TxInV) (ps : List (PIn Tx)), validateInsLoop H C O hd i0 txins ps = some () →
      txins.length = ps.length ∧
      ∀ (j : Nat) (txin : TxInV) (p : PIn Tx), txins[j]? = some txin → ps[j]? = some p →
        validateIn H C txin p = some () ∧ txin.scriptSigEmpty = true ∧
        (p.scriptSig.isSome = true → O.verifyOK (i0 + j) p.scriptSig p.witness = true) ∧
        sigsOK O (i0 + j) p = true ∧ allNamedDeriveOK O hd p.namedPubs = true
  | _, [], [], _ => ⟨rfl, by intro j txin p h; simp at h⟩
  | _, [], _ :: _, h => by simp [validateInsLoop] at h
  | _, _ :: _, [], h => by simp [validateInsLoop] at h
  | i0, txin :: tr, p :: pr, h => by
    simp only [validateInsLoop, Option.bind_eq_bind] at h
    cases h1 : validateIn H C txin p with
    | none => simp [h1] at h
    | some u1 =>
    cases h2 : req txin.scriptSigEmpty with
    | none => simp [h1, h2] at h
    | some u2 =>
    simp only [h1, h2, Option.bind_some] at h
    have key : (p.scriptSig.isSome = true → O.verifyOK i0 p.scriptSig p.witness = true) ∧
        ((req (sigsOK O i0 p)).bind fun _ =>
          (req (allNamedDeriveOK O hd p.namedPubs)).bind fun _ => validateInsLoop H C O hd (i0 + 1) tr pr) = some () := by
      by_cases hs : p.scriptSig.isSome = true
      · rw [if_pos hs] at h
        cases h3 : req (O.verifyOK i0 p.scriptSig p.witness) with
        | none => simp [h3] at h
        | some u3 =>
          simp only [h3, Option.bind_some] at h
          exact ⟨fun _ => req_eq_some.mp h3, h⟩
      · rw [if_neg hs] at h
        exact ⟨fun hh => absurd hh hs, h⟩
    obtain ⟨hv, h⟩ := key
    cases h4 : req (sigsOK O i0 p) with
    | none => simp [h4] at h
    | some u4 =>
    cases h5 : req (allNamedDeriveOK O hd p.namedPubs) with
    | none => simp [h4, h5] at h
    | some u5 =>
    simp only [h4, h5, Option.bind_some] at h
    obtain ⟨hl, ih⟩ := validateInsLoop_some H C O hd (i0 + 1) tr pr h
    refine ⟨by simp [hl], ?_⟩
    intro j txin' p' hj hp
    cases j with
    | zero =>
      simp only [List.getElem?_cons_zero, Option.some.injEq] at hj hp
      subst hj; subst hp
      exact ⟨h1, req_eq_some.mp h2, hv, req_eq_some.mp h4, req_eq_some.mp h5⟩
    | succ j =>
      simp only [List.getElem?_cons_succ] at hj hp
      have := ih j txin' p' hj hp
      simpa [Nat.add_assoc, Nat.add_comm 1 j] using this

theorem validate_some_ins {Tx : Type} (H : Hashes) (C : TxCodec Tx) (O : Oracles) (p : Psbt Tx)
    (h : p.validate H C O = some ()) : validateInsLoop H C O p.hdPubs 0 (C.ins p.tx) p.ins = some () := by
  unfold Psbt.validate at h
  cases h1 : validateInsLoop H C O p.hdPubs 0 (C.ins p.tx) p.ins with
  | none => simp [h1] at h
  | some u => rfl

end Buidl.Psbt
