/-
  Helper lemmas about Buidl.Model.Script (the script codec): well-formedness, canonical form,
  `parseRaw (rawSerialize c) = canon c`.
-/
import Buidl.Proofs.Bytes
import Buidl.Model.Script
namespace Buidl.Script
open Buidl

/-! ### the extracted comparisons, as plain arithmetic -/

theorem parseCmp0 (x : Nat) : cmpAt Gen.parseCmp 0 x = decide (x ≥ 1) := by
  simp [cmpAt, Gen.parseCmp, cmpOp]
theorem parseCmp1 (x : Nat) : cmpAt Gen.parseCmp 1 x = decide (x ≤ 75) := by
  simp [cmpAt, Gen.parseCmp, cmpOp]
theorem parseCmp2 (x : Nat) : cmpAt Gen.parseCmp 2 x = (x == 76) := by
  simp [cmpAt, Gen.parseCmp, cmpOp]
theorem parseCmp3 (x : Nat) : cmpAt Gen.parseCmp 3 x = (x == 77) := by
  simp [cmpAt, Gen.parseCmp, cmpOp]
theorem parseCmp4 (x : Nat) : cmpAt Gen.parseCmp 4 x = (x == 78) := by
  simp [cmpAt, Gen.parseCmp, cmpOp]
theorem rawSerCmp0 (x : Nat) : cmpAt Gen.rawSerCmp 0 x = decide (x ≤ 75) := by
  simp [cmpAt, Gen.rawSerCmp, cmpOp]
theorem rawSerCmp1 (x : Nat) : cmpAt Gen.rawSerCmp 1 x = decide (x > 75) := by
  simp [cmpAt, Gen.rawSerCmp, cmpOp]
theorem rawSerCmp2 (x : Nat) : cmpAt Gen.rawSerCmp 2 x = decide (x < 256) := by
  simp [cmpAt, Gen.rawSerCmp, cmpOp]
theorem rawSerCmp3 (x : Nat) : cmpAt Gen.rawSerCmp 3 x = decide (x ≥ 256) := by
  simp [cmpAt, Gen.rawSerCmp, cmpOp]
theorem rawSerCmp4 (x : Nat) : cmpAt Gen.rawSerCmp 4 x = decide (x ≤ 520) := by
  simp [cmpAt, Gen.rawSerCmp, cmpOp]

/-! ### well-formed commands and the canonical form -/

/-- what the round trip covers: opcodes that are not push opcodes (0 or 79..255) and data elements
    of at most 520 bytes -/
def CmdWF : Cmd → Prop
  | .op n => n = 0 ∨ (79 ≤ n ∧ n ≤ 255)
  | .push d => d.length ≤ 520

instance : DecidablePred CmdWF := fun c => by
  cases c <;> unfold CmdWF <;> infer_instance

/-- N04c: the empty data element and OP_0 have the same byte (0x00) and the same meaning (push the
    empty string); parsing yields OP_0 -/
def canonCmd : Cmd → Cmd
  | .push [] => .op 0
  | c => c

def canon (cs : List Cmd) : List Cmd := cs.map canonCmd

theorem canonCmd_push_ne {d : Bytes} (h : d ≠ []) : canonCmd (.push d) = .push d := by
  cases d with
  | nil => exact absurd rfl h
  | cons _ _ => rfl

theorem canonCmd_idem (c : Cmd) : canonCmd (canonCmd c) = canonCmd c := by
  cases c with
  | op n => rfl
  | push d => cases d <;> rfl

theorem canon_idem (cs : List Cmd) : canon (canon cs) = canon cs := by
  simp [canon, canonCmd_idem]

/-- serialised size of a well-formed command -/
def cmdSize : Cmd → Nat
  | .op _ => 1
  | .push d => if d.length ≤ 75 then 1 + d.length else if d.length < 256 then 2 + d.length else 3 + d.length

def cmdsSize : List Cmd → Nat
  | [] => 0
  | c :: r => cmdSize c + cmdsSize r

/-! ### serCmd in closed form -/

theorem serCmd_op {n : Nat} (h : n ≤ 255) : serCmd (.op n) = some [UInt8.ofNat n] := by
  simp [serCmd, intToByte, h]

theorem serCmd_push_small {d : Bytes} (h : d.length ≤ 75) : serCmd (.push d) = some (UInt8.ofNat d.length :: d) := by
  have h' : d.length ≤ 255 := by omega
  simp [serCmd, rawSerCmp0, intToByte, h, h']

theorem serCmd_push_mid {d : Bytes} (h0 : 75 < d.length) (h : d.length < 256) :
    serCmd (.push d) = some (76 :: UInt8.ofNat d.length :: d) := by
  have h1 : ¬ d.length ≤ 75 := by omega
  have h' : d.length ≤ 255 := by omega
  simp [serCmd, rawSerCmp0, rawSerCmp1, rawSerCmp2, intToByte, h0, h, h1, h', Gen.rawSerPushdata1]

theorem serCmd_push_big {d : Bytes} (h0 : 256 ≤ d.length) (h : d.length ≤ 520) :
    serCmd (.push d) = some (77 :: natToLE' 2 d.length ++ d) := by
  have h1 : ¬ d.length ≤ 75 := by omega
  have h2 : ¬ d.length < 256 := by omega
  have h3 : d.length < 256 ^ 2 := by omega
  simp [serCmd, rawSerCmp0, rawSerCmp1, rawSerCmp2, rawSerCmp3, rawSerCmp4, intToByte, h0, h, h1, h2,
    Gen.rawSerPushdata2, natToLE_some h3]

theorem serCmd_length {c : Cmd} {b : Bytes} (wf : CmdWF c) (h : serCmd c = some b) : b.length = cmdSize c := by
  cases c with
  | op n =>
    have hn : n ≤ 255 := by unfold CmdWF at wf; omega
    rw [serCmd_op hn] at h; cases h; rfl
  | push d =>
    unfold CmdWF at wf
    by_cases h0 : d.length ≤ 75
    · rw [serCmd_push_small h0] at h; cases h; simp [cmdSize, h0]; omega
    · by_cases h1 : d.length < 256
      · rw [serCmd_push_mid (by omega) h1] at h; cases h; simp [cmdSize, h0, h1]; omega
      · rw [serCmd_push_big (by omega) wf] at h; cases h; simp [cmdSize, h0, h1]; omega

theorem serCmd_isSome {c : Cmd} (wf : CmdWF c) : ∃ b, serCmd c = some b := by
  cases c with
  | op n =>
    have hn : n ≤ 255 := by unfold CmdWF at wf; omega
    exact ⟨_, serCmd_op hn⟩
  | push d =>
    unfold CmdWF at wf
    by_cases h0 : d.length ≤ 75
    · exact ⟨_, serCmd_push_small h0⟩
    · by_cases h1 : d.length < 256
      · exact ⟨_, serCmd_push_mid (by omega) h1⟩
      · exact ⟨_, serCmd_push_big (by omega) wf⟩

theorem serCmd_canon (c : Cmd) : serCmd (canonCmd c) = serCmd c := by
  cases c with
  | op n => rfl
  | push d =>
    cases d with
    | nil => simp [canonCmd, serCmd, rawSerCmp0, intToByte]
    | cons _ _ => rfl

theorem canonCmd_wf {c : Cmd} (wf : CmdWF c) : CmdWF (canonCmd c) := by
  cases c with
  | op n => exact wf
  | push d =>
    cases d with
    | nil => simp [canonCmd, CmdWF]
    | cons _ _ => exact wf

/-! ### one iteration of the parse loop undoes one serCmd -/

theorem u8_toNat_ofNat_lt {n : Nat} (h : n < 256) : (UInt8.ofNat n).toNat = n := by
  rw [u8_ofNat_toNat]; omega

theorem parseLoop_step (f : Nat) (c : Cmd) (b rest : Bytes) (acc : List Cmd)
    (wf : CmdWF c) (h : serCmd c = some b) :
    parseLoop (f + 1) (b ++ rest) acc = parseLoop f rest (canonCmd c :: acc) := by
  cases c with
  | op n =>
    have hn : n ≤ 255 := by unfold CmdWF at wf; omega
    rw [serCmd_op hn] at h; cases h
    have e : (UInt8.ofNat n).toNat = n := u8_toNat_ofNat_lt (by omega)
    unfold CmdWF at wf
    simp only [List.cons_append, List.nil_append, parseLoop, e, parseCmp0, parseCmp1, parseCmp2, parseCmp3, parseCmp4]
    have a1 : ¬ (n ≥ 1 ∧ n ≤ 75) := by omega
    have a2 : ¬ n = 76 := by omega
    have a3 : ¬ n = 77 := by omega
    have a4 : ¬ n = 78 := by omega
    simp [a2, a3, a4, canonCmd]
    intro h1 h2; omega
  | push d =>
    unfold CmdWF at wf
    by_cases h0 : d.length ≤ 75
    · rw [serCmd_push_small h0] at h; cases h
      have e : (UInt8.ofNat d.length).toNat = d.length := u8_toNat_ofNat_lt (by omega)
      cases d with
      | nil =>
        simp only [List.length_nil, List.cons_append, List.nil_append, parseLoop, parseCmp0, parseCmp1, parseCmp2,
          parseCmp3, parseCmp4]
        simp [canonCmd]
      | cons x xs =>
        simp only [List.cons_append, parseLoop, e, parseCmp0, parseCmp1]
        have g1 : (x :: xs).length ≥ 1 := by simp
        simp only [ge_iff_le, g1, h0, decide_true, Bool.and_self, if_true]
        rw [← List.cons_append, take_append_len _ _ _ rfl, drop_append_len _ _ _ rfl]
        simp [canonCmd]
    · by_cases h1 : d.length < 256
      · rw [serCmd_push_mid (by omega) h1] at h; cases h
        have e : (UInt8.ofNat d.length).toNat = d.length := u8_toNat_ofNat_lt h1
        have hne : d ≠ [] := by intro hd; rw [hd] at h0; simp at h0
        simp only [List.cons_append, parseLoop, parseCmp0, parseCmp1, parseCmp2]
        have t : (76 : UInt8).toNat = 76 := rfl
        simp only [t, List.take_succ_cons, List.take_zero, List.drop_succ_cons, List.drop_zero, leToNat, e]
        simp only [Nat.mul_zero, Nat.add_zero, take_append_len _ _ _ rfl, drop_append_len _ _ _ rfl]
        simp [canonCmd_push_ne hne]
      · rw [serCmd_push_big (by omega) wf] at h; cases h
        have hne : d ≠ [] := by intro hd; rw [hd] at h0; simp at h0
        have hl : d.length < 256 ^ 2 := by omega
        simp only [List.cons_append, List.append_assoc, parseLoop, parseCmp0, parseCmp1, parseCmp2, parseCmp3]
        have t : (77 : UInt8).toNat = 77 := rfl
        simp only [t, take_append_len _ _ 2 (natToLE'_length 2 _), drop_append_len _ _ 2 (natToLE'_length 2 _),
          leToNat_natToLE'_of_lt hl, take_append_len _ _ _ rfl, drop_append_len _ _ _ rfl, natToLE'_length]
        simp [canonCmd_push_ne hne]

/-! ### the whole script -/

theorem serCmds_cons {c : Cmd} {cs : List Cmd} {b : Bytes} (h : serCmds (c :: cs) = some b) :
    ∃ b1 b2, serCmd c = some b1 ∧ serCmds cs = some b2 ∧ b = b1 ++ b2 := by
  simp only [serCmds, Option.pure_def, Option.bind_eq_bind] at h
  cases h1 : serCmd c with
  | none => rw [h1] at h; cases h
  | some b1 =>
    rw [h1] at h
    cases h2 : serCmds cs with
    | none => rw [h2] at h; cases h
    | some b2 => rw [h2] at h; cases h; exact ⟨b1, b2, rfl, rfl, rfl⟩

theorem serCmds_isSome {cs : List Cmd} (wf : ∀ c ∈ cs, CmdWF c) : ∃ b, serCmds cs = some b := by
  induction cs with
  | nil => exact ⟨[], rfl⟩
  | cons c cs ih =>
    obtain ⟨b1, h1⟩ := serCmd_isSome (wf c (by simp))
    obtain ⟨b2, h2⟩ := ih (fun c hc => wf c (by simp [hc]))
    exact ⟨b1 ++ b2, by simp [serCmds, h1, h2]⟩

theorem serCmds_length {cs : List Cmd} {b : Bytes} (wf : ∀ c ∈ cs, CmdWF c) (h : serCmds cs = some b) :
    b.length = cmdsSize cs := by
  induction cs generalizing b with
  | nil => cases h; rfl
  | cons c cs ih =>
    obtain ⟨b1, b2, h1, h2, rfl⟩ := serCmds_cons h
    simp [cmdsSize, serCmd_length (wf c (by simp)) h1, ih (fun c hc => wf c (by simp [hc])) h2]

theorem cmdSize_pos (c : Cmd) : 1 ≤ cmdSize c := by
  cases c with
  | op n => simp [cmdSize]
  | push d =>
    simp only [cmdSize]
    by_cases h0 : d.length ≤ 75
    · rw [if_pos h0]; omega
    · rw [if_neg h0]
      by_cases h1 : d.length < 256
      · rw [if_pos h1]; omega
      · rw [if_neg h1]; omega

theorem cmdsSize_ge_length (cs : List Cmd) : cs.length ≤ cmdsSize cs := by
  induction cs with
  | nil => simp [cmdsSize]
  | cons c cs ih => have := cmdSize_pos c; simp [cmdsSize]; omega

theorem serCmds_canon (cs : List Cmd) : serCmds (canon cs) = serCmds cs := by
  induction cs with
  | nil => rfl
  | cons c cs ih =>
    simp only [canon, List.map_cons, serCmds] at *
    rw [serCmd_canon, ih]

theorem canon_wf {cs : List Cmd} (wf : ∀ c ∈ cs, CmdWF c) : ∀ c ∈ canon cs, CmdWF c := by
  intro c hc
  simp only [canon, List.mem_map] at hc
  obtain ⟨c', hc', rfl⟩ := hc
  exact canonCmd_wf (wf c' hc')

theorem parseLoop_serCmds (cs : List Cmd) (b rest : Bytes) (f : Nat) (acc : List Cmd)
    (wf : ∀ c ∈ cs, CmdWF c) (h : serCmds cs = some b) (hf : cs.length ≤ f) :
    parseLoop f (b ++ rest) acc = parseLoop (f - cs.length) rest (List.reverse (canon cs) ++ acc) := by
  induction cs generalizing b f acc with
  | nil => cases h; simp [canon]
  | cons c cs ih =>
    obtain ⟨b1, b2, h1, h2, rfl⟩ := serCmds_cons h
    obtain ⟨f', rfl⟩ : ∃ f', f = f' + 1 := ⟨f - 1, by simp at hf; omega⟩
    rw [List.append_assoc, parseLoop_step f' c b1 _ acc (wf c (by simp)) h1,
      ih b2 f' _ (fun c hc => wf c (by simp [hc])) h2 (by simp at hf; omega)]
    simp [canon]

theorem parseLoop_nil (f : Nat) (acc : List Cmd) : parseLoop f [] acc = (acc.reverse, true) := by
  cases f <;> rfl

/-- `Script.parse(raw=…)` of the raw serialisation of well-formed commands: the canonical commands,
    `raw` unset -/
theorem parseRaw_serCmds (cs : List Cmd) (b : Bytes) (wf : ∀ c ∈ cs, CmdWF c) (h : serCmds cs = some b) :
    parseRaw b = { cmds := canon cs, raw := none } := by
  have hl := serCmds_length wf h
  have hge := cmdsSize_ge_length cs
  unfold parseRaw
  have := parseLoop_serCmds cs b [] (b.length + 1) [] wf h (by omega)
  rw [List.append_nil] at this
  rw [this, parseLoop_nil]
  simp

end Buidl.Script
