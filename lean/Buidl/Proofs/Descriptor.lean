/-
  Buidl.Proofs.Descriptor — helper lemmas for C16: calc_core_checksum against Bitcoin Core's
  DescriptorChecksum (symbol stream), error detection of the checksum (linearity of the polymod step over
  XOR), sorting and permutations for get_address, the byte layout of the multisig witness script.
  Mathlib-free.
-/
import Buidl.Model.Descriptor
import Buidl.Spec.DescriptorChecksum
import Buidl.Proofs.DescriptorPoly
import Buidl.Proofs.Bytes
namespace Buidl.Descriptor
open Buidl Buidl.PyStr
namespace SC
export Buidl.Spec.DescriptorChecksum (INPUT_CHARSET CHECKSUM_CHARSET polyMod position positions symbols checksumValue render descriptorChecksum)
end SC

theorem inputCharset_eq : inputCharset = SC.INPUT_CHARSET := by decide
theorem checksumCharset_eq : checksumCharset = SC.CHECKSUM_CHARSET := by decide

theorem polyMod_eq (c v : Nat) : polyMod c v = SC.polyMod c v := by
  unfold polyMod Spec.DescriptorChecksum.polyMod
  rfl

theorem find?_eq_position (ch : Char) (l : Str) : find? ch l = SC.position ch l := by
  induction l with
  | nil => rfl
  | cons x xs ih => simp [find?, Spec.DescriptorChecksum.position, ih]

/-- the loop of calc_core_checksum on positions -/
def loopP : List Nat → Nat → Nat → Nat → Nat × Nat × Nat
  | [], c, cls, cnt => (c, cls, cnt)
  | pos :: r, c, cls, cnt =>
    let c := polyMod c (pos &&& Gen.ccSymMask)
    let cls := cls * Gen.ccClsMul + (pos >>> Gen.ccClsShift)
    let cnt := cnt + 1
    if cnt = Gen.ccGroup then loopP r (polyMod c cls) 0 0 else loopP r c cls cnt

theorem ccLoopOn_eq (desc : Str) (c cls cnt : Nat) :
    ccLoopOn SC.INPUT_CHARSET desc c cls cnt = (SC.positions desc).map (fun ps => loopP ps c cls cnt) := by
  induction desc generalizing c cls cnt with
  | nil => simp [ccLoopOn, Spec.DescriptorChecksum.positions, loopP]
  | cons ch r ih =>
    simp only [ccLoopOn, Spec.DescriptorChecksum.positions, List.mapM_cons, find?_eq_position]
    cases hp : SC.position ch SC.INPUT_CHARSET with
    | none => simp
    | some pos =>
      simp only [Option.bind_eq_bind, Option.bind_some]
      split
      · rw [ih]
        simp only [Spec.DescriptorChecksum.positions]
        cases List.mapM (fun ch => SC.position ch SC.INPUT_CHARSET) r <;> simp [loopP, *]
      · rw [ih]
        simp only [Spec.DescriptorChecksum.positions]
        cases List.mapM (fun ch => SC.position ch SC.INPUT_CHARSET) r <;> simp [loopP, *]

theorem ccLoop_eq (desc : Str) (c cls cnt : Nat) :
    ccLoop desc c cls cnt = (SC.positions desc).map (fun ps => loopP ps c cls cnt) := by
  unfold ccLoop
  rw [inputCharset_eq]
  exact ccLoopOn_eq desc c cls cnt

def finish (s : Nat × Nat × Nat) : Nat := if s.2.2 > 0 then polyMod s.1 s.2.1 else s.1

theorem loopP_symbols : ∀ (ps : List Nat) (c : Nat),
    finish (loopP ps c 0 0) = (SC.symbols ps).foldl SC.polyMod c
  | [], c => by simp [loopP, finish, Spec.DescriptorChecksum.symbols]
  | [p1], c => by
    simp [loopP, finish, Spec.DescriptorChecksum.symbols, polyMod_eq, Gen.ccGroup, Gen.ccSymMask, Gen.ccClsMul, Gen.ccClsShift]
  | [p1, p2], c => by
    simp [loopP, finish, Spec.DescriptorChecksum.symbols, polyMod_eq, Gen.ccGroup, Gen.ccSymMask, Gen.ccClsMul, Gen.ccClsShift]
    congr 1; omega
  | p1 :: p2 :: p3 :: rest, c => by
    have ih := loopP_symbols rest
    simp only [loopP, Gen.ccGroup, Gen.ccSymMask, Gen.ccClsMul, Gen.ccClsShift, Spec.DescriptorChecksum.symbols,
      List.foldl_append, List.foldl_cons, List.foldl_nil, polyMod_eq]
    simp only [show (0 + 1 = 3) = False by simp, show (0 + 1 + 1 = 3) = False by simp, if_false, if_true]
    rw [ih]
    congr 2
    omega

theorem final_rounds_eq (c : Nat) :
    (List.range Gen.ccFinalRounds).foldl (fun c _ => polyMod c 0) c = (List.replicate 8 0).foldl SC.polyMod c := by
  simp [Gen.ccFinalRounds, List.range_succ, polyMod_eq, List.replicate]

theorem ccOutput_eq (c : Nat) : ccOutput c = SC.render c := by
  unfold ccOutput Spec.DescriptorChecksum.render
  rw [checksumCharset_eq]
  simp [Gen.ccOutLen, Gen.ccOutTop, Gen.ccOutShift, Gen.ccOutMask, List.range_succ]

theorem calcCoreChecksum_eq (desc : Str) : calcCoreChecksum desc = SC.descriptorChecksum desc := by
  unfold calcCoreChecksum Spec.DescriptorChecksum.descriptorChecksum
  rw [ccLoop_eq]
  cases hp : SC.positions desc with
  | none => simp
  | some ps =>
    simp only [Option.map_some, Option.bind_eq_bind, Option.bind_some, Gen.ccInit, Gen.ccFinalXor]
    have h := loopP_symbols ps 1
    unfold finish at h
    rw [final_rounds_eq, ccOutput_eq]
    simp only [Spec.DescriptorChecksum.checksumValue, List.foldl_append]
    rw [← h]

open Buidl.HD

/-! ## sorting and permutations -/

theorem bytesLe_refl (a : Bytes) : bytesLe a a = true := by
  induction a with
  | nil => rfl
  | cons x xs ih => simp [bytesLe, ih]

theorem bytesLe_total (a b : Bytes) : (bytesLe a b || bytesLe b a) = true := by
  induction a generalizing b with
  | nil => simp [bytesLe]
  | cons x xs ih =>
    cases b with
    | nil => simp [bytesLe]
    | cons y ys =>
      simp only [bytesLe]
      by_cases h1 : x.toNat < y.toNat
      · simp [h1]
      · by_cases h2 : y.toNat < x.toNat
        · simp [h1, h2]
        · simp only [h1, h2, if_false]; exact ih ys

theorem bytesLe_trans (a b c : Bytes) (h1 : bytesLe a b = true) (h2 : bytesLe b c = true) : bytesLe a c = true := by
  induction a generalizing b c with
  | nil => simp [bytesLe]
  | cons x xs ih =>
    cases b with
    | nil => simp [bytesLe] at h1
    | cons y ys =>
      cases c with
      | nil => simp [bytesLe] at h2
      | cons z zs =>
        simp only [bytesLe] at h1 h2 ⊢
        by_cases hxy : x.toNat < y.toNat
        · by_cases hyz : y.toNat < z.toNat
          · have : x.toNat < z.toNat := by omega
            simp [this]
          · by_cases hzy : z.toNat < y.toNat
            · simp [hyz, hzy] at h2
            · have : x.toNat < z.toNat := by omega
              simp [this]
        · by_cases hyx : y.toNat < x.toNat
          · simp [hxy, hyx] at h1
          · simp only [hxy, hyx, if_false] at h1
            by_cases hyz : y.toNat < z.toNat
            · have : x.toNat < z.toNat := by omega
              simp [this]
            · by_cases hzy : z.toNat < y.toNat
              · simp [hyz, hzy] at h2
              · simp only [hyz, hzy, if_false] at h2
                have e1 : ¬ x.toNat < z.toNat := by omega
                have e2 : ¬ z.toNat < x.toNat := by omega
                simp only [e1, e2, if_false]
                exact ih ys zs h1 h2

theorem bytesLe_antisymm (a b : Bytes) (h1 : bytesLe a b = true) (h2 : bytesLe b a = true) : a = b := by
  induction a generalizing b with
  | nil =>
    cases b with
    | nil => rfl
    | cons y ys => simp [bytesLe] at h2
  | cons x xs ih =>
    cases b with
    | nil => simp [bytesLe] at h1
    | cons y ys =>
      simp only [bytesLe] at h1 h2
      by_cases hxy : x.toNat < y.toNat
      · have : ¬ y.toNat < x.toNat := by omega
        simp [hxy, this] at h2
      · by_cases hyx : y.toNat < x.toNat
        · simp [hxy, hyx] at h1
        · simp only [hxy, hyx, if_false] at h1 h2
          have : x = y := UInt8.toNat_inj.mp (by omega)
          rw [this, ih ys h1 h2]

/-- permuted key lists sort to the same list -/
theorem sortKeys_perm {l l' : List Bytes} (h : l.Perm l') : sortKeys l = sortKeys l' := by
  unfold sortKeys
  apply List.Perm.eq_of_pairwise (le := fun a b => bytesLe a b = true)
  · intro a b _ _ hab hba; exact bytesLe_antisymm a b hab hba
  · exact List.pairwise_mergeSort (fun a b c => bytesLe_trans a b c) bytesLe_total l
  · exact List.pairwise_mergeSort (fun a b c => bytesLe_trans a b c) bytesLe_total l'
  · exact (List.mergeSort_perm l _).trans (h.trans (List.mergeSort_perm l' _).symm)

/-- `mapM` in `Option` over permuted lists: both fail, or both succeed with permuted results -/
theorem mapM_perm {α β} (f : α → Option β) {l l' : List α} (h : l.Perm l') :
    (l.mapM f = none ∧ l'.mapM f = none) ∨ ∃ r r', l.mapM f = some r ∧ l'.mapM f = some r' ∧ r.Perm r' := by
  induction h with
  | nil => exact Or.inr ⟨[], [], rfl, rfl, List.Perm.nil⟩
  | cons x _ ih =>
    simp only [List.mapM_cons]
    cases hx : f x with
    | none => left; simp
    | some b =>
      rcases ih with ⟨h1, h2⟩ | ⟨r, r', h1, h2, hp⟩
      · left; simp [h1, h2]
      · right; exact ⟨b :: r, b :: r', by simp [h1], by simp [h2], hp.cons b⟩
  | swap x y l =>
    simp only [List.mapM_cons]
    cases hx : f x <;> cases hy : f y <;> cases hl : List.mapM f l <;> simp
    exact List.Perm.swap _ _ _
  | trans _ _ ih1 ih2 =>
    rcases ih1 with ⟨h1, h2⟩ | ⟨r, r', h1, h2, hp⟩
    · rcases ih2 with ⟨h3, h4⟩ | ⟨s, s', h3, h4, hq⟩
      · exact Or.inl ⟨h1, h4⟩
      · rw [h2] at h3; cases h3
    · rcases ih2 with ⟨h3, h4⟩ | ⟨s, s', h3, h4, hq⟩
      · rw [h2] at h3; cases h3
      · rw [h2] at h3; cases h3
        exact Or.inr ⟨r, s', h1, h4, hp.trans hq⟩

section
variable (hash256 sha256 : Bytes → Bytes) (hmac : Bytes → Bytes → Bytes) (h160 : Bytes → Bytes)

/-- get_address does not depend on the order of the key records -/
theorem getAddress_perm (d d' : Desc) (hm : d.m = d'.m) (hn : d.network = d'.network)
    (hp : d.keyRecords.Perm d'.keyRecords) (offset : Nat) (isChange : Bool) :
    getAddress hash256 sha256 hmac h160 d offset isChange = getAddress hash256 sha256 hmac h160 d' offset isChange := by
  unfold getAddress
  rcases mapM_perm (fun kr => leafSec hash256 hmac h160 kr offset isChange) hp with ⟨h1, h2⟩ | ⟨r, r', h1, h2, hr⟩
  · simp [h1, h2]
  · simp only [h1, h2, Option.bind_eq_bind, Option.bind_some, if_true, sortKeys_perm hr, hm, hn, hp.length_eq]

/-! ## the witness script and its address -/

/-- `OP_m <33-byte key>… OP_n OP_CHECKMULTISIG` as bytes -/
def multisigBytes (m : Nat) (keys : List Bytes) : Bytes :=
  [UInt8.ofNat (80 + m)] ++ (keys.map (fun k => (33 : UInt8) :: k)).flatten ++ [UInt8.ofNat (80 + keys.length), 174]

theorem serCmd_push33 (k : Bytes) (h : k.length = 33) : Script.serCmd (.push k) = some (33 :: k) := by
  simp [Script.serCmd, cmpAt, Gen.rawSerCmp, cmpOp, h, Script.intToByte]

theorem serCmds_push33 (keys : List Bytes) (h : ∀ k ∈ keys, k.length = 33) (tail : List Script.Cmd) :
    Script.serCmds (keys.map Script.Cmd.push ++ tail)
      = (Script.serCmds tail).map (fun t => (keys.map (fun k => (33 : UInt8) :: k)).flatten ++ t) := by
  induction keys with
  | nil => simp
  | cons k ks ih =>
    have hk := h k (by simp)
    have ih' := ih (fun x hx => h x (by simp [hx]))
    simp only [List.map_cons, List.cons_append, Script.serCmds, serCmd_push33 k hk, ih', Option.bind_eq_bind,
      Option.bind_some, Option.pure_def]
    cases Script.serCmds tail <;> simp

theorem numberToOpCode_some {n op : Nat} (h : numberToOpCode n = some op) (h1 : 1 ≤ n) : n ≤ 16 ∧ op = n + 80 := by
  unfold numberToOpCode at h
  simp only [Gen.opNumMax, Gen.opNumBase] at h
  split at h
  · cases h
  · split at h
    · omega
    · cases h; omega

theorem multisig_rawSerialize (m : Nat) (keys : List Bytes) (hk : ∀ k ∈ keys, k.length = 33)
    (hm1 : 1 ≤ m) (hm : m ≤ 16) (hn1 : 1 ≤ keys.length) (hn : keys.length ≤ 16) :
    Script.rawSerialize { cmds := [Script.Cmd.op (m + 80)] ++ keys.map Script.Cmd.push ++
        [Script.Cmd.op (keys.length + 80), Script.Cmd.op Gen.opCheckMultisig] }
      = some (multisigBytes m keys) := by
  simp only [Script.rawSerialize, List.singleton_append]
  rw [List.cons_append, Script.serCmds, serCmds_push33 keys hk]
  have hm175 : m ≤ 175 := by omega
  have hn175 : keys.length ≤ 175 := by omega
  simp [Script.serCmds, Script.serCmd, Script.intToByte, Gen.opCheckMultisig, multisigBytes, hm175, hn175,
    UInt8.add_comm]

theorem sec_length33 {X : EC.Pt} {s : Bytes} (h : EC.sec X true = some s) : s.length = 33 := by
  cases X with
  | inf => simp [EC.sec] at h
  | aff x y => simp [EC.sec] at h; subst h; simp

theorem mapM_all {α β} (f : α → Option β) (P : β → Prop) (hf : ∀ a b, f a = some b → P b) :
    ∀ (l : List α) (r : List β), l.mapM f = some r → (∀ b ∈ r, P b) ∧ r.length = l.length := by
  intro l
  induction l with
  | nil => intro r h; simp at h; subst h; simp
  | cons a l ih =>
    intro r h
    simp only [List.mapM_cons, Option.bind_eq_bind, Option.pure_def, Option.bind_eq_some_iff] at h
    obtain ⟨b, hb, bs, hbs, hr⟩ := h
    cases hr
    obtain ⟨h1, h2⟩ := ih bs hbs
    refine ⟨?_, by simp [h2]⟩
    intro x hx
    rcases List.mem_cons.mp hx with rfl | hx
    · exact hf a _ hb
    · exact h1 x hx

section
variable (hash256 sha256 : Bytes → Bytes) (hmac : Bytes → Bytes → Bytes) (h160 : Bytes → Bytes)

theorem leafSec_length {kr : KeyRecord} {o : Nat} {c : Bool} {s : Bytes}
    (h : leafSec hash256 hmac h160 kr o c = some s) : s.length = 33 := by
  simp only [leafSec, Option.bind_eq_bind, Option.bind_eq_some_iff] at h
  obtain ⟨_, _, _, _, _, _, hs⟩ := h
  exact sec_length33 hs

/-- get_address = the P2WSH address (witness version 0, 32-byte program = sha256 of the script) of
    `OP_m <sorted child keys> OP_n OP_CHECKMULTISIG` -/
theorem getAddress_eq_p2wsh (hs : ∀ b, (sha256 b).length = 32) (d : Desc) (hm1 : 1 ≤ d.m) (hn1 : 1 ≤ d.keyRecords.length)
    (offset : Nat) (isChange : Bool) (addr : Str)
    (h : getAddress hash256 sha256 hmac h160 d offset isChange = some addr) :
    ∃ keys, d.keyRecords.mapM (fun kr => leafSec hash256 hmac h160 kr offset isChange) = some keys ∧
      keys.length = d.keyRecords.length ∧ d.m ≤ 16 ∧ keys.length ≤ 16 ∧
      Bech32.encodeBech32Checksum (0 :: 32 :: sha256 (multisigBytes d.m (sortKeys keys))) d.network.toList = some addr := by
  simp only [getAddress, Option.bind_eq_bind, Option.bind_eq_some_iff, if_true] at h
  obtain ⟨keys, hkeys, mOp, hmOp, nOp, hnOp, h⟩ := h
  obtain ⟨hlen33, hlen⟩ := mapM_all _ (fun s => s.length = 33)
    (fun kr s hs => leafSec_length hash256 hmac h160 hs) _ _ hkeys
  obtain ⟨hm16, rfl⟩ := numberToOpCode_some hmOp hm1
  obtain ⟨hn16, rfl⟩ := numberToOpCode_some hnOp hn1
  refine ⟨keys, hkeys, hlen, hm16, by omega, ?_⟩
  have hperm := List.mergeSort_perm keys bytesLe
  have hs33 : ∀ k ∈ sortKeys keys, k.length = 33 := fun k hk => hlen33 k (hperm.subset hk)
  have hsl : (sortKeys keys).length = d.keyRecords.length := by
    rw [← hlen]; exact hperm.length_eq
  have hser := multisig_rawSerialize d.m (sortKeys keys) hs33 hm1 hm16 (by omega) (by omega)
  rw [hsl] at hser
  simp only [p2wshAddress, hser, Option.bind_eq_bind, Option.bind_some] at h
  have hspk : Script.rawSerialize { cmds := [Script.Cmd.op Gen.p2wshVersionOp,
        Script.Cmd.push (sha256 (multisigBytes d.m (sortKeys keys)))] }
      = some (0 :: 32 :: sha256 (multisigBytes d.m (sortKeys keys))) := by
    simp [Script.rawSerialize, Script.serCmds, Script.serCmd, Script.intToByte, Gen.p2wshVersionOp, cmpAt,
      Gen.rawSerCmp, cmpOp, hs]
  rw [hspk] at h
  exact h

end

end

/-! ## the checksum argument of the constructor -/

section
variable (hash256 : Bytes → Bytes)

theorem constructCore_checksum (m : Int) (krs : List KeyRecord) (srt : Bool) (d : Desc)
    (h : constructCore hash256 m krs srt = some d) : calcCoreChecksum d.text = some d.checksum := by
  unfold constructCore at h
  split at h
  · cases h
  · split at h
    · cases h
    · simp only [Option.bind_eq_some_iff, Option.map_eq_some_iff] at h
      obtain ⟨⟨saved, net⟩, -, network, -, c, hc, h⟩ := h
      subst h
      exact hc

/-- a supplied checksum is accepted exactly when it is the calculated one -/
theorem construct_checksum (m : Int) (krs : List KeyRecord) (cs : Str) (srt : Bool) (d : Desc)
    (h : construct hash256 m krs cs srt = some d) :
    calcCoreChecksum d.text = some d.checksum ∧ (cs ≠ [] → d.checksum = cs) := by
  unfold construct at h
  simp only [Option.bind_eq_some_iff] at h
  obtain ⟨d0, hd0, h⟩ := h
  by_cases h3 : cs ≠ [] ∧ d0.checksum ≠ cs
  · rw [if_pos h3] at h; cases h
  · rw [if_neg h3] at h
    have hd : d0 = d := Option.some.inj h
    subst hd
    refine ⟨constructCore_checksum hash256 m krs srt d0 hd0, fun hne => ?_⟩
    by_cases h4 : d0.checksum = cs
    · exact h4
    · exact absurd ⟨hne, h4⟩ h3

/-- any alteration of a (non-empty) checksum that was accepted is refused -/
theorem construct_checksum_altered (m : Int) (krs : List KeyRecord) (cs cs' : Str) (srt : Bool) (d : Desc)
    (h : construct hash256 m krs cs srt = some d) (hcs : cs ≠ []) (hcs' : cs' ≠ []) (hne : cs' ≠ cs) :
    construct hash256 m krs cs' srt = none := by
  cases h' : construct hash256 m krs cs' srt with
  | none => rfl
  | some d' =>
    exfalso
    unfold construct at h h'
    simp only [Option.bind_eq_some_iff] at h h'
    obtain ⟨d0, hd0, h⟩ := h
    obtain ⟨d1, hd1, h'⟩ := h'
    rw [hd0] at hd1; cases hd1
    by_cases h3 : cs ≠ [] ∧ d0.checksum ≠ cs
    · rw [if_pos h3] at h; cases h
    · by_cases h4 : cs' ≠ [] ∧ d0.checksum ≠ cs'
      · rw [if_pos h4] at h'; cases h'
      · have e1 : d0.checksum = cs := by
          by_cases e : d0.checksum = cs
          · exact e
          · exact absurd ⟨hcs, e⟩ h3
        have e2 : d0.checksum = cs' := by
          by_cases e : d0.checksum = cs'
          · exact e
          · exact absurd ⟨hcs', e⟩ h4
        exact hne (e2.symm.trans e1)

end

/-! ## the descriptor text and its checksum -/

section
variable (hash256 : Bytes → Bytes)

theorem constructCore_text (m : Int) (krs : List KeyRecord) (srt : Bool) (d : Desc)
    (h : constructCore hash256 m krs srt = some d) : d.text = descriptorText d.m d.keyRecords ∧ (1 : Int) ≤ m ∧ d.m = m.toNat := by
  unfold constructCore at h
  split at h
  · cases h
  · next h1 =>
    split at h
    · cases h
    · simp only [Option.bind_eq_some_iff, Option.map_eq_some_iff] at h
      obtain ⟨⟨saved, net⟩, -, network, -, c, -, h⟩ := h
      subst h
      refine ⟨rfl, ?_, rfl⟩
      simp only [Gen.quorumMin] at h1
      omega

/-- the model's checksum function detects every single-character substitution -/
theorem calcCoreChecksum_detects (pre post : Str) (ch ch' : Char) (hne : ch ≠ ch') (cs cs' : Str)
    (h : calcCoreChecksum (pre ++ ch :: post) = some cs) (h' : calcCoreChecksum (pre ++ ch' :: post) = some cs') :
    cs ≠ cs' := by
  rw [calcCoreChecksum_eq] at h h'
  exact Spec.DescriptorChecksum.descriptorChecksum_detects_substitution pre post ch ch' hne cs cs' h h'

end

end Buidl.Descriptor
