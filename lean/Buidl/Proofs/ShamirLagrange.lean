/-
  Buidl.Proofs.ShamirLagrange — `ShareSet.interpolate` is Lagrange interpolation over the field GF256 of
  Buidl.Proofs.GF256 (Mathlib `Lagrange.interpolate`), column by column; consequences for
  split_secret / recover_secret.
-/
import Buidl.Proofs.GF256
import Mathlib.LinearAlgebra.Lagrange
namespace Buidl.Shamir
open Buidl

attribute [local irreducible] expN logN

/-! ## the model's `interpolate` without the partiality -/

theorem sumM_eq {α} (f : α → Option Nat) (g : α → Nat) (l : List α) (h : ∀ a ∈ l, f a = some (g a)) :
    sumM f l = some (l.map g).sum := by
  induction l with
  | nil => rfl
  | cons a r ih =>
    rw [sumM, h a (by simp), ih (fun b hb => h b (by simp [hb]))]
    simp

/-- the byte `exp[(log2[y] + lg) % 255] if y > 0 else 0` -/
def mulB (lg : Nat) (y : UInt8) : UInt8 :=
  if y > 0 then UInt8.ofNat (expN ((logN y.toNat + lg) % 255)) else 0

theorem mulAcc_eq (lg : Nat) (y c : UInt8) : mulAcc lg y c = some (c ^^^ mulB lg y) := by
  unfold mulAcc mulB
  by_cases hy : y > 0
  · have hm : (logN y.toNat + lg) % 255 < 255 := Nat.mod_lt _ (by decide)
    simp only [hy, if_true, log2?_eq y.toNat_lt, Gen.gfOrder2, exp?_eq hm, expN_lt hm]
  · simp [hy]

theorem zipMulAcc_eq (lg : Nat) : ∀ (ys cs : Bytes),
    zipMulAcc lg ys cs = some (List.zipWith (fun y c => c ^^^ mulB lg y) ys cs) := by
  intro ys
  induction ys with
  | nil => intro cs; simp [zipMulAcc]
  | cons y ys ih =>
    intro cs
    cases cs with
    | nil => simp [zipMulAcc]
    | cons c cs => simp [zipMulAcc, mulAcc_eq, ih]

/-- the exponent `log` of the loop body for the share with x-coordinate `sx` -/
def lgOf (x : Nat) (sd : ShareData) (sx : Nat) : Nat :=
  ((((sd.map fun o => logN (o.1 ^^^ x)).sum : Int) - logN (sx ^^^ x)
      - ((sd.map fun o => logN (sx ^^^ o.1)).sum : Int)) % 255).toNat

def NodesOK (x : Nat) (sd : ShareData) : Prop := x < 256 ∧ ∀ o ∈ sd, o.1 < 256

theorem xor_lt_256 {a b : Nat} (ha : a < 256) (hb : b < 256) : a ^^^ b < 256 :=
  Nat.xor_lt_two_pow (n := 8) ha hb

theorem interpStep_eq (x : Nat) (sd : ShareData) (hn : NodesOK x sd) (result : Bytes) (sh : Nat × Bytes)
    (hsh : sh.1 < 256) :
    interpStep x sd (sd.map fun o => logN (o.1 ^^^ x)).sum result sh
      = some (List.zipWith (fun y c => c ^^^ mulB (lgOf x sd sh.1) y) sh.2 result) := by
  unfold interpStep
  rw [log2?_eq (xor_lt_256 hsh hn.1),
    sumM_eq _ (fun o : Nat × Bytes => logN (sh.1 ^^^ o.1)) sd
      (fun o ho => log2?_eq (xor_lt_256 hsh (hn.2 o ho)))]
  simp only [zipMulAcc_eq, Gen.gfOrder, lgOf]
  rfl

theorem foldM_interpStep (x : Nat) (sd : ShareData) (hn : NodesOK x sd) :
    ∀ (l : ShareData) (acc : Bytes), (∀ o ∈ l, o.1 < 256) →
      foldM? (interpStep x sd (sd.map fun o => logN (o.1 ^^^ x)).sum) acc l
        = some (l.foldl (fun res sh => List.zipWith (fun y c => c ^^^ mulB (lgOf x sd sh.1) y) sh.2 res) acc) := by
  intro l
  induction l with
  | nil => intro acc _; rfl
  | cons sh l ih =>
    intro acc h
    rw [foldM?, interpStep_eq x sd hn acc sh (h sh (by simp))]
    exact ih _ (fun o ho => h o (by simp [ho]))

/-- `interpolate` as a pure fold (x and all share x-coordinates are bytes) -/
theorem interpolate_eq (x : Nat) (first : Nat × Bytes) (rest : ShareData) (hn : NodesOK x (first :: rest)) :
    interpolate x (first :: rest) = some ((first :: rest).foldl
      (fun res sh => List.zipWith (fun y c => c ^^^ mulB (lgOf x (first :: rest) sh.1) y) sh.2 res)
      (List.replicate first.2.length 0)) := by
  unfold interpolate
  rw [sumM_eq _ (fun o : Nat × Bytes => logN (o.1 ^^^ x)) _
    (fun o ho => log2?_eq (xor_lt_256 (hn.2 o ho) hn.1))]
  simp only
  exact foldM_interpStep x _ hn _ _ hn.2

/-! ## columns -/

/-- byte `j` of a share value -/
def col (j : Nat) (b : Bytes) : UInt8 := b.getD j 0

theorem fold_length (f : Nat → Nat) (L : Nat) : ∀ (l : ShareData) (acc : Bytes),
    (∀ sh ∈ l, sh.2.length = L) → acc.length = L →
    (l.foldl (fun res sh => List.zipWith (fun y c => c ^^^ mulB (f sh.1) y) sh.2 res) acc).length = L := by
  intro l
  induction l with
  | nil => intro acc _ h; exact h
  | cons sh l ih =>
    intro acc h hacc
    simp only [List.foldl_cons]
    apply ih _ (fun o ho => h o (by simp [ho]))
    simp [h sh (by simp), hacc]

theorem fold_col (f : Nat → Nat) (L j : Nat) (hj : j < L) : ∀ (l : ShareData) (acc : Bytes),
    (∀ sh ∈ l, sh.2.length = L) → acc.length = L →
    col j (l.foldl (fun res sh => List.zipWith (fun y c => c ^^^ mulB (f sh.1) y) sh.2 res) acc)
      = l.foldl (fun c sh => c ^^^ mulB (f sh.1) (col j sh.2)) (col j acc) := by
  intro l
  induction l with
  | nil => intro acc _ _; rfl
  | cons sh l ih =>
    intro acc h hacc
    simp only [List.foldl_cons]
    have hsl := h sh (by simp)
    rw [ih _ (fun o ho => h o (by simp [ho])) (by simp [hsl, hacc])]
    congr 1
    unfold col
    rw [List.getD_eq_getElem?_getD, List.getD_eq_getElem?_getD, List.getD_eq_getElem?_getD,
      List.getElem?_eq_getElem (by simp [hsl, hacc]; exact hj),
      List.getElem?_eq_getElem (by rw [hacc]; exact hj), List.getElem?_eq_getElem (by rw [hsl]; exact hj)]
    simp

/-! ## into the field -/

def toF (b : UInt8) : GF256 := ⟨b.toNat, b.toNat_lt⟩
def natF (n : Nat) : GF256 := GF256.ofNat n
def gexpF (lg : Nat) : GF256 := ⟨expN (lg % 255), expN_lt (Nat.mod_lt _ (by decide))⟩

theorem toF_zero : toF 0 = 0 := rfl

theorem toF_xor (a b : UInt8) : toF (a ^^^ b) = toF a + toF b := by
  ext; simp [toF, UInt8.toNat_xor]

theorem natF_val {n : Nat} (h : n < 256) : (natF n).val = n := by
  simp [natF, GF256.ofNat, Nat.mod_eq_of_lt h]

theorem natF_xor {a b : Nat} (ha : a < 256) (hb : b < 256) : natF (a ^^^ b) = natF a + natF b := by
  ext; simp [natF_val ha, natF_val hb, natF_val (xor_lt_256 ha hb)]

theorem natF_inj {a b : Nat} (ha : a < 256) (hb : b < 256) (h : natF a = natF b) : a = b := by
  have := congrArg GF256.val h
  rwa [natF_val ha, natF_val hb] at this

theorem gexpF_ne_zero (lg : Nat) : gexpF lg ≠ 0 := by
  intro h
  have := congrArg GF256.val h
  simp only [gexpF, GF256.zero_val] at this
  exact absurd this (Nat.pos_iff_ne_zero.mp (expN_pos (Nat.mod_lt _ (by decide))))

theorem gexpF_congr {a b : Nat} (h : a % 255 = b % 255) : gexpF a = gexpF b := by
  ext; simp [gexpF, h]

theorem gexpF_zero : gexpF 0 = 1 := by
  ext; simp [gexpF, expN_zero]

theorem gexpF_add (a b : Nat) : gexpF (a + b) = gexpF a * gexpF b := by
  ext
  have ha : a % 255 < 255 := Nat.mod_lt _ (by decide)
  have hb : b % 255 < 255 := Nat.mod_lt _ (by decide)
  have h1 : expN (a % 255) ≠ 0 := Nat.pos_iff_ne_zero.mp (expN_pos ha)
  have h2 : expN (b % 255) ≠ 0 := Nat.pos_iff_ne_zero.mp (expN_pos hb)
  simp only [gexpF, GF256.mul_val]
  rw [gmul, if_neg (by simp [h1, h2]), logN_expN ha, logN_expN hb]
  have : (a + b) % 255 = (a % 255 + b % 255) % 255 := by omega
  rw [this]

theorem gexpF_logN {a : Nat} (ha : a < 256) (h0 : a ≠ 0) : gexpF (logN a) = natF a := by
  ext
  simp only [gexpF, natF_val ha]
  rw [Nat.mod_eq_of_lt (logN_lt ha h0), expN_logN ha h0]

theorem toF_mulB (lg : Nat) (y : UInt8) : toF (mulB lg y) = toF y * gexpF lg := by
  unfold mulB
  by_cases hy : y > 0
  · rw [if_pos hy]
    have hm : (logN y.toNat + lg) % 255 < 255 := Nat.mod_lt _ (by decide)
    have hl : lg % 255 < 255 := Nat.mod_lt _ (by decide)
    have hy0 : y.toNat ≠ 0 := by
      have : (0 : UInt8).toNat < y.toNat := UInt8.lt_iff_toNat_lt.mp hy
      simp at this; omega
    have he : expN (lg % 255) ≠ 0 := Nat.pos_iff_ne_zero.mp (expN_pos hl)
    ext
    simp only [toF, gexpF, GF256.mul_val, UInt8.toNat_ofNat']
    rw [Nat.mod_eq_of_lt (expN_lt hm), gmul, if_neg (by simp [hy0, he]), logN_expN hl]
    have : (logN y.toNat + lg) % 255 = (logN y.toNat + lg % 255) % 255 := by omega
    rw [this]
  · rw [if_neg hy]
    have : y = 0 := by
      apply UInt8.toNat_inj.mp
      have : ¬ (0 : UInt8).toNat < y.toNat := fun h => hy (UInt8.lt_iff_toNat_lt.mpr h)
      simp at this; simpa using this
    subst this
    rw [toF_zero, zero_mul]

theorem toF_fold (f : Nat → Nat) (j : Nat) : ∀ (l : ShareData) (c : UInt8),
    toF (l.foldl (fun c sh => c ^^^ mulB (f sh.1) (col j sh.2)) c)
      = toF c + (l.map fun sh => toF (col j sh.2) * gexpF (f sh.1)).sum := by
  intro l
  induction l with
  | nil => intro c; simp
  | cons sh l ih =>
    intro c
    simp only [List.foldl_cons, List.map_cons, List.sum_cons]
    rw [ih, toF_xor, toF_mulB, add_assoc]

/-- column `j` of the interpolated value, as a sum in the field -/
theorem interpolate_col (x : Nat) (first : Nat × Bytes) (rest : ShareData) (hn : NodesOK x (first :: rest))
    (L : Nat) (hL : ∀ sh ∈ first :: rest, sh.2.length = L) :
    ∃ out, interpolate x (first :: rest) = some out ∧ out.length = L ∧
      ∀ j, j < L → toF (col j out)
        = ((first :: rest).map fun sh => toF (col j sh.2) * gexpF (lgOf x (first :: rest) sh.1)).sum := by
  refine ⟨_, interpolate_eq x first rest hn, ?_, ?_⟩
  · exact fold_length _ L _ _ hL (by simp [hL first (by simp)])
  · intro j hj
    rw [fold_col _ L j hj _ _ hL (by simp [hL first (by simp)]), toF_fold]
    have : col j (List.replicate first.2.length 0) = 0 := by
      unfold col
      rw [List.getD_eq_getElem?_getD]
      by_cases h : j < first.2.length
      · rw [List.getElem?_eq_getElem (by simpa using h)]; simp
      · rw [List.getElem?_eq_none (by simpa using h)]; rfl
    rw [this, toF_zero, zero_add]

/-! ## the coefficients are the Lagrange basis polynomials evaluated at `x` -/

open Polynomial in
/-- well-formed interpolation input: byte coordinates, pairwise distinct nodes, `x` not a node -/
structure WF (x : Nat) (sd : ShareData) : Prop where
  hx : x < 256
  hn : ∀ o ∈ sd, o.1 < 256
  nodup : (sd.map (·.1)).Nodup
  hxn : ∀ o ∈ sd, o.1 ≠ x

def nodesF (sd : ShareData) : List GF256 := sd.map fun o => natF o.1

theorem nat_xor_ne_zero {a b : Nat} (h : a ≠ b) : a ^^^ b ≠ 0 := by
  intro h0
  apply h
  have : a ^^^ (a ^^^ b) = b := by rw [← Nat.xor_assoc, Nat.xor_self, Nat.zero_xor]
  rw [h0, Nat.xor_zero] at this
  exact this

theorem gexpF_sum_logs {α} (g : α → Nat) : ∀ (l : List α),
    gexpF ((l.map fun o => logN (g o)).sum) = (l.map fun o => gexpF (logN (g o))).prod := by
  intro l
  induction l with
  | nil => simp [gexpF_zero]
  | cons a l ih => simp only [List.map_cons, List.sum_cons, List.prod_cons, gexpF_add, ih]

theorem nodesF_nodup {x : Nat} {sd : ShareData} (wf : WF x sd) : (nodesF sd).Nodup := by
  have : nodesF sd = (sd.map (·.1)).map natF := by simp [nodesF, List.map_map, Function.comp_def]
  rw [this]
  apply List.Nodup.map_on _ wf.nodup
  intro a ha b hb hab
  simp only [List.mem_map] at ha hb
  obtain ⟨o, ho, rfl⟩ := ha
  obtain ⟨o', ho', rfl⟩ := hb
  exact natF_inj (wf.hn o ho) (wf.hn o' ho') hab

/-- the coefficient of a share in `interpolate`, as a quotient of products in the field -/
theorem coeff_eq {x : Nat} {sd : ShareData} (wf : WF x sd) (sh : Nat × Bytes) (hsh : sh ∈ sd) :
    gexpF (lgOf x sd sh.1) =
      (sd.map fun o => natF o.1 + natF x).prod * (natF sh.1 + natF x)⁻¹ *
        ((sd.map fun o => if o.1 = sh.1 then (1 : GF256) else natF sh.1 + natF o.1).prod)⁻¹ := by
  have hs := wf.hn sh hsh
  have hA : gexpF ((sd.map fun o => logN (o.1 ^^^ x)).sum) = (sd.map fun o => natF o.1 + natF x).prod := by
    rw [gexpF_sum_logs (fun o : Nat × Bytes => o.1 ^^^ x)]
    congr 1
    apply List.map_congr_left
    intro o ho
    rw [gexpF_logN (xor_lt_256 (wf.hn o ho) wf.hx) (nat_xor_ne_zero (wf.hxn o ho)),
      natF_xor (wf.hn o ho) wf.hx]
  have hB : gexpF (logN (sh.1 ^^^ x)) = natF sh.1 + natF x := by
    rw [gexpF_logN (xor_lt_256 hs wf.hx) (nat_xor_ne_zero (wf.hxn sh hsh)), natF_xor hs wf.hx]
  have hC : gexpF ((sd.map fun o => logN (sh.1 ^^^ o.1)).sum)
      = (sd.map fun o => if o.1 = sh.1 then (1 : GF256) else natF sh.1 + natF o.1).prod := by
    rw [gexpF_sum_logs (fun o : Nat × Bytes => sh.1 ^^^ o.1)]
    congr 1
    apply List.map_congr_left
    intro o ho
    by_cases h : o.1 = sh.1
    · rw [if_pos h, h, Nat.xor_self, logN_zero, gexpF_zero]
    · rw [if_neg h, gexpF_logN (xor_lt_256 hs (wf.hn o ho)) (nat_xor_ne_zero (Ne.symm h)),
        natF_xor hs (wf.hn o ho)]
  have hmain : gexpF (lgOf x sd sh.1) * gexpF (logN (sh.1 ^^^ x)) *
      gexpF ((sd.map fun o => logN (sh.1 ^^^ o.1)).sum) = gexpF ((sd.map fun o => logN (o.1 ^^^ x)).sum) := by
    rw [← gexpF_add, ← gexpF_add]
    apply gexpF_congr
    unfold lgOf
    generalize (sd.map fun o => logN (o.1 ^^^ x)).sum = A
    generalize logN (sh.1 ^^^ x) = B
    generalize (sd.map fun o => logN (sh.1 ^^^ o.1)).sum = C
    omega
  rw [hA, hB, hC] at hmain
  have hB0 : natF sh.1 + natF x ≠ 0 := by rw [← hB]; exact gexpF_ne_zero _
  have hC0 : (sd.map fun o => if o.1 = sh.1 then (1 : GF256) else natF sh.1 + natF o.1).prod ≠ 0 := by
    rw [← hC]; exact gexpF_ne_zero _
  rw [← hmain]
  field_simp

/-! ## Lagrange interpolation (Mathlib) -/

open Polynomial

/-- the value attached to a node (column `j`), as a function on the field -/
def valF (sd : ShareData) (j : Nat) (a : GF256) : GF256 :=
  match sd.find? (fun o => natF o.1 = a) with
  | some o => toF (col j o.2)
  | none => 0

/-- column `j` of a share list as a polynomial: the Lagrange interpolant through its nodes -/
noncomputable def polyOf (sd : ShareData) (j : Nat) : GF256[X] :=
  Lagrange.interpolate (nodesF sd).toFinset id (valF sd j)

theorem valF_node {x : Nat} {sd : ShareData} (wf : WF x sd) (j : Nat) (sh : Nat × Bytes) (hsh : sh ∈ sd) :
    valF sd j (natF sh.1) = toF (col j sh.2) := by
  unfold valF
  cases hf : sd.find? (fun o => natF o.1 = natF sh.1) with
  | none =>
    rw [List.find?_eq_none] at hf
    have := hf sh hsh
    simp at this
  | some o =>
    have ho := List.mem_of_find?_eq_some hf
    have hp := List.find?_some hf
    simp only [decide_eq_true_eq] at hp
    have h1 : o.1 = sh.1 := natF_inj (wf.hn o ho) (wf.hn sh hsh) hp
    have : o = sh := List.inj_on_of_nodup_map wf.nodup ho hsh h1
    rw [this]

theorem mem_nodesF {sd : ShareData} (sh : Nat × Bytes) (hsh : sh ∈ sd) : natF sh.1 ∈ (nodesF sd).toFinset := by
  simp only [List.mem_toFinset, nodesF, List.mem_map]
  exact ⟨sh, hsh, rfl⟩

theorem eval_basis {x : Nat} {sd : ShareData} (wf : WF x sd) (sh : Nat × Bytes) (hsh : sh ∈ sd) :
    eval (natF x) (Lagrange.basis (nodesF sd).toFinset id (natF sh.1)) = gexpF (lgOf x sd sh.1) := by
  have hnd := nodesF_nodup wf
  have ha := mem_nodesF sh hsh
  generalize hs : (nodesF sd).toFinset = s at ha
  have hXa : natF sh.1 + natF x ≠ 0 := by
    intro h
    have h2 : natF sh.1 = natF x := by
      have := congrArg (· + natF x) h
      simp only [zero_add] at this
      have hxx : natF x + natF x = 0 := by ext; simp
      rw [add_assoc, hxx, add_zero] at this
      exact this
    exact wf.hxn sh hsh (natF_inj (wf.hn sh hsh) wf.hx h2)
  -- the model's products as products over the node set
  have hP1 : (sd.map fun o => natF o.1 + natF x).prod = ∏ b ∈ s, (b + natF x) := by
    rw [← hs, List.prod_toFinset _ hnd, nodesF, List.map_map]
    rfl
  have hP2 : (sd.map fun o => if o.1 = sh.1 then (1 : GF256) else natF sh.1 + natF o.1).prod
      = ∏ b ∈ s.erase (natF sh.1), (natF sh.1 + b) := by
    have e1 : (sd.map fun o => if o.1 = sh.1 then (1 : GF256) else natF sh.1 + natF o.1)
        = (nodesF sd).map fun b => if b = natF sh.1 then (1 : GF256) else natF sh.1 + b := by
      rw [nodesF, List.map_map]
      apply List.map_congr_left
      intro o ho
      simp only [Function.comp]
      by_cases h : o.1 = sh.1
      · rw [if_pos h, h, if_pos rfl]
      · have : natF o.1 ≠ natF sh.1 := fun h2 => h (natF_inj (wf.hn o ho) (wf.hn sh hsh) h2)
        rw [if_neg h, if_neg this]
    rw [e1, ← List.prod_toFinset _ hnd, hs, ← Finset.mul_prod_erase s _ ha]
    simp only [if_true, one_mul]
    apply Finset.prod_congr rfl
    intro b hb
    rw [if_neg (Finset.ne_of_mem_erase hb)]
  rw [coeff_eq wf sh hsh, hP1, hP2, Lagrange.basis, eval_prod]
  have hbd : ∀ b ∈ s.erase (natF sh.1),
      eval (natF x) (Lagrange.basisDivisor (id (natF sh.1)) (id b)) = (natF sh.1 + b)⁻¹ * (b + natF x) := by
    intro b _
    simp only [Lagrange.basisDivisor, id, eval_mul, eval_C, eval_sub, eval_X]
    rw [GF256.sub_eq_add', GF256.sub_eq_add', add_comm (natF x) b]
  rw [Finset.prod_congr rfl hbd, Finset.prod_mul_distrib, Finset.prod_inv_distrib,
    ← Finset.mul_prod_erase s _ ha]
  have hQ : ∏ b ∈ s.erase (natF sh.1), (natF sh.1 + b) ≠ 0 := by
    rw [Finset.prod_ne_zero_iff]
    intro b hb h
    have h2 : natF sh.1 = b := by
      have := congrArg (· + b) h
      simp only [zero_add] at this
      have hbb : b + b = 0 := by ext; simp
      rw [add_assoc, hbb, add_zero] at this
      exact this
    exact Finset.ne_of_mem_erase hb h2.symm
  field_simp

/-- `ShareSet.interpolate x shares` is, byte by byte, the Lagrange interpolant through the shares evaluated
    at `x` — for byte coordinates, pairwise distinct share indices and `x` not among them -/
theorem interpolate_eq_lagrange {x : Nat} {sd : ShareData} (wf : WF x sd) (hne : sd ≠ []) (L : Nat)
    (hL : ∀ sh ∈ sd, sh.2.length = L) :
    ∃ out, interpolate x sd = some out ∧ out.length = L ∧
      ∀ j, j < L → toF (col j out) = eval (natF x) (polyOf sd j) := by
  cases sd with
  | nil => exact absurd rfl hne
  | cons first rest =>
    obtain ⟨out, h1, h2, h3⟩ := interpolate_col x first rest ⟨wf.hx, wf.hn⟩ L hL
    refine ⟨out, h1, h2, ?_⟩
    intro j hj
    rw [h3 j hj, polyOf, Lagrange.interpolate_apply, eval_finsetSum,
      List.sum_toFinset _ (nodesF_nodup wf)]
    conv => rhs; rw [nodesF, List.map_map]
    apply congrArg List.sum
    apply List.map_congr_left
    intro sh hsh
    simp only [Function.comp]
    have e := eval_basis wf sh hsh
    rw [nodesF] at e
    rw [eval_mul, eval_C, valF_node wf j sh hsh, e]

/-! ## any `k` points of a polynomial of degree < k determine it -/

theorem toF_inj {a b : UInt8} (h : toF a = toF b) : a = b := by
  have := congrArg GF256.val h
  exact UInt8.toNat_inj.mp this

theorem bytes_ext (L : Nat) (a b : Bytes) (ha : a.length = L) (hb : b.length = L)
    (h : ∀ j, j < L → toF (col j a) = toF (col j b)) : a = b := by
  apply List.ext_getElem (by rw [ha, hb])
  intro j h1 h2
  have := toF_inj (h j (by rw [← ha]; exact h1))
  unfold col at this
  rw [List.getD_eq_getElem?_getD, List.getD_eq_getElem?_getD, List.getElem?_eq_getElem h1,
    List.getElem?_eq_getElem h2] at this
  simpa using this

/-- nodes of a share list (as natural numbers) -/
def nodes (sd : ShareData) : List Nat := sd.map (·.1)

/-- a well-formed point set without reference to an evaluation point -/
structure WFset (sd : ShareData) (L : Nat) : Prop where
  hn : ∀ o ∈ sd, o.1 < 256
  nodup : (nodes sd).Nodup
  hL : ∀ o ∈ sd, o.2.length = L

theorem WFset.wf {sd : ShareData} {L : Nat} (h : WFset sd L) (x : Nat) (hx : x < 256) (hxn : x ∉ nodes sd) :
    WF x sd :=
  ⟨hx, h.hn, h.nodup, fun o ho he => hxn (by rw [← he]; exact List.mem_map_of_mem ho)⟩

theorem nodesF_nodup' {sd : ShareData} (hn : ∀ o ∈ sd, o.1 < 256) (nd : (sd.map (·.1)).Nodup) :
    (nodesF sd).Nodup := by
  have : nodesF sd = (sd.map (·.1)).map natF := by
    rw [nodesF, List.map_map]; rfl
  rw [this]
  apply List.Nodup.map_on _ nd
  intro a ha b hb hab
  simp only [List.mem_map] at ha hb
  obtain ⟨o, ho, rfl⟩ := ha
  obtain ⟨o', ho', rfl⟩ := hb
  exact natF_inj (hn o ho) (hn o' ho') hab

theorem card_nodesF {sd : ShareData} {L : Nat} (h : WFset sd L) : (nodesF sd).toFinset.card = sd.length := by
  rw [List.toFinset_card_of_nodup (nodesF_nodup' h.hn h.nodup), nodesF, List.length_map]

theorem valF_node' {sd : ShareData} {L : Nat} (h : WFset sd L) (j : Nat) (sh : Nat × Bytes) (hsh : sh ∈ sd) :
    valF sd j (natF sh.1) = toF (col j sh.2) := by
  unfold valF
  cases hf : sd.find? (fun o => natF o.1 = natF sh.1) with
  | none =>
    rw [List.find?_eq_none] at hf
    have := hf sh hsh
    simp at this
  | some o =>
    have ho := List.mem_of_find?_eq_some hf
    have hp := List.find?_some hf
    simp only [decide_eq_true_eq] at hp
    have h1 : o.1 = sh.1 := natF_inj (h.hn o ho) (h.hn sh hsh) hp
    have : o = sh := List.inj_on_of_nodup_map h.nodup ho hsh h1
    rw [this]

/-- the polynomial through `base` takes the value of each base point at its node -/
theorem eval_polyOf_node {base : ShareData} {L : Nat} (hb : WFset base L) (j : Nat) (p : Nat × Bytes)
    (hp : p ∈ base) : eval (natF p.1) (polyOf base j) = toF (col j p.2) := by
  have := Lagrange.eval_interpolate_at_node (valF base j) (s := (nodesF base).toFinset) (v := id)
    (Function.injective_id.injOn) (mem_nodesF p hp)
  simp only [id] at this
  rw [polyOf, this, valF_node' hb j p hp]

/-- **uniqueness**: if at least `|base|` points with distinct nodes all lie on the polynomials through `base`,
    interpolating through them at a node `x` of `base` returns that base point's value -/
theorem interpolate_recovers {base sub : ShareData} {L : Nat} (hb : WFset base L) (hs : WFset sub L)
    (hcard : base.length ≤ sub.length)
    (hon : ∀ sh ∈ sub, ∀ j, j < L → toF (col j sh.2) = eval (natF sh.1) (polyOf base j))
    (p : Nat × Bytes) (hp : p ∈ base) (hxs : p.1 ∉ nodes sub) :
    interpolate p.1 sub = some p.2 := by
  have hx : p.1 < 256 := hb.hn p hp
  have hne : sub ≠ [] := by
    intro h
    have : base.length = 0 := by rw [h] at hcard; simpa using hcard
    rw [List.length_eq_zero_iff] at this
    rw [this] at hp; simp at hp
  obtain ⟨out, ho, hlen, hcol⟩ := interpolate_eq_lagrange (hs.wf p.1 hx hxs) hne L hs.hL
  rw [ho]
  congr 1
  apply bytes_ext L _ _ hlen (hb.hL p hp)
  intro j hj
  rw [hcol j hj]
  have hpoly : polyOf base j = polyOf sub j := by
    unfold polyOf
    apply Lagrange.eq_interpolate_of_eval_eq (valF sub j) (Function.injective_id.injOn)
    · have h1 := Lagrange.degree_interpolate_lt (valF base j) (s := (nodesF base).toFinset) (v := id)
        (Function.injective_id.injOn)
      rw [card_nodesF hb] at h1
      rw [card_nodesF hs]
      exact lt_of_lt_of_le h1 (by exact_mod_cast hcard)
    · intro a ha
      simp only [List.mem_toFinset, nodesF, List.mem_map] at ha
      obtain ⟨sh, hsh, rfl⟩ := ha
      simp only [id]
      rw [valF_node' hs j sh hsh]
      exact (hon sh hsh j hj).symm
  rw [← hpoly, eval_polyOf_node hb j p hp]

end Buidl.Shamir
