/-
  Buidl.Proofs.ComposeEC — partial signatures made by the library (`PrivateKey.sign`, DER, hash-type byte,
  stored under the SEC encoding of the public key) are valid in the interpreter's sense under
  `Compose.realEnv`; keys that are SEC encodings of public keys parse.  This discharges the hypotheses
  `SigsValid` / `env.pkErr k = none` of Buidl.Props.C10Compose and builds `MultisigWitness` from a list of
  signers.  Helper lemmas for Buidl.Props.C10ComposeEC.
-/
import Buidl.Proofs.Compose
import Buidl.Props.C10Compose

namespace Buidl.ComposeEC
open Buidl Buidl.EC Buidl.Script Buidl.Interp Buidl.Compose Buidl.ComposePsbt
open Buidl.Psbt (Dict dget scriptSigs)

attribute [local irreducible] pmul

/-- `k` is the SEC encoding (compressed or not) of the public key of a secret in [1, n−1] -/
def LibKey (k : Bytes) : Prop := ∃ (d : Nat) (cmp : Bool), 1 ≤ d ∧ d < N ∧ sec (smul (d : Int) G) cmp = some k

/-- `s` is what the library stores as a partial signature under the key `k`: `PrivateKey(d).sign(z).der()`
    followed by a hash-type byte whose digest is `z`, where `k` is the SEC encoding of `d·G`; the two
    hypotheses of C01's `verify_sign` (`r < n`, `s ≠ 0`: negligible events) are part of the predicate -/
def LibSig (zOf : Nat → Option Nat) (k s : Bytes) : Prop :=
  ∃ (hmac : Bytes → Bytes → Bytes) (fuel d z r sv : Nat) (htb : UInt8) (cmp : Bool) (derb : Bytes),
    ECDSA.sign hmac fuel d z = .ok (r, sv) ∧ r < N ∧ sv ≠ 0 ∧ zOf htb.toNat = some z ∧
    ECDSA.der r sv = some derb ∧ sec (smul (d : Int) G) cmp = some k ∧ s = derb ++ [htb]

/-- every partial signature of the map is library-made for the key it is stored under -/
def LibSigned (zOf : Nat → Option Nat) (sigs : Dict Bytes) : Prop :=
  ∀ k s, dget sigs k = some s → LibSig zOf k s

variable (base : Env) (zOf : Nat → Option Nat) (msgOf : Nat → Option Bytes) (c : Schnorr.Cache)

theorem ecdsaAuth_of_libSig {k s : Bytes} (h : LibSig zOf k s) : EcdsaAuth (realEnv base zOf msgOf c) k s := by
  obtain ⟨hmac, fuel, d, z, r, sv, htb, cmp, derb, hsign, hr, hs0, hz, hder, hsec, rfl⟩ := h
  exact ecdsaAuth_of_sign base zOf msgOf c hmac fuel d z r sv hsign hr hs0 htb hz cmp derb k hder hsec

theorem sigsValid_of_libSigned {sigs : Dict Bytes} (h : LibSigned zOf sigs) (keys : List Bytes) :
    SigsValid (realEnv base zOf msgOf c) sigs keys :=
  fun k _ s hs => ecdsaAuth_of_libSig base zOf msgOf c (h k s hs)

theorem pkErr_of_libKey {k : Bytes} (h : LibKey k) : (realEnv base zOf msgOf c).pkErr k = none := by
  obtain ⟨d, cmp, _, _, hsec⟩ := h
  have : parsePoint k = some (smul (d : Int) G) := parsePoint_sec (smul_valid G_valid d) cmp hsec
  simp [realEnv, this]

/-- a library signature exists for every signature `sign` returns -/
theorem libSig_of_sign (hmac : Bytes → Bytes → Bytes) (fuel d z r sv : Nat)
    (hsign : ECDSA.sign hmac fuel d z = .ok (r, sv)) (hr : r < N) (hs0 : sv ≠ 0) (htb : UInt8)
    (hz : zOf htb.toNat = some z) (cmp : Bool) :
    ∃ k derb, sec (smul (d : Int) G) cmp = some k ∧ ECDSA.der r sv = some derb ∧ LibKey k ∧
      LibSig zOf k (derb ++ [htb]) := by
  obtain ⟨derb, k, hder, hsec⟩ := sign_encodings hmac fuel d z r sv hsign hr hs0 cmp
  obtain ⟨hd1, hd2⟩ := sign_validSecret hsign
  exact ⟨k, derb, hsec, hder, ⟨d, cmp, hd1, hd2, hsec⟩,
    ⟨hmac, fuel, d, z, r, sv, htb, cmp, derb, hsign, hr, hs0, hz, hder, hsec, rfl⟩⟩

/-- **the OP_CHECKMULTISIG witness from a set of signers**: the first `m` library-made signatures in script
    order are a multisig witness for the script keys -/
theorem multisigWitness_signed {sigs : Dict Bytes} (hs : LibSigned zOf sigs) (pks : List Bytes)
    (hk : ∀ k ∈ pks, LibKey k) (m : Nat) (hm : m ≤ (pks.filterMap (dget sigs)).length) :
    MultisigWitness (realEnv base zOf msgOf c) pks ((pks.filterMap (dget sigs)).take m) ∧
      ((pks.filterMap (dget sigs)).take m).length = m := by
  have := multisigWitness_of_scriptSigs (realEnv base zOf msgOf c) sigs m pks m
    (fun k hkm => pkErr_of_libKey base zOf msgOf c (hk k hkm)) (sigsValid_of_libSigned base zOf msgOf c hs pks)
    (by rw [scriptSigs_multisig]; exact hm)
  rwa [scriptSigs_multisig] at this

end Buidl.ComposeEC
