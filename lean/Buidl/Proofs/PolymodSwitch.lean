/-
  Two substituted symbols one of which also switches the checksum constant between bech32 (1)
  and bech32m (0x2bc830a3): the 2790 single-error syndromes `D^i a` (1 ≤ a ≤ 31, i < 90) are put
  into a binary search tree; the kernel checks that the tree is a search tree, that it contains
  every syndrome, and that `s ⊕ (1 ⊕ 0x2bc830a3)` is never in it.  (No Mathlib needed.)
-/
import Buidl.Proofs.Polymod
namespace Buidl.Bech32
open Buidl

/-! ### a small verified search tree -/

inductive Tree where
  | leaf
  | node (l : Tree) (v : Nat) (r : Tree)

def Tree.insert : Tree → Nat → Tree
  | .leaf, x => .node .leaf x .leaf
  | .node l v r, x => if x < v then .node (l.insert x) v r else if v < x then .node l v (r.insert x) else .node l v r

def Tree.mem : Tree → Nat → Bool
  | .leaf, _ => false
  | .node l v r, x => if x < v then l.mem x else if v < x then r.mem x else true

def Tree.elems : Tree → List Nat
  | .leaf => []
  | .node l v r => l.elems ++ v :: r.elems

/-- every value lies in `[lo, hi)` and the tree is ordered (checked by evaluation) -/
def Tree.bounded : Tree → Nat → Nat → Bool
  | .leaf, _, _ => true
  | .node l v r, lo, hi => decide (lo ≤ v) && decide (v < hi) && l.bounded lo v && r.bounded (v + 1) hi

theorem Tree.mem_of_elems (t : Tree) (lo hi : Nat) (hb : t.bounded lo hi = true) (x : Nat) (hx : x ∈ t.elems) :
    t.mem x = true ∧ lo ≤ x ∧ x < hi := by
  induction t generalizing lo hi with
  | leaf => simp [Tree.elems] at hx
  | node l v r ihl ihr =>
    simp only [Tree.bounded, Bool.and_eq_true, decide_eq_true_eq] at hb
    obtain ⟨⟨⟨h1, h2⟩, h3⟩, h4⟩ := hb
    simp only [Tree.elems, List.mem_append, List.mem_cons] at hx
    rcases hx with hx | rfl | hx
    · obtain ⟨a, b, c⟩ := ihl lo v h3 hx
      have : x < v := c
      simp only [Tree.mem, this, if_true]
      exact ⟨a, b, by omega⟩
    · refine ⟨?_, h1, h2⟩
      simp [Tree.mem]
    · obtain ⟨a, b, c⟩ := ihr (v + 1) hi h4 hx
      have h5 : ¬ x < v := by omega
      have h6 : v < x := by omega
      simp only [Tree.mem, h5, h6, if_false, if_true]
      exact ⟨a, by omega, c⟩

theorem Tree.elems_of_mem (t : Tree) (x : Nat) (h : t.mem x = true) : x ∈ t.elems := by
  induction t with
  | leaf => simp [Tree.mem] at h
  | node l v r ihl ihr =>
    simp only [Tree.mem] at h
    simp only [Tree.elems, List.mem_append, List.mem_cons]
    by_cases h1 : x < v
    · simp only [h1, if_true] at h; exact Or.inl (ihl h)
    · by_cases h2 : v < x
      · simp only [h1, h2, if_false, if_true] at h; exact Or.inr (Or.inr (ihr h))
      · exact Or.inr (Or.inl (by omega))

/-! ### the syndrome table -/

/-- `[c, D c, …, D^(n-1) c]` -/
def orbit : Nat → Nat → List Nat
  | 0, _ => []
  | n + 1, c => c :: orbit n (polymodStep c 0)

/-- all single-error syndromes: error symbol 1..31 followed by 0..89 further symbols -/
def syndromes : List Nat := (List.range 31).flatMap fun a => orbit 90 (a + 1)

def syndromeTree : Tree := syndromes.foldl Tree.insert .leaf

/-- `1 ⊕ 0x2bc830a3` -/
def switchConst : Nat := Gen.b32VerifyConst ^^^ Gen.b32mVerifyConst

set_option maxRecDepth 200000 in
/-- the kernel computation: the tree is a search tree over `[0, 2^30)`, it contains every
    syndrome, and no syndrome xor the switch constant is in it -/
theorem syndrome_table :
    syndromeTree.bounded 0 (2 ^ 30) = true ∧ syndromes.all (fun s => syndromeTree.mem s) = true ∧
      syndromes.all (fun s => !syndromeTree.mem (s ^^^ switchConst)) = true := by
  decide +kernel

theorem mem_orbit (n c i : Nat) (hi : i < n) : polymodFrom c (List.replicate i 0) ∈ orbit n c := by
  induction n generalizing c i with
  | zero => omega
  | succ n ih =>
    cases i with
    | zero => simp [orbit, polymodFrom]
    | succ i =>
      have := ih (polymodStep c 0) i (by omega)
      simp only [orbit, List.mem_cons]
      right
      simpa [polymodFrom, List.replicate_succ] using this

theorem mem_syndromes (a i : Nat) (ha : a < 32) (ha0 : a ≠ 0) (hi : i < 90) :
    polymodFrom a (List.replicate i 0) ∈ syndromes := by
  unfold syndromes
  rw [List.mem_flatMap]
  refine ⟨a - 1, List.mem_range.mpr (by omega), ?_⟩
  have : a - 1 + 1 = a := by omega
  rw [this]
  exact mem_orbit 90 a i hi

/-- no two single-error syndromes differ by the switch constant -/
theorem syndromes_switch (s t : Nat) (hs : s ∈ syndromes) (ht : t ∈ syndromes) : s ^^^ t ≠ switchConst := by
  obtain ⟨hb, hall, hnone⟩ := syndrome_table
  intro he
  have hts : t = s ^^^ switchConst := by
    rw [← he, ← Nat.xor_assoc, Nat.xor_self, Nat.zero_xor]
  have htm : syndromeTree.mem t = true := by
    have := List.all_eq_true.mp hall t ht
    simpa using this
  have hsn : syndromeTree.mem (s ^^^ switchConst) = false := by
    have := List.all_eq_true.mp hnone s hs
    simpa using this
  rw [← hts, htm] at hsn
  cases hsn

/-! ### two substituted symbols and a switched constant -/

theorem zipWith_xor_zeros_left (k : Nat) :
    List.zipWith (· ^^^ ·) (List.replicate k 0) (List.replicate k 0) = List.replicate k 0 := by
  have := zipWith_xor_self (List.replicate k 0)
  simpa using this

/-- the zero-input iteration is linear -/
theorem polymodFrom_zeros_xor (u v k : Nat) :
    polymodFrom (u ^^^ v) (List.replicate k 0) = polymodFrom u (List.replicate k 0) ^^^ polymodFrom v (List.replicate k 0) := by
  have := polymodFrom_xor (List.replicate k 0) (List.replicate k 0) rfl u v
  rwa [zipWith_xor_zeros_left] at this

theorem polymodFrom_replicate_add (c i j : Nat) :
    polymodFrom (polymodFrom c (List.replicate i 0)) (List.replicate j 0) = polymodFrom c (List.replicate (i + j) 0) := by
  rw [← polymodFrom_append]
  congr 1
  simp

/-- Two words that differ in exactly two 5-bit symbols, the first difference followed by at most
    89 further symbols: the difference of their checksums is never `1 ⊕ 0x2bc830a3`.  Hence if one
    has the bech32 constant the other does not have the bech32m constant, and vice versa. -/
theorem polymodFrom_double_switch (c : Nat) (pre mid post : List Nat) (x y x' y' : Nat)
    (hx : x < 32) (hy : y < 32) (hx' : x' < 32) (hy' : y' < 32) (hxy : x ≠ y) (hxy' : x' ≠ y')
    (hlen : mid.length + post.length + 1 ≤ 89) :
    polymodFrom c (pre ++ x :: mid ++ x' :: post) ^^^ polymodFrom c (pre ++ y :: mid ++ y' :: post) ≠ switchConst := by
  rw [polymodFrom_diff c _ _ (by simp)]
  have hz : List.zipWith (· ^^^ ·) (pre ++ x :: mid ++ x' :: post) (pre ++ y :: mid ++ y' :: post) =
      List.replicate pre.length 0 ++ (x ^^^ y) :: List.replicate mid.length 0 ++ (x' ^^^ y') ::
        List.replicate post.length 0 := by
    rw [List.zipWith_append (by simp), List.zipWith_append (by rfl), List.zipWith_cons_cons,
      List.zipWith_cons_cons, zipWith_xor_self, zipWith_xor_self, zipWith_xor_self]
  rw [hz, List.append_assoc, polymodFrom_append, polymodFrom_zero_zeros]
  have ha : x ^^^ y < 32 := Nat.xor_lt_two_pow (n := 5) hx hy
  have hb : x' ^^^ y' < 32 := Nat.xor_lt_two_pow (n := 5) hx' hy'
  have ha0 : x ^^^ y ≠ 0 := xor_ne_zero hxy
  have hb0 : x' ^^^ y' ≠ 0 := xor_ne_zero hxy'
  have hstep : polymodFrom 0 ((x ^^^ y) :: List.replicate mid.length 0 ++ (x' ^^^ y') :: List.replicate post.length 0)
      = polymodFrom (x ^^^ y) (List.replicate (mid.length + 1 + post.length) 0) ^^^
        polymodFrom (x' ^^^ y') (List.replicate post.length 0) := by
    have hsucc : polymodFrom (x ^^^ y) (List.replicate (mid.length + 1) 0) =
        polymodStep (polymodFrom (x ^^^ y) (List.replicate mid.length 0)) 0 := by
      rw [List.replicate_succ', polymodFrom_append]; rfl
    rw [← polymodFrom_replicate_add, ← polymodFrom_zeros_xor, polymodFrom_append, hsucc]
    simp only [polymodFrom, List.foldl_cons, polymodStep_zero_left]
    rw [← polymodStep_split]
  rw [hstep]
  exact syndromes_switch _ _ (mem_syndromes _ _ ha ha0 (by omega)) (mem_syndromes _ _ hb hb0 (by omega))

end Buidl.Bech32
