/-
  What `TxOut.to_address` accepts on a segwit address: only the three (version, length) pairs the
  library has a script type for, and then exactly the script of THAT version.
-/
import Buidl.Proofs.AddressDispatch
namespace Buidl.Address
open Buidl Buidl.Base58 Buidl.Bech32

theorem toAddress_segwit_sound (hash256 : Bytes → Bytes) (net : Str) (rest : Str) (spk : Spk)
    (h : toAddress segPrefixesRepaired hash256 (hrpOf net ++ '1' :: rest) = some spk) :
    ∃ n v prog, decodeBech32 (hrpOf net ++ '1' :: rest) = some (n, v, prog) ∧
      ((v = 0 ∧ prog.length = 20 ∧ spk = .p2wpkh prog) ∨ (v = 0 ∧ prog.length = 32 ∧ spk = .p2wsh prog) ∨
       (v = 1 ∧ prog.length = 32 ∧ spk = .p2tr prog)) := by
  rw [toAddress_segwit_repaired] at h
  cases hd : decodeBech32 (hrpOf net ++ '1' :: rest) with
  | none => rw [hd] at h; cases h
  | some r =>
    obtain ⟨n, v, prog⟩ := r
    rw [hd] at h
    simp only [Gen.toAddrV0, Gen.toAddrV1, Gen.toAddrV0LenA, Gen.toAddrV0LenB, Gen.toAddrV1Len] at h
    refine ⟨n, v, prog, rfl, ?_⟩
    by_cases h0 : v = 0
    · simp only [h0, if_true] at h
      by_cases h20 : prog.length = 20
      · simp only [h20, if_true, Option.some.injEq] at h
        exact Or.inl ⟨h0, h20, h.symm⟩
      · simp only [h20, if_false] at h
        by_cases h32 : prog.length = 32
        · simp only [h32, if_true, Option.some.injEq] at h
          exact Or.inr (Or.inl ⟨h0, h32, h.symm⟩)
        · simp [h32] at h
    · simp only [h0, if_false] at h
      by_cases h1 : v = 1
      · simp only [h1, if_true] at h
        by_cases h32 : prog.length = 32
        · simp only [h32, if_true, Option.some.injEq] at h
          exact Or.inr (Or.inr ⟨h1, h32, h.symm⟩)
        · simp [h32] at h
      · simp [h1] at h

/-- every other witness version (2..16 and beyond) and every other program length is refused -/
theorem toAddress_segwit_refuses (hash256 : Bytes → Bytes) (net : Str) (rest : Str) (n : Str) (v : Nat) (prog : Bytes)
    (hd : decodeBech32 (hrpOf net ++ '1' :: rest) = some (n, v, prog))
    (hbad : ¬ ((v = 0 ∧ (prog.length = 20 ∨ prog.length = 32)) ∨ (v = 1 ∧ prog.length = 32))) :
    toAddress segPrefixesRepaired hash256 (hrpOf net ++ '1' :: rest) = none := by
  cases h : toAddress segPrefixesRepaired hash256 (hrpOf net ++ '1' :: rest) with
  | none => rfl
  | some spk =>
    exfalso
    obtain ⟨n', v', prog', hd', hc⟩ := toAddress_segwit_sound hash256 net rest spk h
    rw [hd] at hd'
    simp only [Option.some.injEq, Prod.mk.injEq] at hd'
    obtain ⟨_, rfl, rfl⟩ := hd'
    apply hbad
    rcases hc with ⟨a, b, _⟩ | ⟨a, b, _⟩ | ⟨a, b, _⟩
    · exact Or.inl ⟨a, Or.inl b⟩
    · exact Or.inl ⟨a, Or.inr b⟩
    · exact Or.inr ⟨a, b⟩

end Buidl.Address
