/-
  Buidl.Proofs.Compose — closing the loop between the interpreter (C06) and the signature schemes
  (C01 ECDSA, C02 BIP340, C03 group law / encodings, C12 taproot tweak).

  C06 states soundness / completeness of `verifyInput` relative to ORACLES of the environment `Env`
  (`pkErr`, `sigPre`, `ecdsaOK`, `xonlyErr`, `schnorrPre`, `schnorrOK`).  `realEnv` instantiates them
  with the executable models of the real code, exactly as buidl/op.py consults them:

    op_checksig          point = S256Point.parse(sec_pubkey)          → `EC.parsePoint`      (pkErr)
                         sig = Signature.parse(tmp[:-1])              → `ECDSA.parseDer`     (sigPre)
                         z = tx_obj.sig_hash(input_index, tmp[-1])    → parameter `zOf`      (sigPre)
                         point.verify(z, sig)                         → `ECDSA.verify`       (ecdsaOK)
    op_checksig_schnorr  point = S256Point.parse_xonly(pubkey)        → `EC.parseXonly`      (xonlyErr)
                         sig = SchnorrSignature.parse(signature)      → `Schnorr.parse`      (schnorrPre)
                         msg = tx_obj.sig_hash(input_index, ht)       → parameter `msgOf`    (schnorrPre)
                         point.verify_schnorr(msg, sig)               → `Schnorr.verifySchnorr` (schnorrOK)

  The digest functions `zOf` / `msgOf` (hash type ↦ digest, `none` = `sig_hash` raises) are parameters:
  C05 proves what they are for the three signature-hash algorithms.  Hash functions, locktime,
  control-block parsing and the taproot commitment stay those of the base environment.

  One place where `Env` cannot mirror the code: `ecdsaOK` / `schnorrOK` are `Bool`, so an exception
  raised INSIDE `point.verify` (the sum `uG + vQ` is the point at infinity: AttributeError) or inside
  `verify_schnorr` (the key parsed from 32 zero bytes is the point at infinity: no `parity`) has no
  channel; `realEnv` answers `false` there.  The theorems below are unaffected (they speak about
  acceptance, and `true` is answered only when the real verification returns True).
-/
import Buidl.Props.C01
import Buidl.Props.C02
import Buidl.Props.C03
import Buidl.Props.C06
import Buidl.Props.C12

namespace Buidl.Compose
open Buidl Buidl.EC Buidl.Script Buidl.Interp

attribute [local irreducible] pmul

/-! ## the environment of the real code -/

/-- `S256Point.parse_xonly(pk).verify_schnorr(msg, SchnorrSignature.parse(sig))`
    (`Schnorr.verifyRaw` with `parse_xonly` in place of `parse`, as op_checksig_schnorr does) -/
def verifyRawXonly (sha256 : Bytes → Bytes) (c : Schnorr.Cache) (pk msg sig : Bytes) :
    Option (Bool × Schnorr.Cache) := do
  let Pk ← parseXonly pk
  let (R, s) ← Schnorr.parse sig
  Schnorr.verifySchnorr sha256 c Pk msg R s

/-- the ECDSA oracle of op_checksig / op_checkmultisig on raw bytes -/
def ecdsaReal (zOf : Nat → Option Nat) (pk : Bytes) (ht : Nat) (der : Bytes) : Bool :=
  match parsePoint pk, ECDSA.parseDer der, zOf ht with
  | some Q, some (r, s), some z => ECDSA.verify Q z r s == some true
  | _, _, _ => false

/-- the Schnorr oracle of op_checksig_schnorr / op_checksigadd_schnorr on raw bytes -/
def schnorrReal (sha256 : Bytes → Bytes) (c : Schnorr.Cache) (msgOf : Nat → Option Bytes)
    (pk : Bytes) (ht : Nat) (sig : Bytes) : Bool :=
  match msgOf ht with
  | none => false
  | some m =>
    match verifyRawXonly sha256 c pk m sig with
    | some (b, _) => b
    | none => false

/-- **the environment whose oracles are the real code**: `base` supplies the hash functions, locktime,
    sequence, version, control-block parsing and taproot commitment; `zOf` / `msgOf` the signature
    hashes; `c` the state of TAG_HASH_CACHE -/
def realEnv (base : Env) (zOf : Nat → Option Nat) (msgOf : Nat → Option Bytes) (c : Schnorr.Cache) : Env :=
  { base with
    pkErr := fun pk => if (parsePoint pk).isSome then none else some .valueError
    sigPre := fun der ht =>
      if (ECDSA.parseDer der).isSome && (zOf ht).isSome then none else some .valueError
    ecdsaOK := ecdsaReal zOf
    xonlyErr := fun pk => if (parseXonly pk).isSome then none else some .valueError
    schnorrPre := fun sig ht =>
      if (Schnorr.parse sig).isSome && (msgOf ht).isSome then none else some .valueError
    schnorrOK := schnorrReal base.sha256 c msgOf }

variable (base : Env) (zOf : Nat → Option Nat) (msgOf : Nat → Option Bytes) (c : Schnorr.Cache)

@[simp] theorem realEnv_hash160 : (realEnv base zOf msgOf c).hash160 = base.hash160 := rfl
@[simp] theorem realEnv_sha256 : (realEnv base zOf msgOf c).sha256 = base.sha256 := rfl

theorem verifyRawXonly_eq_verifyRaw (sha256 : Bytes → Bytes) (pk msg sig : Bytes) (h : pk.length = 32) :
    verifyRawXonly sha256 c pk msg sig = Schnorr.verifyRaw sha256 c pk msg sig := by
  simp only [verifyRawXonly, Schnorr.verifyRaw, parsePoint, h, if_true]

/-! ## what the ECDSA oracle means -/

/-- the three ECDSA oracles say yes exactly when key, signature and digest exist and `verify` returns True -/
theorem ecdsaAuth_iff (pk tmp : Bytes) :
    EcdsaAuth (realEnv base zOf msgOf c) pk tmp ↔
      ∃ der ht Q r s z, splitHashType tmp = .ok (der, ht) ∧ parsePoint pk = some Q ∧
        ECDSA.parseDer der = some (r, s) ∧ zOf ht = some z ∧ ECDSA.verify Q z r s = some true := by
  unfold EcdsaAuth
  constructor
  · rintro ⟨der, ht, hsp, hpk, hsg, hv⟩
    simp only [realEnv, ecdsaReal] at hpk hsg hv
    cases hQ : parsePoint pk with
    | none => simp [hQ] at hpk
    | some Q =>
      cases hd : ECDSA.parseDer der with
      | none => simp [hd] at hsg
      | some rs =>
        obtain ⟨r, s⟩ := rs
        cases hz : zOf ht with
        | none => simp [hd, hz] at hsg
        | some z =>
          simp only [hQ, hd, hz, beq_iff_eq] at hv
          exact ⟨der, ht, Q, r, s, z, hsp, rfl, hd, hz, hv⟩
  · rintro ⟨der, ht, Q, r, s, z, hsp, hQ, hd, hz, hv⟩
    refine ⟨der, ht, hsp, ?_, ?_, ?_⟩
    · simp [realEnv, hQ]
    · simp [realEnv, hd, hz]
    · simp [realEnv, ecdsaReal, hQ, hd, hz, hv]

theorem splitHashType_snoc (der : Bytes) (ht : UInt8) :
    splitHashType (der ++ [ht]) = .ok (der, ht.toNat) := by
  simp [splitHashType]

/-! ## what the Schnorr oracle means -/

/-- key-path check: `.ok (some true)` exactly when the x-only key parses, the signature (minus the
    hash-type byte when it has 65 bytes) parses, the digest exists and `verify_schnorr` returns True -/
theorem schnorrCheck_true_iff (x sig : Bytes) :
    schnorrCheck (realEnv base zOf msgOf c) x sig = .ok (some true) ↔
      ∃ body ht m c', ((sig.length = 65 ∧ ∃ b : UInt8, sig = body ++ [b] ∧ ht = b.toNat) ∨
          (sig.length ≠ 65 ∧ sig.length ≠ 0 ∧ body = sig ∧ ht = 0)) ∧
        msgOf ht = some m ∧ verifyRawXonly base.sha256 c x m body = some (true, c') := by
  unfold schnorrCheck
  simp only [realEnv]
  cases hx : parseXonly x with
  | none =>
    simp only [Option.isSome_none, Bool.false_eq_true, if_false, optErr]
    constructor
    · intro h; cases h
    · rintro ⟨body, ht, m, c', _, _, hv⟩
      simp [verifyRawXonly, hx] at hv
  | some Pk =>
    simp only [Option.isSome_some, if_true, optErr]
    by_cases h65 : sig.length = 65
    · rw [if_pos h65]
      cases hrev : sig.reverse with
      | nil =>
        have : sig = [] := by simpa using hrev
        subst this; simp at h65
      | cons b r =>
        have hsig : sig = r.reverse ++ [b] := by
          have := congrArg List.reverse hrev
          simpa using this
        simp only
        cases hp : Schnorr.parse r.reverse with
        | none =>
          simp only [Option.isSome_none, Bool.false_and, Bool.false_eq_true, if_false]
          constructor
          · intro h; cases h
          · rintro ⟨body, ht, m, c', hcase, _, hv⟩
            rcases hcase with ⟨_, b', hb', _⟩ | ⟨hne, _⟩
            · have : body = r.reverse := by
                rw [hsig] at hb'
                exact (List.append_inj' hb' rfl).1.symm
              subst this
              simp [verifyRawXonly, hx, hp] at hv
            · exact absurd h65 hne
        | some Rs =>
          cases hm : msgOf b.toNat with
          | none =>
            simp only [Option.isSome_some, Option.isSome_none, Bool.and_false, Bool.false_eq_true, if_false]
            constructor
            · intro h; cases h
            · rintro ⟨body, ht, m, c', hcase, hmm, hv⟩
              rcases hcase with ⟨_, b', hb', hht⟩ | ⟨hne, _⟩
              · rw [hsig] at hb'
                have hbb : b = b' := by
                  have := (List.append_inj' hb' rfl).2
                  simpa using this
                subst hbb; subst hht
                rw [hm] at hmm; cases hmm
              · exact absurd h65 hne
          | some m =>
            simp only [Option.isSome_some, Bool.and_self, if_true, schnorrReal, hm]
            constructor
            · intro h
              cases hv : verifyRawXonly base.sha256 c x m r.reverse with
              | none => simp [hv] at h
              | some bc =>
                obtain ⟨bb, c'⟩ := bc
                simp only [hv, Res.ok.injEq, Option.some.injEq] at h
                subst h
                exact ⟨r.reverse, b.toNat, m, c', Or.inl ⟨h65, b, hsig, rfl⟩, hm, hv⟩
            · rintro ⟨body, ht, m', c', hcase, hmm, hv⟩
              rcases hcase with ⟨_, b', hb', hht⟩ | ⟨hne, _⟩
              · rw [hsig] at hb'
                have h1 := List.append_inj' hb' rfl
                have hbb : b = b' := by simpa using h1.2
                subst hbb; subst hht
                rw [hm] at hmm; cases hmm
                rw [← h1.1] at hv
                simp [hv]
              · exact absurd h65 hne
    · rw [if_neg h65]
      by_cases h0 : sig.length = 0
      · rw [if_pos h0]
        constructor
        · intro h; cases h
        · rintro ⟨body, ht, m, c', hcase, _, _⟩
          rcases hcase with ⟨h, _⟩ | ⟨_, hne, _⟩
          · exact absurd h h65
          · exact absurd h0 hne
      · rw [if_neg h0]
        cases hp : Schnorr.parse sig with
        | none =>
          simp only [Option.isSome_none, Bool.false_and, Bool.false_eq_true, if_false]
          constructor
          · intro h; cases h
          · rintro ⟨body, ht, m, c', hcase, _, hv⟩
            rcases hcase with ⟨h, _⟩ | ⟨_, _, rfl, _⟩
            · exact absurd h h65
            · simp [verifyRawXonly, hx, hp] at hv
        | some Rs =>
          cases hm : msgOf 0 with
          | none =>
            simp only [Option.isSome_some, Option.isSome_none, Bool.and_false, Bool.false_eq_true, if_false]
            constructor
            · intro h; cases h
            · rintro ⟨body, ht, m, c', hcase, hmm, _⟩
              rcases hcase with ⟨h, _⟩ | ⟨_, _, _, rfl⟩
              · exact absurd h h65
              · rw [hm] at hmm; cases hmm
          | some m =>
            simp only [Option.isSome_some, Bool.and_self, if_true, schnorrReal, hm]
            constructor
            · intro h
              cases hv : verifyRawXonly base.sha256 c x m sig with
              | none => simp [hv] at h
              | some bc =>
                obtain ⟨bb, c'⟩ := bc
                simp only [hv, Res.ok.injEq, Option.some.injEq] at h
                subst h
                exact ⟨sig, 0, m, c', Or.inr ⟨h65, h0, rfl, rfl⟩, hm, hv⟩
            · rintro ⟨body, ht, m', c', hcase, hmm, hv⟩
              rcases hcase with ⟨h, _⟩ | ⟨_, _, rfl, rfl⟩
              · exact absurd h h65
              · rw [hm] at hmm; cases hmm
                simp [hv]

/-! ## ECDSA: from `PrivateKey.sign` to the oracle, and from the oracle to the ECDSA predicate -/

theorem sign_validSecret {hmac : Bytes → Bytes → Bytes} {fuel d z : Nat} {rs : Nat × Nat}
    (h : ECDSA.sign hmac fuel d z = .ok rs) : 1 ≤ d ∧ d < N := by
  simp only [ECDSA.sign] at h
  split at h
  · cases h
  · next hv =>
    have hv' : ECDSA.validSecret d = true := by simpa using hv
    unfold ECDSA.validSecret at hv'
    simp only [Bool.and_eq_true, Bool.not_eq_true', decide_eq_false_iff_not, gt_iff_lt, not_lt] at hv'
    have hN : 0 < N := by decide
    omega

theorem smul_G_ne_inf_of_range {d : Nat} (h1 : 1 ≤ d) (h2 : d < N) : smul (d : Int) G ≠ .inf := by
  rw [Ne, smul_G_eq_inf_iff]
  intro hdvd
  have := Int.le_of_dvd (by omega) hdvd
  omega

/-- the public key of a valid secret has both SEC encodings, and `S256Point.parse` reads them back -/
theorem pubkey_sec {d : Nat} (h1 : 1 ≤ d) (h2 : d < N) (cmp : Bool) :
    ∃ pkb, sec (smul (d : Int) G) cmp = some pkb ∧ parsePoint pkb = some (smul (d : Int) G) := by
  have hv : Valid P A B (smul (d : Int) G) := smul_valid G_valid d
  cases hq : smul (d : Int) G with
  | inf => exact absurd hq (smul_G_ne_inf_of_range h1 h2)
  | aff x y =>
    obtain ⟨pkb, hp⟩ := Props.C03.sec_defined x y cmp
    rw [hq] at hv
    exact ⟨pkb, hp, parsePoint_sec hv cmp hp⟩

/-- **signature → oracle**: the DER encoding of `PrivateKey(d).sign(z)` followed by a hash-type byte
    whose digest is `z`, together with the SEC encoding of `d·G`, is an authorisation in `realEnv`
    (hypotheses `r < N`, `s ≠ 0` are those of `verify_sign`: two events of probability ≈ 2⁻¹²⁸) -/
theorem ecdsaAuth_of_sign (hmac : Bytes → Bytes → Bytes) (fuel d z r s : Nat)
    (hsign : ECDSA.sign hmac fuel d z = .ok (r, s)) (hr : r < N) (hs0 : s ≠ 0)
    (htb : UInt8) (hz : zOf htb.toNat = some z) (cmp : Bool) (derb pkb : Bytes)
    (hder : ECDSA.der r s = some derb) (hsec : sec (smul (d : Int) G) cmp = some pkb) :
    EcdsaAuth (realEnv base zOf msgOf c) pkb (derb ++ [htb]) := by
  obtain ⟨hd1, hd2⟩ := sign_validSecret hsign
  have hv := Props.C01.verify_sign hmac fuel d z r s hsign hr hs0
  obtain ⟨hr1, _, hs1, hs2⟩ := Props.C01.verify_true_in_range _ z r s hv
  obtain ⟨b, hb, hpd⟩ := Props.C01.der_roundtrip r s hr1 (lt_trans hr ECDSA.N_lt) hs1 (lt_trans hs2 ECDSA.N_lt)
  rw [hder] at hb
  injection hb with hb
  subst hb
  rw [ecdsaAuth_iff]
  exact ⟨derb, htb.toNat, _, r, s, z, splitHashType_snoc derb htb,
    parsePoint_sec (smul_valid G_valid d) cmp hsec, hpd, hz, hv⟩

/-- the encodings exist for every signature `sign` returns -/
theorem sign_encodings (hmac : Bytes → Bytes → Bytes) (fuel d z r s : Nat)
    (hsign : ECDSA.sign hmac fuel d z = .ok (r, s)) (hr : r < N) (hs0 : s ≠ 0) (cmp : Bool) :
    ∃ derb pkb, ECDSA.der r s = some derb ∧ sec (smul (d : Int) G) cmp = some pkb := by
  obtain ⟨hd1, hd2⟩ := sign_validSecret hsign
  have hv := Props.C01.verify_sign hmac fuel d z r s hsign hr hs0
  obtain ⟨hr1, _, hs1, hs2⟩ := Props.C01.verify_true_in_range _ z r s hv
  obtain ⟨b, hb, _⟩ := Props.C01.der_roundtrip r s hr1 (lt_trans hr ECDSA.N_lt) hs1 (lt_trans hs2 ECDSA.N_lt)
  obtain ⟨pkb, hp, _⟩ := pubkey_sec hd1 hd2 cmp
  exact ⟨b, pkb, hb, hp⟩

/-- what a key accepted by `S256Point.parse` is: the SEC encoding of a curve point, or a 32-byte
    x-only key (`parse` dispatches on the length; 32 zero bytes are the point at infinity) -/
theorem parsePoint_shape {pk : Bytes} {Q : Pt} (h : parsePoint pk = some Q) :
    Valid P A B Q ∧ ((∃ cmp, sec Q cmp = some pk) ∨ (pk.length = 32 ∧ parseXonly pk = some Q)) := by
  refine ⟨parsePoint_valid h, ?_⟩
  unfold parsePoint at h
  by_cases h32 : pk.length = 32
  · rw [if_pos h32] at h; exact Or.inr ⟨h32, h⟩
  · rw [if_neg h32] at h
    by_cases hl : pk.length = 33 ∨ pk.length = 65
    · rw [if_pos hl] at h; exact Or.inl (sec_of_parseSec h)
    · rw [if_neg hl] at h; cases h

/-- **oracle → ECDSA predicate** -/
structure EcdsaWitness (pk tmp : Bytes) : Prop where
  intro ::
  ex : ∃ der ht Q r s z, splitHashType tmp = .ok (der, ht) ∧ parsePoint pk = some Q ∧ Valid P A B Q ∧
    ((∃ cmp, sec Q cmp = some pk) ∨ (pk.length = 32 ∧ parseXonly pk = some Q)) ∧
    ECDSA.parseDer der = some (r, s) ∧ zOf ht = some z ∧ Spec.ECDSA.Valid Q z r s

theorem ecdsaWitness_of_auth {pk tmp : Bytes} (h : EcdsaAuth (realEnv base zOf msgOf c) pk tmp) :
    EcdsaWitness zOf pk tmp := by
  obtain ⟨der, ht, Q, r, s, z, hsp, hQ, hd, hz, hv⟩ := (ecdsaAuth_iff base zOf msgOf c pk tmp).mp h
  obtain ⟨hval, hshape⟩ := parsePoint_shape hQ
  exact ⟨der, ht, Q, r, s, z, hsp, hQ, hval, hshape, hd, hz, Props.C01.verify_sound Q z r s hv⟩

theorem ecdsaReal_true {pk der : Bytes} {ht : Nat} (h : ecdsaReal zOf pk ht der = true) :
    ∃ Q r s z, parsePoint pk = some Q ∧ Valid P A B Q ∧ ECDSA.parseDer der = some (r, s) ∧
      zOf ht = some z ∧ Spec.ECDSA.Valid Q z r s := by
  unfold ecdsaReal at h
  cases hQ : parsePoint pk with
  | none => simp [hQ] at h
  | some Q =>
    cases hd : ECDSA.parseDer der with
    | none => simp [hQ, hd] at h
    | some rs =>
      obtain ⟨r, s⟩ := rs
      cases hz : zOf ht with
      | none => simp [hQ, hd, hz] at h
      | some z =>
        simp only [hQ, hd, hz, beq_iff_eq] at h
        exact ⟨Q, r, s, z, rfl, parsePoint_valid hQ, rfl, rfl, Props.C01.verify_sound Q z r s h⟩

/-! ## m-of-n: the signatures match distinct keys of the script, in order, each by the ECDSA predicate -/

/-- `sigs` (DER bytes, hash type) are valid ECDSA signatures for a subsequence of `keys`, in order -/
inductive RealSigMatch (zOf : Nat → Option Nat) : List (Bytes × Nat) → List Bytes → Prop where
  | nil (keys : List Bytes) : RealSigMatch zOf [] keys
  | cons (der : Bytes) (ht : Nat) (sigs : List (Bytes × Nat)) (pre : List Bytes) (p : Bytes) (rest : List Bytes)
      (Q : Pt) (r s z : Nat) : parsePoint p = some Q → Valid P A B Q → ECDSA.parseDer der = some (r, s) →
      zOf ht = some z → Spec.ECDSA.Valid Q z r s → RealSigMatch zOf sigs rest →
      RealSigMatch zOf ((der, ht) :: sigs) (pre ++ p :: rest)

theorem realSigMatch_of_sigMatch {sigs : List (Bytes × Nat)} {keys : List Bytes}
    (h : SigMatch (realEnv base zOf msgOf c) sigs keys) : RealSigMatch zOf sigs keys := by
  induction h with
  | nil pts => exact RealSigMatch.nil pts
  | cons der ht sigs pre p rest hok _ ih =>
    obtain ⟨Q, r, s, z, hQ, hv, hd, hz, hval⟩ := ecdsaReal_true zOf (show ecdsaReal zOf p ht der = true from hok)
    exact RealSigMatch.cons der ht sigs pre p rest Q r s z hQ hv hd hz hval ih

/-- `MultisigAuth` in the real environment: `m` signature elements, each a DER signature plus hash type,
    valid in order for distinct keys of the script -/
theorem multisig_real {m : Nat} {pks : List Bytes} (h : MultisigAuth (realEnv base zOf msgOf c) m pks) :
    ∃ (raw : List Bytes) (sigs : List (Bytes × Nat)), raw.length = m ∧ splitSigs raw = .ok sigs ∧
      RealSigMatch zOf sigs pks.reverse := by
  obtain ⟨raw, sigs, hl, hsp, hm, _, _⟩ := h
  exact ⟨raw, sigs, hl, hsp, realSigMatch_of_sigMatch base zOf msgOf c hm⟩

/-! ## Schnorr / taproot key path -/

theorem p2trCmds_eq (X : Pt) : Taproot.p2trCmds X = p2trSpk (xonly X) := rfl

/-- **signature → oracle**: the BIP340 signature of the message by the secret `d'` passes the key-path
    check against the x-only key of `d'·G`, as a 64-byte element (default hash type) or with a
    hash-type byte appended -/
theorem schnorrCheck_of_sign (hc : Schnorr.CacheOK base.sha256 c) (d' : Nat) (m a : Bytes)
    (hd1 : 1 ≤ d') (hd2 : d' < N) (hm : m.length = 32) (ha : a.length = 32)
    (hk : Spec.BIP340.nonce base.sha256 d' m a ≠ some 0) :
    ∃ sig R s c', Schnorr.signSchnorr base.sha256 c d' m (some a) = some ((R, s), c') ∧
      Schnorr.serialize R s = some sig ∧ sig.length = 64 ∧ Spec.BIP340.sign base.sha256 d' m a = some sig ∧
      (msgOf 0 = some m →
        schnorrCheck (realEnv base zOf msgOf c) (xonly (smul (d' : Int) G)) sig = .ok (some true)) ∧
      (∀ htb : UInt8, msgOf htb.toNat = some m →
        schnorrCheck (realEnv base zOf msgOf c) (xonly (smul (d' : Int) G)) (sig ++ [htb]) = .ok (some true)) := by
  obtain ⟨sig, R, s, c', hs, _, hser, hlen, hspec, hver⟩ :=
    Props.C02.sign_verifies base.sha256 c hc d' m a hd1 hd2 hm ha hk
  have hxl : (xonly (smul (d' : Int) G)).length = 32 := xonly_length _
  obtain ⟨c'', hraw⟩ := (Props.C02.verifySchnorr_eq_spec base.sha256 c hc _ m sig hxl hlen).mpr hver
  rw [← verifyRawXonly_eq_verifyRaw c base.sha256 _ m sig hxl] at hraw
  refine ⟨sig, R, s, c', hs, hser, hlen, hspec, ?_, ?_⟩
  · intro hmsg
    rw [schnorrCheck_true_iff]
    exact ⟨sig, 0, m, c'', Or.inr ⟨by omega, by omega, rfl, rfl⟩, hmsg, hraw⟩
  · intro htb hmsg
    rw [schnorrCheck_true_iff]
    exact ⟨sig, htb.toNat, m, c'', Or.inl ⟨by simp [hlen], htb, rfl, rfl⟩, hmsg, hraw⟩

/-- **oracle → BIP340**: a key-path element that passes the check carries a signature that
    `verify_schnorr` accepts for the digest of its hash type; when the signature proper has 64 bytes
    (always so for a 65-byte element) this is BIP340 verification -/
theorem bip340_of_schnorrCheck (hc : Schnorr.CacheOK base.sha256 c) (x sig : Bytes) (hl : x.length = 32)
    (h : schnorrCheck (realEnv base zOf msgOf c) x sig = .ok (some true)) :
    ∃ body ht m, ((sig.length = 65 ∧ ∃ b : UInt8, sig = body ++ [b] ∧ ht = b.toNat) ∨
        (sig.length ≠ 65 ∧ sig.length ≠ 0 ∧ body = sig ∧ ht = 0)) ∧ msgOf ht = some m ∧
      (∃ c', Schnorr.verifyRaw base.sha256 c x m body = some (true, c')) ∧
      (body.length = 64 → Spec.BIP340.verify base.sha256 x m body = true) := by
  obtain ⟨body, ht, m, c', hcase, hm, hv⟩ := (schnorrCheck_true_iff base zOf msgOf c x sig).mp h
  rw [verifyRawXonly_eq_verifyRaw c base.sha256 x m body hl] at hv
  exact ⟨body, ht, m, hcase, hm, ⟨c', hv⟩,
    fun hb => (Props.C02.verifySchnorr_eq_spec base.sha256 c hc x m body hl hb).mp ⟨c', hv⟩⟩

end Buidl.Compose
