/-
  Buidl.Proofs.ComposePsbt — glue between the PSBT workflow model (Buidl.Model.PsbtFlow, C10) and the
  interpreter model (Buidl.Model.Interp, C06): partial signatures that the interpreter's oracles accept,
  and the fact that the first m signatures in script order — what `PSBTIn.finalize` emits — are an
  OP_CHECKMULTISIG witness in the sense of Buidl.Proofs.Verify.  Definitions and helper lemmas for
  Buidl.Props.C10Compose.
-/
import Buidl.Props.C10
import Buidl.Props.C06
import Buidl.Proofs.Script

namespace Buidl.ComposePsbt
open Buidl Buidl.Script Buidl.Interp
open Buidl.Psbt (Dict dget scriptSigs scriptKeys PIn TxInV TxCodec Oracles finalizeIn sigsOK)

/-! ## partial signatures that the interpreter accepts -/

/-- every partial signature stored under one of `keys` is valid in the interpreter's sense: the key parses,
    the element is a DER signature with a hash-type byte whose digest exists, and `verify` holds -/
def SigsValid (env : Env) (sigs : Dict Bytes) (keys : List Bytes) : Prop :=
  ∀ k ∈ keys, ∀ s, dget sigs k = some s → EcdsaAuth env k s

/-- `dget` finds a member -/
theorem mem_of_dget {sigs : Dict Bytes} {k s : Bytes} (h : dget sigs k = some s) : (k, s) ∈ sigs := by
  induction sigs with
  | nil => simp [dget] at h
  | cons e r ih =>
    obtain ⟨k', v⟩ := e
    simp only [dget] at h
    split at h
    · rename_i hk; cases h; subst hk; simp
    · exact List.mem_cons_of_mem _ (ih h)

/-- **the link to PSBT.validate**: an input with a UTXO that passed the partial-signature check of
    `validate` (`sigsOK`, oracle `O.sigOK seg i sec sig` = "`point.verify(z, sig)` for the digest of input
    `i`") has valid partial signatures, given the digest glue: whatever `O.sigOK` accepts for input `i` the
    interpreter's oracles accept -/
theorem sigsValid_of_validate {Tx : Type} (env : Env) (O : Oracles) (i : Nat) (p : PIn Tx) (keys : List Bytes)
    (hutxo : p.prevOut.isSome = true ∨ p.prevTx.isSome = true) (hv : sigsOK O i p = true)
    (hglue : ∀ seg sec sig, O.sigOK seg i sec sig = true → EcdsaAuth env sec sig) :
    SigsValid env p.sigs keys := by
  intro k _ s hs
  have hmem := mem_of_dget hs
  simp only [sigsOK, List.all_eq_true, Bool.and_eq_true] at hv
  have := (hv _ hmem).2
  by_cases h1 : p.prevOut.isSome = true
  · simp only [h1, if_true] at this; exact hglue _ _ _ this
  · have h2 : p.prevTx.isSome = true := by rcases hutxo with h | h; exact absurd h h1; exact h
    simp only [h1, h2, if_true] at this
    exact hglue _ _ _ (by simpa using this)

/-! ## OP_CHECKMULTISIG's matching from signatures in script order -/

/-- (key, signature) pairs whose keys are an order-preserving selection of `K`, each signature valid for its
    key: the signatures split, match `K` in order, and their digests exist -/
theorem sigMatch_of_sublist (env : Env) : ∀ (sel : List (Bytes × Bytes)) (K : List Bytes),
    (sel.map Prod.fst).Sublist K → (∀ e ∈ sel, EcdsaAuth env e.1 e.2) →
    ∃ sigs, splitSigs (sel.map Prod.snd) = .ok sigs ∧ SigMatch env sigs K ∧
      ∀ s ∈ sigs, env.sigPre s.1 s.2 = none
  | [], K, _, _ => ⟨[], rfl, SigMatch.nil K, by simp⟩
  | (k, s) :: sel, K, hsub, hv => by
    simp only [List.map_cons] at hsub
    obtain ⟨r₁, r₂, hK, hk, hsub'⟩ := List.cons_sublist_iff.mp hsub
    obtain ⟨pre, post, hr₁⟩ := List.append_of_mem hk
    obtain ⟨sigs, hsplit, hmatch, hpre⟩ := sigMatch_of_sublist env sel (post ++ r₂)
      (hsub'.trans (List.sublist_append_right _ _)) (fun e he => hv e (by simp [he]))
    obtain ⟨der, ht, hsh, _, hsp, hok⟩ := hv (k, s) (by simp)
    refine ⟨(der, ht) :: sigs, ?_, ?_, ?_⟩
    · simp [splitSigs, hsh, hsplit, Res.bind]
    · rw [hK, hr₁, List.append_assoc, List.cons_append]
      exact SigMatch.cons der ht sigs pre k (post ++ r₂) hok hmatch
    · intro x hx
      rcases List.mem_cons.mp hx with rfl | hx
      · exact hsp
      · exact hpre x hx

theorem firstPkErr_none (env : Env) : ∀ (ks : List Bytes), (∀ k ∈ ks, env.pkErr k = none) → firstPkErr env ks = none
  | [], _ => rfl
  | k :: ks, h => by
    simp only [firstPkErr, h k (by simp)]
    exact firstPkErr_none env ks (fun x hx => h x (by simp [hx]))

/-- the (key, signature) pairs of the keys that carry a signature, in key order -/
def keySigs (sigs : Dict Bytes) (pks : List Bytes) : List (Bytes × Bytes) :=
  pks.filterMap fun k => (dget sigs k).map fun s => (k, s)

theorem keySigs_snd (sigs : Dict Bytes) (pks : List Bytes) :
    (keySigs sigs pks).map Prod.snd = pks.filterMap (dget sigs) := by
  induction pks with
  | nil => rfl
  | cons k r ih =>
    simp only [keySigs, List.filterMap_cons] at ih ⊢
    cases dget sigs k <;> simp [ih]

theorem keySigs_fst_sublist (sigs : Dict Bytes) (pks : List Bytes) : ((keySigs sigs pks).map Prod.fst).Sublist pks := by
  induction pks with
  | nil => simp [keySigs]
  | cons k r ih =>
    simp only [keySigs, List.filterMap_cons] at ih ⊢
    cases dget sigs k with
    | none => exact ih.cons _
    | some s => simpa using ih.cons_cons k

theorem keySigs_valid {env : Env} {sigs : Dict Bytes} {pks : List Bytes} (h : SigsValid env sigs pks) :
    ∀ e ∈ keySigs sigs pks, EcdsaAuth env e.1 e.2 := by
  intro e he
  simp only [keySigs, List.mem_filterMap] at he
  obtain ⟨k, hk, hs⟩ := he
  cases hd : dget sigs k with
  | none => simp [hd] at hs
  | some s =>
    simp only [hd, Option.map_some, Option.some.injEq] at hs
    subst hs
    exact h k hk s hd

/-- the signatures of the script's keys for the `m key₁ … keyₙ n CHECKMULTISIG` template -/
theorem scriptSigs_multisig (sigs : Dict Bytes) (m : Nat) (pks : List Bytes) :
    scriptSigs sigs (multisigScript m pks) = pks.filterMap (dget sigs) := by
  simp [scriptSigs, multisigScript, List.filterMap_append, List.filterMap_map, Function.comp_def]

theorem scriptKeys_multisig (m : Nat) (pks : List Bytes) : scriptKeys (multisigScript m pks) = pks := by
  simp [scriptKeys, multisigScript, List.filterMap_append, List.filterMap_map, Function.comp_def]

/-- **the first `m` signatures in script order are a CHECKMULTISIG witness**: all script keys parse, every
    stored signature is valid, at least `m` keys carry one -/
theorem multisigWitness_of_scriptSigs (env : Env) (sigs : Dict Bytes) (mm : Nat) (pks : List Bytes) (m : Nat)
    (hpk : ∀ k ∈ pks, env.pkErr k = none) (hv : SigsValid env sigs pks)
    (hm : m ≤ (scriptSigs sigs (multisigScript mm pks)).length) :
    MultisigWitness env pks ((scriptSigs sigs (multisigScript mm pks)).take m) ∧
      ((scriptSigs sigs (multisigScript mm pks)).take m).length = m := by
  rw [scriptSigs_multisig] at hm ⊢
  refine ⟨?_, by simp [hm]⟩
  have hsub : ((((keySigs sigs pks).take m).reverse).map Prod.fst).Sublist pks.reverse := by
    rw [List.map_reverse]
    exact (((List.take_sublist m _).map Prod.fst).trans (keySigs_fst_sublist sigs pks)).reverse
  obtain ⟨ss, hsplit, hmatch, hpre⟩ := sigMatch_of_sublist env _ _ hsub
    (fun e he => keySigs_valid hv e ((List.take_sublist m _).subset (List.mem_reverse.mp he)))
  refine ⟨ss, ?_, hmatch, firstPkErr_none env _ (fun k hk => hpk k (List.mem_reverse.mp hk)), hpre⟩
  rw [← hsplit, List.map_reverse, List.map_take, keySigs_snd]


/-- the quorum opcode of the multisig template, as `PSBTIn.finalize` reads it (`op_code_to_number`) -/
theorem quorum_multisig (mm : Nat) (pks : List Bytes) (h : 1 ≤ mm ∧ mm ≤ 16) :
    Psbt.opCodeToNumber (multisigScript mm pks)[0]? = some (mm : Int) := by
  have : ∀ k, k < 17 → 1 ≤ k → Psbt.opCodeToNumber (some (Cmd.op (80 + k))) = some (k : Int) := by decide
  simpa [multisigScript] using this mm (by omega) h.1

/-- what the finalised input map looks like to the verifier: the ScriptSig's commands and the witness items
    (an absent witness is the empty one) -/
def finalScriptSig {Tx} (q : PIn Tx) : List Cmd := (q.scriptSig.map (·.cmds)).getD []
def finalWitness {Tx} (q : PIn Tx) : List Bytes := q.witness.getD []

/-- script bytes of a well-formed command list (opcodes outside 1..78, data of 1..520 bytes) read back as the
    same commands: discharges the "same script" glue hypothesis `parseCommands raw = some cmds` -/
theorem parseCommands_of_rawOf {s : Script} {raw : Bytes} (hraw : s.raw = none) (h : Psbt.rawOf s = some raw)
    (wf : ∀ c ∈ s.cmds, CmdWF c) (hne : Cmd.push [] ∉ s.cmds) (hlen : s.cmds.length ≤ 2 ^ 40) :
    parseCommands raw = some s.cmds := by
  have hser : serCmds s.cmds = some raw := by simpa [Psbt.rawOf, rawSerialize, hraw] using h
  have hsz := serCmds_length wf hser
  have hle : cmdsSize s.cmds ≤ 523 * s.cmds.length := by
    clear hser hsz hne hlen h hraw
    generalize s.cmds = cs at wf
    induction cs with
    | nil => simp [cmdsSize]
    | cons c cs ih =>
      have := ih (fun x hx => wf x (by simp [hx]))
      have hc : cmdSize c ≤ 523 := by
        have := wf c (by simp)
        cases c with
        | op n => simp [cmdSize]
        | push d =>
          simp only [CmdWF] at this
          simp only [cmdSize]
          split
          · omega
          · split <;> omega
      simp only [cmdsSize, List.length_cons]
      omega
  have hlt : raw.length < 2 ^ 63 := by rw [hsz]; omega
  have hsome : (encodeVarint raw.length).isSome := (encodeVarint_isSome_iff _).mpr (by omega)
  obtain ⟨e, he⟩ := Option.isSome_iff_exists.mp hsome
  have hv : encodeVarstr raw = some (e ++ raw) := by simp [encodeVarstr, he]
  have hr := readVarstr_encodeVarstr raw [] (e ++ raw) hlt hv
  simp only [List.append_nil] at hr
  have hcanon : canon s.cmds = s.cmds := by
    unfold canon
    conv => rhs; rw [← List.map_id s.cmds]
    apply List.map_congr_left
    intro c hc'
    cases c with
    | op n => rfl
    | push d =>
      cases d with
      | nil => exact absurd hc' hne
      | cons _ _ => rfl
  simp [parseCommands, hv, Script.parse, hr, parseRaw_serCmds s.cmds raw wf hser, hcanon]


/-! ## from inputs to the PSBT: `zipWithM'` -/

theorem zipWithM'_some {α β γ : Type} (f : α → β → Option γ) (G : Nat → γ → Prop) :
    ∀ (as : List α) (bs : List β) (off : Nat), as.length = bs.length →
      (∀ j a b, as[j]? = some a → bs[j]? = some b → ∃ c, f a b = some c ∧ G (off + j) c) →
      ∃ cs, Psbt.zipWithM' f as bs = some cs ∧ cs.length = bs.length ∧ ∀ j c, cs[j]? = some c → G (off + j) c
  | [], [], _, _, _ => ⟨[], rfl, rfl, by simp⟩
  | [], _ :: _, _, hl, _ => by simp at hl
  | _ :: _, [], _, hl, _ => by simp at hl
  | a :: as, b :: bs, off, hl, h => by
    obtain ⟨c, hc, hg⟩ := h 0 a b rfl rfl
    obtain ⟨cs, hcs, hlen, hall⟩ := zipWithM'_some f G as bs (off + 1) (by simpa using hl)
      (fun j a' b' ha hb => by
        obtain ⟨c', h1, h2⟩ := h (j + 1) a' b' (by simpa using ha) (by simpa using hb)
        exact ⟨c', h1, by rw [Nat.add_assoc, Nat.add_comm 1 j]; exact h2⟩)
    refine ⟨c :: cs, by simp [Psbt.zipWithM', hc, hcs], by simp [hlen], ?_⟩
    intro j c' hj
    cases j with
    | zero => simp at hj; subst hj; exact hg
    | succ j =>
      have := hall j c' (by simpa using hj)
      rw [Nat.add_assoc, Nat.add_comm 1 j] at this
      exact this

theorem zipWithM'_none {α β γ : Type} (f : α → β → Option γ) :
    ∀ (as : List α) (bs : List β) (j : Nat) (a : α) (b : β), as[j]? = some a → bs[j]? = some b →
      f a b = none → Psbt.zipWithM' f as bs = none
  | [], _, j, _, _, ha, _, _ => by simp at ha
  | _ :: _, [], j, _, _, _, hb, _ => by simp at hb
  | a0 :: as, b0 :: bs, j, a, b, ha, hb, hf => by
    cases j with
    | zero =>
      simp at ha hb; subst ha; subst hb
      simp [Psbt.zipWithM', hf]
    | succ j =>
      have := zipWithM'_none f as bs j a b (by simpa using ha) (by simpa using hb) hf
      cases h0 : f a0 b0 <;> simp [Psbt.zipWithM', h0, this]


/-! ## a toy environment for the non-vacuity examples of Props/C10Compose -/

/-- constant "hashes" matching the toy scripts of Buidl.Proofs.PsbtFinalize (`toyP2wshSpk` carries 32 zero
    bytes, `toyP2shSpk` 20), every key parses, every signature verifies -/
def toyEnv : Env :=
  { locktime := 0, sequence := 0, version := 2, sha1 := id, ripemd160 := id, hash256 := id,
    sha256 := fun _ => List.replicate 32 0, hash160 := fun _ => List.replicate 20 0,
    ecdsaOK := fun _ _ _ => true }

end Buidl.ComposePsbt
