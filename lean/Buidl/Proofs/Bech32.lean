/-
  Helper lemmas about Buidl.Model.Bech32: the alphabet, checksum creation versus verification,
  the bech32 / bech32m address round trip, bc32 and CBOR round trips.
-/
import Buidl.Proofs.Polymod
import Buidl.Proofs.Regroup
import Buidl.Proofs.Base58
namespace Buidl.Bech32
open Buidl Buidl.Base58

/-! ### the alphabet -/

theorem alphabet_length : alphabet.length = 32 := by decide
theorem alphabet_nodup : alphabet.Nodup := by decide
theorem one_not_mem_alphabet : '1' ∉ alphabet := by decide
theorem alphabet_lower : ∀ c ∈ alphabet, asciiLower c = c := by decide

/-- the character of 5-bit value `d` -/
def b32char (d : Nat) : Char := (alphabet[d]?).getD 'q'

theorem b32char_mem {d : Nat} (hd : d < 32) : b32char d ∈ alphabet := by
  have hl : d < alphabet.length := by rw [alphabet_length]; exact hd
  simp [b32char, hl]

theorem indexOf?_b32char {d : Nat} (hd : d < 32) : indexOf? (b32char d) alphabet = some d := by
  have hl : d < alphabet.length := by rw [alphabet_length]; exact hd
  have : b32char d = alphabet[d] := by simp [b32char, hl]
  rw [this]
  exact indexOf?_getElem alphabet alphabet_nodup d hl

theorem b32char_of_indexOf? {c : Char} {i : Nat} (h : indexOf? c alphabet = some i) :
    i < 32 ∧ b32char i = c := by
  obtain ⟨hi, e⟩ := indexOf?_some h
  refine ⟨by rw [alphabet_length] at hi; exact hi, ?_⟩
  simp [b32char, hi, e]

theorem b32char_inj {a b : Nat} (ha : a < 32) (hb : b < 32) (h : b32char a = b32char b) : a = b := by
  have := indexOf?_b32char ha
  rw [h, indexOf?_b32char hb] at this
  exact (Option.some.inj this).symm

theorem indexOf?_none_of_not_mem {c : Char} {l : Str} (h : c ∉ l) : indexOf? c l = none := by
  induction l with
  | nil => rfl
  | cons x xs ih =>
    have hx : ¬ x = c := fun e => h (by simp [e])
    have hxs : c ∉ xs := fun e => h (by simp [e])
    simp [indexOf?, hx, ih hxs]

theorem indexOf?_isSome_of_mem {c : Char} {l : Str} (h : c ∈ l) : ∃ i, indexOf? c l = some i := by
  induction l with
  | nil => simp at h
  | cons x xs ih =>
    by_cases hx : x = c
    · exact ⟨0, by simp [indexOf?, hx]⟩
    · have : c ∈ xs := by
        rcases List.mem_cons.mp h with e | e
        · exact absurd e.symm hx
        · exact e
      obtain ⟨i, hi⟩ := ih this
      exact ⟨i + 1, by simp [indexOf?, hx, hi]⟩

theorem lookupAll32 (ds : List Nat) (h : ∀ d ∈ ds, d < 32) : lookupAll alphabet ds = some (ds.map b32char) := by
  induction ds with
  | nil => rfl
  | cons d ds ih =>
    have hd : d < alphabet.length := by rw [alphabet_length]; exact h d (by simp)
    simp only [lookupAll, ih (fun x hx => h x (by simp [hx])), List.map_cons]
    simp [b32char, hd]

theorem mapM_index_b32 (ds : List Nat) (h : ∀ d ∈ ds, d < 32) :
    (ds.map b32char).mapM (fun c => indexOf? c alphabet) = some ds := by
  induction ds with
  | nil => rfl
  | cons d ds ih =>
    simp [List.mapM_cons, indexOf?_b32char (h d (by simp)), ih (fun x hx => h x (by simp [hx]))]

theorem mapM_index_some {cs : Str} {res : List Nat} (h : cs.mapM (fun c => indexOf? c alphabet) = some res) :
    cs = res.map b32char ∧ ∀ d ∈ res, d < 32 := by
  induction cs generalizing res with
  | nil =>
    simp at h; subst h; simp
  | cons c cs ih =>
    rw [List.mapM_cons] at h
    cases hi : indexOf? c alphabet with
    | none => simp [hi] at h
    | some i =>
      cases hm : cs.mapM (fun c => indexOf? c alphabet) with
      | none => simp [hi, hm] at h
      | some r =>
        simp [hi, hm] at h
        subst h
        obtain ⟨hcs, hr⟩ := ih hm
        obtain ⟨hi32, hci⟩ := b32char_of_indexOf? hi
        refine ⟨by simp [hci, ← hcs], ?_⟩
        intro d hd
        rcases List.mem_cons.mp hd with rfl | hd
        · exact hi32
        · exact hr d hd

theorem map_b32char_inj {l1 l2 : List Nat} (h1 : ∀ d ∈ l1, d < 32) (h2 : ∀ d ∈ l2, d < 32)
    (h : l1.map b32char = l2.map b32char) : l1 = l2 := by
  induction l1 generalizing l2 with
  | nil =>
    cases l2 with
    | nil => rfl
    | cons _ _ => simp at h
  | cons a l1 ih =>
    cases l2 with
    | nil => simp at h
    | cons b l2 =>
      simp only [List.map_cons, List.cons.injEq] at h
      have := b32char_inj (h1 a (by simp)) (h2 b (by simp)) h.1
      subst this
      rw [ih (fun x hx => h1 x (by simp [hx])) (fun x hx => h2 x (by simp [hx])) h.2]

/-! ### checksum creation versus verification -/

theorem and31 (x : Nat) : x &&& 31 = x % 32 := Nat.and_two_pow_sub_one_eq_mod x 5

theorem chkDigits_eq (m : Nat) : chkDigits 5 5 31 6 m =
    [(m >>> 25) &&& 31, (m >>> 20) &&& 31, (m >>> 15) &&& 31, (m >>> 10) &&& 31, (m >>> 5) &&& 31, (m >>> 0) &&& 31] := by
  rfl

theorem chkDigits_length (m : Nat) : (chkDigits 5 5 31 6 m).length = 6 := by
  rw [chkDigits_eq]; rfl

theorem chkDigits_lt (m : Nat) : ∀ d ∈ chkDigits 5 5 31 6 m, d < 32 := by
  intro d hd
  rw [chkDigits_eq] at hd
  simp only [and31, List.mem_cons, List.not_mem_nil, or_false] at hd
  rcases hd with rfl | rfl | rfl | rfl | rfl | rfl <;> exact Nat.mod_lt _ (by omega)

theorem chkDigits_val (m : Nat) (hm : m < 2 ^ 30) : valBE 32 (chkDigits 5 5 31 6 m) = m := by
  rw [chkDigits_eq]
  simp only [valBE, List.foldl_cons, List.foldl_nil, and31, Nat.shiftRight_eq_div_pow]
  omega

theorem xor_shift5 (c v : Nat) (hv : v < 32) : (c <<< 5) ^^^ v = c * 32 + v := by
  apply Nat.eq_of_testBit_eq
  intro j
  rw [Nat.testBit_xor, Nat.testBit_shiftLeft, show c * 32 + v = 2 ^ 5 * c + v by omega,
    Nat.testBit_two_pow_mul_add c (by omega : v < 2 ^ 5)]
  by_cases hj : j < 5
  · have : ¬ j ≥ 5 := by omega
    simp [hj, this]
  · have h5 : j ≥ 5 := by omega
    have hvj : v.testBit j = false := by
      apply Nat.testBit_lt_two_pow
      calc v < 2 ^ 5 := by omega
        _ ≤ 2 ^ j := Nat.pow_le_pow_right (by omega) h5
    simp [hj, h5, hvj]

theorem polymodStep_small (c v : Nat) (hc : c < 2 ^ 25) (hv : v < 32) : polymodStep c v = c * 32 + v := by
  rw [polymodStep_eq]
  have hb : c >>> 25 = 0 := by rw [Nat.shiftRight_eq_div_pow]; exact Nat.div_eq_of_lt hc
  have hand : c &&& 0x1FFFFFF = c := by
    have := Nat.and_two_pow_sub_one_eq_mod c 25
    rw [show (0x1FFFFFF : Nat) = 2 ^ 25 - 1 by decide, this, Nat.mod_eq_of_lt hc]
  rw [hb, hand]
  simp only [term, Nat.zero_testBit, Bool.false_eq_true, if_false, Nat.xor_zero]
  exact xor_shift5 c v hv

theorem polymodFrom_small (ds : List Nat) (c j : Nat) (hc : c < 2 ^ (5 * j)) (hj : j + ds.length ≤ 6)
    (hd : ∀ d ∈ ds, d < 32) :
    polymodFrom c ds = ds.foldl (fun n d => n * 32 + d) c := by
  induction ds generalizing c j with
  | nil => rfl
  | cons d ds ih =>
    have hd32 : d < 32 := hd d (by simp)
    have hj5 : j ≤ 5 := by simp at hj; omega
    have hc25 : c < 2 ^ 25 := by
      calc c < 2 ^ (5 * j) := hc
        _ ≤ 2 ^ 25 := Nat.pow_le_pow_right (by omega) (by omega)
    simp only [polymodFrom, List.foldl_cons]
    rw [polymodStep_small c d hc25 hd32]
    have hnext : c * 32 + d < 2 ^ (5 * (j + 1)) := by
      rw [show 5 * (j + 1) = 5 * j + 5 by omega, Nat.pow_add]
      have : (2 : Nat) ^ 5 = 32 := by rfl
      omega
    exact ih (c * 32 + d) (j + 1) hnext (by simp at hj ⊢; omega) (fun x hx => hd x (by simp [hx]))

theorem zipWith_xor_zeros (l : List Nat) : List.zipWith (· ^^^ ·) (List.replicate l.length 0) l = l := by
  induction l with
  | nil => rfl
  | cons x xs ih => rw [List.length_cons, List.replicate_succ, List.zipWith_cons_cons, ih, Nat.zero_xor]

/-- the six symbols written by `create_checksum` make the checksum come out as the constant -/
theorem polymodFrom_create (s0 c : Nat) (hc : c < 2 ^ 30) (hs0 : s0 < 2 ^ 30) :
    polymodFrom s0 (chkDigits 5 5 31 6 (polymodFrom s0 (List.replicate 6 0) ^^^ c)) = c := by
  set P6 := polymodFrom s0 (List.replicate 6 0) with hP6
  have hP6lt : P6 < 2 ^ 30 := polymodFrom_lt _ _ hs0 (by intro v hv; rw [List.eq_of_mem_replicate hv]; omega)
  have hm : P6 ^^^ c < 2 ^ 30 := Nat.xor_lt_two_pow hP6lt hc
  set chk := chkDigits 5 5 31 6 (P6 ^^^ c) with hchk
  have hlen : chk.length = 6 := chkDigits_length _
  have hlin := polymodFrom_xor (List.replicate 6 0) chk (by simp [hlen]) s0 0
  rw [Nat.xor_zero] at hlin
  have hz : List.zipWith (· ^^^ ·) (List.replicate 6 0) chk = chk := by
    have := zipWith_xor_zeros chk
    rwa [hlen] at this
  rw [hz] at hlin
  rw [hlin, ← hP6]
  have hsmall := polymodFrom_small chk 0 0 (by simp) (by simp [hlen]) (chkDigits_lt _)
  have hval : chk.foldl (fun n d => n * 32 + d) 0 = P6 ^^^ c := chkDigits_val _ hm
  rw [hsmall, hval, ← Nat.xor_assoc, Nat.xor_self, Nat.zero_xor]

theorem polymod_create (values : List Nat) (hv : ∀ v ∈ values, v < 2 ^ 30) (c : Nat) (hc : c < 2 ^ 30) :
    polymod (values ++ chkDigits 5 5 31 6 (polymod (values ++ List.replicate 6 0) ^^^ c)) = c := by
  unfold polymod
  rw [polymodFrom_append, polymodFrom_append]
  exact polymodFrom_create _ c hc (polymodFrom_lt _ _ (by simp [Gen.polymodInit]) hv)

/-! ### CBOR byte strings -/

theorem cborEncCmp0 (n : Nat) : cmpAt Gen.cborEncCmp 0 n = decide (n ≤ 23) := by
  simp [cmpAt, cmpOp, Gen.cborEncCmp]
theorem cborEncCmp1 (n : Nat) : cmpAt Gen.cborEncCmp 1 n = decide (n ≤ 255) := by
  simp [cmpAt, cmpOp, Gen.cborEncCmp]
theorem cborEncCmp2 (n : Nat) : cmpAt Gen.cborEncCmp 2 n = decide (n ≤ 65535) := by
  simp [cmpAt, cmpOp, Gen.cborEncCmp]
theorem cborDecCmp0 (n : Nat) : cmpAt Gen.cborDecCmp 0 n = decide (n ≥ 64) := by
  simp [cmpAt, cmpOp, Gen.cborDecCmp]
theorem cborDecCmp1 (n : Nat) : cmpAt Gen.cborDecCmp 1 n = decide (n < 88) := by
  simp [cmpAt, cmpOp, Gen.cborDecCmp]
theorem cborDecCmp2 (n : Nat) : cmpAt Gen.cborDecCmp 2 n = (n == 88) := by
  simp [cmpAt, cmpOp, Gen.cborDecCmp]
theorem cborDecCmp3 (n : Nat) : cmpAt Gen.cborDecCmp 3 n = (n == 89) := by
  simp [cmpAt, cmpOp, Gen.cborDecCmp]
theorem cborDecCmp4 (n : Nat) : cmpAt Gen.cborDecCmp 4 n = (n == 96) := by
  simp [cmpAt, cmpOp, Gen.cborDecCmp]

/-- the four layouts of `cbor_encode`, switching exactly at 24, 256 and 65536 -/
theorem cborEncode_eq (d : Bytes) (h : d.length < 2 ^ 32) :
    cborEncode d = some (
      if d.length ≤ 23 then UInt8.ofNat (0x40 + d.length) :: d
      else if d.length ≤ 255 then 0x58 :: UInt8.ofNat d.length :: d
      else if d.length ≤ 65535 then 0x59 :: (natToBE' 2 d.length ++ d)
      else 0x60 :: (natToBE' 4 d.length ++ d)) := by
  unfold cborEncode
  simp only [cborEncCmp0, cborEncCmp1, cborEncCmp2, Gen.cborEncShort, Gen.cborEncP1, Gen.cborEncP2, Gen.cborEncP4,
    Gen.cborEncW2, Gen.cborEncW4, decide_eq_true_eq]
  by_cases h0 : d.length ≤ 23
  · have : 64 + d.length < 256 := by omega
    simp [h0, pyByte, this]
  · by_cases h1 : d.length ≤ 255
    · have : d.length < 256 := by omega
      simp [h0, h1, pyByte, this]
    · by_cases h2 : d.length ≤ 65535
      · have : d.length < 65536 := by omega
        simp [h0, h1, h2, natToBE, this]
      · have : d.length < 4294967296 := by omega
        simp [h0, h1, h2, natToBE, this]

theorem cborDecode_cborEncode (d e : Bytes) (h : cborEncode d = some e) : cborDecode e = some d := by
  by_cases hlen : d.length < 2 ^ 32
  · rw [cborEncode_eq d hlen] at h
    cases h
    by_cases h0 : d.length ≤ 23
    · have hb : (UInt8.ofNat (0x40 + d.length)).toNat = 64 + d.length := by
        rw [UInt8.toNat_ofNat']; omega
      simp only [h0, if_true, cborDecode, cborDecCmp0, cborDecCmp1, hb, Gen.cborDecShort]
      have h1 : 64 + d.length ≥ 64 := by omega
      have h2 : 64 + d.length < 88 := by omega
      simp [h1, h2]
    · by_cases h1 : d.length ≤ 255
      · have hb : (UInt8.ofNat d.length).toNat = d.length := by
          rw [UInt8.toNat_ofNat']; omega
        simp [h0, h1, cborDecode, cborDecCmp0, cborDecCmp1, cborDecCmp2, Gen.cborDecW1, hb]
      · by_cases h2 : d.length ≤ 65535
        · have hl : d.length < 256 ^ 2 := by omega
          simp [h0, h1, h2, cborDecode, cborDecCmp0, cborDecCmp1, cborDecCmp2, cborDecCmp3, Gen.cborDecW2,
            take_append_len _ _ 2 (natToBE'_length 2 _), drop_append_len _ _ 2 (natToBE'_length 2 _),
            beToNat_natToBE' hl]
        · have hl : d.length < 256 ^ 4 := by omega
          simp [h0, h1, h2, cborDecode, cborDecCmp0, cborDecCmp1, cborDecCmp2, cborDecCmp3, cborDecCmp4, Gen.cborDecW4,
            take_append_len _ _ 4 (natToBE'_length 4 _), drop_append_len _ _ 4 (natToBE'_length 4 _),
            beToNat_natToBE' hl]
  · exfalso
    unfold cborEncode at h
    simp only [cborEncCmp0, cborEncCmp1, cborEncCmp2, Gen.cborEncW4, decide_eq_true_eq] at h
    have h0 : ¬ d.length ≤ 23 := by omega
    have h1 : ¬ d.length ≤ 255 := by omega
    have h2 : ¬ d.length ≤ 65535 := by omega
    simp [h0, h1, h2, natToBE] at h
    omega

theorem cborEncode_isSome_iff (d : Bytes) : (cborEncode d).isSome ↔ d.length < 2 ^ 32 := by
  constructor
  · intro h
    by_contra hlen
    unfold cborEncode at h
    simp only [cborEncCmp0, cborEncCmp1, cborEncCmp2, Gen.cborEncW4, decide_eq_true_eq] at h
    have h0 : ¬ d.length ≤ 23 := by omega
    have h1 : ¬ d.length ≤ 255 := by omega
    have h2 : ¬ d.length ≤ 65535 := by omega
    simp [h0, h1, h2, natToBE] at h
    omega
  · intro h; rw [cborEncode_eq d h]; rfl

theorem cborEncode_injective (d1 d2 e : Bytes) (h1 : cborEncode d1 = some e) (h2 : cborEncode d2 = some e) :
    d1 = d2 := by
  have a := cborDecode_cborEncode d1 e h1
  have b := cborDecode_cborEncode d2 e h2
  rw [a] at b
  exact Option.some.inj b

/-! ### bc32 -/

theorem valBE256_bytes (data : Bytes) : ∀ v ∈ data.map (·.toNat), v < 2 ^ 8 := by
  intro v hv
  obtain ⟨x, _, rfl⟩ := List.mem_map.mp hv
  exact x.toNat_lt

theorem toBytes_map_toNat (data : Bytes) : toBytes (data.map (·.toNat)) = some data := by
  unfold toBytes
  have : (data.map (·.toNat)).all (· < 256) = true := by
    rw [List.all_eq_true]
    intro v hv
    have := valBE256_bytes data v hv
    simpa using this
  rw [if_pos this]
  congr 1
  rw [List.map_map]
  conv_rhs => rw [← List.map_id data]
  apply List.map_congr_left
  intro x _
  simp

/-- 8 → 5 with padding followed by 5 → 8 without padding gives the bytes back -/
theorem convertbits_roundtrip (data : Bytes) :
    ∃ dd, convertbits (data.map (·.toNat)) 8 5 true = some dd ∧ (∀ d ∈ dd, d < 32) ∧
      convertbits dd 5 8 false = some (data.map (·.toNat)) := by
  obtain ⟨dd, pad, h1, hpad, hlen, hval, hlt⟩ :=
    convertbits_pad_spec 8 5 (by omega) (by omega) (data.map (·.toNat)) (valBE256_bytes data)
  obtain ⟨out, h2, holen, hoval, holt⟩ :=
    convertbits_5_8_nopad_spec dd hlt (valBE (2 ^ 8) (data.map (·.toNat))) data.length pad hpad hval
      (by simpa using hlen)
  refine ⟨dd, h1, by simpa using hlt, ?_⟩
  rw [h2]
  congr 1
  exact valBE_inj (2 ^ 8) (by omega) out (data.map (·.toNat)) (by simpa using holen) holt (valBE256_bytes data) hoval

/-- the text produced by `bc32encode`: the 5-bit groups of the data followed by six checksum symbols -/
theorem bc32encode_eq (data : Bytes) :
    ∃ dd, convertbits (data.map (·.toNat)) 8 5 true = some dd ∧ (∀ d ∈ dd, d < 32) ∧
      convertbits dd 5 8 false = some (data.map (·.toNat)) ∧
      bc32encode data = some ((dd ++ chkDigits 5 5 31 6 (polymod ([0] ++ dd ++ List.replicate 6 0) ^^^ 0x3FFFFFFF)).map b32char) := by
  obtain ⟨dd, h1, hlt, h2⟩ := convertbits_roundtrip data
  refine ⟨dd, h1, hlt, h2, ?_⟩
  unfold bc32encode
  simp only [Gen.bc32EncFrom, Gen.bc32EncTo, h1, Gen.bc32EncLead, Gen.bc32ChkPad, Gen.bc32ChkXor, Gen.bc32ChkBits,
    Gen.bc32ChkTop, Gen.bc32ChkMask, Gen.bc32ChkLen, Option.bind_eq_bind, Option.bind_some, List.replicate_one]
  apply lookupAll32
  intro d hd
  rcases List.mem_append.mp hd with hd | hd
  · exact hlt d hd
  · exact chkDigits_lt _ d hd

theorem map_lower_b32 (ds : List Nat) (h : ∀ d ∈ ds, d < 32) : (ds.map b32char).map asciiLower = ds.map b32char := by
  rw [List.map_map]
  apply List.map_congr_left
  intro d hd
  exact alphabet_lower _ (b32char_mem (h d hd))

/-- bc32: decoding inverts encoding -/
theorem bc32decode_bc32encode (data : Bytes) (s : Str) (h : bc32encode data = some s) : bc32decode s = some data := by
  obtain ⟨dd, _, hlt, h2, he⟩ := bc32encode_eq data
  rw [he] at h
  cases h
  set chk := chkDigits 5 5 31 6 (polymod ([0] ++ dd ++ List.replicate 6 0) ^^^ 0x3FFFFFFF) with hchk
  have hall : ∀ d ∈ dd ++ chk, d < 32 := by
    intro d hd
    rcases List.mem_append.mp hd with hd | hd
    · exact hlt d hd
    · exact chkDigits_lt _ d hd
  have hlow := map_lower_b32 _ hall
  unfold bc32decode
  rw [hlow]
  have hcase : ¬ ((dd ++ chk).map b32char ≠ (dd ++ chk).map b32char ∧
      ((dd ++ chk).map b32char).map asciiUpper ≠ (dd ++ chk).map b32char) := fun hc => hc.1 rfl
  rw [if_neg hcase]
  have hmem : ((dd ++ chk).map b32char).all (fun x => alphabet.contains x) = true := by
    rw [List.all_eq_true]
    intro c hc
    obtain ⟨d, hd, rfl⟩ := List.mem_map.mp hc
    simpa using b32char_mem (hall d hd)
  simp only [hmem, not_true_eq_false, if_false, mapM_index_b32 _ hall]
  have hpm : polymod (List.replicate Gen.bc32DecLead 0 ++ (dd ++ chk)) = Gen.bc32DecConst := by
    simp only [Gen.bc32DecLead, Gen.bc32DecConst, List.replicate_one]
    rw [← List.append_assoc]
    have hv : ∀ v ∈ [0] ++ dd, v < 2 ^ 30 := by
      intro v hv
      rcases List.mem_append.mp hv with hv | hv
      · simp at hv; omega
      · have := hlt v hv; omega
    exact polymod_create ([0] ++ dd) hv 0x3FFFFFFF (by omega)
  rw [hpm]
  simp only [ne_eq, not_true_eq_false, if_false, Gen.bc32DecCut, Gen.bc32DecFrom, Gen.bc32DecTo, Gen.bc32DecPad]
  rw [pyButLast_append_len dd chk 6 (chkDigits_length _), h2]
  exact toBytes_map_toNat data
where
  pyButLast_append_len {α} (a b : List α) (n : Nat) (hb : b.length = n) : pyButLast n (a ++ b) = a := by
    unfold pyButLast
    rw [List.length_append, hb, Nat.add_sub_cancel]
    simp

theorem bc32encode_injective (d1 d2 : Bytes) (s : Str) (h1 : bc32encode d1 = some s) (h2 : bc32encode d2 = some s) :
    d1 = d2 := by
  have a := bc32decode_bc32encode d1 s h1
  have b := bc32decode_bc32encode d2 s h2
  rw [a] at b
  exact Option.some.inj b

theorem bc32encode_isSome (data : Bytes) : (bc32encode data).isSome := by
  obtain ⟨dd, _, _, _, he⟩ := bc32encode_eq data
  rw [he]; rfl

/-- the text of `n` bytes has ⌈8n/5⌉ + 6 characters -/
theorem bc32encode_length (data : Bytes) (s : Str) (h : bc32encode data = some s) :
    5 * (s.length - 6) < 8 * data.length + 5 ∧ 8 * data.length ≤ 5 * (s.length - 6) ∧ 6 ≤ s.length := by
  obtain ⟨dd, h1, hlt, _, he⟩ := bc32encode_eq data
  rw [he] at h; cases h
  obtain ⟨out, pad, h1', hpad, hlen, _, _⟩ :=
    convertbits_pad_spec 8 5 (by omega) (by omega) (data.map (·.toNat)) (valBE256_bytes data)
  rw [h1] at h1'; cases h1'
  simp only [List.length_map, List.length_append, chkDigits_length] at hlen ⊢
  omega

end Buidl.Bech32
