/-
  Buidl.Proofs.RS1024Two — two-word errors.  A second error `d₂ < 1024` placed `g` positions after a first
  error `d₁ < 1024` cancels it only if `L^g(d₁) = d₂`; a kernel computation over the generated `GEN`
  (1023 chains of 63 steps) shows `L^g(d₁) ≥ 1024` for all `1 ≤ d₁ < 1024`, `1 ≤ g ≤ 63`.  Hence any two wrong
  words at most 63 positions apart — every pair of positions of a 20- or 33-word share — are detected.
-/
import Buidl.Proofs.RS1024TwoCheck
namespace Buidl.Shamir
open Buidl

theorem rsLpow_succ' (n d : Nat) : rsLpow (n + 1) d = rsL (rsLpow n d) := by
  induction n generalizing d with
  | zero => rfl
  | succ n ih => rw [rsLpow, ih (rsL d)]; rfl

theorem rsLpow_xor (n a b : Nat) : rsLpow n (a ^^^ b) = rsLpow n a ^^^ rsLpow n b := by
  induction n generalizing a b with
  | zero => rfl
  | succ n ih => rw [rsLpow, rsLpow, rsLpow, rsL_xor, ih]

theorem rsLpow_zero (n : Nat) : rsLpow n 0 = 0 := by
  induction n with
  | zero => rfl
  | succ n ih => rw [rsLpow, rsL_zero, ih]

theorem split_low (d : Nat) : d = (d % 2) ^^^ ((d / 2) <<< 1) := by
  apply Nat.eq_of_testBit_eq
  intro i
  rw [Nat.testBit_xor, Nat.testBit_shiftLeft]
  cases i with
  | zero =>
    simp only [Nat.testBit_zero, ge_iff_le, Nat.le_zero_eq, Nat.succ_ne_self, decide_false, Bool.false_and,
      Bool.xor_false]
    rcases Nat.mod_two_eq_zero_or_one d with h | h <;> simp [h]
  | succ j =>
    have h1 : (d % 2).testBit (j + 1) = false := by
      apply Nat.testBit_lt_two_pow
      calc d % 2 < 2 := Nat.mod_lt _ (by decide)
        _ ≤ 2 ^ (j + 1) := by
          have : 2 ^ 1 ≤ 2 ^ (j + 1) := Nat.pow_le_pow_right (by decide) (by omega)
          simpa using this
    rw [h1, Nat.testBit_succ]
    simp

/-- an XOR-linear function is determined by its values on the powers of two -/
theorem linear_combo (f : Nat → Nat) (hx : ∀ a b, f (a ^^^ b) = f a ^^^ f b) (h0 : f 0 = 0) :
    ∀ (n k d : Nat), d < 2 ^ n →
      f (d <<< k) = combo ((List.range n).map fun j => f (2 ^ (j + k))) d := by
  intro n
  induction n with
  | zero =>
    intro k d hd
    have : d = 0 := by simpa using hd
    subst this
    simp [combo, h0]
  | succ n ih =>
    intro k d hd
    rw [List.range_succ_eq_map, List.map_cons, List.map_map, combo]
    have hd2 : d / 2 < 2 ^ n := by
      rw [Nat.pow_succ] at hd; omega
    have e : d <<< k = ((d % 2) <<< k) ^^^ ((d / 2) <<< (k + 1)) := by
      conv => lhs; rw [split_low d]
      rw [Nat.shiftLeft_xor_distrib, ← Nat.shiftLeft_add, Nat.add_comm 1 k]
    rw [e, hx, ih (k + 1) (d / 2) hd2]
    congr 1
    · rcases Nat.mod_two_eq_zero_or_one d with h | h
      · simp [h, h0]
      · simp [h, Nat.shiftLeft_eq]
    · congr 1
      apply List.map_congr_left
      intro j _
      simp only [Function.comp]
      congr 2; omega

theorem rsLpow_combo (g d : Nat) (hd : d < 1024) : rsLpow g d = combo (basisAt g) d := by
  have := linear_combo (rsLpow g) (rsLpow_xor g) (rsLpow_zero g) 10 0 d (by simpa using hd)
  simpa [basisAt] using this

theorem basisAt_succ (g : Nat) : basisAt (g + 1) = (basisAt g).map rsL := by
  simp only [basisAt, List.map_map]
  apply List.map_congr_left
  intro j _
  simp only [Function.comp]
  exact rsLpow_succ' g _

theorem checkFrom_spec : ∀ (n g0 : Nat), checkFrom n (basisAt g0) = true →
    ∀ g, g0 < g → g ≤ g0 + n → allCombosBig (basisAt g) = true := by
  intro n
  induction n with
  | zero => intro g0 _ g h1 h2; omega
  | succ n ih =>
    intro g0 h g h1 h2
    simp only [checkFrom, Bool.and_eq_true] at h
    rw [← basisAt_succ] at h
    by_cases hg : g = g0 + 1
    · rw [hg]; exact h.1
    · exact ih (g0 + 1) h.2 g (by omega) (by omega)

theorem rsLpow_far (d g : Nat) (hd : d < 1024) (hd0 : d ≠ 0) (h1 : 1 ≤ g) (h2 : g ≤ 63) : 1024 ≤ rsLpow g d := by
  have h := checkFrom_spec 63 0 two_check g (by omega) (by omega)
  simp only [allCombosBig, List.all_eq_true, List.mem_range, Bool.or_eq_true, beq_iff_eq,
    decide_eq_true_eq] at h
  rw [rsLpow_combo g d hd]
  rcases h d hd with h | h
  · exact absurd h hd0
  · exact h

theorem rsLpow_lt (n d : Nat) (hd : d < 2 ^ 30) : rsLpow n d < 2 ^ 30 := by
  induction n generalizing d with
  | zero => exact hd
  | succ n ih => exact ih _ (rsL_lt d)

/-- two wrong words at most 63 positions apart change the polymod -/
theorem polymod_two_errors (pre mid post : List Nat) (a a' b b' : Nat) (ha : a < 1024) (ha' : a' < 1024)
    (hb : b < 1024) (hb' : b' < 1024) (hna : a ≠ a') (hmid : mid.length + 1 ≤ 63) :
    rs1024Polymod (pre ++ a :: (mid ++ b :: post)) ≠ rs1024Polymod (pre ++ a' :: (mid ++ b' :: post)) := by
  unfold rs1024Polymod
  simp only [List.foldl_append, List.foldl_cons]
  generalize pre.foldl rsStep Gen.rsInit = s
  have hd1 : a' ^^^ a < 1024 := Nat.xor_lt_two_pow (n := 10) ha' ha
  have hd10 : a' ^^^ a ≠ 0 := fun h => hna (xor_eq_zero_imp h).symm
  have hd2 : b' ^^^ b < 1024 := Nat.xor_lt_two_pow (n := 10) hb' hb
  have e1 : rsStep s a' = rsStep s a ^^^ (a' ^^^ a) := by
    rw [rsStep_eq, rsStep_eq]
    have : rsL s ^^^ a ^^^ (a' ^^^ a) = (rsL s ^^^ a') ^^^ (a ^^^ a) := by ac_rfl
    rw [this, Nat.xor_self, Nat.xor_zero]
  rw [e1, foldl_rsStep_xor]
  generalize mid.foldl rsStep (rsStep s a) = t
  -- the step at the second error
  have e2 : rsStep (t ^^^ rsLpow mid.length (a' ^^^ a)) b'
      = rsStep t b ^^^ (rsLpow (mid.length + 1) (a' ^^^ a) ^^^ (b' ^^^ b)) := by
    rw [rsStep_eq, rsStep_eq, rsL_xor, rsLpow_succ']
    have : rsL t ^^^ b ^^^ (rsL (rsLpow mid.length (a' ^^^ a)) ^^^ (b' ^^^ b))
        = (rsL t ^^^ rsL (rsLpow mid.length (a' ^^^ a)) ^^^ b') ^^^ (b ^^^ b) := by ac_rfl
    rw [this, Nat.xor_self, Nat.xor_zero]
  rw [e2, foldl_rsStep_xor]
  have hfar := rsLpow_far (a' ^^^ a) (mid.length + 1) hd1 hd10 (by omega) hmid
  have hE0 : rsLpow (mid.length + 1) (a' ^^^ a) ^^^ (b' ^^^ b) ≠ 0 := by
    intro h
    have := xor_eq_zero_imp h
    omega
  have hElt : rsLpow (mid.length + 1) (a' ^^^ a) ^^^ (b' ^^^ b) < 2 ^ 30 :=
    Nat.xor_lt_two_pow (rsLpow_lt _ _ (by omega)) (by omega)
  intro h
  have hz : rsLpow post.length (rsLpow (mid.length + 1) (a' ^^^ a) ^^^ (b' ^^^ b)) = 0 := by
    generalize rsLpow post.length (rsLpow (mid.length + 1) (a' ^^^ a) ^^^ (b' ^^^ b)) = Y at h
    generalize post.foldl rsStep (rsStep t b) = X at h
    have h2 : X ^^^ X = X ^^^ (X ^^^ Y) := congrArg (X ^^^ ·) h
    rw [Nat.xor_self, ← Nat.xor_assoc, Nat.xor_self, Nat.zero_xor] at h2
    exact h2.symm
  exact rsLpow_ne_zero _ _ hElt hE0 hz

/-- two wrong words (at most 63 positions apart) are never accepted -/
theorem verify_two_errors (cs : Bytes) (pre mid post : List Nat) (a a' b b' : Nat) (ha : a < 1024)
    (ha' : a' < 1024) (hb : b < 1024) (hb' : b' < 1024) (hna : a ≠ a')
    (hmid : mid.length + 1 ≤ 63) (hok : rs1024Verify cs (pre ++ a :: (mid ++ b :: post)) = true) :
    rs1024Verify cs (pre ++ a' :: (mid ++ b' :: post)) = false := by
  unfold rs1024Verify at hok ⊢
  simp only [beq_iff_eq] at hok
  rw [← List.append_assoc] at hok ⊢
  have := polymod_two_errors (cs.map (·.toNat) ++ pre) mid post a a' b b' ha ha' hb hb' hna hmid
  rw [hok] at this
  simp only [beq_eq_false_iff_ne, ne_eq]
  exact fun h => this h.symm

end Buidl.Shamir
