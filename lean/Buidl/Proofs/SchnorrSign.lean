/-
  C02 helper: PrivateKey.sign_schnorr returns exactly the BIP340 signature, and its self-verification
  succeeds whenever the nonce is non-zero.
-/
import Buidl.Proofs.SchnorrVerify
namespace Buidl.Schnorr
open Buidl Buidl.EC
open Buidl.Spec.BIP340 (liftX hashTag tagChallenge tagAux tagNonce bytes32 int)

attribute [local irreducible] fsqrt fpow pmul powmod

theorem xorBytes_eq (a b : Bytes) : xorBytes a b = Spec.BIP340.xor a b := by
  induction a generalizing b with
  | nil => cases b <;> simp [xorBytes, Spec.BIP340.xor]
  | cons x xs ih =>
    cases b with
    | nil => simp [xorBytes, Spec.BIP340.xor]
    | cons y ys =>
      have := ih ys
      simp only [Spec.BIP340.xor] at this
      simp [xorBytes, Spec.BIP340.xor, this]

theorem smul_G_ne_inf {d : ℕ} (h1 : 1 ≤ d) (h2 : d < N) : smul (d : ℤ) G ≠ .inf := by
  intro h
  have h3 := (smul_G_eq_inf_iff _).mp h
  have h4 := Int.le_of_dvd (by omega) h3
  omega

theorem smul_natCast' (k : ℕ) (X : Pt) : smul (k : ℤ) X = pmul P A (k % N) X := by
  show pmul P A ((k : ℤ) % (N : ℤ)).toNat X = _
  rw [← Int.natCast_mod, Int.toNat_natCast]

theorem smul_congr_mod {a b : ℕ} (h : a % N = b % N) (X : Pt) : smul (a : ℤ) X = smul (b : ℤ) X := by
  rw [smul_natCast', smul_natCast', h]

/-- the secret after even-Y normalisation of the public key (`PrivateKey.even_secret`) -/
def evenSec (d py : ℕ) : ℕ := if py % 2 = 1 then N - d else d

theorem evenSec_spec (d py : ℕ) : (if py % 2 = 0 then d else N - d) = evenSec d py := by
  unfold evenSec
  by_cases h : py % 2 = 0
  · rw [if_pos h, if_neg (by omega)]
  · rw [if_neg h, if_pos (by omega)]

theorem evenSec_lt {d py : ℕ} (h1 : 1 ≤ d) (h2 : d < N) : evenSec d py < N := by
  unfold evenSec; split <;> omega

/-- BIP340's `k'` for the secret `d` with public key `(px, py)` -/
def nonceOf (sha256 : Bytes → Bytes) (d px py : ℕ) (m a : Bytes) : ℕ :=
  int (hashTag sha256 tagNonce
    (Spec.BIP340.xor (bytes32 (evenSec d py)) (hashTag sha256 tagAux a) ++ bytes32 px ++ m)) % N

theorem nonceOf_lt (sha256 : Bytes → Bytes) (d px py : ℕ) (m a : Bytes) : nonceOf sha256 d px py m a < N :=
  Nat.mod_lt _ (by decide)

/-- PrivateKey.bip340_k computes BIP340's `k'` -/
theorem bip340K_eq (sha256 : Bytes → Bytes) (c : Cache) (hc : CacheOK sha256 c) (d px py : ℕ) (m a : Bytes)
    (hm : m.length = 32) (ha : a.length = 32) (hd1 : 1 ≤ d) (hd2 : d < N) :
    ∃ c', bip340K sha256 c d (.aff px py) m (some a) = some (nonceOf sha256 d px py m a, c') ∧
      CacheOK sha256 c' := by
  obtain ⟨c1, h1, hc1⟩ := taggedHash_spec sha256 c hc Gen.schnorrTagAux a
  have hlt : evenSec d py < 256 ^ 32 := lt_trans (evenSec_lt hd1 hd2) N_lt
  obtain ⟨c2, h2, hc2⟩ := taggedHash_spec sha256 c1 hc1 Gen.schnorrTagNonce
    (xorBytes (natToBE' 32 (evenSec d py)) (hashTag sha256 Gen.schnorrTagAux a) ++ xonly (.aff px py) ++ m)
  refine ⟨c2, ?_, hc2⟩
  have hes : evenSecret d (.aff px py) = some (evenSec d py) := rfl
  simp only [bip340K, hes, Option.bind_eq_bind, Option.bind_some, cmpAt, Gen.bip340KCmp, cmpOp, hm, ha,
    natToBE, hlt, if_true, hashAux, hashNonce, h1, h2, Option.pure_def]
  simp [nonceOf, xorBytes_eq, tagAux_eq, tagNonce_eq, int, bytes32, xonly]

/-- the nonce point after the even-Y flip: same x, even y, and it is `k·G` for the flipped nonce -/
theorem flip_nonce (k' rx ry : ℕ) (hk : k' < N) (hR : smul (k' : ℤ) G = .aff rx ry) :
    ∃ ry2, ry2 % 2 = 0 ∧ Valid P A B (.aff rx ry2) ∧
      (if ry % 2 = 1 then smul (((if ry % 2 = 1 then N - k' else k') : ℕ) : ℤ) G else Pt.aff rx ry) = .aff rx ry2 ∧
      smul (((if ry % 2 = 1 then N - k' else k') : ℕ) : ℤ) G = .aff rx ry2 := by
  have hv : Valid P A B (.aff rx ry) := hR ▸ smul_valid G_valid _
  by_cases hpar : ry % 2 = 1
  · have e : smul ((N - k' : ℕ) : ℤ) G = .aff rx (P - ry) := by
      rw [smul_N_sub _ hk, smul_neg G_tors, hR, pneg_aff hv.2.1 (valid_y_ne_zero hv)]
    refine ⟨P - ry, P_odd' hv.2.1 hpar, neg_valid_aff hv, ?_, ?_⟩
    · rw [if_pos hpar, if_pos hpar, e]
    · rw [if_pos hpar, e]
  · refine ⟨ry, by omega, hv, ?_, ?_⟩
    · rw [if_neg hpar]
    · rw [if_neg hpar, hR]

theorem take32_append (x y : ℕ) : (bytes32 x ++ bytes32 y).take 32 = bytes32 x := by
  have h : (bytes32 x).length = 32 := natToBE'_length 32 x
  exact take_append_len _ _ 32 h

theorem drop32_append (x y : ℕ) : ((bytes32 x ++ bytes32 y).drop 32).take 32 = bytes32 y := by
  have h : (bytes32 x).length = 32 := natToBE'_length 32 x
  rw [drop_append_len _ _ 32 h]
  exact List.take_of_length_le (by simp [bytes32])

theorem beToNat_bytes32 {x : ℕ} (h : x < 256 ^ 32) : beToNat (bytes32 x) = x := beToNat_natToBE' h

/-- BIP340 verification of a serialised `(rx, s)` under the x-only key of a finite curve point `Q` -/
theorem spec_verify_serialized (sha256 : Bytes → Bytes) (px py : ℕ) (hv : Valid P A B (.aff px py))
    (m : Bytes) (rx s : ℕ) (hrx : rx < P) (hs : s < N) :
    Spec.BIP340.verify sha256 (bytes32 px) m (bytes32 rx ++ bytes32 s) =
      specCore sha256 (evenRep (.aff px py)) m rx s := by
  have hpx : beToNat (bytes32 px) = px := beToNat_bytes32 (lt_of_lt_P hv.1)
  have hpx0 : beToNat (bytes32 px) ≠ 0 := by rw [hpx]; exact valid_x_ne_zero hv
  have hlift : liftX (beToNat (bytes32 px)) = some (evenRep (.aff px py)) := by
    rw [liftX_eq_parseXonly _ hpx0]
    exact parseXonly_xonly hv (by simp)
  rw [spec_verify_unfold, hlift, take32_append, drop32_append, beToNat_bytes32 (lt_of_lt_P hrx),
    beToNat_bytes32 (lt_trans hs N_lt)]
  simp only []
  rw [if_neg (by omega), if_neg (by omega)]

/-- `s·G − e·P = R` for `s = k + e·d`, `P = d·G`, `R = k·G` with even y: the BIP340 check succeeds -/
theorem specCore_complete (sha256 : Bytes → Bytes) (dd k e rx ry2 : ℕ) (Pk : Pt) (m : Bytes)
    (hPk : Pk = smul (dd : ℤ) G) (hR : smul (k : ℤ) G = .aff rx ry2) (hry : ry2 % 2 = 0)
    (he : e = int (hashTag sha256 tagChallenge (bytes32 rx ++ xonly Pk ++ m)) % N) :
    specCore sha256 Pk m rx ((k + dd * e) % N) = true := by
  have helt : e < N := by rw [he]; exact Nat.mod_lt _ (by decide)
  unfold specCore
  rw [← he, hPk, smul_smul G_tors, smul_add G_tors]
  have hmod : (((k + dd * e) % N + (N - e) * dd : ℕ)) % N = k % N := by
    have h1 : (N - e) * dd = N * dd - e * dd := Nat.sub_mul _ _ _
    have h2 : e * dd ≤ N * dd := Nat.mul_le_mul_right _ helt.le
    have h3 : dd * e = e * dd := Nat.mul_comm _ _
    rw [h1, h3]
    generalize e * dd = X at *
    simp only [N, Gen.secpN] at *
    omega
  have hcast : ((((k + dd * e) % N : ℕ) : ℤ) + ((N - e : ℕ) : ℤ) * (dd : ℤ)) =
      ((((k + dd * e) % N + (N - e) * dd : ℕ)) : ℤ) := by push_cast; rfl
  rw [hcast, smul_congr_mod hmod, hR]
  simp [hry]

/-- the even-Y representative of the public key is `evenSec · G` -/
theorem evenRep_pub {d px py : ℕ} (hd2 : d < N) (hPd : smul (d : ℤ) G = .aff px py) :
    evenRep (.aff px py) = smul (evenSec d py : ℤ) G := by
  have hT : Tors (.aff px py) := hPd ▸ smul_tors G_tors _
  rw [evenRep_eq_ite hT.1]
  show (if py % 2 = 1 then pneg P (.aff px py) else .aff px py) = _
  unfold evenSec
  by_cases hpar : py % 2 = 1
  · rw [if_pos hpar, if_pos hpar, smul_N_sub _ hd2, smul_neg G_tors, hPd]
  · rw [if_neg hpar, if_neg hpar, hPd]

theorem spec_sign_unfold (sha256 : Bytes → Bytes) (d px py : ℕ) (m a : Bytes) (hd1 : 1 ≤ d) (hd2 : d < N)
    (hPd : smul (d : ℤ) G = .aff px py) :
    Spec.BIP340.sign sha256 d m a =
      if nonceOf sha256 d px py m a = 0 then none else
      match smul (nonceOf sha256 d px py m a : ℤ) G with
      | .inf => none
      | .aff rx ry =>
        if Spec.BIP340.verify sha256 (bytes32 px) m (bytes32 rx ++ bytes32
            (((if ry % 2 = 0 then nonceOf sha256 d px py m a else N - nonceOf sha256 d px py m a) +
              int (hashTag sha256 tagChallenge (bytes32 rx ++ bytes32 px ++ m)) % N * evenSec d py) % N))
        then some (bytes32 rx ++ bytes32
            (((if ry % 2 = 0 then nonceOf sha256 d px py m a else N - nonceOf sha256 d px py m a) +
              int (hashTag sha256 tagChallenge (bytes32 rx ++ bytes32 px ++ m)) % N * evenSec d py) % N))
        else none := by
  unfold Spec.BIP340.sign
  rw [if_neg (by omega), hPd]
  simp only [evenSec_spec]
  rfl

/-- **sign_schnorr against BIP340 signing**: both fail when `k' = 0`; otherwise both return the same
    64 bytes `bytes(R) ‖ bytes(s)`, the model's self-verification succeeds, and the BIP340 verification
    of the result under the x-only public key succeeds. -/
theorem sign_main (sha256 : Bytes → Bytes) (c : Cache) (hc : CacheOK sha256 c) (d : ℕ) (m a : Bytes)
    (hd1 : 1 ≤ d) (hd2 : d < N) (hm : m.length = 32) (ha : a.length = 32) :
    ∃ px py, smul (d : ℤ) G = .aff px py ∧
      (nonceOf sha256 d px py m a = 0 →
        Spec.BIP340.sign sha256 d m a = none ∧ signSchnorr sha256 c d m (some a) = none) ∧
      (nonceOf sha256 d px py m a ≠ 0 →
        ∃ rx ry2 s c', ry2 % 2 = 0 ∧ Valid P A B (.aff rx ry2) ∧ s < N ∧
          Spec.BIP340.sign sha256 d m a = some (bytes32 rx ++ bytes32 s) ∧
          signSchnorr sha256 c d m (some a) = some ((.aff rx ry2, s), c') ∧ CacheOK sha256 c' ∧
          Spec.BIP340.verify sha256 (bytes32 px) m (bytes32 rx ++ bytes32 s) = true) := by
  cases hPd : smul (d : ℤ) G with
  | inf => exact absurd hPd (smul_G_ne_inf hd1 hd2)
  | aff px py =>
    have hT : Tors (.aff px py) := hPd ▸ smul_tors G_tors _
    have hv := hT.1
    refine ⟨px, py, rfl, ?_, ?_⟩
    · -- k' = 0
      intro hk0
      obtain ⟨c2, hK, hc2⟩ := bip340K_eq sha256 c hc d px py m a hm ha hd1 hd2
      refine ⟨by rw [spec_sign_unfold sha256 d px py m a hd1 hd2 hPd, if_pos hk0], ?_⟩
      have hmk : mkPrivateKey d = some (.aff px py) := by
        unfold mkPrivateKey; rw [if_neg (by omega), if_neg (by omega), hPd]
      have hes : evenSecret d (.aff px py) = some (evenSec d py) := rfl
      simp only [signSchnorr, hmk, hes, hK, hk0, Option.bind_eq_bind, Option.bind_some]
      rw [show smul ((0 : ℕ) : ℤ) G = .inf from smul_zero G]
      rfl
    · intro hk0
      obtain ⟨c2, hK, hc2⟩ := bip340K_eq sha256 c hc d px py m a hm ha hd1 hd2
      have hklt := nonceOf_lt sha256 d px py m a
      set k' := nonceOf sha256 d px py m a with hk'
      cases hR0 : smul (k' : ℤ) G with
      | inf =>
        exact absurd hR0 (smul_G_ne_inf (by omega) hklt)
      | aff rx ry =>
        obtain ⟨ry2, hry2, hv2, hflip, hkG⟩ := flip_nonce k' rx ry hklt hR0
        have hrxP : rx < P := hv2.1
        -- the challenge and s
        set e := int (hashTag sha256 tagChallenge (bytes32 rx ++ bytes32 px ++ m)) % N with he
        set k := (if ry % 2 = 1 then N - k' else k') with hk
        have hkspec : (if ry % 2 = 0 then k' else N - k') = k := by
          rw [hk]; by_cases h : ry % 2 = 0
          · rw [if_pos h, if_neg (by omega)]
          · rw [if_neg h, if_pos (by omega)]
        set s := (k + evenSec d py * e) % N with hs
        have hslt : s < N := Nat.mod_lt _ (by decide)
        have hsspec : (k + e * evenSec d py) % N = s := by rw [hs, Nat.mul_comm]
        -- the verification result
        have hx : xonly (evenRep (.aff px py)) = bytes32 px := by rw [xonly_evenRep]; rfl
        have hcore : specCore sha256 (evenRep (.aff px py)) m rx s = true :=
          specCore_complete sha256 (evenSec d py) k e rx ry2 _ m (evenRep_pub hd2 hPd) hkG hry2
            (by rw [hx])
        have hver : Spec.BIP340.verify sha256 (bytes32 px) m (bytes32 rx ++ bytes32 s) = true := by
          rw [spec_verify_serialized sha256 px py hv m rx s hrxP hslt, hcore]
        -- model side
        obtain ⟨c3, hC, hc3⟩ := taggedHash_spec sha256 c2 hc2 Gen.schnorrTagChallenge
          (xonly (.aff rx ry2) ++ xonly (.aff px py) ++ m)
        have hQ' : (if py % 2 = 1 then smul (-1) (.aff px py) else .aff px py) = evenRep (.aff px py) := by
          rw [← evenPoint_eq_evenRep hT]; rfl
        obtain ⟨c4, hV, hc4⟩ := verifySchnorr_core sha256 c3 hc3 px py _ hQ' (evenRep_valid hv) m rx ry2 s hrxP
        refine ⟨rx, ry2, s, c4, hry2, hv2, hslt, ?_, ?_, hc4, hver⟩
        · rw [spec_sign_unfold sha256 d px py m a hd1 hd2 hPd]
          simp only [← hk']
          rw [if_neg hk0, hR0]
          simp only [← he, hkspec, hsspec]
          rw [if_pos hver]
        · have hmk : mkPrivateKey d = some (.aff px py) := by
            unfold mkPrivateKey; rw [if_neg (by omega), if_neg (by omega), hPd]
          have hes : evenSecret d (.aff px py) = some (evenSec d py) := rfl
          have hpar : parityOf (.aff rx ry) = some (ry % 2) := rfl
          have hms : mkSig (.aff rx ry2) s = some (.aff rx ry2, s) := by rw [mkSig_eq, if_neg (by omega)]
          have hxR : xonly (.aff rx ry2) = bytes32 rx := rfl
          have hxP : xonly (.aff px py) = bytes32 px := rfl
          simp only [signSchnorr, hmk, hes, hK, hR0, hpar, Option.bind_eq_bind, Option.bind_some]
          simp only [← hk]
          rw [tagChallenge_eq, hxR, hxP] at hC
          simp only [hflip, hashChallenge, tagChallenge_eq, hxR, hxP, hC, Option.bind_some]
          have he' : beToNat (hashTag sha256 tagChallenge (bytes32 rx ++ bytes32 px ++ m)) % N = e := rfl
          simp only [he', ← hs, hms, Option.bind_some, hV, hcore]
          rfl

theorem spec_nonce_eq (sha256 : Bytes → Bytes) (d px py : ℕ) (m a : Bytes) (hd1 : 1 ≤ d) (hd2 : d < N)
    (hPd : smul (d : ℤ) G = .aff px py) :
    Spec.BIP340.nonce sha256 d m a = some (nonceOf sha256 d px py m a) := by
  unfold Spec.BIP340.nonce
  rw [if_neg (by omega), hPd]
  simp only [evenSec_spec]
  rfl

theorem serialize_aff (x y s : ℕ) (hs : s < N) :
    serialize (.aff x y) s = some (bytes32 x ++ bytes32 s) := by
  have : s < 256 ^ 32 := lt_trans hs N_lt
  simp only [serialize, natToBE, this, if_true, Option.bind_eq_bind, Option.bind_some, Option.pure_def]
  rfl

/-- serialize → parse for every finite curve point with even y and every `s < n` -/
theorem parse_serialize_even (x y s : ℕ) (hv : Valid P A B (.aff x y)) (hy : y % 2 = 0) (hs : s < N) :
    parse (bytes32 x ++ bytes32 s) = some (.aff x y, s) := by
  have hev : evenRep (.aff x y) = .aff x y := by
    show (if y % 2 = 1 then Pt.aff x (P - y) else Pt.aff x y) = _
    rw [if_neg (show ¬ y % 2 = 1 by omega)]
  have hp : parsePoint (bytes32 x) = some (.aff x y) := by
    have := parsePoint_xonly hv (by simp)
    rwa [hev] at this
  rw [parse_eq, take32_append, drop32_append, hp, beToNat_bytes32 (lt_trans hs N_lt)]
  simp only []
  rw [if_neg (by omega)]

/-- lift_x succeeds exactly on x coordinates of curve points, and returns the point with even y -/
theorem liftX_of_valid {x y : ℕ} (hv : Valid P A B (.aff x y)) : liftX x = some (evenRep (.aff x y)) := by
  have hx : beToNat (bytes32 x) = x := beToNat_bytes32 (lt_of_lt_P hv.1)
  have h0 : beToNat (bytes32 x) ≠ 0 := by rw [hx]; exact valid_x_ne_zero hv
  have := liftX_eq_parseXonly (bytes32 x) h0
  rw [hx] at this
  rw [this]
  exact parseXonly_xonly hv (by simp)

theorem liftX_valid {x : ℕ} {Q : Pt} (h : liftX x = some Q) :
    ∃ y, Q = .aff x y ∧ y % 2 = 0 ∧ Valid P A B (.aff x y) := by
  obtain ⟨y, hQ, hy, hxP⟩ := liftX_some h
  refine ⟨y, hQ, hy, ?_⟩
  have hx : beToNat (bytes32 x) = x := beToNat_bytes32 (lt_of_lt_P hxP)
  by_cases h0 : x = 0
  · rw [h0, liftX_zero] at h; cases h
  · have := liftX_eq_parseXonly (bytes32 x) (by rw [hx]; exact h0)
    rw [hx, h] at this
    have hv := parseXonly_valid this.symm
    rwa [hQ] at hv

/-- an R that is not the x coordinate of a curve point is rejected by SchnorrSignature.parse -/
theorem parse_nonresidue (b : Bytes) (h0 : beToNat (b.take 32) ≠ 0)
    (hn : ∀ y, y < P → y * y % P ≠ (beToNat (b.take 32) ^ 3 + 7) % P) : parse b = none := by
  cases hp : parse b with
  | none => rfl
  | some Rs =>
    obtain ⟨R, s⟩ := Rs
    obtain ⟨_, hR, _, _⟩ := parse_some b R s hp
    rw [parseXonly_nonresidue _ h0 hn] at hR
    cases hR

end Buidl.Schnorr
