/-
  Buidl.Proofs.ECGroup — the model of buidl/pecc.py FieldElement / Point (Buidl.Model.EC) computes
  the field operations of `ZMod p` and the group law of the short Weierstrass curve
  `y² = x³ + a x + b` over `ZMod p`, for every prime `p > 3` and every non-singular curve.

  Data refinement goes through the casts `ℕ → ZMod p` and a representation relation
  `Rep : Pt → (SW p a b).Point → Prop` into Mathlib's `WeierstrassCurve.Affine.Point`
  (an `AddCommGroup`).  The user-facing part (section "API") needs no knowledge of Mathlib's
  elliptic-curve library:

    CurveOK p a b            p > 3 and 4a³ + 27b² ≠ 0 (mod p)
    Valid p a b P            P = inf, or coordinates < p and `onCurve` holds
    pneg p P                 the opposite point
    toGroup p a b P          the Mathlib group element (0 for invalid P)
    padd_valid, pmul_valid, pneg_valid
    padd_comm, padd_assoc, padd_inf_left/right, padd_pneg, pneg_padd
    pmul_zero, pmul_one, pmul_succ, pmul_add, pmul_mul, pmul_two, pmul_pneg
    toGroup_inj, toGroup_padd, toGroup_pmul, toGroup_pneg, toGroup_inf, toGroup_eq_zero
-/
import Mathlib.AlgebraicGeometry.EllipticCurve.Affine.Point
import Mathlib.FieldTheory.Finite.Basic
import Mathlib.Tactic.Ring
import Buidl.Model.EC

namespace Buidl.EC
open WeierstrassCurve

/-! ## modular exponentiation and FieldElement operations are the operations of `ZMod p` -/

theorem powmodAux_cast (m : ℕ) : ∀ (fuel b e acc : ℕ), e < 2 ^ fuel →
    ((powmodAux fuel b e m acc : ℕ) : ZMod m) = (acc : ZMod m) * (b : ZMod m) ^ e := by
  intro fuel
  induction fuel with
  | zero => intro b e acc h; simp at h; subst h; simp [powmodAux]
  | succ n ih =>
    intro b e acc h
    unfold powmodAux
    split
    · next h0 => subst h0; simp
    · next h0 =>
      have he : e / 2 < 2 ^ n := by omega
      rw [ih _ _ _ he]
      have hdecomp : e = 2 * (e / 2) + e % 2 := by omega
      rcases Nat.mod_two_eq_zero_or_one e with h2 | h2
      · simp only [h2]
        conv_rhs => rw [hdecomp, h2, Nat.add_zero, pow_mul]
        simp [ZMod.natCast_mod, sq]
      · simp only [h2, if_true]
        conv_rhs => rw [hdecomp, h2, pow_succ, pow_mul]
        simp [ZMod.natCast_mod, sq]; ring

/-- Python's `pow(b, e, m)` is `b ^ e` in `ZMod m` -/
theorem powmod_cast (b e m : ℕ) : ((powmod b e m : ℕ) : ZMod m) = (b : ZMod m) ^ e := by
  unfold powmod
  rw [powmodAux_cast m _ _ _ _ Nat.lt_log2_self]
  simp [ZMod.natCast_mod]

theorem powmodAux_lt (m : ℕ) (hm : 0 < m) : ∀ (fuel b e acc : ℕ), acc < m →
    powmodAux fuel b e m acc < m := by
  intro fuel
  induction fuel with
  | zero => intro b e acc h; simpa [powmodAux] using h
  | succ n ih =>
    intro b e acc h
    unfold powmodAux
    split
    · exact h
    · apply ih
      split
      · exact Nat.mod_lt _ hm
      · exact h

theorem powmod_lt (b e m : ℕ) (hm : 0 < m) : powmod b e m < m := by
  unfold powmod
  exact powmodAux_lt m hm _ _ _ _ (Nat.mod_lt _ hm)

/-- `powmod b e m = b ^ e % m` -/
theorem powmod_eq (b e m : ℕ) (hm : 0 < m) : powmod b e m = b ^ e % m := by
  have h := powmod_cast b e m
  have : ((powmod b e m : ℕ) : ZMod m) = ((b ^ e : ℕ) : ZMod m) := by rw [h]; push_cast; rfl
  rw [ZMod.natCast_eq_natCast_iff'] at this
  rwa [Nat.mod_eq_of_lt (powmod_lt b e m hm)] at this

variable (p : ℕ) [hp : Fact p.Prime]

theorem cast_inj_of_lt {x y : ℕ} (hx : x < p) (hy : y < p) (h : (x : ZMod p) = (y : ZMod p)) :
    x = y := by
  have := congrArg ZMod.val h
  rwa [ZMod.val_natCast_of_lt hx, ZMod.val_natCast_of_lt hy] at this

theorem cast_ne_zero_of_lt {x : ℕ} (hx : x < p) (h0 : x ≠ 0) : (x : ZMod p) ≠ 0 := by
  intro h
  apply h0
  have hpos : 0 < p := hp.out.pos
  exact cast_inj_of_lt p hx hpos (by simpa using h)

theorem fadd_cast (a b : ℕ) : ((fadd p a b : ℕ) : ZMod p) = (a : ZMod p) + (b : ZMod p) := by
  unfold fadd; rw [ZMod.natCast_mod, Nat.cast_add]

theorem fmul_cast (a b : ℕ) : ((fmul p a b : ℕ) : ZMod p) = (a : ZMod p) * (b : ZMod p) := by
  unfold fmul; rw [ZMod.natCast_mod, Nat.cast_mul]

theorem fsub_cast (a b : ℕ) : ((fsub p a b : ℕ) : ZMod p) = (a : ZMod p) - (b : ZMod p) := by
  unfold fsub
  have hb : b % p < p := Nat.mod_lt _ hp.out.pos
  rw [ZMod.natCast_mod, Nat.cast_add, Nat.cast_sub (by omega), ZMod.natCast_self, ZMod.natCast_mod]
  ring

theorem inv_eq_pow (x : ZMod p) (hx : x ≠ 0) : x⁻¹ = x ^ (p - 2) := by
  have h1 : x ^ (p - 1) = 1 := ZMod.pow_card_sub_one_eq_one hx
  have h2 : 2 ≤ p := hp.out.two_le
  have : x * x ^ (p - 2) = 1 := by
    rw [← pow_succ']; rw [show p - 2 + 1 = p - 1 by omega]; exact h1
  exact (eq_inv_of_mul_eq_one_right this).symm

/-- FieldElement.__truediv__ is division in `ZMod p` (divisor non-zero) -/
theorem fdiv_cast (a b : ℕ) (hb : (b : ZMod p) ≠ 0) :
    ((fdiv p a b : ℕ) : ZMod p) = (a : ZMod p) / (b : ZMod p) := by
  unfold fdiv
  rw [ZMod.natCast_mod, Nat.cast_mul, powmod_cast, div_eq_mul_inv, inv_eq_pow p _ hb]

/-- dividing by zero yields zero (as `ZMod p` does: `x / 0 = 0`), for `p > 2` -/
theorem fdiv_cast_zero (a b : ℕ) (hb : (b : ZMod p) = 0) (h2 : 2 < p) :
    ((fdiv p a b : ℕ) : ZMod p) = 0 := by
  unfold fdiv
  rw [ZMod.natCast_mod, Nat.cast_mul, powmod_cast, hb, zero_pow (by omega), mul_zero]

/-- FieldElement.__pow__ is exponentiation in `ZMod p`, except for `0 ** k(p-1)` with `k > 0`
    (observation O03c: the code answers 1) -/
theorem fpow_cast (x n : ℕ) (h : (x : ZMod p) ≠ 0 ∨ n % (p - 1) ≠ 0 ∨ n = 0) :
    ((fpow p x n : ℕ) : ZMod p) = (x : ZMod p) ^ n := by
  unfold fpow
  rw [powmod_cast]
  by_cases hx : (x : ZMod p) = 0
  · rcases h with h | h | h
    · exact absurd hx h
    · have hn : n ≠ 0 := by rintro rfl; simp at h
      rw [hx, zero_pow h, zero_pow hn]
    · subst h; simp
  · have h1 : (x : ZMod p) ^ (p - 1) = 1 := ZMod.pow_card_sub_one_eq_one hx
    conv_rhs => rw [← Nat.div_add_mod n (p - 1), pow_add, pow_mul, h1, one_pow, one_mul]

omit hp in
/-- O03c: `FieldElement(0, p) ** (p - 1)` is 1 in the code -/
theorem fpow_zero_card_sub_one (h2 : 2 ≤ p) : fpow p 0 (p - 1) = 1 := by
  unfold fpow
  rw [Nat.mod_self, powmod_eq _ _ _ (by omega), pow_zero, Nat.mod_eq_of_lt (by omega)]

theorem fpow_two_cast (h3 : 3 < p) (x : ℕ) : ((fpow p x 2 : ℕ) : ZMod p) = (x : ZMod p) ^ 2 :=
  fpow_cast p x 2 (Or.inr (Or.inl (by rw [Nat.mod_eq_of_lt (show 2 < p - 1 by omega)]; omega)))

theorem five_le_of_gt (h3 : 3 < p) : 5 ≤ p := by
  have : p ≠ 4 := by rintro rfl; exact absurd hp.out (by decide)
  omega

theorem fpow_three_cast (h3 : 3 < p) (x : ℕ) : ((fpow p x 3 : ℕ) : ZMod p) = (x : ZMod p) ^ 3 := by
  have h5 := five_le_of_gt p h3
  exact fpow_cast p x 3 (Or.inr (Or.inl (by rw [Nat.mod_eq_of_lt (show 3 < p - 1 by omega)]; omega)))

theorem fadd_lt (a b : ℕ) : fadd p a b < p := Nat.mod_lt _ hp.out.pos
theorem fsub_lt (a b : ℕ) : fsub p a b < p := Nat.mod_lt _ hp.out.pos
theorem fmul_lt (a b : ℕ) : fmul p a b < p := Nat.mod_lt _ hp.out.pos
theorem fdiv_lt (a b : ℕ) : fdiv p a b < p := Nat.mod_lt _ hp.out.pos
theorem fpow_lt (a n : ℕ) : fpow p a n < p := powmod_lt _ _ _ hp.out.pos

theorem two_ne_zero_of_gt (h3 : 3 < p) : (2 : ZMod p) ≠ 0 := by
  have : ((2 : ℕ) : ZMod p) ≠ 0 := cast_ne_zero_of_lt p (by omega) (by omega)
  simpa using this

theorem three_ne_zero_of_gt (h3 : 3 < p) : (3 : ZMod p) ≠ 0 := by
  have : ((3 : ℕ) : ZMod p) ≠ 0 := cast_ne_zero_of_lt p (by omega) (by omega)
  simpa using this

/-! ## the curve `y² = x³ + a x + b` over `ZMod p` -/

/-- the short Weierstrass curve `y² = x³ + a x + b` over `ZMod p` as a Mathlib Weierstrass curve -/
def SW (p a b : ℕ) : WeierstrassCurve.Affine (ZMod p) := ⟨0, 0, 0, (a : ZMod p), (b : ZMod p)⟩

/-- hypotheses on the curve: characteristic `> 3` and non-singular (discriminant `≠ 0`) -/
structure CurveOK (p a b : ℕ) : Prop where
  gt3 : 3 < p
  nonsing : (4 * a ^ 3 + 27 * b ^ 2) % p ≠ 0

instance (p a b : ℕ) : Decidable (CurveOK p a b) :=
  decidable_of_iff (3 < p ∧ (4 * a ^ 3 + 27 * b ^ 2) % p ≠ 0)
    ⟨fun h => ⟨h.1, h.2⟩, fun h => ⟨h.1, h.2⟩⟩

variable (a b : ℕ)

theorem SW_Δ : (SW p a b).Δ = -16 * (4 * (a : ZMod p) ^ 3 + 27 * (b : ZMod p) ^ 2) := by
  simp only [SW, WeierstrassCurve.Δ, WeierstrassCurve.b₂, WeierstrassCurve.b₄,
    WeierstrassCurve.b₆, WeierstrassCurve.b₈]
  ring

theorem SW_Δ_ne_zero (hc : CurveOK p a b) : (SW p a b).Δ ≠ 0 := by
  rw [SW_Δ]
  have h2 := two_ne_zero_of_gt p hc.gt3
  have h16 : (-16 : ZMod p) ≠ 0 := by
    have : (-16 : ZMod p) = -(2 ^ 4) := by norm_num
    rw [this]; exact neg_ne_zero.mpr (pow_ne_zero _ h2)
  refine mul_ne_zero h16 ?_
  intro h
  apply hc.nonsing
  have : ((4 * a ^ 3 + 27 * b ^ 2 : ℕ) : ZMod p) = 0 := by push_cast; exact h
  rwa [ZMod.natCast_eq_zero_iff, Nat.dvd_iff_mod_eq_zero] at this

theorem SW_equation_iff (x y : ZMod p) :
    (SW p a b).Equation x y ↔ y ^ 2 = x ^ 3 + (a : ZMod p) * x + (b : ZMod p) := by
  rw [Affine.equation_iff]; simp [SW]

theorem SW_nonsingular_iff (hc : CurveOK p a b) (x y : ZMod p) :
    (SW p a b).Nonsingular x y ↔ y ^ 2 = x ^ 3 + (a : ZMod p) * x + (b : ZMod p) := by
  rw [← Affine.equation_iff_nonsingular_of_Δ_ne_zero (SW_Δ_ne_zero p a b hc), SW_equation_iff]

@[simp] theorem SW_negY (x y : ZMod p) : (SW p a b).negY x y = -y := by
  simp [Affine.negY, SW]

/-! ## representation relation -/

/-- `Rep P A`: the model point `P` (coordinates `< p`) represents the curve point `A` -/
inductive Rep : Pt → (SW p a b).Point → Prop
  | inf : Rep .inf 0
  | aff (x y : ℕ) (hx : x < p) (hy : y < p)
      (h : (SW p a b).Nonsingular (x : ZMod p) (y : ZMod p)) : Rep (.aff x y) (.some _ _ h)

theorem Rep.mk' {X Y : ZMod p} (hXY : (SW p a b).Nonsingular X Y) {x y : ℕ} (hx : x < p) (hy : y < p)
    (ex : (x : ZMod p) = X) (ey : (y : ZMod p) = Y) : Rep p a b (.aff x y) (.some X Y hXY) := by
  subst ex; subst ey
  exact Rep.aff x y hx hy hXY

variable {p a b}

theorem Rep.lt {P : Pt} {A : (SW p a b).Point} (h : Rep p a b P A) :
    match P with | .inf => True | .aff x y => x < p ∧ y < p := by
  cases h <;> simp [*]

theorem Rep.unique_right {P : Pt} {A B : (SW p a b).Point} (h1 : Rep p a b P A) (h2 : Rep p a b P B) :
    A = B := by
  cases h1 <;> cases h2 <;> rfl

theorem Rep.unique_left {P Q : Pt} {A : (SW p a b).Point} (h1 : Rep p a b P A) (h2 : Rep p a b Q A) :
    P = Q := by
  cases h1 with
  | inf => cases h2; rfl
  | aff x y hx hy h =>
    generalize hA : Affine.Point.some _ _ h = A at h2
    cases h2 with
    | inf => cases hA
    | aff x' y' hx' hy' h' =>
      injection hA with e1 e2
      rw [cast_inj_of_lt p hx hx' e1, cast_inj_of_lt p hy hy' e2]

theorem Rep.eq_inf_iff {P : Pt} {A : (SW p a b).Point} (h : Rep p a b P A) : P = .inf ↔ A = 0 := by
  cases h with
  | inf => simp
  | aff x y hx hy h => simp [Affine.Point.some_ne_zero]

/-- chord case -/
theorem rep_add_of_X_ne (h3 : 3 < p) (x1 y1 x2 y2 : ℕ) (hx1 : x1 < p) (hx2 : x2 < p)
    (h1 : (SW p a b).Nonsingular (x1 : ZMod p) (y1 : ZMod p))
    (h2 : (SW p a b).Nonsingular (x2 : ZMod p) (y2 : ZMod p)) (hne : x1 ≠ x2) :
    Rep p a b (padd p a (.aff x1 y1) (.aff x2 y2))
      (Affine.Point.some _ _ h1 + Affine.Point.some _ _ h2) := by
  have hne' : (x1 : ZMod p) ≠ (x2 : ZMod p) := fun h => hne (cast_inj_of_lt p hx1 hx2 h)
  rw [Affine.Point.add_of_X_ne hne']
  simp only [padd, hne, false_and, if_false, ne_eq, not_false_eq_true, if_true]
  have hd : (((fsub p x2 x1 : ℕ)) : ZMod p) ≠ 0 := by
    rw [fsub_cast]; exact sub_ne_zero.mpr (Ne.symm hne')
  have hs : ((fdiv p (fsub p y2 y1) (fsub p x2 x1) : ℕ) : ZMod p) =
      (SW p a b).slope (x1 : ZMod p) x2 y1 y2 := by
    rw [Affine.slope_of_X_ne hne', fdiv_cast p _ _ hd, fsub_cast, fsub_cast]
    rw [← neg_sub (y1 : ZMod p), ← neg_sub (x1 : ZMod p), neg_div_neg_eq]
  set s := fdiv p (fsub p y2 y1) (fsub p x2 x1) with hsdef
  have hX : ((fsub p (fsub p (fpow p s 2) x1) x2 : ℕ) : ZMod p) =
      (SW p a b).addX (x1 : ZMod p) x2 ((SW p a b).slope (x1 : ZMod p) x2 y1 y2) := by
    rw [fsub_cast, fsub_cast, fpow_two_cast p h3, hs]
    simp only [Affine.addX, SW]; ring
  have hY : ((fsub p (fmul p s (fsub p x1 (fsub p (fsub p (fpow p s 2) x1) x2))) y1 : ℕ) : ZMod p) =
      (SW p a b).addY (x1 : ZMod p) x2 y1 ((SW p a b).slope (x1 : ZMod p) x2 y1 y2) := by
    rw [fsub_cast, fmul_cast, fsub_cast, hX, hs]
    simp only [Affine.addY, Affine.negAddY, Affine.negY, Affine.addX, SW]; ring
  exact Rep.mk' p a b _ (fsub_lt p _ _) (fsub_lt p _ _) hX hY

/-- tangent case (`y ≠ 0`) -/
theorem rep_add_self (h3 : 3 < p) (x1 y1 : ℕ) (hy1 : y1 < p)
    (h1 : (SW p a b).Nonsingular (x1 : ZMod p) (y1 : ZMod p)) (hy0 : y1 ≠ 0) :
    Rep p a b (padd p a (.aff x1 y1) (.aff x1 y1))
      (Affine.Point.some _ _ h1 + Affine.Point.some _ _ h1) := by
  have h2 := two_ne_zero_of_gt p h3
  have hy0' : (y1 : ZMod p) ≠ 0 := cast_ne_zero_of_lt p hy1 hy0
  have hyne : (y1 : ZMod p) ≠ (SW p a b).negY (x1 : ZMod p) (y1 : ZMod p) := by
    rw [SW_negY]
    intro h
    have : (2 : ZMod p) * (y1 : ZMod p) = 0 := by linear_combination h
    rcases mul_eq_zero.mp this with h | h
    · exact h2 h
    · exact hy0' h
  rw [Affine.Point.add_self_of_Y_ne hyne]
  simp only [padd, hy0, and_false, if_false, ne_eq, not_true_eq_false]
  have hd : (((2 * y1 % p : ℕ)) : ZMod p) ≠ 0 := by
    rw [ZMod.natCast_mod, Nat.cast_mul]; exact mul_ne_zero (by simpa using h2) hy0'
  have hs : ((fdiv p (fadd p (3 * fpow p x1 2 % p) a) (2 * y1 % p) : ℕ) : ZMod p) =
      (SW p a b).slope (x1 : ZMod p) x1 y1 y1 := by
    rw [Affine.slope_of_Y_ne rfl hyne, fdiv_cast p _ _ hd, fadd_cast, ZMod.natCast_mod, ZMod.natCast_mod,
      Nat.cast_mul, Nat.cast_mul, fpow_two_cast p h3, SW_negY]
    simp [SW]; ring
  set s := fdiv p (fadd p (3 * fpow p x1 2 % p) a) (2 * y1 % p) with hsdef
  have hX : ((fsub p (fpow p s 2) (2 * x1 % p) : ℕ) : ZMod p) =
      (SW p a b).addX (x1 : ZMod p) x1 ((SW p a b).slope (x1 : ZMod p) x1 y1 y1) := by
    rw [fsub_cast, fpow_two_cast p h3, hs, ZMod.natCast_mod, Nat.cast_mul]
    simp only [Affine.addX, SW]; ring
  have hY : ((fsub p (fmul p s (fsub p x1 (fsub p (fpow p s 2) (2 * x1 % p)))) y1 : ℕ) : ZMod p) =
      (SW p a b).addY (x1 : ZMod p) x1 y1 ((SW p a b).slope (x1 : ZMod p) x1 y1 y1) := by
    rw [fsub_cast, fmul_cast, fsub_cast, hX, hs]
    simp only [Affine.addY, Affine.negAddY, Affine.negY, Affine.addX, SW]; ring
  exact Rep.mk' p a b _ (fsub_lt p _ _) (fsub_lt p _ _) hX hY

/-- **Point.__add__ is the group law**: in all cases (infinity operands, opposite points,
    chord, tangent, vertical tangent) -/
theorem rep_padd (h3 : 3 < p) {P Q : Pt} {A B : (SW p a b).Point}
    (hP : Rep p a b P A) (hQ : Rep p a b Q B) : Rep p a b (padd p a P Q) (A + B) := by
  cases hP with
  | inf => simpa [padd] using hQ
  | aff x1 y1 hx1 hy1 h1 =>
    cases hQ with
    | inf => simpa [padd] using Rep.aff x1 y1 hx1 hy1 h1
    | aff x2 y2 hx2 hy2 h2 =>
      by_cases hx : x1 = x2
      · subst hx
        by_cases hy : y1 = y2
        · subst hy
          by_cases hy0 : y1 = 0
          · -- vertical tangent: a point of order two
            subst hy0
            have : Affine.Point.some _ _ h1 + Affine.Point.some _ _ h2 = 0 :=
              Affine.Point.add_of_Y_eq rfl (by simp [SW])
            rw [this]
            simp only [padd, ne_eq, not_true_eq_false, and_false, and_self, if_true, if_false]
            exact Rep.inf
          · exact rep_add_self h3 x1 y1 hy1 h1 hy0
        · -- opposite points
          have hy' : (y1 : ZMod p) ≠ (y2 : ZMod p) := fun h => hy (cast_inj_of_lt p hy1 hy2 h)
          have hneg : (y1 : ZMod p) = (SW p a b).negY (x1 : ZMod p) (y2 : ZMod p) :=
            (Affine.Y_eq_of_X_eq h1.1 h2.1 rfl).resolve_left hy'
          rw [Affine.Point.add_of_Y_eq rfl hneg]
          simp only [padd, hy, ne_eq, not_false_eq_true, and_self, if_true]
          exact Rep.inf
      · exact rep_add_of_X_ne h3 x1 y1 x2 y2 hx1 hx2 h1 h2 hx

/-! ## Point.__rmul__ is scalar multiplication -/

/-- loop invariant of double-and-add: `result + coef • current` is constant -/
theorem rep_pmulAux (h3 : 3 < p) : ∀ (fuel coef : ℕ) (cur res : Pt) (C R : (SW p a b).Point),
    coef < 2 ^ fuel → Rep p a b cur C → Rep p a b res R →
    Rep p a b (pmulAux p a fuel coef cur res) (R + coef • C) := by
  intro fuel
  induction fuel with
  | zero =>
    intro coef cur res C R h hC hR
    have : coef = 0 := by simpa using h
    subst this
    simpa [pmulAux] using hR
  | succ n ih =>
    intro coef cur res C R h hC hR
    unfold pmulAux
    split
    · next h0 => subst h0; simpa using hR
    · next h0 =>
      have he : coef / 2 < 2 ^ n := by omega
      have hsplit : coef • C = (coef % 2) • C + (coef / 2) • (C + C) := by
        rw [← two_nsmul, ← mul_nsmul', ← add_nsmul]
        congr 1; omega
      rcases Nat.mod_two_eq_zero_or_one coef with h2 | h2
      · have := ih (coef / 2) (padd p a cur cur) res (C + C) R he (rep_padd h3 hC hC) hR
        rw [hsplit, h2, zero_nsmul, zero_add]
        simpa [h2] using this
      · have := ih (coef / 2) (padd p a cur cur) (padd p a res cur) (C + C) (R + C) he
          (rep_padd h3 hC hC) (rep_padd h3 hR hC)
        rw [hsplit, h2, one_nsmul, ← add_assoc]
        simpa [h2] using this

/-- **Point.__rmul__ is scalar multiplication** -/
theorem rep_pmul (h3 : 3 < p) (k : ℕ) {P : Pt} {A : (SW p a b).Point} (hP : Rep p a b P A) :
    Rep p a b (pmul p a k P) (k • A) := by
  have := rep_pmulAux h3 (k.log2 + 1) k P .inf A 0 Nat.lt_log2_self hP Rep.inf
  simpa [pmul] using this

/-! ## API: validity predicate, map into the group, transported laws -/

/-- the point is the point at infinity, or has coordinates `< p` (FieldElement's range check)
    and passes the curve-membership check of `Point.__init__` -/
def Valid (p a b : ℕ) : Pt → Prop
  | .inf => True
  | .aff x y => x < p ∧ y < p ∧ onCurve p a b (.aff x y) = true

instance (p a b : ℕ) (P : Pt) : Decidable (Valid p a b P) := by
  cases P <;> unfold Valid <;> infer_instance

/-- the opposite point `(x, -y)` -/
def pneg (p : ℕ) : Pt → Pt
  | .inf => .inf
  | .aff x y => .aff x ((p - y) % p)

variable (p a b)

/-- the check of `Point.__init__` is the curve equation in `ZMod p` (for `p > 3`) -/
theorem onCurve_iff (h3 : 3 < p) (x y : ℕ) :
    onCurve p a b (.aff x y) = true ↔
      (y : ZMod p) ^ 2 = (x : ZMod p) ^ 3 + (a : ZMod p) * (x : ZMod p) + (b : ZMod p) := by
  unfold onCurve
  rw [beq_iff_eq]
  constructor
  · intro h
    have := congrArg (Nat.cast (R := ZMod p)) h
    rwa [fpow_two_cast p h3, fadd_cast, fadd_cast, fpow_three_cast p h3, fmul_cast] at this
  · intro h
    apply cast_inj_of_lt p (fpow_lt p _ _) (fadd_lt p _ _)
    rw [fpow_two_cast p h3, fadd_cast, fadd_cast, fpow_three_cast p h3, fmul_cast]
    exact h

/-- the curve equation over the naturals -/
theorem onCurve_iff_mod (h3 : 3 < p) (x y : ℕ) :
    onCurve p a b (.aff x y) = true ↔ y ^ 2 % p = (x ^ 3 + a * x + b) % p := by
  rw [onCurve_iff p a b h3, ← ZMod.natCast_eq_natCast_iff']
  push_cast; rfl

open Classical in
/-- the element of Mathlib's group of curve points represented by a model point
    (zero for a pair that is not on the curve) -/
noncomputable def toGroup : Pt → (SW p a b).Point
  | .inf => 0
  | .aff x y =>
    if h : (SW p a b).Nonsingular (x : ZMod p) (y : ZMod p) then .some _ _ h else 0

/-- the model point with canonical coordinates for a group element -/
def ofGroup : (SW p a b).Point → Pt
  | .zero => .inf
  | .some x y _ => .aff x.val y.val

variable {p a b}

theorem valid_of_rep (hc : CurveOK p a b) {P : Pt} {A : (SW p a b).Point} (h : Rep p a b P A) :
    Valid p a b P := by
  cases h with
  | inf => trivial
  | aff x y hx hy h =>
    exact ⟨hx, hy, (onCurve_iff p a b hc.gt3 x y).mpr ((SW_nonsingular_iff p a b hc _ _).mp h)⟩

theorem rep_toGroup (hc : CurveOK p a b) {P : Pt} (h : Valid p a b P) :
    Rep p a b P (toGroup p a b P) := by
  cases P with
  | inf => exact Rep.inf
  | aff x y =>
    obtain ⟨hx, hy, hon⟩ := h
    have hns : (SW p a b).Nonsingular (x : ZMod p) (y : ZMod p) :=
      (SW_nonsingular_iff p a b hc _ _).mpr ((onCurve_iff p a b hc.gt3 x y).mp hon)
    simp only [toGroup, dif_pos hns]
    exact Rep.aff x y hx hy hns

theorem valid_iff_rep (hc : CurveOK p a b) (P : Pt) :
    Valid p a b P ↔ ∃ A, Rep p a b P A :=
  ⟨fun h => ⟨_, rep_toGroup hc h⟩, fun ⟨_, h⟩ => valid_of_rep hc h⟩

theorem toGroup_of_rep (hc : CurveOK p a b) {P : Pt} {A : (SW p a b).Point} (h : Rep p a b P A) :
    toGroup p a b P = A :=
  (rep_toGroup hc (valid_of_rep hc h)).unique_right h

theorem rep_ofGroup (A : (SW p a b).Point) : Rep p a b (ofGroup p a b A) A := by
  have : NeZero p := ⟨hp.out.ne_zero⟩
  cases A with
  | zero => exact Rep.inf
  | some x y h =>
    exact Rep.mk' p a b h (ZMod.val_lt x) (ZMod.val_lt y) (ZMod.natCast_zmod_val x)
      (ZMod.natCast_zmod_val y)

theorem toGroup_ofGroup (hc : CurveOK p a b) (A : (SW p a b).Point) :
    toGroup p a b (ofGroup p a b A) = A := toGroup_of_rep hc (rep_ofGroup A)

theorem ofGroup_valid (hc : CurveOK p a b) (A : (SW p a b).Point) : Valid p a b (ofGroup p a b A) :=
  valid_of_rep hc (rep_ofGroup A)

theorem ofGroup_toGroup (hc : CurveOK p a b) {P : Pt} (h : Valid p a b P) :
    ofGroup p a b (toGroup p a b P) = P :=
  (rep_ofGroup _).unique_left (rep_toGroup hc h)

/-- `toGroup` is injective on valid points -/
theorem toGroup_inj (hc : CurveOK p a b) {P Q : Pt} (hP : Valid p a b P) (hQ : Valid p a b Q)
    (h : toGroup p a b P = toGroup p a b Q) : P = Q :=
  (rep_toGroup hc hP).unique_left (h ▸ rep_toGroup hc hQ)

@[simp] theorem toGroup_inf : toGroup p a b .inf = 0 := rfl

theorem toGroup_eq_zero (hc : CurveOK p a b) {P : Pt} (hP : Valid p a b P) :
    toGroup p a b P = 0 ↔ P = .inf :=
  ((rep_toGroup hc hP).eq_inf_iff).symm

omit hp in
theorem valid_inf : Valid p a b .inf := trivial

omit hp in
theorem Valid.lt {x y : ℕ} (h : Valid p a b (.aff x y)) : x < p ∧ y < p := ⟨h.1, h.2.1⟩

theorem valid_aff_iff (hc : CurveOK p a b) (x y : ℕ) :
    Valid p a b (.aff x y) ↔ x < p ∧ y < p ∧ y ^ 2 % p = (x ^ 3 + a * x + b) % p := by
  simp only [Valid, onCurve_iff_mod p a b hc.gt3]

/-- closure: the sum of two curve points is a curve point (the constructor check of
    `Point.__add__`'s result never fails) -/
theorem padd_valid (hc : CurveOK p a b) {P Q : Pt} (hP : Valid p a b P) (hQ : Valid p a b Q) :
    Valid p a b (padd p a P Q) :=
  valid_of_rep hc (rep_padd hc.gt3 (rep_toGroup hc hP) (rep_toGroup hc hQ))

theorem toGroup_padd (hc : CurveOK p a b) {P Q : Pt} (hP : Valid p a b P) (hQ : Valid p a b Q) :
    toGroup p a b (padd p a P Q) = toGroup p a b P + toGroup p a b Q :=
  toGroup_of_rep hc (rep_padd hc.gt3 (rep_toGroup hc hP) (rep_toGroup hc hQ))

theorem pmul_valid (hc : CurveOK p a b) (k : ℕ) {P : Pt} (hP : Valid p a b P) :
    Valid p a b (pmul p a k P) :=
  valid_of_rep hc (rep_pmul hc.gt3 k (rep_toGroup hc hP))

theorem toGroup_pmul (hc : CurveOK p a b) (k : ℕ) {P : Pt} (hP : Valid p a b P) :
    toGroup p a b (pmul p a k P) = k • toGroup p a b P :=
  toGroup_of_rep hc (rep_pmul hc.gt3 k (rep_toGroup hc hP))

theorem rep_pneg {P : Pt} {A : (SW p a b).Point} (h : Rep p a b P A) :
    Rep p a b (pneg p P) (-A) := by
  cases h with
  | inf => exact Rep.inf
  | aff x y hx hy h =>
    rw [Affine.Point.neg_some]
    refine Rep.mk' p a b _ hx (Nat.mod_lt _ hp.out.pos) rfl ?_
    rw [SW_negY, ZMod.natCast_mod, Nat.cast_sub hy.le, ZMod.natCast_self, zero_sub]

theorem pneg_valid (hc : CurveOK p a b) {P : Pt} (hP : Valid p a b P) : Valid p a b (pneg p P) :=
  valid_of_rep hc (rep_pneg (rep_toGroup hc hP))

theorem toGroup_pneg (hc : CurveOK p a b) {P : Pt} (hP : Valid p a b P) :
    toGroup p a b (pneg p P) = - toGroup p a b P :=
  toGroup_of_rep hc (rep_pneg (rep_toGroup hc hP))

omit hp in
theorem padd_inf_left (Q : Pt) : padd p a .inf Q = Q := by simp [padd]

omit hp in
theorem padd_inf_right (P : Pt) : padd p a P .inf = P := by cases P <;> simp [padd]

/-- commutativity -/
theorem padd_comm (hc : CurveOK p a b) {P Q : Pt} (hP : Valid p a b P) (hQ : Valid p a b Q) :
    padd p a P Q = padd p a Q P := by
  apply toGroup_inj hc (padd_valid hc hP hQ) (padd_valid hc hQ hP)
  rw [toGroup_padd hc hP hQ, toGroup_padd hc hQ hP, add_comm]

/-- associativity -/
theorem padd_assoc (hc : CurveOK p a b) {P Q R : Pt} (hP : Valid p a b P) (hQ : Valid p a b Q)
    (hR : Valid p a b R) : padd p a (padd p a P Q) R = padd p a P (padd p a Q R) := by
  apply toGroup_inj hc (padd_valid hc (padd_valid hc hP hQ) hR) (padd_valid hc hP (padd_valid hc hQ hR))
  rw [toGroup_padd hc (padd_valid hc hP hQ) hR, toGroup_padd hc hP hQ,
    toGroup_padd hc hP (padd_valid hc hQ hR), toGroup_padd hc hQ hR, add_assoc]

/-- inverses: `P + (−P) = ∞` -/
theorem padd_pneg (hc : CurveOK p a b) {P : Pt} (hP : Valid p a b P) :
    padd p a P (pneg p P) = .inf := by
  apply toGroup_inj hc (padd_valid hc hP (pneg_valid hc hP)) valid_inf
  rw [toGroup_padd hc hP (pneg_valid hc hP), toGroup_pneg hc hP, toGroup_inf, add_neg_cancel]

theorem pneg_padd (hc : CurveOK p a b) {P : Pt} (hP : Valid p a b P) :
    padd p a (pneg p P) P = .inf := by
  rw [padd_comm hc (pneg_valid hc hP) hP, padd_pneg hc hP]

/-- the inverse is unique: `P + Q = ∞` iff `Q = −P` -/
theorem padd_eq_inf_iff (hc : CurveOK p a b) {P Q : Pt} (hP : Valid p a b P) (hQ : Valid p a b Q) :
    padd p a P Q = .inf ↔ Q = pneg p P := by
  rw [← toGroup_eq_zero hc (padd_valid hc hP hQ), toGroup_padd hc hP hQ]
  constructor
  · intro h
    apply toGroup_inj hc hQ (pneg_valid hc hP)
    rw [toGroup_pneg hc hP]; exact (neg_eq_of_add_eq_zero_right h).symm
  · intro h; rw [h, toGroup_pneg hc hP, add_neg_cancel]

omit hp in
theorem pneg_pneg {P : Pt} (hP : Valid p a b P) : pneg p (pneg p P) = P := by
  cases P with
  | inf => rfl
  | aff x y =>
    obtain ⟨_, hy, _⟩ := hP
    simp only [pneg]
    congr 1
    by_cases h0 : y = 0
    · subst h0; simp
    · have h1 : (p - y) % p = p - y := Nat.mod_eq_of_lt (by omega)
      rw [h1, Nat.sub_sub_self hy.le, Nat.mod_eq_of_lt hy]

omit hp in
theorem pmul_zero (P : Pt) : pmul p a 0 P = .inf := by simp [pmul, pmulAux]

theorem pmul_inf (hc : CurveOK p a b) (k : ℕ) : pmul p a k .inf = .inf := by
  apply toGroup_inj hc (pmul_valid hc k valid_inf) valid_inf
  rw [toGroup_pmul hc k valid_inf, toGroup_inf, nsmul_zero]

theorem pmul_one (hc : CurveOK p a b) {P : Pt} (hP : Valid p a b P) : pmul p a 1 P = P := by
  apply toGroup_inj hc (pmul_valid hc 1 hP) hP
  rw [toGroup_pmul hc 1 hP, one_nsmul]

/-- `P + P = 2P` -/
theorem pmul_two (hc : CurveOK p a b) {P : Pt} (hP : Valid p a b P) :
    pmul p a 2 P = padd p a P P := by
  apply toGroup_inj hc (pmul_valid hc 2 hP) (padd_valid hc hP hP)
  rw [toGroup_pmul hc 2 hP, toGroup_padd hc hP hP, two_nsmul]

theorem pmul_succ (hc : CurveOK p a b) (k : ℕ) {P : Pt} (hP : Valid p a b P) :
    pmul p a (k + 1) P = padd p a (pmul p a k P) P := by
  apply toGroup_inj hc (pmul_valid hc _ hP) (padd_valid hc (pmul_valid hc k hP) hP)
  rw [toGroup_pmul hc _ hP, toGroup_padd hc (pmul_valid hc k hP) hP, toGroup_pmul hc k hP, succ_nsmul]

/-- `(j + k)P = jP + kP` -/
theorem pmul_add (hc : CurveOK p a b) (j k : ℕ) {P : Pt} (hP : Valid p a b P) :
    pmul p a (j + k) P = padd p a (pmul p a j P) (pmul p a k P) := by
  apply toGroup_inj hc (pmul_valid hc _ hP) (padd_valid hc (pmul_valid hc j hP) (pmul_valid hc k hP))
  rw [toGroup_pmul hc _ hP, toGroup_padd hc (pmul_valid hc j hP) (pmul_valid hc k hP),
    toGroup_pmul hc j hP, toGroup_pmul hc k hP, add_nsmul]

/-- `(jk)P = j(kP)` -/
theorem pmul_mul (hc : CurveOK p a b) (j k : ℕ) {P : Pt} (hP : Valid p a b P) :
    pmul p a (j * k) P = pmul p a j (pmul p a k P) := by
  apply toGroup_inj hc (pmul_valid hc _ hP) (pmul_valid hc j (pmul_valid hc k hP))
  rw [toGroup_pmul hc _ hP, toGroup_pmul hc j (pmul_valid hc k hP), toGroup_pmul hc k hP, mul_nsmul']

/-- `k(P + Q) = kP + kQ` -/
theorem pmul_padd (hc : CurveOK p a b) (k : ℕ) {P Q : Pt} (hP : Valid p a b P) (hQ : Valid p a b Q) :
    pmul p a k (padd p a P Q) = padd p a (pmul p a k P) (pmul p a k Q) := by
  apply toGroup_inj hc (pmul_valid hc _ (padd_valid hc hP hQ))
    (padd_valid hc (pmul_valid hc k hP) (pmul_valid hc k hQ))
  rw [toGroup_pmul hc _ (padd_valid hc hP hQ), toGroup_padd hc hP hQ,
    toGroup_padd hc (pmul_valid hc k hP) (pmul_valid hc k hQ), toGroup_pmul hc k hP,
    toGroup_pmul hc k hQ, nsmul_add]

/-- `k(−P) = −(kP)` -/
theorem pmul_pneg (hc : CurveOK p a b) (k : ℕ) {P : Pt} (hP : Valid p a b P) :
    pmul p a k (pneg p P) = pneg p (pmul p a k P) := by
  apply toGroup_inj hc (pmul_valid hc _ (pneg_valid hc hP)) (pneg_valid hc (pmul_valid hc k hP))
  rw [toGroup_pmul hc _ (pneg_valid hc hP), toGroup_pneg hc hP,
    toGroup_pneg hc (pmul_valid hc k hP), toGroup_pmul hc k hP, neg_nsmul]

/-- scalars act modulo any `n` that annihilates the point -/
theorem pmul_mod (hc : CurveOK p a b) (n k : ℕ) {P : Pt} (hP : Valid p a b P)
    (hn : pmul p a n P = .inf) : pmul p a (k % n) P = pmul p a k P := by
  have h0 : n • toGroup p a b P = 0 := by
    rw [← toGroup_pmul hc n hP, hn, toGroup_inf]
  apply toGroup_inj hc (pmul_valid hc _ hP) (pmul_valid hc _ hP)
  rw [toGroup_pmul hc _ hP, toGroup_pmul hc _ hP]
  conv_rhs => rw [← Nat.div_add_mod k n, add_nsmul, mul_nsmul, h0, nsmul_zero, zero_add]

omit hp in
/-- doubling an affine point gives infinity exactly when `y = 0` (a point of order two) -/
theorem padd_self_eq_inf_iff (x y : ℕ) :
    padd p a (.aff x y) (.aff x y) = .inf ↔ y = 0 := by
  constructor
  · intro h
    by_contra hy
    simp [padd, hy] at h
  · intro h; simp [padd, h]

end Buidl.EC
