/-
  Buidl.Proofs.RS1024Three — three wrong words within 33 consecutive positions (first to last at most 32 apart:
  every triple of positions of a 20- or 33-word share) always change the RS1024 polymod.
  Kernel certificate: Buidl.Proofs.RS1024ThreeCheck.three_check.
-/
import Buidl.Proofs.RS1024ThreeCheck
import Buidl.Proofs.RS1024Two
namespace Buidl.Shamir
open Buidl

/-! ## `combo` is linear -/

theorem combo_zero (ws : List Nat) : combo ws 0 = 0 := by
  induction ws with
  | nil => rfl
  | cons w ws ih => simp [combo, ih]

theorem xor_mod_two (a b : Nat) : (a ^^^ b) % 2 = (a % 2) ^^^ (b % 2) := by
  rw [← Nat.and_one_is_mod, ← Nat.and_one_is_mod, ← Nat.and_one_is_mod, Nat.and_xor_distrib_right]

theorem xor_div_two (a b : Nat) : (a ^^^ b) / 2 = (a / 2) ^^^ (b / 2) := by
  have h : ∀ x : Nat, x / 2 = x >>> 1 := fun x => by rw [Nat.shiftRight_eq_div_pow]
  rw [h, h, h, Nat.shiftRight_xor_distrib]

theorem ite_bit_xor (w p q : Nat) (hp : p = 0 ∨ p = 1) (hq : q = 0 ∨ q = 1) :
    (if p ^^^ q = 1 then w else 0) = (if p = 1 then w else 0) ^^^ (if q = 1 then w else 0) := by
  rcases hp with rfl | rfl <;> rcases hq with rfl | rfl <;> simp

theorem combo_xor (ws : List Nat) : ∀ a b, combo ws (a ^^^ b) = combo ws a ^^^ combo ws b := by
  induction ws with
  | nil => intro a b; simp [combo]
  | cons w ws ih =>
    intro a b
    simp only [combo]
    rw [xor_div_two, ih, xor_mod_two,
      ite_bit_xor w (a % 2) (b % 2) (Nat.mod_two_eq_zero_or_one a) (Nat.mod_two_eq_zero_or_one b)]
    generalize (if a % 2 = 1 then w else 0) = x
    generalize (if b % 2 = 1 then w else 0) = y
    generalize combo ws (a / 2) = u
    generalize combo ws (b / 2) = v
    ac_rfl

/-- a linear map commutes with `combo` -/
theorem combo_map (h : Nat → Nat) (hx : ∀ a b, h (a ^^^ b) = h a ^^^ h b) (h0 : h 0 = 0) (ws : List Nat) :
    ∀ d, h (combo ws d) = combo (ws.map h) d := by
  induction ws with
  | nil => intro d; simpa [combo] using h0
  | cons w ws ih =>
    intro d
    simp only [combo, List.map_cons]
    rw [hx, ih]
    split <;> simp [h0]

theorem combo_low (ws us : List Nat) : ∀ d, d < 2 ^ ws.length → combo (ws ++ us) d = combo ws d := by
  induction ws with
  | nil => intro d hd; have : d = 0 := by simpa using hd
           subst this; simp [combo_zero, combo]
  | cons w ws ih =>
    intro d hd
    simp only [List.cons_append, combo]
    rw [ih (d / 2) (by simp only [List.length_cons, Nat.pow_succ] at hd; omega)]

theorem combo_shift (ws us : List Nat) : ∀ d, combo (ws ++ us) (d <<< ws.length) = combo us d := by
  induction ws with
  | nil => intro d; simp
  | cons w ws ih =>
    intro d
    simp only [List.cons_append, combo, List.length_cons]
    have e : d <<< (ws.length + 1) = 2 * (d <<< ws.length) := by
      rw [Nat.shiftLeft_succ]
    rw [e, Nat.mul_mod_right, Nat.mul_div_cancel_left _ (by decide), ih]
    simp

theorem combo_append (ws us : List Nat) (d1 d2 : Nat) (h1 : d1 < 2 ^ ws.length) :
    combo (ws ++ us) (d1 ^^^ (d2 <<< ws.length)) = combo ws d1 ^^^ combo us d2 := by
  rw [combo_xor, combo_low ws us d1 h1, combo_shift]

/-! ## the inverse certificate gives injectivity -/

theorem combo_units (n d : Nat) (hd : d < 2 ^ n) : combo ((List.range n).map fun j => 2 ^ j) d = d := by
  have := linear_combo id (fun _ _ => rfl) rfl n 0 d hd
  simpa using this.symm

theorem checkInv_sound (vs m : List Nat) (h : checkInv vs m = true) (d : Nat) (hd : d < 2 ^ 20) :
    combo m (combo vs d) = d := by
  simp only [checkInv, List.all_eq_true, List.mem_range, beq_iff_eq] at h
  have hl := linear_combo (fun d => combo m (combo vs d))
    (fun a b => by simp only [combo_xor]) (by simp only [combo_zero]) 20 0 d hd
  simp only [Nat.shiftLeft_zero, Nat.add_zero] at hl
  rw [hl]
  have : ((List.range 20).map fun j => combo m (combo vs (2 ^ j))) = (List.range 20).map fun j => 2 ^ j := by
    apply List.map_congr_left
    intro j hj
    exact h j (List.mem_range.mp hj)
  rw [this, combo_units 20 d hd]

theorem combo_injective (vs m : List Nat) (h : checkInv vs m = true) (d : Nat) (hd : d < 2 ^ 20)
    (hz : combo vs d = 0) : d = 0 := by
  have := checkInv_sound vs m h d hd
  rw [hz, combo_zero] at this
  exact this.symm

/-! ## unpacking the kernel check -/

theorem checkPair_def (ws wg : List Nat) :
    checkPair ws wg = checkInv (ws.map hi ++ wg.map hi) (invert (ws.map hi ++ wg.map hi)) := rfl

theorem basesChain_eq : ∀ (n g : Nat), basesChain n (basisAt g) = (List.range n).map fun t => basisAt (g + t + 1) := by
  intro n
  induction n with
  | zero => intro g; rfl
  | succ n ih =>
    intro g
    rw [basesChain, ← basisAt_succ, ih (g + 1), List.range_succ_eq_map, List.map_cons, List.map_map]
    congr 1
    apply List.map_congr_left
    intro t _
    simp only [Function.comp]
    congr 1; omega

theorem pairsFrom_spec : ∀ (l prev : List (List Nat)), pairsFrom prev l = true →
    ∀ i (hi : i < l.length), (∀ wg ∈ prev, checkPair l[i] wg = true) ∧
      ∀ j (hj : j < i), checkPair l[i] (l[j]'(by omega)) = true := by
  intro l
  induction l with
  | nil => intro prev _ i hi; simp at hi
  | cons ws rest ih =>
    intro prev h i hi
    simp only [pairsFrom, Bool.and_eq_true, List.all_eq_true] at h
    cases i with
    | zero => exact ⟨fun wg hwg => h.1 wg hwg, fun j hj => absurd hj (by omega)⟩
    | succ i =>
      have hi' : i < rest.length := by simpa using hi
      obtain ⟨h1, h2⟩ := ih (prev ++ [ws]) h.2 i hi'
      refine ⟨fun wg hwg => ?_, fun j hj => ?_⟩
      · simpa using h1 wg (by simp [hwg])
      · cases j with
        | zero => simpa using h1 ws (by simp)
        | succ j => simpa using h2 j (by omega)

section
attribute [local irreducible] basisAt basesChain checkPair rsL

theorem pair_checked' (s g : Nat) (hg : 1 ≤ g) (hgs : g < s) (hs : s ≤ 32) :
    checkPair (basisAt s) (basisAt g) = true := by
  have h := three_check
  rw [basesChain_eq] at h
  have hlen : ((List.range 32).map fun t => basisAt (0 + t + 1)).length = 32 := by simp
  obtain ⟨_, h2⟩ := pairsFrom_spec _ _ h (s - 1) (by rw [hlen]; omega)
  have := h2 (g - 1) (by omega)
  simp only [List.getElem_map, List.getElem_range] at this
  have e1 : 0 + (s - 1) + 1 = s := by omega
  have e2 : 0 + (g - 1) + 1 = g := by omega
  rwa [e1, e2] at this

end

theorem pair_checked (s g : Nat) (hg : 1 ≤ g) (hgs : g < s) (hs : s ≤ 32) :
    checkInv ((basisAt s).map hi ++ (basisAt g).map hi) (invert ((basisAt s).map hi ++ (basisAt g).map hi))
      = true := by
  rw [← checkPair_def]; exact pair_checked' s g hg hgs hs

/-! ## three errors -/

theorem hi_xor (a b : Nat) : hi (a ^^^ b) = hi a ^^^ hi b := Nat.shiftRight_xor_distrib

theorem hi_small (d : Nat) (hd : d < 1024) : hi d = 0 := by
  unfold hi; rw [Nat.shiftRight_eq_div_pow]; exact Nat.div_eq_of_lt hd

theorem basisAt_length (g : Nat) : (basisAt g).length = 10 := by simp [basisAt]

/-- the core: `L^s(d₁) ⊕ L^g(d₂) ⊕ d₃ ≠ 0` for `d₁ ≠ 0`, `1 ≤ g < s ≤ 32` -/
theorem three_ne_zero (s g d1 d2 d3 : Nat) (hg : 1 ≤ g) (hgs : g < s) (hs : s ≤ 32) (h1 : d1 < 1024)
    (h10 : d1 ≠ 0) (h2 : d2 < 1024) (h3 : d3 < 1024) :
    rsLpow s d1 ^^^ rsLpow g d2 ^^^ d3 ≠ 0 := by
  intro hz
  have hhi : hi (rsLpow s d1 ^^^ rsLpow g d2 ^^^ d3) = 0 := by rw [hz]; rfl
  rw [hi_xor, hi_xor, hi_small d3 h3, Nat.xor_zero, rsLpow_combo s d1 h1, rsLpow_combo g d2 h2,
    combo_map hi hi_xor rfl, combo_map hi hi_xor rfl] at hhi
  have hlen : ((basisAt s).map hi).length = 10 := by simp [basisAt_length]
  have happ := combo_append ((basisAt s).map hi) ((basisAt g).map hi) d1 d2 (by rw [hlen]; exact h1)
  rw [hlen] at happ
  rw [← happ] at hhi
  have hd : d1 ^^^ (d2 <<< 10) < 2 ^ 20 := by
    apply Nat.xor_lt_two_pow (by omega)
    rw [Nat.shiftLeft_eq]
    calc d2 * 2 ^ 10 < 1024 * 2 ^ 10 := Nat.mul_lt_mul_of_pos_right h2 (by decide)
      _ = 2 ^ 20 := by decide
  have hzero := combo_injective _ _ (pair_checked s g hg hgs hs) _ hd hhi
  have heq : d1 = d2 <<< 10 := xor_eq_zero_imp hzero
  rw [Nat.shiftLeft_eq] at heq
  have : (2 : Nat) ^ 10 = 1024 := by decide
  omega

theorem rsLpow_add (m : Nat) : ∀ (n d : Nat), rsLpow (m + n) d = rsLpow n (rsLpow m d) := by
  induction m with
  | zero => intro n d; simp [rsLpow]
  | succ m ih =>
    intro n d
    rw [show m + 1 + n = (m + n) + 1 by omega, rsLpow, ih, rsLpow]

/-- three wrong words, the first and the last at most 32 positions apart, change the polymod
    (the second and third "errors" may be trivial: this covers one and two wrong words as well) -/
theorem polymod_three_errors (pre mid1 mid2 post : List Nat) (a a' b b' c c' : Nat)
    (ha : a < 1024) (ha' : a' < 1024) (hb : b < 1024) (hb' : b' < 1024) (hc : c < 1024) (hc' : c' < 1024)
    (hna : a ≠ a') (hspan : mid1.length + 1 + (mid2.length + 1) ≤ 32) :
    rs1024Polymod (pre ++ a :: (mid1 ++ b :: (mid2 ++ c :: post)))
      ≠ rs1024Polymod (pre ++ a' :: (mid1 ++ b' :: (mid2 ++ c' :: post))) := by
  unfold rs1024Polymod
  simp only [List.foldl_append, List.foldl_cons]
  generalize pre.foldl rsStep Gen.rsInit = s
  have hd1 : a' ^^^ a < 1024 := Nat.xor_lt_two_pow (n := 10) ha' ha
  have hd10 : a' ^^^ a ≠ 0 := fun h => hna (xor_eq_zero_imp h).symm
  have hd2 : b' ^^^ b < 1024 := Nat.xor_lt_two_pow (n := 10) hb' hb
  have hd3 : c' ^^^ c < 1024 := Nat.xor_lt_two_pow (n := 10) hc' hc
  -- a step with an erroneous word on an erroneous state
  have stepx : ∀ (t D v v' : Nat), rsStep (t ^^^ D) v' = rsStep t v ^^^ (rsL D ^^^ (v' ^^^ v)) := by
    intro t D v v'
    rw [rsStep_eq, rsStep_eq, rsL_xor]
    have : rsL t ^^^ v ^^^ (rsL D ^^^ (v' ^^^ v)) = (rsL t ^^^ rsL D ^^^ v') ^^^ (v ^^^ v) := by ac_rfl
    rw [this, Nat.xor_self, Nat.xor_zero]
  have e1 : rsStep s a' = rsStep s a ^^^ (a' ^^^ a) := by
    have := stepx s 0 a a'
    rwa [Nat.xor_zero, rsL_zero, Nat.zero_xor] at this
  rw [e1, foldl_rsStep_xor]
  generalize mid1.foldl rsStep (rsStep s a) = t1
  rw [stepx t1 _ b b', ← rsLpow_succ', foldl_rsStep_xor]
  generalize mid2.foldl rsStep (rsStep t1 b) = t2
  rw [stepx t2 _ c c', ← rsLpow_succ', foldl_rsStep_xor]
  generalize post.foldl rsStep (rsStep t2 c) = X
  -- the accumulated difference
  have hD : rsLpow (mid2.length + 1) (rsLpow (mid1.length + 1) (a' ^^^ a) ^^^ (b' ^^^ b)) ^^^ (c' ^^^ c)
      = rsLpow (mid1.length + 1 + (mid2.length + 1)) (a' ^^^ a) ^^^ rsLpow (mid2.length + 1) (b' ^^^ b)
          ^^^ (c' ^^^ c) := by
    rw [rsLpow_xor, ← rsLpow_add (mid1.length + 1) (mid2.length + 1)]
  rw [hD]
  have hne := three_ne_zero (mid1.length + 1 + (mid2.length + 1)) (mid2.length + 1) (a' ^^^ a) (b' ^^^ b)
    (c' ^^^ c) (by omega) (by omega) hspan hd1 hd10 hd2 hd3
  have hlt : rsLpow (mid1.length + 1 + (mid2.length + 1)) (a' ^^^ a) ^^^ rsLpow (mid2.length + 1) (b' ^^^ b)
      ^^^ (c' ^^^ c) < 2 ^ 30 :=
    Nat.xor_lt_two_pow (Nat.xor_lt_two_pow (rsLpow_lt _ _ (by omega)) (rsLpow_lt _ _ (by omega))) (by omega)
  generalize rsLpow (mid1.length + 1 + (mid2.length + 1)) (a' ^^^ a) ^^^ rsLpow (mid2.length + 1) (b' ^^^ b)
      ^^^ (c' ^^^ c) = E at hne hlt
  intro h
  have hz : rsLpow post.length E = 0 := by
    generalize rsLpow post.length E = Y at h
    have h2 : X ^^^ X = X ^^^ (X ^^^ Y) := congrArg (X ^^^ ·) h
    rw [Nat.xor_self, ← Nat.xor_assoc, Nat.xor_self, Nat.zero_xor] at h2
    exact h2.symm
  exact rsLpow_ne_zero _ _ hlt hne hz

/-- up to three wrong words within 33 consecutive positions are never accepted -/
theorem verify_three_errors (cs : Bytes) (pre mid1 mid2 post : List Nat) (a a' b b' c c' : Nat)
    (ha : a < 1024) (ha' : a' < 1024) (hb : b < 1024) (hb' : b' < 1024) (hc : c < 1024) (hc' : c' < 1024)
    (hna : a ≠ a') (hspan : mid1.length + 1 + (mid2.length + 1) ≤ 32)
    (hok : rs1024Verify cs (pre ++ a :: (mid1 ++ b :: (mid2 ++ c :: post))) = true) :
    rs1024Verify cs (pre ++ a' :: (mid1 ++ b' :: (mid2 ++ c' :: post))) = false := by
  unfold rs1024Verify at hok ⊢
  simp only [beq_iff_eq] at hok
  rw [← List.append_assoc] at hok ⊢
  have := polymod_three_errors (cs.map (·.toNat) ++ pre) mid1 mid2 post a a' b b' c c' ha ha' hb hb' hc hc'
    hna hspan
  rw [hok] at this
  simp only [beq_eq_false_iff_ne, ne_eq]
  exact fun h => this h.symm

end Buidl.Shamir
