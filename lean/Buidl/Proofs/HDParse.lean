/-
  Buidl.Proofs.HDParse — what HDPublicKey.parse returns (well-formedness of every parsed key), the characters of a
  Base58Check string, and idempotence of "normalise the version bytes and serialise again" (used by the
  descriptor constructor).  Mathlib-free; relative to the Base58Check round trip and the SEC round trip, which
  Buidl.Proofs.HD discharges.
-/
import Buidl.Proofs.HDPath
import Buidl.Proofs.PyStr
namespace Buidl.HD
open Buidl Buidl.EC Buidl.PyStr

/-! ## characters of a Base58Check string -/

theorem lookupAll_mem (al : Str) : ∀ (ds : List Nat) (r : Str), Base58.lookupAll al ds = some r → ∀ c ∈ r, c ∈ al
  | [], r, h, c, hc => by simp [Base58.lookupAll] at h; subst h; cases hc
  | d :: ds, r, h, c, hc => by
    unfold Base58.lookupAll at h
    split at h
    · next x y hx hy =>
      cases h
      rcases List.mem_cons.mp hc with rfl | hc
      · exact List.mem_of_getElem? hx
      · exact lookupAll_mem al ds _ hy c hc
    · cases h

theorem encodeBase58_mem (s : Bytes) (r : Str) (h : Base58.encodeBase58 s = some r) : ∀ c ∈ r, c ∈ Base58.alphabet := by
  unfold Base58.encodeBase58 at h
  split at h
  · cases h
  · simp only [Option.map_eq_some_iff] at h
    obtain ⟨t, ht, rfl⟩ := h
    intro c hc
    rcases List.mem_append.mp hc with hc | hc
    · have hpad : Gen.b58EncPad.toList = ['1'] := by decide
      rw [hpad] at hc
      simp only [List.mem_flatten, List.mem_replicate] at hc
      obtain ⟨l, ⟨_, rfl⟩, hc⟩ := hc
      simp at hc; subst hc; decide
    · exact lookupAll_mem _ _ _ ht c hc

/-- characters that would confuse the descriptor syntax; none of them is in the Base58 alphabet -/
def descSpecial (c : Char) : Bool :=
  c = ',' || c = '(' || c = ')' || c = '[' || c = ']' || c = '/' || c = '#' || c = '*' || c = '\n' || c = '\\' || c = ' '

def isAlnumC (c : Char) : Bool := ('0' ≤ c ∧ c ≤ '9') ∨ ('a' ≤ c ∧ c ≤ 'z') ∨ ('A' ≤ c ∧ c ≤ 'Z')

theorem alphabet_chars : ∀ c ∈ Base58.alphabet, isAlnumC c = true ∧ descSpecial c = false := by decide

theorem encodeBase58Checksum_chars (h : Bytes → Bytes) (p : Bytes) (r : Str)
    (hr : Base58.encodeBase58Checksum h p = some r) : ∀ c ∈ r, isAlnumC c = true ∧ descSpecial c = false :=
  fun c hc => alphabet_chars c (encodeBase58_mem _ _ hr c hc)

theorem rawDecode_nil (h : Bytes → Bytes) (hh : ∀ b, 4 ≤ (h b).length) : Base58.rawDecodeBase58 h [] = none := by
  have : (h []).take 4 ≠ [] := by
    intro e
    have h1 := congrArg List.length e
    have h2 := hh []
    rw [List.length_take] at h1
    simp only [List.length_nil] at h1
    omega
  simp [Base58.rawDecodeBase58, Base58.decodeCombined, Base58.decodeLoop, Base58.bytesBE, Base58.pyLast,
    Base58.pyButLast, Gen.b58DecHashWidth, this]

theorem encode_ne_nil (h : Bytes → Bytes) (hb : B58RoundTrip h) (hh : ∀ b, 4 ≤ (h b).length) (p : Bytes) (r : Str)
    (hr : Base58.encodeBase58Checksum h p = some r) : r ≠ [] := by
  intro e; subst e
  have := hb p [] hr
  rw [rawDecode_nil h hh] at this
  cases this

/-! ## what a successfully parsed xpub looks like; normalising its version bytes is idempotent -/

theorem byteToInt_le {b : Bytes} {n : Nat} (h : byteToInt b = some n) : n ≤ 255 := by
  unfold byteToInt at h
  cases b with
  | nil => simp at h
  | cons x xs =>
    simp at h; subst h
    have := x.toNat_lt
    omega

theorem beToNat_lt (b : Bytes) : beToNat b < 256 ^ b.length := by
  have := leToNat_lt b.reverse
  rwa [← beToNat_reverse, List.reverse_reverse, List.length_reverse] at this

theorem pub_parse_some {h : Bytes → Bytes} {x : Str} {pk : HDPub} (hp : HDPub.parse h x = some pk) :
    ∃ raw, Base58.rawDecodeBase58 h x = some raw ∧ raw.length = 78 ∧ HDPub.rawParse raw none = some pk := by
  simp only [HDPub.parse, Option.bind_eq_bind, Option.bind_eq_some_iff] at hp
  obtain ⟨raw, hraw, hp⟩ := hp
  by_cases hl : raw.length = 78
  · refine ⟨raw, hraw, hl, ?_⟩
    have hc : cmpOp Gen.hdPubParseLenOp raw.length Gen.hdPubParseLenT = false := by rw [hl]; decide
    simpa [hc] using hp
  · have hc : cmpOp Gen.hdPubParseLenOp raw.length Gen.hdPubParseLenT = true := by
      simp [cmpOp, Gen.hdPubParseLenOp, Gen.hdPubParseLenT, hl]
    simp [hc] at hp

theorem priv_parse_some {h : Bytes → Bytes} {x : Str} {k : HDPriv} (hp : HDPriv.parse h x = some k) :
    ∃ raw, Base58.rawDecodeBase58 h x = some raw ∧ raw.length = 78 ∧ HDPriv.rawParse raw none = some k := by
  simp only [HDPriv.parse, Option.bind_eq_bind, Option.bind_eq_some_iff] at hp
  obtain ⟨raw, hraw, hp⟩ := hp
  by_cases hl : raw.length = 78
  · refine ⟨raw, hraw, hl, ?_⟩
    have hc : cmpOp Gen.hdPrivParseLenOp raw.length Gen.hdPrivParseLenT = false := by rw [hl]; decide
    simpa [hc] using hp
  · have hc : cmpOp Gen.hdPrivParseLenOp raw.length Gen.hdPrivParseLenT = true := by
      simp [cmpOp, Gen.hdPrivParseLenOp, Gen.hdPrivParseLenT, hl]
    simp [hc] at hp

/-- well-formedness of every key that HDPublicKey.parse returns -/
structure ParsedPubWF (pk : HDPub) : Prop where
  depth : pk.depth ≤ 255
  child : pk.childNumber < 2 ^ 32
  fp : pk.parentFp.length = 4
  cc : pk.chainCode.length = 32
  point : ∃ b, parsePoint b = some pk.point
  net : (pk.network = "testnet" ∧ inSet Gen.hdAllTestnetXpubs pk.pubVersion = true) ∨
        (pk.network = "mainnet" ∧ inSet Gen.hdAllTestnetXpubs pk.pubVersion = false ∧
          inSet Gen.hdAllMainnetXpubs pk.pubVersion = true)

theorem pub_rawParse_wf {raw : Bytes} {pk : HDPub} (hl : raw.length = 78) (hp : HDPub.rawParse raw none = some pk) :
    ParsedPubWF pk := by
  simp only [HDPub.rawParse, sread, Gen.hdPubParVersionW, Gen.hdPubParDepthW, Gen.hdPubParFpW,
    Gen.hdPubParChildW, Gen.hdPubParChainW, Gen.hdPubParSecW, Option.bind_eq_bind, Option.bind_eq_some_iff] at hp
  obtain ⟨net, hnet, depth, hdepth, pt, hpt, hpk⟩ := hp
  simp only [mkPub, versionOr, Option.bind_eq_bind, Option.bind_some, Option.pure_def, Option.some.injEq] at hpk
  subst hpk
  refine ⟨byteToInt_le hdepth, ?_, ?_, ?_, ⟨_, hpt⟩, ?_⟩
  · have := beToNat_lt (List.take 4 (List.drop 4 (List.drop 1 (List.drop 4 raw))))
    have h4 : (List.take 4 (List.drop 4 (List.drop 1 (List.drop 4 raw)))).length ≤ 4 := by simp; omega
    have : (256 : Nat) ^ (List.take 4 (List.drop 4 (List.drop 1 (List.drop 4 raw)))).length ≤ 256 ^ 4 :=
      Nat.pow_le_pow_right (by decide) h4
    have e : (256 : Nat) ^ 4 = 2 ^ 32 := by decide
    simp only [] at *
    omega
  · simp; omega
  · simp; omega
  · unfold netOfVersion at hnet
    by_cases ht : inSet Gen.hdAllTestnetXpubs (List.take 4 raw) = true
    · simp [ht] at hnet; subst hnet; exact Or.inl ⟨rfl, ht⟩
    · by_cases hm : inSet Gen.hdAllMainnetXpubs (List.take 4 raw) = true
      · simp [ht, hm] at hnet; subst hnet
        exact Or.inr ⟨rfl, by simpa using ht, hm⟩
      · simp [ht, hm] at hnet

theorem pub_parse_wf {h : Bytes → Bytes} {x : Str} {pk : HDPub} (hp : HDPub.parse h x = some pk) : ParsedPubWF pk := by
  obtain ⟨raw, -, hl, hr⟩ := pub_parse_some hp
  exact pub_rawParse_wf hl hr

/-- the SEC round trip for one point (C03: `parsePoint_sec`, for every curve point) -/
def SecOK (Q : Pt) : Prop := ∀ s, sec Q true = some s → s.length = 33 ∧ parsePoint s = some Q

/-- `HDPublicKey(**attrs without pub_version)`: the key with the default version bytes of its network -/
def normPub (pk : HDPub) : Option HDPub :=
  mkPub pk.point pk.chainCode pk.depth pk.parentFp pk.childNumber pk.network none

theorem normPub_eq {pk : HDPub} (wf : ParsedPubWF pk) :
    ∃ v, dictGet Gen.hdXpub pk.network = some v ∧ normPub pk = some { pk with pubVersion := v } ∧
      PubSerWF { pk with pubVersion := v } v ∧ parsedPub { pk with pubVersion := v } v = { pk with pubVersion := v } := by
  rcases wf.net with ⟨hn, -⟩ | ⟨hn, -, -⟩
  · refine ⟨[4, 53, 135, 207], by rw [hn]; decide, ?_, ⟨wf.depth, wf.child, wf.fp, wf.cc, Or.inl (by decide)⟩, ?_⟩
    · have e : dictGet Gen.hdXpub "testnet" = some [4, 53, 135, 207] := by decide
      cases pk; simp only [] at hn; subst hn
      simp [normPub, mkPub, versionOr, e]
    · have : inSet Gen.hdAllTestnetXpubs [4, 53, 135, 207] = true := by decide
      simp [parsedPub, this, hn]
  · refine ⟨[4, 136, 178, 30], by rw [hn]; decide, ?_, ⟨wf.depth, wf.child, wf.fp, wf.cc, Or.inr (by decide)⟩, ?_⟩
    · have e : dictGet Gen.hdXpub "mainnet" = some [4, 136, 178, 30] := by decide
      cases pk; simp only [] at hn; subst hn
      simp [normPub, mkPub, versionOr, e]
    · have : inSet Gen.hdAllTestnetXpubs [4, 136, 178, 30] = false := by decide
      simp [parsedPub, this, hn]

/-- the normalised xpub string parses to the normalised key, whose own normalisation is itself -/
theorem norm_xpub_idempotent (h : Bytes → Bytes) (hb : B58RoundTrip h) {pk : HDPub} (wf : ParsedPubWF pk)
    (hsec : SecOK pk.point) {n : HDPub} {x : Str} (hn : normPub pk = some n) (hx : n.xpub h none = some x) :
    HDPub.parse h x = some n ∧ n.network = pk.network ∧ normPub n = some n := by
  obtain ⟨v, hv, hnorm, hwf, hpp⟩ := normPub_eq wf
  rw [hnorm] at hn
  have hn' : n = { pk with pubVersion := v } := (Option.some.inj hn).symm
  subst hn'
  have hx' : HDPub.xpub h { pk with pubVersion := v } (some v) = some x := by
    simpa [HDPub.xpub] using hx
  have := pub_parse_xpub_rel h hb _ v hwf hsec x hx'
  rw [hpp] at this
  refine ⟨this, rfl, ?_⟩
  simp only [normPub, mkPub, versionOr, Option.bind_eq_bind, Option.pure_def]
  rw [hv]
  rfl

end Buidl.HD
