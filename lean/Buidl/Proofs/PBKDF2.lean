/-
  Buidl.Proofs.PBKDF2 — the vendored buidl/pbkdf2.py (`Buidl.Mnemonic.PBKDF2`: block counter, buffer kept
  across reads, `__f`) computes RFC 2898 PBKDF2 (`Buidl.Spec.pbkdf2`) for every PRF of fixed output length.
-/
import Buidl.Model.Mnemonic
import Buidl.Spec.PBKDF2
namespace Buidl.Mnemonic
open Buidl

theorem add_one_mul' (a b : Nat) : (a + 1) * b = a * b + b := Nat.succ_mul a b

theorem binxor_eq (a b : Bytes) : binxor a b = Spec.xorBytes a b := rfl

theorem fLoop_eq (prf : Bytes → Bytes → Bytes) (P S : Bytes) (i : Nat) :
    ∀ (n j : Nat) (r : Bytes),
      fLoop prf P n (Spec.U prf P S i j) r
        = ((List.range n).map fun t => Spec.U prf P S i (j + t + 1)).foldl Spec.xorBytes r := by
  intro n
  induction n with
  | zero => intro j r; simp [fLoop]
  | succ n ih =>
    intro j r
    simp only [fLoop]
    have h1 : prf P (Spec.U prf P S i j) = Spec.U prf P S i (j + 1) := rfl
    rw [h1, ih (j + 1), List.range_succ_eq_map, List.map_cons, List.foldl_cons, List.map_map]
    simp only [binxor_eq, Nat.add_zero]
    congr 1
    apply List.map_congr_left
    intro t _
    simp only [Function.comp]
    congr 1; omega

theorem f_eq (prf : Bytes → Bytes → Bytes) (st : PBKDF2) (i : Nat) :
    st.f prf i = Spec.F prf st.passphrase st.salt st.iterations i := by
  unfold PBKDF2.f Spec.F
  have h0 : prf st.passphrase (st.salt ++ natToBE' 4 i) = Spec.U prf st.passphrase st.salt i 0 := rfl
  simp only [h0]
  rw [fLoop_eq]
  simp

theorem F_length (prf : Bytes → Bytes → Bytes) (hLen : Nat) (hh : ∀ k m, (prf k m).length = hLen)
    (P S : Bytes) (c i : Nat) : (Spec.F prf P S c i).length = hLen := by
  unfold Spec.F
  have hU : ∀ j, (Spec.U prf P S i j).length = hLen := by
    intro j; cases j <;> simp [Spec.U, hh]
  suffices ∀ (l : List Nat) (r : Bytes), r.length = hLen →
      ((l.map fun j => Spec.U prf P S i (j + 1)).foldl Spec.xorBytes r).length = hLen from
    this _ _ (hU 0)
  intro l
  induction l with
  | nil => intro r hr; simpa using hr
  | cons a l ih =>
    intro r hr
    simp only [List.map_cons, List.foldl_cons]
    apply ih
    simp [Spec.xorBytes, hr, hU]

theorem blocks_length (prf : Bytes → Bytes → Bytes) (hLen : Nat) (hh : ∀ k m, (prf k m).length = hLen)
    (P S : Bytes) (c i m : Nat) : (Spec.blocks prf P S c i m).length = m * hLen := by
  unfold Spec.blocks
  induction m with
  | zero => simp
  | succ m ih =>
    rw [List.range_succ, List.flatMap_append, List.length_append, ih]
    simp [F_length prf hLen hh, Nat.succ_mul]

theorem blocks_succ (prf : Bytes → Bytes → Bytes) (P S : Bytes) (c i m : Nat) :
    Spec.blocks prf P S c i (m + 1) = Spec.blocks prf P S c i m ++ Spec.F prf P S c (i + m + 1) := by
  unfold Spec.blocks
  rw [List.range_succ, List.flatMap_append]
  simp

theorem blocks_add (prf : Bytes → Bytes → Bytes) (P S : Bytes) (c i a b : Nat) :
    Spec.blocks prf P S c i (a + b) = Spec.blocks prf P S c i a ++ Spec.blocks prf P S c (i + a) b := by
  induction b with
  | zero => simp [Spec.blocks]
  | succ b ih =>
    rw [← Nat.add_assoc, blocks_succ, ih, blocks_succ, List.append_assoc, Nat.add_assoc i a b]

/-- the `while size < bytes` loop appends the minimal number of further blocks -/
theorem readLoop_spec (prf : Bytes → Bytes → Bytes) (hLen : Nat) (hh : ∀ k m, (prf k m).length = hLen)
    (st : PBKDF2) (want : Nat) :
    ∀ (d i size : Nat) (acc : Bytes), acc.length = size → want ≤ size + d * hLen →
      i + d ≤ Gen.counterMax →
      ∃ m, m ≤ d ∧ readLoop prf st want i size acc
          = some (i + m, acc ++ Spec.blocks prf st.passphrase st.salt st.iterations i m)
        ∧ want ≤ size + m * hLen ∧ (m = 0 ∨ size + (m - 1) * hLen < want) := by
  intro d
  induction d with
  | zero =>
    intro i size acc hacc hw _
    refine ⟨0, Nat.le_refl _, ?_, by omega, Or.inl rfl⟩
    rw [readLoop]
    have : ¬ size < want := by omega
    simp [this, Spec.blocks]
  | succ d ih =>
    intro i size acc hacc hw hi
    by_cases hlt : size < want
    · have hlen : (st.f prf (i + 1)).length = hLen := by rw [f_eq]; exact F_length prf hLen hh _ _ _ _
      obtain ⟨m, hm, hr, hw', hmin⟩ := ih (i + 1) (size + hLen) (acc ++ st.f prf (i + 1))
        (by simp [hacc, hlen]) (by have := add_one_mul' d hLen; omega) (by omega)
      refine ⟨m + 1, by omega, ?_, by have := add_one_mul' m hLen; omega, Or.inr ?_⟩
      · rw [readLoop]
        have hno : ¬ (i + 1 > Gen.counterMax ∨ i + 1 < 1) := by omega
        simp only [hlt, if_true, hno, dite_false, hlen]
        rw [hr]
        have e1 : i + 1 + m = i + (m + 1) := by omega
        rw [e1, Nat.add_comm m 1, blocks_add, List.append_assoc]
        congr 3
        rw [blocks_succ, f_eq]
        simp [Spec.blocks]
      · rcases hmin with h0 | h1
        · subst h0; simpa using hlt
        · cases m with
          | zero => simp at h1 ⊢; omega
          | succ k =>
            have e3 := add_one_mul' k hLen
            simp only [Nat.add_sub_cancel] at h1 ⊢
            omega
    · refine ⟨0, Nat.zero_le _, ?_, by omega, Or.inl rfl⟩
      rw [readLoop]
      simp [hlt, Spec.blocks]

/-- two prefixes of the block stream agree on what both contain -/
theorem blocks_take_eq (prf : Bytes → Bytes → Bytes) (hLen : Nat) (hh : ∀ k m, (prf k m).length = hLen)
    (P S : Bytes) (c a b T : Nat) (ha : T ≤ a * hLen) (hb : T ≤ b * hLen) :
    (Spec.blocks prf P S c 0 a).take T = (Spec.blocks prf P S c 0 b).take T := by
  have key : ∀ a b, a ≤ b → T ≤ a * hLen →
      (Spec.blocks prf P S c 0 a).take T = (Spec.blocks prf P S c 0 b).take T := by
    intro a b hab ha
    obtain ⟨k, rfl⟩ := Nat.exists_eq_add_of_le hab
    rw [blocks_add, List.take_append_of_le_length]
    rw [blocks_length prf hLen hh]; exact ha
  rcases Nat.le_total a b with h | h
  · exact key a b h ha
  · exact (key b a h hb).symm

/-- the state of a `PBKDF2` object from which `t` bytes have been read so far: the buffer is the unread
    tail of the blocks computed so far, and blocks were only computed when needed -/
structure Inv (prf : Bytes → Bytes → Bytes) (hLen : Nat) (P S : Bytes) (c : Nat) (st : PBKDF2) (t : Nat) :
    Prop where
  hp : st.passphrase = P
  hs : st.salt = S
  hc : st.iterations = c
  hbuf : st.buf = (Spec.blocks prf P S c 0 st.blockNum).drop t
  ht : t ≤ st.blockNum * hLen
  hJ : st.blockNum = 0 ∨ (st.blockNum - 1) * hLen < t

def chunks : List Nat → Bytes → List Bytes
  | [], _ => []
  | n :: ns, s => s.take n :: chunks ns (s.drop n)

theorem read_spec (prf : Bytes → Bytes → Bytes) (hLen : Nat) (hh : ∀ k m, (prf k m).length = hLen)
    (_h0 : 0 < hLen) (P S : Bytes) (c : Nat) (st : PBKDF2) (t n : Nat)
    (inv : Inv prf hLen P S c st t) (hT : t + n ≤ Gen.counterMax * hLen) :
    ∃ st', st.read prf n = some (((Spec.blocks prf P S c 0 st'.blockNum).take (t + n)).drop t, st')
      ∧ Inv prf hLen P S c st' (t + n) := by
  obtain ⟨hp, hs, hc, hbuf, ht, hJ⟩ := inv
  have hbl : st.buf.length = st.blockNum * hLen - t := by
    rw [hbuf, List.length_drop, blocks_length prf hLen hh]
  have hbn : st.blockNum ≤ Gen.counterMax := by
    rcases hJ with hz | hz
    · omega
    · have h3 : (st.blockNum - 1) * hLen < Gen.counterMax * hLen := by omega
      have h4 : st.blockNum - 1 < Gen.counterMax := Nat.lt_of_mul_lt_mul_right h3
      omega
  have hdist : (Gen.counterMax - st.blockNum) * hLen + st.blockNum * hLen = Gen.counterMax * hLen := by
    rw [← Nat.add_mul, Nat.sub_add_cancel hbn]
  obtain ⟨m, _, hr, hw, hmin⟩ := readLoop_spec prf hLen hh st n (Gen.counterMax - st.blockNum)
    st.blockNum st.buf.length st.buf rfl (by omega) (by omega)
  rw [hp, hs, hc] at hr
  have hjoin : st.buf ++ Spec.blocks prf P S c st.blockNum m
      = (Spec.blocks prf P S c 0 (st.blockNum + m)).drop t := by
    rw [blocks_add, List.drop_append_of_le_length (by rw [blocks_length prf hLen hh]; exact ht), hbuf]
    simp
  have hmul : (st.blockNum + m) * hLen = st.blockNum * hLen + m * hLen := Nat.add_mul _ _ _
  refine ⟨{ st with buf := (st.buf ++ Spec.blocks prf P S c st.blockNum m).drop n,
                    blockNum := st.blockNum + m }, ?_, ⟨hp, hs, hc, ?_, ?_, ?_⟩⟩
  · simp only [PBKDF2.read, hr]
    congr 2
    rw [hjoin, List.take_drop]
  · show (st.buf ++ _).drop n = _
    rw [hjoin, List.drop_drop]
  · show t + n ≤ (st.blockNum + m) * hLen
    omega
  · show st.blockNum + m = 0 ∨ (st.blockNum + m - 1) * hLen < t + n
    rcases hmin with h | h
    · subst h
      rcases hJ with hz | hz
      · left; omega
      · right; simp only [Nat.add_zero]; omega
    · cases m with
      | zero =>
        rcases hJ with hz | hz
        · left; omega
        · right; simp only [Nat.add_zero]; omega
      | succ k =>
        right
        have e2 : (st.blockNum + k) * hLen = st.blockNum * hLen + k * hLen := Nat.add_mul _ _ _
        simp only [Nat.add_sub_cancel] at h
        have e1 : st.blockNum + (k + 1) - 1 = st.blockNum + k := by omega
        rw [e1, e2]; omega

theorem new_inv (prf : Bytes → Bytes → Bytes) (hLen : Nat) (P S : Bytes) (c : Nat) (hc : 1 ≤ c) :
    ∃ st, PBKDF2.new P S c = some st ∧ Inv prf hLen P S c st 0 := by
  refine ⟨{ passphrase := P, salt := S, iterations := c, blockNum := 0, buf := [] }, ?_,
    ⟨rfl, rfl, rfl, ?_, Nat.zero_le _, Or.inl rfl⟩⟩
  · unfold PBKDF2.new
    have : ¬ c < 1 := by omega
    simp only [this, if_false]
  · simp [Spec.blocks]

/-- consecutive reads return consecutive pieces of the RFC 2898 key stream -/
theorem reads_spec (prf : Bytes → Bytes → Bytes) (hLen : Nat) (hh : ∀ k m, (prf k m).length = hLen)
    (h0 : 0 < hLen) (P S : Bytes) (c : Nat) :
    ∀ (ns : List Nat) (st : PBKDF2) (t : Nat), Inv prf hLen P S c st t →
      t + ns.sum ≤ Gen.counterMax * hLen →
      ∀ l, t + ns.sum ≤ l * hLen →
      PBKDF2.reads prf st ns = some (chunks ns ((Spec.blocks prf P S c 0 l).drop t)) := by
  intro ns
  induction ns with
  | nil => intro st t _ _ l _; simp [PBKDF2.reads, chunks]
  | cons n ns ih =>
    intro st t inv hT l hl
    simp only [List.sum_cons] at hT hl
    obtain ⟨st', hr, inv'⟩ := read_spec prf hLen hh h0 P S c st t n inv (by omega)
    simp only [PBKDF2.reads, hr]
    rw [ih st' (t + n) inv' (by omega) l (by omega)]
    simp only [chunks, Option.map_some]
    congr 2
    · rw [blocks_take_eq prf hLen hh P S c st'.blockNum l (t + n) inv'.ht (by omega), List.drop_take]
      congr 1; omega
    · rw [List.drop_drop]

/-- when even `0xffffffff` blocks do not suffice the loop raises OverflowError -/
theorem readLoop_none (prf : Bytes → Bytes → Bytes) (hLen : Nat) (hh : ∀ k m, (prf k m).length = hLen)
    (st : PBKDF2) (want : Nat) :
    ∀ (d i size : Nat) (acc : Bytes), acc.length = size → i + d = Gen.counterMax →
      size + d * hLen < want → readLoop prf st want i size acc = none := by
  intro d
  induction d with
  | zero =>
    intro i size acc _ hi hw
    rw [readLoop]
    have h1 : size < want := by omega
    have h2 : i + 1 > Gen.counterMax ∨ i + 1 < 1 := by omega
    simp only [h1, if_true, h2, dite_true]
  | succ d ih =>
    intro i size acc hacc hi hw
    have hlen : (st.f prf (i + 1)).length = hLen := by rw [f_eq]; exact F_length prf hLen hh _ _ _ _
    have e := add_one_mul' d hLen
    rw [readLoop]
    have h1 : size < want := by omega
    have h2 : ¬ (i + 1 > Gen.counterMax ∨ i + 1 < 1) := by omega
    simp only [h1, if_true, h2, dite_false, hlen]
    exact ih (i + 1) (size + hLen) _ (by simp [hacc, hlen]) (by omega) (by omega)

theorem ceil_mul_ge (n h : Nat) (h0 : 0 < h) : n ≤ (n + h - 1) / h * h := by
  have h1 := Nat.div_add_mod (n + h - 1) h
  have h2 := Nat.mod_lt (n + h - 1) h0
  have h3 : h * ((n + h - 1) / h) = (n + h - 1) / h * h := Nat.mul_comm _ _
  omega

/-- `PBKDF2(P, S, c).read(dkLen)` is RFC 2898 PBKDF2, including the "derived key too long" refusal -/
theorem pbkdf2Vendored_eq (prf : Bytes → Bytes → Bytes) (hLen : Nat) (hh : ∀ k m, (prf k m).length = hLen)
    (h0 : 0 < hLen) (P S : Bytes) (c : Nat) (hc : 1 ≤ c) (dkLen : Nat) :
    pbkdf2Vendored prf P S c dkLen = Spec.pbkdf2 prf hLen P S c dkLen := by
  obtain ⟨st, hnew, inv⟩ := new_inv prf hLen P S c hc
  have hmax : Gen.counterMax = 2 ^ 32 - 1 := by decide
  unfold pbkdf2Vendored Spec.pbkdf2
  rw [hnew]
  by_cases hbig : dkLen > (2 ^ 32 - 1) * hLen
  · rw [if_pos hbig]
    have hb0 : st.blockNum = 0 := by
      have := hnew; unfold PBKDF2.new at this
      split at this
      · cases this
      · simp only [Option.some.injEq] at this; rw [← this]
    have hbuf : st.buf = [] := by
      have := hnew; unfold PBKDF2.new at this
      split at this
      · cases this
      · simp only [Option.some.injEq] at this; rw [← this]
    have := readLoop_none prf hLen hh st dkLen Gen.counterMax 0 0 [] rfl (by omega) (by rw [hmax]; omega)
    simp [PBKDF2.read, hb0, hbuf, this]
  · rw [if_neg hbig]
    obtain ⟨st', hr, inv'⟩ := read_spec prf hLen hh h0 P S c st 0 dkLen inv (by rw [hmax]; omega)
    simp only [hr, Option.map_some, Nat.zero_add, List.drop_zero, Option.some.injEq]
    exact blocks_take_eq prf hLen hh P S c _ _ dkLen (by simpa using inv'.ht) (ceil_mul_ge dkLen hLen h0)

end Buidl.Mnemonic
