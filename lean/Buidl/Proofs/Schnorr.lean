/-
  Helper lemmas for C02 (BIP340 Schnorr): Buidl.Model.Schnorr against Buidl.Spec.BIP340.
  Part 1 (this file): tag-cache transparency and the signature codec; needs neither the group law
  nor primality.
-/
import Buidl.Model.Schnorr
import Buidl.Spec.BIP340
import Buidl.Proofs.Bytes
namespace Buidl.Schnorr
open Buidl Buidl.EC

/-! ### TAG_HASH_CACHE -/

theorem cacheGet_cacheSet_self (c : Cache) (tag v : Bytes) : cacheGet (cacheSet c tag v) tag = some v := by
  induction c with
  | nil => simp [cacheSet, cacheGet]
  | cons e rest ih =>
    obtain ⟨k, w⟩ := e
    by_cases h : k = tag
    · simp [cacheSet, cacheGet, h]
    · simp [cacheSet, cacheGet, h, ih]

theorem cacheGet_cacheSet_other (c : Cache) (tag tag' v : Bytes) (hne : tag' ≠ tag) :
    cacheGet (cacheSet c tag v) tag' = cacheGet c tag' := by
  induction c with
  | nil => simp [cacheSet, cacheGet, Ne.symm hne]
  | cons e rest ih =>
    obtain ⟨k, w⟩ := e
    by_cases h : k = tag
    · subst h; simp [cacheSet, cacheGet, Ne.symm hne]
    · by_cases h' : k = tag'
      · subst h'; simp [cacheSet, cacheGet, h]
      · simp [cacheSet, cacheGet, h, h', ih]

/-- the invariant of TAG_HASH_CACHE: every entry is `sha256(tag)` doubled -/
def CacheOK (sha256 : Bytes → Bytes) (c : Cache) : Prop :=
  ∀ tag v, cacheGet c tag = some v → v = sha256 tag ++ sha256 tag

theorem cacheOK_nil (sha256 : Bytes → Bytes) : CacheOK sha256 [] := by
  intro tag v h; simp [cacheGet] at h

/-- one call: the answer is the BIP340 tagged hash whatever the cache holds, and the invariant is kept -/
theorem taggedHash_ok (sha256 : Bytes → Bytes) (c : Cache) (hc : CacheOK sha256 c) (tag msg : Bytes) :
    ∃ c', taggedHash sha256 c tag msg = some (sha256 (sha256 tag ++ sha256 tag ++ msg), c') ∧
      CacheOK sha256 c' := by
  unfold taggedHash
  cases hg : cacheGet c tag with
  | none =>
    refine ⟨cacheSet c tag (sha256 tag ++ sha256 tag), ?_, ?_⟩
    · simp [cacheGet_cacheSet_self]
    · intro tag' v hv
      by_cases h : tag' = tag
      · subst h; rw [cacheGet_cacheSet_self] at hv; cases hv; rfl
      · rw [cacheGet_cacheSet_other _ _ _ _ h] at hv; exact hc tag' v hv
  | some pre =>
    refine ⟨c, ?_, hc⟩
    have := hc tag pre hg
    simp [hg, this]

/-- the specification's `hash_tag` -/
theorem taggedHash_spec (sha256 : Bytes → Bytes) (c : Cache) (hc : CacheOK sha256 c) (tag msg : Bytes) :
    ∃ c', taggedHash sha256 c tag msg = some (Spec.BIP340.hashTag sha256 tag msg, c') ∧ CacheOK sha256 c' :=
  taggedHash_ok sha256 c hc tag msg

/-- any history of calls from any cache satisfying the invariant -/
theorem taggedHistory_ok (sha256 : Bytes → Bytes) : ∀ (calls : List (Bytes × Bytes)) (c : Cache),
    CacheOK sha256 c →
    ∃ c', taggedHistory sha256 c calls =
        some (calls.map (fun tm => sha256 (sha256 tm.1 ++ sha256 tm.1 ++ tm.2)), c') ∧ CacheOK sha256 c' := by
  intro calls
  induction calls with
  | nil => intro c hc; exact ⟨c, rfl, hc⟩
  | cons tm rest ih =>
    intro c hc
    obtain ⟨tag, msg⟩ := tm
    obtain ⟨c1, h1, hc1⟩ := taggedHash_ok sha256 c hc tag msg
    obtain ⟨c2, h2, hc2⟩ := ih c1 hc1
    exact ⟨c2, by simp [taggedHistory, h1, h2], hc2⟩

/-! ### the tags -/

theorem tagAux_eq : Gen.schnorrTagAux = Spec.BIP340.tagAux := by decide
theorem tagNonce_eq : Gen.schnorrTagNonce = Spec.BIP340.tagNonce := by decide
theorem tagChallenge_eq : Gen.schnorrTagChallenge = Spec.BIP340.tagChallenge := by decide

/-! ### SchnorrSignature codec -/

theorem mkSig_eq (R : Pt) (s : Nat) : mkSig R s = if s ≥ N then none else some (R, s) := by
  simp [mkSig, cmpAt, Gen.schnorrSigCmp, cmpOp]

theorem N_lt : N < 256 ^ 32 := by decide

theorem beToNat_lt (b : Bytes) : beToNat b < 256 ^ b.length := by
  have := leToNat_lt b.reverse
  rwa [← beToNat_reverse, List.reverse_reverse, List.length_reverse] at this

/-- the point a 32-byte string parses to has that string as its x-only encoding -/
theorem xonly_parseXonly (rb : Bytes) (hl : rb.length = 32) (R : Pt) (h : parseXonly rb = some R) :
    xonly R = rb := by
  have hrt : natToBE' 32 (beToNat rb) = rb := by rw [← hl]; exact natToBE'_beToNat rb
  unfold parseXonly at h
  simp only at h
  split at h
  · next h0 => cases h; simp only [xonly]; rw [← h0]; exact hrt
  · split at h
    · cases h
    · split at h
      · cases h
      · next beta _ =>
        have key : ∀ y, mkPoint (beToNat rb) y = some R → xonly R = rb := by
          intro y hy
          unfold mkPoint at hy
          split at hy
          · cases hy; exact hrt
          · cases hy
        split at h <;> exact key _ h

/-- what SchnorrSignature.parse accepts: -/
theorem parse_some (b : Bytes) (R : Pt) (s : Nat) (h : parse b = some (R, s)) :
    32 ≤ b.length ∧ parseXonly (b.take 32) = some R ∧ s = beToNat ((b.drop 32).take 32) ∧ s < N := by
  simp only [parse, sread, Gen.schnorrParseRWidth, Gen.schnorrParseSWidth, Option.bind_eq_bind,
    Option.pure_def] at h
  cases hp : parsePoint (b.take 32) with
  | none => simp [hp] at h
  | some R' =>
    simp only [hp, Option.bind_some, mkSig_eq] at h
    split at h
    · cases h
    · next hs =>
      cases h
      have hl : (b.take 32).length = 32 := by
        by_cases hne : (b.take 32).length = 32
        · exact hne
        · have h1 : (b.take 32).length ≤ 32 := by simp; omega
          simp only [parsePoint] at hp
          rw [if_neg hne, if_neg (by omega)] at hp
          cases hp
      refine ⟨by simp at hl; omega, ?_, by simp, by omega⟩
      simpa [parsePoint, hl] using hp

/-- parse → serialize: a string that parses re-serialises to its first 64 bytes -/
theorem serialize_parse (b : Bytes) (hb : 64 ≤ b.length) (R : Pt) (s : Nat) (h : parse b = some (R, s)) :
    serialize R s = some (b.take 64) := by
  obtain ⟨_, hR, hs, hsN⟩ := parse_some b R s h
  have hl : (b.take 32).length = 32 := by simp; omega
  have hl2 : ((b.drop 32).take 32).length = 32 := by simp; omega
  have hx := xonly_parseXonly _ hl R hR
  have hsb : natToBE' 32 s = (b.drop 32).take 32 := by
    have := natToBE'_beToNat ((b.drop 32).take 32)
    rw [hl2] at this
    rw [hs]; exact this
  have hlt : s < 256 ^ 32 := by have := N_lt; omega
  simp only [serialize, natToBE, hlt, if_true, Option.bind_eq_bind, Option.bind_some, Option.pure_def, hx, hsb]
  rw [show (64 : Nat) = 32 + 32 from rfl, List.take_add]

/-- parse rejects `s ≥ N` -/
theorem parse_s_ge_N (b : Bytes) (h : beToNat ((b.drop 32).take 32) ≥ N) : parse b = none := by
  cases hp : parse b with
  | none => rfl
  | some Rs =>
    obtain ⟨R, s⟩ := Rs
    obtain ⟨_, _, hs, hsN⟩ := parse_some b R s hp
    omega

/-- parse rejects `r ≥ p` -/
theorem parse_r_ge_P (b : Bytes) (h : beToNat (b.take 32) ≥ P) : parse b = none := by
  cases hp : parse b with
  | none => rfl
  | some Rs =>
    obtain ⟨R, s⟩ := Rs
    obtain ⟨_, hR, _, _⟩ := parse_some b R s hp
    have hP : (0 : Nat) < P := by decide
    unfold parseXonly at hR
    simp only at hR
    rw [if_neg (by omega), if_pos (by omega)] at hR
    cases hR

end Buidl.Schnorr
