/-
  Buidl.Proofs.DescriptorParse — `P2WSHSortedMulti.parse(str(d)) = d`: the two hand-written matchers on the text
  layout the constructor emits, parse_full_key_record on one generated record, what the constructor stores and that
  storing it again changes nothing, and the link from the checksum to `parse`.  Mathlib-free; relative to the
  Base58Check and SEC round trips (discharged in Buidl.Props.C16 from Buidl.Proofs.HD).
-/
import Buidl.Proofs.Descriptor
import Buidl.Proofs.HDParse
namespace Buidl.Descriptor
open Buidl Buidl.PyStr Buidl.HD

/-! ## the two matchers on generated text -/

theorem lit_length : wshLiteral.length = 16 := by decide

theorem prefix_lit_get {t : Str} (h : wshLiteral.isPrefixOf t = true) : t[15]? = some '(' := by
  have := List.isPrefixOf_iff_prefix.mp h
  obtain ⟨u, rfl⟩ := this
  rw [List.getElem?_append_left (by decide)]
  decide

theorem prefix_lit_mem {t : Str} (h : wshLiteral.isPrefixOf t = true) : '(' ∈ t :=
  List.mem_of_getElem? (prefix_lit_get h)

theorem matchFromLast_no_paren : ∀ (r : Str), '(' ∉ r → matchFromLast r = none
  | [], _ => rfl
  | c :: r, h => by
    have hr : '(' ∉ r := fun e => h (by simp [e])
    unfold matchFromLast
    rw [matchFromLast_no_paren r hr]
    simp only []
    split
    · next hp => exact absurd (prefix_lit_mem hp) h
    · rfl

theorem matchFromLast_short : ∀ (p r : Str), p.length ≤ 15 → '(' ∉ r → matchFromLast (p ++ r) = none
  | [], r, _, hr => matchFromLast_no_paren r hr
  | c :: p, r, hl, hr => by
    have ih := matchFromLast_short p r (by simp at hl; omega) hr
    show matchFromLast (c :: (p ++ r)) = none
    unfold matchFromLast
    rw [ih]
    simp only []
    split
    · next hp =>
      have hg := prefix_lit_get hp
      have : (c :: (p ++ r))[15]? = r[15 - (c :: p).length]? := by
        rw [← List.cons_append, List.getElem?_append_right (by simpa using hl)]
      rw [this] at hg
      exact absurd (List.mem_of_getElem? hg) hr
    · rfl

theorem matchFromLast_lit (r : Str) (hr : '(' ∉ r) : matchFromLast (wshLiteral ++ r) = matchAfterLiteral r := by
  have e : wshLiteral = 'w' :: "sh(sortedmulti(".toList := by decide
  rw [e]
  show matchFromLast ('w' :: ("sh(sortedmulti(".toList ++ r)) = _
  unfold matchFromLast
  rw [matchFromLast_short _ r (by decide) hr]
  simp only []
  have hp : wshLiteral.isPrefixOf ('w' :: ("sh(sortedmulti(".toList ++ r)) = true := by
    rw [← List.cons_append, ← e]
    exact List.isPrefixOf_iff_prefix.mpr ⟨r, rfl⟩
  rw [if_pos hp]
  congr 1

theorem splitLastParens_none : ∀ (b : Str), ')' ∉ b → splitLastParens b = none
  | [], _ => rfl
  | c :: r, h => by
    have hr : ')' ∉ r := fun e => h (by simp [e])
    have hc : c ≠ ')' := fun e => h (by simp [e])
    unfold splitLastParens
    rw [splitLastParens_none r hr]
    simp [hc]

theorem splitLastParens_spec : ∀ (a b : Str), ')' ∉ a → ')' ∉ b →
    splitLastParens (a ++ ')' :: ')' :: b) = some (a, b)
  | [], b, _, hb => by
    show splitLastParens (')' :: ')' :: b) = _
    unfold splitLastParens
    have : splitLastParens (')' :: b) = none := by
      unfold splitLastParens
      rw [splitLastParens_none b hb]
      cases b with
      | nil => simp
      | cons x xs =>
        have : x ≠ ')' := fun e => hb (by simp [e])
        simp [this]
    rw [this]
    simp
  | c :: a, b, ha, hb => by
    have ha' : ')' ∉ a := fun e => ha (by simp [e])
    show splitLastParens (c :: (a ++ ')' :: ')' :: b)) = _
    unfold splitLastParens
    rw [splitLastParens_spec a b ha' hb]

theorem takeWhile_append_stop {α} (p : α → Bool) (l : List α) (x : α) (r : List α)
    (hl : ∀ c ∈ l, p c = true) (hx : p x = false) : (l ++ x :: r).takeWhile p = l := by
  induction l with
  | nil => simp [List.takeWhile, hx]
  | cons a l ih =>
    simp only [List.cons_append, List.takeWhile, hl a (by simp)]
    rw [ih (fun c hc => hl c (by simp [hc]))]

theorem takeWhile_all {α} (p : α → Bool) (l : List α) (hl : ∀ c ∈ l, p c = true) : l.takeWhile p = l := by
  induction l with
  | nil => rfl
  | cons a l ih => simp [List.takeWhile, hl a (by simp), ih (fun c hc => hl c (by simp [hc]))]

/-- the regular expression of P2WSHSortedMulti.parse on `wsh(sortedmulti(<m>,<records>))#<checksum>` -/
theorem matchDescriptor_generated (m : Nat) (recs cs : Str)
    (hrec : ∀ c ∈ recs, c ≠ '(' ∧ c ≠ ')' ∧ c ≠ '\n') (hcs : ∀ c ∈ cs, isBech32Char c = true) (hlen : cs.length = 8) :
    matchDescriptor (wshLiteral ++ (natStr m ++ ',' :: recs ++ ')' :: ')' :: '#' :: cs)) = some (natStr m, recs, some cs) := by
  have hcsne : ∀ c ∈ cs, c ≠ '(' ∧ c ≠ ')' ∧ c ≠ '\n' := by
    intro c hc
    have := hcs c hc
    refine ⟨?_, ?_, ?_⟩ <;> (intro e; subst e; simp [isBech32Char] at this)
  have hdig := natStr_digits m
  have hdne : ∀ c ∈ natStr m, c ≠ '(' ∧ c ≠ ')' ∧ c ≠ '\n' := by
    intro c hc
    have := hdig c hc
    refine ⟨?_, ?_, ?_⟩ <;> (intro e; subst e; simp [Char.isDigit] at this)
  have hall : ∀ c ∈ natStr m ++ ',' :: recs ++ ')' :: ')' :: '#' :: cs, c ≠ '(' ∧ c ≠ '\n' := by
    intro c hc
    simp only [List.mem_append, List.mem_cons] at hc
    rcases hc with (hc | rfl | hc) | rfl | rfl | rfl | hc
    · exact ⟨(hdne c hc).1, (hdne c hc).2.2⟩
    · decide
    · exact ⟨(hrec c hc).1, (hrec c hc).2.2⟩
    · decide
    · decide
    · decide
    · exact ⟨(hcsne c hc).1, (hcsne c hc).2.2⟩
  unfold matchDescriptor
  have hline : (wshLiteral ++ (natStr m ++ ',' :: recs ++ ')' :: ')' :: '#' :: cs)).takeWhile (· ≠ '\n')
      = wshLiteral ++ (natStr m ++ ',' :: recs ++ ')' :: ')' :: '#' :: cs) := by
    apply takeWhile_all
    intro c hc
    rcases List.mem_append.mp hc with hc | hc
    · have : ∀ c ∈ wshLiteral, c ≠ '\n' := by decide
      simpa using this c hc
    · simpa using (hall c hc).2
  rw [hline, matchFromLast_lit _ (fun e => (hall _ e).1 rfl)]
  unfold matchAfterLiteral
  have htw : (natStr m ++ ',' :: recs ++ ')' :: ')' :: '#' :: cs).takeWhile Char.isDigit = natStr m := by
    rw [List.append_assoc, List.cons_append]
    exact takeWhile_append_stop _ _ _ _ hdig (by decide)
  simp only [htw]
  rw [List.append_assoc, List.drop_left, List.cons_append]
  simp only []
  rw [splitLastParens_spec recs ('#' :: cs) (fun e => (hrec _ e).2.1 rfl)
    (by
      intro e
      rcases List.mem_cons.mp e with e | e
      · exact absurd e (by decide)
      · exact (hcsne _ e).2.1 rfl)]
  simp only [checksumGroup]
  have ht : cs.take 8 = cs := List.take_of_length_le (by omega)
  rw [ht]
  have hall8 : cs.all isBech32Char = true := List.all_eq_true.mpr hcs
  simp [hlen, hall8]

/-! ## one key record -/

/-- the text of one key record without its leading comma: `[{xfp}{path[1:]}]{xpub}/{account}/*` -/
def recBody (kr : KeyRecord) : Str :=
  '[' :: (kr.xfp ++ (kr.path.drop 1 ++ ']' :: (kr.xpubParent ++ '/' :: (intStr kr.accountIndex ++ ['/', '*']))))

theorem recordText_eq (kr : KeyRecord) : recordText kr = ',' :: recBody kr := by
  simp [recordText, recBody]

/-- what the text of a key record must look like for the regular expressions to read it back: a fingerprint of
    eight lower-case hex digits, a path that starts with `m` and contains none of `] , ( ) * \` or a newline, an
    xpub over the Base58 alphabet (always true for the xpubs the constructor stores) -/
structure RecText (kr : KeyRecord) : Prop where
  xfpLen : kr.xfp.length = 8
  xfpHex : ∀ c ∈ kr.xfp, isHexLower c = true
  pathM : kr.path = 'm' :: kr.path.drop 1
  pathSafe : ∀ c ∈ kr.path.drop 1, c ≠ ']' ∧ c ≠ ',' ∧ c ≠ '(' ∧ c ≠ ')' ∧ c ≠ '\n' ∧ c ≠ '\\' ∧ c ≠ '*'
  xpubNe : kr.xpubParent ≠ []
  xpubChars : ∀ c ∈ kr.xpubParent, isAlnum c = true ∧ descSpecial c = false

theorem lazyBracket_spec : ∀ (rest xpub acc : Str), (∀ c ∈ rest, c ≠ ']') → (∀ x xs, xpub = x :: xs → isAlnum x = true) →
    xpub ≠ [] → lazyBracket (rest ++ ']' :: xpub) acc = some (acc.reverse ++ rest, xpub)
  | [], xpub, acc, _, hx, hne => by
    cases xpub with
    | nil => exact absurd rfl hne
    | cons x xs =>
      show lazyBracket (']' :: x :: xs) acc = _
      unfold lazyBracket
      simp [hx x xs rfl]
  | c :: rest, xpub, acc, hr, hx, hne => by
    have hc : c ≠ ']' := hr c (by simp)
    show lazyBracket (c :: (rest ++ ']' :: xpub)) acc = _
    unfold lazyBracket
    simp only [hc, decide_false, Bool.false_and, Bool.false_eq_true, if_false]
    rw [lazyBracket_spec rest xpub (c :: acc) (fun x hx' => hr x (by simp [hx'])) hx hne]
    simp

theorem hex_safe {c : Char} (h : isHexLower c = true) :
    c ≠ ',' ∧ c ≠ '(' ∧ c ≠ ')' ∧ c ≠ '\n' ∧ c ≠ '\\' ∧ c ≠ '/' ∧ c ≠ '*' := by
  refine ⟨?_, ?_, ?_, ?_, ?_, ?_, ?_⟩ <;> (intro e; subst e; simp [isHexLower] at h)

theorem special_safe {c : Char} (h : descSpecial c = false) :
    c ≠ ',' ∧ c ≠ '(' ∧ c ≠ ')' ∧ c ≠ '\n' ∧ c ≠ '\\' ∧ c ≠ '/' ∧ c ≠ '*' ∧ c ≠ ']' := by
  refine ⟨?_, ?_, ?_, ?_, ?_, ?_, ?_, ?_⟩ <;> (intro e; subst e; simp [descSpecial] at h)

theorem intStr_safe (i : Int) : ∀ c ∈ intStr i,
    c ≠ ',' ∧ c ≠ '(' ∧ c ≠ ')' ∧ c ≠ '\n' ∧ c ≠ '\\' ∧ c ≠ '/' ∧ c ≠ '*' := by
  intro c hc
  have hd : c.isDigit = true ∨ c = '-' := by
    cases i with
    | ofNat n => exact Or.inl (natStr_digits n c hc)
    | negSucc n =>
      simp only [intStr, List.mem_cons] at hc
      rcases hc with rfl | hc
      · exact Or.inr rfl
      · exact Or.inl (natStr_digits _ c hc)
  rcases hd with hd | rfl
  · refine ⟨?_, ?_, ?_, ?_, ?_, ?_, ?_⟩ <;> (intro e; subst e; simp [Char.isDigit] at hd)
  · decide

theorem matchKeyRecord_generated (kr : KeyRecord) (ht : RecText kr) :
    matchKeyRecord ('[' :: (kr.xfp ++ (kr.path.drop 1 ++ ']' :: kr.xpubParent))) = some (kr.xfp, kr.path.drop 1, kr.xpubParent) := by
  unfold matchKeyRecord
  simp only []
  have htake : (kr.xfp ++ (kr.path.drop 1 ++ ']' :: kr.xpubParent)).take 8 = kr.xfp := take_append_len _ _ 8 ht.xfpLen
  have hdrop : (kr.xfp ++ (kr.path.drop 1 ++ ']' :: kr.xpubParent)).drop 8 = kr.path.drop 1 ++ ']' :: kr.xpubParent :=
    drop_append_len _ _ 8 ht.xfpLen
  rw [htake, hdrop]
  have hall : kr.xfp.all isHexLower = true := List.all_eq_true.mpr ht.xfpHex
  simp only [ht.xfpLen, hall, ne_eq, not_true_eq_false, Bool.not_true, or_self, if_false]
  have hstar : dropStar (kr.path.drop 1 ++ ']' :: kr.xpubParent) = kr.path.drop 1 ++ ']' :: kr.xpubParent := by
    cases hp : kr.path.drop 1 with
    | nil => rfl
    | cons a l =>
      have : a ≠ '*' := (ht.pathSafe a (by rw [hp]; simp)).2.2.2.2.2.2
      simp only [List.cons_append]
      unfold dropStar
      split
      · next heq => simp at heq; exact absurd heq.1 this
      · rfl
  rw [hstar]
  have hline : (kr.path.drop 1 ++ ']' :: kr.xpubParent).takeWhile (· ≠ '\n') = kr.path.drop 1 ++ ']' :: kr.xpubParent := by
    apply takeWhile_all
    intro c hc
    simp only [List.mem_append, List.mem_cons] at hc
    rcases hc with hc | rfl | hc
    · simpa using (ht.pathSafe c hc).2.2.2.2.1
    · decide
    · simpa using (special_safe (ht.xpubChars c hc).2).2.2.2.1
  rw [hline, lazyBracket_spec _ _ [] (fun c hc => (ht.pathSafe c hc).1)
    (fun x xs hx => (ht.xpubChars x (by rw [hx]; simp)).1) ht.xpubNe]
  simp

section
variable (hash256 : Bytes → Bytes) (hmac : Bytes → Bytes → Bytes) (h160 : Bytes → Bytes)

/-- the head of a key record: `[{xfp}{path[1:]}]{xpub}` -/
def recHead (kr : KeyRecord) : Str := '[' :: (kr.xfp ++ (kr.path.drop 1 ++ ']' :: kr.xpubParent))

theorem recBody_eq (kr : KeyRecord) : recBody kr = recHead kr ++ '/' :: (intStr kr.accountIndex ++ '/' :: ['*']) := by
  simp [recBody, recHead]

theorem parsePartial_generated (kr : KeyRecord) (ht : RecText kr) (hvalid : isValidBip32Path kr.path = true)
    (pk : HDPub) (hparse : HDPub.parse hash256 kr.xpubParent = some pk) :
    parsePartialKeyRecord hash256 (recHead kr) = some (kr.xfp, kr.path, kr.xpubParent, pk.network) := by
  unfold parsePartialKeyRecord recHead
  rw [matchKeyRecord_generated kr ht]
  simp only [Option.bind_eq_bind, Option.bind_some]
  rw [← ht.pathM]
  simp [hvalid, hparse]

theorem parseFullKeyRecord_generated (kr : KeyRecord) (ht : RecText kr) (hvalid : isValidBip32Path kr.path = true)
    (pk : HDPub) (hparse : HDPub.parse hash256 kr.xpubParent = some pk)
    (hchild : ∃ c x, pk.childI hmac h160 kr.accountIndex = some c ∧ c.xpub hash256 none = some x) :
    parseFullKeyRecord hash256 hmac h160 (recBody kr) = some kr := by
  obtain ⟨c, x, hc, hx⟩ := hchild
  have hslashA : True := trivial
  have hnoI : '/' ∉ intStr kr.accountIndex := fun e => (intStr_safe _ _ e).2.2.2.2.2.1 rfl
  have hsplit : split '/' (recBody kr) = split '/' (recHead kr) ++ [intStr kr.accountIndex, ['*']] := by
    rw [recBody_eq, split_append', split_append', split_no_sep '/' _ hnoI, split_no_sep '/' ['*'] (by decide)]
    rfl
  have hP := split_ne_nil' '/' (recHead kr)
  unfold parseFullKeyRecord
  simp only [hsplit]
  have hlast : (split '/' (recHead kr) ++ [intStr kr.accountIndex, ['*']]).getLast? = some ['*'] := by
    simp [List.getLast?_append]
  have hlen : (split '/' (recHead kr) ++ [intStr kr.accountIndex, ['*']]).length = (split '/' (recHead kr)).length + 2 := by
    simp
  have hget : (split '/' (recHead kr) ++ [intStr kr.accountIndex, ['*']]).getD ((split '/' (recHead kr)).length + 2 - 2) []
      = intStr kr.accountIndex := by
    simp [List.getD, List.getElem?_append_right]
  have htake : (split '/' (recHead kr) ++ [intStr kr.accountIndex, ['*']]).take ((split '/' (recHead kr)).length + 2 - 2)
      = split '/' (recHead kr) := by
    simp
  have hn2 : ¬ ((split '/' (recHead kr)).length + 2 < 2) := by omega
  simp only [hlast, hlen, hget, htake, join_split, ne_eq, not_true_eq_false, if_false, isIntable, pyInt_intStr,
    Option.isSome_some, hn2, Option.bind_some, Option.map_some,
    parsePartial_generated hash256 kr ht hvalid pk hparse, hparse, hc, hx]

end

/-! ## the checksum characters -/

theorem checksumCharset_bech32 : ∀ c ∈ checksumCharset, isBech32Char c = true := by decide

theorem ccOutput_spec {c : Nat} {cs : Str} (h : ccOutput c = some cs) :
    cs.length = 8 ∧ ∀ ch ∈ cs, isBech32Char ch = true := by
  unfold ccOutput at h
  obtain ⟨h1, h2⟩ := mapM_all _ (fun ch => isBech32Char ch = true) (by
    intro j ch hj
    split at hj
    · cases hj
    · exact checksumCharset_bech32 ch (List.mem_of_getElem? hj)) _ _ h
  exact ⟨by rw [h2]; simp [Gen.ccOutLen], h1⟩

theorem calcCoreChecksum_spec {t cs : Str} (h : calcCoreChecksum t = some cs) :
    cs.length = 8 ∧ ∀ ch ∈ cs, isBech32Char ch = true := by
  unfold calcCoreChecksum at h
  simp only [Option.bind_eq_bind, Option.bind_eq_some_iff] at h
  obtain ⟨_, _, h⟩ := h
  exact ccOutput_spec h

/-! ## what the constructor stores, and that storing it again changes nothing -/

section
variable (hash256 : Bytes → Bytes)

/-- a key record as the constructor stores it: valid path and fingerprint, an xpub that parses to a key of network
    `n` whose default-version serialisation it is -/
structure SavedRec (kr : KeyRecord) (n : String) : Prop where
  path : isValidBip32Path kr.path = true
  xfp : isValidXfpHex kr.xfp = true
  key : ∃ norm, HDPub.parse hash256 kr.xpubParent = some norm ∧ norm.network = n ∧ normPub norm = some norm ∧
          norm.xpub hash256 none = some kr.xpubParent

theorem checkRecord_saved (hb : B58RoundTrip hash256) (hsec : ∀ b Q, EC.parsePoint b = some Q → SecOK Q)
    {kr kr' : KeyRecord} {n : String} (h : checkRecord hash256 kr = some (kr', n)) :
    SavedRec hash256 kr' n ∧ kr'.path = kr.path ∧ kr'.xfp = kr.xfp ∧ kr'.accountIndex = kr.accountIndex := by
  unfold checkRecord at h
  by_cases hp : isValidBip32Path kr.path = true
  · by_cases hx : isValidXfpHex kr.xfp = true
    · rw [if_neg (by simp [hp]), if_neg (by simp [hx])] at h
      simp only [Option.bind_eq_some_iff, Option.map_eq_some_iff, Prod.mk.injEq] at h
      obtain ⟨pk, hpk, norm, hnorm, x, hxp, hkr, hn⟩ := h
      subst hkr; subst hn
      have wf := pub_parse_wf hpk
      obtain ⟨b, hb'⟩ := wf.point
      obtain ⟨h1, h2, h3⟩ := norm_xpub_idempotent hash256 hb wf (hsec b _ hb') (n := norm) hnorm hxp
      exact ⟨⟨hp, hx, norm, h1, h2, h3, hxp⟩, rfl, rfl, rfl⟩
    · rw [if_neg (by simp [hp]), if_pos (by simp [hx])] at h; cases h
  · rw [if_pos (by simp [hp])] at h; cases h

theorem savedRec_check {kr : KeyRecord} {n : String} (hs : SavedRec hash256 kr n) :
    checkRecord hash256 kr = some (kr, n) := by
  obtain ⟨norm, h1, h2, h3, h4⟩ := hs.key
  subst h2
  unfold checkRecord
  have h3' : mkPub norm.point norm.chainCode norm.depth norm.parentFp norm.childNumber norm.network none = some norm := h3
  rw [if_neg (by simp [hs.path]), if_neg (by simp [hs.xfp]), h1]
  simp only [Option.bind_some, h3', h4, Option.map_some]

theorem savedRec_xpub {kr : KeyRecord} {n : String} (hs : SavedRec hash256 kr n) (hb : B58RoundTrip hash256)
    (hh : ∀ b, 4 ≤ (hash256 b).length) :
    kr.xpubParent ≠ [] ∧ ∀ c ∈ kr.xpubParent, isAlnum c = true ∧ descSpecial c = false := by
  obtain ⟨norm, -, -, -, h4⟩ := hs.key
  simp only [HDPub.xpub, Option.bind_eq_bind, Option.bind_eq_some_iff] at h4
  obtain ⟨raw, -, henc⟩ := h4
  refine ⟨encode_ne_nil hash256 hb hh raw _ henc, fun c hc => ?_⟩
  have := encodeBase58Checksum_chars hash256 raw _ henc c hc
  exact ⟨by simpa [isAlnum, isAlnumC] using this.1, this.2⟩

theorem checkRecords_spec (hb : B58RoundTrip hash256) (hsec : ∀ b Q, EC.parsePoint b = some Q → SecOK Q) :
    ∀ (krs : List KeyRecord) (net0 : Option String) (saved : List KeyRecord) (netF : Option String),
      checkRecords hash256 krs net0 = some (saved, netF) →
      (krs = [] → netF = net0) ∧ (∀ n0, net0 = some n0 → netF = some n0) ∧
      (krs ≠ [] → ∃ n, netF = some n ∧ ∀ kr' ∈ saved, SavedRec hash256 kr' n) ∧ saved.length = krs.length
  | [], net0, saved, netF, h => by
    simp [checkRecords] at h
    obtain ⟨rfl, rfl⟩ := h
    exact ⟨fun _ => rfl, fun _ h => h, fun h => absurd rfl h, rfl⟩
  | kr :: rest, net0, saved, netF, h => by
    simp only [checkRecords, Option.bind_eq_some_iff, Option.map_eq_some_iff, Prod.mk.injEq] at h
    obtain ⟨⟨s1, n⟩, hcr, net', hnet', ⟨more, nF⟩, hrest, hsaved, hnF⟩ := h
    simp only [] at hsaved hnF
    subst hsaved; subst hnF
    obtain ⟨i1, i2, i3, i4⟩ := checkRecords_spec hb hsec rest (some net') more nF hrest
    have hnF : nF = some net' := i2 net' rfl
    have hn : n = net' ∧ ∀ n0, net0 = some n0 → net' = n0 := by
      unfold mergeNet at hnet'
      cases net0 with
      | none => simp at hnet'; exact ⟨hnet', fun _ h => by cases h⟩
      | some n0 =>
        simp only [] at hnet'
        by_cases e : n = n0
        · simp [e] at hnet'; subst hnet'; exact ⟨e, fun _ h => by cases h; rfl⟩
        · simp [e] at hnet'
    refine ⟨?_, ?_, ?_, ?_⟩
    · intro h; cases h
    · intro n0 h0; rw [hnF, hn.2 n0 h0]
    · intro _
      refine ⟨net', hnF, ?_⟩
      intro kr' hkr'
      rcases List.mem_cons.mp hkr' with rfl | hkr'
      · have := (checkRecord_saved hash256 hb hsec hcr).1
        rw [hn.1] at this
        exact this
      · cases rest with
        | nil =>
          simp [checkRecords] at hrest
          obtain ⟨rfl, -⟩ := hrest
          cases hkr'
        | cons r rs =>
          obtain ⟨n2, hn2, hall⟩ := i3 (by simp)
          rw [hnF] at hn2
          cases hn2
          exact hall kr' hkr'
    · simp [i4]

theorem checkRecords_saved (n : String) : ∀ (l : List KeyRecord) (net0 : Option String),
    (net0 = none ∨ net0 = some n) → (∀ kr ∈ l, SavedRec hash256 kr n) →
    checkRecords hash256 l net0 = some (l, if l = [] then net0 else some n)
  | [], net0, _, _ => by simp [checkRecords]
  | kr :: rest, net0, h0, hl => by
    have hk := savedRec_check hash256 (hl kr (by simp))
    have ih := checkRecords_saved n rest (some n) (Or.inr rfl) (fun x hx => hl x (by simp [hx]))
    have hnet : mergeNet net0 n = some n := by
      rcases h0 with rfl | rfl <;> simp [mergeNet]
    simp only [checkRecords, hk, Option.bind_some, hnet, ih, Option.map_some]
    by_cases hr : rest = []
    · simp [hr]
    · simp [hr]

end

/-! ## parse (str d) = d -/

theorem descriptorText_eq (m : Nat) (krs : List KeyRecord) :
    descriptorText m krs = wshLiteral ++ (natStr m ++ ((krs.map recordText).flatten ++ [')', ')'])) := by
  unfold descriptorText wshLiteral
  generalize "wsh(sortedmulti(".toList = L
  rw [List.append_assoc, List.append_assoc]

theorem bech32_mem {c : Char} (h : isBech32Char c = true) : c ∈ "qpzry9x8gf2tvdw0s3jn54khce6mua7l".toList := by
  simpa [isBech32Char] using h

theorem bech32_facts : ∀ c ∈ "qpzry9x8gf2tvdw0s3jn54khce6mua7l".toList,
    isSpace c = false ∧ c ≠ '\\' ∧ c ≠ '\n' ∧ c ≠ '(' ∧ c ≠ ')' := by decide

theorem flatten_recordText : ∀ (krs : List KeyRecord), krs ≠ [] →
    (krs.map recordText).flatten = ',' :: join ',' (krs.map recBody)
  | [], h => absurd rfl h
  | [kr], _ => by simp [recordText_eq, join]
  | kr :: k2 :: ks, _ => by
    have ih := flatten_recordText (k2 :: ks) (by simp)
    simp only [List.map_cons, List.flatten_cons] at ih ⊢
    rw [ih, recordText_eq, join_cons_cons]
    simp

theorem recBody_safe {kr : KeyRecord} (ht : RecText kr) :
    ∀ c ∈ recBody kr, c ≠ ',' ∧ c ≠ '(' ∧ c ≠ ')' ∧ c ≠ '\n' ∧ c ≠ '\\' := by
  intro c hc
  simp only [recBody, List.mem_cons, List.mem_append, List.not_mem_nil, or_false] at hc
  rcases hc with rfl | hc | hc | rfl | hc | rfl | hc | rfl | rfl
  · decide
  · have := hex_safe (ht.xfpHex c hc); exact ⟨this.1, this.2.1, this.2.2.1, this.2.2.2.1, this.2.2.2.2.1⟩
  · have := ht.pathSafe c hc; exact ⟨this.2.1, this.2.2.1, this.2.2.2.1, this.2.2.2.2.1, this.2.2.2.2.2.1⟩
  · decide
  · have := special_safe (ht.xpubChars c hc).2; exact ⟨this.1, this.2.1, this.2.2.1, this.2.2.2.1, this.2.2.2.2.1⟩
  · decide
  · have := intStr_safe _ c hc; exact ⟨this.1, this.2.1, this.2.2.1, this.2.2.2.1, this.2.2.2.2.1⟩
  · decide
  · decide

theorem mapM_map_some {α β} (f : β → Option α) (g : α → β) : ∀ (l : List α), (∀ a ∈ l, f (g a) = some a) →
    (l.map g).mapM f = some l
  | [], _ => by simp
  | a :: l, h => by
    simp [List.mapM_cons, h a (by simp), mapM_map_some f g l (fun x hx => h x (by simp [hx]))]

section
variable (hash256 : Bytes → Bytes) (hmac : Bytes → Bytes → Bytes) (h160 : Bytes → Bytes)

theorem constructCore_spec (m : Int) (krs : List KeyRecord) (srt : Bool) (d : Desc)
    (h : constructCore hash256 m krs srt = some d) :
    (1 : Int) ≤ m ∧ d.m = m.toNat ∧ krs ≠ [] ∧
    (∃ saved, checkRecords hash256 krs none = some (saved, some d.network) ∧
      d.keyRecords = (if srt then saved.mergeSort (fun a b => strLe a.xpubParent b.xpubParent) else saved)) ∧
    d.text = descriptorText d.m d.keyRecords ∧ calcCoreChecksum d.text = some d.checksum := by
  unfold constructCore at h
  split at h
  · cases h
  · next h1 =>
    split at h
    · cases h
    · next h2 =>
      simp only [Option.bind_eq_some_iff, Option.map_eq_some_iff] at h
      obtain ⟨⟨saved, net⟩, hcr, network, hnet, c, hc, h⟩ := h
      simp only [] at hnet
      subst hnet
      subst h
      refine ⟨?_, rfl, h2, ⟨saved, hcr, rfl⟩, rfl, hc⟩
      simp only [Gen.quorumMin] at h1
      omega

/-- what `parse` needs beyond what the constructor checks -/
structure ReprWF (d : Desc) : Prop where
  /-- parse refuses m > n (the constructor does not) -/
  quorum : d.m ≤ d.keyRecords.length
  /-- fingerprints in lower-case hex, paths written `m/…` without `] , ( ) * \` or newline -/
  xfpLen : ∀ kr ∈ d.keyRecords, kr.xfp.length = 8
  xfpHex : ∀ kr ∈ d.keyRecords, ∀ c ∈ kr.xfp, isHexLower c = true
  pathM : ∀ kr ∈ d.keyRecords, kr.path = 'm' :: kr.path.drop 1
  pathSafe : ∀ kr ∈ d.keyRecords, ∀ c ∈ kr.path.drop 1,
    c ≠ ']' ∧ c ≠ ',' ∧ c ≠ '(' ∧ c ≠ ')' ∧ c ≠ '\n' ∧ c ≠ '\\' ∧ c ≠ '*'
  /-- parse_full_key_record also derives and serialises the account child of every cosigner -/
  child : ∀ kr ∈ d.keyRecords, ∀ pk, HDPub.parse hash256 kr.xpubParent = some pk →
    ∃ c x, pk.childI hmac h160 kr.accountIndex = some c ∧ c.xpub hash256 none = some x

theorem parse_repr_rel (hb : B58RoundTrip hash256) (hh : ∀ b, 4 ≤ (hash256 b).length)
    (hsec : ∀ b Q, EC.parsePoint b = some Q → SecOK Q)
    (m : Int) (krs : List KeyRecord) (cs : Str) (srt : Bool) (d : Desc)
    (hc : construct hash256 m krs cs srt = some d) (wf : ReprWF hash256 hmac h160 d) :
    parse hash256 hmac h160 d.repr = some d := by
  -- the constructor's result
  unfold construct at hc
  simp only [Option.bind_eq_some_iff] at hc
  obtain ⟨d0, hd0, hc⟩ := hc
  have hdd : d0 = d := by
    split at hc
    · cases hc
    · exact Option.some.inj hc
  subst hdd
  obtain ⟨hm1, hm, hkne, ⟨saved, hcr, hkr⟩, htext, hcalc⟩ := constructCore_spec hash256 m krs srt d0 hd0
  obtain ⟨-, -, i3, i4⟩ := checkRecords_spec hash256 hb hsec krs none saved _ hcr
  obtain ⟨n, hn, hsaved⟩ := i3 hkne
  cases hn
  have hmem : ∀ kr, kr ∈ d0.keyRecords → kr ∈ saved := by
    intro kr hk
    rw [hkr] at hk
    split at hk
    · exact (List.mergeSort_perm saved _).subset hk
    · exact hk
  have hlen : d0.keyRecords.length = krs.length := by
    rw [hkr, ← i4]
    split
    · exact (List.mergeSort_perm saved _).length_eq
    · rfl
  have hne : d0.keyRecords ≠ [] := by
    intro e; rw [e] at hlen
    cases krs with
    | nil => exact hkne rfl
    | cons _ _ => simp at hlen
  have hS : ∀ kr ∈ d0.keyRecords, SavedRec hash256 kr d0.network := fun kr hk => hsaved kr (hmem kr hk)
  have hT : ∀ kr ∈ d0.keyRecords, RecText kr := fun kr hk =>
    ⟨wf.xfpLen kr hk, wf.xfpHex kr hk, wf.pathM kr hk, wf.pathSafe kr hk,
      (savedRec_xpub hash256 (hS kr hk) hb hh).1, (savedRec_xpub hash256 (hS kr hk) hb hh).2⟩
  obtain ⟨hcslen, hcsb⟩ := calcCoreChecksum_spec hcalc
  -- the text
  have hrepr : d0.repr = wshLiteral ++ (natStr d0.m ++ ',' :: join ',' (d0.keyRecords.map recBody) ++
      ')' :: ')' :: '#' :: d0.checksum) := by
    rw [Desc.repr, htext, descriptorText_eq, flatten_recordText _ hne]
    generalize wshLiteral = L
    simp only [List.append_assoc, List.cons_append, List.nil_append]
  have hrecs : ∀ c ∈ join ',' (d0.keyRecords.map recBody), c ≠ '(' ∧ c ≠ ')' ∧ c ≠ '\n' ∧ c ≠ '\\' := by
    intro c hc
    rcases mem_join ',' _ c hc with rfl | ⟨p, hp, hcp⟩
    · decide
    · obtain ⟨kr, hk, rfl⟩ := List.mem_map.mp hp
      have := recBody_safe (hT kr hk) c hcp
      exact ⟨this.2.1, this.2.2.1, this.2.2.2.1, this.2.2.2.2⟩
  have hcsf : ∀ c ∈ d0.checksum, isSpace c = false ∧ c ≠ '\\' ∧ c ≠ '\n' ∧ c ≠ '(' ∧ c ≠ ')' :=
    fun c hc => bech32_facts c (bech32_mem (hcsb c hc))
  have hdig := natStr_digits d0.m
  -- strip and the `\/` replacement leave it alone
  have hlitc : ∀ c ∈ wshLiteral, c ≠ '\\' ∧ isSpace c = false := by decide
  have hstrip : strip d0.repr = d0.repr := by
    apply strip_eq_self
    · intro c hc
      rw [hrepr] at hc
      have e : wshLiteral = 'w' :: "sh(sortedmulti(".toList := by decide
      rw [e] at hc
      simp only [List.cons_append, List.head?_cons, Option.some.injEq] at hc
      subst hc; decide
    · intro c hc
      have hcs : d0.checksum ≠ [] := by intro e; rw [e] at hcslen; simp at hcslen
      have : c ∈ d0.checksum := by
        rw [Desc.repr, List.getLast?_append] at hc
        cases hx : d0.checksum with
        | nil => exact absurd hx hcs
        | cons a l =>
          rw [hx] at hc
          simp only [List.getLast?_cons_cons] at hc
          cases hl : (a :: l).getLast? with
          | none => simp at hl
          | some z =>
            rw [hl] at hc
            simp at hc
            subst hc
            exact List.mem_of_mem_getLast? hl
      exact (hcsf c this).1
  have hnobs : '\\' ∉ d0.repr := by
    rw [hrepr]
    intro hc
    simp only [List.mem_append, List.mem_cons] at hc
    rcases hc with hc | (hc | hc | hc) | hc | hc | hc | hc
    · exact (hlitc _ hc).1 rfl
    · have := hdig _ hc; simp [Char.isDigit] at this
    · exact absurd hc (by decide)
    · exact (hrecs _ hc).2.2.2 rfl
    · exact absurd hc (by decide)
    · exact absurd hc (by decide)
    · exact absurd hc (by decide)
    · exact (hcsf _ hc).2.1 rfl
  unfold parse
  simp only [hstrip, unescapeSlashes_id _ hnobs]
  rw [hrepr, matchDescriptor_generated d0.m _ d0.checksum
    (fun c hc => ⟨(hrecs c hc).1, (hrecs c hc).2.1, (hrecs c hc).2.2.1⟩) hcsb hcslen]
  have hcontains : (wshLiteral ++ (natStr d0.m ++ ',' :: join ',' (d0.keyRecords.map recBody) ++
      ')' :: ')' :: '#' :: d0.checksum)).contains '#' = true := by
    simp
  -- the key records
  have hbodies : split ',' (join ',' (d0.keyRecords.map recBody)) = d0.keyRecords.map recBody := by
    apply split_join
    · simpa using hne
    · intro p hp
      obtain ⟨kr, hk, rfl⟩ := List.mem_map.mp hp
      exact fun e => (recBody_safe (hT kr hk) _ e).1 rfl
  have hrecsP : (d0.keyRecords.map recBody).mapM (parseFullKeyRecord hash256 hmac h160) = some d0.keyRecords := by
    apply mapM_map_some
    intro kr hk
    obtain ⟨norm, hp, -, -, -⟩ := (hS kr hk).key
    exact parseFullKeyRecord_generated hash256 hmac h160 kr (hT kr hk) (hS kr hk).path norm hp (wf.child kr hk norm hp)
  -- constructing again from what was stored gives the same object
  have hcr2 := checkRecords_saved hash256 d0.network d0.keyRecords none (Or.inl rfl) hS
  rw [if_neg hne] at hcr2
  have hcore : constructCore hash256 (d0.m : Int) d0.keyRecords false = some d0 := by
    unfold constructCore
    have h1 : ¬ ((d0.m : Int) < (Gen.quorumMin : Int)) := by
      simp only [Gen.quorumMin]; omega
    rw [if_neg h1, if_neg hne, hcr2]
    simp only [Option.bind_some, Bool.false_eq_true, if_false, Int.toNat_natCast, ← htext, hcalc, Option.map_some]
  have hcons : construct hash256 (d0.m : Int) d0.keyRecords d0.checksum false = some d0 := by
    unfold construct
    rw [hcore]
    simp
  have hq : ¬ ((d0.m : Int) > (d0.keyRecords.length : Int)) := by
    have := wf.quorum; omega
  simp only [Option.bind_some, hcontains, if_true, pyInt_natStr, hbodies, hrecsP, hq, if_false, hcons]


/-- every xpub the constructor stores carries the plain BIP32 version bytes of its network (SLIP-132 prefixes are
    coalesced to xpub / tpub before the text is built, ordered and checksummed) -/
theorem construct_plain_versions (hb : B58RoundTrip hash256) (hsec : ∀ b Q, EC.parsePoint b = some Q → SecOK Q)
    (m : Int) (krs : List KeyRecord) (cs : Str) (srt : Bool) (d : Desc)
    (hc : construct hash256 m krs cs srt = some d) :
    ∀ kr ∈ d.keyRecords, ∃ pk, HDPub.parse hash256 kr.xpubParent = some pk ∧ pk.network = d.network ∧
      dictGet Gen.hdXpub pk.network = some pk.pubVersion := by
  unfold construct at hc
  simp only [Option.bind_eq_some_iff] at hc
  obtain ⟨d0, hd0, hc⟩ := hc
  have hdd : d0 = d := by
    split at hc
    · cases hc
    · exact Option.some.inj hc
  subst hdd
  obtain ⟨-, -, hkne, ⟨saved, hcr, hkr⟩, -, -⟩ := constructCore_spec hash256 m krs srt d0 hd0
  obtain ⟨-, -, i3, -⟩ := checkRecords_spec hash256 hb hsec krs none saved _ hcr
  obtain ⟨n, hn, hsaved⟩ := i3 hkne
  cases hn
  intro kr hk
  have hmem : kr ∈ saved := by
    rw [hkr] at hk
    split at hk
    · exact (List.mergeSort_perm saved _).subset hk
    · exact hk
  obtain ⟨norm, h1, h2, h3, -⟩ := (hsaved kr hmem).key
  refine ⟨norm, h1, h2, ?_⟩
  simp only [normPub, mkPub, versionOr, Option.bind_eq_bind, Option.pure_def, Option.bind_eq_some_iff] at h3
  obtain ⟨pv, hpv, h3⟩ := h3
  have e := Option.some.inj h3
  rw [hpv, ← e]

/-- whatever text `parse` accepts, the descriptor it returns carries the checksum of its own text -/
theorem parse_checksum (r : Str) (d : Desc) (h : parse hash256 hmac h160 r = some d) :
    calcCoreChecksum d.text = some d.checksum := by
  unfold parse at h
  simp only [Option.bind_eq_some_iff] at h
  obtain ⟨_, -, _, -, _, -, _, -, h⟩ := h
  split at h
  · cases h
  · exact (construct_checksum hash256 _ _ _ _ d h).1

theorem repr_split {d : Desc} {body cs : Str} (hd : calcCoreChecksum d.text = some d.checksum) (hlen : cs.length = 8)
    (h : d.repr = body ++ '#' :: cs) : d.text = body ∧ d.checksum = cs := by
  have h8 := (calcCoreChecksum_spec hd).1
  unfold Desc.repr at h
  obtain ⟨h1, h2⟩ := List.append_inj' h (by simp [h8, hlen])
  exact ⟨h1, by simpa using h2⟩

/-- no descriptor returned by `parse` has, as its text, a one-character variant of a body whose checksum it
    carries -/
theorem parse_never_substituted_body (pre post : Str) (ch ch' : Char) (hne : ch ≠ ch') (cs : Str)
    (horig : calcCoreChecksum (pre ++ ch :: post) = some cs) (r : Str) (d : Desc)
    (hp : parse hash256 hmac h160 r = some d) (hrepr : d.repr = (pre ++ ch' :: post) ++ '#' :: cs) : False := by
  have hd := parse_checksum hash256 hmac h160 r d hp
  obtain ⟨h1, h2⟩ := repr_split hd (calcCoreChecksum_spec horig).1 hrepr
  rw [h1, h2] at hd
  exact calcCoreChecksum_detects pre post ch ch' hne cs cs horig hd rfl

/-- … nor a text whose eight checksum characters were altered -/
theorem parse_never_substituted_checksum (body cs cs' : Str) (hne : cs' ≠ cs) (hlen : cs'.length = 8)
    (horig : calcCoreChecksum body = some cs) (r : Str) (d : Desc)
    (hp : parse hash256 hmac h160 r = some d) (hrepr : d.repr = body ++ '#' :: cs') : False := by
  have hd := parse_checksum hash256 hmac h160 r d hp
  obtain ⟨h1, h2⟩ := repr_split hd hlen hrepr
  rw [h1, h2, horig] at hd
  exact hne (Option.some.inj hd).symm


/-- the extra validation of parse_full_key_record (not done by the constructor): the account child of the parsed
    xpub can be derived and serialised.  Every record that ever came through `parse` satisfies it. -/
theorem parseFullKeyRecord_child (s : Str) (kr : KeyRecord) (h : parseFullKeyRecord hash256 hmac h160 s = some kr) :
    ∃ pk c x, HDPub.parse hash256 kr.xpubParent = some pk ∧ pk.childI hmac h160 kr.accountIndex = some c ∧
      c.xpub hash256 none = some x := by
  unfold parseFullKeyRecord at h
  simp only [] at h
  split at h
  · cases h
  · split at h
    · cases h
    · split at h
      · cases h
      · simp only [Option.bind_eq_some_iff, Option.map_eq_some_iff] at h
        obtain ⟨⟨xfp, path, xpub, net⟩, -, ai, -, pk, hpk, c, hc, x, hx, hkr⟩ := h
        cases hkr
        exact ⟨pk, c, x, hpk, hc, hx⟩

end

end Buidl.Descriptor
