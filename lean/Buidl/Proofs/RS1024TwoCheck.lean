/-
  Buidl.Proofs.RS1024TwoCheck — the kernel computation behind two-word error detection, in a module of its own
  (re-run only when the generated `GEN` or the polymod model change): for g = 1 … 63 every non-trivial XOR
  combination of the images `L^g(2^j)`, j < 10, is ≥ 1024.
-/
import Buidl.Proofs.RS1024
namespace Buidl.Shamir
open Buidl

/-- XOR of the entries of `ws` selected by the bits of `d` (bit 0 ↔ first entry) -/
def combo : List Nat → Nat → Nat
  | [], _ => 0
  | w :: ws, d => (if d % 2 = 1 then w else 0) ^^^ combo ws (d / 2)

/-- the images of the ten unit vectors under `L^g` -/
def basisAt (g : Nat) : List Nat := (List.range 10).map fun j => rsLpow g (2 ^ j)

/-- every non-trivial combination of `ws` is at least 1024 -/
def allCombosBig (ws : List Nat) : Bool := (List.range 1024).all fun d => d == 0 || decide (1024 ≤ combo ws d)

/-- `n` further applications of `L` to the basis images, checking the combinations after each -/
def checkFrom : Nat → List Nat → Bool
  | 0, _ => true
  | n + 1, ws => allCombosBig (ws.map rsL) && checkFrom n (ws.map rsL)

theorem two_check : checkFrom 63 (basisAt 0) = true := by decide +kernel

end Buidl.Shamir
