/-
  Round trip of the PSBT map codec (Buidl.Model.PsbtCodec): reading what the serialiser wrote.

  * `Steps step st es st'` — reading the key–value pairs `es` one after the other takes the parser
    state from `st` to `st'`; `kvLoop_steps` turns it into a statement about the byte-level loop.
  * per key type one lemma about `outStep` / `inStep` / `globalStep`.
  * `out_map_roundtrip`, `in_map_roundtrip`, `global_map_roundtrip`: for a well-formed map value the
    parser succeeds on the serialiser's bytes (followed by anything), returns the *normalised* value
    (dicts in sorted order, dropped data gone) and leaves exactly the continuation; the normalised
    value serialises to the same bytes.
-/
import Buidl.Proofs.Bytes
import Buidl.Proofs.PsbtDict
namespace Buidl.Psbt
open Buidl Buidl.Script

/-! ## the loop -/

inductive Steps {σ : Type} (step : σ → Bytes → Bytes → Option (σ × Bytes)) : σ → List (Bytes × Bytes) → σ → Prop
  | nil (st : σ) : Steps step st [] st
  | cons {st st1 st2 : σ} {k v : Bytes} {es : List (Bytes × Bytes)} :
      k ≠ [] → k.length < 2 ^ 63 →
      (∀ ev rest, encodeVarstr v = some ev → step st k (ev ++ rest) = some (st1, rest)) →
      Steps step st1 es st2 → Steps step st ((k, v) :: es) st2

theorem Steps.append {σ : Type} {step : σ → Bytes → Bytes → Option (σ × Bytes)} {a b c : σ}
    {e1 e2 : List (Bytes × Bytes)} (h1 : Steps step a e1 b) (h2 : Steps step b e2 c) : Steps step a (e1 ++ e2) c := by
  induction h1 with
  | nil => exact h2
  | cons hk hl hs _ ih => exact Steps.cons hk hl hs (ih h2)

theorem readVarstr_zero (rest : Bytes) : readVarstr (0 :: rest) = some ([], rest) := by
  simp [readVarstr, readVarint, Gen.varintDecM0, Gen.varintDecM1, Gen.varintDecM2]

theorem encodeEntries_cons_some {k v : Bytes} {es : List (Bytes × Bytes)} {enc : Bytes}
    (h : encodeEntries ((k, v) :: es) = some enc) :
    ∃ ek ev enc', encodeVarstr k = some ek ∧ encodeVarstr v = some ev ∧ encodeEntries es = some enc' ∧
      enc = ek ++ ev ++ enc' := by
  simp only [encodeEntries, serializeKeyValue, Option.pure_def, Option.bind_eq_bind] at h
  cases hk : encodeVarstr k with
  | none => simp [hk] at h
  | some ek =>
    cases hv : encodeVarstr v with
    | none => simp [hk, hv] at h
    | some ev =>
      cases he : encodeEntries es with
      | none => simp [hk, hv, he] at h
      | some enc' =>
        simp only [hk, hv, he, Option.bind_some, Option.some.injEq] at h
        exact ⟨ek, ev, enc', rfl, rfl, rfl, h.symm⟩

/-- the byte-level loop reads back an encoded entry list followed by the 0x00 terminator -/
theorem kvLoop_steps {σ : Type} {step : σ → Bytes → Bytes → Option (σ × Bytes)} {st st' : σ}
    {es : List (Bytes × Bytes)} (hs : Steps step st es st') :
    ∀ (enc : Bytes), encodeEntries es = some enc → ∀ (fuel : Nat), es.length + 1 ≤ fuel → ∀ rest : Bytes,
      kvLoop step fuel (enc ++ 0 :: rest) st = some (st', rest) := by
  induction hs with
  | nil st =>
    intro enc he fuel hf rest
    simp only [encodeEntries, Option.some.injEq] at he
    subst he
    obtain ⟨f, rfl⟩ : ∃ f, fuel = f + 1 := ⟨fuel - 1, by omega⟩
    simp [kvLoop, readVarstr_zero]
  | @cons st st1 st2 k v es hk hl hstep _ ih =>
    intro enc he fuel hf rest
    obtain ⟨ek, ev, enc', hek, hev, he', rfl⟩ := encodeEntries_cons_some he
    obtain ⟨f, rfl⟩ : ∃ f, fuel = f + 1 := ⟨fuel - 1, by simp at hf; omega⟩
    have hr : readVarstr (ek ++ (ev ++ (enc' ++ 0 :: rest))) = some (k, ev ++ (enc' ++ 0 :: rest)) :=
      readVarstr_encodeVarstr k _ ek hl hek
    simp only [kvLoop, List.append_assoc, hr, Option.pure_def, Option.bind_eq_bind, Option.bind_some, hk, if_false]
    rw [hstep ev (enc' ++ 0 :: rest) hev]
    simp only [Option.bind_some]
    exact ih enc' he' f (by simp at hf; omega) rest

theorem encodeEntries_length_le {es : List (Bytes × Bytes)} {enc : Bytes} (h : encodeEntries es = some enc) :
    es.length ≤ enc.length := by
  induction es generalizing enc with
  | nil => simp
  | cons e r ih =>
    obtain ⟨k, v⟩ := e
    obtain ⟨ek, ev, enc', hek, _, he', rfl⟩ := encodeEntries_cons_some h
    have := ih he'
    have hk1 : 1 ≤ ek.length := by
      unfold encodeVarstr at hek
      obtain ⟨x, hx, rfl⟩ := Option.map_eq_some_iff.mp hek
      have := encodeVarint_length _ _ hx
      simp only [List.length_append]
      split at this <;> omega
    simp only [List.length_cons, List.length_append]
    omega

/-- reading a serialised map: entries, delimiter, continuation -/
theorem kvLoop_roundtrip {σ : Type} {step : σ → Bytes → Bytes → Option (σ × Bytes)} {st st' : σ}
    {es : List (Bytes × Bytes)} (hs : Steps step st es st') {enc : Bytes} (he : encodeEntries es = some enc)
    (rest : Bytes) :
    kvLoop step ((enc ++ Gen.psbtDelimiter ++ rest).length + 1) (enc ++ Gen.psbtDelimiter ++ rest) st = some (st', rest) := by
  have hd : Gen.psbtDelimiter = [0] := rfl
  rw [hd, List.append_assoc]
  apply kvLoop_steps hs enc he
  have := encodeEntries_length_le he
  simp only [List.length_append, List.length_cons, List.singleton_append]
  omega

/-! ## reading one value -/

theorem readVarstr_enc {v ev rest : Bytes} (hl : v.length < 2 ^ 63) (h : encodeVarstr v = some ev) :
    readVarstr (ev ++ rest) = some (v, rest) := readVarstr_encodeVarstr v rest ev hl h

/-- `read_varint` on the length prefix of a var-string -/
theorem readVarint_enc {v ev rest : Bytes} (h : encodeVarstr v = some ev) :
    readVarint (ev ++ rest) = some (v.length, v ++ rest) := by
  unfold encodeVarstr at h
  obtain ⟨x, hx, rfl⟩ := Option.map_eq_some_iff.mp h
  rw [List.append_assoc]
  exact readVarint_encodeVarint _ _ _ hx

/-- a script that is the parse of its own serialisation (every script that came out of the parser and
    can be serialised at all is; C04 proves it for the shared Script model) -/
def ScriptCanon (s : Script) : Prop := ∃ raw, rawOf s = some raw ∧ raw.length < 2 ^ 63 ∧ Script.parseRaw raw = s

theorem scriptParse_enc {s : Script} {raw ev rest : Bytes} (_hr : rawOf s = some raw) (hl : raw.length < 2 ^ 63)
    (hp : Script.parseRaw raw = s) (he : encodeVarstr raw = some ev) :
    Script.parse (ev ++ rest) = some (s, rest) := by
  simp [Script.parse, readVarstr_enc hl he, hp]

/-! ## output maps -/

/-- key types an unknown output-map key must avoid -/
def unknownOutKey (k : Bytes) : Prop :=
  match k with
  | [] => False
  | t :: _ => t.toNat ≠ Gen.psbtOutRedeemScript ∧ t.toNat ≠ Gen.psbtOutWitnessScript ∧ t.toNat ≠ Gen.psbtOutBip32Derivation

structure NamedWF (O : Oracles) (net : Option Net) (named : Dict Bytes) : Prop where
  nodup : DNodup named
  sec : ∀ e ∈ named, e.1.length = 33 ∧ O.secOK e.1 = true
  path : ∀ e ∈ named, e.2.length < 2 ^ 63 ∧ (namedNetwork net e.2).isSome = true

structure ExtraWF (unknown : Bytes → Prop) (extra : Dict Bytes) : Prop where
  nodup : DNodup extra
  keys : ∀ e ∈ extra, unknown e.1 ∧ e.1.length < 2 ^ 63 ∧ e.2.length < 2 ^ 63

structure OutMapWF (O : Oracles) (net : Option Net) (p : POut) : Prop where
  redeem : ∀ r, p.redeem = some r → ScriptCanon r
  witnessScript : ∀ r, p.witnessScript = some r → ScriptCanon r
  named : NamedWF O net p.namedPubs
  extra : ExtraWF unknownOutKey p.extra

/-- what the parser returns for the serialisation of `p`: the dicts in sorted order -/
def normOut (p : POut) : POut :=
  { p with namedPubs := sortedItems p.namedPubs, extra := sortedItems p.extra }

theorem ofNat_toNat_small {n : Nat} (h : n < 256) : (UInt8.ofNat n).toNat = n := by
  rw [u8_ofNat_toNat]; omega

theorem outStep_redeem (O : Oracles) (net : Option Net) (st : POut) {r : Script} {raw : Bytes}
    (hst : st.redeem = none) (hr : rawOf r = some raw) (hl : raw.length < 2 ^ 63) (hp : Script.parseRaw raw = r)
    (ev rest : Bytes) (he : encodeVarstr raw = some ev) :
    outStep O net st [UInt8.ofNat Gen.psbtOutRedeemScript] (ev ++ rest) = some ({ st with redeem := some r }, rest) := by
  simp [outStep, keyLenOK, Gen.psbtOutKeyLens, Gen.psbtOutRedeemScript, req, hst, scriptParse_enc hr hl hp he]

theorem outStep_witnessScript (O : Oracles) (net : Option Net) (st : POut) {r : Script} {raw : Bytes}
    (hst : st.witnessScript = none) (hr : rawOf r = some raw) (hl : raw.length < 2 ^ 63) (hp : Script.parseRaw raw = r)
    (ev rest : Bytes) (he : encodeVarstr raw = some ev) :
    outStep O net st [UInt8.ofNat Gen.psbtOutWitnessScript] (ev ++ rest) = some ({ st with witnessScript := some r }, rest) := by
  simp [outStep, keyLenOK, Gen.psbtOutKeyLens, Gen.psbtOutRedeemScript, Gen.psbtOutWitnessScript, req, hst,
    scriptParse_enc hr hl hp he]

theorem parseNamedPub_enc (O : Oracles) (net : Option Net) (ty : UInt8) {sec rp ev rest : Bytes}
    (hs : O.secOK sec = true) (hl : rp.length < 2 ^ 63) (hn : (namedNetwork net rp).isSome = true)
    (he : encodeVarstr rp = some ev) :
    parseNamedPub O net (ty :: sec) (ev ++ rest) = some ((sec, rp), rest) := by
  obtain ⟨n, hn'⟩ := Option.isSome_iff_exists.mp hn
  simp [parseNamedPub, req, hs, readVarstr_enc hl he, hn']

theorem outStep_named (O : Oracles) (net : Option Net) (st : POut) {sec rp : Bytes}
    (hlen : sec.length = 33) (hs : O.secOK sec = true) (hl : rp.length < 2 ^ 63)
    (hn : (namedNetwork net rp).isSome = true) (ev rest : Bytes) (he : encodeVarstr rp = some ev) :
    outStep O net st (UInt8.ofNat Gen.psbtOutBip32Derivation :: sec) (ev ++ rest)
      = some ({ st with namedPubs := dset st.namedPubs sec rp }, rest) := by
  simp [outStep, keyLenOK, Gen.psbtOutKeyLens, Gen.psbtOutRedeemScript, Gen.psbtOutWitnessScript,
    Gen.psbtOutBip32Derivation, hlen, parseNamedPub_enc O net _ hs hl hn he]

theorem outStep_unknown (O : Oracles) (net : Option Net) (st : POut) {k v : Bytes} (hk : unknownOutKey k)
    (hnew : dget st.extra k = none) (hl : v.length < 2 ^ 63) (ev rest : Bytes) (he : encodeVarstr v = some ev) :
    outStep O net st k (ev ++ rest) = some ({ st with extra := dset st.extra k v }, rest) := by
  cases k with
  | nil => exact absurd hk (by simp [unknownOutKey])
  | cons t tl =>
    obtain ⟨h0, h1, h2⟩ := hk
    simp only [Gen.psbtOutRedeemScript, Gen.psbtOutWitnessScript, Gen.psbtOutBip32Derivation] at h0 h1 h2
    have hlen : keyLenOK Gen.psbtOutKeyLens t.toNat (t :: tl) = true := by
      simp [keyLenOK, Gen.psbtOutKeyLens, List.find?, Ne.symm h0, Ne.symm h1, Ne.symm h2]
    simp [outStep, hlen, Gen.psbtOutRedeemScript, Gen.psbtOutWitnessScript, Gen.psbtOutBip32Derivation, h0, h1, h2,
      req, dtruthy, hnew, readVarstr_enc hl he]

theorem mem_sortedItems {β : Type} {d : Dict β} {e : Bytes × β} (h : e ∈ sortedItems d) : e ∈ d := by
  unfold sortedItems at h
  rw [List.mem_filterMap] at h
  obtain ⟨k, _, hk⟩ := h
  cases hg : dget d k with
  | none => simp [hg] at hk
  | some v =>
    simp only [hg, Option.map_some, Option.some.injEq] at hk
    subst hk
    exact dget_some_mem hg

theorem steps_named_out (O : Oracles) (net : Option Net) :
    ∀ (l : Dict Bytes) (st : POut), (dkeys l).Nodup →
      (∀ e ∈ l, e.1.length = 33 ∧ O.secOK e.1 = true ∧ e.2.length < 2 ^ 63 ∧ (namedNetwork net e.2).isSome = true) →
      (∀ e ∈ l, e.1 ∉ dkeys st.namedPubs) →
      Steps (outStep O net) st (l.map fun e => (UInt8.ofNat Gen.psbtOutBip32Derivation :: e.1, e.2))
        { st with namedPubs := st.namedPubs ++ l }
  | [], st, _, _, _ => by simpa using Steps.nil st
  | (sec, rp) :: r, st, hn, hwf, hfresh => by
    simp only [dkeys_cons, List.nodup_cons] at hn
    obtain ⟨h33, hsec, hrl, hnet⟩ := hwf (sec, rp) (List.mem_cons_self ..)
    have hnot : sec ∉ dkeys st.namedPubs := hfresh (sec, rp) (List.mem_cons_self ..)
    simp only [List.map_cons]
    refine Steps.cons (by simp) (by simp [h33]) (fun ev rest he => outStep_named O net st h33 hsec hrl hnet ev rest he) ?_
    have ih := steps_named_out O net r { st with namedPubs := dset st.namedPubs sec rp } hn.2
      (fun e he => hwf e (List.mem_cons_of_mem _ he))
      (by
        intro e he
        simp only
        rw [dset_of_not_mem _ _ _ hnot]
        simp only [dkeys, List.map_append, List.map_cons, List.map_nil, List.mem_append, List.mem_singleton, not_or]
        refine ⟨hfresh e (List.mem_cons_of_mem _ he), ?_⟩
        intro heq
        exact hn.1 (heq ▸ List.mem_map.mpr ⟨e, he, rfl⟩))
    have key : dset st.namedPubs sec rp = st.namedPubs ++ [(sec, rp)] := dset_of_not_mem _ _ _ hnot
    show Steps (outStep O net) { st with namedPubs := dset st.namedPubs sec rp } _ _
    rw [key] at ih ⊢
    simpa [List.append_assoc] using ih

theorem steps_extra_out (O : Oracles) (net : Option Net) :
    ∀ (l : Dict Bytes) (st : POut), (dkeys l).Nodup →
      (∀ e ∈ l, unknownOutKey e.1 ∧ e.1.length < 2 ^ 63 ∧ e.2.length < 2 ^ 63) →
      (∀ e ∈ l, e.1 ∉ dkeys st.extra) →
      Steps (outStep O net) st l { st with extra := st.extra ++ l }
  | [], st, _, _, _ => by simpa using Steps.nil st
  | (k, v) :: r, st, hn, hwf, hfresh => by
    simp only [dkeys_cons, List.nodup_cons] at hn
    obtain ⟨hunk, hkl, hvl⟩ := hwf (k, v) (List.mem_cons_self ..)
    have hnot : k ∉ dkeys st.extra := hfresh (k, v) (List.mem_cons_self ..)
    have hne : k ≠ [] := by intro h; subst h; exact hunk
    refine Steps.cons hne hkl
      (fun ev rest he => outStep_unknown O net st hunk ((dget_eq_none_iff _ _).mpr hnot) hvl ev rest he) ?_
    have ih := steps_extra_out O net r { st with extra := dset st.extra k v } hn.2
      (fun e he => hwf e (List.mem_cons_of_mem _ he))
      (by
        intro e he
        simp only
        rw [dset_of_not_mem _ _ _ hnot]
        simp only [dkeys, List.map_append, List.map_cons, List.map_nil, List.mem_append, List.mem_singleton, not_or]
        refine ⟨hfresh e (List.mem_cons_of_mem _ he), ?_⟩
        intro heq
        exact hn.1 (heq ▸ List.mem_map.mpr ⟨e, he, rfl⟩))
    have key : dset st.extra k v = st.extra ++ [(k, v)] := dset_of_not_mem _ _ _ hnot
    show Steps (outStep O net) { st with extra := dset st.extra k v } _ _
    rw [key] at ih ⊢
    simpa [List.append_assoc] using ih

theorem out_tail_steps (O : Oracles) (net : Option Net) (n0 x0 : Dict Bytes) (hn : NamedWF O net n0)
    (hx : ExtraWF unknownOutKey x0) (st : POut) (h1 : st.namedPubs = []) (h2 : st.extra = []) :
    Steps (outStep O net) st
      ((sortedItems n0).map (fun e => (UInt8.ofNat Gen.psbtOutBip32Derivation :: e.1, e.2)) ++ sortedItems x0)
      { st with namedPubs := sortedItems n0, extra := sortedItems x0 } := by
  have s3 := steps_named_out O net (sortedItems n0) st (dnodup_sortedItems hn.nodup)
    (fun e he => ⟨(hn.sec e (mem_sortedItems he)).1, (hn.sec e (mem_sortedItems he)).2,
                  (hn.path e (mem_sortedItems he)).1, (hn.path e (mem_sortedItems he)).2⟩)
    (by intro e _; simp [h1])
  have s4 := steps_extra_out O net (sortedItems x0) { st with namedPubs := st.namedPubs ++ sortedItems n0 }
    (dnodup_sortedItems hx.nodup) (fun e he => hx.keys e (mem_sortedItems he)) (by intro e _; simp [h2])
  have := s3.append s4
  simpa [h1, h2] using this

/-- reading the pairs PSBTOut.serialize writes leads from the empty map to the normalised value -/
theorem out_entries_steps (O : Oracles) (net : Option Net) (p : POut) (wf : OutMapWF O net p)
    {es : List (Bytes × Bytes)} (he : p.entries = some es) :
    Steps (outStep O net) {} es (normOut p) := by
  obtain ⟨r0, w0, n0, x0⟩ := p
  have hnamed := wf.named
  have hextra := wf.extra
  simp only at hnamed hextra
  cases r0 with
  | none =>
    cases w0 with
    | none =>
      simp only [POut.entries, Option.pure_def, Option.bind_eq_bind, Option.bind_some, Option.some.injEq,
        List.nil_append] at he
      subst he
      exact out_tail_steps O net n0 x0 hnamed hextra {} rfl rfl
    | some w =>
      obtain ⟨raw, hraw, hl, hp⟩ := wf.witnessScript w rfl
      simp only [POut.entries, hraw, Option.map_some, Option.pure_def, Option.bind_eq_bind, Option.bind_some,
        Option.some.injEq, List.nil_append] at he
      subst he
      have s2 : Steps (outStep O net) ({} : POut) [([UInt8.ofNat Gen.psbtOutWitnessScript], raw)]
          { ({} : POut) with witnessScript := some w } :=
        Steps.cons (by simp) (by simp) (fun ev rest he => outStep_witnessScript O net {} rfl hraw hl hp ev rest he) (Steps.nil _)
      have := s2.append (out_tail_steps O net n0 x0 hnamed hextra { ({} : POut) with witnessScript := some w } rfl rfl)
      simpa [normOut, List.append_assoc] using this
  | some r =>
    obtain ⟨rraw, hrraw, hrl, hrp⟩ := wf.redeem r rfl
    have s1 : Steps (outStep O net) ({} : POut) [([UInt8.ofNat Gen.psbtOutRedeemScript], rraw)]
        { ({} : POut) with redeem := some r } :=
      Steps.cons (by simp) (by simp) (fun ev rest he => outStep_redeem O net {} rfl hrraw hrl hrp ev rest he) (Steps.nil _)
    cases w0 with
    | none =>
      simp only [POut.entries, hrraw, Option.map_some, Option.pure_def, Option.bind_eq_bind, Option.bind_some,
        Option.some.injEq, List.append_nil] at he
      subst he
      have := s1.append (out_tail_steps O net n0 x0 hnamed hextra { ({} : POut) with redeem := some r } rfl rfl)
      simpa [normOut, List.append_assoc] using this
    | some w =>
      obtain ⟨raw, hraw, hl, hp⟩ := wf.witnessScript w rfl
      simp only [POut.entries, hrraw, hraw, Option.map_some, Option.pure_def, Option.bind_eq_bind, Option.bind_some,
        Option.some.injEq] at he
      subst he
      have s2 : Steps (outStep O net) { ({} : POut) with redeem := some r } [([UInt8.ofNat Gen.psbtOutWitnessScript], raw)]
          { ({} : POut) with redeem := some r, witnessScript := some w } :=
        Steps.cons (by simp) (by simp)
          (fun ev rest he => outStep_witnessScript O net { ({} : POut) with redeem := some r } rfl hraw hl hp ev rest he) (Steps.nil _)
      have := (s1.append s2).append
        (out_tail_steps O net n0 x0 hnamed hextra { ({} : POut) with redeem := some r, witnessScript := some w } rfl rfl)
      simpa [normOut, List.append_assoc] using this

theorem normOut_entries (p : POut) (hn : DNodup p.namedPubs) (hx : DNodup p.extra) :
    (normOut p).entries = p.entries := by
  simp only [POut.entries, normOut, sortedItems_idem hn, sortedItems_idem hx]

/-- **Output map round trip.**  For a well-formed output map the parser reads the serialiser's bytes
    (followed by anything) back to the normalised map and leaves the continuation; the normalised map
    serialises to the same bytes. -/
theorem out_map_roundtrip (O : Oracles) (net : Option Net) (p : POut) (wf : OutMapWF O net p) {b : Bytes}
    (hb : p.serialize = some b) (rest : Bytes) :
    parseOutMap O net (b ++ rest) = some (normOut p, rest) ∧ (normOut p).serialize = some b := by
  unfold POut.serialize at hb
  cases hes : p.entries with
  | none => simp [hes] at hb
  | some es =>
    cases henc : encodeEntries es with
    | none => simp [hes, henc] at hb
    | some enc =>
      simp only [hes, henc, Option.pure_def, Option.bind_eq_bind, Option.bind_some, Option.some.injEq] at hb
      subst hb
      refine ⟨?_, ?_⟩
      · unfold parseOutMap
        exact kvLoop_roundtrip (out_entries_steps O net p wf hes) henc rest
      · simp [POut.serialize, normOut_entries p wf.named.nodup wf.extra.nodup, hes, henc]

/-! ## input maps -/

/-- key types an unknown input-map key must avoid (type 9, the proof-of-reserves commitment, is
    handled as an unknown by the code) -/
def unknownInKey (k : Bytes) : Prop :=
  match k with
  | [] => False
  | t :: _ => t.toNat ≠ Gen.psbtInNonWitnessUtxo ∧ t.toNat ≠ Gen.psbtInWitnessUtxo ∧ t.toNat ≠ Gen.psbtInPartialSig ∧
      t.toNat ≠ Gen.psbtInSighashType ∧ t.toNat ≠ Gen.psbtInRedeemScript ∧ t.toNat ≠ Gen.psbtInWitnessScript ∧
      t.toNat ≠ Gen.psbtInBip32Derivation ∧ t.toNat ≠ Gen.psbtInFinalScriptsig ∧ t.toNat ≠ Gen.psbtInFinalScriptwitness

section InSteps
variable {Tx : Type} (C : TxCodec Tx) (O : Oracles) (net : Option Net) (idx : Nat)

theorem inStep_nonWitnessUtxo (st : PIn Tx) {t : Tx} {b : Bytes} {o : TxOutV} (hst : st.prevTx = none)
    (hser : C.serialize t = some b) (hpar : ∀ rest, C.parse (b ++ rest) = some (t, rest))
    (ho : (C.outs t)[idx]? = some o) (ev rest : Bytes) (he : encodeVarstr b = some ev) :
    inStep C O net idx st [UInt8.ofNat Gen.psbtInNonWitnessUtxo] (ev ++ rest)
      = some ({ st with prevTx := some t, value := some o.amount }, rest) := by
  simp [inStep, keyLenOK, Gen.psbtInKeyLens, Gen.psbtInNonWitnessUtxo, req, hst, readVarint_enc he, hpar, hser, ho]

theorem inStep_witnessUtxo (st : PIn Tx) {o : TxOutV} {b : Bytes} (hst : st.prevOut = none)
    (hser : o.serialize = some b) (hpar : ∀ rest, TxOutV.parse (b ++ rest) = some (o, rest))
    (ev rest : Bytes) (he : encodeVarstr b = some ev) :
    inStep C O net idx st [UInt8.ofNat Gen.psbtInWitnessUtxo] (ev ++ rest)
      = some ({ st with prevOut := some o, value := some o.amount }, rest) := by
  simp [inStep, keyLenOK, Gen.psbtInKeyLens, Gen.psbtInNonWitnessUtxo, Gen.psbtInWitnessUtxo, req, hst,
    readVarint_enc he, hpar, hser]

theorem inStep_sig (st : PIn Tx) {k v : Bytes} (hnew : dget st.sigs k = none) (hl : v.length < 2 ^ 63)
    (ev rest : Bytes) (he : encodeVarstr v = some ev) :
    inStep C O net idx st (UInt8.ofNat Gen.psbtInPartialSig :: k) (ev ++ rest)
      = some ({ st with sigs := dset st.sigs k v }, rest) := by
  simp [inStep, keyLenOK, Gen.psbtInKeyLens, Gen.psbtInNonWitnessUtxo, Gen.psbtInWitnessUtxo, Gen.psbtInPartialSig,
    req, dtruthy, hnew, readVarstr_enc hl he]

theorem inStep_sighash (st : PIn Tx) {n : Nat} {b : Bytes} (hst : hashTypeTruthy st.hashType = false)
    (hb : natToLE n Gen.psbtHashTypeWidth = some b) (ev rest : Bytes) (he : encodeVarstr b = some ev) :
    inStep C O net idx st [UInt8.ofNat Gen.psbtInSighashType] (ev ++ rest)
      = some ({ st with hashType := some n }, rest) := by
  have hl : b.length < 2 ^ 63 := by rw [natToLE_length hb]; decide
  simp [inStep, keyLenOK, Gen.psbtInKeyLens, Gen.psbtInNonWitnessUtxo, Gen.psbtInWitnessUtxo, Gen.psbtInPartialSig,
    Gen.psbtInSighashType, req, hst, readVarstr_enc hl he, leToNat_of_natToLE hb]

theorem inStep_redeem (st : PIn Tx) {r : Script} {raw : Bytes} (hst : st.redeem = none)
    (hr : rawOf r = some raw) (hl : raw.length < 2 ^ 63) (hp : Script.parseRaw raw = r)
    (ev rest : Bytes) (he : encodeVarstr raw = some ev) :
    inStep C O net idx st [UInt8.ofNat Gen.psbtInRedeemScript] (ev ++ rest) = some ({ st with redeem := some r }, rest) := by
  simp [inStep, keyLenOK, Gen.psbtInKeyLens, Gen.psbtInNonWitnessUtxo, Gen.psbtInWitnessUtxo, Gen.psbtInPartialSig,
    Gen.psbtInSighashType, Gen.psbtInRedeemScript, req, hst, scriptParse_enc hr hl hp he]

theorem inStep_witnessScript (st : PIn Tx) {r : Script} {raw : Bytes} (hst : st.witnessScript = none)
    (hr : rawOf r = some raw) (hl : raw.length < 2 ^ 63) (hp : Script.parseRaw raw = r)
    (ev rest : Bytes) (he : encodeVarstr raw = some ev) :
    inStep C O net idx st [UInt8.ofNat Gen.psbtInWitnessScript] (ev ++ rest)
      = some ({ st with witnessScript := some r }, rest) := by
  simp [inStep, keyLenOK, Gen.psbtInKeyLens, Gen.psbtInNonWitnessUtxo, Gen.psbtInWitnessUtxo, Gen.psbtInPartialSig,
    Gen.psbtInSighashType, Gen.psbtInRedeemScript, Gen.psbtInWitnessScript, req, hst, scriptParse_enc hr hl hp he]

theorem inStep_named (st : PIn Tx) {sec rp : Bytes} (hlen : sec.length = 33) (hs : O.secOK sec = true)
    (hl : rp.length < 2 ^ 63) (hn : (namedNetwork net rp).isSome = true) (ev rest : Bytes)
    (he : encodeVarstr rp = some ev) :
    inStep C O net idx st (UInt8.ofNat Gen.psbtInBip32Derivation :: sec) (ev ++ rest)
      = some ({ st with namedPubs := dset st.namedPubs sec rp }, rest) := by
  simp [inStep, keyLenOK, Gen.psbtInKeyLens, Gen.psbtInNonWitnessUtxo, Gen.psbtInWitnessUtxo, Gen.psbtInPartialSig,
    Gen.psbtInSighashType, Gen.psbtInRedeemScript, Gen.psbtInWitnessScript, Gen.psbtInBip32Derivation, hlen,
    parseNamedPub_enc O net _ hs hl hn he]

theorem inStep_scriptSig (st : PIn Tx) {r : Script} {raw : Bytes} (hst : st.scriptSig = none)
    (hr : rawOf r = some raw) (hl : raw.length < 2 ^ 63) (hp : Script.parseRaw raw = r)
    (ev rest : Bytes) (he : encodeVarstr raw = some ev) :
    inStep C O net idx st [UInt8.ofNat Gen.psbtInFinalScriptsig] (ev ++ rest)
      = some ({ st with scriptSig := some r }, rest) := by
  simp [inStep, keyLenOK, Gen.psbtInKeyLens, Gen.psbtInNonWitnessUtxo, Gen.psbtInWitnessUtxo, Gen.psbtInPartialSig,
    Gen.psbtInSighashType, Gen.psbtInRedeemScript, Gen.psbtInWitnessScript, Gen.psbtInBip32Derivation,
    Gen.psbtInFinalScriptsig, req, hst, scriptParse_enc hr hl hp he]

theorem parseItems_serItems : ∀ (items : List Bytes) (b rest : Bytes), (∀ i ∈ items, i.length < 2 ^ 63) →
    serItems items = some b → parseItems items.length (b ++ rest) = some (items, rest)
  | [], b, rest, _, h => by
    simp only [serItems, Option.some.injEq] at h; subst h; simp [parseItems]
  | i :: r, b, rest, hl, h => by
    simp only [serItems, Option.pure_def, Option.bind_eq_bind] at h
    cases hi : encodeVarstr i with
    | none => simp [hi] at h
    | some ei =>
      cases hr : serItems r with
      | none => simp [hi, hr] at h
      | some br =>
        simp only [hi, hr, Option.bind_some, Option.some.injEq] at h
        subst h
        have := parseItems_serItems r br rest (fun x hx => hl x (List.mem_cons_of_mem _ hx)) hr
        simp [parseItems, List.append_assoc, readVarstr_enc (hl i (List.mem_cons_self ..)) hi, this]

theorem witnessParse_serialize {items : List Bytes} {b : Bytes} (hl : ∀ i ∈ items, i.length < 2 ^ 63)
    (h : witnessSerialize items = some b) (rest : Bytes) : witnessParse (b ++ rest) = some (items, rest) := by
  simp only [witnessSerialize, Option.pure_def, Option.bind_eq_bind] at h
  cases hn : encodeVarint items.length with
  | none => simp [hn] at h
  | some en =>
    cases hs : serItems items with
    | none => simp [hn, hs] at h
    | some bs =>
      simp only [hn, hs, Option.bind_some, Option.some.injEq] at h
      subst h
      simp [witnessParse, List.append_assoc, readVarint_encodeVarint _ _ _ hn, parseItems_serItems items bs rest hl hs]

theorem inStep_witness (st : PIn Tx) {items : List Bytes} {b : Bytes} (hst : witnessTruthy st.witness = false)
    (hl : ∀ i ∈ items, i.length < 2 ^ 63) (hb : witnessSerialize items = some b)
    (ev rest : Bytes) (he : encodeVarstr b = some ev) :
    inStep C O net idx st [UInt8.ofNat Gen.psbtInFinalScriptwitness] (ev ++ rest)
      = some ({ st with witness := some items }, rest) := by
  simp [inStep, keyLenOK, Gen.psbtInKeyLens, Gen.psbtInNonWitnessUtxo, Gen.psbtInWitnessUtxo, Gen.psbtInPartialSig,
    Gen.psbtInSighashType, Gen.psbtInRedeemScript, Gen.psbtInWitnessScript, Gen.psbtInBip32Derivation,
    Gen.psbtInFinalScriptsig, Gen.psbtInFinalScriptwitness, req, hst, readVarint_enc he,
    witnessParse_serialize hl hb]

theorem inStep_unknown (st : PIn Tx) {k v : Bytes} (hk : unknownInKey k) (hnew : dget st.extra k = none)
    (hl : v.length < 2 ^ 63) (ev rest : Bytes) (he : encodeVarstr v = some ev) :
    inStep C O net idx st k (ev ++ rest) = some ({ st with extra := dset st.extra k v }, rest) := by
  cases k with
  | nil => exact absurd hk (by simp [unknownInKey])
  | cons t tl =>
    obtain ⟨h0, h1, h2, h3, h4, h5, h6, h7, h8⟩ := hk
    simp only [Gen.psbtInNonWitnessUtxo, Gen.psbtInWitnessUtxo, Gen.psbtInPartialSig, Gen.psbtInSighashType,
      Gen.psbtInRedeemScript, Gen.psbtInWitnessScript, Gen.psbtInBip32Derivation, Gen.psbtInFinalScriptsig,
      Gen.psbtInFinalScriptwitness] at h0 h1 h2 h3 h4 h5 h6 h7 h8
    have hlen : keyLenOK Gen.psbtInKeyLens t.toNat (t :: tl) = true := by
      simp [keyLenOK, Gen.psbtInKeyLens, List.find?, Ne.symm h0, Ne.symm h1, Ne.symm h3, Ne.symm h4, Ne.symm h5,
        Ne.symm h6, Ne.symm h7, Ne.symm h8]
    simp [inStep, hlen, Gen.psbtInNonWitnessUtxo, Gen.psbtInWitnessUtxo, Gen.psbtInPartialSig, Gen.psbtInSighashType,
      Gen.psbtInRedeemScript, Gen.psbtInWitnessScript, Gen.psbtInBip32Derivation, Gen.psbtInFinalScriptsig,
      Gen.psbtInFinalScriptwitness, h0, h1, h2, h3, h4, h5, h6, h7, h8, req, dtruthy, hnew, readVarstr_enc hl he]

end InSteps

/-! ### well-formedness and the normal form of an input map -/

/-- the signatures the serialiser writes, as a dict in emission order -/
def sigsWritten {Tx : Type} (p : PIn Tx) : Dict Bytes :=
  (sigKeyOrder p).filterMap fun k => (dget p.sigs k).map fun v => (k, v)

structure InMapWF {Tx : Type} (C : TxCodec Tx) (O : Oracles) (net : Option Net) (idx : Nat) (p : PIn Tx) : Prop where
  /-- the non-witness UTXO re-parses from its serialisation and has the spent output (transaction codec: C04) -/
  prevTx : ∀ t, p.prevTx = some t → ∃ b o, C.serialize t = some b ∧ (∀ rest, C.parse (b ++ rest) = some (t, rest)) ∧
      (C.outs t)[idx]? = some o
  prevOut : ∀ o, p.prevOut = some o → p.prevTx = none →
      ∃ b, o.serialize = some b ∧ ∀ rest, TxOutV.parse (b ++ rest) = some (o, rest)
  sigs : DNodup p.sigs
  /-- no key is written twice: a script that repeats a signed key makes the serialisation unparseable -/
  sigOrder : (sigKeyOrder p).Nodup
  sigLen : ∀ e ∈ p.sigs, e.1.length + 1 < 2 ^ 63 ∧ e.2.length < 2 ^ 63
  redeem : ∀ r, p.redeem = some r → ScriptCanon r
  witnessScript : ∀ r, p.witnessScript = some r → ScriptCanon r
  scriptSig : ∀ r, p.scriptSig = some r → ScriptCanon r
  named : NamedWF O net p.namedPubs
  witness : ∀ w, p.witness = some w → ∀ i ∈ w, i.length < 2 ^ 63
  extra : ExtraWF unknownInKey p.extra

/-- what the parser returns for the serialisation of `p` (`idx` = the spent output's index) -/
def normIn {Tx : Type} (C : TxCodec Tx) (idx : Nat) (p : PIn Tx) : PIn Tx :=
  { prevTx := p.prevTx
    prevOut := if p.prevTx.isSome then none else p.prevOut
    sigs := sigsWritten p
    hashType := if hashTypeTruthy p.hashType then p.hashType else none
    redeem := p.redeem
    witnessScript := p.witnessScript
    namedPubs := sortedItems p.namedPubs
    scriptSig := p.scriptSig
    witness := if witnessTruthy p.witness then p.witness else none
    extra := sortedItems p.extra
    value := match p.prevTx with
      | some t => ((C.outs t)[idx]?).map (·.amount)
      | none => p.prevOut.map (·.amount) }

section InRoundtrip
variable {Tx : Type} (C : TxCodec Tx) (O : Oracles) (net : Option Net) (idx : Nat)

theorem steps_sigs_in :
    ∀ (l : Dict Bytes) (st : PIn Tx), (dkeys l).Nodup →
      (∀ e ∈ l, e.1.length + 1 < 2 ^ 63 ∧ e.2.length < 2 ^ 63) → (∀ e ∈ l, e.1 ∉ dkeys st.sigs) →
      Steps (inStep C O net idx) st (l.map fun e => (UInt8.ofNat Gen.psbtInPartialSig :: e.1, e.2))
        { st with sigs := st.sigs ++ l }
  | [], st, _, _, _ => by simpa using Steps.nil st
  | (k, v) :: r, st, hn, hwf, hfresh => by
    simp only [dkeys_cons, List.nodup_cons] at hn
    obtain ⟨hkl, hvl⟩ := hwf (k, v) (List.mem_cons_self ..)
    have hnot : k ∉ dkeys st.sigs := hfresh (k, v) (List.mem_cons_self ..)
    simp only [List.map_cons]
    refine Steps.cons (by simp) (by simpa using hkl)
      (fun ev rest he => inStep_sig C O net idx st ((dget_eq_none_iff _ _).mpr hnot) hvl ev rest he) ?_
    have ih := steps_sigs_in r { st with sigs := dset st.sigs k v } hn.2
      (fun e he => hwf e (List.mem_cons_of_mem _ he))
      (by
        intro e he
        simp only
        rw [dset_of_not_mem _ _ _ hnot]
        simp only [dkeys, List.map_append, List.map_cons, List.map_nil, List.mem_append, List.mem_singleton, not_or]
        refine ⟨hfresh e (List.mem_cons_of_mem _ he), ?_⟩
        intro heq
        exact hn.1 (heq ▸ List.mem_map.mpr ⟨e, he, rfl⟩))
    have key : dset st.sigs k v = st.sigs ++ [(k, v)] := dset_of_not_mem _ _ _ hnot
    show Steps (inStep C O net idx) { st with sigs := dset st.sigs k v } _ _
    rw [key] at ih ⊢
    simpa [List.append_assoc] using ih

theorem steps_named_in :
    ∀ (l : Dict Bytes) (st : PIn Tx), (dkeys l).Nodup →
      (∀ e ∈ l, e.1.length = 33 ∧ O.secOK e.1 = true ∧ e.2.length < 2 ^ 63 ∧ (namedNetwork net e.2).isSome = true) →
      (∀ e ∈ l, e.1 ∉ dkeys st.namedPubs) →
      Steps (inStep C O net idx) st (l.map fun e => (UInt8.ofNat Gen.psbtInBip32Derivation :: e.1, e.2))
        { st with namedPubs := st.namedPubs ++ l }
  | [], st, _, _, _ => by simpa using Steps.nil st
  | (sec, rp) :: r, st, hn, hwf, hfresh => by
    simp only [dkeys_cons, List.nodup_cons] at hn
    obtain ⟨h33, hsec, hrl, hnet⟩ := hwf (sec, rp) (List.mem_cons_self ..)
    have hnot : sec ∉ dkeys st.namedPubs := hfresh (sec, rp) (List.mem_cons_self ..)
    simp only [List.map_cons]
    refine Steps.cons (by simp) (by simp [h33])
      (fun ev rest he => inStep_named C O net idx st h33 hsec hrl hnet ev rest he) ?_
    have ih := steps_named_in r { st with namedPubs := dset st.namedPubs sec rp } hn.2
      (fun e he => hwf e (List.mem_cons_of_mem _ he))
      (by
        intro e he
        simp only
        rw [dset_of_not_mem _ _ _ hnot]
        simp only [dkeys, List.map_append, List.map_cons, List.map_nil, List.mem_append, List.mem_singleton, not_or]
        refine ⟨hfresh e (List.mem_cons_of_mem _ he), ?_⟩
        intro heq
        exact hn.1 (heq ▸ List.mem_map.mpr ⟨e, he, rfl⟩))
    have key : dset st.namedPubs sec rp = st.namedPubs ++ [(sec, rp)] := dset_of_not_mem _ _ _ hnot
    show Steps (inStep C O net idx) { st with namedPubs := dset st.namedPubs sec rp } _ _
    rw [key] at ih ⊢
    simpa [List.append_assoc] using ih

theorem steps_extra_in :
    ∀ (l : Dict Bytes) (st : PIn Tx), (dkeys l).Nodup →
      (∀ e ∈ l, unknownInKey e.1 ∧ e.1.length < 2 ^ 63 ∧ e.2.length < 2 ^ 63) →
      (∀ e ∈ l, e.1 ∉ dkeys st.extra) →
      Steps (inStep C O net idx) st l { st with extra := st.extra ++ l }
  | [], st, _, _, _ => by simpa using Steps.nil st
  | (k, v) :: r, st, hn, hwf, hfresh => by
    simp only [dkeys_cons, List.nodup_cons] at hn
    obtain ⟨hunk, hkl, hvl⟩ := hwf (k, v) (List.mem_cons_self ..)
    have hnot : k ∉ dkeys st.extra := hfresh (k, v) (List.mem_cons_self ..)
    have hne : k ≠ [] := by intro h; subst h; exact hunk
    refine Steps.cons hne hkl
      (fun ev rest he => inStep_unknown C O net idx st hunk ((dget_eq_none_iff _ _).mpr hnot) hvl ev rest he) ?_
    have ih := steps_extra_in r { st with extra := dset st.extra k v } hn.2
      (fun e he => hwf e (List.mem_cons_of_mem _ he))
      (by
        intro e he
        simp only
        rw [dset_of_not_mem _ _ _ hnot]
        simp only [dkeys, List.map_append, List.map_cons, List.map_nil, List.mem_append, List.mem_singleton, not_or]
        refine ⟨hfresh e (List.mem_cons_of_mem _ he), ?_⟩
        intro heq
        exact hn.1 (heq ▸ List.mem_map.mpr ⟨e, he, rfl⟩))
    have key : dset st.extra k v = st.extra ++ [(k, v)] := dset_of_not_mem _ _ _ hnot
    show Steps (inStep C O net idx) { st with extra := dset st.extra k v } _ _
    rw [key] at ih ⊢
    simpa [List.append_assoc] using ih

/-- the `mapM` that collects the signature entries, made explicit -/
theorem sig_mapM_eq {d : Dict Bytes} : ∀ (L : List Bytes) (es : List (Bytes × Bytes)),
    (L.mapM fun k => (dget d k).map fun v => (UInt8.ofNat Gen.psbtInPartialSig :: k, v)) = some es →
    es = (L.filterMap fun k => (dget d k).map fun v => (k, v)).map
           (fun e => (UInt8.ofNat Gen.psbtInPartialSig :: e.1, e.2))
  | [], es, h => by simp at h; simp [h]
  | k :: r, es, h => by
    rw [List.mapM_cons] at h
    cases hk : dget d k with
    | none => simp [hk] at h
    | some v =>
      cases hr : (r.mapM fun k => (dget d k).map fun v => (UInt8.ofNat Gen.psbtInPartialSig :: k, v)) with
      | none => simp [hk, hr] at h
      | some es' =>
        simp only [hk, hr, Option.map_some, Option.pure_def, Option.bind_eq_bind, Option.bind_some,
          Option.some.injEq] at h
        subst h
        simp [List.filterMap_cons, hk, sig_mapM_eq r es' hr]

theorem dkeys_filterMap_sub {d : Dict Bytes} (L : List Bytes) :
    dkeys (L.filterMap fun k => (dget d k).map fun v => (k, v)) = L.filter fun k => (dget d k).isSome := by
  induction L with
  | nil => rfl
  | cons k r ih =>
    cases hk : dget d k with
    | none => simp [List.filterMap_cons, hk, List.filter_cons, ih]
    | some v => simp [List.filterMap_cons, hk, List.filter_cons, ih]

theorem mem_sigsWritten {p : PIn Tx} {e : Bytes × Bytes} (h : e ∈ sigsWritten p) : e ∈ p.sigs := by
  unfold sigsWritten at h
  rw [List.mem_filterMap] at h
  obtain ⟨k, _, hk⟩ := h
  cases hg : dget p.sigs k with
  | none => simp [hg] at hk
  | some v =>
    simp only [hg, Option.map_some, Option.some.injEq] at hk
    subst hk
    exact dget_some_mem hg

theorem sigsWritten_nodup {p : PIn Tx} (h : (sigKeyOrder p).Nodup) : DNodup (sigsWritten p) := by
  unfold DNodup sigsWritten
  rw [dkeys_filterMap_sub]
  exact h.filter _

end InRoundtrip

/-! ### the segments PSBTIn.serialize writes -/

section InSegments
variable {Tx : Type} (C : TxCodec Tx)

def segUtxo (p : PIn Tx) : Option (List (Bytes × Bytes)) :=
  match p.prevTx with
  | some t => do let b ← C.serialize t; pure [([UInt8.ofNat Gen.psbtInNonWitnessUtxo], b)]
  | none => match p.prevOut with
    | some o => do let b ← o.serialize; pure [([UInt8.ofNat Gen.psbtInWitnessUtxo], b)]
    | none => pure []

def segSigs (p : PIn Tx) : Option (List (Bytes × Bytes)) :=
  (sigKeyOrder p).mapM fun k => (dget p.sigs k).map fun v => (UInt8.ofNat Gen.psbtInPartialSig :: k, v)

def segHashType (p : PIn Tx) : Option (List (Bytes × Bytes)) :=
  if hashTypeTruthy p.hashType then
    (natToLE (p.hashType.getD 0) Gen.psbtHashTypeWidth).map fun b => [([UInt8.ofNat Gen.psbtInSighashType], b)]
  else some []

def segScript (ty : Nat) (s : Option Script) : Option (List (Bytes × Bytes)) :=
  match s with
  | some r => (rawOf r).map fun b => [([UInt8.ofNat ty], b)]
  | none => some []

def segWitness (p : PIn Tx) : Option (List (Bytes × Bytes)) :=
  if witnessTruthy p.witness then
    (witnessSerialize (p.witness.getD [])).map fun b => [([UInt8.ofNat Gen.psbtInFinalScriptwitness], b)]
  else some []

def segNamedIn (p : PIn Tx) : List (Bytes × Bytes) :=
  (sortedItems p.namedPubs).map fun e => (UInt8.ofNat Gen.psbtInBip32Derivation :: e.1, e.2)

theorem entries_eq_segments (p : PIn Tx) :
    p.entries C = (do
      let utxo ← segUtxo C p
      let sigs ← segSigs p
      let ht ← segHashType p
      let rs ← segScript Gen.psbtInRedeemScript p.redeem
      let ws ← segScript Gen.psbtInWitnessScript p.witnessScript
      let ss ← segScript Gen.psbtInFinalScriptsig p.scriptSig
      let wit ← segWitness p
      pure (utxo ++ sigs ++ ht ++ rs ++ ws ++ segNamedIn p ++ ss ++ wit ++ sortedItems p.extra)) := by
  obtain ⟨pt, po, sg, ht, rd, wsr, nm, ssg, wt, ex, vl⟩ := p
  unfold PIn.entries segUtxo segSigs segHashType segScript segWitness segNamedIn
  by_cases h1 : hashTypeTruthy ht = true <;> by_cases h2 : witnessTruthy wt = true <;>
    cases pt <;> cases po <;> cases rd <;> cases wsr <;> cases ssg <;>
    simp only [h1, h2, if_true, if_false, Bool.false_eq_true, Option.pure_def, Option.bind_eq_bind,
      Option.bind_assoc, Option.bind_some]

end InSegments

section InMain
variable {Tx : Type} (C : TxCodec Tx) (O : Oracles) (net : Option Net) (idx : Nat)

theorem steps_segUtxo {p : PIn Tx} (wf : InMapWF C O net idx p) {l : List (Bytes × Bytes)} (h : segUtxo C p = some l)
    (st : PIn Tx) (h1 : st.prevTx = none) (h2 : st.prevOut = none) (h3 : st.value = none) :
    Steps (inStep C O net idx) st l
      { st with prevTx := p.prevTx, prevOut := (normIn C idx p).prevOut, value := (normIn C idx p).value } := by
  unfold segUtxo at h
  cases hpt : p.prevTx with
  | some t =>
    obtain ⟨b, o, hser, hpar, ho⟩ := wf.prevTx t hpt
    simp only [hpt, hser, Option.pure_def, Option.bind_eq_bind, Option.bind_some, Option.some.injEq] at h
    subst h
    have hs := inStep_nonWitnessUtxo C O net idx st h1 hser hpar ho
    have : ({ st with prevTx := some t, value := some o.amount } : PIn Tx) =
        { st with prevTx := some t, prevOut := (normIn C idx p).prevOut, value := (normIn C idx p).value } := by
      cases st; simp only at h2; subst h2; simp [normIn, hpt, ho]
    rw [← this]
    exact Steps.cons (by simp) (by simp) hs (Steps.nil _)
  | none =>
    cases hpo : p.prevOut with
    | some o =>
      obtain ⟨b, hser, hpar⟩ := wf.prevOut o hpo hpt
      simp only [hpt, hpo, hser, Option.pure_def, Option.bind_eq_bind, Option.bind_some, Option.some.injEq] at h
      subst h
      have hs := inStep_witnessUtxo C O net idx st h2 hser hpar
      have : ({ st with prevOut := some o, value := some o.amount } : PIn Tx) =
          { st with prevTx := none, prevOut := (normIn C idx p).prevOut, value := (normIn C idx p).value } := by
        cases st; simp only at h1; subst h1; simp [normIn, hpt, hpo]
      rw [← this]
      exact Steps.cons (by simp) (by simp) hs (Steps.nil _)
    | none =>
      simp only [hpt, hpo, Option.pure_def, Option.some.injEq] at h
      subst h
      have : st = { st with prevTx := none, prevOut := (normIn C idx p).prevOut, value := (normIn C idx p).value } := by
        cases st; simp only at h1 h2 h3; subst h1; subst h2; subst h3; simp [normIn, hpt, hpo]
      rw [← this]
      exact Steps.nil _

theorem steps_segSigs {p : PIn Tx} (wf : InMapWF C O net idx p) {l : List (Bytes × Bytes)} (h : segSigs p = some l)
    (st : PIn Tx) (h1 : st.sigs = []) :
    Steps (inStep C O net idx) st l { st with sigs := sigsWritten p } := by
  have hl := sig_mapM_eq (sigKeyOrder p) l h
  subst hl
  have := steps_sigs_in C O net idx (sigsWritten p) st (sigsWritten_nodup wf.sigOrder)
    (fun e he => wf.sigLen e (mem_sigsWritten he)) (by intro e _; simp [h1])
  simpa [h1, sigsWritten] using this

theorem steps_segHashType {p : PIn Tx} {l : List (Bytes × Bytes)} (h : segHashType p = some l)
    (st : PIn Tx) (h1 : st.hashType = none) :
    Steps (inStep C O net idx) st l { st with hashType := (normIn C idx p).hashType } := by
  unfold segHashType at h
  by_cases ht : hashTypeTruthy p.hashType = true
  · rw [if_pos ht] at h
    cases hh : p.hashType with
    | none => rw [hh] at ht; simp [hashTypeTruthy] at ht
    | some n =>
      rw [hh] at h
      simp only [Option.getD_some] at h
      cases hb : natToLE n Gen.psbtHashTypeWidth with
      | none => simp [hb] at h
      | some b =>
        simp only [hb, Option.map_some, Option.some.injEq] at h
        subst h
        have hs := inStep_sighash C O net idx st (by simp [h1, hashTypeTruthy]) hb
        have : (normIn C idx p).hashType = some n := by simp only [normIn]; rw [if_pos ht, hh]
        rw [this]
        exact Steps.cons (by simp) (by simp) hs (Steps.nil _)
  · rw [if_neg ht] at h
    simp only [Option.some.injEq] at h
    subst h
    have : st = { st with hashType := (normIn C idx p).hashType } := by
      cases st; simp only at h1; subst h1; simp [normIn, ht]
    rw [← this]
    exact Steps.nil _

theorem steps_segRedeem {p : PIn Tx} (wf : InMapWF C O net idx p) {l : List (Bytes × Bytes)}
    (h : segScript Gen.psbtInRedeemScript p.redeem = some l) (st : PIn Tx) (h1 : st.redeem = none) :
    Steps (inStep C O net idx) st l { st with redeem := p.redeem } := by
  unfold segScript at h
  cases hr : p.redeem with
  | none =>
    simp only [hr, Option.some.injEq] at h; subst h
    have : st = { st with redeem := none } := by cases st; simp only at h1; subst h1; rfl
    rw [← this]; exact Steps.nil _
  | some r =>
    obtain ⟨raw, hraw, hl, hp⟩ := wf.redeem r hr
    simp only [hr, hraw, Option.map_some, Option.some.injEq] at h; subst h
    exact Steps.cons (by simp) (by simp) (inStep_redeem C O net idx st h1 hraw hl hp) (Steps.nil _)

theorem steps_segWitnessScript {p : PIn Tx} (wf : InMapWF C O net idx p) {l : List (Bytes × Bytes)}
    (h : segScript Gen.psbtInWitnessScript p.witnessScript = some l) (st : PIn Tx) (h1 : st.witnessScript = none) :
    Steps (inStep C O net idx) st l { st with witnessScript := p.witnessScript } := by
  unfold segScript at h
  cases hr : p.witnessScript with
  | none =>
    simp only [hr, Option.some.injEq] at h; subst h
    have : st = { st with witnessScript := none } := by cases st; simp only at h1; subst h1; rfl
    rw [← this]; exact Steps.nil _
  | some r =>
    obtain ⟨raw, hraw, hl, hp⟩ := wf.witnessScript r hr
    simp only [hr, hraw, Option.map_some, Option.some.injEq] at h; subst h
    exact Steps.cons (by simp) (by simp) (inStep_witnessScript C O net idx st h1 hraw hl hp) (Steps.nil _)

theorem steps_segScriptSig {p : PIn Tx} (wf : InMapWF C O net idx p) {l : List (Bytes × Bytes)}
    (h : segScript Gen.psbtInFinalScriptsig p.scriptSig = some l) (st : PIn Tx) (h1 : st.scriptSig = none) :
    Steps (inStep C O net idx) st l { st with scriptSig := p.scriptSig } := by
  unfold segScript at h
  cases hr : p.scriptSig with
  | none =>
    simp only [hr, Option.some.injEq] at h; subst h
    have : st = { st with scriptSig := none } := by cases st; simp only at h1; subst h1; rfl
    rw [← this]; exact Steps.nil _
  | some r =>
    obtain ⟨raw, hraw, hl, hp⟩ := wf.scriptSig r hr
    simp only [hr, hraw, Option.map_some, Option.some.injEq] at h; subst h
    exact Steps.cons (by simp) (by simp) (inStep_scriptSig C O net idx st h1 hraw hl hp) (Steps.nil _)

theorem steps_segNamed {p : PIn Tx} (wf : InMapWF C O net idx p) (st : PIn Tx) (h1 : st.namedPubs = []) :
    Steps (inStep C O net idx) st (segNamedIn p) { st with namedPubs := sortedItems p.namedPubs } := by
  have hn := wf.named
  have := steps_named_in C O net idx (sortedItems p.namedPubs) st (dnodup_sortedItems hn.nodup)
    (fun e he => ⟨(hn.sec e (mem_sortedItems he)).1, (hn.sec e (mem_sortedItems he)).2,
                  (hn.path e (mem_sortedItems he)).1, (hn.path e (mem_sortedItems he)).2⟩)
    (by intro e _; simp [h1])
  simpa [h1, segNamedIn] using this

theorem steps_segWitness {p : PIn Tx} (wf : InMapWF C O net idx p) {l : List (Bytes × Bytes)} (h : segWitness p = some l)
    (st : PIn Tx) (h1 : st.witness = none) :
    Steps (inStep C O net idx) st l { st with witness := (normIn C idx p).witness } := by
  unfold segWitness at h
  by_cases ht : witnessTruthy p.witness = true
  · rw [if_pos ht] at h
    cases hh : p.witness with
    | none => rw [hh] at ht; simp [witnessTruthy] at ht
    | some w =>
      rw [hh] at h
      simp only [Option.getD_some] at h
      cases hb : witnessSerialize w with
      | none => simp [hb] at h
      | some b =>
        simp only [hb, Option.map_some, Option.some.injEq] at h
        subst h
        have hs := inStep_witness C O net idx st (by simp [h1, witnessTruthy]) (wf.witness w hh) hb
        have : (normIn C idx p).witness = some w := by simp only [normIn]; rw [if_pos ht, hh]
        rw [this]
        exact Steps.cons (by simp) (by simp) hs (Steps.nil _)
  · rw [if_neg ht] at h
    simp only [Option.some.injEq] at h
    subst h
    have : st = { st with witness := (normIn C idx p).witness } := by
      cases st; simp only at h1; subst h1; simp [normIn, ht]
    rw [← this]
    exact Steps.nil _

theorem steps_segExtra {p : PIn Tx} (wf : InMapWF C O net idx p) (st : PIn Tx) (h1 : st.extra = []) :
    Steps (inStep C O net idx) st (sortedItems p.extra) { st with extra := sortedItems p.extra } := by
  have hx := wf.extra
  have := steps_extra_in C O net idx (sortedItems p.extra) st (dnodup_sortedItems hx.nodup)
    (fun e he => hx.keys e (mem_sortedItems he)) (by intro e _; simp [h1])
  simpa [h1] using this

/-- the parser state after the first `k` segments of the serialisation of `p` -/
def stageIn (p : PIn Tx) (k : Nat) : PIn Tx :=
  let n := normIn C idx p
  { prevTx := if 1 ≤ k then n.prevTx else none
    prevOut := if 1 ≤ k then n.prevOut else none
    value := if 1 ≤ k then n.value else none
    sigs := if 2 ≤ k then n.sigs else []
    hashType := if 3 ≤ k then n.hashType else none
    redeem := if 4 ≤ k then n.redeem else none
    witnessScript := if 5 ≤ k then n.witnessScript else none
    namedPubs := if 6 ≤ k then n.namedPubs else []
    scriptSig := if 7 ≤ k then n.scriptSig else none
    witness := if 8 ≤ k then n.witness else none
    extra := if 9 ≤ k then n.extra else [] }

/-- reading the pairs PSBTIn.serialize writes leads from the empty map to the normalised value -/
theorem in_entries_steps (p : PIn Tx) (wf : InMapWF C O net idx p) {es : List (Bytes × Bytes)}
    (he : p.entries C = some es) : Steps (inStep C O net idx) {} es (normIn C idx p) := by
  rw [entries_eq_segments] at he
  simp only [Option.pure_def, Option.bind_eq_bind] at he
  cases h1 : segUtxo C p with
  | none => simp [h1] at he
  | some l1 =>
  cases h2 : segSigs p with
  | none => simp [h1, h2] at he
  | some l2 =>
  cases h3 : segHashType p with
  | none => simp [h1, h2, h3] at he
  | some l3 =>
  cases h4 : segScript Gen.psbtInRedeemScript p.redeem with
  | none => simp [h1, h2, h3, h4] at he
  | some l4 =>
  cases h5 : segScript Gen.psbtInWitnessScript p.witnessScript with
  | none => simp [h1, h2, h3, h4, h5] at he
  | some l5 =>
  cases h7 : segScript Gen.psbtInFinalScriptsig p.scriptSig with
  | none => simp [h1, h2, h3, h4, h5, h7] at he
  | some l7 =>
  cases h8 : segWitness p with
  | none => simp [h1, h2, h3, h4, h5, h7, h8] at he
  | some l8 =>
  simp only [h1, h2, h3, h4, h5, h7, h8, Option.bind_some, Option.some.injEq] at he
  subst he
  have s1 := steps_segUtxo C O net idx wf h1 {} rfl rfl rfl
  have s2 := steps_segSigs C O net idx wf h2 (stageIn C idx p 1) rfl
  have s3 := steps_segHashType C O net idx h3 (stageIn C idx p 2) rfl
  have s4 := steps_segRedeem C O net idx wf h4 (stageIn C idx p 3) rfl
  have s5 := steps_segWitnessScript C O net idx wf h5 (stageIn C idx p 4) rfl
  have s6 := steps_segNamed C O net idx wf (stageIn C idx p 5) rfl
  have s7 := steps_segScriptSig C O net idx wf h7 (stageIn C idx p 6) rfl
  have s8 := steps_segWitness C O net idx wf h8 (stageIn C idx p 7) rfl
  have s9 := steps_segExtra C O net idx wf (stageIn C idx p 8) rfl
  have e1 : Steps (inStep C O net idx) {} l1 (stageIn C idx p 1) := s1
  have e2 : Steps (inStep C O net idx) (stageIn C idx p 1) l2 (stageIn C idx p 2) := s2
  have e3 : Steps (inStep C O net idx) (stageIn C idx p 2) l3 (stageIn C idx p 3) := s3
  have e4 : Steps (inStep C O net idx) (stageIn C idx p 3) l4 (stageIn C idx p 4) := s4
  have e5 : Steps (inStep C O net idx) (stageIn C idx p 4) l5 (stageIn C idx p 5) := s5
  have e6 : Steps (inStep C O net idx) (stageIn C idx p 5) (segNamedIn p) (stageIn C idx p 6) := s6
  have e7 : Steps (inStep C O net idx) (stageIn C idx p 6) l7 (stageIn C idx p 7) := s7
  have e8 : Steps (inStep C O net idx) (stageIn C idx p 7) l8 (stageIn C idx p 8) := s8
  have e9 : Steps (inStep C O net idx) (stageIn C idx p 8) (sortedItems p.extra) (normIn C idx p) := s9
  exact (((((((e1.append e2).append e3).append e4).append e5).append e6).append e7).append e8).append e9

end InMain

/-! ### the normal form serialises to the same pairs -/

section InNorm
variable {Tx : Type} (C : TxCodec Tx) (idx : Nat)

theorem dget_filterMap_keys (d : Dict Bytes) (L : List Bytes) (k : Bytes) :
    dget (L.filterMap fun k => (dget d k).map fun v => (k, v)) k = if k ∈ L then dget d k else none := by
  induction L with
  | nil => simp
  | cons k0 r ih =>
    rw [List.filterMap_cons]
    cases h0 : dget d k0 with
    | none =>
      simp only [Option.map_none]
      rw [ih]
      by_cases hk : k = k0
      · subst hk; by_cases hr : k ∈ r <;> simp [hr, h0]
      · simp [hk]
    | some v =>
      simp only [Option.map_some]
      rw [dget_cons, ih]
      by_cases hk : k0 = k
      · subst hk; simp [h0]
      · simp [hk, Ne.symm hk]

theorem filterMap_congr' {α β : Type} {f g : α → Option β} : ∀ {l : List α}, (∀ x ∈ l, f x = g x) →
    l.filterMap f = l.filterMap g
  | [], _ => rfl
  | a :: r, h => by
    rw [List.filterMap_cons, List.filterMap_cons, h a (List.mem_cons_self ..),
      filterMap_congr' (fun x hx => h x (List.mem_cons_of_mem _ hx))]

theorem mapM_congr' {α β : Type} {f g : α → Option β} : ∀ {l : List α}, (∀ x ∈ l, f x = g x) →
    l.mapM f = l.mapM g
  | [], _ => rfl
  | a :: r, h => by
    rw [List.mapM_cons, List.mapM_cons, h a (List.mem_cons_self ..),
      mapM_congr' (fun x hx => h x (List.mem_cons_of_mem _ hx))]

/-- the keys a script-ordered emission picks -/
def inScriptKeys (sigs : Dict Bytes) (sc : Script) : List Bytes :=
  sc.cmds.filterMap fun c => match c with
    | .push k => if dtruthy sigs k then some k else none
    | .op _ => none

theorem mem_inScriptKeys {sigs : Dict Bytes} {sc : Script} {k : Bytes} :
    k ∈ inScriptKeys sigs sc ↔ Cmd.push k ∈ sc.cmds ∧ dtruthy sigs k = true := by
  unfold inScriptKeys
  rw [List.mem_filterMap]
  constructor
  · rintro ⟨c, hc, h⟩
    cases c with
    | op n => simp at h
    | push k' =>
      by_cases ht : dtruthy sigs k' = true
      · simp only [ht, if_true, Option.some.injEq] at h; subst h; exact ⟨hc, ht⟩
      · simp [ht] at h
  · rintro ⟨hc, ht⟩
    exact ⟨.push k, hc, by simp [ht]⟩

theorem inScriptKeys_congr {s1 s2 : Dict Bytes} {sc : Script}
    (h : ∀ k, Cmd.push k ∈ sc.cmds → dtruthy s1 k = dtruthy s2 k) : inScriptKeys s1 sc = inScriptKeys s2 sc := by
  unfold inScriptKeys
  apply filterMap_congr'
  intro c hc
  cases c with
  | op n => rfl
  | push k => simp only [h k hc]

theorem sigKeyOrder_eq (p : PIn Tx) :
    sigKeyOrder p = match p.witnessScript with
      | some ws => inScriptKeys p.sigs ws
      | none => match p.redeem with
        | some r => if !isP2wpkh r then inScriptKeys p.sigs r else sortKeys (dkeys p.sigs)
        | none => sortKeys (dkeys p.sigs) := by
  unfold sigKeyOrder inScriptKeys
  cases p.witnessScript <;> cases p.redeem <;> rfl

theorem dtruthy_sigsWritten_script {p : PIn Tx} {sc : Script} (hL : sigKeyOrder p = inScriptKeys p.sigs sc)
    (k : Bytes) (hk : Cmd.push k ∈ sc.cmds) : dtruthy (sigsWritten p) k = dtruthy p.sigs k := by
  unfold dtruthy sigsWritten
  rw [dget_filterMap_keys, hL]
  by_cases hm : k ∈ inScriptKeys p.sigs sc
  · simp [hm]
  · have : dtruthy p.sigs k = false := by
      cases ht : dtruthy p.sigs k with
      | false => rfl
      | true => exact absurd (mem_inScriptKeys.mpr ⟨hk, ht⟩) hm
    simp only [hm, if_false]
    unfold dtruthy at this
    rw [this]

theorem sigsWritten_sorted {p : PIn Tx} (hL : sigKeyOrder p = sortKeys (dkeys p.sigs)) :
    sigsWritten p = sortedItems p.sigs := by
  unfold sigsWritten sortedItems
  rw [hL]

theorem sigKeyOrder_normIn (p : PIn Tx) : sigKeyOrder (normIn C idx p) = sigKeyOrder p := by
  rw [sigKeyOrder_eq (normIn C idx p), sigKeyOrder_eq p]
  have hw : (normIn C idx p).witnessScript = p.witnessScript := rfl
  have hr : (normIn C idx p).redeem = p.redeem := rfl
  have hs : (normIn C idx p).sigs = sigsWritten p := rfl
  rw [hw, hr, hs]
  cases hws : p.witnessScript with
  | some ws =>
    simp only
    apply inScriptKeys_congr
    intro k hk
    exact dtruthy_sigsWritten_script (by rw [sigKeyOrder_eq, hws]) k hk
  | none =>
    cases hrd : p.redeem with
    | some r =>
      simp only
      by_cases hp : isP2wpkh r = true
      · have hL : sigKeyOrder p = sortKeys (dkeys p.sigs) := by rw [sigKeyOrder_eq, hws, hrd]; simp [hp]
        simp only [hp, Bool.not_true, Bool.false_eq_true, if_false]
        rw [sigsWritten_sorted hL, dkeys_sortedItems, sortKeys_idem]
      · have hp' : isP2wpkh r = false := by simpa using hp
        have hL : sigKeyOrder p = inScriptKeys p.sigs r := by rw [sigKeyOrder_eq, hws, hrd]; simp [hp']
        simp only [hp', Bool.not_false, if_true]
        apply inScriptKeys_congr
        intro k hk
        exact dtruthy_sigsWritten_script hL k hk
    | none =>
      simp only
      have hL : sigKeyOrder p = sortKeys (dkeys p.sigs) := by rw [sigKeyOrder_eq, hws, hrd]
      rw [sigsWritten_sorted hL, dkeys_sortedItems, sortKeys_idem]

theorem segSigs_normIn (p : PIn Tx) : segSigs (normIn C idx p) = segSigs p := by
  unfold segSigs
  rw [sigKeyOrder_normIn]
  apply mapM_congr'
  intro k hk
  have : dget (normIn C idx p).sigs k = dget p.sigs k := by
    show dget (sigsWritten p) k = _
    unfold sigsWritten
    rw [dget_filterMap_keys]
    simp [hk]
  rw [this]

theorem normIn_entries (p : PIn Tx) (hn : DNodup p.namedPubs) (hx : DNodup p.extra) :
    (normIn C idx p).entries C = p.entries C := by
  rw [entries_eq_segments, entries_eq_segments, segSigs_normIn]
  have h1 : segUtxo C (normIn C idx p) = segUtxo C p := by
    unfold segUtxo normIn
    cases p.prevTx <;> simp
  have h3 : segHashType (normIn C idx p) = segHashType p := by
    unfold segHashType normIn
    cases hh : p.hashType with
    | none => simp [hashTypeTruthy]
    | some n => by_cases hn0 : n = 0 <;> simp [hashTypeTruthy, hn0]
  have h8 : segWitness (normIn C idx p) = segWitness p := by
    unfold segWitness normIn
    cases hh : p.witness with
    | none => simp [witnessTruthy]
    | some w => cases w <;> simp [witnessTruthy]
  have h6 : segNamedIn (normIn C idx p) = segNamedIn p := by
    unfold segNamedIn normIn
    simp only [sortedItems_idem hn]
  have h9 : sortedItems (normIn C idx p).extra = sortedItems p.extra := by
    show sortedItems (sortedItems p.extra) = _
    exact sortedItems_idem hx
  rw [h1, h3, h8, h6, h9]
  rfl

end InNorm

/-- **Input map round trip.**  For a well-formed input map the parser reads the serialiser's bytes
    (followed by anything) back to the normalised map — the dicts in sorted order; only the signatures
    that were written (those of script keys when a script orders them); a witness UTXO shadowed by a
    non-witness UTXO, a sighash type 0 and an empty final witness gone — and leaves the continuation;
    the normalised map serialises to the same bytes. -/
theorem in_map_roundtrip {Tx : Type} (C : TxCodec Tx) (O : Oracles) (net : Option Net) (idx : Nat) (p : PIn Tx)
    (wf : InMapWF C O net idx p) {b : Bytes} (hb : p.serialize C = some b) (rest : Bytes) :
    parseInMap C O net idx (b ++ rest) = some (normIn C idx p, rest) ∧ (normIn C idx p).serialize C = some b := by
  unfold PIn.serialize at hb
  cases hes : p.entries C with
  | none => simp [hes] at hb
  | some es =>
    cases henc : encodeEntries es with
    | none => simp [hes, henc] at hb
    | some enc =>
      simp only [hes, henc, Option.pure_def, Option.bind_eq_bind, Option.bind_some, Option.some.injEq] at hb
      subst hb
      refine ⟨?_, ?_⟩
      · unfold parseInMap
        exact kvLoop_roundtrip (in_entries_steps C O net idx p wf hes) henc rest
      · simp [PIn.serialize, normIn_entries C idx p wf.named.nodup wf.extra.nodup, hes, henc]

/-! ## the global map -/

def unknownGlobalKey (k : Bytes) : Prop :=
  match k with
  | [] => False
  | t :: _ => t.toNat ≠ Gen.psbtGlobalUnsignedTx ∧ t.toNat ≠ Gen.psbtGlobalXpub

/-- a global xpub record as the parser itself produces it for network `n` -/
structure HdWF (O : Oracles) (n : Net) (hd : HdPub) : Prop where
  len : hd.raw.length = 78
  version : xpubVersion n = some (hd.raw.take 4)
  sec : O.secOK (((hd.raw.drop 4).drop 41).take 33) = true
  pathLen : hd.rawPath.length < 2 ^ 63
  depth : ∃ ch, pathChildren hd.rawPath = some ch ∧ leToNat ((hd.raw.drop 4).take 1) = ch.length

theorem version_known (n : Net) (v : Bytes) (h : xpubVersion n = some v) :
    (Gen.psbtTestnetXpubs.any (·.2 = v) || Gen.psbtMainnetXpubs.any (·.2 = v)) = true := by
  cases n <;> (simp [xpubVersion, Net.name, Gen.psbtXpubVersion] at h; subst h; decide)

theorem parseHdPub_enc (O : Oracles) (n : Net) {hd : HdPub} (wf : HdWF O n hd) (ev rest : Bytes)
    (he : encodeVarstr hd.rawPath = some ev) :
    parseHdPub O (some n) (UInt8.ofNat Gen.psbtGlobalXpub :: hd.raw) (ev ++ rest) = some ((hd, n), rest) := by
  obtain ⟨ch, hch, hdepth⟩ := wf.depth
  have hv := version_known n _ wf.version
  have hraw : hd.raw.take 4 ++ hd.raw.drop 4 = hd.raw := List.take_append_drop 4 hd.raw
  simp only [parseHdPub, pat, Gen.psbtXpubFieldWidths, List.drop_succ_cons, List.drop_zero, List.getD_cons_zero,
    List.getD_cons_succ, Option.pure_def, Option.bind_eq_bind]
  simp only [req, hv, if_true, Option.bind_some, wf.sec, readVarstr_enc wf.pathLen he, hch, hdepth, beq_self_eq_true,
    wf.version, hraw]

theorem globalStep_tx {Tx : Type} (C : TxCodec Tx) (O : Oracles) (st : GlobalState Tx) {b : Bytes} {t' : Tx}
    (hst : st.tx = none) (hpar : ∀ rest, C.parseLegacy (b ++ rest) = some (t', rest)) (ev rest : Bytes)
    (he : encodeVarstr b = some ev) :
    globalStep C O st [UInt8.ofNat Gen.psbtGlobalUnsignedTx] (ev ++ rest) = some ({ st with tx := some t' }, rest) := by
  simp [globalStep, keyLenOK, Gen.psbtGlobalKeyLens, Gen.psbtGlobalUnsignedTx, req, hst, readVarint_enc he, hpar]

theorem globalStep_xpub {Tx : Type} (C : TxCodec Tx) (O : Oracles) (n : Net) (st : GlobalState Tx) {hd : HdPub}
    (hnet : st.network = some n) (wf : HdWF O n hd) (ev rest : Bytes) (he : encodeVarstr hd.rawPath = some ev) :
    globalStep C O st (UInt8.ofNat Gen.psbtGlobalXpub :: hd.raw) (ev ++ rest)
      = some ({ st with hdPubs := dset st.hdPubs hd.raw hd, network := some n }, rest) := by
  have h := parseHdPub_enc O n wf ev rest he
  have h1 : UInt8.ofNat Gen.psbtGlobalXpub = 1 := rfl
  rw [h1] at h
  simp [globalStep, keyLenOK, Gen.psbtGlobalKeyLens, Gen.psbtGlobalUnsignedTx, Gen.psbtGlobalXpub, wf.len, hnet, h]

theorem globalStep_unknown {Tx : Type} (C : TxCodec Tx) (O : Oracles) (st : GlobalState Tx) {k v : Bytes}
    (hk : unknownGlobalKey k) (hnew : dget st.extra k = none) (hl : v.length < 2 ^ 63) (ev rest : Bytes)
    (he : encodeVarstr v = some ev) :
    globalStep C O st k (ev ++ rest) = some ({ st with extra := dset st.extra k v }, rest) := by
  cases k with
  | nil => exact absurd hk (by simp [unknownGlobalKey])
  | cons t tl =>
    obtain ⟨h0, h1⟩ := hk
    simp only [Gen.psbtGlobalUnsignedTx, Gen.psbtGlobalXpub] at h0 h1
    have hlen : keyLenOK Gen.psbtGlobalKeyLens t.toNat (t :: tl) = true := by
      simp [keyLenOK, Gen.psbtGlobalKeyLens, List.find?, Ne.symm h0, Ne.symm h1]
    simp [globalStep, hlen, Gen.psbtGlobalUnsignedTx, Gen.psbtGlobalXpub, h0, h1, req, dtruthy, hnew,
      readVarstr_enc hl he]

section GlobalSteps
variable {Tx : Type} (C : TxCodec Tx) (O : Oracles) (n : Net)

theorem steps_xpubs :
    ∀ (l : Dict HdPub) (st : GlobalState Tx), (dkeys l).Nodup → st.network = some n →
      (∀ e ∈ l, e.1 = e.2.raw ∧ HdWF O n e.2) → (∀ e ∈ l, e.1 ∉ dkeys st.hdPubs) →
      Steps (globalStep C O) st (l.map fun e => (UInt8.ofNat Gen.psbtGlobalXpub :: e.2.raw, e.2.rawPath))
        { st with hdPubs := st.hdPubs ++ l }
  | [], st, _, _, _, _ => by simpa using Steps.nil st
  | (k, hd) :: r, st, hn, hnet, hwf, hfresh => by
    simp only [dkeys_cons, List.nodup_cons] at hn
    obtain ⟨hkey, hw⟩ := hwf (k, hd) (List.mem_cons_self ..)
    simp only at hkey
    subst hkey
    have hnot : hd.raw ∉ dkeys st.hdPubs := hfresh (hd.raw, hd) (List.mem_cons_self ..)
    simp only [List.map_cons]
    have hst1 : ({ st with hdPubs := dset st.hdPubs hd.raw hd, network := some n } : GlobalState Tx)
        = { st with hdPubs := dset st.hdPubs hd.raw hd } := by
      cases st; simp only at hnet; subst hnet; rfl
    refine Steps.cons (by simp) (by simp [hw.len])
      (fun ev rest he => by rw [globalStep_xpub C O n st hnet hw ev rest he, hst1]) ?_
    have ih := steps_xpubs r { st with hdPubs := dset st.hdPubs hd.raw hd } hn.2 hnet
      (fun e he => hwf e (List.mem_cons_of_mem _ he))
      (by
        intro e he
        simp only
        rw [dset_of_not_mem _ _ _ hnot]
        simp only [dkeys, List.map_append, List.map_cons, List.map_nil, List.mem_append, List.mem_singleton, not_or]
        refine ⟨hfresh e (List.mem_cons_of_mem _ he), ?_⟩
        intro heq
        exact hn.1 (heq ▸ List.mem_map.mpr ⟨e, he, rfl⟩))
    have key : dset st.hdPubs hd.raw hd = st.hdPubs ++ [(hd.raw, hd)] := dset_of_not_mem _ _ _ hnot
    rw [key] at ih ⊢
    simpa [List.append_assoc] using ih

theorem steps_extra_global :
    ∀ (l : Dict Bytes) (st : GlobalState Tx), (dkeys l).Nodup →
      (∀ e ∈ l, unknownGlobalKey e.1 ∧ e.1.length < 2 ^ 63 ∧ e.2.length < 2 ^ 63) →
      (∀ e ∈ l, e.1 ∉ dkeys st.extra) →
      Steps (globalStep C O) st l { st with extra := st.extra ++ l }
  | [], st, _, _, _ => by simpa using Steps.nil st
  | (k, v) :: r, st, hn, hwf, hfresh => by
    simp only [dkeys_cons, List.nodup_cons] at hn
    obtain ⟨hunk, hkl, hvl⟩ := hwf (k, v) (List.mem_cons_self ..)
    have hnot : k ∉ dkeys st.extra := hfresh (k, v) (List.mem_cons_self ..)
    have hne : k ≠ [] := by intro h; subst h; exact hunk
    refine Steps.cons hne hkl
      (fun ev rest he => globalStep_unknown C O st hunk ((dget_eq_none_iff _ _).mpr hnot) hvl ev rest he) ?_
    have ih := steps_extra_global r { st with extra := dset st.extra k v } hn.2
      (fun e he => hwf e (List.mem_cons_of_mem _ he))
      (by
        intro e he
        simp only
        rw [dset_of_not_mem _ _ _ hnot]
        simp only [dkeys, List.map_append, List.map_cons, List.map_nil, List.mem_append, List.mem_singleton, not_or]
        refine ⟨hfresh e (List.mem_cons_of_mem _ he), ?_⟩
        intro heq
        exact hn.1 (heq ▸ List.mem_map.mpr ⟨e, he, rfl⟩))
    have key : dset st.extra k v = st.extra ++ [(k, v)] := dset_of_not_mem _ _ _ hnot
    show Steps (globalStep C O) { st with extra := dset st.extra k v } _ _
    rw [key] at ih ⊢
    simpa [List.append_assoc] using ih

end GlobalSteps

structure GlobalWF {Tx : Type} (C : TxCodec Tx) (O : Oracles) (n : Net) (p : Psbt Tx) (t' : Tx) : Prop where
  /-- the unsigned transaction's legacy serialisation parses (as a legacy transaction) to `t'`, which
      serialises to the same bytes (transaction codec: C04) -/
  tx : ∃ b, C.serializeLegacy p.tx = some b ∧ (∀ rest, C.parseLegacy (b ++ rest) = some (t', rest)) ∧
        C.serializeLegacy t' = some b
  hdNodup : DNodup p.hdPubs
  hd : ∀ e ∈ p.hdPubs, e.1 = e.2.raw ∧ HdWF O n e.2
  extra : ExtraWF unknownGlobalKey p.extra

/-- **Global map round trip** (explicit network `n`): reading the global pairs leads to the re-parsed
    unsigned transaction, the xpubs and unknowns in sorted order -/
theorem global_entries_steps {Tx : Type} (C : TxCodec Tx) (O : Oracles) (n : Net) (p : Psbt Tx) (t' : Tx)
    (wf : GlobalWF C O n p t') {es : List (Bytes × Bytes)} (he : p.globalEntries C = some es) :
    Steps (globalStep C O) { network := some n } es
      { tx := some t', hdPubs := sortedItems p.hdPubs, extra := sortedItems p.extra, network := some n } := by
  obtain ⟨b, hser, hpar, _⟩ := wf.tx
  simp only [Psbt.globalEntries, hser, Option.pure_def, Option.bind_eq_bind, Option.bind_some, Option.some.injEq] at he
  subst he
  have s1 : Steps (globalStep C O) ({ network := some n } : GlobalState Tx) [([UInt8.ofNat Gen.psbtGlobalUnsignedTx], b)]
      { tx := some t', network := some n } :=
    Steps.cons (by simp) (by simp) (fun ev rest he => globalStep_tx C O _ rfl hpar ev rest he) (Steps.nil _)
  have s2 := steps_xpubs C O n (sortedItems p.hdPubs) ({ tx := some t', network := some n } : GlobalState Tx)
    (dnodup_sortedItems wf.hdNodup) rfl (fun e he => wf.hd e (mem_sortedItems he)) (by intro e _; simp)
  have s3 := steps_extra_global C O (sortedItems p.extra)
    ({ tx := some t', hdPubs := [] ++ sortedItems p.hdPubs, network := some n } : GlobalState Tx)
    (dnodup_sortedItems wf.extra.nodup) (fun e he => wf.extra.keys e (mem_sortedItems he)) (by intro e _; simp)
  have := s1.append (s2.append s3)
  simpa using this

/-! ## the whole PSBT -/

section Whole
variable {Tx : Type} (H : Hashes) (C : TxCodec Tx) (O : Oracles) (n : Net)

theorem namedNetwork_some {rp : Bytes} (h : (namedNetwork (some n) rp).isSome = true) :
    namedNetwork (some n) rp = some n := by
  unfold namedNetwork at h ⊢
  cases hp : pathChildren rp with
  | none => simp [hp] at h
  | some ch => simp

theorem inferNetwork_explicit : ∀ (paths : List Bytes), (∀ rp ∈ paths, (namedNetwork (some n) rp).isSome = true) →
    inferNetwork (some n) (some n) paths = some (some n)
  | [], _ => rfl
  | rp :: r, h => by
    simp only [inferNetwork, namedNetwork_some n (h rp (List.mem_cons_self ..)), Option.bind_eq_bind, Option.bind_some,
      if_true]
    exact inferNetwork_explicit r fun x hx => h x (List.mem_cons_of_mem _ hx)

theorem paths_sortedItems_ok {named : Dict Bytes} (hn : NamedWF O (some n) named) :
    ∀ rp ∈ (sortedItems named).map (·.2), (namedNetwork (some n) rp).isSome = true := by
  intro rp hrp
  obtain ⟨e, he, rfl⟩ := List.mem_map.mp hrp
  exact (hn.path e (mem_sortedItems he)).2

/-- every input map is well-formed and its normal form passes PSBTIn.validate (which the parser's
    constructor runs) -/
def InsOK : List TxInV → List (PIn Tx) → Prop
  | [], [] => True
  | txin :: tr, p :: pr =>
    InMapWF C O (some n) txin.prevIndex p ∧ validateIn H C txin (normIn C txin.prevIndex p) = some () ∧ InsOK tr pr
  | _, _ => False

def normIns : List TxInV → List (PIn Tx) → List (PIn Tx)
  | txin :: tr, p :: pr => normIn C txin.prevIndex p :: normIns tr pr
  | _, _ => []

def OutsOK : List TxOutV → List POut → Prop
  | [], [] => True
  | o :: tr, p :: pr => OutMapWF O (some n) p ∧ validateOut H o.spk (normOut p) = some () ∧ OutsOK tr pr
  | _, _ => False

theorem serializeAll_cons_some {α : Type} {f : α → Option Bytes} {a : α} {r : List α} {b : Bytes}
    (h : serializeAll f (a :: r) = some b) : ∃ x y, f a = some x ∧ serializeAll f r = some y ∧ b = x ++ y := by
  simp only [serializeAll, Option.pure_def, Option.bind_eq_bind] at h
  cases hx : f a with
  | none => simp [hx] at h
  | some x =>
    cases hy : serializeAll f r with
    | none => simp [hx, hy] at h
    | some y =>
      simp only [hx, hy, Option.bind_some, Option.some.injEq] at h
      exact ⟨x, y, rfl, rfl, h.symm⟩

theorem parseIns_roundtrip : ∀ (txins : List TxInV) (ps : List (PIn Tx)) (ib rest : Bytes),
    InsOK H C O n txins ps → serializeAll (PIn.serialize C) ps = some ib →
    parseIns H C O (some n) txins (ib ++ rest) = some ((normIns C txins ps, some n), rest) ∧
      serializeAll (PIn.serialize C) (normIns C txins ps) = some ib
  | [], [], ib, rest, _, h => by
    simp only [serializeAll, Option.some.injEq] at h; subst h
    simp [parseIns, normIns, serializeAll]
  | [], _ :: _, _, _, hok, _ => by simp [InsOK] at hok
  | _ :: _, [], _, _, hok, _ => by simp [InsOK] at hok
  | txin :: tr, p :: pr, ib, rest, hok, h => by
    obtain ⟨wf, hval, hrest⟩ := hok
    obtain ⟨x, y, hx, hy, rfl⟩ := serializeAll_cons_some h
    obtain ⟨hp, hs⟩ := in_map_roundtrip C O (some n) txin.prevIndex p wf hx (y ++ rest)
    obtain ⟨ihp, ihs⟩ := parseIns_roundtrip tr pr y rest hrest hy
    have hinf : inferNetwork (some n) (some n) ((normIn C txin.prevIndex p).namedPubs.map (·.2)) = some (some n) :=
      inferNetwork_explicit n _ (paths_sortedItems_ok O n wf.named)
    refine ⟨?_, ?_⟩
    · simp only [parseIns, List.append_assoc, hp, hval, hinf, ihp, Option.pure_def, Option.bind_eq_bind,
        Option.bind_some, normIns]
    · simp only [normIns, serializeAll, hs, ihs, Option.pure_def, Option.bind_eq_bind, Option.bind_some]

theorem parseOuts_roundtrip : ∀ (outs : List TxOutV) (ps : List POut) (ob rest : Bytes),
    OutsOK H O n outs ps → serializeAll POut.serialize ps = some ob →
    parseOuts H O (some n) outs (ob ++ rest) = some ((ps.map normOut, some n), rest) ∧
      serializeAll POut.serialize (ps.map normOut) = some ob
  | [], [], ob, rest, _, h => by
    simp only [serializeAll, Option.some.injEq] at h; subst h
    simp [parseOuts, serializeAll]
  | [], _ :: _, _, _, hok, _ => by simp [OutsOK] at hok
  | _ :: _, [], _, _, hok, _ => by simp [OutsOK] at hok
  | o :: tr, p :: pr, ob, rest, hok, h => by
    obtain ⟨wf, hval, hrest⟩ := hok
    obtain ⟨x, y, hx, hy, rfl⟩ := serializeAll_cons_some h
    obtain ⟨hp, hs⟩ := out_map_roundtrip O (some n) p wf hx (y ++ rest)
    obtain ⟨ihp, ihs⟩ := parseOuts_roundtrip tr pr y rest hrest hy
    have hinf : inferNetwork (some n) (some n) ((normOut p).namedPubs.map (·.2)) = some (some n) :=
      inferNetwork_explicit n _ (paths_sortedItems_ok O n wf.named)
    refine ⟨?_, ?_⟩
    · simp only [parseOuts, List.append_assoc, hp, hval, hinf, ihp, Option.pure_def, Option.bind_eq_bind,
        Option.bind_some, List.map_cons]
    · simp only [List.map_cons, serializeAll, hs, ihs, Option.pure_def, Option.bind_eq_bind, Option.bind_some]

/-- well-formedness of a whole PSBT for network `n`; `t'` is the unsigned transaction as re-parsed from
    its legacy serialisation (it has the same inputs and outputs) -/
structure PsbtMapWF (p : Psbt Tx) (t' : Tx) : Prop where
  global : GlobalWF C O n p t'
  insSame : C.ins t' = C.ins p.tx
  outsSame : C.outs t' = C.outs p.tx
  ins : InsOK H C O n (C.ins p.tx) p.ins
  outs : OutsOK H O n (C.outs p.tx) p.outs

/-- what PSBT.parse builds from the serialisation of `p` -/
def normPsbt (p : Psbt Tx) (t' : Tx) : Psbt Tx :=
  { tx := t', ins := normIns C (C.ins p.tx) p.ins, outs := p.outs.map normOut,
    hdPubs := sortedItems p.hdPubs, extra := sortedItems p.extra, network := some n }

/-- **Re-serialisation is idempotent; the parser succeeds on serialiser output (map level).**
    For a well-formed PSBT `p` with `p.serialize = some b`, parsing `b` (followed by anything, with the
    same explicit network) succeeds, leaves the continuation, and the parsed value serialises to `b`. -/
theorem reserialize_idempotent (p : Psbt Tx) (t' : Tx) (wf : PsbtMapWF H C O n p t') {b : Bytes}
    (hb : p.serialize C = some b) (rest : Bytes) :
    parseMaps H C O (some n) (b ++ rest) = some (normPsbt C n p t', rest) ∧
      (normPsbt C n p t').serialize C = some b := by
  unfold Psbt.serialize at hb
  cases hg : p.globalEntries C with
  | none => simp [hg] at hb
  | some g =>
  cases hgb : encodeEntries g with
  | none => simp [hg, hgb] at hb
  | some gb =>
  cases hib : serializeAll (PIn.serialize C) p.ins with
  | none => simp [hg, hgb, hib] at hb
  | some ib =>
  cases hob : serializeAll POut.serialize p.outs with
  | none => simp [hg, hgb, hib, hob] at hb
  | some ob =>
  simp only [hg, hgb, hib, hob, Option.pure_def, Option.bind_eq_bind, Option.bind_some, Option.some.injEq] at hb
  subst hb
  have hsteps := global_entries_steps C O n p t' wf.global hg
  have hglob := kvLoop_roundtrip hsteps hgb (ib ++ (ob ++ rest))
  obtain ⟨hins, hins'⟩ := parseIns_roundtrip H C O n (C.ins p.tx) p.ins ib (ob ++ rest) wf.ins hib
  obtain ⟨houts, houts'⟩ := parseOuts_roundtrip H O n (C.outs p.tx) p.outs ob rest wf.outs hob
  refine ⟨?_, ?_⟩
  · have hm : Gen.psbtMagic = [112, 115, 98, 116] := rfl
    have hsp : Gen.psbtSeparator = [255] := rfl
    simp only [parseMaps, sread, Gen.psbtMagicWidth, Gen.psbtSeparatorWidth, hm, hsp, req, List.append_assoc,
      List.cons_append, List.nil_append, List.take_succ_cons, List.take_zero, List.drop_succ_cons, List.drop_zero,
      beq_self_eq_true, if_true, Option.pure_def, Option.bind_eq_bind, Option.bind_some]
    simp only [List.append_assoc] at hglob
    rw [hglob]
    simp only [Option.bind_some, wf.insSame, wf.outsSame, hins, houts, normPsbt]
  · obtain ⟨tb, hser, _, hser'⟩ := wf.global.tx
    have hge : (normPsbt C n p t').globalEntries C = some g := by
      simp only [Psbt.globalEntries, normPsbt, hser', sortedItems_idem wf.global.hdNodup,
        sortedItems_idem wf.global.extra.nodup] at hg ⊢
      simp only [Psbt.globalEntries, hser] at hg
      exact hg
    simp only [Psbt.serialize, hge, hgb, Option.pure_def, Option.bind_eq_bind, Option.bind_some]
    simp only [normPsbt, hins', houts', Option.bind_some]

end Whole

end Buidl.Psbt
