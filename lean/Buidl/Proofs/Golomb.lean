/-
  Buidl.Proofs.Golomb — BIP158 Golomb-coded sets as coded in buidl/compactfilter.py (C18).
-/
import Buidl.Proofs.SipHash
namespace Buidl.Filters
open Buidl Buidl.Spec.Filters

/-! ### Golomb-Rice coding -/

/-- the `p` low bits of `x`, most significant first, as `encode_golomb` writes them -/
def lowBits (x p : Nat) : List Bool :=
  (List.range p).map (fun i => decide (x &&& (1 <<< (p - i - 1)) > 0))

theorem encodeGolomb_def (x p : Nat) :
    encodeGolomb x p = List.replicate (x >>> p) true ++ false :: lowBits x p := by
  simp [encodeGolomb, lowBits]

theorem and_bit_pos (x k : Nat) : decide (x &&& (1 <<< k) > 0) = x.testBit k := by
  rw [Nat.one_shiftLeft]
  have key : x &&& 2 ^ k = if x.testBit k then 2 ^ k else 0 := by
    apply Nat.eq_of_testBit_eq
    intro i
    cases h : x.testBit k
    · by_cases hki : k = i
      · subst hki; simp [Nat.testBit_and, h]
      · simp [Nat.testBit_and, hki]
    · by_cases hki : k = i
      · subst hki; simp [Nat.testBit_and, h]
      · simp [Nat.testBit_and, hki]
  rw [key]
  cases h : x.testBit k <;> simp [Nat.two_pow_pos]

theorem lowBits_succ (x p : Nat) : lowBits x (p + 1) = x.testBit p :: lowBits x p := by
  unfold lowBits
  rw [List.range_succ_eq_map, List.map_cons, List.map_map]
  congr 1
  · simp [and_bit_pos]
  · apply List.map_congr_left
    intro i _
    simp only [Function.comp, Nat.succ_eq_add_one]
    have : p + 1 - (i + 1) - 1 = p - i - 1 := by omega
    rw [this]

theorem lowBits_length (x p : Nat) : (lowBits x p).length = p := by simp [lowBits]

theorem decodeUnary_replicate (q : Nat) (l : List Bool) :
    decodeUnary (List.replicate q true ++ l) = (decodeUnary l).map (fun (a, r) => (a + q, r)) := by
  induction q with
  | zero => cases h : decodeUnary l <;> simp [h]
  | succ q ih =>
    rw [List.replicate_succ, List.cons_append, decodeUnary, ih]
    cases h : decodeUnary l <;> simp [Nat.add_assoc]

theorem stepBit_eq (acc : Nat) (b : Bool) : (acc <<< 1) ||| (if b then 1 else 0) = 2 * acc + b.toNat := by
  have hb : (if b then 1 else 0) < 2 ^ 1 := by cases b <;> decide
  rw [← Nat.shiftLeft_add_eq_or_of_lt hb, Nat.shiftLeft_eq]
  cases b <;> simp <;> omega

theorem mod_two_pow_succ' (x p : Nat) : x % 2 ^ (p + 1) = 2 ^ p * (x.testBit p).toNat + x % 2 ^ p := by
  rw [Nat.testBit_eq_decide_div_mod_eq, Nat.mod_pow_succ, Nat.add_comm]
  have h2 : x / 2 ^ p % 2 < 2 := Nat.mod_lt _ (by decide)
  have h3 : x / 2 ^ p % 2 = 0 ∨ x / 2 ^ p % 2 = 1 := by omega
  rcases h3 with h | h <;> simp [h]

theorem decodeFixed_lowBits (x p acc : Nat) (r : List Bool) :
    decodeFixed p acc (lowBits x p ++ r) = some (acc * 2 ^ p + x % 2 ^ p, r) := by
  induction p generalizing acc with
  | zero => simp [lowBits, decodeFixed, Nat.mod_one]
  | succ p ih =>
    rw [lowBits_succ, List.cons_append, decodeFixed, ih, stepBit_eq, mod_two_pow_succ']
    congr 2
    rw [Nat.pow_succ, Nat.add_mul, Nat.add_assoc]
    congr 1
    · rw [Nat.mul_comm 2 acc, Nat.mul_assoc, Nat.mul_comm 2]
    · rw [Nat.mul_comm]

/-- Golomb-Rice: decoding inverts encoding for every x, every p, with any continuation -/
theorem decodeGolomb_encodeGolomb (x p : Nat) (r : List Bool) :
    decodeGolomb (encodeGolomb x p ++ r) p = some (x, r) := by
  have hx : (x >>> p) <<< p + x % 2 ^ p = x := by
    rw [Nat.shiftRight_eq_div_pow, Nat.shiftLeft_eq, Nat.mul_comm]
    exact Nat.div_add_mod x (2 ^ p)
  rw [encodeGolomb_def, List.append_assoc, List.cons_append]
  unfold decodeGolomb
  rw [decodeUnary_replicate, decodeUnary]
  simp only [Option.map_some, Nat.zero_add, Option.bind_eq_bind, Option.bind_some]
  rw [decodeFixed_lowBits]
  simp only [Nat.zero_mul, Nat.zero_add, Option.bind_some, hx]
  rfl

theorem decodeUnary_all_true (k : Nat) : decodeUnary (List.replicate k true) = none := by
  have := decodeUnary_replicate k []
  rw [List.append_nil] at this
  rw [this]; rfl

theorem decodeFixed_short (p acc : Nat) (l : List Bool) (h : l.length < p) : decodeFixed p acc l = none := by
  induction p generalizing acc l with
  | zero => omega
  | succ p ih =>
    cases l with
    | nil => rfl
    | cons b l =>
      rw [decodeFixed]
      apply ih
      simp only [List.length_cons] at h
      omega

/-- running out of bits is an error, never a wrong value -/
theorem decodeGolomb_prefix_none (x p : Nat) (k : Nat) (hk : k < (encodeGolomb x p).length) :
    decodeGolomb ((encodeGolomb x p).take k) p = none := by
  rw [encodeGolomb_def] at hk ⊢
  simp only [List.length_append, List.length_replicate, List.length_cons, lowBits_length] at hk
  unfold decodeGolomb
  rw [List.take_append, List.take_replicate, List.length_replicate]
  by_cases hq : k ≤ x >>> p
  · have h0 : k - x >>> p = 0 := by omega
    rw [h0, List.take_zero, List.append_nil, decodeUnary_all_true]
    rfl
  · have h1 : k - x >>> p = (k - x >>> p - 1) + 1 := by omega
    rw [h1, List.take_succ_cons, decodeUnary_replicate, decodeUnary]
    simp only [Option.map_some, Option.bind_eq_bind, Option.bind_some]
    rw [decodeFixed_short]
    · rfl
    · rw [List.length_take, lowBits_length]; omega

/-- the code's encoder is the BIP158 encoder -/
theorem encodeGolomb_eq_spec (x p : Nat) : encodeGolomb x p = Spec.Filters.golombEncode x p := by
  unfold encodeGolomb golombEncode
  rw [Nat.shiftRight_eq_div_pow]
  congr 1
  apply List.map_congr_left
  intro i _
  rw [and_bit_pos, Nat.testBit_eq_decide_div_mod_eq, Nat.sub_right_comm]

/-! ### bit packing -/

/-- the value of one byte of the specification's `bitsToBytes` -/
def byteOf (byte : List Bool) : Nat :=
  (List.range 8).foldl (fun acc i => acc + (if byte.getD i false then 2 ^ (7 - i) else 0)) 0

theorem bitsToBytes_nil : bitsToBytes [] = [] := by rw [bitsToBytes]

theorem bitsToBytes_cons (b0 : Bool) (r : List Bool) :
    bitsToBytes (b0 :: r) = UInt8.ofNat (byteOf ((b0 :: r).take 8)) :: bitsToBytes (r.drop 7) := by
  rw [bitsToBytes]; rfl

theorem getD_append_false (l : List Bool) (n i : Nat) :
    (l ++ List.replicate n false).getD i false = l.getD i false := by
  induction l generalizing i with
  | nil =>
    simp only [List.nil_append, List.getD_eq_getElem?_getD, List.getElem?_replicate, List.getElem?_nil]
    split <;> rfl
  | cons a l ih =>
    cases i with
    | zero => simp
    | succ i => simpa [List.getD_eq_getElem?_getD] using ih i

theorem byteOf_pad (l : List Bool) (n : Nat) : byteOf (l ++ List.replicate n false) = byteOf l := by
  unfold byteOf
  simp only [getD_append_false]

theorem byteOf_8 (b0 b1 b2 b3 b4 b5 b6 b7 : Bool) :
    (UInt8.ofNat (byteOf [b0, b1, b2, b3, b4, b5, b6, b7])).toNat =
      128 * b0.toNat + 64 * b1.toNat + 32 * b2.toNat + 16 * b3.toNat + 8 * b4.toNat + 4 * b5.toNat
        + 2 * b6.toNat + b7.toNat := by
  cases b0 <;> cases b1 <;> cases b2 <;> cases b3 <;> cases b4 <;> cases b5 <;> cases b6 <;> cases b7 <;> decide

theorem byteBits_byteOf (b0 b1 b2 b3 b4 b5 b6 b7 : Bool) :
    byteBitsBE 8 (UInt8.ofNat (byteOf [b0, b1, b2, b3, b4, b5, b6, b7])).toNat = [b0, b1, b2, b3, b4, b5, b6, b7] := by
  cases b0 <;> cases b1 <;> cases b2 <;> cases b3 <;> cases b4 <;> cases b5 <;> cases b6 <;> cases b7 <;> decide

theorem byteOf_byteBits : ∀ n, n < 256 → byteOf (byteBitsBE 8 n) = n := by decide +kernel

theorem exists_seven {α : Type} (r : List α) (h : 7 ≤ r.length) :
    ∃ b1 b2 b3 b4 b5 b6 b7 rest, r = b1 :: b2 :: b3 :: b4 :: b5 :: b6 :: b7 :: rest := by
  rcases r with _ | ⟨b1, _ | ⟨b2, _ | ⟨b3, _ | ⟨b4, _ | ⟨b5, _ | ⟨b6, _ | ⟨b7, rest⟩⟩⟩⟩⟩⟩⟩
  all_goals first
    | exact ⟨_, _, _, _, _, _, _, _, rfl⟩
    | (simp at h)

theorem unpackBits_cons (x : UInt8) (xs : Bytes) :
    unpackBits (x :: xs) = byteBitsBE 8 x.toNat ++ unpackBits xs := by
  simp [unpackBits]

/-- on whole bytes, big-endian reading of the specification's bytes is the code's accumulator, and
    `unpack_bits` gives the bits back -/
theorem bitsToBytes_whole (l : List Bool) : l.length % 8 = 0 →
    (∀ acc, beToNatAux acc (bitsToBytes l)
        = l.foldl (fun acc b => (acc <<< 1) ||| (if b then 1 else 0)) acc) ∧
      (bitsToBytes l).length = l.length / 8 ∧ unpackBits (bitsToBytes l) = l := by
  induction l using bitsToBytes.induct with
  | case1 => intro _; rw [bitsToBytes_nil]; exact ⟨fun _ => rfl, rfl, rfl⟩
  | case2 b0 r ih =>
    intro hlen
    simp only [List.length_cons] at hlen
    obtain ⟨b1, b2, b3, b4, b5, b6, b7, rest, rfl⟩ := exists_seven r (by omega)
    simp only [List.drop_succ_cons, List.drop_zero] at ih
    simp only [List.length_cons] at hlen
    obtain ⟨ih1, ih2, ih3⟩ := ih (by omega)
    rw [bitsToBytes_cons]
    simp only [List.take_succ_cons, List.take_zero, List.drop_succ_cons, List.drop_zero]
    refine ⟨?_, ?_, ?_⟩
    · intro acc
      rw [beToNatAux, ih1, byteOf_8]
      generalize hf : (fun (acc : Nat) (b : Bool) => (acc <<< 1) ||| (if b then 1 else 0)) = f
      have hf' : ∀ a b, f a b = 2 * a + b.toNat := by
        intro a b; rw [← hf]; exact stepBit_eq a b
      simp only [List.foldl_cons, hf']
      congr 1
      omega
    · simp only [List.length_cons, ih2]
      omega
    · rw [unpackBits_cons, byteBits_byteOf, ih3]; rfl

theorem padLen_whole (l : List Bool) :
    (l ++ List.replicate ((8 - l.length % 8) % 8) false).length % 8 = 0 := by
  simp only [List.length_append, List.length_replicate]; omega

/-- the specification's zero padding of the last byte is the code's explicit padding -/
theorem bitsToBytes_pad (l : List Bool) :
    bitsToBytes (l ++ List.replicate ((8 - l.length % 8) % 8) false) = bitsToBytes l := by
  induction l using bitsToBytes.induct with
  | case1 => simp
  | case2 b0 r ih =>
    rw [List.cons_append, bitsToBytes_cons, bitsToBytes_cons]
    by_cases hr : 7 ≤ r.length
    · have hp : (8 - (b0 :: r).length % 8) % 8 = (8 - (List.drop 7 r).length % 8) % 8 := by
        simp only [List.length_cons, List.length_drop]; omega
      rw [hp, List.take_succ_cons, List.take_succ_cons, List.take_append_of_le_length hr,
        List.drop_append_of_le_length hr, ih]
    · have hl : (b0 :: (r ++ List.replicate ((8 - (b0 :: r).length % 8) % 8) false)).length = 8 := by
        simp only [List.length_cons, List.length_append, List.length_replicate]; omega
      have hd1 : List.drop 7 (r ++ List.replicate ((8 - (b0 :: r).length % 8) % 8) false) = [] := by
        apply List.drop_eq_nil_of_le
        simp only [List.length_cons, List.length_append, List.length_replicate] at hl ⊢; omega
      have hd2 : List.drop 7 r = [] := List.drop_eq_nil_of_le (by omega)
      rw [hd1, hd2, List.take_of_length_le (by omega), List.take_of_length_le (by simp only [List.length_cons]; omega),
        ← List.cons_append, byteOf_pad]

/-- the code's packer is MSB-first byte packing with a zero padded last byte -/
theorem packBits_eq_spec (bits : List Bool) : packBits bits = Spec.Filters.bitsToBytes bits := by
  obtain ⟨h1, h2, _⟩ := bitsToBytes_whole _ (padLen_whole bits)
  unfold packBits bitsToNatBE
  simp only []
  rw [← h1 0, ← h2, ← bitsToBytes_pad bits]
  exact natToBE'_beToNat _

/-- unpack ∘ pack = identity up to zero padding to a whole byte -/
theorem unpackBits_packBits (bits : List Bool) :
    unpackBits (packBits bits) = bits ++ List.replicate ((8 - bits.length % 8) % 8) false := by
  rw [packBits_eq_spec, ← bitsToBytes_pad]
  exact (bitsToBytes_whole _ (padLen_whole bits)).2.2

theorem packBits_unpackBits (bs : Bytes) : packBits (unpackBits bs) = bs := by
  rw [packBits_eq_spec]
  induction bs with
  | nil => exact bitsToBytes_nil
  | cons x xs ih =>
    have hform : ∃ c0 c1 c2 c3 c4 c5 c6 c7, byteBitsBE 8 x.toNat = [c0, c1, c2, c3, c4, c5, c6, c7] :=
      ⟨_, _, _, _, _, _, _, _, rfl⟩
    obtain ⟨c0, c1, c2, c3, c4, c5, c6, c7, hc⟩ := hform
    have hb : byteOf [c0, c1, c2, c3, c4, c5, c6, c7] = x.toNat := by
      rw [← hc]; exact byteOf_byteBits _ x.toNat_lt
    rw [unpackBits_cons, hc]
    simp only [List.cons_append, List.nil_append]
    rw [bitsToBytes_cons]
    simp only [List.take_succ_cons, List.take_zero, List.drop_succ_cons, List.drop_zero]
    rw [hb, ih, UInt8.ofNat_toNat]

/-! ### serialize_gcs / decode_gcs -/

theorem decodeGcsLoop_gcsBits (xs : List Nat) : ∀ (last : Nat) (r : List Bool),
    (∀ x ∈ xs, last ≤ x) → xs.Pairwise (· ≤ ·) →
    decodeGcsLoop xs.length last (gcsBits last xs ++ r) = some xs := by
  induction xs with
  | nil => intro last r _ _; rfl
  | cons item rest ih =>
    intro last r hlast hs
    have hle : last ≤ item := hlast item (List.mem_cons_self)
    rw [List.pairwise_cons] at hs
    rw [gcsBits, List.length_cons, decodeGcsLoop, List.append_assoc, decodeGolomb_encodeGolomb]
    have hcur : last + (item - last) = item := by omega
    simp only [Option.bind_eq_bind, Option.bind_some, hcur]
    rw [ih item r hs.1 hs.2]
    rfl

theorem serializeGcs_eq {xs : List Nat} {b : Bytes} (h : serializeGcs xs = some b) :
    ∃ e, encodeVarint xs.length = some e ∧ b = e ++ packBits (gcsBits 0 xs) := by
  unfold serializeGcs at h
  cases he : encodeVarint xs.length with
  | none => rw [he] at h; cases h
  | some e => rw [he] at h; cases h; exact ⟨e, rfl, rfl⟩

/-- decode_gcs inverts serialize_gcs on non-decreasing lists -/
theorem decodeGcs_serializeGcs (xs : List Nat) (hs : xs.Pairwise (· ≤ ·)) (b : Bytes)
    (h : serializeGcs xs = some b) : decodeGcs b = some xs := by
  obtain ⟨e, he, rfl⟩ := serializeGcs_eq h
  unfold decodeGcs
  rw [readVarint_encodeVarint _ _ _ he]
  simp only [Option.bind_eq_bind, Option.bind_some]
  rw [unpackBits_packBits]
  exact decodeGcsLoop_gcsBits xs 0 _ (fun _ _ => Nat.zero_le _) hs

theorem serializeGcs_isSome (xs : List Nat) : (serializeGcs xs).isSome ↔ xs.length < 2 ^ 64 := by
  unfold serializeGcs
  rw [Option.isSome_map, encodeVarint_isSome_iff]

/-! ### encode_gcs is the BIP158 construction -/

theorem mapM_some {α β : Type} (g : α → β) (l : List α) :
    l.mapM (fun a => (some (g a) : Option β)) = some (l.map g) := by
  induction l with
  | nil => rfl
  | cons a l ih => simp [List.mapM_cons, ih]

theorem mapM_option_spec {α β : Type} (g : α → Option β) (l : List α) (out : List β)
    (h : l.mapM g = some out) : out.length = l.length ∧ ∀ x ∈ l, ∃ y, g x = some y ∧ y ∈ out := by
  induction l generalizing out with
  | nil => simp at h; subst h; simp
  | cons a l ih =>
    rw [List.mapM_cons] at h
    cases ha : g a with
    | none => rw [ha] at h; simp at h
    | some y =>
      cases hl : l.mapM g with
      | none => rw [ha, hl] at h; simp at h
      | some ys =>
        rw [ha, hl] at h
        simp at h
        subst h
        obtain ⟨h1, h2⟩ := ih ys hl
        refine ⟨by simp [h1], ?_⟩
        intro x hx
        rcases List.mem_cons.mp hx with rfl | hx
        · exact ⟨y, ha, List.mem_cons_self⟩
        · obtain ⟨z, hz1, hz2⟩ := h2 x hx
          exact ⟨z, hz1, List.mem_cons_of_mem _ hz2⟩

theorem gcsBits_eq_spec (last : Nat) (vs : List Nat) :
    gcsBits last vs = (deltas last vs).flatMap (fun d => golombEncode d bip158P) := by
  induction vs generalizing last with
  | nil => rfl
  | cons v vs ih =>
    rw [gcsBits, deltas, List.flatMap_cons, ih, encodeGolomb_eq_spec]
    rfl

theorem hashToRange_eq_spec (key value : Bytes) (f : Nat) (hk : key.length = 16) :
    hashToRange key value f = some (((sipHash24 key value).toNat * f) / 2 ^ 64) := by
  unfold hashToRange
  rw [siphash_eq_spec key value hk, Option.map_some, Nat.shiftRight_eq_div_pow]

/-- encode_gcs is the BIP158 construction (N = number of items, F = N·M, M = 784931, P = 19) -/
theorem encodeGcs_eq_spec (key : Bytes) (items : List Bytes) (hk : key.length = 16) :
    encodeGcs key items = Spec.Filters.gcsFilter (Spec.Filters.sipHash24 key) items := by
  unfold encodeGcs hashedItems gcsFilter
  simp only [hashToRange_eq_spec _ _ _ hk]
  rw [mapM_some]
  simp only [Option.map_some, Option.bind_eq_bind, Option.bind_some, serializeGcs, sortNat]
  rw [List.length_mergeSort, List.length_map, gcsBits_eq_spec, packBits_eq_spec]
  rfl

/-! ### round trips on filters -/

theorem sortNat_pairwise (l : List Nat) : (sortNat l).Pairwise (· ≤ ·) := by
  have h := List.pairwise_mergeSort (le := fun (a b : Nat) => decide (a ≤ b))
    (by intro a b c; simp only [decide_eq_true_eq]; omega)
    (by intro a b; simp only [Bool.or_eq_true, decide_eq_true_eq]; omega) l
  simpa [sortNat] using h

theorem sortNat_of_pairwise {l : List Nat} (h : l.Pairwise (· ≤ ·)) : sortNat l = l := by
  unfold sortNat
  apply List.mergeSort_of_pairwise
  simpa using h

theorem sortNat_length (l : List Nat) : (sortNat l).length = l.length := List.length_mergeSort l

theorem mem_sortNat {a : Nat} {l : List Nat} : a ∈ sortNat l ↔ a ∈ l :=
  (List.mergeSort_perm l _).mem_iff

theorem encodeGcs_eq {key : Bytes} {items : List Bytes} {fb : Bytes} (h : encodeGcs key items = some fb) :
    ∃ raw, items.mapM (fun it => hashToRange key it (items.length * Gen.golombM)) = some raw ∧
      hashedItems key items = some (sortNat raw) ∧ serializeGcs (sortNat raw) = some fb := by
  unfold encodeGcs hashedItems at h
  unfold hashedItems
  cases hm : items.mapM (fun it => hashToRange key it (items.length * Gen.golombM)) with
  | none => simp [hm] at h
  | some raw =>
    simp only [hm, Option.map_some, Option.bind_eq_bind, Option.bind_some] at h
    refine ⟨raw, rfl, ?_, h⟩
    simp only [hm, Option.map_some]

/-- decoding a built filter gives the sorted hashed values -/
theorem decodeGcs_encodeGcs (key : Bytes) (items : List Bytes) (fb : Bytes)
    (h : encodeGcs key items = some fb) :
    ∃ hs, hashedItems key items = some hs ∧ decodeGcs fb = some hs := by
  obtain ⟨raw, _, h2, h3⟩ := encodeGcs_eq h
  exact ⟨sortNat raw, h2, decodeGcs_serializeGcs _ (sortNat_pairwise raw) _ h3⟩

/-- more generally for any received filter that is the serialisation of a non-decreasing list -/
theorem compact_parse_serialize' (key : Bytes) (xs : List Nat) (hs : xs.Pairwise (· ≤ ·)) (fb : Bytes)
    (h : serializeGcs xs = some fb) :
    ∃ cf, CompactFilter.parse false key fb = some cf ∧ cf.hashes = xs ∧ cf.f = xs.length * 784931 ∧
      cf.serialize = some fb := by
  refine ⟨CompactFilter.init false key xs, ?_, ?_, ?_, ?_⟩
  · unfold CompactFilter.parse
    rw [decodeGcs_serializeGcs xs hs fb h, Option.map_some]
  · simp [CompactFilter.init, sortNat_of_pairwise hs]
  · simp [CompactFilter.init, sortNat_of_pairwise hs]
  · simp [CompactFilter.init, CompactFilter.serialize, sortNat_of_pairwise hs, h]

/-- parse then serialize reproduces the filter bytes (so the filter hash and the header chain are those of
    the received filter) -/
theorem compact_parse_serialize (key : Bytes) (items : List Bytes) (fb : Bytes)
    (h : encodeGcs key items = some fb) :
    ∃ cf, CompactFilter.parse false key fb = some cf ∧ cf.serialize = some fb := by
  obtain ⟨raw, _, _, h3⟩ := encodeGcs_eq h
  obtain ⟨cf, h1, _, _, h4⟩ := compact_parse_serialize' key _ (sortNat_pairwise raw) fb h3
  exact ⟨cf, h1, h4⟩

/-- NO FALSE NEGATIVES (repaired code, dedup = false): every item of the list a filter was built from is
    reported present -/
theorem compact_no_false_negatives (key : Bytes) (items : List Bytes) (fb : Bytes)
    (h : encodeGcs key items = some fb) (x : Bytes) (hx : x ∈ items) :
    ∃ cf, CompactFilter.parse false key fb = some cf ∧ cf.f = items.length * 784931 ∧
      cf.contains x = some true := by
  obtain ⟨raw, h1, _, h3⟩ := encodeGcs_eq h
  obtain ⟨hlen, hmem⟩ := mapM_option_spec _ _ _ h1
  have hsort := sortNat_of_pairwise (sortNat_pairwise raw)
  have hf : (CompactFilter.init false key (sortNat raw)).f = items.length * 784931 := by
    simp [CompactFilter.init, hsort, sortNat_length, hlen]
  refine ⟨CompactFilter.init false key (sortNat raw), ?_, hf, ?_⟩
  · unfold CompactFilter.parse
    rw [decodeGcs_serializeGcs _ (sortNat_pairwise raw) fb h3, Option.map_some]
  · obtain ⟨y, hy1, hy2⟩ := hmem x hx
    unfold CompactFilter.contains
    rw [hf]
    have hk : (CompactFilter.init false key (sortNat raw)).key = key := rfl
    have hh : (CompactFilter.init false key (sortNat raw)).hashes = sortNat raw := by
      simp [CompactFilter.init, hsort]
    rw [hk, hh, hy1, Option.map_some]
    congr 1
    rw [List.contains_iff_mem, mem_sortNat]
    exact hy2

/-! ### F18a: the set-based filter of the code before the fix -/

/-- F18a (the behaviour before the fix, dedup = true): with two items hashing to the same value the
    set-based filter uses F = 1·M instead of 2·M, reports both inserted items absent and re-serialises to
    different bytes.  key = 16 zero bytes, items = [02 82 03], [02 b4 05]: both map to 728580 under
    F = 2·784931; filter bytes 02 98 f0 20 00 00 00. -/
theorem F18a_witness :
    let key : Bytes := List.replicate 16 0
    let a : Bytes := [0x02, 0x82, 0x03]
    let b : Bytes := [0x02, 0xb4, 0x05]
    encodeGcs key [a, b] = some [0x02, 0x98, 0xf0, 0x20, 0x00, 0x00, 0x00] ∧
    (∃ cf, CompactFilter.parse true key [0x02, 0x98, 0xf0, 0x20, 0x00, 0x00, 0x00] = some cf ∧
       cf.contains a = some false ∧ cf.contains b = some false ∧
       cf.serialize ≠ some [0x02, 0x98, 0xf0, 0x20, 0x00, 0x00, 0x00]) := by
  intro key a b
  have hsort : sortNat [728580, 728580] = [728580, 728580] :=
    sortNat_of_pairwise (by decide)
  have hmap : [a, b].mapM (fun it => hashToRange key it ([a, b].length * Gen.golombM))
      = some [728580, 728580] := by decide +kernel
  have hser : serializeGcs [728580, 728580] = some [0x02, 0x98, 0xf0, 0x20, 0x00, 0x00, 0x00] := by
    decide +kernel
  have hdec : decodeGcs [0x02, 0x98, 0xf0, 0x20, 0x00, 0x00, 0x00] = some [728580, 728580] := by
    decide +kernel
  refine ⟨?_, CompactFilter.init true key [728580, 728580], ?_, ?_, ?_, ?_⟩
  · unfold encodeGcs hashedItems
    simp only [hmap, Option.map_some, hsort, Option.bind_eq_bind, Option.bind_some, hser]
  · unfold CompactFilter.parse
    rw [hdec, Option.map_some]
  all_goals
    have hinit : CompactFilter.init true key [728580, 728580]
        = { key := key, hashes := [728580], f := 784931 } := by
      simp only [CompactFilter.init, hsort]; decide
    rw [hinit]
    decide +kernel

end Buidl.Filters
