/-
  Buidl.Proofs.DescriptorPoly — algebra of Bitcoin Core's descriptor-checksum step (`polyMod`):
  it is `L c ⊕ v` with `L` linear over XOR and injective below 2^40, so that two symbol streams which
  differ only inside a window of at most eight symbols end in different 40-bit states
  (`fold_detects_window`).  Mathlib-free; finite facts about the five generator constants are checked
  by `decide` over the 32 values of the five top bits.
-/
import Buidl.Spec.DescriptorChecksum
namespace Buidl.Spec.DescriptorChecksum

/-- the generator contribution selected by the five top bits -/
def G5 (t : Nat) : Nat :=
  (if t &&& 1 ≠ 0 then 0xf5dee51989 else 0) ^^^ ((if t &&& 2 ≠ 0 then 0xa9fdca3312 else 0) ^^^
  ((if t &&& 4 ≠ 0 then 0x1bab10e32d else 0) ^^^ ((if t &&& 8 ≠ 0 then 0x3706b1677a else 0) ^^^
  (if t &&& 16 ≠ 0 then 0x644d626ffd else 0))))

theorem ite_xor (p : Prop) [Decidable p] (x g : Nat) : (if p then x ^^^ g else x) = x ^^^ (if p then g else 0) := by
  split <;> simp

theorem polyMod_G5 (c v : Nat) : polyMod c v = (((c &&& 0x7ffffffff) <<< 5) ^^^ v) ^^^ G5 (c >>> 35) := by
  unfold polyMod G5
  simp only [ite_xor]
  simp only [Nat.xor_assoc]

theorem G5_mod (t : Nat) : G5 t = G5 (t % 32) := by
  have h : t % 32 = t &&& 31 := by
    have := Nat.and_two_pow_sub_one_eq_mod t 5
    simpa using this.symm
  unfold G5
  rw [h]
  simp only [Nat.and_assoc]
  rfl

theorem G5_lin_small : ∀ a < 32, ∀ b < 32, G5 (a ^^^ b) = G5 a ^^^ G5 b := by decide

theorem G5_lin (a b : Nat) : G5 (a ^^^ b) = G5 a ^^^ G5 b := by
  rw [G5_mod (a ^^^ b), G5_mod a, G5_mod b]
  have : (a ^^^ b) % 32 = a % 32 ^^^ b % 32 := Nat.xor_mod_two_pow (n := 5)
  rw [this]
  exact G5_lin_small _ (Nat.mod_lt _ (by decide)) _ (Nat.mod_lt _ (by decide))

/-- the linear part of the step -/
def L (c : Nat) : Nat := polyMod c 0

theorem polyMod_eq_L (c v : Nat) : polyMod c v = L c ^^^ v := by
  unfold L
  rw [polyMod_G5, polyMod_G5]
  simp only [Nat.xor_zero]
  ac_rfl

theorem L_lin (a b : Nat) : L (a ^^^ b) = L a ^^^ L b := by
  unfold L
  rw [polyMod_G5, polyMod_G5, polyMod_G5]
  simp only [Nat.xor_zero, Nat.and_xor_distrib_right, Nat.shiftLeft_xor_distrib, Nat.shiftRight_xor_distrib, G5_lin]
  ac_rfl

theorem step_lin (a b v w : Nat) : polyMod a v ^^^ polyMod b w = polyMod (a ^^^ b) (v ^^^ w) := by
  rw [polyMod_eq_L a, polyMod_eq_L b, polyMod_eq_L (a ^^^ b), L_lin]
  ac_rfl

theorem xor_eq_zero_imp {a b : Nat} (h : a ^^^ b = 0) : a = b := by
  have : a ^^^ (a ^^^ b) = a := by rw [h, Nat.xor_zero]
  rw [← Nat.xor_assoc, Nat.xor_self, Nat.zero_xor] at this
  exact this.symm

theorem xor_ne_zero_of_ne {a b : Nat} (h : a ≠ b) : a ^^^ b ≠ 0 := fun h0 => h (xor_eq_zero_imp h0)

/-- the fold of the step is additive over XOR (streams of equal length) -/
theorem fold_lin : ∀ (w w' : List Nat), w.length = w'.length → ∀ a b : Nat,
    w.foldl polyMod a ^^^ w'.foldl polyMod b = (List.zipWith (· ^^^ ·) w w').foldl polyMod (a ^^^ b)
  | [], [], _, a, b => by simp
  | [], _ :: _, h, _, _ => by simp at h
  | _ :: _, [], h, _, _ => by simp at h
  | v :: w, v' :: w', h, a, b => by
    simp only [List.foldl_cons, List.zipWith_cons_cons]
    rw [fold_lin w w' (by simpa using h), step_lin]

theorem G5_lt_small : ∀ t < 32, G5 t < 2 ^ 40 := by decide

theorem G5_lt (t : Nat) : G5 t < 2 ^ 40 := by
  rw [G5_mod]; exact G5_lt_small _ (Nat.mod_lt _ (by decide))

theorem polyMod_lt {c v : Nat} (hv : v < 32) : polyMod c v < 2 ^ 40 := by
  rw [polyMod_G5]
  apply Nat.xor_lt_two_pow _ (G5_lt _)
  apply Nat.xor_lt_two_pow _ (by omega)
  rw [Nat.shiftLeft_eq]
  have : c &&& 0x7ffffffff ≤ 0x7ffffffff := Nat.and_le_right
  omega

theorem fold_lt : ∀ (w : List Nat), (∀ x ∈ w, x < 32) → ∀ c, c < 2 ^ 40 → w.foldl polyMod c < 2 ^ 40
  | [], _, c, hc => hc
  | v :: w, hw, c, _ => by
    simp only [List.foldl_cons]
    exact fold_lt w (fun x hx => hw x (by simp [hx])) _ (polyMod_lt (hw v (by simp)))

theorem G5_low_small : ∀ t < 32, G5 t % 32 = 0 → t = 0 := by decide

/-- below 2^35 the step does not reduce: it appends the symbol -/
theorem polyMod_small {c : Nat} (hc : c < 2 ^ 35) (v : Nat) : polyMod c v = (c <<< 5) ^^^ v := by
  rw [polyMod_G5]
  have h0 : c >>> 35 = 0 := by rw [Nat.shiftRight_eq_div_pow]; exact Nat.div_eq_of_lt hc
  have hm : c &&& 0x7ffffffff = c := by
    have := Nat.and_two_pow_sub_one_of_lt_two_pow (n := 35) hc
    simpa using this
  rw [h0, hm]
  simp [G5]

theorem L_eq_zero {c : Nat} (hc : c < 2 ^ 40) (h : L c = 0) : c = 0 := by
  unfold L at h
  rw [polyMod_G5, Nat.xor_zero] at h
  have ht : c >>> 35 < 32 := by
    rw [Nat.shiftRight_eq_div_pow]
    apply Nat.div_lt_of_lt_mul
    omega
  have hx := xor_eq_zero_imp h
  have hmod : G5 (c >>> 35) % 32 = 0 := by
    rw [← hx, Nat.shiftLeft_eq]
    exact Nat.mul_mod_left _ _ |>.symm ▸ (by simp)
  have h0 := G5_low_small _ ht hmod
  have hc35 : c < 2 ^ 35 := by
    rw [Nat.shiftRight_eq_div_pow] at h0
    exact (Nat.div_eq_zero_iff_lt (by decide)).mp h0
  have : polyMod c 0 = 0 := by rw [polyMod_G5, Nat.xor_zero]; exact h
  rw [polyMod_small hc35, Nat.xor_zero, Nat.shiftLeft_eq] at this
  omega

theorem polyMod_small_ne_zero {c v : Nat} (hc : c < 2 ^ 35) (hc0 : c ≠ 0) (hv : v < 32) : polyMod c v ≠ 0 := by
  rw [polyMod_small hc]
  intro h
  have := xor_eq_zero_imp h
  rw [Nat.shiftLeft_eq] at this
  omega

theorem polyMod_small_lt {c v k : Nat} (hk : k ≤ 35) (hc : c < 2 ^ k) (hv : v < 32) : polyMod c v < 2 ^ (k + 5) := by
  have h35 : c < 2 ^ 35 := Nat.lt_of_lt_of_le hc (Nat.pow_le_pow_right (by decide) hk)
  rw [polyMod_small h35]
  have h32 : (32 : Nat) ≤ 2 ^ (k + 5) := by
    have : 2 ^ 5 ≤ 2 ^ (k + 5) := Nat.pow_le_pow_right (by decide) (by omega)
    simpa using this
  apply Nat.xor_lt_two_pow
  · rw [Nat.shiftLeft_eq, Nat.pow_add]
    exact Nat.mul_lt_mul_of_lt_of_le hc (Nat.le_refl _) (by decide)
  · omega

/-- a window of at most eight symbols fed into a state that is "short enough" never returns to zero, unless
    everything was zero -/
theorem fold_window_ne_zero : ∀ (u : List Nat), (∀ x ∈ u, x < 32) → ∀ (c k : Nat), c < 2 ^ k → k + 5 * u.length ≤ 40 →
    (c ≠ 0 ∨ ∃ x ∈ u, x ≠ 0) → u.foldl polyMod c ≠ 0 ∧ u.foldl polyMod c < 2 ^ (k + 5 * u.length)
  | [], _, c, k, hc, _, h => by
    rcases h with h | ⟨x, hx, _⟩
    · exact ⟨h, by simpa using hc⟩
    · cases hx
  | v :: u, hu, c, k, hc, hlen, h => by
    simp only [List.length_cons] at hlen
    have hk : k ≤ 35 := by omega
    have hv : v < 32 := hu v (by simp)
    have hu' : ∀ x ∈ u, x < 32 := fun x hx => hu x (by simp [hx])
    have hc' := polyMod_small_lt hk hc hv
    simp only [List.foldl_cons, List.length_cons]
    have hexp : k + 5 * (u.length + 1) = (k + 5) + 5 * u.length := by omega
    rw [hexp]
    apply fold_window_ne_zero u hu' (polyMod c v) (k + 5) hc' (by omega)
    by_cases hc0 : c = 0
    · subst hc0
      have : polyMod 0 v = v := by rw [polyMod_small (by decide)]; simp
      rw [this]
      by_cases hv0 : v = 0
      · right
        rcases h with h | ⟨x, hx, hx0⟩
        · exact absurd rfl h
        · rcases List.mem_cons.mp hx with rfl | hx
          · exact absurd hv0 hx0
          · exact ⟨x, hx, hx0⟩
      · exact Or.inl hv0
    · left
      have h35 : c < 2 ^ 35 := Nat.lt_of_lt_of_le hc (Nat.pow_le_pow_right (by decide) hk)
      exact polyMod_small_ne_zero h35 hc0 hv

theorem fold_zeros_ne_zero : ∀ (j : Nat) (y : Nat), y ≠ 0 → y < 2 ^ 40 →
    (List.replicate j 0).foldl polyMod y ≠ 0
  | 0, y, hy, _ => by simpa using hy
  | j + 1, y, hy, hlt => by
    simp only [List.replicate_succ, List.foldl_cons]
    apply fold_zeros_ne_zero j _ _ (polyMod_lt (by decide))
    intro h
    exact hy (L_eq_zero hlt h)

theorem zipWith_xor_self (w : List Nat) : List.zipWith (· ^^^ ·) w w = List.replicate w.length 0 := by
  induction w with
  | nil => rfl
  | cons v w ih =>
    simp only [List.zipWith_cons_cons, Nat.xor_self, List.length_cons, List.replicate_succ, ih]

/-- different states (below 2^40) stay different under the same symbols -/
theorem fold_ne_of_ne (w : List Nat) {y y' : Nat} (hy : y < 2 ^ 40) (hy' : y' < 2 ^ 40) (hne : y ≠ y') :
    w.foldl polyMod y ≠ w.foldl polyMod y' := by
  intro h
  have := fold_lin w w rfl y y'
  rw [h, Nat.xor_self, zipWith_xor_self] at this
  exact fold_zeros_ne_zero _ _ (xor_ne_zero_of_ne hne) (Nat.xor_lt_two_pow hy hy') this.symm

theorem exists_ne_of_ne : ∀ (g g' : List Nat), g.length = g'.length → g ≠ g' →
    ∃ x ∈ List.zipWith (· ^^^ ·) g g', x ≠ 0
  | [], [], _, h => absurd rfl h
  | [], _ :: _, h, _ => by simp at h
  | _ :: _, [], h, _ => by simp at h
  | a :: g, b :: g', hl, hne => by
    by_cases hab : a = b
    · subst hab
      have hne' : g ≠ g' := fun h => hne (by rw [h])
      obtain ⟨x, hx, hx0⟩ := exists_ne_of_ne g g' (by simpa using hl) hne'
      exact ⟨x, by simp [hx], hx0⟩
    · exact ⟨a ^^^ b, by simp, xor_ne_zero_of_ne hab⟩

/-- two symbol streams that differ only inside a window of at most eight symbols lead to different states -/
theorem fold_detects_window (S G G' T : List Nat) (c0 : Nat) (hc0 : c0 < 2 ^ 40)
    (hS : ∀ x ∈ S, x < 32) (hG : ∀ x ∈ G, x < 32) (hG' : ∀ x ∈ G', x < 32)
    (hl : G.length = G'.length) (h8 : G.length ≤ 8) (hne : G ≠ G') :
    (S ++ G ++ T).foldl polyMod c0 ≠ (S ++ G' ++ T).foldl polyMod c0 := by
  simp only [List.foldl_append]
  have hc := fold_lt S hS c0 hc0
  apply fold_ne_of_ne T (fold_lt G hG _ hc) (fold_lt G' hG' _ hc)
  intro h
  have hx := fold_lin G G' hl (S.foldl polyMod c0) (S.foldl polyMod c0)
  rw [h, Nat.xor_self, Nat.xor_self] at hx
  have hz : ∀ x ∈ List.zipWith (· ^^^ ·) G G', x < 32 := by
    intro x hx
    obtain ⟨i, hi, rfl⟩ := List.getElem_of_mem hx
    simp only [List.getElem_zipWith]
    simp only [List.length_zipWith] at hi
    exact Nat.xor_lt_two_pow (n := 5) (hG _ (List.getElem_mem _)) (hG' _ (List.getElem_mem _))
  have := (fold_window_ne_zero _ hz 0 0 (by decide)
    (by simp only [List.length_zipWith]; omega) (Or.inr (exists_ne_of_ne G G' hl hne))).1
  exact this hx.symm

/-! ## the rendered checksum determines the 40-bit value -/

theorem charset_inj : ∀ i < 32, ∀ j < 32, CHECKSUM_CHARSET[i]? = CHECKSUM_CHARSET[j]? → i = j := by decide

theorem charset_some : ∀ i < 32, (CHECKSUM_CHARSET[i]?).isSome = true := by decide

theorem and31_lt (x : Nat) : x &&& 31 < 32 := by
  have := Nat.and_two_pow_sub_one_eq_mod x 5
  have h : x &&& 31 = x % 32 := by simpa using this
  rw [h]; exact Nat.mod_lt _ (by decide)

theorem render_inj {c c' : Nat} (hc : c < 2 ^ 40) (hc' : c' < 2 ^ 40) (h : render c = render c') : c = c' := by
  unfold render at h
  simp only [List.mapM_cons, List.mapM_nil, Option.bind_eq_bind, Option.pure_def] at h
  have get : ∀ x : Nat, ∃ ch, CHECKSUM_CHARSET[x &&& 31]? = some ch := fun x =>
    Option.isSome_iff_exists.mp (charset_some _ (and31_lt x))
  obtain ⟨a7, e7⟩ := get (c >>> (5 * 7)); obtain ⟨b7, f7⟩ := get (c' >>> (5 * 7))
  obtain ⟨a6, e6⟩ := get (c >>> (5 * 6)); obtain ⟨b6, f6⟩ := get (c' >>> (5 * 6))
  obtain ⟨a5, e5⟩ := get (c >>> (5 * 5)); obtain ⟨b5, f5⟩ := get (c' >>> (5 * 5))
  obtain ⟨a4, e4⟩ := get (c >>> (5 * 4)); obtain ⟨b4, f4⟩ := get (c' >>> (5 * 4))
  obtain ⟨a3, e3⟩ := get (c >>> (5 * 3)); obtain ⟨b3, f3⟩ := get (c' >>> (5 * 3))
  obtain ⟨a2, e2⟩ := get (c >>> (5 * 2)); obtain ⟨b2, f2⟩ := get (c' >>> (5 * 2))
  obtain ⟨a1, e1⟩ := get (c >>> (5 * 1)); obtain ⟨b1, f1⟩ := get (c' >>> (5 * 1))
  obtain ⟨a0, e0⟩ := get (c >>> (5 * 0)); obtain ⟨b0, f0⟩ := get (c' >>> (5 * 0))
  rw [e7, e6, e5, e4, e3, e2, e1, e0, f7, f6, f5, f4, f3, f2, f1, f0] at h
  simp only [Option.bind_some, Option.some.injEq, List.cons.injEq, and_true] at h
  obtain ⟨h7, h6, h5, h4, h3, h2, h1, h0⟩ := h
  have g7 := charset_inj _ (and31_lt _) _ (and31_lt _) (e7.trans (h7 ▸ f7.symm))
  have g6 := charset_inj _ (and31_lt _) _ (and31_lt _) (e6.trans (h6 ▸ f6.symm))
  have g5 := charset_inj _ (and31_lt _) _ (and31_lt _) (e5.trans (h5 ▸ f5.symm))
  have g4 := charset_inj _ (and31_lt _) _ (and31_lt _) (e4.trans (h4 ▸ f4.symm))
  have g3 := charset_inj _ (and31_lt _) _ (and31_lt _) (e3.trans (h3 ▸ f3.symm))
  have g2 := charset_inj _ (and31_lt _) _ (and31_lt _) (e2.trans (h2 ▸ f2.symm))
  have g1 := charset_inj _ (and31_lt _) _ (and31_lt _) (e1.trans (h1 ▸ f1.symm))
  have g0 := charset_inj _ (and31_lt _) _ (and31_lt _) (e0.trans (h0 ▸ f0.symm))
  have m : ∀ x : Nat, x &&& 31 = x % 32 := fun x => by
    have := Nat.and_two_pow_sub_one_eq_mod x 5; simpa using this
  simp only [m, Nat.shiftRight_eq_div_pow] at g7 g6 g5 g4 g3 g2 g1 g0
  omega

/-! ## one substituted character changes at most four consecutive symbols -/

theorem and31_mod (x : Nat) : x &&& 31 = x % 32 := by
  have := Nat.and_two_pow_sub_one_eq_mod x 5; simpa using this

theorem pos_split_ne {a a' : Nat} (h : a ≠ a') : ¬ (a &&& 31 = a' &&& 31 ∧ a >>> 5 = a' >>> 5) := by
  rw [and31_mod, and31_mod, Nat.shiftRight_eq_div_pow, Nat.shiftRight_eq_div_pow]
  intro ⟨h1, h2⟩
  apply h
  have : (2:Nat) ^ 5 = 32 := by decide
  rw [this] at h2
  omega

theorem cls_le {p : Nat} (h : p < 96) : p >>> 5 ≤ 2 := by
  rw [Nat.shiftRight_eq_div_pow]
  have : (2:Nat) ^ 5 = 32 := by decide
  rw [this]; omega

theorem symbols_lt : ∀ (ps : List Nat), (∀ p ∈ ps, p < 96) → ∀ x ∈ symbols ps, x < 32
  | [], _, x, hx => by simp [symbols] at hx
  | [p1], h, x, hx => by
    have c1 := cls_le (h p1 (by simp))
    simp only [symbols, List.mem_cons, List.not_mem_nil, or_false] at hx
    rcases hx with rfl | rfl
    · exact and31_lt _
    · omega
  | [p1, p2], h, x, hx => by
    have c1 := cls_le (h p1 (by simp))
    have c2 := cls_le (h p2 (by simp))
    simp only [symbols, List.mem_cons, List.not_mem_nil, or_false] at hx
    rcases hx with rfl | rfl | rfl
    · exact and31_lt _
    · exact and31_lt _
    · omega
  | p1 :: p2 :: p3 :: rest, h, x, hx => by
    have c1 := cls_le (h p1 (by simp))
    have c2 := cls_le (h p2 (by simp))
    have c3 := cls_le (h p3 (by simp))
    simp only [symbols, List.mem_append, List.mem_cons, List.not_mem_nil, or_false] at hx
    rcases hx with (rfl | rfl | rfl | rfl) | hx
    · exact and31_lt _
    · exact and31_lt _
    · exact and31_lt _
    · omega
    · exact symbols_lt rest (fun p hp => h p (by simp [hp])) x hx

theorem symbols_subst : ∀ (pre post : List Nat) (a a' : Nat), a ≠ a' →
    ∃ S G G' T, symbols (pre ++ a :: post) = S ++ G ++ T ∧ symbols (pre ++ a' :: post) = S ++ G' ++ T ∧
      G.length = G'.length ∧ G.length ≤ 4 ∧ G ≠ G'
  | p1 :: p2 :: p3 :: pre, post, a, a', hne => by
    obtain ⟨S, G, G', T, h1, h2, hl, h4, hg⟩ := symbols_subst pre post a a' hne
    refine ⟨[p1 &&& 31, p2 &&& 31, p3 &&& 31, 9 * (p1 >>> 5) + 3 * (p2 >>> 5) + (p3 >>> 5)] ++ S, G, G', T, ?_, ?_, hl, h4, hg⟩
    · simp only [List.cons_append, symbols, h1, List.append_assoc, List.nil_append]
    · simp only [List.cons_append, symbols, h2, List.append_assoc, List.nil_append]
  | [], [], a, a', hne => by
    refine ⟨[], [a &&& 31, a >>> 5], [a' &&& 31, a' >>> 5], [], by simp [symbols], by simp [symbols], rfl, by simp, ?_⟩
    intro h
    simp only [List.cons.injEq, and_true] at h
    exact pos_split_ne hne h
  | [], [b], a, a', hne => by
    refine ⟨[], [a &&& 31, b &&& 31, 3 * (a >>> 5) + (b >>> 5)], [a' &&& 31, b &&& 31, 3 * (a' >>> 5) + (b >>> 5)], [],
      by simp [symbols], by simp [symbols], rfl, by simp, ?_⟩
    intro h
    simp only [List.cons.injEq, and_true, true_and] at h
    exact pos_split_ne hne ⟨h.1, by omega⟩
  | [], b :: c :: rest, a, a', hne => by
    refine ⟨[], [a &&& 31, b &&& 31, c &&& 31, 9 * (a >>> 5) + 3 * (b >>> 5) + (c >>> 5)],
      [a' &&& 31, b &&& 31, c &&& 31, 9 * (a' >>> 5) + 3 * (b >>> 5) + (c >>> 5)], symbols rest,
      by simp [symbols], by simp [symbols], rfl, by simp, ?_⟩
    intro h
    simp only [List.cons.injEq, and_true, true_and] at h
    exact pos_split_ne hne ⟨h.1, by omega⟩
  | [x], [], a, a', hne => by
    refine ⟨[], [x &&& 31, a &&& 31, 3 * (x >>> 5) + (a >>> 5)], [x &&& 31, a' &&& 31, 3 * (x >>> 5) + (a' >>> 5)], [],
      by simp [symbols], by simp [symbols], rfl, by simp, ?_⟩
    intro h
    simp only [List.cons.injEq, and_true, true_and] at h
    exact pos_split_ne hne ⟨h.1, by omega⟩
  | [x], c :: rest, a, a', hne => by
    refine ⟨[], [x &&& 31, a &&& 31, c &&& 31, 9 * (x >>> 5) + 3 * (a >>> 5) + (c >>> 5)],
      [x &&& 31, a' &&& 31, c &&& 31, 9 * (x >>> 5) + 3 * (a' >>> 5) + (c >>> 5)], symbols rest,
      by simp [symbols], by simp [symbols], rfl, by simp, ?_⟩
    intro h
    simp only [List.cons.injEq, and_true, true_and] at h
    exact pos_split_ne hne ⟨h.1, by omega⟩
  | [x, y], post, a, a', hne => by
    refine ⟨[], [x &&& 31, y &&& 31, a &&& 31, 9 * (x >>> 5) + 3 * (y >>> 5) + (a >>> 5)],
      [x &&& 31, y &&& 31, a' &&& 31, 9 * (x >>> 5) + 3 * (y >>> 5) + (a' >>> 5)], symbols post,
      by simp [symbols], by simp [symbols], rfl, by simp, ?_⟩
    intro h
    simp only [List.cons.injEq, and_true, true_and] at h
    exact pos_split_ne hne ⟨h.1, by omega⟩

/-! ## the checksum detects every single-character substitution -/

theorem xor_one_cancel (a : Nat) : (a ^^^ 1) ^^^ 1 = a := by
  rw [Nat.xor_assoc, Nat.xor_self, Nat.xor_zero]

theorem checksumValue_lt (ps : List Nat) (h : ∀ p ∈ ps, p < 96) : checksumValue ps < 2 ^ 40 := by
  unfold checksumValue
  apply Nat.xor_lt_two_pow _ (by decide)
  apply fold_lt _ _ 1 (by decide)
  intro x hx
  rcases List.mem_append.mp hx with hx | hx
  · exact symbols_lt ps h x hx
  · rw [List.mem_replicate] at hx; omega

theorem checksumValue_detects (pre post : List Nat) (a a' : Nat) (hne : a ≠ a')
    (h : ∀ p ∈ pre ++ a :: post, p < 96) (h' : ∀ p ∈ pre ++ a' :: post, p < 96) :
    checksumValue (pre ++ a :: post) ≠ checksumValue (pre ++ a' :: post) := by
  obtain ⟨S, G, G', T, h1, h2, hl, h4, hg⟩ := symbols_subst pre post a a' hne
  have hs := symbols_lt _ h
  have hs' := symbols_lt _ h'
  rw [h1] at hs
  rw [h2] at hs'
  unfold checksumValue
  rw [h1, h2]
  intro heq
  have heq' := congrArg (· ^^^ 1) heq
  simp only [xor_one_cancel] at heq'
  rw [List.append_assoc (S ++ G), List.append_assoc (S ++ G')] at heq'
  exact fold_detects_window S G G' (T ++ List.replicate 8 0) 1 (by decide)
    (fun x hx => hs x (by simp [hx])) (fun x hx => hs x (by simp [hx])) (fun x hx => hs' x (by simp [hx]))
    hl (by omega) hg heq'

theorem position_spec : ∀ (l : List Char) (ch : Char) (a : Nat), position ch l = some a → a < l.length ∧ l[a]? = some ch
  | [], _, _, h => by simp [position] at h
  | x :: xs, ch, a, h => by
    unfold position at h
    split at h
    · next hx => cases h; subst hx; simp
    · simp only [Option.map_eq_some_iff] at h
      obtain ⟨b, hb, rfl⟩ := h
      obtain ⟨h1, h2⟩ := position_spec xs ch b hb
      exact ⟨by simp; omega, by simpa using h2⟩

theorem positions_lt : ∀ (s : List Char) (ps : List Nat), positions s = some ps → ∀ p ∈ ps, p < 96
  | [], ps, h, p, hp => by simp [positions] at h; subst h; cases hp
  | ch :: s, ps, h, p, hp => by
    simp only [positions, List.mapM_cons, Option.bind_eq_bind, Option.pure_def, Option.bind_eq_some_iff] at h
    obtain ⟨a, ha, r, hr, hps⟩ := h
    cases hps
    rcases List.mem_cons.mp hp with rfl | hp
    · have := (position_spec _ _ _ ha).1
      have hl : INPUT_CHARSET.length = 95 := by decide
      omega
    · exact positions_lt s r hr p hp

theorem positions_append (s t : List Char) :
    positions (s ++ t) = (positions s).bind fun a => (positions t).map fun b => a ++ b := by
  induction s with
  | nil => simp [positions]
  | cons ch s ih =>
    simp only [positions] at ih ⊢
    simp only [List.cons_append, List.mapM_cons, ih, Option.bind_eq_bind, Option.pure_def]
    cases position ch INPUT_CHARSET with
    | none => simp
    | some a =>
      cases List.mapM (fun ch => position ch INPUT_CHARSET) s with
      | none => simp
      | some r =>
        cases List.mapM (fun ch => position ch INPUT_CHARSET) t <;> simp

/-- Bitcoin Core's descriptor checksum: replacing one character of the input by a different one (both inside
    the input charset, anything else is refused) always changes the eight checksum characters -/
theorem descriptorChecksum_detects_substitution (pre post : List Char) (ch ch' : Char) (hne : ch ≠ ch')
    (cs cs' : List Char) (h : descriptorChecksum (pre ++ ch :: post) = some cs)
    (h' : descriptorChecksum (pre ++ ch' :: post) = some cs') : cs ≠ cs' := by
  unfold descriptorChecksum at h h'
  cases hp : positions (pre ++ ch :: post) with
  | none => rw [hp] at h; cases h
  | some ps =>
    cases hp' : positions (pre ++ ch' :: post) with
    | none => rw [hp'] at h'; cases h'
    | some ps' =>
      rw [hp] at h; rw [hp'] at h'
      simp only [] at h h'
      have hlt := positions_lt _ _ hp
      have hlt' := positions_lt _ _ hp'
      rw [positions_append] at hp hp'
      simp only [Option.bind_eq_some_iff, Option.map_eq_some_iff] at hp hp'
      obtain ⟨ppre, hpre, r, hr, rfl⟩ := hp
      obtain ⟨ppre', hpre', r', hr', rfl⟩ := hp'
      rw [hpre] at hpre'; cases hpre'
      simp only [positions, List.mapM_cons, Option.bind_eq_bind, Option.pure_def, Option.bind_eq_some_iff] at hr hr'
      obtain ⟨a, ha, ppost, hpost, hr⟩ := hr
      obtain ⟨a', ha', ppost', hpost', hr'⟩ := hr'
      cases hr; cases hr'
      rw [hpost] at hpost'; cases hpost'
      have hane : a ≠ a' := by
        intro e; subst e
        have e1 := (position_spec _ _ _ ha).2
        have e2 := (position_spec _ _ _ ha').2
        rw [e1] at e2
        exact hne (Option.some.inj e2)
      intro hcs
      subst hcs
      have := render_inj (checksumValue_lt _ hlt) (checksumValue_lt _ hlt') (h.trans h'.symm)
      exact checksumValue_detects ppre ppost a a' hane hlt hlt' this


end Buidl.Spec.DescriptorChecksum
