/-
  Helper lemmas for C06 (input verification): walking `run` step by step, the standard scripts,
  OP_CHECKMULTISIG, the invariant "the command list ends with the scriptPubKey".
-/
import Buidl.Proofs.Interp
namespace Buidl.Interp
open Buidl Buidl.Script

/-! ## a step never "returns accept" -/

theorem toOut_error {α} {r : Res α} {k : α → Step} {o : Out} (h : r.toOut k = .error o)
    (hk : ∀ a o', k a = .error o' → o' ≠ .accept) : o ≠ .accept := by
  cases r with
  | ok a => exact hk a o h
  | fail => simp only [Res.toOut] at h; cases h; simp
  | err e => simp only [Res.toOut] at h; cases h; simp

syntax "noacc " ident : tactic
macro_rules
  | `(tactic| noacc $h:ident) => `(tactic|
      first
        | (cases $h:ident <;> simp)
        | (split at $h:ident <;> noacc $h)
        | (refine toOut_error $h:ident ?_; intro _ _ h2; try dsimp only at h2
           noacc h2))

theorem stepOp_error_ne_accept {cfg : Cfg} {env : Env} {st : St} {c : Nat} {o : Out}
    (h : stepOp cfg env st c = .error o) : o ≠ .accept := by
  unfold stepOp at h
  noacc h

theorem p2shRule_error_ne_accept {env : Env} {st : St} {b : Bytes} {o : Out}
    (h : p2shRule env st b = .error o) : o ≠ .accept := by
  unfold p2shRule at h
  noacc h

theorem witnessRules_error_ne_accept {cfg : Cfg} {env : Env} {st : St} {o : Out}
    (h : witnessRules cfg env st = .error o) : o ≠ .accept := by
  unfold witnessRules at h
  noacc h

theorem step_error_ne_accept {cfg : Cfg} {env : Env} {st : St} {c : Cmd} {o : Out}
    (h : step cfg env st c = .error o) : o ≠ .accept := by
  cases c with
  | op k => exact stepOp_error_ne_accept h
  | push b =>
    simp only [step] at h
    split at h
    · rename_i o' hp
      cases h
      exact p2shRule_error_ne_accept hp
    · split at h
      · cases h
      · exact witnessRules_error_ne_accept h

/-! ## walking `run` -/

theorem run_accept_nil {cfg : Cfg} {env : Env} {fuel : Nat} {st : St} (h : st.cmds = [])
    (ha : run cfg env fuel st = .accept) : finalTest cfg st.stack = .accept := by
  rwa [run_nil cfg env fuel st h] at ha

theorem run_accept_cons {cfg : Cfg} {env : Env} {fuel : Nat} {st : St} {c : Cmd} {rest : List Cmd}
    (h : st.cmds = c :: rest) (ha : run cfg env fuel st = .accept) :
    ∃ f st', fuel = f + 1 ∧ step cfg env { st with cmds := rest } c = .ok st' ∧
      run cfg env f st' = .accept := by
  cases fuel with
  | zero =>
    unfold run at ha
    simp [h] at ha
  | succ f =>
    rw [run_cons cfg env f st c rest h] at ha
    cases hs : step cfg env { st with cmds := rest } c with
    | error o =>
      rw [hs] at ha
      simp only at ha
      exact absurd ha (step_error_ne_accept hs)
    | ok st' => rw [hs] at ha; exact ⟨f, st', rfl, rfl, ha⟩

/-! ## single steps, the p2pkh tail -/

theorem step_op (cfg : Cfg) (env : Env) (st : St) (t : Bool) (c : Nat) (fn : OpFn) (ht : st.tap = t)
    (hr : resolve t c = some fn) (hc : fn.conv = convOf c)
    (hf : fn ≠ .if_ ∧ fn ≠ .notif ∧ fn ≠ .toaltstack ∧ fn ≠ .fromaltstack) :
    step cfg env st (.op c) = (applyStackFn cfg env fn st.stack).toOut fun s => .ok { st with stack := s } :=
  stepOp_plain cfg env st c fn (ht ▸ hr) hc hf

/-- a push while commands remain, none of which can be the p2sh pattern (repaired: witness
    programs are only looked for when nothing remains) -/
theorem step_push_mid (env : Env) (st : St) (b : Bytes) (hne : st.cmds ≠ [])
    (hp : ∀ h160, st.cmds ≠ [.op 0xA9, .push h160, .op 0x87]) :
    step Cfg.repaired env st (.push b) = .ok { st with stack := b :: st.stack } := by
  have h1 : p2shRule env { st with stack := b :: st.stack } b = .ok { st with stack := b :: st.stack } := by
    unfold p2shRule
    split
    · rename_i h160 heq; exact absurd heq (hp h160)
    · rfl
  simp only [step, h1, Cfg.repaired, Bool.true_and]
  cases hc : st.cmds with
  | nil => exact absurd hc hne
  | cons a r => simp

theorem toOut_ok {α} {r : Res α} {k : α → Step} {st' : St} (h : r.toOut k = .ok st') :
    ∃ a, r = .ok a ∧ k a = .ok st' := by
  cases r with
  | ok a => exact ⟨a, rfl, h⟩
  | fail => cases h
  | err e => cases h

/-- the five commands of a p2pkh ScriptPubKey accept only a stack whose top two items are a
    public key hashing to `h` and a signature that verifies for it -/
theorem p2pkh_tail_sound (env : Env) (h : Bytes) (S alt : Stack) (wit : Option (List Bytes)) (fuel : Nat)
    (ha : run Cfg.repaired env fuel ⟨p2pkhCommands h, S, alt, wit, false⟩ = .accept) :
    ∃ pk tmp r der ht, S = pk :: tmp :: r ∧ env.hash160 pk = h ∧ splitHashType tmp = .ok (der, ht) ∧
      env.pkErr pk = none ∧ env.sigPre der ht = none ∧ env.ecdsaOK pk ht der = true := by
  -- OP_DUP
  obtain ⟨f1, st1, rfl, hs1, ha1⟩ := run_accept_cons (c := .op 0x76) (rest := [.op 0xA9, .push h, .op 0x88, .op 0xAC]) rfl ha
  rw [step_op _ _ _ false 0x76 .dup rfl (by decide) (by decide) (by decide)] at hs1
  obtain ⟨s1, e1, k1⟩ := toOut_ok hs1
  simp only [applyStackFn] at e1
  cases S with
  | nil => cases e1
  | cons pk S' =>
    simp only [op_dup, Res.ok.injEq] at e1
    subst e1
    simp only [Except.ok.injEq] at k1
    subst k1
    -- OP_HASH160
    obtain ⟨f2, st2, rfl, hs2, ha2⟩ := run_accept_cons (c := .op 0xA9) (rest := [.push h, .op 0x88, .op 0xAC]) rfl ha1
    rw [step_op _ _ _ false 0xA9 .hash160 rfl (by decide) (by decide) (by decide)] at hs2
    simp only [applyStackFn, op_hash160, hashOp, Res.toOut, Except.ok.injEq] at hs2
    subst hs2
    -- push h
    obtain ⟨f3, st3, rfl, hs3, ha3⟩ := run_accept_cons (c := .push h) (rest := [.op 0x88, .op 0xAC]) rfl ha2
    rw [step_push_mid _ _ _ (by simp) (by simp)] at hs3
    simp only [Except.ok.injEq] at hs3
    subst hs3
    -- OP_EQUALVERIFY
    obtain ⟨f4, st4, rfl, hs4, ha4⟩ := run_accept_cons (c := .op 0x88) (rest := [.op 0xAC]) rfl ha3
    rw [step_op _ _ _ false 0x88 .equalverify rfl (by decide) (by decide) (by decide)] at hs4
    obtain ⟨s4, e4, k4⟩ := toOut_ok hs4
    simp only [applyStackFn, op_equalverify, op_equal, Res.bind, op_verify, decodeNum_boolNum] at e4
    by_cases hq : h = env.hash160 pk
    · simp only [hq, beq_self_eq_true, if_true] at e4
      simp at e4
      subst e4
      simp only [Except.ok.injEq] at k4
      subst k4
      -- OP_CHECKSIG
      obtain ⟨f5, st5, rfl, hs5, ha5⟩ := run_accept_cons (c := .op 0xAC) (rest := []) rfl ha4
      rw [step_op _ _ _ false 0xAC .checksig rfl (by decide) (by decide) (by decide)] at hs5
      obtain ⟨s5, e5, k5⟩ := toOut_ok hs5
      simp only [applyStackFn] at e5
      cases S' with
      | nil => cases e5
      | cons tmp r =>
        simp only [op_checksig] at e5
        cases hsp : splitHashType tmp with
        | fail => rw [hsp] at e5; cases e5
        | err e => rw [hsp] at e5; cases e5
        | ok p =>
          obtain ⟨der, ht⟩ := p
          rw [hsp] at e5
          simp only [Res.bind] at e5
          cases hpk : env.pkErr pk with
          | some e => rw [hpk] at e5; cases e5
          | none =>
            rw [hpk] at e5
            cases hsg : env.sigPre der ht with
            | some e => rw [hsg] at e5; cases e5
            | none =>
              rw [hsg] at e5
              simp only [optErr, Res.ok.injEq] at e5
              subst e5
              simp only [Except.ok.injEq] at k5
              subst k5
              have hfin := run_accept_nil rfl ha5
              simp only [finalTest, Cfg.repaired, if_true, op_verify, decodeNum_boolNum] at hfin
              cases hv : env.ecdsaOK pk ht der with
              | false => rw [hv] at hfin; simp at hfin
              | true => exact ⟨pk, tmp, r, der, ht, rfl, hq.symm, hsp, hpk, hsg, hv⟩
    · have : (h == env.hash160 pk) = false := beq_eq_false_iff_ne.mpr hq
      simp [this] at e4
/-- no list ending in `tail` is the three-command p2sh pattern -/
def NoP2shTail (tail : List Cmd) : Prop := ∀ X h160, X ++ tail ≠ [.op 0xA9, .push h160, .op 0x87]

theorem noP2shTail_of_length {tail : List Cmd} (h : 4 ≤ tail.length) : NoP2shTail tail := by
  intro X h160 e
  have := congrArg List.length e
  simp at this
  omega

theorem noP2shTail_p2pkh (h : Bytes) : NoP2shTail (p2pkhCommands h) :=
  noP2shTail_of_length (by simp [p2pkhCommands])

/-- data pushes in front of a tail that cannot be mistaken for anything: they just go on the stack -/
theorem run_pushes (env : Env) (tail : List Cmd) (hne : tail ≠ []) (hp : NoP2shTail tail) :
    ∀ (items : List Bytes) (S alt : Stack) (wit : Option (List Bytes)) (tap : Bool) (fuel : Nat),
      run Cfg.repaired env (fuel + items.length) ⟨items.map .push ++ tail, S, alt, wit, tap⟩
        = run Cfg.repaired env fuel ⟨tail, items.reverse ++ S, alt, wit, tap⟩ := by
  intro items
  induction items with
  | nil => intro S alt wit tap fuel; rfl
  | cons b bs ih =>
    intro S alt wit tap fuel
    have : fuel + (b :: bs).length = (fuel + bs.length) + 1 := by simp; omega
    rw [this, List.map_cons, List.cons_append, run_cons _ _ _ _ (.push b) (bs.map .push ++ tail) rfl]
    rw [step_push_mid env _ b (by simp [hne]) (by intro h160; exact hp (bs.map .push) h160)]
    simp only
    rw [ih (b :: S) alt wit tap fuel]
    simp

theorem run_pushes_accept (env : Env) (tail : List Cmd) (hne : tail ≠ []) (hp : NoP2shTail tail) :
    ∀ (items : List Bytes) (S alt : Stack) (wit : Option (List Bytes)) (tap : Bool) (fuel : Nat),
      run Cfg.repaired env fuel ⟨items.map .push ++ tail, S, alt, wit, tap⟩ = .accept →
      ∃ fuel', run Cfg.repaired env fuel' ⟨tail, items.reverse ++ S, alt, wit, tap⟩ = .accept := by
  intro items
  induction items with
  | nil => intro S alt wit tap fuel ha; exact ⟨fuel, ha⟩
  | cons b bs ih =>
    intro S alt wit tap fuel ha
    obtain ⟨f, st', rfl, hs, ha'⟩ := run_accept_cons (c := .push b) (rest := bs.map .push ++ tail) rfl ha
    rw [step_push_mid env _ b (by simp [hne]) (by intro h160; exact hp (bs.map .push) h160)] at hs
    simp only [Except.ok.injEq] at hs
    subst hs
    obtain ⟨f', h'⟩ := ih (b :: S) alt wit tap f ha'
    exact ⟨f', by simpa using h'⟩

theorem p2pkh_tail_complete (env : Env) (h pk tmp der : Bytes) (ht : Nat) (r alt : Stack)
    (wit : Option (List Bytes)) (hh : env.hash160 pk = h) (hsp : splitHashType tmp = .ok (der, ht))
    (hpk : env.pkErr pk = none) (hsg : env.sigPre der ht = none) (hv : env.ecdsaOK pk ht der = true)
    (fuel : Nat) (hf : 5 ≤ fuel) :
    run Cfg.repaired env fuel ⟨p2pkhCommands h, pk :: tmp :: r, alt, wit, false⟩ = .accept := by
  obtain ⟨f, rfl⟩ : ∃ f, fuel = f + 5 := ⟨fuel - 5, by omega⟩
  rw [run_cons _ _ (f + 4) _ (.op 0x76) [.op 0xA9, .push h, .op 0x88, .op 0xAC] rfl,
    step_op _ _ _ false 0x76 .dup rfl (by decide) (by decide) (by decide)]
  simp only [applyStackFn, op_dup, Res.toOut]
  rw [run_cons _ _ (f + 3) _ (.op 0xA9) [.push h, .op 0x88, .op 0xAC] rfl,
    step_op _ _ _ false 0xA9 .hash160 rfl (by decide) (by decide) (by decide)]
  simp only [applyStackFn, op_hash160, hashOp, Res.toOut]
  rw [run_cons _ _ (f + 2) _ (.push h) [.op 0x88, .op 0xAC] rfl, step_push_mid _ _ _ (by simp) (by simp)]
  simp only
  rw [run_cons _ _ (f + 1) _ (.op 0x88) [.op 0xAC] rfl,
    step_op _ _ _ false 0x88 .equalverify rfl (by decide) (by decide) (by decide)]
  simp only [applyStackFn, op_equalverify, op_equal, Res.bind, op_verify, decodeNum_boolNum, hh,
    beq_self_eq_true, if_true, Res.toOut]
  simp only [show ((1 : Int) = 0) = False by simp, if_false]
  rw [run_cons _ _ f _ (.op 0xAC) [] rfl,
    step_op _ _ _ false 0xAC .checksig rfl (by decide) (by decide) (by decide)]
  simp only [applyStackFn, op_checksig, hsp, Res.bind, hpk, hsg, optErr, hv, Res.toOut]
  rw [run_nil _ _ _ _ rfl]
  simp [finalTest, Cfg.repaired, op_verify, decodeNum_boolNum]

/-! ## native P2WPKH -/

/-- the last command of the script is a push: the p2sh rule cannot apply, the witness-program rules do -/
theorem step_push_end (env : Env) (st : St) (b : Bytes) (he : st.cmds = []) :
    step Cfg.repaired env st (.push b) = witnessRules Cfg.repaired env { st with stack := b :: st.stack } := by
  obtain ⟨cmds, S, alt, wit, tap⟩ := st
  simp only at he
  subst he
  simp [step, p2shRule, Cfg.repaired]

theorem witnessRules_p2wpkh (cfg : Cfg) (env : Env) (cmds : List Cmd) (h : Bytes) (alt : Stack)
    (wit : Option (List Bytes)) (tap : Bool) (hl : h.length = 20) :
    witnessRules cfg env ⟨cmds, [h, []], alt, wit, tap⟩ =
      match wit with
      | none => .error (.err .attributeError)
      | some items => .ok ⟨cmds ++ items.map .push ++ p2pkhCommands h, [], alt, wit, tap⟩ := by
  simp only [witnessRules, hl, and_self, if_true, List.append_assoc]
  cases wit <;> rfl

def p2wpkhSpk (h : Bytes) : List Cmd := [.op 0, .push h]

/-- what `evaluate` does with a native p2wpkh program: the witness items, then the p2pkh commands -/
theorem run_p2wpkh_program (env : Env) (h : Bytes) (hl : h.length = 20) (alt : Stack) (items : List Bytes)
    (fuel : Nat) :
    run Cfg.repaired env (fuel + 2) ⟨p2wpkhSpk h, [], alt, some items, false⟩ =
      run Cfg.repaired env fuel ⟨items.map .push ++ p2pkhCommands h, [], alt, some items, false⟩ := by
  rw [run_cons _ _ (fuel + 1) _ (.op 0) [.push h] rfl,
    step_op _ _ _ false 0 (.num 0) rfl (by decide) (by decide) (by decide)]
  simp only [applyStackFn, op_num, Res.toOut]
  rw [run_cons _ _ fuel _ (.push h) [] rfl, step_push_end _ _ _ rfl]
  have e0 : encodeNum 0 = [] := rfl
  simp only [e0]
  rw [witnessRules_p2wpkh _ _ _ _ _ _ _ hl]
  simp

theorem run_p2wpkh_program_accept (env : Env) (h : Bytes) (hl : h.length = 20) (alt : Stack)
    (wit : Option (List Bytes)) (fuel : Nat)
    (ha : run Cfg.repaired env fuel ⟨p2wpkhSpk h, [], alt, wit, false⟩ = .accept) :
    ∃ items f, wit = some items ∧
      run Cfg.repaired env f ⟨items.map .push ++ p2pkhCommands h, [], alt, some items, false⟩ = .accept := by
  obtain ⟨f1, st1, rfl, hs1, ha1⟩ := run_accept_cons (c := .op 0) (rest := [.push h]) rfl ha
  rw [step_op _ _ _ false 0 (.num 0) rfl (by decide) (by decide) (by decide)] at hs1
  simp only [applyStackFn, op_num, Res.toOut, Except.ok.injEq] at hs1
  subst hs1
  obtain ⟨f2, st2, rfl, hs2, ha2⟩ := run_accept_cons (c := .push h) (rest := []) rfl ha1
  rw [step_push_end _ _ _ rfl] at hs2
  have e0 : encodeNum 0 = [] := rfl
  simp only [e0] at hs2
  rw [witnessRules_p2wpkh _ _ _ _ _ _ _ hl] at hs2
  cases wit with
  | none => cases hs2
  | some items =>
    simp only [List.nil_append, Except.ok.injEq] at hs2
    subst hs2
    exact ⟨items, f2, rfl, ha2⟩

/-! ## the scan of op_if / op_notif never runs past a tail without ENDIF -/

theorem scanIf_cons (a : Cmd) (items : List Cmd) (need : Nat) (inF : Bool) (t f : List Cmd) :
    scanIf (a :: items) need inF t f =
      if a = .op 99 ∨ a = .op 100 then
        (if inF then scanIf items (need + 1) inF t (a :: f) else scanIf items (need + 1) inF (a :: t) f)
      else if a = .op 103 then
        (if need = 1 then scanIf items need true t f
         else if inF then scanIf items need inF t (a :: f) else scanIf items need inF (a :: t) f)
      else if a = .op 104 then
        (if need = 1 then some (t.reverse, f.reverse, items)
         else if inF then scanIf items (need - 1) inF t (a :: f) else scanIf items (need - 1) inF (a :: t) f)
      else (if inF then scanIf items need inF t (a :: f) else scanIf items need inF (a :: t) f) := by
  by_cases h99 : a = .op 99
  · subst h99; simp [scanIf]
  · by_cases h100 : a = .op 100
    · subst h100; simp [scanIf]
    · by_cases h103 : a = .op 103
      · subst h103; simp [scanIf]
      · by_cases h104 : a = .op 104
        · subst h104; simp [scanIf]
        · simp only [h99, h100, h103, h104, or_self, if_false]
          rw [scanIf.eq_6]
          · intro h; exact h99 h
          · intro h; exact h100 h
          · intro h; exact h103 h
          · intro h; exact h104 h

theorem scanIf_none_of_no_endif : ∀ (B : List Cmd), (∀ c ∈ B, c ≠ .op 104) →
    ∀ (need : Nat) (inF : Bool) (t f : List Cmd), scanIf B need inF t f = none
  | [], _, _, _, _, _ => by simp [scanIf]
  | a :: B, h, need, inF, t, f => by
    have ha : a ≠ .op 104 := h a (by simp)
    have hB : ∀ c ∈ B, c ≠ .op 104 := fun c hc => h c (by simp [hc])
    rw [scanIf_cons]
    simp only [ha, if_false]
    split
    · split <;> exact scanIf_none_of_no_endif B hB _ _ _ _
    · split
      · split
        · exact scanIf_none_of_no_endif B hB _ _ _ _
        · split <;> exact scanIf_none_of_no_endif B hB _ _ _ _
      · split <;> exact scanIf_none_of_no_endif B hB _ _ _ _

/-- if the scan over `A ++ B` finds its ENDIF and `B` has none, the rest it returns still ends with `B` -/
theorem scanIf_suffix : ∀ (A B : List Cmd), (∀ c ∈ B, c ≠ .op 104) →
    ∀ (need : Nat) (inF : Bool) (t f t' f' rest : List Cmd),
      scanIf (A ++ B) need inF t f = some (t', f', rest) → ∃ R, rest = R ++ B
  | [], B, hB, need, inF, t, f, t', f', rest, h => by
    rw [List.nil_append, scanIf_none_of_no_endif B hB] at h; cases h
  | a :: A, B, hB, need, inF, t, f, t', f', rest, h => by
    rw [List.cons_append, scanIf_cons] at h
    split at h
    · split at h <;> exact scanIf_suffix A B hB _ _ _ _ _ _ _ h
    · split at h
      · split at h
        · exact scanIf_suffix A B hB _ _ _ _ _ _ _ h
        · split at h <;> exact scanIf_suffix A B hB _ _ _ _ _ _ _ h
      · split at h
        · split at h
          · simp only [Option.some.injEq, Prod.mk.injEq] at h
            exact ⟨A, h.2.2.symm⟩
          · split at h <;> exact scanIf_suffix A B hB _ _ _ _ _ _ _ h
        · split at h <;> exact scanIf_suffix A B hB _ _ _ _ _ _ _ h

/-! ## the command list keeps ending with the scriptPubKey -/

theorem op_ifx_suffix (neg : Bool) (S : Stack) (X spk : List Cmd) (hB : ∀ c ∈ spk, c ≠ .op 104)
    (s : Stack) (cmds' : List Cmd) (h : op_ifx neg S (X ++ spk) = .ok (s, cmds')) :
    ∃ X', cmds' = X' ++ spk := by
  unfold op_ifx at h
  cases S with
  | nil => cases h
  | cons e S' =>
    simp only at h
    cases hs : scanIf (X ++ spk) 1 false [] [] with
    | none => rw [hs] at h; cases h
    | some r =>
      obtain ⟨t, f, rest⟩ := r
      rw [hs] at h
      obtain ⟨R, hR⟩ := scanIf_suffix X spk hB _ _ _ _ _ _ _ hs
      simp only at h
      split at h
      · simp only [Res.ok.injEq, Prod.mk.injEq] at h
        exact ⟨f ++ R, by rw [← h.2, hR, List.append_assoc]⟩
      · simp only [Res.ok.injEq, Prod.mk.injEq] at h
        exact ⟨t ++ R, by rw [← h.2, hR, List.append_assoc]⟩

/-- one step of the repaired interpreter on a command list that ends with a scriptPubKey of at least
    four commands without ENDIF: the list still ends with it, witness and table are untouched -/
theorem step_keeps_suffix (env : Env) (spk : List Cmd) (h4 : 4 ≤ spk.length) (hB : ∀ c ∈ spk, c ≠ .op 104)
    (X : List Cmd) (S alt : Stack) (wit : Option (List Bytes)) (c : Cmd) (st' : St)
    (h : step Cfg.repaired env ⟨X ++ spk, S, alt, wit, false⟩ c = .ok st') :
    ∃ X' S' alt', st' = ⟨X' ++ spk, S', alt', wit, false⟩ := by
  cases c with
  | push b =>
    rw [step_push_mid env _ b (by intro e; simp at e; rw [e.2] at h4; simp at h4)
      (by intro h160 e; have := congrArg List.length e; simp at this; omega)] at h
    simp only [Except.ok.injEq] at h
    exact ⟨X, b :: S, alt, h.symm⟩
  | op k =>
    simp only [step, stepOp] at h
    split at h
    · cases h
    · split at h
      · cases h
      · split at h
        · cases h
        · split at h
          · obtain ⟨a, ea, ka⟩ := toOut_ok h
            obtain ⟨X', hX⟩ := op_ifx_suffix false S X spk hB a.1 a.2 ea
            simp only [Except.ok.injEq] at ka
            exact ⟨X', a.1, alt, by rw [← ka, hX]⟩
          · obtain ⟨a, ea, ka⟩ := toOut_ok h
            obtain ⟨X', hX⟩ := op_ifx_suffix true S X spk hB a.1 a.2 ea
            simp only [Except.ok.injEq] at ka
            exact ⟨X', a.1, alt, by rw [← ka, hX]⟩
          · obtain ⟨a, _, ka⟩ := toOut_ok h
            simp only [Except.ok.injEq] at ka
            exact ⟨X, a.1, a.2, ka.symm⟩
          · obtain ⟨a, _, ka⟩ := toOut_ok h
            simp only [Except.ok.injEq] at ka
            exact ⟨X, a.1, a.2, ka.symm⟩
          · obtain ⟨a, _, ka⟩ := toOut_ok h
            simp only [Except.ok.injEq] at ka
            exact ⟨X, a, alt, ka.symm⟩

/-- whatever the scriptSig does (any opcodes, conditionals included), an accepting run of
    `scriptSig ++ scriptPubKey` reaches the scriptPubKey with some stack and accepts from there -/
theorem run_prefix_accept (env : Env) (spk : List Cmd) (h4 : 4 ≤ spk.length) (hB : ∀ c ∈ spk, c ≠ .op 104)
    (wit : Option (List Bytes)) :
    ∀ (fuel : Nat) (X : List Cmd) (S alt : Stack),
      run Cfg.repaired env fuel ⟨X ++ spk, S, alt, wit, false⟩ = .accept →
      ∃ f S' alt', run Cfg.repaired env f ⟨spk, S', alt', wit, false⟩ = .accept := by
  intro fuel
  induction fuel with
  | zero =>
    intro X S alt ha
    cases X with
    | nil => exact ⟨0, S, alt, ha⟩
    | cons c X' =>
      obtain ⟨f, _, hf, _, _⟩ := run_accept_cons (c := c) (rest := X' ++ spk) rfl ha
      omega
  | succ n ih =>
    intro X S alt ha
    cases X with
    | nil => exact ⟨n + 1, S, alt, ha⟩
    | cons c X' =>
      obtain ⟨f, st', hf, hs, ha'⟩ := run_accept_cons (c := c) (rest := X' ++ spk) rfl ha
      have hfn : f = n := by omega
      subst hfn
      obtain ⟨X'', S'', alt'', rfl⟩ := step_keeps_suffix env spk h4 hB X' S alt wit c st' hs
      exact ih X'' S'' alt'' ha'

/-! ## OP_CHECKMULTISIG: signatures against keys, order preserving -/

/-- the signatures (in the order they are popped) verify for an order-preserving selection of the
    points (in the order they are popped): signature j is valid for a key that comes after the key of
    signature j-1 — "m signatures valid for m distinct script keys in script order" -/
inductive SigMatch (env : Env) : List (Bytes × Nat) → List Bytes → Prop where
  | nil (pts : List Bytes) : SigMatch env [] pts
  | cons (der : Bytes) (ht : Nat) (sigs : List (Bytes × Nat)) (pre : List Bytes) (p : Bytes) (rest : List Bytes) :
      env.ecdsaOK p ht der = true → SigMatch env sigs rest → SigMatch env ((der, ht) :: sigs) (pre ++ p :: rest)

theorem SigMatch.extend {env : Env} {sigs : List (Bytes × Nat)} {pts : List Bytes} (h : SigMatch env sigs pts)
    (extra : List Bytes) : SigMatch env sigs (extra ++ pts) := by
  cases h with
  | nil => exact SigMatch.nil _
  | cons der ht sigs pre p rest hv hm =>
    rw [← List.append_assoc]
    exact SigMatch.cons der ht sigs (extra ++ pre) p rest hv hm

theorem consumePoints_some {env : Env} {der : Bytes} {ht : Nat} :
    ∀ {pts rest : List Bytes}, consumePoints env der ht pts = some rest →
      ∃ pre p, pts = pre ++ p :: rest ∧ env.ecdsaOK p ht der = true
  | [], _, h => by simp [consumePoints] at h
  | q :: qs, rest, h => by
    simp only [consumePoints] at h
    split at h
    · rename_i hv
      simp only [Option.some.injEq] at h
      exact ⟨[], q, by simp [h], hv⟩
    · obtain ⟨pre, p, e, hv⟩ := consumePoints_some h
      exact ⟨q :: pre, p, by simp [e], hv⟩

/-- with a valid key present the loop stops at or before it: what is left contains everything after it -/
theorem consumePoints_of_valid {env : Env} {der : Bytes} {ht : Nat} :
    ∀ (pre : List Bytes) (p : Bytes) (rest : List Bytes), env.ecdsaOK p ht der = true →
      ∃ extra, consumePoints env der ht (pre ++ p :: rest) = some (extra ++ rest)
  | [], p, rest, hv => ⟨[], by simp [consumePoints, hv]⟩
  | q :: qs, p, rest, hv => by
    simp only [List.cons_append, consumePoints]
    split
    · exact ⟨qs ++ [p], by simp⟩
    · exact consumePoints_of_valid qs p rest hv

theorem multisigLoop_sound {env : Env} :
    ∀ (sigs : List (Bytes × Nat)) (pts : List Bytes), multisigLoop Cfg.repaired env sigs pts = none →
      SigMatch env sigs pts ∧ ∀ s ∈ sigs, env.sigPre s.1 s.2 = none
  | [], pts, _ => ⟨SigMatch.nil _, by simp⟩
  | (der, ht) :: sigs, pts, h => by
    simp only [multisigLoop] at h
    cases hp : env.sigPre der ht with
    | some e => rw [hp] at h; cases h
    | none =>
      rw [hp] at h
      simp only at h
      split at h
      · cases h
      · cases hc : consumePoints env der ht pts with
        | none => rw [hc] at h; simp [Cfg.repaired] at h
        | some rest =>
          rw [hc] at h
          obtain ⟨hm, hs⟩ := multisigLoop_sound sigs rest h
          obtain ⟨pre, p, e, hv⟩ := consumePoints_some hc
          refine ⟨e ▸ SigMatch.cons der ht sigs pre p rest hv hm, ?_⟩
          intro s hs'
          rcases List.mem_cons.mp hs' with rfl | h'
          · exact hp
          · exact hs s h'

theorem multisigLoop_complete {env : Env} {sigs : List (Bytes × Nat)} {pts : List Bytes}
    (hm : SigMatch env sigs pts) : (∀ s ∈ sigs, env.sigPre s.1 s.2 = none) →
    multisigLoop Cfg.repaired env sigs pts = none := by
  induction sigs generalizing pts with
  | nil => intro _; rfl
  | cons s sigs ih =>
    intro hpre
    cases hm with
    | cons der ht sigs' pre p rest hv hm' =>
      have h1 : env.sigPre der ht = none := hpre (der, ht) (by simp)
      obtain ⟨extra, hc⟩ := consumePoints_of_valid (env := env) pre p rest hv
      simp only [multisigLoop, h1, hc]
      have hlen : ¬ (pre ++ p :: rest).length = 0 := by simp
      simp only [hlen, if_false]
      exact ih (hm'.extend extra) (fun s hs => hpre s (by simp [hs]))

/-- OP_CHECKMULTISIG on the stack a standard multisig script builds: `n`, the keys, `m`, then whatever
    was there before -/
theorem op_checkmultisig_script (env : Env) (m : Nat) (pks : List Bytes) (S : Stack) :
    op_checkmultisig Cfg.repaired env (encodeNum pks.length :: (pks.reverse ++ encodeNum m :: S)) =
      if S.length < m + 1 then .fail else
      (splitSigs (S.take m)).bind fun sigs =>
        match S.drop m with
        | [] => .err .indexError
        | _ :: r =>
          match firstPkErr env pks.reverse with
          | some e => if caught e then .fail else .err e
          | none =>
            match multisigLoop Cfg.repaired env sigs pks.reverse with
            | some (.err e) => if caught e then .fail else .err e
            | some _ => .fail
            | none => .ok (encodeNum 1 :: r) := by
  unfold op_checkmultisig
  simp only [decodeNum_encodeNum, Int.toNat_natCast]
  have h1 : ¬ (((pks.reverse ++ encodeNum (m : Int) :: S).length : Nat) : Int) < (pks.length : Int) + 1 := by
    simp; omega
  rw [if_neg h1]
  have ht : (pks.reverse ++ encodeNum (m : Int) :: S).take pks.length = pks.reverse :=
    take_append_len _ _ _ (by simp)
  have hd : (pks.reverse ++ encodeNum (m : Int) :: S).drop pks.length = encodeNum (m : Int) :: S :=
    drop_append_len _ _ _ (by simp)
  simp only [ht, hd, decodeNum_encodeNum, Int.toNat_natCast]
  by_cases hlen : S.length < m + 1
  · have : ((S.length : Nat) : Int) < (m : Int) + 1 := by omega
    simp [hlen, this]
  · have : ¬ ((S.length : Nat) : Int) < (m : Int) + 1 := by omega
    simp only [hlen, this, if_false]
    rfl

/-- `m pk_1 … pk_n n OP_CHECKMULTISIG` -/
def multisigScript (m : Nat) (pks : List Bytes) : List Cmd :=
  .op (80 + m) :: (pks.map .push ++ [.op (80 + pks.length), .op 0xAE])

theorem resolve_num (tap : Bool) (n : Nat) (h1 : 1 ≤ n) (h16 : n ≤ 16) :
    resolve tap (80 + n) = some (.num (n : Int)) ∧ (OpFn.num (n : Int)).conv = convOf (80 + n) := by
  have : n = 1 ∨ n = 2 ∨ n = 3 ∨ n = 4 ∨ n = 5 ∨ n = 6 ∨ n = 7 ∨ n = 8 ∨ n = 9 ∨ n = 10 ∨ n = 11 ∨
      n = 12 ∨ n = 13 ∨ n = 14 ∨ n = 15 ∨ n = 16 := by omega
  rcases this with h | h | h | h | h | h | h | h | h | h | h | h | h | h | h | h <;> subst h <;>
    cases tap <;> decide

theorem step_num (cfg : Cfg) (env : Env) (st : St) (n : Nat) (h1 : 1 ≤ n) (h16 : n ≤ 16) :
    step cfg env st (.op (80 + n)) = .ok { st with stack := encodeNum (n : Int) :: st.stack } := by
  obtain ⟨hr, hc⟩ := resolve_num st.tap n h1 h16
  rw [step_op cfg env st st.tap (80 + n) (.num n) rfl hr hc (by simp)]
  rfl

theorem noP2shTail_multisig (n : Nat) : NoP2shTail [.op (80 + n), .op 0xAE] := by
  intro X h160 e
  have h3 : X.length = 1 := by have := congrArg List.length e; simp at this; omega
  match X, h3 with
  | [x], _ => simp at e

theorem multisig_script_sound (env : Env) (m : Nat) (pks : List Bytes) (hm : 1 ≤ m ∧ m ≤ 16)
    (hn : 1 ≤ pks.length ∧ pks.length ≤ 16) (S alt : Stack) (wit : Option (List Bytes)) (fuel : Nat)
    (ha : run Cfg.repaired env fuel ⟨multisigScript m pks, S, alt, wit, false⟩ = .accept) :
    m + 1 ≤ S.length ∧ ∃ sigs, splitSigs (S.take m) = .ok sigs ∧ SigMatch env sigs pks.reverse ∧
      firstPkErr env pks.reverse = none ∧ ∀ s ∈ sigs, env.sigPre s.1 s.2 = none := by
  obtain ⟨f1, st1, rfl, hs1, ha1⟩ := run_accept_cons (c := .op (80 + m))
    (rest := pks.map .push ++ [.op (80 + pks.length), .op 0xAE]) rfl ha
  rw [step_num _ _ _ m hm.1 hm.2] at hs1
  simp only [Except.ok.injEq] at hs1
  subst hs1
  obtain ⟨f2, ha2⟩ := run_pushes_accept env [.op (80 + pks.length), .op 0xAE] (by simp)
    (noP2shTail_multisig _) pks _ alt wit false f1 ha1
  obtain ⟨f3, st3, rfl, hs3, ha3⟩ := run_accept_cons (c := .op (80 + pks.length)) (rest := [.op 0xAE]) rfl ha2
  rw [step_num _ _ _ pks.length hn.1 hn.2] at hs3
  simp only [Except.ok.injEq] at hs3
  subst hs3
  obtain ⟨f4, st4, rfl, hs4, ha4⟩ := run_accept_cons (c := .op 0xAE) (rest := []) rfl ha3
  rw [step_op _ _ _ false 0xAE .checkmultisig rfl (by decide) (by decide) (by decide)] at hs4
  obtain ⟨s4, e4, k4⟩ := toOut_ok hs4
  simp only [applyStackFn] at e4
  rw [op_checkmultisig_script] at e4
  by_cases hlen : S.length < m + 1
  · rw [if_pos hlen] at e4; cases e4
  · rw [if_neg hlen] at e4
    cases hsp : splitSigs (S.take m) with
    | fail => rw [hsp] at e4; cases e4
    | err e => rw [hsp] at e4; cases e4
    | ok sigs =>
      rw [hsp] at e4
      simp only [Res.bind] at e4
      split at e4
      · cases e4
      · split at e4
        · split at e4 <;> cases e4
        · rename_i hfp
          cases hml : multisigLoop Cfg.repaired env sigs pks.reverse with
          | some r =>
            rw [hml] at e4
            cases r with
            | ok u => cases e4
            | fail => cases e4
            | err e => simp only at e4; split at e4 <;> cases e4
          | none =>
            obtain ⟨hmatch, hpre⟩ := multisigLoop_sound sigs pks.reverse hml
            exact ⟨by omega, sigs, rfl, hmatch, hfp, hpre⟩
theorem multisig_script_complete (env : Env) (m : Nat) (pks : List Bytes) (hm : 1 ≤ m ∧ m ≤ 16)
    (hn : 1 ≤ pks.length ∧ pks.length ≤ 16) (S alt : Stack) (wit : Option (List Bytes))
    (sigs : List (Bytes × Nat)) (hlen : m + 1 ≤ S.length) (hsp : splitSigs (S.take m) = .ok sigs)
    (hmatch : SigMatch env sigs pks.reverse) (hpk : firstPkErr env pks.reverse = none)
    (hpre : ∀ s ∈ sigs, env.sigPre s.1 s.2 = none) (fuel : Nat) (hf : pks.length + 3 ≤ fuel) :
    run Cfg.repaired env fuel ⟨multisigScript m pks, S, alt, wit, false⟩ = .accept := by
  obtain ⟨f, rfl⟩ : ∃ f, fuel = (f + 2 + pks.length) + 1 := ⟨fuel - pks.length - 3, by omega⟩
  rw [run_cons _ _ _ _ (.op (80 + m)) (pks.map .push ++ [.op (80 + pks.length), .op 0xAE]) rfl,
    step_num _ _ _ m hm.1 hm.2]
  simp only
  rw [run_pushes env [.op (80 + pks.length), .op 0xAE] (by simp) (noP2shTail_multisig _) pks _ alt wit false (f + 2)]
  rw [run_cons _ _ (f + 1) _ (.op (80 + pks.length)) [.op 0xAE] rfl, step_num _ _ _ pks.length hn.1 hn.2]
  simp only
  rw [run_cons _ _ f _ (.op 0xAE) [] rfl,
    step_op _ _ _ false 0xAE .checkmultisig rfl (by decide) (by decide) (by decide)]
  simp only [applyStackFn]
  rw [op_checkmultisig_script]
  have h1 : ¬ S.length < m + 1 := by omega
  rw [if_neg h1, hsp]
  simp only [Res.bind]
  cases hd : S.drop m with
  | nil =>
    have := congrArg List.length hd
    simp at this
    omega
  | cons d r =>
    simp only [hpk, multisigLoop_complete hmatch hpre, Res.toOut]
    rw [run_nil _ _ _ _ rfl]
    simp only [finalTest, Cfg.repaired, if_true, op_verify]
    have : decodeNum (encodeNum 1) = 1 := decodeNum_encodeNum 1
    simp [this]

/-! ## P2SH -/

def p2shSpk (h : Bytes) : List Cmd := [.op 0xA9, .push h, .op 0x87]

/-- the last push of the scriptSig in front of a p2sh scriptPubKey: the BIP16 rule -/
theorem step_push_p2sh (env : Env) (b h : Bytes) (hl : h.length = 20) (S alt : Stack)
    (wit : Option (List Bytes)) (tap : Bool) :
    step Cfg.repaired env ⟨p2shSpk h, S, alt, wit, tap⟩ (.push b) =
      if h == env.hash160 b then
        match parseCommands b with
        | none => .error (.err .runtimeError)
        | some cs =>
          if !cs.isEmpty then .ok ⟨cs, S, alt, wit, tap⟩
          else witnessRules Cfg.repaired env ⟨cs, S, alt, wit, tap⟩
      else .error .reject := by
  simp only [step, p2shSpk, p2shRule, hl, if_true, op_hash160, hashOp, Res.toOut, op_equal, op_verify,
    decodeNum_boolNum]
  by_cases hq : h = env.hash160 b
  · simp only [hq, beq_self_eq_true, if_true]
    have : ¬ ((1 : Int) = 0) := by simp
    simp only [this, if_false]
    cases parseCommands b with
    | none => rfl
    | some cs => simp [Cfg.repaired]
  · have hq' : (h == env.hash160 b) = false := beq_eq_false_iff_ne.mpr hq
    simp [hq']

/-- the scriptPubKey of a p2sh output on its own: HASH160, push, EQUAL — accepted only when the top of
    the stack hashes to `h` -/
theorem p2sh_tail_sound (env : Env) (h : Bytes) (S alt : Stack) (wit : Option (List Bytes)) (fuel : Nat)
    (ha : run Cfg.repaired env fuel ⟨p2shSpk h, S, alt, wit, false⟩ = .accept) :
    ∃ top r, S = top :: r ∧ env.hash160 top = h := by
  obtain ⟨f1, st1, rfl, hs1, ha1⟩ := run_accept_cons (c := .op 0xA9) (rest := [.push h, .op 0x87]) rfl ha
  rw [step_op _ _ _ false 0xA9 .hash160 rfl (by decide) (by decide) (by decide)] at hs1
  obtain ⟨s1, e1, k1⟩ := toOut_ok hs1
  simp only [applyStackFn, op_hash160, hashOp] at e1
  cases S with
  | nil => cases e1
  | cons top r =>
    simp only [Res.ok.injEq] at e1
    subst e1
    simp only [Except.ok.injEq] at k1
    subst k1
    obtain ⟨f2, st2, rfl, hs2, ha2⟩ := run_accept_cons (c := .push h) (rest := [.op 0x87]) rfl ha1
    rw [step_push_mid _ _ _ (by simp) (by simp)] at hs2
    simp only [Except.ok.injEq] at hs2
    subst hs2
    obtain ⟨f3, st3, rfl, hs3, ha3⟩ := run_accept_cons (c := .op 0x87) (rest := []) rfl ha2
    rw [step_op _ _ _ false 0x87 .equal rfl (by decide) (by decide) (by decide)] at hs3
    simp only [applyStackFn, op_equal, Res.toOut, Except.ok.injEq] at hs3
    subst hs3
    have hfin := run_accept_nil rfl ha3
    simp only [finalTest, Cfg.repaired, if_true, op_verify, decodeNum_boolNum] at hfin
    by_cases hq : h = env.hash160 top
    · exact ⟨top, r, rfl, hq.symm⟩
    · have hq' : (h == env.hash160 top) = false := beq_eq_false_iff_ne.mpr hq
      simp [hq'] at hfin

def smallOK (k : Nat) : Bool :=
  match resolve false k with
  | none => true
  | some (.num j) => decide ((OpFn.num j).conv = convOf k) && decide ((encodeNum j).length ≤ 1)
  | some _ => false

theorem smallOK_all : ∀ k, k ≤ 96 → smallOK k = true := by decide

/-- opcodes up to OP_16 in the legacy table: number pushes or nothing -/
theorem resolve_small (k : Nat) (hk : k ≤ 96) :
    resolve false k = none ∨
    ∃ j : Int, resolve false k = some (.num j) ∧ (OpFn.num j).conv = convOf k ∧ (encodeNum j).length ≤ 1 := by
  have h := smallOK_all k hk
  unfold smallOK at h
  split at h
  · left; assumption
  · rename_i j hr
    simp only [Bool.and_eq_true, decide_eq_true_eq] at h
    exact Or.inr ⟨j, hr, h.1, h.2⟩
  · cases h

theorem step_op_small (cfg : Cfg) (env : Env) (st : St) (ht : st.tap = false) (k : Nat) (hk : k ≤ 96) (st' : St)
    (h : step cfg env st (.op k) = .ok st') :
    ∃ j : Int, st' = { st with stack := encodeNum j :: st.stack } ∧ (encodeNum j).length ≤ 1 := by
  rcases resolve_small k hk with hn | ⟨j, hr, hc, hl⟩
  · simp only [step, stepOp] at h
    simp only [resolve, ht] at hn
    cases hl : lookup (table false) k with
    | none => rw [ht, hl] at h; cases h
    | some name =>
      rw [hl] at hn
      simp only [Option.bind] at hn
      rw [ht, hl] at h
      simp only [hn] at h
      cases h
  · rw [step_op cfg env st false k (.num j) ht hr hc (by simp)] at h
    simp only [applyStackFn, op_num, Res.toOut, Except.ok.injEq] at h
    exact ⟨j, h.symm, hl⟩

theorem p2shSpk_no_endif (h : Bytes) (pre : Cmd) (hp : pre ≠ .op 104) : ∀ c ∈ pre :: p2shSpk h, c ≠ .op 104 := by
  intro c hc
  simp only [p2shSpk, List.mem_cons, List.mem_nil_iff, or_false] at hc
  rcases hc with rfl | rfl | rfl | rfl
  · exact hp
  · simp
  · simp
  · simp

/-- every accepting run of `scriptSig ++ [HASH160, h, EQUAL]` with a push-only scriptSig: either the last
    scriptSig element is a data push to which the BIP16 rule is applied (on the stack the rest of the
    scriptSig left), or the scriptPubKey's hash is the hash of a small number's encoding -/
theorem p2sh_accept_cases (env : Env) (h : Bytes) (ss : List Cmd) (wit : Option (List Bytes)) (fuel : Nat)
    (hpo : hasOpAbove16 ss = false)
    (ha : run Cfg.repaired env fuel ⟨ss ++ p2shSpk h, [], [], wit, false⟩ = .accept) :
    (∃ pre x S alt' f st', ss = pre ++ [.push x] ∧ (pre = [] → S = [] ∧ alt' = []) ∧
        step Cfg.repaired env ⟨p2shSpk h, S, alt', wit, false⟩ (.push x) = .ok st' ∧
        run Cfg.repaired env f st' = .accept) ∨
    (∃ j : Int, env.hash160 (encodeNum j) = h ∧ (encodeNum j).length ≤ 1) := by
  rcases List.eq_nil_or_concat ss with rfl | ⟨pre, c, rfl⟩
  · obtain ⟨top, r, e, _⟩ := p2sh_tail_sound env h [] [] wit fuel (by simpa using ha)
    cases e
  · simp only [List.concat_eq_append] at ha hpo ⊢
    cases c with
    | push x =>
      left
      by_cases hpre : pre = []
      · subst hpre
        obtain ⟨f, st', _, hs, ha'⟩ := run_accept_cons (c := .push x) (rest := p2shSpk h) rfl ha
        exact ⟨[], x, [], [], f, st', rfl, fun _ => ⟨rfl, rfl⟩, hs, ha'⟩
      · have e : pre ++ [Cmd.push x] ++ p2shSpk h = pre ++ (.push x :: p2shSpk h) := by simp
        rw [e] at ha
        obtain ⟨f1, S', alt', ha1⟩ := run_prefix_accept env (.push x :: p2shSpk h) (by simp [p2shSpk])
          (p2shSpk_no_endif h _ (by simp)) wit fuel pre [] [] ha
        obtain ⟨f, st', _, hs, ha'⟩ := run_accept_cons (c := .push x) (rest := p2shSpk h) rfl ha1
        exact ⟨pre, x, S', alt', f, st', rfl, fun e => absurd e hpre, hs, ha'⟩
    | op k =>
      right
      have hk : k ≤ 96 := by
        simp only [hasOpAbove16, List.any_append, List.any_cons, List.any_nil, Bool.or_false, Bool.or_eq_false_iff,
          decide_eq_false_iff_not] at hpo
        omega
      have e : pre ++ [Cmd.op k] ++ p2shSpk h = pre ++ (.op k :: p2shSpk h) := by simp
      rw [e] at ha
      obtain ⟨f1, S', alt', ha1⟩ := run_prefix_accept env (.op k :: p2shSpk h) (by simp [p2shSpk])
        (p2shSpk_no_endif h _ (by intro e; injection e with e; omega)) wit fuel pre [] [] ha
      obtain ⟨f, st', _, hs, ha'⟩ := run_accept_cons (c := .op k) (rest := p2shSpk h) rfl ha1
      obtain ⟨j, rfl, hl⟩ := step_op_small _ env _ rfl k hk st' hs
      obtain ⟨top, r, e2, hh⟩ := p2sh_tail_sound env h _ alt' wit f ha'
      simp only [List.cons.injEq] at e2
      exact ⟨j, by rw [e2.1]; exact hh, hl⟩

/-! ## native P2WSH -/

def p2wshSpk (s : Bytes) : List Cmd := [.op 0, .push s]

theorem witnessRules_p2wsh (cfg : Cfg) (env : Env) (cmds : List Cmd) (s : Bytes) (alt : Stack)
    (wit : Option (List Bytes)) (tap : Bool) (hl : s.length = 32) :
    witnessRules cfg env ⟨cmds, [s, []], alt, wit, tap⟩ =
      match wit with
      | none => .error (.err .attributeError)
      | some items =>
        match items.reverse with
        | [] => .error (.err .indexError)
        | witnessScript :: initRev =>
          if s ≠ env.sha256 witnessScript then .error .reject
          else match parseCommands witnessScript with
            | none => .error (.err .runtimeError)
            | some cs => .ok ⟨cmds ++ initRev.reverse.map .push ++ cs, [], alt, wit, tap⟩ := by
  simp only [witnessRules, hl, true_and]
  have : ¬ ((32 : Nat) = 20) := by decide
  simp only [this, and_false, if_false, if_true]
  cases wit <;> rfl

theorem run_p2wsh_program_accept (env : Env) (s : Bytes) (hl : s.length = 32) (alt : Stack)
    (wit : Option (List Bytes)) (fuel : Nat)
    (ha : run Cfg.repaired env fuel ⟨p2wshSpk s, [], alt, wit, false⟩ = .accept) :
    ∃ items ws initRev cs f, wit = some items ∧ items.reverse = ws :: initRev ∧ s = env.sha256 ws ∧
      parseCommands ws = some cs ∧
      run Cfg.repaired env f ⟨initRev.reverse.map .push ++ cs, [], alt, some items, false⟩ = .accept := by
  obtain ⟨f1, st1, rfl, hs1, ha1⟩ := run_accept_cons (c := .op 0) (rest := [.push s]) rfl ha
  rw [step_op _ _ _ false 0 (.num 0) rfl (by decide) (by decide) (by decide)] at hs1
  simp only [applyStackFn, op_num, Res.toOut, Except.ok.injEq] at hs1
  subst hs1
  obtain ⟨f2, st2, rfl, hs2, ha2⟩ := run_accept_cons (c := .push s) (rest := []) rfl ha1
  rw [step_push_end _ _ _ rfl] at hs2
  have e0 : encodeNum 0 = [] := rfl
  simp only [e0] at hs2
  rw [witnessRules_p2wsh _ _ _ _ _ _ _ hl] at hs2
  cases wit with
  | none => cases hs2
  | some items =>
    simp only at hs2
    cases hr : items.reverse with
    | nil => rw [hr] at hs2; cases hs2
    | cons ws initRev =>
      rw [hr] at hs2
      simp only at hs2
      split at hs2
      · cases hs2
      · rename_i hsha
        cases hp : parseCommands ws with
        | none => rw [hp] at hs2; cases hs2
        | some cs =>
          rw [hp] at hs2
          simp only [List.nil_append, Except.ok.injEq] at hs2
          subst hs2
          exact ⟨items, ws, initRev, cs, f2, rfl, hr, by simpa using hsha, hp, ha2⟩

theorem run_p2wsh_program (env : Env) (s ws : Bytes) (hl : s.length = 32) (alt : Stack) (items initRev : List Bytes)
    (cs : List Cmd) (hr : items.reverse = ws :: initRev) (hs : s = env.sha256 ws)
    (hp : parseCommands ws = some cs) (fuel : Nat) :
    run Cfg.repaired env (fuel + 2) ⟨p2wshSpk s, [], alt, some items, false⟩ =
      run Cfg.repaired env fuel ⟨initRev.reverse.map .push ++ cs, [], alt, some items, false⟩ := by
  rw [run_cons _ _ (fuel + 1) _ (.op 0) [.push s] rfl,
    step_op _ _ _ false 0 (.num 0) rfl (by decide) (by decide) (by decide)]
  simp only [applyStackFn, op_num, Res.toOut]
  rw [run_cons _ _ fuel _ (.push s) [] rfl, step_push_end _ _ _ rfl]
  have e0 : encodeNum 0 = [] := rfl
  simp only [e0]
  rw [witnessRules_p2wsh _ _ _ _ _ _ _ hl]
  simp [hr, hs, hp]

/-! ## P2TR -/

def p2trSpk (x : Bytes) : List Cmd := [.op 0x51, .push x]

theorem schnorrCheck_ne_fail (env : Env) (pk sig : Bytes) : schnorrCheck env pk sig ≠ .fail := by
  unfold schnorrCheck optErr
  repeat' split
  all_goals first | (simp; done) | (dsimp only; split <;> simp)

/-- key path: what the schnorr check must have said for the final stack to be true -/
theorem keypath_final (env : Env) (x sig : Bytes) (s : Stack)
    (h : op_checksig_schnorr env [x, sig] = .ok s) (hf : finalTest Cfg.repaired s = .accept) :
    schnorrCheck env x sig = .ok (some true) := by
  simp only [op_checksig_schnorr] at h
  cases hc : schnorrCheck env x sig with
  | fail => exact absurd hc (schnorrCheck_ne_fail env x sig)
  | err e => rw [hc] at h; cases h
  | ok r =>
    rw [hc] at h
    simp only [Res.bind] at h
    cases r with
    | none =>
      simp only [Res.ok.injEq] at h
      subst h
      simp [finalTest, Cfg.repaired, op_verify, decodeNum_encodeNum] at hf
    | some b =>
      simp only [Res.ok.injEq] at h
      subst h
      cases b with
      | true => rfl
      | false => simp [finalTest, Cfg.repaired, op_verify, decodeNum_boolNum] at hf

/-- what an accepting script-path spend must contain -/
structure ScriptPath (env : Env) (x : Bytes) (alt : Stack) (items : List Bytes) : Prop where
  two : 1 < items.length
  ok : ∃ cb rawTap tapScript leafBytes f rest,
    cb ∈ items ∧ rawTap ∈ items ∧ env.cbErr cb = none ∧
    (∃ v, encodeVarstr rawTap = some v ∧ Script.parse v = some (tapScript, rest)) ∧
    (if rawTap ≠ [] then some rawTap else Script.rawSerialize tapScript) = some leafBytes ∧
    env.tapCommit cb leafBytes = .ok (x, true) ∧
    run Cfg.repaired env f ⟨(items.take (items.length - 2)).map .push ++ tapScript.cmds, [], alt, some items, true⟩
      = .accept

theorem fromEnd_mem {items : List Bytes} {k : Nat} {b : Bytes} (h : fromEnd items k = .ok b) : b ∈ items := by
  unfold fromEnd at h
  split at h
  · rename_i x hx
    simp only [Res.ok.injEq] at h
    subst h
    have := List.mem_of_getElem? hx
    simpa using this
  · cases h

theorem hasAnnex_true_length {items : List Bytes} (h : hasAnnex items = .ok true) : 2 ≤ items.length := by
  unfold hasAnnex at h
  split at h
  · cases h
  · rename_i hlt
    simp only [Gen.opAnnexMinItems] at hlt
    omega

theorem run_p2tr_accept (env : Env) (x : Bytes) (hl : x.length = 32) (alt : Stack)
    (wit : Option (List Bytes)) (fuel : Nat)
    (ha : run Cfg.repaired env fuel ⟨p2trSpk x, [], alt, wit, false⟩ = .accept) :
    ∃ items0 items, wit = some items0 ∧ (items = items0 ∨ items = items0.dropLast) ∧
      ((∃ sig, items = [sig] ∧ schnorrCheck env x sig = .ok (some true)) ∨ ScriptPath env x alt items) := by
  obtain ⟨f1, st1, rfl, hs1, ha1⟩ := run_accept_cons (c := .op 0x51) (rest := [.push x]) rfl ha
  have h81 : (0x51 : Nat) = 80 + 1 := rfl
  rw [h81, step_num _ _ _ 1 (by omega) (by omega)] at hs1
  simp only [Except.ok.injEq] at hs1
  subst hs1
  obtain ⟨f2, st2, rfl, hs2, ha2⟩ := run_accept_cons (c := .push x) (rest := []) rfl ha1
  rw [step_push_end _ _ _ rfl] at hs2
  have e1 : encodeNum ((1 : Nat) : Int) = [1] := rfl
  simp only [e1] at hs2
  unfold witnessRules at hs2
  have n20 : ¬ ((32 : Nat) = 20) := by decide
  have n1 : ¬ (([1] : Bytes) = []) := by simp
  simp only [hl, n20, n1, and_false, false_and, if_false, true_and, if_true, and_self] at hs2
  cases wit with
  | none => cases hs2
  | some items0 =>
    simp only at hs2
    split at hs2
    · cases hs2
    · obtain ⟨annex, hann, hk⟩ := toOut_ok hs2
      refine ⟨items0, if annex then items0.dropLast else items0, rfl, by cases annex <;> simp, ?_⟩
      have hpos : 0 < (if annex = true then items0.dropLast else items0).length := by
        cases annex with
        | false => simp only [Bool.false_eq_true, if_false]; omega
        | true =>
          have := hasAnnex_true_length hann
          simp only [if_true, List.length_dropLast]
          omega
      generalize (if annex = true then items0.dropLast else items0) = items at hk hpos ⊢
      split at hk
      · -- key path
        rename_i hlen1
        split at hk
        · rename_i sig
          left
          cases hc : op_checksig_schnorr env [x, sig] with
          | ok s =>
            rw [hc] at hk
            simp only [Except.ok.injEq] at hk
            subst hk
            exact ⟨sig, rfl, keypath_final env x sig s hc (run_accept_nil rfl ha2)⟩
          | fail =>
            exfalso
            simp only [op_checksig_schnorr] at hc
            cases hsc : schnorrCheck env x sig with
            | fail => exact schnorrCheck_ne_fail env x sig hsc
            | err e => rw [hsc] at hc; cases hc
            | ok r => rw [hsc] at hc; cases r <;> cases hc
          | err e => rw [hc] at hk; cases hk
        · rename_i hne
          exfalso
          match items, hlen1 with
          | [s], _ => exact hne s rfl
      · split at hk
        · rename_i hlen2
          right
          obtain ⟨a2, _, hk⟩ := toOut_ok hk
          obtain ⟨cb, hcb, hk⟩ := toOut_ok hk
          split at hk
          · cases hk
          · rename_i hcbe
            obtain ⟨a3, _, hk⟩ := toOut_ok hk
            obtain ⟨rawTap, hraw, hk⟩ := toOut_ok hk
            split at hk
            · cases hk
            · rename_i v hv
              split at hk
              · cases hk
              · rename_i tapScript rest hparse
                split at hk
                · cases hk
                · rename_i leafBytes hleaf
                  split at hk
                  · cases hk
                  · rename_i xonly parityOK htc
                    split at hk
                    · cases hk
                    · rename_i hpar
                      split at hk
                      · cases hk
                      · rename_i hx
                        simp only [Except.ok.injEq] at hk
                        subst hk
                        have hx' : xonly = x := by simpa using hx
                        have hp' : parityOK = true := by simpa using hpar
                        subst hx' hp'
                        refine ⟨hlen2, cb, rawTap, tapScript, leafBytes, f2, rest, fromEnd_mem hcb,
                          fromEnd_mem hraw, hcbe, ⟨v, hv, hparse⟩, ?_, htc, ha2⟩
                        simpa [Cfg.repaired] using hleaf
        · -- neither one nor several items
          exfalso
          omega

/-! ## k-of-n tapscript multisig (MultiSigTapScript) -/

/-- 1 if the signature is a non-empty one that verifies for the key -/
def sigCount (env : Env) (x sig : Bytes) : Nat :=
  if schnorrCheck env x sig = .ok (some true) then 1 else 0

def countValid (env : Env) : List Bytes → List Bytes → Nat
  | x :: xs, s :: ss => sigCount env x s + countValid env xs ss
  | _, _ => 0

def addChain (xs : List Bytes) : List Cmd := xs.flatMap fun x => [.push x, .op 0xBA]

/-- `x_0 CHECKSIG x_1 CHECKSIGADD … x_{n-1} CHECKSIGADD k EQUAL` (n ≥ 2) -/
def tapMultisigScript (x0 : Bytes) (xs : List Bytes) (k : Nat) : List Cmd :=
  [.push x0, .op 0xAC] ++ addChain xs ++ [.op (80 + k), .op 0x87]

theorem step_push_first (env : Env) (st : St) (b : Bytes) (c : Cmd) (rest : List Cmd) (hc : st.cmds = c :: rest)
    (hne : c ≠ .op 0xA9) : step Cfg.repaired env st (.push b) = .ok { st with stack := b :: st.stack } :=
  step_push_mid env st b (by rw [hc]; simp) (by intro h160 e; rw [hc] at e; injection e with e1 _; exact hne e1)

theorem checksigadd_result (env : Env) (x sig : Bytes) (c : Nat) (s s' : Stack)
    (h : op_checksigadd_schnorr env (x :: encodeNum (c : Int) :: sig :: s) = .ok s') :
    s' = encodeNum ((c + sigCount env x sig : Nat) : Int) :: s := by
  simp only [op_checksigadd_schnorr, decodeNum_encodeNum] at h
  unfold sigCount
  cases hc : schnorrCheck env x sig with
  | fail => rw [hc] at h; cases h
  | err e => rw [hc] at h; cases h
  | ok r =>
    rw [hc] at h
    cases r with
    | none => simp only [Res.bind, Res.ok.injEq] at h; subst h; simp
    | some b =>
      simp only [Res.bind, Res.ok.injEq] at h
      subst h
      cases b <;> simp

/-- the CHECKSIGADD chain followed by `k EQUAL`: accepted only if the signatures on the stack, one per
    key in order, bring the counter to exactly `k` -/
theorem addChain_sound (env : Env) (k : Nat) (hk : 1 ≤ k ∧ k ≤ 16) (alt : Stack) (wit : Option (List Bytes)) :
    ∀ (xs : List Bytes) (c : Nat) (S : Stack) (fuel : Nat),
      run Cfg.repaired env fuel ⟨addChain xs ++ [.op (80 + k), .op 0x87], encodeNum (c : Int) :: S, alt, wit, true⟩
        = .accept →
      ∃ sigs rest, S = sigs ++ rest ∧ sigs.length = xs.length ∧ c + countValid env xs sigs = k := by
  intro xs
  induction xs with
  | nil =>
    intro c S fuel ha
    simp only [addChain, List.flatMap_nil, List.nil_append] at ha
    obtain ⟨f1, st1, rfl, hs1, ha1⟩ := run_accept_cons (c := .op (80 + k)) (rest := [.op 0x87]) rfl ha
    rw [step_num _ _ _ k hk.1 hk.2] at hs1
    simp only [Except.ok.injEq] at hs1
    subst hs1
    obtain ⟨f2, st2, rfl, hs2, ha2⟩ := run_accept_cons (c := .op 0x87) (rest := []) rfl ha1
    rw [step_op _ _ _ true 0x87 .equal rfl (by decide) (by decide) (by decide)] at hs2
    simp only [applyStackFn, op_equal, Res.toOut, Except.ok.injEq] at hs2
    subst hs2
    have hfin := run_accept_nil rfl ha2
    simp only [finalTest, Cfg.repaired, if_true, op_verify, decodeNum_boolNum] at hfin
    by_cases hq : encodeNum (k : Int) = encodeNum (c : Int)
    · have := congrArg decodeNum hq
      rw [decodeNum_encodeNum, decodeNum_encodeNum] at this
      exact ⟨[], S, rfl, rfl, by simp [countValid]; omega⟩
    · have hq' : (encodeNum (k : Int) == encodeNum (c : Int)) = false := beq_eq_false_iff_ne.mpr hq
      simp [hq'] at hfin
  | cons x xs ih =>
    intro c S fuel ha
    have e : addChain (x :: xs) ++ [.op (80 + k), .op 0x87]
        = .push x :: .op 0xBA :: (addChain xs ++ [.op (80 + k), .op 0x87]) := by
      simp [addChain]
    rw [e] at ha
    obtain ⟨f1, st1, rfl, hs1, ha1⟩ := run_accept_cons (c := .push x)
      (rest := .op 0xBA :: (addChain xs ++ [.op (80 + k), .op 0x87])) rfl ha
    rw [step_push_first env _ x (.op 0xBA) _ rfl (by simp)] at hs1
    simp only [Except.ok.injEq] at hs1
    subst hs1
    obtain ⟨f2, st2, rfl, hs2, ha2⟩ := run_accept_cons (c := .op 0xBA)
      (rest := addChain xs ++ [.op (80 + k), .op 0x87]) rfl ha1
    rw [step_op _ _ _ true 0xBA .checksigaddSchnorr rfl (by decide) (by decide) (by decide)] at hs2
    obtain ⟨s2, e2, k2⟩ := toOut_ok hs2
    simp only [applyStackFn] at e2
    cases S with
    | nil => simp [op_checksigadd_schnorr] at e2
    | cons sig S' =>
      have := checksigadd_result env x sig c S' s2 e2
      subst this
      simp only [Except.ok.injEq] at k2
      subst k2
      obtain ⟨sigs, rest, hS, hlen, hcnt⟩ := ih (c + sigCount env x sig) S' f2 ha2
      exact ⟨sig :: sigs, rest, by simp [hS], by simp [hlen], by simp [countValid]; omega⟩

/-! ## authorisation predicates used by Props/C06 -/

/-- "a signature by the key" as the interpreter sees it: the element splits into DER bytes and a hash
    type, key and signature parse, the digest can be computed, and the key verifies it -/
def EcdsaAuth (env : Env) (pk tmp : Bytes) : Prop :=
  ∃ der ht, splitHashType tmp = .ok (der, ht) ∧ env.pkErr pk = none ∧ env.sigPre der ht = none ∧
    env.ecdsaOK pk ht der = true

theorem evaluate_eq (cfg : Cfg) (env : Env) (cmds : List Cmd) (wit : List Bytes) (fuel : Nat) :
    evaluate cfg env cmds wit fuel =
      run cfg env fuel ⟨cmds, [], [], if wit.isEmpty then none else some wit, false⟩ := rfl

/-- m-of-n: `m` stack elements that split into signatures matching, in order, distinct keys of the script -/
def MultisigAuth (env : Env) (m : Nat) (pks : List Bytes) : Prop :=
  ∃ (raw : List Bytes) (sigs : List (Bytes × Nat)), raw.length = m ∧ splitSigs raw = .ok sigs ∧
    SigMatch env sigs pks.reverse ∧ firstPkErr env pks.reverse = none ∧ ∀ s ∈ sigs, env.sigPre s.1 s.2 = none

/-! ## small facts used by Props/C06 -/

theorem structural_witness_empty {ss spk : List Cmd} (hw : (isWitnessScript spk || isP2tr spk) = true)
    (h : structuralReject Cfg.repaired ss spk = false) : ss = [] := by
  simp only [structuralReject, Cfg.repaired, Bool.true_and, hw, Bool.or_eq_false_iff, Bool.and_eq_false_imp] at h
  have := h.2
  simpa using this


theorem structural_p2sh {ss : List Cmd} {h : Bytes} (hl : h.length = 20)
    (hs : structuralReject Cfg.repaired ss (p2shSpk h) = false) :
    hasOpAbove16 ss = false ∧ nestedWitnessNotAlone ss = false := by
  simp only [structuralReject, Cfg.repaired, Bool.true_and, p2shSpk, isP2sh, hl, beq_self_eq_true,
    Bool.or_eq_false_iff] at hs
  exact hs.1


theorem multisigScript_length (m : Nat) (pks : List Bytes) : (multisigScript m pks).length = pks.length + 3 := by
  simp [multisigScript]


/-- a witness program nested in p2sh is alone in the scriptSig (F06e repaired) -/
theorem nested_alone {pre : List Cmd} {x : Bytes} {cs : List Cmd} (hp : parseCommands x = some cs)
    (hw : isWitnessScript cs = true) (h : nestedWitnessNotAlone (pre ++ [.push x]) = false) : pre = [] := by
  simp only [nestedWitnessNotAlone, List.length_append, List.length_cons, List.length_nil, List.getLast?_append,
    List.getLast?_singleton, Option.some_or, hp, hw, Bool.and_true, decide_eq_false_iff_not] at h
  cases pre with
  | nil => rfl
  | cons a r => simp at h


theorem noP2shTail_multisigScript (m : Nat) (pks : List Bytes) (hn : 1 ≤ pks.length) :
    NoP2shTail (multisigScript m pks) :=
  noP2shTail_of_length (by simp [multisigScript]; omega)


theorem hasOpAbove16_pushes (l : List Bytes) : hasOpAbove16 (l.map .push) = false := by
  induction l with
  | nil => rfl
  | cons a r ih => simpa [hasOpAbove16] using ih


theorem noP2shTail_pushP2sh (x h : Bytes) : NoP2shTail (.push x :: p2shSpk h) :=
  noP2shTail_of_length (by simp [p2shSpk])


/-- what `finalize_*_multisig` puts on the stack: the dummy element under the signatures; the popped
    signatures match keys of the script in order -/
def MultisigWitness (env : Env) (pks : List Bytes) (raw : List Bytes) : Prop :=
  ∃ sigs, splitSigs raw.reverse = .ok sigs ∧ SigMatch env sigs pks.reverse ∧
    firstPkErr env pks.reverse = none ∧ ∀ s ∈ sigs, env.sigPre s.1 s.2 = none


/-- environment for the C06 witnesses: "hashes" are prefixes, the only key that verifies anything is
    `attacker` with the signature bytes `[0x31]` -/
def attackerPk : Bytes := List.replicate 33 3
def victimPk : Bytes := List.replicate 33 2
def wEnv : Env :=
  { locktime := 0, sequence := 0, version := 2, sha1 := id, ripemd160 := id,
    sha256 := List.take 32, hash160 := List.take 20, hash256 := id,
    ecdsaOK := fun pk _ der => pk == attackerPk && der == [0x31],
    tapCommit := fun _ leaf => if leaf == [0x01, 0xaa, 0x75, 0x51] then .ok (List.replicate 32 7, true)
                               else .error .valueError }

/-! ## script path and tapscript multisig, forward direction -/

/-- script path, forward: witness `sigs… <script> <control block>` (no annex) whose control block commits
    the script bytes to the output key: evaluation continues with the signatures and the script's commands
    under the tapscript table -/
theorem run_p2tr_scriptpath (env : Env) (x : Bytes) (hl : x.length = 32) (alt : Stack) (sigs : List Bytes)
    (rawTap cb v rest : Bytes) (tapScript : Script.Script) (b0 : UInt8) (r0 : Bytes) (hcb : cb = b0 :: r0)
    (hb0 : b0.toNat ≠ 80) (hcbe : env.cbErr cb = none) (hv : encodeVarstr rawTap = some v)
    (hparse : Script.parse v = some (tapScript, rest)) (hraw : rawTap ≠ [])
    (htc : env.tapCommit cb rawTap = .ok (x, true)) (fuel : Nat) :
    run Cfg.repaired env (fuel + 2) ⟨p2trSpk x, [], alt, some (sigs ++ [rawTap, cb]), false⟩ =
      run Cfg.repaired env fuel ⟨sigs.map .push ++ tapScript.cmds, [], alt, some (sigs ++ [rawTap, cb]), true⟩ := by
  have h81 : (0x51 : Nat) = 80 + 1 := rfl
  rw [p2trSpk, run_cons _ _ (fuel + 1) _ (.op 0x51) [.push x] rfl, h81, step_num _ _ _ 1 (by omega) (by omega)]
  simp only
  rw [run_cons _ _ fuel _ (.push x) [] rfl, step_push_end _ _ _ rfl]
  have e1 : encodeNum ((1 : Nat) : Int) = [1] := rfl
  simp only [e1]
  have n20 : ¬ ((32 : Nat) = 20) := by decide
  have n1 : ¬ (([1] : Bytes) = []) := by simp
  have hrev : (sigs ++ [rawTap, cb]).reverse = cb :: rawTap :: sigs.reverse := by simp
  have hlen : (sigs ++ [rawTap, cb]).length = sigs.length + 2 := by simp
  have ha : hasAnnex (sigs ++ [rawTap, cb]) = .ok false := by
    unfold hasAnnex
    have : ¬ (sigs ++ [rawTap, cb]).length < Gen.opAnnexMinItems := by simp [Gen.opAnnexMinItems]
    rw [if_neg this, hrev, hcb]
    simp [Gen.opAnnexTag, hb0]
  have hf1 : fromEnd (sigs ++ [rawTap, cb]) 1 = .ok cb := by simp [fromEnd, hrev]
  have hf2 : fromEnd (sigs ++ [rawTap, cb]) 2 = .ok rawTap := by simp [fromEnd, hrev]
  have htake : (sigs ++ [rawTap, cb]).take ((sigs ++ [rawTap, cb]).length - 2) = sigs := by
    rw [hlen]; simp
  have hl0 : ¬ (sigs.length + 2 = 0) := by omega
  have hl1 : ¬ (sigs.length + 2 = 1) := by omega
  have hl2 : sigs.length + 2 > 1 := by omega
  simp only [witnessRules, hl, n20, n1, and_false, false_and, if_false, true_and, if_true, and_self, ha, Res.toOut,
    Bool.false_eq_true, hlen, hl0, hl1, hl2, hf1, hf2, hcbe, hv, hparse, Cfg.repaired, Bool.true_and, hraw,
    ne_eq, not_false_eq_true, decide_true, htc, Bool.not_true, htake]
  simp

theorem checksigadd_forward (env : Env) (x sig : Bytes) (c : Nat) (s : Stack) (r : Option Bool)
    (h : schnorrCheck env x sig = .ok r) :
    op_checksigadd_schnorr env (x :: encodeNum (c : Int) :: sig :: s)
      = .ok (encodeNum ((c + sigCount env x sig : Nat) : Int) :: s) := by
  simp only [op_checksigadd_schnorr, decodeNum_encodeNum, h, Res.bind, sigCount]
  cases r with
  | none => simp
  | some b => cases b <;> simp

theorem checksig_forward (env : Env) (x sig : Bytes) (s : Stack) (r : Option Bool)
    (h : schnorrCheck env x sig = .ok r) :
    op_checksig_schnorr env (x :: sig :: s) = .ok (encodeNum ((sigCount env x sig : Nat) : Int) :: s) := by
  simp only [op_checksig_schnorr, h, Res.bind, sigCount]
  cases r with
  | none => simp
  | some b => cases b <;> simp [boolNum]

/-- every (key, signature) pair can be checked without an exception -/
def ChecksOK (env : Env) : List Bytes → List Bytes → Prop
  | x :: xs, s :: ss => (∃ r, schnorrCheck env x s = .ok r) ∧ ChecksOK env xs ss
  | [], [] => True
  | _, _ => False

theorem addChain_complete (env : Env) (k : Nat) (hk : 1 ≤ k ∧ k ≤ 16) (alt : Stack) (wit : Option (List Bytes)) :
    ∀ (xs sigs : List Bytes) (c : Nat) (rest : Stack) (fuel : Nat), ChecksOK env xs sigs →
      c + countValid env xs sigs = k → 2 * xs.length + 2 ≤ fuel →
      run Cfg.repaired env fuel ⟨addChain xs ++ [.op (80 + k), .op 0x87], encodeNum (c : Int) :: (sigs ++ rest), alt, wit, true⟩
        = .accept := by
  intro xs
  induction xs with
  | nil =>
    intro sigs c rest fuel hok hcnt hf
    cases sigs with
    | cons s ss => simp [ChecksOK] at hok
    | nil =>
      obtain ⟨f, rfl⟩ : ∃ f, fuel = f + 2 := ⟨fuel - 2, by omega⟩
      simp only [addChain, List.flatMap_nil, List.nil_append]
      rw [run_cons _ _ (f + 1) _ (.op (80 + k)) [.op 0x87] rfl, step_num _ _ _ k hk.1 hk.2]
      simp only
      rw [run_cons _ _ f _ (.op 0x87) [] rfl,
        step_op _ _ _ true 0x87 .equal rfl (by decide) (by decide) (by decide)]
      simp only [applyStackFn, op_equal, Res.toOut]
      rw [run_nil _ _ _ _ rfl]
      have : c = k := by simpa [countValid] using hcnt
      subst this
      simp [finalTest, Cfg.repaired, op_verify, decodeNum_boolNum]
  | cons x xs ih =>
    intro sigs c rest fuel hok hcnt hf
    cases sigs with
    | nil => simp [ChecksOK] at hok
    | cons s ss =>
      obtain ⟨⟨r, hr⟩, hok'⟩ := hok
      obtain ⟨f, rfl⟩ : ∃ f, fuel = f + 2 := ⟨fuel - 2, by simp at hf; omega⟩
      have e : addChain (x :: xs) ++ [.op (80 + k), .op 0x87]
          = .push x :: .op 0xBA :: (addChain xs ++ [.op (80 + k), .op 0x87]) := by simp [addChain]
      rw [e, run_cons _ _ (f + 1) _ (.push x) (.op 0xBA :: (addChain xs ++ [.op (80 + k), .op 0x87])) rfl,
        step_push_first env _ x (.op 0xBA) _ rfl (by simp)]
      simp only
      rw [run_cons _ _ f _ (.op 0xBA) (addChain xs ++ [.op (80 + k), .op 0x87]) rfl,
        step_op _ _ _ true 0xBA .checksigaddSchnorr rfl (by decide) (by decide) (by decide)]
      simp only [applyStackFn, List.cons_append]
      rw [checksigadd_forward env x s c (ss ++ rest) r hr]
      simp only [Res.toOut]
      exact ih ss (c + sigCount env x s) rest f hok' (by simp [countValid] at hcnt; omega) (by simp at hf; omega)

end Buidl.Interp
