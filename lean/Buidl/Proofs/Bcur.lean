/-
  Helper lemmas about Buidl.Model.Bcur, part 1: chunk arithmetic, the ordering / consistency
  checks of BCURMulti.parse, collision extraction, one substituted bc32 character.
-/
import Buidl.Model.Bcur
import Buidl.Proofs.Bech32Addr
namespace Buidl.Bcur
open Buidl Buidl.Base58 Buidl.Bech32

/-! ### chunk arithmetic (integer ceiling division) -/

/-- number of parts and chunk length computed by BCURMulti.encode for a text of `L ≥ 1`
    characters and `max_size_per_chunk = m ≥ 1` -/
theorem chunk_arith (L m : Nat) (hL : 1 ≤ L) (hm : 1 ≤ m) :
    let n := (L + m - 1) / m
    let cl := (L + n - 1) / n
    1 ≤ n ∧ 1 ≤ cl ∧ cl ≤ m ∧ (n - 1) * cl < L ∧ L ≤ n * cl := by
  intro n cl
  have h1 := Nat.div_add_mod (L + m - 1) m
  have hr := Nat.mod_lt (L + m - 1) (show 0 < m by omega)
  have hn1 : 1 ≤ n := by
    show 1 ≤ (L + m - 1) / m
    exact (Nat.le_div_iff_mul_le (by omega)).mpr (by omega)
  have h2 := Nat.div_add_mod (L + n - 1) n
  have hr2 := Nat.mod_lt (L + n - 1) (show 0 < n by omega)
  -- abbreviate the products
  have hP : m * n + (L + m - 1) % m = L + m - 1 := h1
  have hQ : n * cl + (L + n - 1) % n = L + n - 1 := h2
  have hPL : L ≤ m * n := by omega
  have hQL : L ≤ n * cl := by omega
  have hcl1 : 1 ≤ cl := by
    show 1 ≤ (L + n - 1) / n
    exact (Nat.le_div_iff_mul_le (by omega)).mpr (by omega)
  have hclm : cl ≤ m := by
    by_contra hc
    have : n * (m + 1) ≤ n * cl := Nat.mul_le_mul_left n (by omega)
    have e : n * (m + 1) = m * n + n := by rw [Nat.mul_add, Nat.mul_one, Nat.mul_comm]
    omega
  have hlast : (n - 1) * cl < L := by
    have a : (n - 1) * cl ≤ (n - 1) * m := Nat.mul_le_mul_left _ hclm
    have b : (n - 1) * m = m * n - m := by
      rw [Nat.mul_comm, Nat.mul_sub_one]
    omega
  exact ⟨hn1, hcl1, hclm, hlast, hQL⟩

/-- the chunks `encoded[i*cl : (i+1)*cl]`, i < n, concatenate to the first `n*cl` characters -/
theorem chunks_flatten {α} (enc : List α) (cl n : Nat) :
    ((List.range n).map fun i => (enc.drop (i * cl)).take cl).flatten = enc.take (n * cl) := by
  induction n with
  | zero => simp
  | succ n ih =>
    rw [List.range_succ, List.map_append, List.flatten_append, ih]
    simp only [List.map_cons, List.map_nil, List.flatten_cons, List.flatten_nil, List.append_nil]
    rw [Nat.succ_mul, List.take_add]

theorem chunk_length {α} (enc : List α) (cl i : Nat) :
    ((enc.drop (i * cl)).take cl).length = min cl (enc.length - i * cl) := by
  simp

/-! ### the loop of BCURMulti.parse -/

/-- a part whose x is not its position + 1 makes the loop fail -/
theorem multiLoop_out_of_order (l : List Str) (cnt : Nat) (gc : Option Str) (gy : Int) (ps : List Str)
    (j : Nat) (hj : j < l.length) (p : Parsed) (hp : parseBcurHelper l[j] = some p)
    (hx : p.x ≠ ((cnt + j : Nat) : Int) + 1) : multiLoop l cnt gc gy ps = none := by
  induction l generalizing cnt gc gy ps j with
  | nil => simp at hj
  | cons s rest ih =>
    unfold multiLoop
    cases j with
    | zero =>
      simp only [List.getElem_cons_zero] at hp
      rw [hp]
      have : ((cnt : Int) + 1) ≠ p.x := by
        intro e; apply hx; rw [← e]; simp
      simp [this]
    | succ j =>
      simp only [List.getElem_cons_succ] at hp
      cases hs : parseBcurHelper s with
      | none => rfl
      | some q =>
        simp only
        have hj' : j < rest.length := by simpa using hj
        have hx' : p.x ≠ ((cnt + 1 + j : Nat) : Int) + 1 := by
          have : cnt + 1 + j = cnt + (j + 1) := by omega
          rw [this]; exact hx
        split
        · rfl
        · split
          · exact ih _ _ _ _ j hj' hp hx'
          · split
            · rfl
            · split
              · rfl
              · exact ih _ _ _ _ j hj' hp hx'

/-- after the first part, a part whose checksum differs from the recorded one makes the loop fail -/
theorem multiLoop_checksum_mismatch (l : List Str) (cnt : Nat) (hc : 1 ≤ cnt) (gc : Option Str) (gy : Int) (ps : List Str)
    (j : Nat) (hj : j < l.length) (p : Parsed) (hp : parseBcurHelper l[j] = some p) (hne : p.checksum ≠ gc) :
    multiLoop l cnt gc gy ps = none := by
  induction l generalizing cnt ps j with
  | nil => simp at hj
  | cons s rest ih =>
    unfold multiLoop
    have hc0 : ¬ cnt = 0 := by omega
    cases j with
    | zero =>
      simp only [List.getElem_cons_zero] at hp
      rw [hp]
      simp only [hc0, if_false, hne, ne_eq, not_false_eq_true, if_true]
      split <;> rfl
    | succ j =>
      simp only [List.getElem_cons_succ] at hp
      cases hs : parseBcurHelper s with
      | none => rfl
      | some q =>
        simp only [hc0, if_false]
        have hj' : j < rest.length := by simpa using hj
        split
        · rfl
        · split
          · rfl
          · split
            · rfl
            · exact ih (cnt + 1) (by omega) _ j hj' hp

/-- after the first part, a part whose y differs from the recorded one makes the loop fail -/
theorem multiLoop_y_mismatch (l : List Str) (cnt : Nat) (hc : 1 ≤ cnt) (gc : Option Str) (gy : Int) (ps : List Str)
    (j : Nat) (hj : j < l.length) (p : Parsed) (hp : parseBcurHelper l[j] = some p) (hne : p.y ≠ gy) :
    multiLoop l cnt gc gy ps = none := by
  induction l generalizing cnt ps j with
  | nil => simp at hj
  | cons s rest ih =>
    unfold multiLoop
    have hc0 : ¬ cnt = 0 := by omega
    cases j with
    | zero =>
      simp only [List.getElem_cons_zero] at hp
      rw [hp]
      simp only [hc0, if_false, hne, ne_eq, not_false_eq_true, if_true]
      split
      · rfl
      · split <;> rfl
    | succ j =>
      simp only [List.getElem_cons_succ] at hp
      cases hs : parseBcurHelper s with
      | none => rfl
      | some q =>
        simp only [hc0, if_false]
        have hj' : j < rest.length := by simpa using hj
        split
        · rfl
        · split
          · rfl
          · split
            · rfl
            · exact ih (cnt + 1) (by omega) _ j hj' hp

/-- the first part fixes the recorded checksum and y -/
theorem multiLoop_first (s : Str) (rest : List Str) (p : Parsed) (hp : parseBcurHelper s = some p) (hx : p.x = 1) :
    multiLoop (s :: rest) 0 (some []) 0 [] = multiLoop rest 1 p.checksum p.y [p.payload] := by
  rw [multiLoop, hp]
  simp [hx]

/-! ### the constructor check and collision extraction -/

/-- when the constructor accepts a non-empty `checksum` argument, it is the canonical
    `bc32(sha256(cbor(data)))` -/
theorem construct_checksum (sha256 : Bytes → Bytes) (data : Bytes) (encoded : Option Str) (cs : Str) (hcs : cs ≠ [])
    (r : Str × Str) (h : construct sha256 data encoded (some cs) = some r) :
    ∃ cbor, cborEncode data = some cbor ∧ bc32encode (sha256 cbor) = some cs := by
  unfold construct at h
  cases he : bcurEncode sha256 data with
  | none => rw [he] at h; cases h
  | some eh =>
    obtain ⟨enc, encHash⟩ := eh
    rw [he] at h
    simp only at h
    have hce : cs = encHash := by
      by_contra hne
      have hb : badArg (some cs) encHash = true := by simp [badArg, hcs, hne]
      rw [hb] at h
      split at h <;> cases h
    unfold bcurEncode at he
    cases hc : cborEncode data with
    | none => simp [hc] at he
    | some cbor =>
      cases h1 : bc32encode cbor with
      | none => simp [hc, h1] at he
      | some e1 =>
        cases h2 : bc32encode (sha256 cbor) with
        | none => simp [hc, h1, h2] at he
        | some e2 =>
          simp [hc, h1, h2] at he
          exact ⟨cbor, rfl, by rw [h2, hce, ← he.2]⟩

/-- two payloads accepted under the same non-empty checksum text are equal, or their CBOR
    encodings are two different byte strings with the same SHA-256 -/
theorem checksum_collision (sha256 : Bytes → Bytes) (d d0 : Bytes) (cs : Str)
    (h : ∃ cbor, cborEncode d = some cbor ∧ bc32encode (sha256 cbor) = some cs)
    (h0 : ∃ cbor, cborEncode d0 = some cbor ∧ bc32encode (sha256 cbor) = some cs) :
    d = d0 ∨ ∃ c c0 : Bytes, c ≠ c0 ∧ sha256 c = sha256 c0 := by
  obtain ⟨c, hc, hs⟩ := h
  obtain ⟨c0, hc0, hs0⟩ := h0
  have heq : sha256 c = sha256 c0 := bc32encode_injective _ _ cs hs hs0
  by_cases hcc : c = c0
  · left
    subst hcc
    exact cborEncode_injective d d0 c hc hc0
  · exact Or.inr ⟨c, c0, hcc, heq⟩

/-! ### one substituted character in a bc32 text -/

theorem bc32decode_some {s : Str} {d : Bytes} (h : bc32decode s = some d) :
    ∃ res, (s.map asciiLower).mapM (fun c => indexOf? c Bech32.alphabet) = some res ∧
      polymod ([0] ++ res) = Gen.bc32DecConst := by
  unfold bc32decode at h
  split at h
  · cases h
  · simp only at h
    split at h
    · cases h
    · cases hm : (s.map asciiLower).mapM (fun c => indexOf? c Bech32.alphabet) with
      | none => rw [hm] at h; cases h
      | some res =>
        rw [hm] at h
        simp only at h
        split at h
        · cases h
        · next hp =>
          simp only [ne_eq, Decidable.not_not, Gen.bc32DecLead, List.replicate_one] at hp
          exact ⟨res, rfl, hp⟩

/-- A bc32 text in which one character is replaced by a character with another lower-case form
    is refused (replacing a letter by its other case gives the same text after `lower()`, or a
    mixed-case text, which is refused). -/
theorem bc32decode_single_subst (pre post : Str) (x y : Char) (hl : asciiLower x ≠ asciiLower y) (d : Bytes)
    (h : bc32decode (pre ++ x :: post) = some d) : bc32decode (pre ++ y :: post) = none := by
  cases h' : bc32decode (pre ++ y :: post) with
  | none => rfl
  | some d' =>
    exfalso
    obtain ⟨res, hm, hp⟩ := bc32decode_some h
    obtain ⟨res', hm', hp'⟩ := bc32decode_some h'
    simp only [List.map_append, List.map_cons] at hm hm'
    obtain ⟨r1, a, r3, e, p1, pa, p3, l1, la, l3⟩ := mapM_split hm
    obtain ⟨r1', b, r3', e', p1', pb, p3', l1', lb, l3'⟩ := mapM_split hm'
    have hr1 : r1' = r1 := map_b32char_inj l1' l1 (by rw [p1', p1])
    have hr3 : r3' = r3 := map_b32char_inj l3' l3 (by rw [p3', p3])
    subst hr1; subst hr3
    have hab : a ≠ b := by intro e0; subst e0; exact hl (by rw [← pa, ← pb])
    have hne := polymodFrom_single Gen.polymodInit ([0] ++ r1') r3' a b (by omega) (by omega) hab
    apply hne
    have h1 : polymodFrom Gen.polymodInit ([0] ++ r1' ++ a :: r3') = Gen.bc32DecConst := by
      rw [← hp, e]; unfold polymod; congr 1
    have h2 : polymodFrom Gen.polymodInit ([0] ++ r1' ++ b :: r3') = Gen.bc32DecConst := by
      rw [← hp', e']; unfold polymod; congr 1
    rw [h1, h2]

end Buidl.Bcur
