/-
  Helper lemmas for C02 (BIP340 Schnorr), part 2: Buidl.Model.Schnorr against Buidl.Spec.BIP340 where
  the group law of secp256k1, the order of G and the square root in F_p are needed
  (Buidl.Proofs.Secp256k1 / SecpCodec on top of Buidl.Proofs.ECGroup / Mathlib).
-/
import Buidl.Proofs.Schnorr
import Buidl.Proofs.SecpCodec
namespace Buidl.Schnorr
open Buidl Buidl.EC
open Buidl.Spec.BIP340 (liftX hashTag tagChallenge tagAux tagNonce bytes32 int)

-- keep `whnf` from unrolling modular exponentiations / scalar multiplications when it compares terms
attribute [local irreducible] fsqrt fpow pmul powmod

/-! ### lift_x is parse_xonly (except at 0, which the code reads as the point at infinity) -/

theorem sqrt_exp_mod : ((P + 1) / 4) % (P - 1) = (P + 1) / 4 := by decide

theorem fpow_sqrt_exp (c : ℕ) : fpow P c ((P + 1) / 4) = powmod c ((P + 1) / 4) P := by
  unfold fpow; rw [sqrt_exp_mod]

theorem P_odd' {y : ℕ} (hy : y < P) (h1 : y % 2 = 1) : (P - y) % 2 = 0 := by
  have := P_odd
  generalize P = p at *
  omega

theorem liftX_eq_parseXonly (b : Bytes) (h0 : beToNat b ≠ 0) : liftX (beToNat b) = parseXonly b := by
  rw [parseXonly_eq, if_neg h0]
  unfold liftX
  by_cases hx : beToNat b ≥ P
  · rw [if_pos hx, if_pos (by omega)]
  · have hxP : beToNat b < P := by omega
    rw [if_neg hx, if_neg (show ¬ ¬ beToNat b < P from fun h => h hxP), rhs_eq, fsqrt_eq, fpow_sqrt_exp]
    simp only []
    generalize hy : powmod ((beToNat b ^ 3 + 7) % P) ((P + 1) / 4) P = y
    have hyP : y < P := by rw [← hy]; exact powmod_lt _ _ _ P_pos
    by_cases hc : fmul P y y = (beToNat b ^ 3 + 7) % P
    · have hc' : y * y % P = (beToNat b ^ 3 + 7) % P := hc
      have hv : Valid P A B (.aff (beToNat b) y) :=
        valid_aff_iff_mod.mpr ⟨hxP, hyP, by rw [Nat.pow_two]; exact hc'⟩
      rw [if_pos hc]
      rw [if_neg (show ¬ ((beToNat b ^ 3 + 7) % P ≠ y * y % P) from fun h => h hc'.symm)]
      by_cases hpar : y % 2 = 0
      · rw [if_pos hpar]; simp only []
        rw [if_neg (show ¬ y % 2 = 1 by omega), mkPoint_of_valid hv]
      · rw [if_neg hpar]; simp only []
        rw [if_pos (show y % 2 = 1 by omega), mkPoint_of_valid (neg_valid_aff hv)]
    · have hc' : ¬ y * y % P = (beToNat b ^ 3 + 7) % P := hc
      rw [if_neg hc]
      rw [if_pos (show (beToNat b ^ 3 + 7) % P ≠ y * y % P from fun h => hc' h.symm)]

theorem liftX_zero : liftX 0 = none := by
  have h7 : ∀ y, y < P → y * y % P ≠ 7 % P := nonsquare_of_euler seven_pow_half
  unfold liftX
  rw [if_neg (by decide)]
  simp only []
  rw [if_pos]
  intro h
  exact h7 _ (powmod_lt _ _ _ P_pos) h.symm

theorem liftX_some {x : ℕ} {Q : Pt} (h : liftX x = some Q) : ∃ y, Q = .aff x y ∧ y % 2 = 0 ∧ x < P := by
  unfold liftX at h
  by_cases hx : x ≥ P
  · rw [if_pos hx] at h; cases h
  · rw [if_neg hx] at h
    simp only [] at h
    split at h
    · cases h
    · injection h with h
      refine ⟨_, h.symm, ?_, by omega⟩
      have hyP : powmod ((x ^ 3 + 7) % P) ((P + 1) / 4) P < P := powmod_lt _ _ _ P_pos
      split
      · assumption
      · exact P_odd' hyP (by omega)

/-! ### 32-byte big-endian -/

theorem natToBE'_inj {a b : ℕ} (ha : a < 256 ^ 32) (hb : b < 256 ^ 32) :
    natToBE' 32 a = natToBE' 32 b ↔ a = b := by
  constructor
  · intro h
    have := congrArg beToNat h
    rwa [beToNat_natToBE' ha, beToNat_natToBE' hb] at this
  · intro h; rw [h]

theorem lt_of_lt_P {x : ℕ} (h : x < P) : x < 256 ^ 32 := lt_trans h P_lt_2_256

theorem natToBE'_take_beToNat (b : Bytes) (h : b.length = 32) : natToBE' 32 (beToNat b) = b := by
  rw [← h]; exact natToBE'_beToNat b

/-! ### the verification step on parsed data -/

/-- the tail of BIP340 verification once `P = lift_x(pk)`, `r < p`, `s < n` are available -/
def specCore (sha256 : Bytes → Bytes) (Pk : Pt) (m : Bytes) (r s : ℕ) : Bool :=
  match sadd (smul (s : ℤ) G)
      (smul ((N - int (hashTag sha256 tagChallenge (bytes32 r ++ xonly Pk ++ m)) % N : ℕ) : ℤ) Pk) with
  | .inf => false
  | .aff x y => decide (y % 2 = 0) && decide (x = r)

theorem spec_verify_unfold (sha256 : Bytes → Bytes) (pk m sig : Bytes) :
    Spec.BIP340.verify sha256 pk m sig =
      match liftX (beToNat pk) with
      | none => false
      | some Pk =>
        if beToNat (sig.take 32) ≥ P then false else
        if beToNat ((sig.drop 32).take 32) ≥ N then false else
        specCore sha256 Pk m (beToNat (sig.take 32)) (beToNat ((sig.drop 32).take 32)) := rfl

theorem smul_N_sub (e : ℕ) (he : e < N) (Q : Pt) : smul ((N - e : ℕ) : ℤ) Q = smul (-(e : ℤ)) Q := by
  rw [Nat.cast_sub he.le, ← smul_add_mul_N (-(e : ℤ)) 1 Q]
  congr 1; ring

/-- S256Point.verify_schnorr on a finite key `Q` whose even-y normalisation is `Q'` and a finite `R`
    computes the tail of BIP340 verification for `Q'` -/
theorem verifySchnorr_core (sha256 : Bytes → Bytes) (c : Cache) (hc : CacheOK sha256 c)
    (px py : ℕ) (Q' : Pt) (hQ' : (if py % 2 = 1 then smul (-1) (.aff px py) else .aff px py) = Q')
    (hv : Valid P A B Q') (m : Bytes) (r ry s : ℕ) (hr : r < P) :
    ∃ c', verifySchnorr sha256 c (.aff px py) m (.aff r ry) s = some (specCore sha256 Q' m r s, c') ∧
      CacheOK sha256 c' := by
  obtain ⟨c', hh, hc'⟩ := taggedHash_spec sha256 c hc Gen.schnorrTagChallenge (xonly (.aff r ry) ++ xonly Q' ++ m)
  refine ⟨c', ?_, hc'⟩
  have he : beToNat (hashTag sha256 tagChallenge (bytes32 r ++ xonly Q' ++ m)) % N < N := Nat.mod_lt _ (by decide)
  simp only [verifySchnorr, parityOf, Option.bind_eq_bind, Option.bind_some, Option.pure_def, hQ', hashChallenge, hh]
  rw [tagChallenge_eq]
  have hx : xonly (.aff r ry) = bytes32 r := rfl
  rw [hx]
  simp only [specCore, int, saddInt]
  rw [smul_N_sub _ he, sadd_comm (smul_valid hv _) (smul_valid G_valid _)]
  have hres : Valid P A B (sadd (smul (s : ℤ) G)
      (smul (-(↑(beToNat (hashTag sha256 tagChallenge (bytes32 r ++ xonly Q' ++ m)) % N) : ℤ)) Q')) :=
    sadd_valid (smul_valid G_valid _) (smul_valid hv _)
  generalize sadd (smul (s : ℤ) G)
      (smul (-(↑(beToNat (hashTag sha256 tagChallenge (bytes32 r ++ xonly Q' ++ m)) % N) : ℤ)) Q') = res at hres
  cases res with
  | inf => rfl
  | aff x y =>
    have hxP : x < P := hres.1
    simp only []
    by_cases hy : y % 2 = 1
    · simp [hy]
    · have hy0 : y % 2 = 0 := by omega
      rw [if_neg hy]
      have e1 : (xonly (Pt.aff x y) == bytes32 r) = decide (x = r) := by
        show (natToBE' 32 x == natToBE' 32 r) = decide (x = r)
        by_cases hxr : x = r
        · simp [hxr]
        · have : natToBE' 32 x ≠ natToBE' 32 r :=
            fun h => hxr ((natToBE'_inj (lt_of_lt_P hxP) (lt_of_lt_P hr)).mp h)
          simp [hxr, this]
      rw [e1]; simp [hy0]

end Buidl.Schnorr
