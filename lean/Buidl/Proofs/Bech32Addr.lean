/-
  Segwit addresses: shape of what `encode_bech32_checksum` writes, `decode_bech32` on such a
  string (round trip), inversion of `decode_bech32`, and substituted characters.
-/
import Buidl.Proofs.Bech32
namespace Buidl.Bech32
open Buidl Buidl.Base58

/-! ### small facts about the extracted tables -/

theorem regtestPrefix_eq :
    dictGet Gen.prefixKeys Gen.prefixVals Gen.decB32RegtestKey.toList = some ['b', 'c', 'r', 't'] := by decide
theorem decSep_eq : Gen.decB32Sep.toList = ['1'] := by decide
theorem encSep_eq : Gen.encB32Sep.toList = ['1'] := by decide
theorem b32char_zero : b32char 0 = 'q' := by decide

theorem decB32Cmp0 (n : Nat) : cmpAt Gen.decB32Cmp 0 n = (n == 0) := by simp [cmpAt, cmpOp, Gen.decB32Cmp]
theorem decB32Cmp1 (n : Nat) : cmpAt Gen.decB32Cmp 1 n = decide (n < 2) := by simp [cmpAt, cmpOp, Gen.decB32Cmp]
theorem decB32Cmp2 (n : Nat) : cmpAt Gen.decB32Cmp 2 n = decide (n > 40) := by simp [cmpAt, cmpOp, Gen.decB32Cmp]
theorem encB32Cmp0 (n : Nat) : cmpAt Gen.encB32Cmp 0 n = decide (n > 0) := by simp [cmpAt, cmpOp, Gen.encB32Cmp]
theorem encB32Cmp1 (n : Nat) : cmpAt Gen.encB32Cmp 1 n = (n == 0) := by simp [cmpAt, cmpOp, Gen.encB32Cmp]

theorem shiftIn_eq_valBE (l : List Nat) : shiftIn 5 l = valBE 32 l := by
  simp [shiftIn, valBE, Nat.shiftLeft_eq]

/-- the checksum constant that belongs to a witness version -/
def constOf (v : Nat) : Nat := if v = 0 then Gen.b32VerifyConst else Gen.b32mVerifyConst

theorem constOf_lt (v : Nat) : constOf v < 2 ^ 30 := by
  unfold constOf; split <;> simp [Gen.b32VerifyConst, Gen.b32mVerifyConst]

theorem hrpExpand_lt {s : Str} {hx : List Nat} (h : hrpExpand s = some hx) : ∀ v ∈ hx, v < 32 := by
  unfold hrpExpand at h
  split at h
  · next hall =>
    cases h
    intro v hv
    rw [List.all_eq_true] at hall
    simp only [List.mem_append, List.mem_map, List.mem_singleton, Gen.hrpShift, Gen.hrpSep, Gen.hrpMask] at hv
    rcases hv with (⟨a, ⟨c, hc, rfl⟩, rfl⟩ | rfl) | ⟨a, ⟨c, hc, rfl⟩, rfl⟩
    · have := hall c hc
      simp only [decide_eq_true_eq] at this
      rw [Nat.shiftRight_eq_div_pow]; omega
    · omega
    · rw [and31]; exact Nat.mod_lt _ (by omega)
  · cases h

/-! ### `str.split` on one character -/

theorem splitChar_ne_nil (c : Char) (l : Str) : splitChar c l ≠ [] := by
  induction l with
  | nil => simp [splitChar]
  | cons x xs ih =>
    unfold splitChar
    split
    · simp
    · cases h : splitChar c xs <;> simp

theorem splitChar_not_mem (c : Char) (l : Str) (h : c ∉ l) : splitChar c l = [l] := by
  induction l with
  | nil => rfl
  | cons x xs ih =>
    have hx : ¬ x = c := fun e => h (by simp [e])
    have hxs : c ∉ xs := fun e => h (by simp [e])
    simp [splitChar, hx, ih hxs]

theorem splitChar_append_sep (c : Char) (a b : Str) (ha : c ∉ a) :
    splitChar c (a ++ c :: b) = a :: splitChar c b := by
  induction a with
  | nil => simp [splitChar]
  | cons x xs ih =>
    have hx : ¬ x = c := fun e => ha (by simp [e])
    have hxs : c ∉ xs := fun e => ha (by simp [e])
    simp [splitChar, hx, ih hxs]

theorem splitChar_mem_length (c : Char) (l : Str) (h : c ∈ l) : 2 ≤ (splitChar c l).length := by
  induction l with
  | nil => simp at h
  | cons x xs ih =>
    by_cases hx : x = c
    · have := splitChar_ne_nil c xs
      have hl : 1 ≤ (splitChar c xs).length := by
        cases hs : splitChar c xs with
        | nil => exact absurd hs this
        | cons _ _ => simp
      simp [splitChar, hx]
      exact hl
    · have hm : c ∈ xs := by
        rcases List.mem_cons.mp h with e | e
        · exact absurd e.symm hx
        · exact e
      have := ih hm
      cases hs : splitChar c xs with
      | nil => rw [hs] at this; simp at this
      | cons p ps =>
        rw [hs] at this
        simp [splitChar, hx, hs] at this ⊢
        omega

/-- `hrp, raw_data = s.split("1")` for a string `pre ‖ "1" ‖ chars` that does not start with "bcrt" -/
theorem splitHrp_plain (pre chars : Str) (hpre : '1' ∉ pre)
    (hnp : List.isPrefixOf ['b', 'c', 'r', 't'] (pre ++ '1' :: chars) = false) :
    splitHrp (pre ++ '1' :: chars) = if '1' ∈ chars then none else some (pre, chars) := by
  unfold splitHrp
  rw [regtestPrefix_eq]
  simp only [hnp, Bool.false_eq_true, if_false, decSep_eq]
  rw [splitChar_append_sep _ _ _ hpre]
  by_cases h1 : '1' ∈ chars
  · rw [if_pos h1]
    have hl := splitChar_mem_length '1' chars h1
    cases hs : splitChar '1' chars with
    | nil => exact absurd hs (splitChar_ne_nil _ _)
    | cons p ps =>
      cases ps with
      | nil => rw [hs] at hl; simp at hl
      | cons q qs => rfl
  · rw [if_neg h1, splitChar_not_mem _ _ h1]

theorem splitHrp_regtest (c : Char) (chars : Str) :
    splitHrp (['b', 'c', 'r', 't'] ++ c :: chars) = some (['b', 'c', 'r', 't'], chars) := by
  simp [splitHrp, regtestPrefix_eq, Gen.decB32RegtestSkip, List.isPrefixOf]

/-! ### what `encode_bech32_checksum` writes -/

/-- the first byte of a witness program of version `v` -/
def vbyte (v : Nat) : UInt8 := if v = 0 then 0 else UInt8.ofNat (0x50 + v)

/-- data part (values) of the address of version `v` and program `prog` under expanded prefix `hx` -/
def addrData (hx : List Nat) (v : Nat) (prog : Bytes) : List Nat :=
  (v :: group32 prog) ++ chkDigits 5 5 31 6 (polymod (hx ++ (v :: group32 prog) ++ List.replicate 6 0) ^^^ constOf v)

theorem addrData_lt (hx : List Nat) (v : Nat) (hv : v < 32) (prog : Bytes) (hne : prog ≠ []) :
    ∀ d ∈ addrData hx v prog, d < 32 := by
  obtain ⟨_, _, _, _, hg⟩ := group32_spec prog hne
  intro d hd
  unfold addrData at hd
  rcases List.mem_append.mp hd with hd | hd
  · rcases List.mem_cons.mp hd with rfl | hd
    · exact hv
    · exact hg d hd
  · exact chkDigits_lt _ d hd

theorem encodeBech32Checksum_built (net pre : Str) (hx : List Nat) (hp : prefixOf net = some pre) (hpne : pre ≠ [])
    (hhx : hrpExpand pre = some hx) (v : Nat) (hv : v ≤ 16) (prog : Bytes) (hne : prog ≠ []) (hlen : prog.length < 256) :
    encodeBech32Checksum (vbyte v :: UInt8.ofNat prog.length :: prog) net =
      some (pre ++ '1' :: (addrData hx v prog).map b32char) := by
  have hlb : (UInt8.ofNat prog.length).toNat = prog.length := by
    rw [UInt8.toNat_ofNat']; omega
  have hver : (if cmpAt Gen.encB32Cmp 0 (vbyte v).toNat then (vbyte v).toNat - Gen.encB32OpBase else (vbyte v).toNat) = v := by
    rw [encB32Cmp0]
    unfold vbyte
    by_cases h0 : v = 0
    · subst h0; simp
    · have hm : (80 + v) % 256 = 80 + v := Nat.mod_eq_of_lt (by omega)
      simp only [h0, if_false, UInt8.toNat_ofNat', Gen.encB32OpBase, hm, decide_eq_true_eq]
      split <;> omega
  have hchk : (if cmpAt Gen.encB32Cmp 1 v then createChecksum (hx ++ v :: group32 prog)
      else createChecksumM (hx ++ v :: group32 prog)) =
      chkDigits 5 5 31 6 (polymod (hx ++ (v :: group32 prog) ++ List.replicate 6 0) ^^^ constOf v) := by
    rw [encB32Cmp1]
    by_cases h0 : v = 0
    · subst h0; rfl
    · have : (v == 0) = false := by simpa using h0
      rw [this]
      simp only [Bool.false_eq_true, if_false, constOf, h0]
      rfl
  unfold encodeBech32Checksum
  rw [hp]
  simp only [hpne, if_false, hver, hlb, List.take_length, hhx, hchk]
  have hall := addrData_lt hx v (by omega) prog hne
  unfold addrData at hall
  rw [lookupAll32 _ hall, encSep_eq]
  simp [addrData]

/-! ### decoding a well-formed address -/

theorem decodeBody_built (pre net' : Str) (hx : List Nat) (hnf : netForPrefix pre = some net') (hne : net' ≠ [])
    (hhx : hrpExpand pre = some hx) (v : Nat) (hv : v < 32) (prog : Bytes)
    (hlen : 2 ≤ prog.length ∧ prog.length ≤ 40) :
    decodeBody pre ((addrData hx v prog).map b32char) = some (net', v, prog) := by
  have hpne : prog ≠ [] := by intro e; rw [e] at hlen; simp at hlen
  obtain ⟨pad, hpad, hglen, hgval, hg⟩ := group32_spec prog hpne
  have hall := addrData_lt hx v hv prog hpne
  set g := group32 prog with hgdef
  set chk := chkDigits 5 5 31 6 (polymod (hx ++ (v :: g) ++ List.replicate 6 0) ^^^ constOf v) with hchk
  have hchklen : chk.length = 6 := chkDigits_length _
  have hdata : addrData hx v prog = v :: (g ++ chk) := rfl
  have hxlt : ∀ w ∈ hx ++ v :: g, w < 2 ^ 30 := by
    intro w hw
    rcases List.mem_append.mp hw with hw | hw
    · have := hrpExpand_lt hhx w hw; omega
    · rcases List.mem_cons.mp hw with rfl | hw
      · omega
      · have := hg w hw; omega
  have hpm : polymod (hx ++ v :: (g ++ chk)) = constOf v := by
    have := polymod_create (hx ++ v :: g) hxlt (constOf v) (constOf_lt v)
    rw [← hchk] at this
    rw [← this]; congr 1; simp
  have hok : (if cmpAt Gen.decB32Cmp 0 v then verifyChecksum (hx ++ v :: (g ++ chk))
      else verifyChecksumM (hx ++ v :: (g ++ chk))) = true := by
    rw [decB32Cmp0]
    unfold verifyChecksum verifyChecksumM
    rw [hpm]
    by_cases h0 : v = 0
    · subst h0; simp [constOf]
    · have : (v == 0) = false := by simpa using h0
      simp [this, constOf, h0]
  have hn : (v :: (g ++ chk)).length = g.length + 7 := by simp [hchklen]
  have hbody : ((v :: (g ++ chk)).take ((v :: (g ++ chk)).length - Gen.decB32BodyCut)).drop Gen.decB32BodyFrom = g := by
    rw [hn]
    simp [Gen.decB32BodyCut, Gen.decB32BodyFrom]
  have hnb : ((v :: (g ++ chk)).length - Gen.decB32Overhead) * Gen.decB32GroupBits / Gen.decB32ByteBits = prog.length := by
    rw [hn]; simp only [Gen.decB32Overhead, Gen.decB32GroupBits, Gen.decB32ByteBits]; omega
  have hig : ((v :: (g ++ chk)).length - Gen.decB32Overhead2) * Gen.decB32GroupBits2 % Gen.decB32ByteBits2 = pad := by
    rw [hn]; simp only [Gen.decB32Overhead2, Gen.decB32GroupBits2, Gen.decB32ByteBits2]; omega
  have hnum : shiftIn Gen.decB32Shl g >>> pad = beToNat prog := by
    simp only [Gen.decB32Shl]
    rw [shiftIn_eq_valBE, hgval, Nat.shiftRight_eq_div_pow, Nat.mul_div_cancel _ (Nat.pow_pos (by omega))]
  have hbe : natToBE (beToNat prog) prog.length = some prog := by
    unfold natToBE
    rw [if_pos (beToNat_lt' prog), natToBE'_beToNat]
  have hnlt : ¬ ((v :: (g ++ chk)).length < Gen.decB32Overhead ∨ (v :: (g ++ chk)).length < Gen.decB32Overhead2) := by
    rw [hn]; simp only [Gen.decB32Overhead, Gen.decB32Overhead2]; omega
  unfold decodeBody
  rw [hnf]
  simp only [hne, if_false, hdata, mapM_index_b32 _ (hdata ▸ hall), hhx, hok, not_true_eq_false, hnlt, hbody, hnb, hig,
    hnum, hbe, decB32Cmp1, decB32Cmp2]
  have h1 : ¬ prog.length < 2 := by omega
  have h2 : ¬ prog.length > 40 := by omega
  simp [h1, h2]

/-! ### inversion of `decode_bech32` -/

theorem decodeBody_some {hrp raw : Str} {r : Str × Nat × Bytes} (h : decodeBody hrp raw = some r) :
    ∃ (hx res : List Nat) (dtail : List Nat), hrpExpand hrp = some hx ∧
      raw.mapM (fun c => indexOf? c alphabet) = some res ∧ res = r.2.1 :: dtail ∧
      polymod (hx ++ res) = constOf r.2.1 := by
  unfold decodeBody at h
  cases hn : netForPrefix hrp with
  | none => simp [hn] at h
  | some network =>
    rw [hn] at h
    simp only at h
    split at h
    · cases h
    · cases hm : raw.mapM (fun c => indexOf? c alphabet) with
      | none => simp [hm] at h
      | some res =>
        cases hx? : hrpExpand hrp with
        | none => cases res <;> simp [hm, hx?] at h
        | some hx =>
          cases res with
          | nil => simp [hm, hx?] at h
          | cons version dtail =>
            rw [hm, hx?] at h
            simp only at h
            have hok : (if cmpAt Gen.decB32Cmp 0 version then verifyChecksum (hx ++ version :: dtail)
                else verifyChecksumM (hx ++ version :: dtail)) = true := by
              by_contra hc
              simp [hc] at h
            have hr : r.2.1 = version := by
              simp only [hok, not_true_eq_false, if_false] at h
              split at h
              · cases h
              · split at h
                · cases h
                · split at h
                  · cases h
                  · cases h; rfl
            refine ⟨hx, version :: dtail, dtail, rfl, rfl, by rw [hr], ?_⟩
            rw [decB32Cmp0] at hok
            rw [hr]
            unfold constOf
            by_cases h0 : version = 0
            · subst h0
              simpa [verifyChecksum] using hok
            · have : (version == 0) = false := by simpa using h0
              simpa [this, verifyChecksumM, h0] using hok

/-! ### substituted characters -/

/-- decompose the index list of a string `pre ‖ x ‖ post` -/
theorem mapM_split {pre post : Str} {x : Char} {res : List Nat}
    (h : (pre ++ x :: post).mapM (fun c => indexOf? c alphabet) = some res) :
    ∃ r1 a r3, res = r1 ++ a :: r3 ∧ r1.map b32char = pre ∧ b32char a = x ∧ r3.map b32char = post ∧
      (∀ d ∈ r1, d < 32) ∧ a < 32 ∧ (∀ d ∈ r3, d < 32) := by
  obtain ⟨hs, hlt⟩ := mapM_index_some h
  obtain ⟨r1, r2, hres, h1, h2⟩ := List.map_eq_append_iff.mp hs.symm
  obtain ⟨a, r3, hr2, ha, h3⟩ := List.map_eq_cons_iff.mp h2
  subst hres; subst hr2
  refine ⟨r1, a, r3, rfl, h1, ha, h3, ?_, ?_, ?_⟩
  · intro d hd; exact hlt d (by simp [hd])
  · exact hlt a (by simp)
  · intro d hd; exact hlt d (by simp [hd])

/-- one substituted character in the data part: refused.  If the character is the first one
    (the witness version) and the substitution switches between version 0 and another version,
    the checksum constant changes too and the statement needs at most 89 characters after it
    (an address has at most 90 characters in all). -/
theorem decodeBody_single_subst (hrp pre post : Str) (x y : Char) (hxy : x ≠ y) (r : Str × Nat × Bytes)
    (h : decodeBody hrp (pre ++ x :: post) = some r)
    (hcase : pre ≠ [] ∨ (x = 'q' ↔ y = 'q') ∨ post.length ≤ 89) :
    decodeBody hrp (pre ++ y :: post) = none := by
  cases h' : decodeBody hrp (pre ++ y :: post) with
  | none => rfl
  | some r' =>
    exfalso
    obtain ⟨hx, res, dtail, hhx, hm, hres, hpm⟩ := decodeBody_some h
    obtain ⟨hx', res', dtail', hhx', hm', hres', hpm'⟩ := decodeBody_some h'
    rw [hhx] at hhx'; cases hhx'
    obtain ⟨r1, a, r3, e, p1, pa, p3, l1, la, l3⟩ := mapM_split hm
    obtain ⟨r1', b, r3', e', p1', pb, p3', l1', lb, l3'⟩ := mapM_split hm'
    have hr1 : r1' = r1 := map_b32char_inj l1' l1 (by rw [p1', p1])
    have hr3 : r3' = r3 := map_b32char_inj l3' l3 (by rw [p3', p3])
    subst hr1; subst hr3
    have hab : a ≠ b := by intro e; subst e; exact hxy (by rw [← pa, ← pb])
    have hne := polymodFrom_single Gen.polymodInit (hx ++ r1') r3' a b (by omega) (by omega) hab
    have hP : polymodFrom Gen.polymodInit (hx ++ r1' ++ a :: r3') = constOf r.2.1 := by
      rw [← hpm, e]; unfold polymod; congr 1; simp
    have hP' : polymodFrom Gen.polymodInit (hx ++ r1' ++ b :: r3') = constOf r'.2.1 := by
      rw [← hpm', e']; unfold polymod; congr 1; simp
    have hlen3 : r3'.length = post.length := by rw [← p3]; simp
    -- the versions
    by_cases hr1 : r1' = []
    · subst hr1
      have hva : r.2.1 = a := by
        have := hres ▸ e; simp at this; exact this.1
      have hvb : r'.2.1 = b := by
        have := hres' ▸ e'; simp at this; exact this.1
      have hpre : pre = [] := by rw [← p1]; rfl
      rcases hcase with hc | hc | hc
      · exact hc hpre
      · -- same constant
        have ha0 : a = 0 ↔ x = 'q' := by
          rw [← pa, ← b32char_zero]
          constructor
          · intro e0; rw [e0]
          · intro e0; exact b32char_inj la (by omega) e0
        have hb0 : b = 0 ↔ y = 'q' := by
          rw [← pb, ← b32char_zero]
          constructor
          · intro e0; rw [e0]
          · intro e0; exact b32char_inj lb (by omega) e0
        have hconst : constOf r.2.1 = constOf r'.2.1 := by
          rw [hva, hvb]; unfold constOf
          by_cases h0 : a = 0
          · have : b = 0 := hb0.mpr (hc.mp (ha0.mp h0))
            rw [if_pos h0, if_pos this]
          · have : ¬ b = 0 := fun hb => h0 (ha0.mpr (hc.mpr (hb0.mp hb)))
            rw [if_neg h0, if_neg this]
        exact hne (by rw [hP, hP', hconst])
      · -- the constant may switch: bounded length
        have hsw := polymodFrom_single_switch Gen.polymodInit (hx ++ []) r3' a b la lb hab (by omega)
        rw [hP, hP', hva, hvb] at hsw
        by_cases h0 : a = 0
        · by_cases hb : b = 0
          · exact hab (by rw [h0, hb])
          · exact hsw (by simp [constOf, h0, hb])
        · by_cases hb : b = 0
          · exact hsw (by simp [constOf, h0, hb, Nat.xor_comm])
          · exact hne (by rw [hP, hP', hva, hvb]; simp [constOf, h0, hb])
    · -- the version character is untouched
      obtain ⟨v0, t, hr1c⟩ := List.exists_cons_of_ne_nil hr1
      have hva : r.2.1 = v0 := by
        have := hres ▸ e; rw [hr1c] at this; simp at this; exact this.1
      have hvb : r'.2.1 = v0 := by
        have := hres' ▸ e'; rw [hr1c] at this; simp at this; exact this.1
      exact hne (by rw [hP, hP', hva, hvb])

/-- two substituted characters in the data part at distance ≤ 89, the checksum constant
    unchanged: refused -/
theorem decodeBody_double_subst (hrp pre mid post : Str) (x y x' y' : Char) (hxy : x ≠ y) (hxy' : x' ≠ y')
    (r : Str × Nat × Bytes) (h : decodeBody hrp (pre ++ x :: mid ++ x' :: post) = some r)
    (hmid : mid.length < 89) (hcase : pre ≠ [] ∨ (x = 'q' ↔ y = 'q')) :
    decodeBody hrp (pre ++ y :: mid ++ y' :: post) = none := by
  cases h' : decodeBody hrp (pre ++ y :: mid ++ y' :: post) with
  | none => rfl
  | some r' =>
    exfalso
    obtain ⟨hx, res, dtail, hhx, hm, hres, hpm⟩ := decodeBody_some h
    obtain ⟨hx', res', dtail', hhx', hm', hres', hpm'⟩ := decodeBody_some h'
    rw [hhx] at hhx'; cases hhx'
    rw [List.append_assoc] at hm hm'
    obtain ⟨r1, a, r3, e, p1, pa, p3, l1, la, l3⟩ := mapM_split hm
    obtain ⟨r1', b, r3', e', p1', pb, p3', l1', lb, l3'⟩ := mapM_split hm'
    have hr1 : r1' = r1 := map_b32char_inj l1' l1 (by rw [p1', p1])
    subst hr1
    -- split the tails once more
    have hs3 : (mid ++ x' :: post).mapM (fun c => indexOf? c alphabet) = some r3 := by
      have e3 : mid ++ x' :: post = r3.map b32char := p3.symm
      rw [e3]; exact mapM_index_b32 r3 l3
    have hs3' : (mid ++ y' :: post).mapM (fun c => indexOf? c alphabet) = some r3' := by
      have e3 : mid ++ y' :: post = r3'.map b32char := p3'.symm
      rw [e3]; exact mapM_index_b32 r3' l3'
    obtain ⟨m1, a', m3, f, q1, qa, q3, k1, ka, k3⟩ := mapM_split hs3
    obtain ⟨m1', b', m3', f', q1', qb, q3', k1', kb, k3'⟩ := mapM_split hs3'
    have hm1 : m1' = m1 := map_b32char_inj k1' k1 (by rw [q1', q1])
    have hm3 : m3' = m3 := map_b32char_inj k3' k3 (by rw [q3', q3])
    subst hm1; subst hm3
    have hab : a ≠ b := by intro e0; subst e0; exact hxy (by rw [← pa, ← pb])
    have hab' : a' ≠ b' := by intro e0; subst e0; exact hxy' (by rw [← qa, ← qb])
    have hmlen : m1'.length < 89 := by rw [← q1] at hmid; simpa using hmid
    have hne := polymodFrom_double Gen.polymodInit (hx ++ r1') m1' m3' a b a' b' la lb ka kb hab hab' hmlen
    have hP : polymodFrom Gen.polymodInit (hx ++ r1' ++ a :: m1' ++ a' :: m3') = constOf r.2.1 := by
      rw [← hpm, e, f]; unfold polymod; congr 1; simp
    have hP' : polymodFrom Gen.polymodInit (hx ++ r1' ++ b :: m1' ++ b' :: m3') = constOf r'.2.1 := by
      rw [← hpm', e', f']; unfold polymod; congr 1; simp
    have hconst : constOf r.2.1 = constOf r'.2.1 := by
      by_cases hr1 : r1' = []
      · subst hr1
        have hva : r.2.1 = a := by
          have := hres ▸ e; simp at this; exact this.1
        have hvb : r'.2.1 = b := by
          have := hres' ▸ e'; simp at this; exact this.1
        have hpre : pre = [] := by rw [← p1]; rfl
        rcases hcase with hc | hc
        · exact absurd hpre hc
        · have ha0 : a = 0 ↔ x = 'q' := by
            rw [← pa, ← b32char_zero]
            constructor
            · intro e0; rw [e0]
            · intro e0; exact b32char_inj la (by omega) e0
          have hb0 : b = 0 ↔ y = 'q' := by
            rw [← pb, ← b32char_zero]
            constructor
            · intro e0; rw [e0]
            · intro e0; exact b32char_inj lb (by omega) e0
          rw [hva, hvb]; unfold constOf
          by_cases h0 : a = 0
          · have : b = 0 := hb0.mpr (hc.mp (ha0.mp h0))
            rw [if_pos h0, if_pos this]
          · have : ¬ b = 0 := fun hb => h0 (ha0.mpr (hc.mpr (hb0.mp hb)))
            rw [if_neg h0, if_neg this]
      · obtain ⟨v0, t, hr1c⟩ := List.exists_cons_of_ne_nil hr1
        have hva : r.2.1 = v0 := by
          have := hres ▸ e; rw [hr1c] at this; simp at this; exact this.1
        have hvb : r'.2.1 = v0 := by
          have := hres' ▸ e'; rw [hr1c] at this; simp at this; exact this.1
        rw [hva, hvb]
    exact hne (by rw [hP, hP', hconst])

end Buidl.Bech32
