/-
  C02 helper: `S256Point.parse(pk).verify_schnorr(msg, SchnorrSignature.parse(sig))` accepts exactly when
  BIP340 verification accepts (32-byte keys, 64-byte signatures).
-/
import Buidl.Proofs.SchnorrGroup
namespace Buidl.Schnorr
open Buidl Buidl.EC
open Buidl.Spec.BIP340 (liftX hashTag tagChallenge tagAux tagNonce bytes32 int)

attribute [local irreducible] fsqrt fpow pmul powmod

/-- a non-zero x-only string parses to a finite point with that x and even y -/
theorem parseXonly_aff {b : Bytes} {Q : Pt} (h0 : beToNat b ≠ 0) (h : parseXonly b = some Q) :
    ∃ y, Q = .aff (beToNat b) y ∧ y % 2 = 0 := by
  rw [← liftX_eq_parseXonly b h0] at h
  obtain ⟨y, hQ, hy, _⟩ := liftX_some h
  exact ⟨y, hQ, hy⟩

/-- the point `sG − eP` never has x = 0, and when its x is `r` then `r` lifts -/
theorem specCore_r_zero (sha256 : Bytes → Bytes) (Pk : Pt) (hv : Valid P A B Pk) (m : Bytes) (s : ℕ) :
    specCore sha256 Pk m 0 s = false := by
  unfold specCore
  have hres := sadd_valid (smul_valid G_valid (s : ℤ))
    (smul_valid hv ((N - int (hashTag sha256 tagChallenge (bytes32 0 ++ xonly Pk ++ m)) % N : ℕ) : ℤ))
  generalize sadd (smul (s : ℤ) G)
    (smul ((N - int (hashTag sha256 tagChallenge (bytes32 0 ++ xonly Pk ++ m)) % N : ℕ) : ℤ) Pk) = res at hres
  cases res with
  | inf => rfl
  | aff x y =>
    have := valid_x_ne_zero hres
    simp [this]

theorem specCore_true_lifts (sha256 : Bytes → Bytes) (Pk : Pt) (hv : Valid P A B Pk) (m : Bytes) (r s : ℕ)
    (h : specCore sha256 Pk m r s = true) : ∃ y, Valid P A B (.aff r y) := by
  unfold specCore at h
  have hres := sadd_valid (smul_valid G_valid (s : ℤ))
    (smul_valid hv ((N - int (hashTag sha256 tagChallenge (bytes32 r ++ xonly Pk ++ m)) % N : ℕ) : ℤ))
  generalize sadd (smul (s : ℤ) G)
    (smul ((N - int (hashTag sha256 tagChallenge (bytes32 r ++ xonly Pk ++ m)) % N : ℕ) : ℤ) Pk) = res at hres h
  cases res with
  | inf => cases h
  | aff x y =>
    simp only [Bool.and_eq_true, decide_eq_true_eq] at h
    exact ⟨y, h.2 ▸ hres⟩

theorem parse_eq (sig : Bytes) : parse sig =
    match parsePoint (sig.take 32) with
    | none => none
    | some R => if beToNat ((sig.drop 32).take 32) ≥ N then none else some (R, beToNat ((sig.drop 32).take 32)) := by
  simp only [parse, sread, Gen.schnorrParseRWidth, Gen.schnorrParseSWidth, Option.bind_eq_bind]
  cases parsePoint (sig.take 32) with
  | none => rfl
  | some R => simp only [Option.bind_some, mkSig_eq]

/-- **verification is BIP340 verification** -/
theorem verifyRaw_iff_spec (sha256 : Bytes → Bytes) (c : Cache) (hc : CacheOK sha256 c)
    (pk m sig : Bytes) (hpk : pk.length = 32) (hsig : sig.length = 64) :
    (∃ c', verifyRaw sha256 c pk m sig = some (true, c')) ↔ Spec.BIP340.verify sha256 pk m sig = true := by
  have hrl : (sig.take 32).length = 32 := by simp; omega
  rw [spec_verify_unfold]
  simp only [verifyRaw, parsePoint, hpk, if_true, parse_eq, hrl, Option.bind_eq_bind]
  by_cases hn0 : beToNat pk = 0
  · -- the key 0 is read as the point at infinity, on which verify_schnorr raises; lift_x(0) fails
    rw [hn0, liftX_zero, parseXonly_zero pk hn0]
    simp only [Option.bind_some]
    constructor
    · rintro ⟨c', h⟩
      cases hp : parseXonly (sig.take 32) with
      | none => simp [hp] at h
      | some R =>
        simp only [hp] at h
        split at h
        · simp at h
        · simp [verifySchnorr, parityOf] at h
    · intro h; cases h
  · rw [liftX_eq_parseXonly pk hn0]
    cases hP : parseXonly pk with
    | none => simp
    | some Pk =>
      obtain ⟨py, rfl, hpy⟩ := parseXonly_aff hn0 hP
      have hv : Valid P A B (.aff (beToNat pk) py) := parseXonly_valid hP
      simp only [Option.bind_some]
      by_cases hrP : beToNat (sig.take 32) ≥ P
      · rw [parseXonly_x_ge_p _ hrP, if_pos hrP]; simp
      · rw [if_neg hrP]
        by_cases hsN : beToNat ((sig.drop 32).take 32) ≥ N
        · rw [if_pos hsN]
          cases parseXonly (sig.take 32) <;> simp [hsN]
        · rw [if_neg hsN]
          by_cases hr0 : beToNat (sig.take 32) = 0
          · rw [parseXonly_zero _ hr0, hr0, specCore_r_zero sha256 _ hv]
            simp [hsN, verifySchnorr, parityOf]
          · cases hR : parseXonly (sig.take 32) with
            | none =>
              simp only [Option.bind_none]
              constructor
              · rintro ⟨c', h⟩; cases h
              · intro h
                obtain ⟨y, hy⟩ := specCore_true_lifts sha256 _ hv m _ _ h
                have := parseXonly_xonly hy (by simp)
                have hx : xonly (.aff (beToNat (sig.take 32)) y) = sig.take 32 :=
                  natToBE'_take_beToNat _ hrl
                rw [hx, hR] at this
                cases this
            | some R =>
              obtain ⟨ry, rfl, hry⟩ := parseXonly_aff hr0 hR
              simp only [Option.bind_some, if_neg hsN]
              obtain ⟨c', hcore, _⟩ := verifySchnorr_core sha256 c hc (beToNat pk) py _
                (by rw [if_neg (by omega)]) hv m (beToNat (sig.take 32)) ry
                (beToNat ((sig.drop 32).take 32)) (by omega)
              rw [hcore]
              constructor
              · rintro ⟨c'', h⟩
                injection h with h
                exact (Prod.mk.inj h).1
              · intro h; exact ⟨c', by rw [h]⟩

/-- The all-zero x-only key: `S256Point.parse` reads it as the point at infinity (it does not refuse it), and
    `verify_schnorr` on the point at infinity raises (no `parity` attribute) before looking at the signature; so the
    call never returns True — whatever the message and the signature, also when the signature string itself does
    not parse.  BIP340 refuses the key because `lift_x(0)` fails (7 is not a square modulo p). -/
theorem verifyRaw_zero_key (sha256 : Bytes → Bytes) (c : Cache) (pk m sig : Bytes) (hpk : pk.length = 32)
    (h0 : beToNat pk = 0) :
    parsePoint pk = some .inf ∧ verifyRaw sha256 c pk m sig = none ∧ Spec.BIP340.verify sha256 pk m sig = false := by
  have hp : parsePoint pk = some .inf := by
    simp only [parsePoint, hpk, if_true]; exact parseXonly_zero pk h0
  refine ⟨hp, ?_, ?_⟩
  · simp only [verifyRaw, hp, Option.bind_eq_bind, Option.bind_some]
    cases parse sig with
    | none => rfl
    | some Rs => simp [verifySchnorr, parityOf]
  · rw [spec_verify_unfold, h0, liftX_zero]

/-- verify_schnorr on the point at infinity as key never answers (AttributeError), for every R and s -/
theorem verifySchnorr_inf_key (sha256 : Bytes → Bytes) (c : Cache) (m : Bytes) (R : Pt) (s : ℕ) :
    verifySchnorr sha256 c .inf m R s = none := by
  simp [verifySchnorr, parityOf]

end Buidl.Schnorr
