/-
  Buidl.Proofs.GF256Table — kernel-checked facts about the GF(256) tables that the model computes exactly as
  `ShareSet._load` does (generator step `(cur << 1) ^ cur`, reduction by the extracted constant).
  Kept in a module of its own: re-checked only when the constants or `load` change.
-/
import Buidl.Model.Shamir
namespace Buidl.Shamir
open Buidl

/-- `exp[i]` / `log2[a]` as total functions (0 outside the table) -/
def expN (i : Nat) : Nat := tables.exp.getD i 0
def logN (a : Nat) : Nat := tables.log.getD a 0

def allBelow (n : Nat) (p : Nat → Bool) : Bool := (List.range n).all p

/-- every fact used about the tables, in one Boolean -/
def checkTables (t : Tables) : Bool :=
  t.exp.length == 255 && t.log.length == 256 && t.log.getD 0 0 == 0 && t.exp.getD 0 0 == 1 &&
  allBelow 255 (fun i =>
    let e := t.exp.getD i 0
    decide (0 < e) && decide (e < 256) && t.log.getD e 0 == i &&
    t.exp.getD ((i + 1) % 255) 0 == gfNext e) &&
  allBelow 256 (fun a => a == 0 ||
    (let l := t.log.getD a 0
     decide (l < 255) && t.exp.getD l 0 == a))

theorem tables_check : checkTables tables = true := by decide +kernel

/-- the generator step on a byte: a closed form without the comparison, and the range -/
def checkNext : Bool :=
  allBelow 256 fun a => decide (gfNext a < 256) &&
    gfNext a == (((a <<< 1) ^^^ a) ^^^ (if a.testBit 7 then Gen.gfReduce else 0))

theorem next_check : checkNext = true := by decide +kernel

end Buidl.Shamir
