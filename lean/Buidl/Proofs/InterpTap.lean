/-
  Buidl.Proofs.InterpTap — TAPROOT_OP_CODE_FUNCTIONS (Buidl.Gen.Op.taprootOpCodeFunctions, re-extracted from
  buidl/op.py on every run) against BIP342 as transcribed in Buidl.Spec.Tapscript: the validity oracle read off
  the environment, the three Schnorr signature opcodes function by function, and the table facts (decided over
  all 256 opcode numbers).  Definitions and helper lemmas for Buidl.Props.C07Tap.
-/
import Buidl.Proofs.Interp
import Buidl.Spec.Tapscript

namespace Buidl.Interp
open Buidl Buidl.Script Buidl.Spec

/-! ## the tapscript dispatch table against BIP342 (Buidl.Spec.Tapscript) -/

/-- the spec's signature-validity oracle, read off the environment: the element passes the check that
    op_checksig_schnorr / op_checksigadd_schnorr make (key parses, signature parses, digest exists,
    `verify_schnorr` returns True).  That this check is BIP340 verification is C02's subject
    (Buidl.Proofs.Compose.bip340_of_schnorrCheck). -/
def validOf (env : Env) : Tapscript.SigValid :=
  fun pk sig => decide (schnorrCheck env pk sig = .ok (some true))

theorem schnorrCheck_nil (env : Env) (pk : Bytes) (h : env.xonlyErr pk = none) :
    schnorrCheck env pk [] = .ok none := by
  simp [schnorrCheck, optErr, h]

theorem schnorrCheck_nil_ne_true (env : Env) (pk : Bytes) : schnorrCheck env pk [] ≠ .ok (some true) := by
  unfold schnorrCheck optErr
  cases env.xonlyErr pk <;> simp

theorem sig_ne_nil_of_true {env : Env} {pk sig : Bytes} (h : schnorrCheck env pk sig = .ok (some true)) :
    sig ≠ [] := by
  intro e; subst e; exact schnorrCheck_nil_ne_true env pk h

/-- the condition under which the three signature opcodes conform: a 32-byte key, and the signature is either
    empty (with a key that parses) or passes the check -/
def SigConforming (env : Env) (pk sig : Bytes) : Prop :=
  pk.length = 32 ∧ ((sig = [] ∧ env.xonlyErr pk = none) ∨ schnorrCheck env pk sig = .ok (some true))

theorem sigOutcome_conforming {env : Env} {pk sig : Bytes} (h : SigConforming env pk sig) :
    (sig = [] ∧ schnorrCheck env pk sig = .ok none ∧ Tapscript.sigOutcome (validOf env) pk sig = .empty) ∨
    (schnorrCheck env pk sig = .ok (some true) ∧ Tapscript.sigOutcome (validOf env) pk sig = .good) := by
  obtain ⟨h32, h | h⟩ := h
  · obtain ⟨rfl, hx⟩ := h
    exact Or.inl ⟨rfl, schnorrCheck_nil env pk hx, by simp [Tapscript.sigOutcome, h32]⟩
  · refine Or.inr ⟨h, ?_⟩
    have := sig_ne_nil_of_true h
    simp [Tapscript.sigOutcome, h32, this, validOf, h]

/-- OP_CHECKSIG in a tapscript -/
theorem checksig_tap_fn_conforms (env : Env) (s alt : Stack)
    (h : ∀ pk sig r, s = pk :: sig :: r → SigConforming env pk sig) :
    liftS (op_checksig_schnorr env s) alt = (Tapscript.execSigOp (validOf env) 172 s).map (·, alt) := by
  match s with
  | [] => rfl
  | [_] => rfl
  | pk :: sig :: r =>
    rcases sigOutcome_conforming (h pk sig r rfl) with ⟨_, h1, h2⟩ | ⟨h1, h2⟩
    · simp only [op_checksig_schnorr, h1, Res.bind, Tapscript.execSigOp, if_true, h2]; rfl
    · simp only [op_checksig_schnorr, h1, Res.bind, Tapscript.execSigOp, if_true, h2]; rfl

/-- OP_CHECKSIGVERIFY in a tapscript -/
theorem checksigverify_tap_fn_conforms (env : Env) (s alt : Stack)
    (h : ∀ pk sig r, s = pk :: sig :: r → SigConforming env pk sig) :
    liftS (op_checksigverify_schnorr env s) alt = (Tapscript.execSigOp (validOf env) 173 s).map (·, alt) := by
  match s with
  | [] => rfl
  | [_] => rfl
  | pk :: sig :: r =>
    rcases sigOutcome_conforming (h pk sig r rfl) with ⟨_, h1, h2⟩ | ⟨h1, h2⟩
    · simp only [op_checksigverify_schnorr, op_checksig_schnorr, h1, Res.bind, Tapscript.execSigOp, h2]; rfl
    · simp only [op_checksigverify_schnorr, op_checksig_schnorr, h1, Res.bind, Tapscript.execSigOp, h2]; rfl

/-- OP_CHECKSIGADD: additionally the counter has at most 4 bytes -/
theorem checksigadd_tap_fn_conforms (env : Env) (s alt : Stack)
    (h : ∀ pk nb sig r, s = pk :: nb :: sig :: r → nb.length ≤ 4 ∧ SigConforming env pk sig) :
    liftS (op_checksigadd_schnorr env s) alt = (Tapscript.execSigOp (validOf env) 186 s).map (·, alt) := by
  match s with
  | [] => rfl
  | [_] => rfl
  | [_, _] => rfl
  | pk :: nb :: sig :: r =>
    obtain ⟨h4, hc⟩ := h pk nb sig r rfl
    have hn4 : ¬ nb.length > 4 := by omega
    rcases sigOutcome_conforming hc with ⟨_, h1, h2⟩ | ⟨h1, h2⟩
    · simp only [op_checksigadd_schnorr, h1, Res.bind, Tapscript.execSigOp, h2, hn4, if_false,
        encodeNum_eq_serialize, decodeNum_eq_scriptNum]
      rfl
    · simp only [op_checksigadd_schnorr, h1, Res.bind, Tapscript.execSigOp, h2, hn4, if_false,
        encodeNum_eq_serialize, decodeNum_eq_scriptNum]
      rfl

/-! ### the table -/

/-- the opcodes whose entry in TAPROOT_OP_CODE_FUNCTIONS is the entry of OP_CODE_FUNCTIONS -/
theorem tap_table_shared : ∀ c, c < 256 →
    (c == 172 || c == 173 || c == 174 || c == 175 || (lookup (table false) c).isNone ||
      lookup (table true) c == lookup (table false) c) = true := by decide +kernel

theorem tap_table_success : ∀ c, c < 256 →
    (Tapscript.isOpSuccess c == (lookup (table true) c == some "op_success")) = true := by decide +kernel

theorem tap_resolve_success : ∀ c, c < 256 →
    (!Tapscript.isOpSuccess c || resolve true c == some .success) = true := by decide +kernel

theorem tap_table_pairs : ∀ p ∈ opPairs, resolve true p.1 = some p.2 := by decide +kernel

theorem tap_table_sig : resolve true 172 = some .checksigSchnorr ∧ resolve true 173 = some .checksigverifySchnorr ∧
    resolve true 186 = some .checksigaddSchnorr ∧ resolve true 174 = some .return_ ∧
    resolve true 175 = some .return_ ∧ resolve false 186 = none := by decide +kernel

/-- the opcode numbers without an entry: the push opcodes 1..78 (never a `Cmd.op` of a parsed script), VERIF /
    VERNOTIF / ELSE / ENDIF (101..104: ELSE and ENDIF are consumed by op_if), OP_CODESEPARATOR (171) and 255 -/
theorem tap_table_absent : ∀ c, c < 256 →
    ((lookup (table true) c).isNone ==
      ((decide (1 ≤ c) && decide (c ≤ 78)) || (decide (101 ≤ c) && decide (c ≤ 104)) || c == 171 || c == 255)) = true := by
  decide +kernel

end Buidl.Interp
