/-
  The decoders accept canonical encodings only: `bc32decode s = d` implies that `bc32encode d`
  is `s` in lower case; what BCURSingle.parse accepts is what BCURSingle.encode writes.
-/
import Buidl.Proofs.BcurParse
import Buidl.Proofs.Base58Check
namespace Buidl.Bech32
open Buidl Buidl.Base58

/-- what `convertbits(dd, 5, 8, False)` returning a list means -/
theorem convertbits_5_8_nopad_inv (dd out : List Nat) (hdd : ∀ v ∈ dd, v < 2 ^ 5)
    (h : convertbits dd 5 8 false = some out) :
    ∃ b, b < 5 ∧ 8 * out.length + b = 5 * dd.length ∧ valBE (2 ^ 8) out * 2 ^ b = valBE (2 ^ 5) dd ∧
      ∀ d ∈ out, d < 2 ^ 8 := by
  obtain ⟨acc', bits', ret', he, g1, g2, g3, g4⟩ :=
    cbLoop_spec 5 8 (by omega) (by omega) dd [] 0 0 [] hdd (by omega) (by simp) (by simp) (by simp)
  simp only [List.nil_append] at g2 g3
  have he' : cbLoop 5 8 255 4095 dd 0 0 [] = some (acc', bits', ret') := he
  by_cases hc : bits' ≥ 5 ∨ ((acc' <<< (8 - bits')) &&& 255) ≠ 0
  · simp [convertbits, he', hc] at h
  · have hout : ret'.reverse = out := by simpa [convertbits, he', hc] using h
    have hb5 : bits' < 5 := by
      by_contra hb; exact hc (Or.inl (by omega))
    have hdig0 : (acc' <<< (8 - bits')) &&& 255 = 0 := by
      by_contra hd; exact hc (Or.inr hd)
    have hsplit : 2 ^ 8 = 2 ^ bits' * 2 ^ (8 - bits') := by
      rw [← Nat.pow_add]; congr 1; omega
    have hdig : (acc' <<< (8 - bits')) &&& 255 = (acc' % 2 ^ bits') * 2 ^ (8 - bits') := by
      have : (255 : Nat) = 2 ^ 8 - 1 := by decide
      rw [this, Nat.and_two_pow_sub_one_eq_mod, Nat.shiftLeft_eq, hsplit, Nat.mul_mod_mul_right]
    have hP : acc' % 2 ^ bits' = 0 := by
      rw [hdig] at hdig0
      rcases Nat.mul_eq_zero.mp hdig0 with h0 | h0
      · exact h0
      · exact absurd h0 (Nat.pos_iff_ne_zero.mp (Nat.pow_pos (by omega)))
    refine ⟨bits', hb5, ?_, ?_, ?_⟩
    · rw [← hout, List.length_reverse]; omega
    · rw [← hout, ← g2, hP, Nat.add_zero]
    · intro d hd; rw [← hout] at hd; exact g4 d (List.mem_reverse.mp hd)

/-- 5 → 8 without padding is inverted by 8 → 5 with padding -/
theorem convertbits_8_5_of_5_8 (dd out : List Nat) (hdd : ∀ v ∈ dd, v < 2 ^ 5)
    (h : convertbits dd 5 8 false = some out) : convertbits out 8 5 true = some dd := by
  obtain ⟨b, hb, hlen, hval, hout⟩ := convertbits_5_8_nopad_inv dd out hdd h
  obtain ⟨dd2, pad, h2, hpad, hlen2, hval2, hlt2⟩ := convertbits_pad_spec 8 5 (by omega) (by omega) out hout
  have hp : pad = b := by omega
  subst hp
  have hl : dd2.length = dd.length := by omega
  rw [h2]
  congr 1
  exact valBE_inj (2 ^ 5) (by omega) dd2 dd hl hlt2 hdd (by rw [hval2, hval])

/-- the six checksum symbols are determined by what precedes them -/
theorem polymod_chk_unique (values c6 : List Nat) (hv : ∀ v ∈ values, v < 2 ^ 30) (hlen : c6.length = 6)
    (hlt : ∀ d ∈ c6, d < 32) (cst : Nat) (hc : cst < 2 ^ 30) (h : polymod (values ++ c6) = cst) :
    c6 = chkDigits 5 5 31 6 (polymod (values ++ List.replicate 6 0) ^^^ cst) := by
  unfold polymod at h ⊢
  rw [polymodFrom_append] at h ⊢
  set s0 := polymodFrom Gen.polymodInit values with hs0
  have hs0lt : s0 < 2 ^ 30 := polymodFrom_lt _ _ (by simp [Gen.polymodInit]) hv
  set P6 := polymodFrom s0 (List.replicate 6 0) with hP6
  have hP6lt : P6 < 2 ^ 30 := polymodFrom_lt _ _ hs0lt (by intro v hv'; rw [List.eq_of_mem_replicate hv']; omega)
  have hlin := polymodFrom_xor (List.replicate 6 0) c6 (by simp [hlen]) s0 0
  rw [Nat.xor_zero] at hlin
  have hz : List.zipWith (· ^^^ ·) (List.replicate 6 0) c6 = c6 := by
    have := zipWith_xor_zeros c6
    rwa [hlen] at this
  rw [hz, ← hP6, h] at hlin
  have hsmall := polymodFrom_small c6 0 0 (by simp) (by simp [hlen]) hlt
  have hval : valBE 32 c6 = P6 ^^^ cst := by
    have : polymodFrom 0 c6 = P6 ^^^ cst := by
      rw [hlin, ← Nat.xor_assoc, Nat.xor_self, Nat.zero_xor]
    rw [← this, hsmall]; rfl
  exact valBE_inj 32 (by omega) c6 _ (by rw [hlen, chkDigits_length]) hlt (chkDigits_lt _)
    (by rw [hval, chkDigits_val _ (Nat.xor_lt_two_pow hP6lt hc)])

theorem toBytes_some {out : List Nat} {d : Bytes} (h : toBytes out = some d) : d.map (·.toNat) = out := by
  unfold toBytes at h
  split at h
  · next hall =>
    cases h
    rw [List.map_map]
    conv_rhs => rw [← List.map_id out]
    apply List.map_congr_left
    intro x hx
    have : x < 256 := by
      have := List.all_eq_true.mp hall x hx
      simpa using this
    simp [UInt8.toNat_ofNat', Nat.mod_eq_of_lt this]
  · cases h

theorem bc32decode_inv {s : Str} {d : Bytes} (h : bc32decode s = some d) :
    ∃ res out, (s.map asciiLower).mapM (fun c => indexOf? c Bech32.alphabet) = some res ∧
      polymod ([0] ++ res) = Gen.bc32DecConst ∧ convertbits (pyButLast 6 res) 5 8 false = some out ∧
      toBytes out = some d := by
  unfold bc32decode at h
  split at h
  · cases h
  · simp only at h
    split at h
    · cases h
    · cases hm : (s.map asciiLower).mapM (fun c => indexOf? c Bech32.alphabet) with
      | none => rw [hm] at h; cases h
      | some res =>
        rw [hm] at h
        simp only at h
        split at h
        · cases h
        · next hp =>
          simp only [ne_eq, Decidable.not_not, Gen.bc32DecLead, List.replicate_one] at hp
          simp only [Gen.bc32DecCut, Gen.bc32DecFrom, Gen.bc32DecTo, Gen.bc32DecPad] at h
          cases hcv : convertbits (pyButLast 6 res) 5 8 false with
          | none => rw [hcv] at h; cases h
          | some out =>
            rw [hcv] at h
            exact ⟨res, out, rfl, hp, hcv, h⟩

/-- `bc32decode` accepts canonical texts only: what it decodes re-encodes to the same text in
    lower case (texts of at least six characters, i.e. with a complete checksum) -/
theorem bc32encode_bc32decode (s : Str) (d : Bytes) (h : bc32decode s = some d) (hlen : 6 ≤ s.length) :
    bc32encode d = some (s.map asciiLower) := by
  obtain ⟨res, out, hm, hp, hcv, htb⟩ := bc32decode_inv h
  obtain ⟨hs, hlt⟩ := mapM_index_some hm
  have hrl : res.length = s.length := by
    have := congrArg List.length hs; simpa using this.symm
  have hres : res = pyButLast 6 res ++ pyLast 6 res := (pyButLast_append_pyLast 6 res).symm
  have hc6len : (pyLast 6 res).length = 6 := pyLast_length 6 res (by omega)
  have hddlt : ∀ v ∈ pyButLast 6 res, v < 2 ^ 5 := by
    intro v hv; exact hlt v (by rw [hres]; simp [hv])
  have hc6lt : ∀ v ∈ pyLast 6 res, v < 32 := by
    intro v hv; exact hlt v (by rw [hres]; simp [hv])
  have henc := convertbits_8_5_of_5_8 _ out hddlt hcv
  rw [← toBytes_some htb] at henc
  have hvals : ∀ v ∈ [0] ++ pyButLast 6 res, v < 2 ^ 30 := by
    intro v hv
    rcases List.mem_append.mp hv with hv | hv
    · simp at hv; omega
    · have := hddlt v hv; omega
  have hp' : polymod (([0] ++ pyButLast 6 res) ++ pyLast 6 res) = Gen.bc32DecConst := by
    rw [List.append_assoc, ← hres]; exact hp
  have hchk := polymod_chk_unique _ _ hvals hc6len hc6lt Gen.bc32DecConst (by simp [Gen.bc32DecConst]) hp'
  unfold bc32encode
  simp only [Gen.bc32EncFrom, Gen.bc32EncTo, henc, Gen.bc32EncLead, Gen.bc32ChkPad, Gen.bc32ChkXor, Gen.bc32ChkBits,
    Gen.bc32ChkTop, Gen.bc32ChkMask, Gen.bc32ChkLen, Option.bind_eq_bind, Option.bind_some, List.replicate_one]
  have hconst : (1073741823 : Nat) = Gen.bc32DecConst := rfl
  rw [hconst, ← hchk, ← hres, lookupAll32 res hlt, hs]

end Buidl.Bech32

namespace Buidl.Bcur
open Buidl Buidl.Base58 Buidl.Bech32

theorem badArg_false {g : Option Str} {c : Str} (h : badArg g c = false) : ∀ x, g = some x → x = [] ∨ x = c := by
  intro x hx
  subst hx
  simp only [badArg, Bool.and_eq_false_iff, decide_eq_false_iff_not, ne_eq, Decidable.not_not] at h
  exact h

theorem construct_some {sha256 : Bytes → Bytes} {data : Bytes} {a b : Option Str} {r : Str × Str}
    (h : construct sha256 data a b = some r) :
    bcurEncode sha256 data = some r ∧ (∀ x, a = some x → x = [] ∨ x = r.1) ∧ (∀ x, b = some x → x = [] ∨ x = r.2) := by
  unfold construct at h
  cases he : bcurEncode sha256 data with
  | none => rw [he] at h; cases h
  | some eh =>
    obtain ⟨enc, encHash⟩ := eh
    rw [he] at h
    simp only at h
    cases h1 : badArg a enc with
    | true => simp [h1] at h
    | false =>
      cases h2 : badArg b encHash with
      | true => simp [h1, h2] at h
      | false =>
        simp [h1, h2] at h
        subst h
        exact ⟨rfl, badArg_false h1, badArg_false h2⟩

/-- BCURSingle.parse accepts canonical strings only: the payload field is the text
    `bcur_encode` computes for the returned data and the checksum field, when present and not
    empty, is its checksum -/
theorem singleParse_canonical (sha256 : Bytes → Bytes) (s : Str) (d : Bytes) (h : singleParse sha256 s = some d) :
    ∃ p enc encHash, parseBcurHelper s = some p ∧ p.x = 1 ∧ p.y = 1 ∧ bcurEncode sha256 d = some (enc, encHash) ∧
      (p.payload = [] ∨ p.payload = enc) ∧ (∀ cs, p.checksum = some cs → cs = [] ∨ cs = encHash) := by
  unfold singleParse at h
  cases hp : parseBcurHelper s with
  | none => rw [hp] at h; cases h
  | some p =>
    rw [hp] at h
    simp only at h
    split at h
    · cases h
    · next hxy =>
      cases hdec : bcurDecode sha256 p.payload p.checksum with
      | none => simp [hdec] at h
      | some data =>
        rw [hdec] at h
        simp only at h
        cases hc : construct sha256 data (some p.payload) p.checksum with
        | none => simp [hc] at h
        | some r2 =>
          simp only [hc, Option.map_some, Option.some.injEq] at h
          subst h
          obtain ⟨he, ha, hb⟩ := construct_some hc
          simp only [Gen.bcurSingleX, Gen.bcurSingleY, Nat.cast_one, not_or, Decidable.not_not] at hxy
          exact ⟨p, r2.1, r2.2, rfl, hxy.1, hxy.2, he, ha _ rfl, hb⟩

end Buidl.Bcur
