/-
  Two substituted characters in the data part of a segwit address, including the case in which
  one of them is the version character and the checksum constant switches.
-/
import Buidl.Proofs.Bech32Addr
import Buidl.Proofs.PolymodSwitch
namespace Buidl.Bech32
open Buidl Buidl.Base58

theorem constOf_cases (v : Nat) : constOf v = Gen.b32VerifyConst ∨ constOf v = Gen.b32mVerifyConst := by
  unfold constOf; split
  · exact Or.inl rfl
  · exact Or.inr rfl

/-- ANY two substituted characters in the data part, the first followed by at most 89 characters
    (every address of at most 90 characters): refused -/
theorem decodeBody_double_subst_any (hrp pre mid post : Str) (x y x' y' : Char) (hxy : x ≠ y) (hxy' : x' ≠ y')
    (r : Str × Nat × Bytes) (h : decodeBody hrp (pre ++ x :: mid ++ x' :: post) = some r)
    (hlen : mid.length + post.length + 1 ≤ 89) :
    decodeBody hrp (pre ++ y :: mid ++ y' :: post) = none := by
  cases h' : decodeBody hrp (pre ++ y :: mid ++ y' :: post) with
  | none => rfl
  | some r' =>
    exfalso
    obtain ⟨hx, res, dtail, hhx, hm, hres, hpm⟩ := decodeBody_some h
    obtain ⟨hx', res', dtail', hhx', hm', hres', hpm'⟩ := decodeBody_some h'
    rw [hhx] at hhx'; cases hhx'
    rw [List.append_assoc] at hm hm'
    obtain ⟨r1, a, r3, e, p1, pa, p3, l1, la, l3⟩ := mapM_split hm
    obtain ⟨r1', b, r3', e', p1', pb, p3', l1', lb, l3'⟩ := mapM_split hm'
    have hr1 : r1' = r1 := map_b32char_inj l1' l1 (by rw [p1', p1])
    subst hr1
    have hs3 : (mid ++ x' :: post).mapM (fun c => indexOf? c alphabet) = some r3 := by
      have e3 : mid ++ x' :: post = r3.map b32char := p3.symm
      rw [e3]; exact mapM_index_b32 r3 l3
    have hs3' : (mid ++ y' :: post).mapM (fun c => indexOf? c alphabet) = some r3' := by
      have e3 : mid ++ y' :: post = r3'.map b32char := p3'.symm
      rw [e3]; exact mapM_index_b32 r3' l3'
    obtain ⟨m1, a', m3, f, q1, qa, q3, k1, ka, k3⟩ := mapM_split hs3
    obtain ⟨m1', b', m3', f', q1', qb, q3', k1', kb, k3'⟩ := mapM_split hs3'
    have hm1 : m1' = m1 := map_b32char_inj k1' k1 (by rw [q1', q1])
    have hm3 : m3' = m3 := map_b32char_inj k3' k3 (by rw [q3', q3])
    subst hm1; subst hm3
    have hab : a ≠ b := by intro e0; subst e0; exact hxy (by rw [← pa, ← pb])
    have hab' : a' ≠ b' := by intro e0; subst e0; exact hxy' (by rw [← qa, ← qb])
    have hml : m1'.length = mid.length := by rw [← q1]; simp
    have hpl : m3'.length = post.length := by rw [← q3]; simp
    have hP : polymodFrom Gen.polymodInit (hx ++ r1' ++ a :: m1' ++ a' :: m3') = constOf r.2.1 := by
      rw [← hpm, e, f]; unfold polymod; congr 1; simp
    have hP' : polymodFrom Gen.polymodInit (hx ++ r1' ++ b :: m1' ++ b' :: m3') = constOf r'.2.1 := by
      rw [← hpm', e', f']; unfold polymod; congr 1; simp
    by_cases hconst : constOf r.2.1 = constOf r'.2.1
    · exact polymodFrom_double Gen.polymodInit (hx ++ r1') m1' m3' a b a' b' la lb ka kb hab hab' (by omega)
        (by rw [hP, hP', hconst])
    · have hsw := polymodFrom_double_switch Gen.polymodInit (hx ++ r1') m1' m3' a b a' b' la lb ka kb hab hab' (by omega)
      rw [hP, hP'] at hsw
      apply hsw
      unfold switchConst
      rcases constOf_cases r.2.1 with e1 | e1 <;> rcases constOf_cases r'.2.1 with e2 | e2
      · exact absurd (e1.trans e2.symm) hconst
      · rw [e1, e2]
      · rw [e1, e2, Nat.xor_comm]
      · exact absurd (e1.trans e2.symm) hconst

end Buidl.Bech32
