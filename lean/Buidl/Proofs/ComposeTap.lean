/-
  Buidl.Proofs.ComposeTap — glue between the interpreter model (Buidl.Model.Interp, C06/C07), the taproot
  builder's model (Buidl.Model.Taproot, C12) and the MuSig / k-of-n tree model (Buidl.Model.MuSig, C13):
  the two taproot oracles of `Interp.Env` instantiated with the real code, the script shape of
  MultiSigTapScript / MuSigTapScript in the interpreter's vocabulary, serialisation of those scripts, and the
  control block the library builds, as bytes.  Definitions and helper lemmas for Buidl.Props.C13Compose.
-/
import Buidl.Props.C06
import Buidl.Props.C12
import Buidl.Props.C13
import Buidl.Proofs.Script
import Buidl.Proofs.Compose

namespace Buidl.ComposeTap
open Buidl Buidl.EC Buidl.Script Buidl.MuSig Buidl.Interp Buidl.Compose
open Buidl.Taproot (Hashes Leaf Tree ControlBlock parityOf tweakedKey cbAccepts numberToOpCode timelockCmds)

/-! ## the taproot oracles of `Interp.Env`, instantiated with the model of buidl/taproot.py -/

/-- `control_block.external_pubkey(tap_script)` for the bytes of a control block and the script bytes that
    `TapLeaf.hash` hashes: parse the block (Model.Taproot), recompute the output key from the leaf
    `{raw = leafBytes}` with the block's leaf version, and compare the parity bit -/
def tapCommitReal (H : Hashes) (cbBytes leafBytes : Bytes) : Except Err (Bytes × Bool) :=
  match ControlBlock.parse cbBytes with
  | none => .error .valueError
  | some cb =>
    match cb.externalPubkey H { cmds := [], raw := some leafBytes } with
    | none => .error .valueError
    | some q =>
      match parityOf q with
      | none => .error .attributeError
      | some par => .ok (xonly q, par == cb.parity)

/-- `ControlBlock.parse(b)` raises -/
def cbErrReal (b : Bytes) : Option Err := if (ControlBlock.parse b).isSome then none else some .valueError

/-- an environment whose two taproot oracles are the real code -/
def TapOracles (H : Hashes) (env : Env) : Prop := env.cbErr = cbErrReal ∧ env.tapCommit = tapCommitReal H

/-- any environment with the taproot oracles replaced by the real code -/
def tapEnv (H : Hashes) (base : Env) : Env := { base with cbErr := cbErrReal, tapCommit := tapCommitReal H }

theorem tapEnv_oracles (H : Hashes) (base : Env) : TapOracles H (tapEnv H base) := ⟨rfl, rfl⟩

theorem realEnv_oracles (H : Hashes) (base : Env) (zOf : Nat → Option Nat) (msgOf : Nat → Option Bytes)
    (c : Schnorr.Cache) : TapOracles H (realEnv (tapEnv H base) zOf msgOf c) := ⟨rfl, rfl⟩

theorem externalPubkey_congr (H : Hashes) (cb : ControlBlock) {s₁ s₂ : Script}
    (h : Script.serialize s₁ = Script.serialize s₂) : cb.externalPubkey H s₁ = cb.externalPubkey H s₂ := by
  simp only [ControlBlock.externalPubkey, ControlBlock.merkleRoot, Leaf.hash, Leaf.preimage, h]

theorem serialize_raw {cs : List Cmd} {leaf : Bytes} (hne : leaf ≠ []) :
    Script.serialize { cmds := cs, raw := some leaf } = encodeVarstr leaf := by
  simp [Script.serialize, rawSerialize, hne]

theorem serialize_cmds {cs : List Cmd} {leaf : Bytes} (h : serCmds cs = some leaf) :
    Script.serialize { cmds := cs } = encodeVarstr leaf := by
  simp [Script.serialize, rawSerialize, h]

/-- the oracle is the commitment test of `Script.evaluate` as modelled by the taproot builder (`cbAccepts`) -/
theorem tapCommitReal_iff_cbAccepts (H : Hashes) (b leaf qx : Bytes) (cs : List Cmd) (hne : leaf ≠ []) :
    tapCommitReal H b leaf = .ok (qx, true) ↔ cbAccepts H b { cmds := cs, raw := some leaf } qx = true := by
  unfold tapCommitReal cbAccepts
  cases ControlBlock.parse b with
  | none => simp
  | some cb =>
    simp only
    rw [externalPubkey_congr H cb (s₁ := { cmds := cs, raw := some leaf }) (s₂ := { cmds := [], raw := some leaf })
      (by rw [serialize_raw hne, serialize_raw hne])]
    cases cb.externalPubkey H { cmds := [], raw := some leaf } with
    | none => simp
    | some q =>
      simp only
      cases parityOf q with
      | none => simp
      | some par =>
        simp only [Except.ok.injEq, Prod.mk.injEq, Bool.and_eq_true, beq_iff_eq]
        constructor
        · rintro ⟨h1, h2⟩; exact ⟨by simpa using h2, h1⟩
        · rintro ⟨h1, h2⟩; exact ⟨h2, by simpa using h1⟩


/-! ## the scripts of MultiSigTapScript / MuSigTapScript in the interpreter's vocabulary -/

theorem checksigAdds_eq_addChain (xs : List Bytes) : checksigAdds xs = addChain xs := by
  induction xs with
  | nil => rfl
  | cons x xs ih => simp [checksigAdds, addChain, ih, Gen.multiSigOpChecksigAdd] at *

/-- the leaf script over sorted x-only keys `x0 :: rest`: a lone key is `<x0> CHECKSIG`, more keys are the
    CHECKSIG / CHECKSIGADD chain closed by `k EQUAL` -/
def leafScript (x0 : Bytes) (rest : List Bytes) (k : Nat) : List Cmd :=
  if rest = [] then [.push x0, .op 0xAC] else tapMultisigScript x0 rest k

/-- **MultiSigTapScript(S, k).commands without timelock**, when it exists, is `leafScript` over the sorted
    x-only keys of `S`; with two or more keys `k ≤ 16` (number_to_op_code) -/
theorem multiSigCmds_shape {S : List Pt} {k : Nat} {c : List Cmd} (h : multiSigCmds S k none none = some c)
    (hk : 1 ≤ k) :
    ∃ x0 rest, sortBytes (S.map xonly) = x0 :: rest ∧ rest.length + 1 = S.length ∧
      (∀ x ∈ x0 :: rest, x.length = 32) ∧ (rest ≠ [] → k ≤ 16) ∧ c = leafScript x0 rest k := by
  unfold multiSigCmds at h
  simp only [timelockCmds, Option.bind_eq_bind, Option.bind_some, List.nil_append] at h
  have hperm := sortBytes_perm (S.map xonly)
  have hlen32 : ∀ x ∈ sortBytes (S.map xonly), x.length = 32 := by
    intro x hx
    obtain ⟨p, _, rfl⟩ := List.mem_map.mp (hperm.mem_iff.mp hx)
    exact Taproot.xonly_length' p
  have hlen : (sortBytes (S.map xonly)).length = S.length := by rw [hperm.length_eq]; simp
  cases hs : sortBytes (S.map xonly) with
  | nil => rw [hs] at h; cases h
  | cons x0 rest =>
    rw [hs] at h hlen32 hlen
    refine ⟨x0, rest, rfl, by simpa using hlen, hlen32, ?_⟩
    simp only at h
    cases hpa : parseAll (x0 :: rest) with
    | none => simp [hpa] at h
    | some pts =>
      simp only [hpa, Option.bind_some] at h
      by_cases hn : S.length > Gen.multiSigMoreThan
      · rw [if_pos hn] at h
        have hr : rest ≠ [] := by
          intro e; subst e; simp [Gen.multiSigMoreThan] at hn hlen; omega
        cases hko : numberToOpCode k with
        | none => simp [hko] at h
        | some kop =>
          simp only [hko, Option.bind_some, Option.pure_def, Option.some.injEq] at h
          unfold numberToOpCode at hko
          have hk16 : k ≤ 16 := by
            by_contra hc
            have : k > Gen.numOpMax := by simp [Gen.numOpMax]; omega
            simp [this] at hko
          have hkop : kop = 80 + k := by
            have h1 : ¬ k > Gen.numOpMax := by simp [Gen.numOpMax]; omega
            have h2 : ¬ k = 0 := by omega
            simp [h1, h2, Gen.numOpBase] at hko
            omega
          refine ⟨fun _ => hk16, ?_⟩
          subst hkop
          rw [← h]
          simp [leafScript, hr, tapMultisigScript, checksigAdds_eq_addChain, Gen.multiSigOpChecksig,
            Gen.multiSigOpNumEqual]
      · rw [if_neg hn] at h
        have hr : rest = [] := by
          cases rest with
          | nil => rfl
          | cons a r => simp [Gen.multiSigMoreThan] at hn hlen; omega
        simp only [Option.pure_def, Option.some.injEq] at h
        refine ⟨fun h' => absurd hr h', ?_⟩
        rw [← h]
        simp [leafScript, hr, Gen.multiSigOpChecksig]

/-- MuSigTapScript(points).commands without timelock is the single-key leaf of the aggregate key -/
theorem musigNew_shape {H : Hashes} {S : List Pt} {M : MuSig} (h : musigNew H S none none = some M) :
    M.cmds = leafScript (xonly M.point) [] 0 := by
  unfold musigNew at h
  simp only [timelockCmds, Option.bind_eq_bind, Option.bind_some, List.nil_append] at h
  split at h
  · cases h
  · cases hpa : parseAll (sortBytes (S.map xonly)) with
    | none => simp [hpa] at h
    | some pts =>
      simp only [hpa, Option.bind_some] at h
      cases hx0 : (sortBytes (S.map xonly))[Gen.muSigFirstIndex]? with
      | none => simp [hx0] at h
      | some x0 =>
        simp only [hx0, Option.bind_some] at h
        cases hc : combinePts (scaleAll (List.map (coefOf H (H.keyAggList (sortBytes (S.map xonly)).flatten)
            (secondKey x0 (sortBytes (S.map xonly)))) (sortBytes (S.map xonly))) pts) with
        | none => simp [hc] at h
        | some pt =>
          simp only [hc, Option.bind_some, Option.pure_def, Option.some.injEq] at h
          subst h
          simp [leafScript, Gen.muSigOpChecksig]

/-! ## serialisation of the leaf scripts -/

theorem addChain_wf (xs : List Bytes) (h : ∀ x ∈ xs, x.length = 32) :
    (∀ c ∈ addChain xs, CmdWF c) ∧ Cmd.push [] ∉ addChain xs ∧ (addChain xs).length = 2 * xs.length := by
  induction xs with
  | nil => simp [addChain]
  | cons x xs ih =>
    have hx : x.length = 32 := h x (by simp)
    obtain ⟨i1, i2, i3⟩ := ih (fun y hy => h y (by simp [hy]))
    have e : addChain (x :: xs) = .push x :: .op 0xBA :: addChain xs := by simp [addChain]
    rw [e]
    refine ⟨?_, ?_, by simp [i3]; omega⟩
    · intro c hc
      simp only [List.mem_cons] at hc
      rcases hc with rfl | rfl | hc
      · simp [CmdWF, hx]
      · simp [CmdWF]
      · exact i1 c hc
    · simp only [List.mem_cons, not_or]
      refine ⟨?_, by simp, i2⟩
      intro e'; injection e' with e'; rw [← e'] at hx; simp at hx

theorem leafScript_wf (x0 : Bytes) (rest : List Bytes) (k : Nat) (h : ∀ x ∈ x0 :: rest, x.length = 32)
    (hk : rest ≠ [] → k ≤ 16) :
    (∀ c ∈ leafScript x0 rest k, CmdWF c) ∧ Cmd.push [] ∉ leafScript x0 rest k ∧
      (leafScript x0 rest k).length ≤ 2 * rest.length + 4 ∧ leafScript x0 rest k ≠ [] := by
  have hx0 : x0.length = 32 := h x0 (by simp)
  have hne : Cmd.push [] ≠ Cmd.push x0 := by
    intro e'; injection e' with e'; rw [← e'] at hx0; simp at hx0
  unfold leafScript
  split
  · refine ⟨?_, ?_, by simp, by simp⟩
    · intro c hc
      simp only [List.mem_cons, List.not_mem_nil, or_false] at hc
      rcases hc with rfl | rfl
      · simp [CmdWF, hx0]
      · simp [CmdWF]
    · simp [hne]
  · rename_i hr
    have hk := hk hr
    obtain ⟨i1, i2, i3⟩ := addChain_wf rest (fun y hy => h y (by simp [hy]))
    unfold tapMultisigScript
    refine ⟨?_, ?_, by simp [i3], by simp⟩
    · intro c hc
      simp only [List.mem_append, List.mem_cons, List.not_mem_nil, or_false, or_assoc] at hc
      rcases hc with rfl | rfl | hc | rfl | rfl
      · simp [CmdWF, hx0]
      · simp [CmdWF]
      · exact i1 c hc
      · simp [CmdWF]; omega
      · simp [CmdWF]
    · intro hmem
      simp only [List.mem_append, List.mem_cons, List.not_mem_nil, or_false, or_assoc] at hmem
      rcases hmem with e | e | e | e | e
      · exact hne e
      · cases e
      · exact i2 e
      · cases e
      · cases e

theorem cmdsSize_le {cs : List Cmd} (wf : ∀ c ∈ cs, CmdWF c) : cmdsSize cs ≤ 523 * cs.length := by
  induction cs with
  | nil => simp [cmdsSize]
  | cons c cs ih =>
    have := ih (fun x hx => wf x (by simp [hx]))
    have hc : cmdSize c ≤ 523 := by
      have := wf c (by simp)
      cases c with
      | op n => simp [cmdSize]
      | push d => simp only [CmdWF] at this; simp only [cmdSize]; split <;> [omega; (split <;> omega)]
    simp only [cmdsSize, List.length_cons]
    omega

/-- a well-formed non-empty command list without empty pushes has script bytes that `Script.parse` (behind
    the length prefix the witness code adds) reads back as exactly these commands -/
theorem script_bytes {cs : List Cmd} (wf : ∀ c ∈ cs, CmdWF c) (hne : Cmd.push [] ∉ cs) (hc : cs ≠ [])
    (hlen : cs.length ≤ 2 ^ 40) :
    ∃ raw v, serCmds cs = some raw ∧ raw ≠ [] ∧ encodeVarstr raw = some v ∧
      Script.parse v = some ({ cmds := cs, raw := none }, []) := by
  obtain ⟨raw, hraw⟩ := serCmds_isSome wf
  have hsz := serCmds_length wf hraw
  have hle := cmdsSize_le wf
  have hlt : raw.length < 2 ^ 63 := by rw [hsz]; omega
  have hsome : (encodeVarint raw.length).isSome := (encodeVarint_isSome_iff _).mpr (by omega)
  obtain ⟨e, he⟩ := Option.isSome_iff_exists.mp hsome
  have hv : encodeVarstr raw = some (e ++ raw) := by simp [encodeVarstr, he]
  refine ⟨raw, e ++ raw, hraw, ?_, hv, ?_⟩
  · intro e0
    subst e0
    cases cs with
    | nil => exact hc rfl
    | cons c r =>
      have h1 : 1 ≤ cmdSize c := by cases c <;> simp [cmdSize]; split <;> [omega; (split <;> omega)]
      simp [cmdsSize] at hsz
      omega
  · have hr := readVarstr_encodeVarstr raw [] (e ++ raw) hlt hv
    simp only [List.append_nil] at hr
    have hcanon : canon cs = cs := by
      unfold canon
      conv => rhs; rw [← List.map_id cs]
      apply List.map_congr_left
      intro c hc'
      cases c with
      | op n => rfl
      | push d =>
        cases d with
        | nil => exact absurd hc' hne
        | cons _ _ => rfl
    simp [Script.parse, hr, parseRaw_serCmds cs raw wf hraw, hcanon]


/-! ## the control block the library builds, as witness bytes -/

/-- the sibling hashes of an opening are node hashes of the tree -/
theorem opens_hashes_length (H : Hashes) {L : Nat} (hL : ∀ m, (H.tapLeaf m).length = L)
    (hB : ∀ m, (H.tapBranch m).length = L) {t : Tree} {c : Bytes} {hs : List Bytes}
    (h : Taproot.Opens H t c hs) : ∀ x ∈ hs, x.length = L := by
  induction h with
  | leaf l c _ => simp
  | left l r c hs rh _ hr ih =>
    intro x hx
    rcases List.mem_append.mp hx with hx | hx
    · exact ih x hx
    · simp only [List.mem_singleton] at hx; subst hx
      exact Taproot.Tree.hash_length H hL hB r _ hr
  | right l r c hs lh _ hl ih =>
    intro x hx
    rcases List.mem_append.mp hx with hx | hx
    · exact ih x hx
    · simp only [List.mem_singleton] at hx; subst hx
      exact Taproot.Tree.hash_length H hL hB l _ hl

/-- **the control block of `tree.control_block(internal, leaf)` in a witness.**  Internal key `a·G ≠ ∞`,
    32-byte tagged hashes, default leaf version, at most 128 sibling hashes (the consensus depth limit, which
    is also the length limit of `ControlBlock.parse`): the block serialises to bytes that do not start with
    the annex tag, parse without error, and for which the commitment oracle answers the x-only output key of
    the tree with matching parity — for the script bytes `leaf` that serialise the leaf's script. -/
theorem controlBlock_bytes (H : Hashes) (hL : ∀ m, (H.tapLeaf m).length = 32)
    (hB : ∀ m, (H.tapBranch m).length = 32) {t : Tree} (a : Int) (ha : smul a G ≠ .inf) {x : Leaf}
    {cb : ControlBlock} (hver : x.version = 192)
    (hcoh : ∀ l ∈ t.leaves, x.eqv l = true → l.hash H = x.hash H)
    (h : t.controlBlock H (smul a G) (some x) = some cb) (hdepth : cb.hashes.length ≤ 128)
    {leaf : Bytes} (hser : Script.serialize x.script = encodeVarstr leaf) (hne : leaf ≠ []) :
    ∃ Q b b0 r0, t.externalPubkey H (smul a G) = some Q ∧ cb.serialize = some b ∧ b = b0 :: r0 ∧
      b0.toNat ≠ 80 ∧ cbErrReal b = none ∧ tapCommitReal H b leaf = .ok (xonly Q, true) := by
  obtain ⟨Q, hQ, hext, hpar, hv, hint⟩ := Props.C12.control_block_external_pubkey H hcoh h
  obtain ⟨hin, _, _, root, Q', hroot, _, _, hpath⟩ := Taproot.controlBlock_some H h
  obtain ⟨y, _, _, c, _, hopen⟩ := Taproot.opens_of_pathHashes H t x cb.hashes root hin hpath hroot
  have hh := opens_hashes_length H hL hB hopen
  have hp2 : cb.parity < 2 := by
    cases Q with
    | inf => simp [parityOf] at hpar
    | aff qx qy => simp only [parityOf, Option.some.injEq] at hpar; omega
  have hv192 : cb.version = 192 := by rw [hv, hver]
  obtain ⟨b, cb', hs, hp, _, hv', hp', _, hall⟩ :=
    Props.C12.cb_roundtrip_key H (cb := cb) a hint ha (by omega) (by omega) hp2 hh hdepth
  have hsum : cb.version + cb.parity < 256 := by omega
  have hb := hs
  rw [Taproot.cbSerialize_eq hsum] at hb
  injection hb with hb
  refine ⟨Q, b, _, _, hQ, hs, hb.symm, ?_, by simp [cbErrReal, hp], ?_⟩
  · rw [hv192]
    have : cb.parity = 0 ∨ cb.parity = 1 := by omega
    rcases this with e | e <;> rw [e] <;> decide
  · unfold tapCommitReal
    rw [hp]
    simp only
    rw [hall, externalPubkey_congr H cb (s₁ := { cmds := [], raw := some leaf }) (s₂ := x.script)
      (by rw [serialize_raw hne, hser]), hext]
    simp only [hpar, hp', beq_self_eq_true]


/-! ## all keys of a leaf signed -/

/-- one signature per key, in script order, each a non-empty signature that verifies for its key -/
def AllSigned (env : Env) (keys sigs : List Bytes) : Prop :=
  List.Forall₂ (fun x s => schnorrCheck env x s = .ok (some true)) keys sigs

theorem allSigned_checksOK {env : Env} {keys sigs : List Bytes} (h : AllSigned env keys sigs) :
    ChecksOK env keys sigs := by
  induction h with
  | nil => trivial
  | cons h1 _ ih => exact ⟨⟨_, h1⟩, ih⟩

theorem allSigned_count {env : Env} {keys sigs : List Bytes} (h : AllSigned env keys sigs) :
    countValid env keys sigs = keys.length := by
  induction h with
  | nil => rfl
  | cons h1 _ ih => simp [countValid, sigCount, h1, ih]; omega

theorem sigCount_le (env : Env) (x s : Bytes) : sigCount env x s ≤ 1 := by
  unfold sigCount; split <;> omega

theorem countValid_le (env : Env) : ∀ (keys sigs : List Bytes), countValid env keys sigs ≤ keys.length
  | [], _ => by simp [countValid]
  | _ :: _, [] => by simp [countValid]
  | x :: xs, s :: ss => by
    have := countValid_le env xs ss
    have := sigCount_le env x s
    simp only [countValid, List.length_cons]; omega

/-- a full count means every key signed -/
theorem allSigned_of_count {env : Env} : ∀ {keys sigs : List Bytes}, sigs.length = keys.length →
    countValid env keys sigs = keys.length → AllSigned env keys sigs
  | [], [], _, _ => List.Forall₂.nil
  | [], _ :: _, hl, _ => by simp at hl
  | _ :: _, [], hl, _ => by simp at hl
  | x :: xs, s :: ss, hl, hc => by
    have h1 := countValid_le env xs ss
    have h2 := sigCount_le env x s
    simp only [countValid, List.length_cons] at hc hl
    have hs : sigCount env x s = 1 := by omega
    have hx : schnorrCheck env x s = .ok (some true) := by
      unfold sigCount at hs
      split at hs
      · assumption
      · omega
    exact List.Forall₂.cons hx (allSigned_of_count (by omega) (by omega))

theorem allSigned_length {env : Env} {keys sigs : List Bytes} (h : AllSigned env keys sigs) :
    sigs.length = keys.length := (List.Forall₂.length_eq h).symm

/-! ## `List.Forall₂` helpers -/

theorem forall₂_mem_left {α β : Type} {R : α → β → Prop} {l₁ : List α} {l₂ : List β} (h : List.Forall₂ R l₁ l₂)
    {a : α} (ha : a ∈ l₁) : ∃ b ∈ l₂, R a b := by
  induction h with
  | nil => simp at ha
  | cons h1 _ ih =>
    rcases List.mem_cons.mp ha with rfl | ha
    · exact ⟨_, by simp, h1⟩
    · obtain ⟨b, hb, hr⟩ := ih ha; exact ⟨b, by simp [hb], hr⟩

theorem forall₂_mem_right {α β : Type} {R : α → β → Prop} {l₁ : List α} {l₂ : List β} (h : List.Forall₂ R l₁ l₂)
    {b : β} (hb : b ∈ l₂) : ∃ a ∈ l₁, R a b := by
  induction h with
  | nil => simp at hb
  | cons h1 _ ih =>
    rcases List.mem_cons.mp hb with rfl | hb
    · exact ⟨_, by simp, h1⟩
    · obtain ⟨a, ha, hr⟩ := ih hb; exact ⟨a, by simp [ha], hr⟩

theorem forall₂_nodup {α β : Type} {R : α → β → Prop} {l₁ : List α} {l₂ : List β} (h : List.Forall₂ R l₁ l₂)
    (hinj : ∀ a ∈ l₁, ∀ a' ∈ l₁, ∀ b, R a b → R a' b → a = a') (hnd : l₁.Nodup) : l₂.Nodup := by
  induction h with
  | nil => exact List.nodup_nil
  | @cons a b l₁ l₂ h1 hrest ih =>
    obtain ⟨hna, hnd'⟩ := List.nodup_cons.mp hnd
    refine List.nodup_cons.mpr ⟨?_, ih (fun x hx y hy => hinj x (by simp [hx]) y (by simp [hy])) hnd'⟩
    intro hb
    obtain ⟨a', ha', hr⟩ := forall₂_mem_right hrest hb
    have := hinj a (by simp) a' (by simp [ha']) b h1 hr
    subst this
    exact hna ha'

/-! ## script-path spends of a single-key leaf; the leaf run behind an accepted spend -/

theorem noP2shTail_single (x0 : Bytes) : NoP2shTail [Cmd.push x0, Cmd.op 0xAC] := by
  intro X h160 e
  have h3 : X.length = 1 := by have := congrArg List.length e; simp at this; omega
  match X, h3 with
  | [y], _ => simp at e

/-- script path, single-key leaf `<x0> CHECKSIG`: the witness `[sig, script, control block]` with a
    signature that verifies for `x0` is accepted -/
theorem complete_p2tr_scriptpath_single (env : Env) (x : Bytes) (hl : x.length = 32) (sig : Bytes)
    (rawTap cb v rest : Bytes) (tapScript : Script.Script) (b0 : UInt8) (r0 : Bytes) (hcb : cb = b0 :: r0)
    (hb0 : b0.toNat ≠ 80) (hcbe : env.cbErr cb = none) (hv : encodeVarstr rawTap = some v)
    (hparse : Script.parse v = some (tapScript, rest)) (hraw : rawTap ≠ [])
    (htc : env.tapCommit cb rawTap = .ok (x, true))
    (x0 : Bytes) (hscript : tapScript.cmds = [.push x0, .op 0xAC])
    (hsig : schnorrCheck env x0 sig = .ok (some true)) (fuel : Nat) (hf : 5 ≤ fuel) :
    verifyInput Cfg.repaired env [] (p2trSpk x) ([sig] ++ [rawTap, cb]) fuel = .accept := by
  have hs : structuralReject Cfg.repaired [] (p2trSpk x) = false := by
    simp [structuralReject, p2trSpk, isP2sh]
  simp only [verifyInput, hs, Bool.false_eq_true, if_false, evaluate_eq, List.nil_append]
  have hwit : (if ([sig] ++ [rawTap, cb]).isEmpty then none else some ([sig] ++ [rawTap, cb]))
      = some ([sig] ++ [rawTap, cb]) := rfl
  obtain ⟨f, rfl⟩ : ∃ f, fuel = ((f + 2) + [sig].length) + 2 := ⟨fuel - 5, by simp; omega⟩
  rw [hwit, run_p2tr_scriptpath env x hl [] [sig] rawTap cb v rest tapScript b0 r0 hcb hb0 hcbe hv hparse hraw htc,
    hscript]
  rw [run_pushes env [.push x0, .op 0xAC] (by simp) (noP2shTail_single x0) [sig] [] [] _ true (f + 2)]
  simp only [List.append_nil, List.reverse_singleton]
  rw [run_cons _ _ (f + 1) _ (.push x0) [.op 0xAC] rfl, step_push_first env _ x0 (.op 0xAC) _ rfl (by simp)]
  simp only
  rw [run_cons _ _ f _ (.op 0xAC) [] rfl,
    step_op _ _ _ true 0xAC .checksigSchnorr rfl (by decide) (by decide) (by decide)]
  simp only [applyStackFn]
  rw [checksig_forward env x0 sig [] _ hsig]
  simp only [Res.toOut]
  rw [run_nil _ _ _ _ rfl]
  simp [sigCount, hsig, finalTest, Cfg.repaired, op_verify]
  decide

/-- script path, backward: an accepted spend whose witness ends in `<script> <control block>` (no annex,
    block and commitment in order) ran the script's commands on the remaining witness items under the
    tapscript table, and they accepted; the scriptSig is empty -/
theorem p2tr_scriptpath_accept_run (env : Env) (x : Bytes) (hl : x.length = 32) (ss : List Cmd) (w : List Bytes)
    (rawTap cb v rest : Bytes) (tapScript : Script.Script) (b0 : UInt8) (r0 : Bytes) (hcb : cb = b0 :: r0)
    (hb0 : b0.toNat ≠ 80) (hcbe : env.cbErr cb = none) (hv : encodeVarstr rawTap = some v)
    (hparse : Script.parse v = some (tapScript, rest)) (hraw : rawTap ≠ [])
    (htc : env.tapCommit cb rawTap = .ok (x, true)) (fuel : Nat)
    (ha : verifyInput Cfg.repaired env ss (p2trSpk x) (w ++ [rawTap, cb]) fuel = .accept) :
    ss = [] ∧ ∃ f, run Cfg.repaired env f
      ⟨w.map .push ++ tapScript.cmds, [], [], some (w ++ [rawTap, cb]), true⟩ = .accept := by
  unfold verifyInput at ha
  split at ha
  · cases ha
  · rename_i hs
    have hss : ss = [] :=
      structural_witness_empty (spk := p2trSpk x) (by simp [isP2tr, p2trSpk, hl]) (by simpa using hs)
    subst hss
    refine ⟨rfl, ?_⟩
    rw [evaluate_eq, List.nil_append] at ha
    have hwit : (if (w ++ [rawTap, cb]).isEmpty then none else some (w ++ [rawTap, cb])) = some (w ++ [rawTap, cb]) := by
      cases w <;> rfl
    rw [hwit] at ha
    cases fuel with
    | zero => simp [run, p2trSpk] at ha
    | succ f1 =>
    cases f1 with
    | zero =>
      exfalso
      have h81 : (0x51 : Nat) = 80 + 1 := rfl
      rw [p2trSpk, run_cons _ _ 0 _ (.op 0x51) [.push x] rfl, h81, step_num _ _ _ 1 (by omega) (by omega)] at ha
      simp [run] at ha
    | succ f =>
      rw [run_p2tr_scriptpath env x hl [] w rawTap cb v rest tapScript b0 r0 hcb hb0 hcbe hv hparse hraw htc] at ha
      exact ⟨f, ha⟩


/-! ## a script-path spend of one leaf of a tree built by the library -/

/-- the number of valid signatures `leafScript` asks for: the lone key's, or `k` -/
def leafThreshold (rest : List Bytes) (k : Nat) : Nat := if rest = [] then 1 else k

/-- **one leaf of a library-built tree, spent through the script path.**  `t` is any tree of leaves built
    from commands (no `raw` override), one of them the default-version leaf with script
    `leafScript x0 rest k` (32-byte keys; `1 ≤ k ≤ 16` when there are several); `cb` is the control block
    `t.control_block(a·G, leaf)` returns, of depth ≤ 128; the tagged hashes are 32 bytes long; `env` has
    the real taproot oracles.  Then the output key `Q`, the script bytes and the block bytes exist, the
    taproot builder's commitment test `cbAccepts` holds for them, and for the output `OP_1 <xonly Q>`:

    * (complete) every witness `sigs (reversed) ‖ script ‖ block` whose signatures can all be checked and of
      which exactly the threshold verify — one per key, in script order — is accepted by `verifyInput`;
    * (sound) every accepted input with a witness `w ‖ script ‖ block` has an empty scriptSig, and the top
      `n` items of `w`, read as one signature per key in script order, contain exactly the threshold number of
      valid ones. -/
theorem tree_leaf_spend (H : Hashes) (hL : ∀ m, (H.tapLeaf m).length = 32) (hB : ∀ m, (H.tapBranch m).length = 32)
    (env : Env) (horacle : TapOracles H env) {t : Tree} (hraw : ∀ l ∈ t.leaves, l.script.raw = none)
    (a : Int) (ha : smul a G ≠ .inf) (x0 : Bytes) (rest : List Bytes) (k : Nat)
    (h32 : ∀ x ∈ x0 :: rest, x.length = 32) (hk : rest ≠ [] → 1 ≤ k ∧ k ≤ 16) (hn : rest.length ≤ 2 ^ 32)
    {cb : ControlBlock}
    (hcb : t.controlBlock H (smul a G) (some { script := { cmds := leafScript x0 rest k } }) = some cb)
    (hdepth : cb.hashes.length ≤ 128) :
    ∃ Q rawTap cbBytes, t.externalPubkey H (smul a G) = some Q ∧
      serCmds (leafScript x0 rest k) = some rawTap ∧ cb.serialize = some cbBytes ∧
      cbAccepts H cbBytes { cmds := leafScript x0 rest k, raw := some rawTap } (xonly Q) = true ∧
      (∀ sigs fuel, ChecksOK env (x0 :: rest) sigs →
        countValid env (x0 :: rest) sigs = leafThreshold rest k → sigs.length + 2 * rest.length + 6 ≤ fuel →
        verifyInput Cfg.repaired env [] (p2trSpk (xonly Q)) (sigs.reverse ++ [rawTap, cbBytes]) fuel = .accept) ∧
      (∀ ss w fuel, verifyInput Cfg.repaired env ss (p2trSpk (xonly Q)) (w ++ [rawTap, cbBytes]) fuel = .accept →
        ss = [] ∧ ∃ sigs r, w.reverse = sigs ++ r ∧ sigs.length = rest.length + 1 ∧
          countValid env (x0 :: rest) sigs = leafThreshold rest k) := by
  obtain ⟨wf, hnp, hlen, hne⟩ := leafScript_wf x0 rest k h32 (fun h => (hk h).2)
  obtain ⟨rawTap, v, hser, hrne, hv, hparse⟩ := script_bytes wf hnp hne (by omega)
  have hcoh := Props.C12.coherent_of_no_raw H t { script := { cmds := leafScript x0 rest k } } rfl hraw
  obtain ⟨Q, cbBytes, b0, r0, hQ, hcs, hcbe, hb0, hcerr, htc⟩ :=
    controlBlock_bytes H hL hB a ha (x := { script := { cmds := leafScript x0 rest k } }) rfl hcoh hcb hdepth
      (serialize_cmds hser) hrne
  have hxl : (xonly Q).length = 32 := Taproot.xonly_length' Q
  have hcerr' : env.cbErr cbBytes = none := by rw [horacle.1]; exact hcerr
  have htc' : env.tapCommit cbBytes rawTap = .ok (xonly Q, true) := by rw [horacle.2]; exact htc
  refine ⟨Q, rawTap, cbBytes, hQ, hser, hcs,
    (tapCommitReal_iff_cbAccepts H cbBytes rawTap (xonly Q) _ hrne).mp htc, ?_, ?_⟩
  · intro sigs fuel hok hcnt hf
    by_cases hr : rest = []
    · subst hr
      match sigs, hok with
      | [s], _ =>
        have hs : schnorrCheck env x0 s = .ok (some true) := by
          have hc : sigCount env x0 s = 1 := by simpa [countValid, leafThreshold] using hcnt
          unfold sigCount at hc
          split at hc
          · assumption
          · omega
        exact complete_p2tr_scriptpath_single env (xonly Q) hxl s rawTap cbBytes v [] _ b0 r0 hcbe hb0 hcerr' hv hparse
          hrne htc' x0 (by simp [leafScript]) hs fuel (by simp at hf; omega)
      | [], h => simp [ChecksOK] at h
      | _ :: _ :: _, h => simp [ChecksOK] at h
    · have := Props.C06.complete_p2tr_scriptpath env (xonly Q) hxl sigs.reverse rawTap cbBytes v [] _ b0 r0 hcbe hb0
        hcerr' hv hparse hrne htc' x0 rest k (hk hr) hr (by simp [leafScript, hr])
        (by simpa using hok) (by simpa [leafThreshold, hr] using hcnt) fuel (by simpa using hf)
      exact this
  · intro ss w fuel hacc
    obtain ⟨hss, f, hrun⟩ := p2tr_scriptpath_accept_run env (xonly Q) hxl ss w rawTap cbBytes v [] _ b0 r0 hcbe hb0
      hcerr' hv hparse hrne htc' fuel hacc
    refine ⟨hss, ?_⟩
    by_cases hr : rest = []
    · subst hr
      simp only [leafScript, if_true] at hrun
      obtain ⟨sig, r, hrev, hsig⟩ := Props.C06.tapleaf_single_sound env x0 w [] _ f hrun
      exact ⟨[sig], r, by simpa using hrev, rfl, by simp [countValid, sigCount, hsig, leafThreshold]⟩
    · simp only [leafScript, hr, if_false] at hrun
      obtain ⟨sigs, r, hrev, hl, hc⟩ := Props.C06.tapleaf_multisig_sound env x0 rest k (hk hr) hr w [] _ f hrun
      exact ⟨sigs, r, hrev, hl, by simpa [leafThreshold, hr] using hc⟩


/-! ## BIP340 verification → the Schnorr oracle of the real environment -/

/-- a 64-byte element (default hash type) that BIP340 verification accepts for the digest of hash type 0
    passes the interpreter's Schnorr check under the real signature oracles -/
theorem schnorrCheck_of_bip340 (base : Env) (zOf : Nat → Option Nat) (msgOf : Nat → Option Bytes) (c : Schnorr.Cache)
    (hc : Schnorr.CacheOK base.sha256 c) (x m sig : Bytes) (hxl : x.length = 32) (hsl : sig.length = 64)
    (hm : msgOf 0 = some m) (hv : Spec.BIP340.verify base.sha256 x m sig = true) :
    schnorrCheck (realEnv base zOf msgOf c) x sig = .ok (some true) := by
  obtain ⟨c'', hraw⟩ := (Props.C02.verifySchnorr_eq_spec base.sha256 c hc x m sig hxl hsl).mpr hv
  rw [← verifyRawXonly_eq_verifyRaw c base.sha256 x m sig hxl] at hraw
  rw [schnorrCheck_true_iff]
  exact ⟨sig, 0, m, c'', Or.inr ⟨by simp [hsl], by simp [hsl], rfl, rfl⟩, hm, hraw⟩

/-- the 32-byte tagged hashes of `Hashes.ofSha256` -/
theorem ofSha256_lengths (sha256 : Bytes → Bytes) (h : ∀ m, (sha256 m).length = 32) :
    (∀ m, ((Hashes.ofSha256 sha256).tapLeaf m).length = 32) ∧
    (∀ m, ((Hashes.ofSha256 sha256).tapBranch m).length = 32) :=
  ⟨fun _ => h _, fun _ => h _⟩

/-- without a merkle root the key MuSig signs for is the even representative of the aggregate key: same
    x-only encoding -/
theorem externalKey_nil_xonly {H : Hashes} {M : MuSig} {q : Int} (hq : M.point = smul q G) {ext : Pt}
    (h : externalKey H M [] = some ext) : xonly ext = xonly M.point := by
  simp only [externalKey, ne_eq, not_true_eq_false, if_false] at h
  have hne : M.point ≠ .inf := by
    intro e; rw [e, Taproot.evenPointOf_inf] at h; cases h
  rw [Taproot.evenPointOf_eq hne] at h
  injection h with h
  rw [← h, hq]
  exact Taproot.groupLaw.xonly_evenPoint_smul q


/-! ## the depth of the generated trees -/

/-- number of branch nodes above the deepest leaf -/
def depth : Tree → Nat
  | .leaf _ => 0
  | .branch l r => 1 + max (depth l) (depth r)

theorem pathHashes_length_le (H : Hashes) : ∀ (t : Tree) (x : Leaf) (p : List Bytes),
    t.pathHashes H x = some p → p.length ≤ depth t
  | .leaf _, x, p, h => by simp only [Taproot.Tree.pathHashes, Option.some.injEq] at h; subst h; simp
  | .branch l r, x, p, h => by
    simp only [Taproot.Tree.pathHashes] at h
    split at h
    · cases hp : l.pathHashes H x with
      | none => simp [hp] at h
      | some q =>
        cases hr : r.hash H with
        | none => simp [hp, hr] at h
        | some rh =>
          simp only [hp, hr, Option.bind_eq_bind, Option.bind_some, Option.pure_def, Option.some.injEq] at h
          subst h
          have := pathHashes_length_le H l x q hp
          simp only [List.length_append, List.length_singleton, depth]; omega
    · split at h
      · cases hp : r.pathHashes H x with
        | none => simp [hp] at h
        | some q =>
          cases hl : l.hash H with
          | none => simp [hp, hl] at h
          | some lh =>
            simp only [hp, hl, Option.bind_eq_bind, Option.bind_some, Option.pure_def, Option.some.injEq] at h
            subst h
            have := pathHashes_length_le H r x q hp
            simp only [List.length_append, List.length_singleton, depth]; omega
      · cases h

/-- the control block of a leaf has at most `depth t` sibling hashes -/
theorem controlBlock_depth (H : Hashes) {t : Tree} {P : Pt} {x : Leaf} {cb : ControlBlock}
    (h : t.controlBlock H P (some x) = some cb) : cb.hashes.length ≤ depth t := by
  obtain ⟨_, _, _, _, _, _, _, _, hpath⟩ := Taproot.controlBlock_some H h
  exact pathHashes_length_le H t x cb.hashes hpath

/-- TapBranch.combine halves the list: at most `2^d` leaves give depth at most `d` -/
theorem combineAux_depth : ∀ (d fuel : Nat) (nodes : List Tree) (t : Tree), (∀ n ∈ nodes, depth n = 0) →
    nodes.length ≤ 2 ^ d → Taproot.combineAux fuel nodes = some t → depth t ≤ d
  | _, 0, _, _, _, _, h => by simp [Taproot.combineAux] at h
  | _, _ + 1, [], _, _, _, h => by simp [Taproot.combineAux] at h
  | d, _ + 1, [x], t, h0, _, h => by
    simp only [Taproot.combineAux, Option.some.injEq] at h
    subst h
    rw [h0 x (by simp)]; omega
  | 0, _ + 1, _ :: _ :: _, _, _, hl, _ => by simp at hl
  | d + 1, fuel + 1, a :: b :: rest, t, h0, hl, h => by
    simp only [Taproot.combineAux, List.length_cons] at h
    cases hL : Taproot.combineAux fuel ((a :: b :: rest).take ((rest.length + 1 + 1) / 2)) with
    | none => simp [hL] at h
    | some l =>
      cases hR : Taproot.combineAux fuel ((a :: b :: rest).drop ((rest.length + 1 + 1) / 2)) with
      | none => simp [hL, hR] at h
      | some r =>
        simp only [hL, hR, Option.bind_eq_bind, Option.bind_some, Option.pure_def, Option.some.injEq] at h
        subst h
        have hpow : 2 ^ (d + 1) = 2 * 2 ^ d := by rw [Nat.pow_succ]; omega
        have h1 := combineAux_depth d fuel _ l (fun n hn => h0 n (List.mem_of_mem_take hn))
          (by rw [List.length_take]; simp only [List.length_cons] at hl ⊢; omega) hL
        have h2 := combineAux_depth d fuel _ r (fun n hn => h0 n (List.mem_of_mem_drop hn))
          (by rw [List.length_drop]; simp only [List.length_cons] at hl ⊢; omega) hR
        simp only [depth]; omega

theorem mapM'_leaves {β : Type} (f : β → Option (List Cmd)) : ∀ (l : List β) (r : List Tree),
    mapM' (fun a => (f a).map leafOfCmds) l = some r → (∀ n ∈ r, depth n = 0) ∧ r.length = l.length
  | [], r, h => by simp only [mapM', Option.some.injEq] at h; subst h; simp
  | a :: as, r, h => by
    simp only [mapM'] at h
    cases ha : f a with
    | none => simp [ha] at h
    | some c =>
      cases hr : mapM' (fun a => (f a).map leafOfCmds) as with
      | none => simp [ha, hr] at h
      | some bs =>
        simp only [ha, hr, Option.map_some, Option.bind_eq_bind, Option.bind_some, Option.pure_def,
          Option.some.injEq] at h
        subst h
        obtain ⟨i1, i2⟩ := mapM'_leaves f as bs hr
        refine ⟨?_, by simp [i2]⟩
        intro n hn
        rcases List.mem_cons.mp hn with rfl | hn
        · rfl
        · exact i1 n hn

/-- **multi_leaf_tree and musig_tree have depth at most `d` when `C(n, k) ≤ 2^d`** -/
theorem generated_tree_depth {H : Hashes} {T : TapRootMultiSig} {lock seq : Option Nat} {t : Tree} {d : Nat}
    (h : multiLeafTree T lock seq = some t ∨ musigTree H T lock seq = some t)
    (hc : Nat.choose T.points.length T.k ≤ 2 ^ d) : depth t ≤ d := by
  rcases h with h | h
  · unfold multiLeafTree at h
    cases hl : multiLeafLeaves T lock seq with
    | none => simp [hl] at h
    | some ls =>
      simp only [hl, Option.bind_eq_bind, Option.bind_some] at h
      obtain ⟨i1, i2⟩ := mapM'_leaves (fun pk => multiSigCmds pk T.k lock seq) _ ls hl
      exact combineAux_depth d _ ls t i1 (by rw [i2, combinations_length]; exact hc) h
  · unfold musigTree at h
    cases hl : musigLeaves H T lock seq with
    | none => simp [hl] at h
    | some ls =>
      simp only [hl, Option.bind_eq_bind, Option.bind_some] at h
      have hl' : mapM' (fun pk => ((musigNew H pk lock seq).map (·.cmds)).map leafOfCmds) (combinations T.points T.k)
          = some ls := by
        rw [← hl]; unfold musigLeaves; congr 1; funext pk; cases musigNew H pk lock seq <;> rfl
      obtain ⟨i1, i2⟩ := mapM'_leaves (fun pk => (musigNew H pk lock seq).map (·.cmds)) _ ls hl'
      exact combineAux_depth d _ ls t i1 (by rw [i2, combinations_length]; exact hc) h

end Buidl.ComposeTap
