/-
  Buidl.Proofs.HDLibPaths — the paths the library itself writes (blinding.secure_secret_path, helper.child_to_path,
  helper.parse_binary_path) read back by traverse: the components are the numbers that were written.  Mathlib-free.
-/
import Buidl.Proofs.HDPath
import Buidl.Proofs.PyStr
namespace Buidl.HD
open Buidl Buidl.EC Buidl.PyStr

/-! ## paths produced by the library itself: secure_secret_path, child_to_path, parse_binary_path -/

theorem toLower_of_lt {c : Char} (h : c.toNat < 65) : c.toLower = c := by
  unfold Char.toLower
  have : ¬ (c.val ≥ 65 ∧ c.val ≤ 90) := by
    intro ⟨h1, _⟩
    have : 65 ≤ c.toNat := by simpa [UInt32.le_iff_toNat_le] using h1
    omega
  simp [this]

/-- characters that `path.lower().replace("h", "'")` leaves alone -/
def normFixed (c : Char) : Prop := c.toNat < 65 ∨ c = 'm'

theorem normPath_fixed (s : Str) (h : ∀ c ∈ s, normFixed c) : normPath s = s := by
  unfold normPath lower replaceChar
  rw [List.map_map]
  conv => rhs; rw [← List.map_id s]
  apply List.map_congr_left
  intro c hc
  rcases h c hc with h | rfl
  · have e := toLower_of_lt h
    simp only [Function.comp, e, id]
    have : c ≠ 'h' := by intro e'; subst e'; revert h; decide
    simp [this]
  · decide

theorem digit_fixed {c : Char} (h : c.isDigit = true) : normFixed c := by
  left
  simp only [Char.isDigit, Bool.and_eq_true, decide_eq_true_eq] at h
  have h2 : c.toNat ≤ 57 := by have := h.2; simpa [Char.le_def, UInt32.le_iff_toNat_le] using this
  omega

theorem natStr_no_slash (n : Nat) : '/' ∉ natStr n := by
  intro h; have := natStr_digits n _ h; simp [Char.isDigit] at this

theorem natStr_last_digit (n : Nat) : ∀ c, (natStr n).getLast? = some c → c.isDigit = true :=
  fun c hc => natStr_digits n c (List.mem_of_mem_getLast? hc)

theorem pubIndex_natStr (n : Nat) : pubIndex (natStr n) = some (n : Int) := by
  unfold pubIndex endsWithChar
  have : ¬ ((natStr n).getLast? = some '\'') := by
    intro h; have := natStr_last_digit n _ h; simp [Char.isDigit] at this
  simp [this, pyInt_natStr]

theorem privIndex_natStr (n : Nat) : privIndex (natStr n) = some (n : Int) := by
  unfold privIndex endsWithChar
  have : ¬ ((natStr n).getLast? = some '\'') := by
    intro h; have := natStr_last_digit n _ h; simp [Char.isDigit] at this
  simp [this, pyInt_natStr]

section
variable (hmac : Bytes → Bytes → Bytes) (h160 : Bytes → Bytes)

/-- the path of blinding.secure_secret_path: `m/<r1>/<r2>/…` -/
theorem secureSecretPath_eq (rands : List Nat) (h1 : 1 ≤ rands.length) (h2 : rands.length < 32) :
    secureSecretPath rands = some (join '/' (['m'] :: rands.map natStr)) := by
  unfold secureSecretPath
  have c1 : cmpOp Gen.secretDepthMaxOp rands.length Gen.secretDepthMaxT = false := by
    simp [cmpOp, Gen.secretDepthMaxOp, Gen.secretDepthMaxT]; omega
  have c2 : cmpOp Gen.secretDepthMinOp rands.length Gen.secretDepthMinT = false := by
    simp [cmpOp, Gen.secretDepthMinOp, Gen.secretDepthMinT]
    intro e; rw [e] at h1; simp at h1
  simp [c1, c2]

theorem join_m_fixed (comps : List Str) (h : ∀ p ∈ comps, ∀ c ∈ p, normFixed c) :
    ∀ c ∈ join '/' (['m'] :: comps), normFixed c := by
  intro c hc
  rcases mem_join '/' _ c hc with rfl | ⟨p, hp, hcp⟩
  · left; decide
  · rcases List.mem_cons.mp hp with rfl | hp
    · simp at hcp; subst hcp; right; rfl
    · exact h p hp c hcp


/-- traverse along `m/<c1>/<c2>/…` when every component consists of characters that normalisation leaves alone
    and none contains a `/` -/
theorem components_join_m (comps : List Str) (hf : ∀ p ∈ comps, ∀ c ∈ p, normFixed c) (hs : ∀ p ∈ comps, '/' ∉ p) :
    normPath (join '/' (['m'] :: comps)) = join '/' (['m'] :: comps) ∧
    startsWith ['m'] (join '/' (['m'] :: comps)) = true ∧
    components (join '/' (['m'] :: comps)) = comps := by
  refine ⟨normPath_fixed _ (join_m_fixed comps hf), ?_, ?_⟩
  · cases comps with
    | nil => simp [join, startsWith, List.isPrefixOf]
    | cons a l => rw [join_cons_cons]; simp [startsWith, List.isPrefixOf]
  · unfold components
    rw [split_join '/' (['m'] :: comps) (by simp) (by
      intro p hp
      rcases List.mem_cons.mp hp with rfl | hp
      · decide
      · exact hs p hp)]
    rfl

theorem pub_traverse_join (p : HDPub) (comps : List Str) (hf : ∀ q ∈ comps, ∀ c ∈ q, normFixed c)
    (hs : ∀ q ∈ comps, '/' ∉ q) :
    p.traverse hmac h160 (join '/' (['m'] :: comps)) = p.walk hmac h160 comps := by
  obtain ⟨h1, h2, h3⟩ := components_join_m comps hf hs
  simp [HDPub.traverse, h1, h2, h3]

theorem priv_traverse_join (k : HDPriv) (comps : List Str) (hf : ∀ q ∈ comps, ∀ c ∈ q, normFixed c)
    (hs : ∀ q ∈ comps, '/' ∉ q) :
    k.traverse hmac h160 (join '/' (['m'] :: comps)) = k.walk hmac h160 comps := by
  obtain ⟨h1, h2, h3⟩ := components_join_m comps hf hs
  simp [HDPriv.traverse, h1, h2, h3]

/-- blinding.secure_secret_path(depth) with the random values `rands`: the path exists for 1 ≤ depth < 32, and
    traversing it from any public (or private) key is deriving the children `rands` one after the other -/
theorem pub_traverse_secret_path (p : HDPub) (rands : List Nat) (h1 : 1 ≤ rands.length) (h2 : rands.length < 32) :
    ∃ path, secureSecretPath rands = some path ∧
      p.traverse hmac h160 path = rands.foldlM (fun q r => q.childI hmac h160 (r : Int)) p := by
  refine ⟨_, secureSecretPath_eq rands h1 h2, ?_⟩
  rw [pub_traverse_join hmac h160 p (rands.map natStr)
    (by intro q hq c hc; obtain ⟨r, -, rfl⟩ := List.mem_map.mp hq; exact digit_fixed (natStr_digits r c hc))
    (by intro q hq; obtain ⟨r, -, rfl⟩ := List.mem_map.mp hq; exact natStr_no_slash r),
    pub_walk_eq_foldlM, List.foldlM_map]
  simp only [pubIndex_natStr, Option.bind_some]

theorem priv_traverse_secret_path (k : HDPriv) (rands : List Nat) (h1 : 1 ≤ rands.length) (h2 : rands.length < 32) :
    ∃ path, secureSecretPath rands = some path ∧
      k.traverse hmac h160 path = rands.foldlM (fun q r => q.childI hmac h160 (r : Int)) k := by
  refine ⟨_, secureSecretPath_eq rands h1 h2, ?_⟩
  rw [priv_traverse_join hmac h160 k (rands.map natStr)
    (by intro q hq c hc; obtain ⟨r, -, rfl⟩ := List.mem_map.mp hq; exact digit_fixed (natStr_digits r c hc))
    (by intro q hq; obtain ⟨r, -, rfl⟩ := List.mem_map.mp hq; exact natStr_no_slash r),
    priv_walk_eq_foldlM, List.foldlM_map]
  simp only [privIndex_natStr, Option.bind_some]

/-! ### child_to_path / parse_binary_path -/

/-- the component that child_to_path writes for a child number (without its leading `/`) -/
def pathComponent (cn : Nat) : Str :=
  if cmpOp Gen.childToPathHardOp cn Gen.childToPathHardT then natStr (cn - Gen.childToPathSub) ++ ['\''] else natStr cn

theorem childToPath_eq (cn : Nat) : childToPath cn = '/' :: pathComponent cn := by
  unfold childToPath pathComponent
  split
  · exact List.cons_append
  · rfl

theorem pathComponent_fixed (cn : Nat) : ∀ c ∈ pathComponent cn, normFixed c := by
  intro c hc
  unfold pathComponent at hc
  split at hc
  · rcases List.mem_append.mp hc with hc | hc
    · exact digit_fixed (natStr_digits _ c hc)
    · have e : c = '\'' := by simpa using hc
      rw [e]; exact Or.inl (by decide)
  · exact digit_fixed (natStr_digits _ c hc)

theorem pathComponent_no_slash (cn : Nat) : '/' ∉ pathComponent cn := by
  intro hc
  unfold pathComponent at hc
  split at hc
  · rcases List.mem_append.mp hc with hc | hc
    · exact natStr_no_slash _ hc
    · simp at hc
  · exact natStr_no_slash _ hc

/-- reading back what child_to_path wrote gives the child number, hardened or not -/
theorem privIndex_pathComponent (cn : Nat) : privIndex (pathComponent cn) = some (cn : Int) := by
  unfold pathComponent
  by_cases h : cn ≥ 2 ^ 31
  · have hc : cmpOp Gen.childToPathHardOp cn Gen.childToPathHardT = true := by
      simp [cmpOp, Gen.childToPathHardOp, Gen.childToPathHardT]; omega
    rw [if_pos hc]
    unfold privIndex endsWithChar
    have hl : (natStr (cn - Gen.childToPathSub) ++ ['\'']).getLast? = some '\'' := by simp
    have e : ((cn - 2147483648 : Nat) : Int) + 2147483648 = (cn : Int) := by omega
    simp only [hl, if_true, List.dropLast_concat, pyInt_natStr, Option.map_some, Gen.hdTraverseHardAdd,
      Gen.childToPathSub]
    exact congrArg some e
  · have hc : cmpOp Gen.childToPathHardOp cn Gen.childToPathHardT = false := by
      simp [cmpOp, Gen.childToPathHardOp, Gen.childToPathHardT]; omega
    rw [if_neg (by rw [hc]; decide)]
    exact privIndex_natStr cn

theorem flatten_childToPath : ∀ (is : List Nat),
    ['m'] ++ (is.map childToPath).flatten = join '/' (['m'] :: is.map pathComponent)
  | [] => rfl
  | [i] => by simp [childToPath_eq, join_cons_cons, join]
  | i :: j :: is => by
    have ih := flatten_childToPath (j :: is)
    simp only [List.map_cons, List.flatten_cons, join_cons_cons, childToPath_eq] at ih ⊢
    simp only [List.cons_append, List.nil_append, List.cons.injEq, true_and] at ih ⊢
    rw [ih]

/-- helper.parse_binary_path on the 4-byte little-endian encoding of a list of child numbers -/
theorem binPathLoop_encode : ∀ (is : List Nat), (∀ i ∈ is, i < 2 ^ 32) → ∀ (fuel : Nat) (acc : Str),
    ((is.map (natToLE' 4)).flatten).length < fuel →
    binPathLoop fuel ((is.map (natToLE' 4)).flatten) acc = acc ++ (is.map childToPath).flatten
  | [], _, fuel, acc, hf => by
    cases fuel with
    | zero => simp at hf
    | succ f => simp [binPathLoop]
  | i :: is, h, fuel, acc, hf => by
    cases fuel with
    | zero => simp at hf
    | succ f =>
      have hi : i < 256 ^ 4 := by
        have := h i (by simp)
        have e : (256 : Nat) ^ 4 = 2 ^ 32 := by decide
        omega
      simp only [List.map_cons, List.flatten_cons] at hf ⊢
      unfold binPathLoop
      have hne : ¬ ((natToLE' 4 i ++ (is.map (natToLE' 4)).flatten).length = 0) := by simp
      rw [if_neg hne]
      simp only [Gen.binPathDrop, Gen.binPathTake]
      rw [take_append_len _ _ 4 (natToLE'_length 4 i), drop_append_len _ _ 4 (natToLE'_length 4 i),
        leToNat_natToLE'_of_lt hi,
        binPathLoop_encode is (fun x hx => h x (by simp [hx])) f _
          (by rw [List.length_append, natToLE'_length] at hf; omega)]
      simp

theorem parseBinaryPath_encode (is : List Nat) (h : ∀ i ∈ is, i < 2 ^ 32) :
    parseBinaryPath ((is.map (natToLE' 4)).flatten) = some (join '/' (['m'] :: is.map pathComponent)) := by
  unfold parseBinaryPath
  have hlen : ((is.map (natToLE' 4)).flatten).length % Gen.binPathMod = 0 := by
    induction is with
    | nil => rfl
    | cons i is ih =>
      have := ih (fun x hx => h x (by simp [hx]))
      rw [List.map_cons, List.flatten_cons, List.length_append, natToLE'_length]
      simp only [Gen.binPathMod] at this ⊢
      omega
  rw [if_neg (by rw [hlen]; decide), binPathLoop_encode is h _ _ (by omega), flatten_childToPath]

/-- the BIP32 path text that parse_binary_path produces (PSBT key-origin paths) leads, through traverse, to exactly
    the children with the encoded numbers — hardened ones included -/
theorem priv_traverse_binary_path (k : HDPriv) (is : List Nat) (h : ∀ i ∈ is, i < 2 ^ 32) :
    ∃ path, parseBinaryPath ((is.map (natToLE' 4)).flatten) = some path ∧
      k.traverse hmac h160 path = is.foldlM (fun q i => q.childI hmac h160 (i : Int)) k := by
  refine ⟨_, parseBinaryPath_encode is h, ?_⟩
  rw [priv_traverse_join hmac h160 k (is.map pathComponent)
    (by intro q hq; obtain ⟨r, -, rfl⟩ := List.mem_map.mp hq; exact pathComponent_fixed r)
    (by intro q hq; obtain ⟨r, -, rfl⟩ := List.mem_map.mp hq; exact pathComponent_no_slash r),
    priv_walk_eq_foldlM, List.foldlM_map]
  simp only [privIndex_pathComponent, Option.bind_some]

end
end Buidl.HD
