/-
  Helper lemmas about Buidl.Model.Address: witness programs of the segwit templates, the
  first-character dispatch of `address_to_script_pubkey` / `TxOut.to_address`, WIF.
-/
import Buidl.Model.Address
import Buidl.Proofs.Base58Check
import Buidl.Proofs.Bech32Addr
namespace Buidl.Address
open Buidl Buidl.Base58 Buidl.Bech32 Buidl.Script

/-! ### networks -/

def mainnet : Str := "mainnet".toList
def testnet : Str := "testnet".toList
def signet : Str := "signet".toList
def regtest : Str := "regtest".toList

/-- the four networks the library supports -/
def KnownNet (net : Str) : Prop := net = mainnet ∨ net = testnet ∨ net = signet ∨ net = regtest

/-- the network `decode_bech32` reports for an address made for `net` (signet shares "tb") -/
def netBack (net : Str) : Str := if net = signet then testnet else net

/-- human-readable part, its expansion, and the network it decodes to -/
def hrpOf (net : Str) : Str :=
  if net = mainnet then ['b', 'c'] else if net = regtest then ['b', 'c', 'r', 't'] else ['t', 'b']

theorem prefixOf_known {net : Str} (h : KnownNet net) : prefixOf net = some (hrpOf net) := by
  rcases h with rfl | rfl | rfl | rfl <;> decide

theorem netForPrefix_known {net : Str} (h : KnownNet net) : netForPrefix (hrpOf net) = some (netBack net) := by
  rcases h with rfl | rfl | rfl | rfl <;> decide

theorem netBack_ne_nil {net : Str} (h : KnownNet net) : netBack net ≠ [] := by
  rcases h with rfl | rfl | rfl | rfl <;> decide

theorem hrpOf_ne_nil (net : Str) : hrpOf net ≠ [] := by
  unfold hrpOf; split
  · simp
  · split <;> simp

theorem hrpExpand_known (net : Str) : ∃ hx, hrpExpand (hrpOf net) = some hx := by
  unfold hrpOf; split
  · exact ⟨[3, 3, 0, 2, 3], by decide⟩
  · split
    · exact ⟨[3, 3, 3, 3, 0, 2, 3, 18, 20], by decide⟩
    · exact ⟨[3, 3, 0, 20, 2], by decide⟩

theorem hrpOf_cases (net : Str) : hrpOf net = ['b', 'c'] ∨ hrpOf net = ['t', 'b'] ∨ hrpOf net = ['b', 'c', 'r', 't'] := by
  unfold hrpOf; split
  · exact Or.inl rfl
  · split
    · exact Or.inr (Or.inr rfl)
    · exact Or.inr (Or.inl rfl)

/-- `decode_bech32` splits an address written with one of the three prefixes and a data part
    over the bech32 alphabet into exactly that prefix and data part -/
theorem splitHrp_known (net : Str) (chars : Str) (h1 : '1' ∉ chars) :
    splitHrp (hrpOf net ++ '1' :: chars) = some (hrpOf net, chars) := by
  rcases hrpOf_cases net with e | e | e <;> rw [e]
  · rw [splitHrp_plain _ _ (by decide) (by simp [List.isPrefixOf]), if_neg h1]
  · rw [splitHrp_plain _ _ (by decide) (by simp [List.isPrefixOf]), if_neg h1]
  · exact splitHrp_regtest '1' chars

theorem one_not_mem_map_b32char (ds : List Nat) (h : ∀ d ∈ ds, d < 32) : '1' ∉ ds.map b32char := by
  intro hm
  obtain ⟨d, hd, e⟩ := List.mem_map.mp hm
  exact one_not_mem_alphabet (e ▸ b32char_mem (h d hd))

/-! ### the segwit address of a witness program and its decoding -/

/-- the address text of witness version `v`, program `prog` on network `net` -/
def segwitAddr (net : Str) (hx : List Nat) (v : Nat) (prog : Bytes) : Str :=
  hrpOf net ++ '1' :: (addrData hx v prog).map b32char

theorem encode_segwit {net : Str} (hnet : KnownNet net) {hx : List Nat} (hhx : hrpExpand (hrpOf net) = some hx)
    (v : Nat) (hv : v ≤ 16) (prog : Bytes) (hne : prog ≠ []) (hlen : prog.length < 256) :
    encodeBech32Checksum (vbyte v :: UInt8.ofNat prog.length :: prog) net = some (segwitAddr net hx v prog) :=
  encodeBech32Checksum_built net (hrpOf net) hx (prefixOf_known hnet) (hrpOf_ne_nil net) hhx v hv prog hne hlen

theorem decode_segwit {net : Str} (hnet : KnownNet net) {hx : List Nat} (hhx : hrpExpand (hrpOf net) = some hx)
    (v : Nat) (hv : v < 32) (prog : Bytes) (hlen : 2 ≤ prog.length ∧ prog.length ≤ 40) :
    decodeBech32 (segwitAddr net hx v prog) = some (netBack net, v, prog) := by
  have hpne : prog ≠ [] := by intro e; rw [e] at hlen; simp at hlen
  unfold decodeBech32 segwitAddr
  rw [splitHrp_known net _ (one_not_mem_map_b32char _ (addrData_lt hx v hv prog hpne))]
  exact decodeBody_built (hrpOf net) (netBack net) hx (netForPrefix_known hnet) (netBack_ne_nil hnet) hhx v hv prog hlen

theorem segwitAddr_length (net : Str) (hx : List Nat) (v : Nat) (prog : Bytes) (hne : prog ≠ []) :
    ∃ pad, pad < 5 ∧ ((segwitAddr net hx v prog).length - (hrpOf net).length - 8) * 5 = 8 * prog.length + pad ∧
      (hrpOf net).length + 8 ≤ (segwitAddr net hx v prog).length := by
  obtain ⟨pad, hpad, hg, _, _⟩ := group32_spec prog hne
  refine ⟨pad, hpad, ?_, ?_⟩
  · simp only [segwitAddr, addrData, List.length_append, List.length_cons, List.length_map, chkDigits_length]
    omega
  · simp only [segwitAddr, addrData, List.length_append, List.length_cons, List.length_map, chkDigits_length]
    omega

theorem segwitAddr_eq (net : Str) (hx : List Nat) (v : Nat) (prog : Bytes) :
    ∃ rest, segwitAddr net hx v prog = hrpOf net ++ '1' :: b32char v :: rest := by
  exact ⟨((addrData hx v prog).map b32char).tail, by simp [segwitAddr, addrData]⟩

/-! ### witness programs of the templates -/

theorem rawSerialize_two (opn : Nat) (h : Bytes) (hop : opn ≤ 255) (hl : h.length ≤ 75) :
    Script.rawSerialize { cmds := [.op opn, .push h] } = some (UInt8.ofNat opn :: UInt8.ofNat h.length :: h) := by
  have h255 : h.length ≤ 255 := by omega
  simp [Script.rawSerialize, Script.serCmds, Script.serCmd, Script.intToByte, cmpAt, cmpOp, Gen.rawSerCmp, hop, hl, h255]

theorem p2wpkh_program (h : Bytes) (hl : h.length ≤ 75) :
    (Spk.p2wpkh h).rawSerialize = some (vbyte 0 :: UInt8.ofNat h.length :: h) := by
  simpa [Spk.rawSerialize, Spk.cmds, Gen.p2wpkhOps, vbyte] using rawSerialize_two 0 h (by omega) hl

theorem p2wsh_program (h : Bytes) (hl : h.length ≤ 75) :
    (Spk.p2wsh h).rawSerialize = some (vbyte 0 :: UInt8.ofNat h.length :: h) := by
  simpa [Spk.rawSerialize, Spk.cmds, Gen.p2wshOps, vbyte] using rawSerialize_two 0 h (by omega) hl

theorem p2tr_program (h : Bytes) (hl : h.length ≤ 75) :
    (Spk.p2tr h).rawSerialize = some (vbyte 1 :: UInt8.ofNat h.length :: h) := by
  simpa [Spk.rawSerialize, Spk.cmds, Gen.p2trOps, vbyte] using rawSerialize_two 81 h (by omega) hl

/-! ### first characters -/

theorem take_one_of_head {s : Str} {c : Char} (h : s.head? = some c) : s.take 1 = [c] := by
  cases s with
  | nil => simp at h
  | cons x xs => simp at h; simp [h]

theorem b58char_44 : b58char 44 = 'm' := by decide
theorem b58char_45 : b58char 45 = 'n' := by decide
theorem b58char_2 : b58char 2 = '3' := by decide
theorem b58char_1 : b58char 1 = '2' := by decide

/-- testnet P2PKH (version 0x6f, 25 bytes with the checksum): the text starts with 'm' or 'n' -/
theorem head_6f (rest : Bytes) (hl : rest.length = 24) (s : Str) (h : encodeBase58 (0x6f :: rest) = some s) :
    s.head? = some 'm' ∨ s.head? = some 'n' := by
  obtain ⟨d, h1, h2, h3⟩ := encodeBase58_head 0x6f rest s 33 44 46 (by decide) (by omega) (by omega)
    (by rw [hl]; decide) (by rw [hl]; decide) h
  have : d = 44 ∨ d = 45 := by omega
  rcases this with rfl | rfl
  · left; rw [h3, b58char_44]
  · right; rw [h3, b58char_45]

/-- mainnet P2SH (version 0x05): the text starts with '3' -/
theorem head_05 (rest : Bytes) (hl : rest.length = 24) (s : Str) (h : encodeBase58 (0x05 :: rest) = some s) :
    s.head? = some '3' := by
  obtain ⟨d, h1, h2, h3⟩ := encodeBase58_head 0x05 rest s 33 2 3 (by decide) (by omega) (by omega)
    (by rw [hl]; decide) (by rw [hl]; decide) h
  have : d = 2 := by omega
  subst this
  rw [h3, b58char_2]

/-- testnet P2SH (version 0xc4): the text starts with '2' -/
theorem head_c4 (rest : Bytes) (hl : rest.length = 24) (s : Str) (h : encodeBase58 (0xc4 :: rest) = some s) :
    s.head? = some '2' := by
  obtain ⟨d, h1, h2, h3⟩ := encodeBase58_head 0xc4 rest s 34 1 2 (by decide) (by omega) (by omega)
    (by rw [hl]; decide) (by rw [hl]; decide) h
  have : d = 1 := by omega
  subst this
  rw [h3, b58char_1]

/-- the first character of a Base58Check text of `version ‖ 20 bytes`, for the four version bytes -/
theorem base58_first_char (hash256 : Bytes → Bytes) (hh : ∀ b, (hash256 b).length = 32) (v : UInt8) (h : Bytes)
    (hl : h.length = 20) (s : Str) (he : encodeBase58Checksum hash256 (v :: h) = some s) :
    (v = 0x00 → s.take 1 = ['1']) ∧ (v = 0x6f → s.take 1 = ['m'] ∨ s.take 1 = ['n']) ∧
    (v = 0x05 → s.take 1 = ['3']) ∧ (v = 0xc4 → s.take 1 = ['2']) := by
  unfold encodeBase58Checksum at he
  simp only [Gen.b58EncChecksumWidth, List.cons_append] at he
  have hrest : (h ++ (hash256 (v :: h)).take 4).length = 24 := by
    simp [hl, hh]
  refine ⟨?_, ?_, ?_, ?_⟩ <;> intro hv <;> subst hv
  · exact take_one_of_head (encodeBase58_head_zero _ s he)
  · rcases head_6f _ hrest s he with e | e
    · exact Or.inl (take_one_of_head e)
    · exact Or.inr (take_one_of_head e)
  · exact take_one_of_head (head_05 _ hrest s he)
  · exact take_one_of_head (head_c4 _ hrest s he)

theorem encodeBase58Checksum_isSome (hash256 : Bytes → Bytes) (v : UInt8) (h : Bytes) :
    ∃ s, encodeBase58Checksum hash256 (v :: h) = some s := by
  unfold encodeBase58Checksum encodeBase58
  rw [if_neg (by simp)]
  simp only [Gen.b58EncBase]
  rw [digitsBE_eq 58 (by omega) _ _ _ (Nat.le_refl _)]
  have hlt : ∀ d ∈ (Nat.digits 58 (beToNat (v :: h ++ (hash256 (v :: h)).take Gen.b58EncChecksumWidth))).reverse ++ [], d < 58 := by
    intro d hd
    simp only [List.append_nil, List.mem_reverse] at hd
    exact Nat.digits_lt_base (by omega) hd
  rw [lookupAll_eq _ hlt]
  exact ⟨_, rfl⟩

theorem decodeBase58_encode (hash256 : Bytes → Bytes) (hh : ∀ b, (hash256 b).length = 32) (v : UInt8) (h : Bytes)
    (s : Str) (he : encodeBase58Checksum hash256 (v :: h) = some s) : decodeBase58 hash256 s = some h := by
  unfold decodeBase58
  rw [rawDecodeBase58_encodeBase58Checksum hash256 (fun b => by rw [hh b]; omega) _ _ he]
  simp [Gen.b58DecodeVersionWidth]

end Buidl.Address
