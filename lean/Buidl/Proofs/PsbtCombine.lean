/-
  Buidl.Proofs.PsbtCombine — PSBT.combine (Buidl.Model.PsbtFlow) is commutative, associative and
  idempotent UP TO SERIALISATION for operands that agree on their common keys, and the history
  theorem: the bytes of any combine tree over pairwise-compatible PSBTs depend only on the SET of
  leaves (every order of signers and every bracketing gives the same bytes).

  Organisation
    1. agreement of dicts / optional fields, the "effective" value of a truthiness-tested field
    2. `InSerEq` / `OutSerEq`: what `PSBTIn.serialize` / `PSBTOut.serialize` actually look at
    3. combine trees `CTree`, generic characterisation of a folded dict / optional field by the leaves
    4. `InCompat` / `OutCompat`, the tree theorems for input and output maps, and their corollaries
       `combineIn_comm_ser`, `combineIn_assoc_ser`, `combineIn_idem_ser` (same for `combineOut`)
    5. whole PSBTs: `PsbtCompat`, `combine_comm_ser`, `combine_assoc_ser`, `combine_idem_ser`,
       `combine_tree_bytes_independent`
    6. non-vacuity examples

  A remark on the hypotheses.  Agreement of the optional fields is on the RAW values (`OAgree`), not on
  the effective ones: PSBTIn.combine tests `self.hash_type is None`, so `self.hash_type = 0`,
  `other.hash_type = 1` keeps 0 (serialised: nothing) while the other order keeps 1 (serialised).
  Such a pair is excluded by `OAgree (some 0) (some 1)` being false; it is not excluded by agreement
  of the effective values, for which commutativity is indeed false.
-/
import Buidl.Model.PsbtFlow
import Buidl.Proofs.PsbtDict
namespace Buidl.Psbt
open Buidl Buidl.Script

variable {Tx : Type}

/-! ## 1. agreement, effective values -/

/-- two dicts give the same value to every key they share -/
def DAgree {β : Type} (a b : Dict β) : Prop :=
  ∀ k va vb, dget a k = some va → dget b k = some vb → va = vb

/-- two optional fields are equal when both are set -/
def OAgree {α : Type} (x y : Option α) : Prop :=
  ∀ u v, x = some u → y = some v → u = v

/-- the value of an optional field as seen by a Python truthiness test `if self.x:` -/
def eff {α : Type} (t : α → Bool) (x : Option α) : Option α := x.filter t

/-- truthiness of `hash_type` (an int) -/
abbrev htT : Nat → Bool := (· ≠ 0)
/-- truthiness of a `Witness` (`__len__`) -/
abbrev witT : List Bytes → Bool := (· ≠ [])
/-- fields tested with `is None` only -/
abbrev anyT {α : Type} : α → Bool := fun _ => true

theorem DAgree.symm {β : Type} {a b : Dict β} (h : DAgree a b) : DAgree b a :=
  fun k va vb h1 h2 => (h k vb va h2 h1).symm

theorem DAgree.refl {β : Type} (a : Dict β) : DAgree a a :=
  fun k va vb h1 h2 => by rw [h1] at h2; exact Option.some.inj h2

theorem OAgree.symm {α : Type} {x y : Option α} (h : OAgree x y) : OAgree y x :=
  fun u v h1 h2 => (h v u h2 h1).symm

theorem OAgree.refl {α : Type} (x : Option α) : OAgree x x :=
  fun u v h1 h2 => by rw [h1] at h2; exact Option.some.inj h2

theorem eff_eq_some_iff {α : Type} {t : α → Bool} {x : Option α} {v : α} :
    eff t x = some v ↔ x = some v ∧ t v = true := Option.filter_eq_some_iff

theorem eff_anyT {α : Type} (x : Option α) : eff anyT x = x := by
  cases x <;> simp [eff, anyT]

theorem hashTypeTruthy_eq (x : Option Nat) : hashTypeTruthy x = (eff htT x).isSome := by
  cases x with
  | none => rfl
  | some n => by_cases h : n = 0 <;> simp [hashTypeTruthy, eff, htT, h]

theorem witnessTruthy_eq (x : Option (List Bytes)) : witnessTruthy x = (eff witT x).isSome := by
  cases x with
  | none => rfl
  | some w => cases w <;> simp [witnessTruthy, eff, witT]

theorem orOther_eq_some {α : Type} {t : α → Bool} {x y : Option α} {v : α} (h : orOther t x y = some v) :
    x = some v ∨ y = some v := by
  cases x with
  | some a => exact Or.inl h
  | none =>
    cases y with
    | none => simp [orOther] at h
    | some b =>
      by_cases hb : t b = true
      · simp only [orOther, hb, if_true] at h; exact Or.inr h
      · simp [orOther, hb] at h

/-- the effective value of a combined field is set iff it is set in one of the operands -/
theorem eff_orOther_iff {α : Type} {t : α → Bool} {x y : Option α} (h : OAgree x y) (v : α) :
    eff t (orOther t x y) = some v ↔ eff t x = some v ∨ eff t y = some v := by
  rw [eff_eq_some_iff, eff_eq_some_iff, eff_eq_some_iff]
  cases x with
  | some a =>
    constructor
    · exact Or.inl
    · rintro (h1 | ⟨h2, tv⟩)
      · exact h1
      · have : a = v := h a v rfl h2
        subst this
        exact ⟨rfl, tv⟩
  | none =>
    cases y with
    | none => simp [orOther]
    | some b =>
      by_cases hb : t b = true
      · simp [orOther, hb]
      · simp only [orOther, hb]
        constructor
        · rintro ⟨h1, _⟩; simp at h1
        · rintro (⟨h1, _⟩ | ⟨h1, tv⟩)
          · simp at h1
          · cases h1; exact absurd tv hb

/-- PSBTIn.combine on one optional field, seen through the truthiness test -/
theorem eff_orOther {α : Type} {t : α → Bool} {x y : Option α} (h : OAgree x y) :
    eff t (orOther t x y) = (eff t x).or (eff t y) := by
  apply Option.ext
  intro v
  rw [eff_orOther_iff h, Option.or_eq_some_iff]
  constructor
  · rintro (h1 | h2)
    · exact Or.inl h1
    · cases hx : eff t x with
      | none => exact Or.inr ⟨rfl, h2⟩
      | some u =>
        have := h u v (eff_eq_some_iff.mp hx).1 (eff_eq_some_iff.mp h2).1
        subst this
        exact Or.inl rfl
  · rintro (h1 | ⟨_, h2⟩)
    · exact Or.inl h1
    · exact Or.inr h2

/-- a checkable criterion for agreement -/
theorem dagree_of_forall_mem {β : Type} {a b : Dict β}
    (h : ∀ e, e ∈ a → ∀ e', e' ∈ b → e.1 = e'.1 → e.2 = e'.2) : DAgree a b :=
  fun _ _ _ h1 h2 => h _ (dget_some_mem h1) _ (dget_some_mem h2) rfl

theorem OAgree.none_left {α : Type} (y : Option α) : OAgree none y := fun _ _ h => by cases h

theorem OAgree.none_right {α : Type} (x : Option α) : OAgree x none := fun _ _ _ h => by cases h

/-- lookup in a union of two agreeing dicts -/
theorem dget_dunion_agree {β : Type} {a b : Dict β} (hb : DNodup b) (hab : DAgree a b) (k : Bytes) (v : β) :
    dget (dunion a b) k = some v ↔ dget a k = some v ∨ dget b k = some v := by
  rw [dget_dunion a hb]
  cases hb' : dget b k with
  | none => simp
  | some vb =>
    cases ha' : dget a k with
    | none => simp
    | some va =>
      have := hab k va vb ha' hb'
      subst this
      simp

theorem exists_mem_append_iff {α : Type} {P : α → Prop} {l1 l2 : List α} :
    (∃ x, x ∈ l1 ++ l2 ∧ P x) ↔ (∃ x, x ∈ l1 ∧ P x) ∨ (∃ x, x ∈ l2 ∧ P x) := by
  constructor
  · rintro ⟨x, hx, h⟩
    rcases List.mem_append.mp hx with hx | hx
    · exact Or.inl ⟨x, hx, h⟩
    · exact Or.inr ⟨x, hx, h⟩
  · rintro (⟨x, hx, h⟩ | ⟨x, hx, h⟩)
    · exact ⟨x, List.mem_append.mpr (Or.inl hx), h⟩
    · exact ⟨x, List.mem_append.mpr (Or.inr hx), h⟩

/-! ## 2. what the serialisers look at -/

/-- all three dicts of an input map are Python dicts (no key twice) -/
structure InWF (p : PIn Tx) : Prop where
  sigs : DNodup p.sigs
  named : DNodup p.namedPubs
  extra : DNodup p.extra

/-- two input maps that `PSBTIn.serialize` cannot tell apart: same lookup functions of the three
    dicts (their insertion order may differ), same UTXOs and scripts, same EFFECTIVE sighash type and
    final witness (`some 0` / `some []` are written like `none`); `value` is not serialised -/
structure InSerEq (p q : PIn Tx) : Prop where
  wf_l : InWF p
  wf_r : InWF q
  sigs : ∀ k, dget p.sigs k = dget q.sigs k
  named : ∀ k, dget p.namedPubs k = dget q.namedPubs k
  extra : ∀ k, dget p.extra k = dget q.extra k
  prevTx : p.prevTx = q.prevTx
  prevOut : p.prevOut = q.prevOut
  hashType : eff htT p.hashType = eff htT q.hashType
  redeem : p.redeem = q.redeem
  witnessScript : p.witnessScript = q.witnessScript
  scriptSig : p.scriptSig = q.scriptSig
  witness : eff witT p.witness = eff witT q.witness

theorem eff_getD_congr {α : Type} {t : α → Bool} {x y : Option α} (h : eff t x = eff t y)
    (c : (eff t x).isSome = true) (d : α) : x.getD d = y.getD d := by
  obtain ⟨v, hv⟩ := Option.isSome_iff_exists.mp c
  have hy : eff t y = some v := h ▸ hv
  rw [(eff_eq_some_iff.mp hv).1, (eff_eq_some_iff.mp hy).1]

theorem sigKeyOrder_congr {p q : PIn Tx} (ndp : DNodup p.sigs) (ndq : DNodup q.sigs)
    (hs : ∀ k, dget p.sigs k = dget q.sigs k) (hw : p.witnessScript = q.witnessScript)
    (hr : p.redeem = q.redeem) : sigKeyOrder p = sigKeyOrder q := by
  have hk : sortKeys (dkeys p.sigs) = sortKeys (dkeys q.sigs) :=
    sortKeys_eq_of_perm (dkeys_perm_of_dget_eq ndp ndq hs)
  have ht : ∀ k, dtruthy p.sigs k = dtruthy q.sigs k := fun k => by unfold dtruthy; rw [hs k]
  unfold sigKeyOrder
  simp only [hw, hr, hk, ht]

/-- `PIn.entries` as a function of exactly the things it reads from the input map -/
def entriesCore (C : TxCodec Tx) (pt : Option Tx) (po : Option TxOutV) (order : List Bytes)
    (sg : Bytes → Option Bytes) (htb : Bool) (htv : Nat) (rd wsc : Option Script)
    (namedItems : List (Bytes × Bytes)) (ssg : Option Script) (wtb : Bool) (wtv : List Bytes)
    (extraItems : List (Bytes × Bytes)) : Option (List (Bytes × Bytes)) := do
  let utxo ← match pt with
    | some t => do let b ← C.serialize t; pure [([UInt8.ofNat Gen.psbtInNonWitnessUtxo], b)]
    | none => match po with
      | some o => do let b ← o.serialize; pure [([UInt8.ofNat Gen.psbtInWitnessUtxo], b)]
      | none => pure []
  let sigs ← order.mapM fun k => (sg k).map fun v => (UInt8.ofNat Gen.psbtInPartialSig :: k, v)
  let ht ← if htb then
      (natToLE htv Gen.psbtHashTypeWidth).map fun b => [([UInt8.ofNat Gen.psbtInSighashType], b)]
    else some []
  let rs ← match rd with
    | some r => (rawOf r).map fun b => [([UInt8.ofNat Gen.psbtInRedeemScript], b)]
    | none => some []
  let ws ← match wsc with
    | some r => (rawOf r).map fun b => [([UInt8.ofNat Gen.psbtInWitnessScript], b)]
    | none => some []
  let named := namedItems.map fun e => (UInt8.ofNat Gen.psbtInBip32Derivation :: e.1, e.2)
  let ss ← match ssg with
    | some r => (rawOf r).map fun b => [([UInt8.ofNat Gen.psbtInFinalScriptsig], b)]
    | none => some []
  let wit ← if wtb then
      (witnessSerialize wtv).map fun b => [([UInt8.ofNat Gen.psbtInFinalScriptwitness], b)]
    else some []
  pure (utxo ++ sigs ++ ht ++ rs ++ ws ++ named ++ ss ++ wit ++ extraItems)

theorem PIn.entries_eq_core (C : TxCodec Tx) (p : PIn Tx) :
    p.entries C = entriesCore C p.prevTx p.prevOut (sigKeyOrder p) (dget p.sigs) (hashTypeTruthy p.hashType)
      (p.hashType.getD 0) p.redeem p.witnessScript (sortedItems p.namedPubs) p.scriptSig
      (witnessTruthy p.witness) (p.witness.getD []) (sortedItems p.extra) := rfl

/-- the sighash type / witness value is only read when the truthiness test passed -/
theorem entriesCore_congr (C : TxCodec Tx) (pt : Option Tx) (po : Option TxOutV) (order : List Bytes)
    (sg : Bytes → Option Bytes) (htb : Bool) (htv htv' : Nat) (rd wsc : Option Script)
    (namedItems : List (Bytes × Bytes)) (ssg : Option Script) (wtb : Bool) (wtv wtv' : List Bytes)
    (extraItems : List (Bytes × Bytes)) (h1 : htb = true → htv = htv') (h2 : wtb = true → wtv = wtv') :
    entriesCore C pt po order sg htb htv rd wsc namedItems ssg wtb wtv extraItems =
      entriesCore C pt po order sg htb htv' rd wsc namedItems ssg wtb wtv' extraItems := by
  cases htb with
  | true =>
    rw [h1 rfl]
    cases wtb with
    | true => rw [h2 rfl]
    | false => rfl
  | false =>
    cases wtb with
    | true => rw [h2 rfl]; rfl
    | false => rfl

/-- input maps that agree on what the serialiser reads write the same records, in the same order -/
theorem InSerEq.entries_eq {p q : PIn Tx} (h : InSerEq p q) (C : TxCodec Tx) : p.entries C = q.entries C := by
  have hso := sigKeyOrder_congr h.wf_l.sigs h.wf_r.sigs h.sigs h.witnessScript h.redeem
  have hsg : dget p.sigs = dget q.sigs := funext h.sigs
  have hn := sortedItems_ext h.wf_l.named h.wf_r.named h.named
  have he := sortedItems_ext h.wf_l.extra h.wf_r.extra h.extra
  have hht : hashTypeTruthy p.hashType = hashTypeTruthy q.hashType := by
    rw [hashTypeTruthy_eq, hashTypeTruthy_eq, h.hashType]
  have hwt : witnessTruthy p.witness = witnessTruthy q.witness := by
    rw [witnessTruthy_eq, witnessTruthy_eq, h.witness]
  rw [PIn.entries_eq_core, PIn.entries_eq_core, hso, hsg, hn, he, h.prevTx, h.prevOut, h.redeem,
    h.witnessScript, h.scriptSig, hht, hwt]
  apply entriesCore_congr
  · intro c
    exact eff_getD_congr h.hashType (by rw [← hashTypeTruthy_eq, hht]; exact c) 0
  · intro c
    exact eff_getD_congr h.witness (by rw [← witnessTruthy_eq, hwt]; exact c) []

theorem InSerEq.serialize_eq {p q : PIn Tx} (h : InSerEq p q) (C : TxCodec Tx) : p.serialize C = q.serialize C := by
  unfold PIn.serialize
  rw [h.entries_eq C]

structure OutWF (p : POut) : Prop where
  named : DNodup p.namedPubs
  extra : DNodup p.extra

/-- two output maps that `PSBTOut.serialize` cannot tell apart -/
structure OutSerEq (p q : POut) : Prop where
  wf_l : OutWF p
  wf_r : OutWF q
  named : ∀ k, dget p.namedPubs k = dget q.namedPubs k
  extra : ∀ k, dget p.extra k = dget q.extra k
  redeem : p.redeem = q.redeem
  witnessScript : p.witnessScript = q.witnessScript

theorem OutSerEq.entries_eq {p q : POut} (h : OutSerEq p q) : p.entries = q.entries := by
  unfold POut.entries
  rw [sortedItems_ext h.wf_l.named h.wf_r.named h.named, sortedItems_ext h.wf_l.extra h.wf_r.extra h.extra,
    h.redeem, h.witnessScript]

theorem OutSerEq.serialize_eq {p q : POut} (h : OutSerEq p q) : p.serialize = q.serialize := by
  unfold POut.serialize
  rw [h.entries_eq]

/-! ## 3. combine trees -/

/-- a history of pairwise combinations: who was combined with whom, in which order -/
inductive CTree (α : Type) where
  | leaf : α → CTree α
  | node : CTree α → CTree α → CTree α

/-- the operands, left to right -/
def CTree.leaves {α : Type} : CTree α → List α
  | .leaf a => [a]
  | .node l r => l.leaves ++ r.leaves

/-- evaluate the history with a total combination -/
def CTree.fold {α : Type} (f : α → α → α) : CTree α → α
  | .leaf a => a
  | .node l r => f (l.fold f) (r.fold f)

theorem CTree.exists_leaf {α : Type} (t : CTree α) : ∃ l, l ∈ t.leaves := by
  induction t with
  | leaf a => exact ⟨a, by simp [CTree.leaves]⟩
  | node l r ihl _ =>
    obtain ⟨x, hx⟩ := ihl
    exact ⟨x, by simp [CTree.leaves, hx]⟩

theorem CTree.mem_leaves_left {α : Type} {l r : CTree α} {x : α} (h : x ∈ l.leaves) :
    x ∈ (CTree.node l r).leaves := List.mem_append.mpr (Or.inl h)

theorem CTree.mem_leaves_right {α : Type} {l r : CTree α} {x : α} (h : x ∈ r.leaves) :
    x ∈ (CTree.node l r).leaves := List.mem_append.mpr (Or.inr h)

section generic
variable {A : Type} {f : A → A → A} {Inv : A → Prop}

theorem CTree.fold_inv (hInv : ∀ a b, Inv a → Inv b → Inv (f a b)) (t : CTree A)
    (hl : ∀ l, l ∈ t.leaves → Inv l) : Inv (t.fold f) := by
  induction t with
  | leaf a => exact hl a (by simp [CTree.leaves])
  | node l r ihl ihr =>
    exact hInv _ _ (ihl fun x hx => hl x (CTree.mem_leaves_left hx)) (ihr fun x hx => hl x (CTree.mem_leaves_right hx))

/-- a dict field that the combination unions (in either direction): over pairwise agreeing leaves, a
    key has a value in the result iff it has that value in some leaf -/
theorem CTree.fold_dict {β : Type} (g : A → Dict β)
    (hInv : ∀ a b, Inv a → Inv b → Inv (f a b))
    (hg : ∀ a b, Inv a → Inv b → g (f a b) = dunion (g a) (g b) ∨ g (f a b) = dunion (g b) (g a))
    (t : CTree A) (hl : ∀ l, l ∈ t.leaves → Inv l) (hnd : ∀ l, l ∈ t.leaves → DNodup (g l))
    (hag : ∀ l, l ∈ t.leaves → ∀ l', l' ∈ t.leaves → DAgree (g l) (g l')) :
    DNodup (g (t.fold f)) ∧
      ∀ k v, dget (g (t.fold f)) k = some v ↔ ∃ l, l ∈ t.leaves ∧ dget (g l) k = some v := by
  induction t with
  | leaf a =>
    refine ⟨hnd a (by simp [CTree.leaves]), fun k v => ?_⟩
    simp [CTree.leaves, CTree.fold]
  | node l r ihl ihr =>
    obtain ⟨ndl, cl⟩ := ihl (fun x hx => hl x (CTree.mem_leaves_left hx))
      (fun x hx => hnd x (CTree.mem_leaves_left hx))
      (fun x hx y hy => hag x (CTree.mem_leaves_left hx) y (CTree.mem_leaves_left hy))
    obtain ⟨ndr, cr⟩ := ihr (fun x hx => hl x (CTree.mem_leaves_right hx))
      (fun x hx => hnd x (CTree.mem_leaves_right hx))
      (fun x hx y hy => hag x (CTree.mem_leaves_right hx) y (CTree.mem_leaves_right hy))
    have il : Inv (l.fold f) := CTree.fold_inv hInv l fun x hx => hl x (CTree.mem_leaves_left hx)
    have ir : Inv (r.fold f) := CTree.fold_inv hInv r fun x hx => hl x (CTree.mem_leaves_right hx)
    have hagree : DAgree (g (l.fold f)) (g (r.fold f)) := by
      intro k va vb h1 h2
      obtain ⟨x, hx, h1'⟩ := (cl k va).mp h1
      obtain ⟨y, hy, h2'⟩ := (cr k vb).mp h2
      exact hag x (CTree.mem_leaves_left hx) y (CTree.mem_leaves_right hy) k va vb h1' h2'
    have key : DNodup (g (f (l.fold f) (r.fold f))) ∧
        ∀ k v, dget (g (f (l.fold f) (r.fold f))) k = some v ↔
          dget (g (l.fold f)) k = some v ∨ dget (g (r.fold f)) k = some v := by
      rcases hg _ _ il ir with e | e
      · rw [e]; exact ⟨dnodup_dunion ndl _, fun k v => dget_dunion_agree ndr hagree k v⟩
      · rw [e]
        exact ⟨dnodup_dunion ndr _, fun k v => (dget_dunion_agree ndl hagree.symm k v).trans Or.comm⟩
    refine ⟨key.1, fun k v => ?_⟩
    show dget (g (f (l.fold f) (r.fold f))) k = some v ↔ ∃ x, x ∈ l.leaves ++ r.leaves ∧ _
    rw [key.2, cl, cr, exists_mem_append_iff]

/-- an optional field combined by `if self.x is None and other.x: self.x = other.x`: the raw value of
    the result is the raw value of some leaf, and over pairwise agreeing leaves the effective value of
    the result is `v` iff the effective value of some leaf is `v` -/
theorem CTree.fold_opt {γ : Type} (g : A → Option γ) (tr : γ → Bool)
    (hInv : ∀ a b, Inv a → Inv b → Inv (f a b))
    (hg : ∀ a b, Inv a → Inv b → g (f a b) = orOther tr (g a) (g b))
    (t : CTree A) (hl : ∀ l, l ∈ t.leaves → Inv l)
    (hag : ∀ l, l ∈ t.leaves → ∀ l', l' ∈ t.leaves → OAgree (g l) (g l')) :
    (∀ v, g (t.fold f) = some v → ∃ l, l ∈ t.leaves ∧ g l = some v) ∧
      ∀ v, eff tr (g (t.fold f)) = some v ↔ ∃ l, l ∈ t.leaves ∧ eff tr (g l) = some v := by
  induction t with
  | leaf a =>
    refine ⟨fun v h => ⟨a, by simp [CTree.leaves], h⟩, fun v => ?_⟩
    simp [CTree.leaves, CTree.fold]
  | node l r ihl ihr =>
    obtain ⟨rl, cl⟩ := ihl (fun x hx => hl x (CTree.mem_leaves_left hx))
      (fun x hx y hy => hag x (CTree.mem_leaves_left hx) y (CTree.mem_leaves_left hy))
    obtain ⟨rr, cr⟩ := ihr (fun x hx => hl x (CTree.mem_leaves_right hx))
      (fun x hx y hy => hag x (CTree.mem_leaves_right hx) y (CTree.mem_leaves_right hy))
    have il : Inv (l.fold f) := CTree.fold_inv hInv l fun x hx => hl x (CTree.mem_leaves_left hx)
    have ir : Inv (r.fold f) := CTree.fold_inv hInv r fun x hx => hl x (CTree.mem_leaves_right hx)
    have hagree : OAgree (g (l.fold f)) (g (r.fold f)) := by
      intro u v h1 h2
      obtain ⟨x, hx, h1'⟩ := rl u h1
      obtain ⟨y, hy, h2'⟩ := rr v h2
      exact hag x (CTree.mem_leaves_left hx) y (CTree.mem_leaves_right hy) u v h1' h2'
    have e : g ((CTree.node l r).fold f) = orOther tr (g (l.fold f)) (g (r.fold f)) := hg _ _ il ir
    constructor
    · intro v h
      rw [e] at h
      rcases orOther_eq_some h with h | h
      · obtain ⟨x, hx, hx'⟩ := rl v h
        exact ⟨x, CTree.mem_leaves_left hx, hx'⟩
      · obtain ⟨x, hx, hx'⟩ := rr v h
        exact ⟨x, CTree.mem_leaves_right hx, hx'⟩
    · intro v
      rw [e, eff_orOther_iff hagree, cl, cr]
      exact exists_mem_append_iff.symm

/-- two histories over the same set of pairwise agreeing leaves: same lookup function -/
theorem CTree.fold_dict_eq {β : Type} (g : A → Dict β)
    (hInv : ∀ a b, Inv a → Inv b → Inv (f a b))
    (hg : ∀ a b, Inv a → Inv b → g (f a b) = dunion (g a) (g b) ∨ g (f a b) = dunion (g b) (g a))
    (t1 t2 : CTree A) (hl : ∀ l, l ∈ t1.leaves → Inv l) (hnd : ∀ l, l ∈ t1.leaves → DNodup (g l))
    (hag : ∀ l, l ∈ t1.leaves → ∀ l', l' ∈ t1.leaves → DAgree (g l) (g l'))
    (hs : ∀ l, l ∈ t1.leaves ↔ l ∈ t2.leaves) :
    DNodup (g (t1.fold f)) ∧ DNodup (g (t2.fold f)) ∧ ∀ k, dget (g (t1.fold f)) k = dget (g (t2.fold f)) k := by
  obtain ⟨n1, c1⟩ := CTree.fold_dict g hInv hg t1 hl hnd hag
  obtain ⟨n2, c2⟩ := CTree.fold_dict g hInv hg t2 (fun x hx => hl x ((hs x).mpr hx))
    (fun x hx => hnd x ((hs x).mpr hx)) (fun x hx y hy => hag x ((hs x).mpr hx) y ((hs y).mpr hy))
  refine ⟨n1, n2, fun k => Option.ext fun v => ?_⟩
  rw [c1, c2]
  constructor
  · rintro ⟨x, hx, h⟩; exact ⟨x, (hs x).mp hx, h⟩
  · rintro ⟨x, hx, h⟩; exact ⟨x, (hs x).mpr hx, h⟩

/-- two histories over the same set of pairwise agreeing leaves: same effective value -/
theorem CTree.fold_opt_eq {γ : Type} (g : A → Option γ) (tr : γ → Bool)
    (hInv : ∀ a b, Inv a → Inv b → Inv (f a b))
    (hg : ∀ a b, Inv a → Inv b → g (f a b) = orOther tr (g a) (g b))
    (t1 t2 : CTree A) (hl : ∀ l, l ∈ t1.leaves → Inv l)
    (hag : ∀ l, l ∈ t1.leaves → ∀ l', l' ∈ t1.leaves → OAgree (g l) (g l'))
    (hs : ∀ l, l ∈ t1.leaves ↔ l ∈ t2.leaves) :
    eff tr (g (t1.fold f)) = eff tr (g (t2.fold f)) := by
  obtain ⟨_, c1⟩ := CTree.fold_opt g tr hInv hg t1 hl hag
  obtain ⟨_, c2⟩ := CTree.fold_opt g tr hInv hg t2 (fun x hx => hl x ((hs x).mpr hx))
    (fun x hx y hy => hag x ((hs x).mpr hx) y ((hs y).mpr hy))
  refine Option.ext fun v => ?_
  rw [c1, c2]
  constructor
  · rintro ⟨x, hx, h⟩; exact ⟨x, (hs x).mp hx, h⟩
  · rintro ⟨x, hx, h⟩; exact ⟨x, (hs x).mpr hx, h⟩

end generic

/-! ## 4. input and output maps -/

/-- two input maps that can be combined in either order: they are dicts, agree on the keys they share
    and on the optional fields both have set (RAW values, see the header) -/
structure InCompat (a b : PIn Tx) : Prop where
  wf_l : InWF a
  wf_r : InWF b
  sigs : DAgree a.sigs b.sigs
  named : DAgree a.namedPubs b.namedPubs
  extra : DAgree a.extra b.extra
  prevTx : OAgree a.prevTx b.prevTx
  prevOut : OAgree a.prevOut b.prevOut
  hashType : OAgree a.hashType b.hashType
  redeem : OAgree a.redeem b.redeem
  witnessScript : OAgree a.witnessScript b.witnessScript
  scriptSig : OAgree a.scriptSig b.scriptSig
  witness : OAgree a.witness b.witness

theorem InCompat.symm {a b : PIn Tx} (h : InCompat a b) : InCompat b a :=
  ⟨h.wf_r, h.wf_l, h.sigs.symm, h.named.symm, h.extra.symm, h.prevTx.symm, h.prevOut.symm, h.hashType.symm,
    h.redeem.symm, h.witnessScript.symm, h.scriptSig.symm, h.witness.symm⟩

theorem InCompat.of_wf {a : PIn Tx} (h : InWF a) : InCompat a a :=
  ⟨h, h, DAgree.refl _, DAgree.refl _, DAgree.refl _, OAgree.refl _, OAgree.refl _, OAgree.refl _,
    OAgree.refl _, OAgree.refl _, OAgree.refl _, OAgree.refl _⟩

theorem InCompat.self_left {a b : PIn Tx} (h : InCompat a b) : InCompat a a := InCompat.of_wf h.wf_l

structure OutCompat (a b : POut) : Prop where
  wf_l : OutWF a
  wf_r : OutWF b
  named : DAgree a.namedPubs b.namedPubs
  extra : DAgree a.extra b.extra
  redeem : OAgree a.redeem b.redeem
  witnessScript : OAgree a.witnessScript b.witnessScript

theorem OutCompat.symm {a b : POut} (h : OutCompat a b) : OutCompat b a :=
  ⟨h.wf_r, h.wf_l, h.named.symm, h.extra.symm, h.redeem.symm, h.witnessScript.symm⟩

theorem OutCompat.of_wf {a : POut} (h : OutWF a) : OutCompat a a :=
  ⟨h, h, DAgree.refl _, DAgree.refl _, OAgree.refl _, OAgree.refl _⟩

theorem OutCompat.self_left {a b : POut} (h : OutCompat a b) : OutCompat a a := OutCompat.of_wf h.wf_l

section generic
variable {A : Type} {f : A → A → A} {Inv : A → Prop}

/-- the input map seen through `π` (the map itself, or the i-th input of a PSBT) of two histories over
    the same set of pairwise compatible leaves -/
theorem CTree.fold_inSerEq (π : A → PIn Tx)
    (hInv : ∀ a b, Inv a → Inv b → Inv (f a b))
    (hπ : ∀ a b, Inv a → Inv b → π (f a b) = combineIn (π a) (π b))
    (t1 t2 : CTree A) (hl : ∀ l, l ∈ t1.leaves → Inv l)
    (hc : ∀ l, l ∈ t1.leaves → ∀ l', l' ∈ t1.leaves → InCompat (π l) (π l'))
    (hs : ∀ l, l ∈ t1.leaves ↔ l ∈ t2.leaves) :
    InSerEq (π (t1.fold f)) (π (t2.fold f)) := by
  have dsigs := CTree.fold_dict_eq (fun a => (π a).sigs) hInv
    (fun a b ha hb => by simp only [hπ a b ha hb]; exact Or.inl rfl) t1 t2 hl
    (fun l h => (hc l h l h).wf_l.sigs) (fun l h l' h' => (hc l h l' h').sigs) hs
  have dnamed := CTree.fold_dict_eq (fun a => (π a).namedPubs) hInv
    (fun a b ha hb => by simp only [hπ a b ha hb]; exact Or.inr rfl) t1 t2 hl
    (fun l h => (hc l h l h).wf_l.named) (fun l h l' h' => (hc l h l' h').named) hs
  have dextra := CTree.fold_dict_eq (fun a => (π a).extra) hInv
    (fun a b ha hb => by simp only [hπ a b ha hb]; exact Or.inr rfl) t1 t2 hl
    (fun l h => (hc l h l h).wf_l.extra) (fun l h l' h' => (hc l h l' h').extra) hs
  have oprevTx := CTree.fold_opt_eq (fun a => (π a).prevTx) anyT hInv
    (fun a b ha hb => by simp only [hπ a b ha hb]; rfl) t1 t2 hl (fun l h l' h' => (hc l h l' h').prevTx) hs
  have oprevOut := CTree.fold_opt_eq (fun a => (π a).prevOut) anyT hInv
    (fun a b ha hb => by simp only [hπ a b ha hb]; rfl) t1 t2 hl (fun l h l' h' => (hc l h l' h').prevOut) hs
  have ohashType := CTree.fold_opt_eq (fun a => (π a).hashType) htT hInv
    (fun a b ha hb => by simp only [hπ a b ha hb]; rfl) t1 t2 hl (fun l h l' h' => (hc l h l' h').hashType) hs
  have oredeem := CTree.fold_opt_eq (fun a => (π a).redeem) anyT hInv
    (fun a b ha hb => by simp only [hπ a b ha hb]; rfl) t1 t2 hl (fun l h l' h' => (hc l h l' h').redeem) hs
  have owitnessScript := CTree.fold_opt_eq (fun a => (π a).witnessScript) anyT hInv
    (fun a b ha hb => by simp only [hπ a b ha hb]; rfl) t1 t2 hl
    (fun l h l' h' => (hc l h l' h').witnessScript) hs
  have oscriptSig := CTree.fold_opt_eq (fun a => (π a).scriptSig) anyT hInv
    (fun a b ha hb => by simp only [hπ a b ha hb]; rfl) t1 t2 hl (fun l h l' h' => (hc l h l' h').scriptSig) hs
  have owitness := CTree.fold_opt_eq (fun a => (π a).witness) witT hInv
    (fun a b ha hb => by simp only [hπ a b ha hb]; rfl) t1 t2 hl (fun l h l' h' => (hc l h l' h').witness) hs
  simp only [eff_anyT] at oprevTx oprevOut oredeem owitnessScript oscriptSig
  exact
    { wf_l := ⟨dsigs.1, dnamed.1, dextra.1⟩
      wf_r := ⟨dsigs.2.1, dnamed.2.1, dextra.2.1⟩
      sigs := dsigs.2.2
      named := dnamed.2.2
      extra := dextra.2.2
      prevTx := oprevTx
      prevOut := oprevOut
      hashType := ohashType
      redeem := oredeem
      witnessScript := owitnessScript
      scriptSig := oscriptSig
      witness := owitness }

theorem CTree.fold_outSerEq (π : A → POut)
    (hInv : ∀ a b, Inv a → Inv b → Inv (f a b))
    (hπ : ∀ a b, Inv a → Inv b → π (f a b) = combineOut (π a) (π b))
    (t1 t2 : CTree A) (hl : ∀ l, l ∈ t1.leaves → Inv l)
    (hc : ∀ l, l ∈ t1.leaves → ∀ l', l' ∈ t1.leaves → OutCompat (π l) (π l'))
    (hs : ∀ l, l ∈ t1.leaves ↔ l ∈ t2.leaves) :
    OutSerEq (π (t1.fold f)) (π (t2.fold f)) := by
  have dnamed := CTree.fold_dict_eq (fun a => (π a).namedPubs) hInv
    (fun a b ha hb => by simp only [hπ a b ha hb]; exact Or.inr rfl) t1 t2 hl
    (fun l h => (hc l h l h).wf_l.named) (fun l h l' h' => (hc l h l' h').named) hs
  have dextra := CTree.fold_dict_eq (fun a => (π a).extra) hInv
    (fun a b ha hb => by simp only [hπ a b ha hb]; exact Or.inr rfl) t1 t2 hl
    (fun l h => (hc l h l h).wf_l.extra) (fun l h l' h' => (hc l h l' h').extra) hs
  have oredeem := CTree.fold_opt_eq (fun a => (π a).redeem) anyT hInv
    (fun a b ha hb => by simp only [hπ a b ha hb]; rfl) t1 t2 hl (fun l h l' h' => (hc l h l' h').redeem) hs
  have owitnessScript := CTree.fold_opt_eq (fun a => (π a).witnessScript) anyT hInv
    (fun a b ha hb => by simp only [hπ a b ha hb]; rfl) t1 t2 hl
    (fun l h l' h' => (hc l h l' h').witnessScript) hs
  simp only [eff_anyT] at oredeem owitnessScript
  exact
    { wf_l := ⟨dnamed.1, dextra.1⟩
      wf_r := ⟨dnamed.2.1, dextra.2.1⟩
      named := dnamed.2.2
      extra := dextra.2.2
      redeem := oredeem
      witnessScript := owitnessScript }

end generic

/-- a history of PSBTIn.combine calls -/
def CTree.foldIn (t : CTree (PIn Tx)) : PIn Tx := t.fold combineIn

/-- a history of PSBTOut.combine calls -/
def CTree.foldOut (t : CTree POut) : POut := t.fold combineOut

/-- the signatures of a combination history are exactly the signatures of the operands -/
theorem foldIn_sigs_iff (t : CTree (PIn Tx))
    (hc : ∀ l, l ∈ t.leaves → ∀ l', l' ∈ t.leaves → InCompat l l') (k v : Bytes) :
    dget t.foldIn.sigs k = some v ↔ ∃ l, l ∈ t.leaves ∧ dget l.sigs k = some v :=
  (CTree.fold_dict (Inv := fun _ => True) (f := combineIn) (fun a => a.sigs) (fun _ _ _ _ => trivial)
    (fun _ _ _ _ => Or.inl rfl) t (fun _ _ => trivial) (fun l h => (hc l h l h).wf_l.sigs)
    (fun l h l' h' => (hc l h l' h').sigs)).2 k v

theorem foldIn_namedPubs_iff (t : CTree (PIn Tx))
    (hc : ∀ l, l ∈ t.leaves → ∀ l', l' ∈ t.leaves → InCompat l l') (k v : Bytes) :
    dget t.foldIn.namedPubs k = some v ↔ ∃ l, l ∈ t.leaves ∧ dget l.namedPubs k = some v :=
  (CTree.fold_dict (Inv := fun _ => True) (f := combineIn) (fun a => a.namedPubs) (fun _ _ _ _ => trivial)
    (fun _ _ _ _ => Or.inr rfl) t (fun _ _ => trivial) (fun l h => (hc l h l h).wf_l.named)
    (fun l h l' h' => (hc l h l' h').named)).2 k v

theorem foldIn_extra_iff (t : CTree (PIn Tx))
    (hc : ∀ l, l ∈ t.leaves → ∀ l', l' ∈ t.leaves → InCompat l l') (k v : Bytes) :
    dget t.foldIn.extra k = some v ↔ ∃ l, l ∈ t.leaves ∧ dget l.extra k = some v :=
  (CTree.fold_dict (Inv := fun _ => True) (f := combineIn) (fun a => a.extra) (fun _ _ _ _ => trivial)
    (fun _ _ _ _ => Or.inr rfl) t (fun _ _ => trivial) (fun l h => (hc l h l h).wf_l.extra)
    (fun l h l' h' => (hc l h l' h').extra)).2 k v

/-- the effective sighash type of a combination history is the effective sighash type of an operand -/
theorem foldIn_hashType_iff (t : CTree (PIn Tx))
    (hc : ∀ l, l ∈ t.leaves → ∀ l', l' ∈ t.leaves → InCompat l l') (v : Nat) :
    eff htT t.foldIn.hashType = some v ↔ ∃ l, l ∈ t.leaves ∧ eff htT l.hashType = some v :=
  (CTree.fold_opt (Inv := fun _ => True) (f := combineIn) (fun a => a.hashType) htT (fun _ _ _ _ => trivial)
    (fun _ _ _ _ => rfl) t (fun _ _ => trivial) (fun l h l' h' => (hc l h l' h').hashType)).2 v

theorem foldIn_witness_iff (t : CTree (PIn Tx))
    (hc : ∀ l, l ∈ t.leaves → ∀ l', l' ∈ t.leaves → InCompat l l') (v : List Bytes) :
    eff witT t.foldIn.witness = some v ↔ ∃ l, l ∈ t.leaves ∧ eff witT l.witness = some v :=
  (CTree.fold_opt (Inv := fun _ => True) (f := combineIn) (fun a => a.witness) witT (fun _ _ _ _ => trivial)
    (fun _ _ _ _ => rfl) t (fun _ _ => trivial) (fun l h l' h' => (hc l h l' h').witness)).2 v

/-- two histories of PSBTIn.combine over the same set of pairwise compatible input maps cannot be told
    apart by the serialiser.  (Pairwise compatibility is asked of the leaves of `t1`; those of `t2`
    are the same set.) -/
theorem foldIn_serEq (t1 t2 : CTree (PIn Tx))
    (hc : ∀ l, l ∈ t1.leaves → ∀ l', l' ∈ t1.leaves → InCompat l l')
    (hs : ∀ l, l ∈ t1.leaves ↔ l ∈ t2.leaves) : InSerEq t1.foldIn t2.foldIn :=
  CTree.fold_inSerEq (Inv := fun _ => True) (f := combineIn) (fun a => a) (fun _ _ _ _ => trivial)
    (fun _ _ _ _ => rfl) t1 t2 (fun _ _ => trivial) hc hs

theorem foldIn_entries_independent (C : TxCodec Tx) (t1 t2 : CTree (PIn Tx))
    (hc : ∀ l, l ∈ t1.leaves → ∀ l', l' ∈ t1.leaves → InCompat l l')
    (hs : ∀ l, l ∈ t1.leaves ↔ l ∈ t2.leaves) : t1.foldIn.entries C = t2.foldIn.entries C :=
  (foldIn_serEq t1 t2 hc hs).entries_eq C

theorem foldOut_serEq (t1 t2 : CTree POut)
    (hc : ∀ l, l ∈ t1.leaves → ∀ l', l' ∈ t1.leaves → OutCompat l l')
    (hs : ∀ l, l ∈ t1.leaves ↔ l ∈ t2.leaves) : OutSerEq t1.foldOut t2.foldOut :=
  CTree.fold_outSerEq (Inv := fun _ => True) (f := combineOut) (fun a => a) (fun _ _ _ _ => trivial)
    (fun _ _ _ _ => rfl) t1 t2 (fun _ _ => trivial) hc hs

theorem foldOut_entries_independent (t1 t2 : CTree POut)
    (hc : ∀ l, l ∈ t1.leaves → ∀ l', l' ∈ t1.leaves → OutCompat l l')
    (hs : ∀ l, l ∈ t1.leaves ↔ l ∈ t2.leaves) : t1.foldOut.entries = t2.foldOut.entries :=
  (foldOut_serEq t1 t2 hc hs).entries_eq

/-! ### PSBTIn.combine: commutative, associative, idempotent up to serialisation -/

theorem combineIn_comm_serEq {a b : PIn Tx} (h : InCompat a b) : InSerEq (combineIn a b) (combineIn b a) := by
  refine foldIn_serEq (.node (.leaf a) (.leaf b)) (.node (.leaf b) (.leaf a)) ?_ ?_
  · intro l hl l' hl'
    simp only [CTree.leaves, List.mem_append, List.mem_singleton] at hl hl'
    rcases hl with rfl | rfl <;> rcases hl' with rfl | rfl <;>
      first | exact h | exact h.symm | exact h.self_left | exact h.symm.self_left
  · intro l
    simp only [CTree.leaves, List.mem_append, List.mem_singleton]
    exact Or.comm

theorem combineIn_comm_ser (C : TxCodec Tx) {a b : PIn Tx} (h : InCompat a b) :
    (combineIn a b).entries C = (combineIn b a).entries C := (combineIn_comm_serEq h).entries_eq C

theorem combineIn_assoc_serEq {a b c : PIn Tx} (hab : InCompat a b) (hac : InCompat a c) (hbc : InCompat b c) :
    InSerEq (combineIn (combineIn a b) c) (combineIn a (combineIn b c)) := by
  refine foldIn_serEq (.node (.node (.leaf a) (.leaf b)) (.leaf c)) (.node (.leaf a) (.node (.leaf b) (.leaf c))) ?_ ?_
  · intro l hl l' hl'
    simp only [CTree.leaves, List.mem_append, List.mem_singleton] at hl hl'
    rcases hl with (rfl | rfl) | rfl <;> rcases hl' with (rfl | rfl) | rfl <;>
      first | exact hab | exact hab.symm | exact hac | exact hac.symm | exact hbc | exact hbc.symm
            | exact hab.self_left | exact hab.symm.self_left | exact hbc.symm.self_left
  · intro l
    simp only [CTree.leaves, List.mem_append, List.mem_singleton]
    exact or_assoc

theorem combineIn_assoc_ser (C : TxCodec Tx) {a b c : PIn Tx}
    (hab : InCompat a b) (hac : InCompat a c) (hbc : InCompat b c) :
    (combineIn (combineIn a b) c).entries C = (combineIn a (combineIn b c)).entries C :=
  (combineIn_assoc_serEq hab hac hbc).entries_eq C

theorem combineIn_idem_serEq {a : PIn Tx} (h : InWF a) : InSerEq (combineIn a a) a := by
  refine foldIn_serEq (.node (.leaf a) (.leaf a)) (.leaf a) ?_ ?_
  · intro l hl l' hl'
    simp only [CTree.leaves, List.mem_append, List.mem_singleton, or_self] at hl hl'
    subst hl; subst hl'
    exact InCompat.of_wf h
  · intro l
    simp only [CTree.leaves, List.mem_append, List.mem_singleton, or_self]

theorem combineIn_idem_ser (C : TxCodec Tx) {a : PIn Tx} (h : InWF a) :
    (combineIn a a).entries C = a.entries C := (combineIn_idem_serEq h).entries_eq C

/-! ### PSBTOut.combine -/

theorem combineOut_comm_serEq {a b : POut} (h : OutCompat a b) : OutSerEq (combineOut a b) (combineOut b a) := by
  refine foldOut_serEq (.node (.leaf a) (.leaf b)) (.node (.leaf b) (.leaf a)) ?_ ?_
  · intro l hl l' hl'
    simp only [CTree.leaves, List.mem_append, List.mem_singleton] at hl hl'
    rcases hl with rfl | rfl <;> rcases hl' with rfl | rfl <;>
      first | exact h | exact h.symm | exact h.self_left | exact h.symm.self_left
  · intro l
    simp only [CTree.leaves, List.mem_append, List.mem_singleton]
    exact Or.comm

theorem combineOut_comm_ser {a b : POut} (h : OutCompat a b) :
    (combineOut a b).entries = (combineOut b a).entries := (combineOut_comm_serEq h).entries_eq

theorem combineOut_assoc_serEq {a b c : POut} (hab : OutCompat a b) (hac : OutCompat a c) (hbc : OutCompat b c) :
    OutSerEq (combineOut (combineOut a b) c) (combineOut a (combineOut b c)) := by
  refine foldOut_serEq (.node (.node (.leaf a) (.leaf b)) (.leaf c)) (.node (.leaf a) (.node (.leaf b) (.leaf c))) ?_ ?_
  · intro l hl l' hl'
    simp only [CTree.leaves, List.mem_append, List.mem_singleton] at hl hl'
    rcases hl with (rfl | rfl) | rfl <;> rcases hl' with (rfl | rfl) | rfl <;>
      first | exact hab | exact hab.symm | exact hac | exact hac.symm | exact hbc | exact hbc.symm
            | exact hab.self_left | exact hab.symm.self_left | exact hbc.symm.self_left
  · intro l
    simp only [CTree.leaves, List.mem_append, List.mem_singleton]
    exact or_assoc

theorem combineOut_assoc_ser {a b c : POut} (hab : OutCompat a b) (hac : OutCompat a c) (hbc : OutCompat b c) :
    (combineOut (combineOut a b) c).entries = (combineOut a (combineOut b c)).entries :=
  (combineOut_assoc_serEq hab hac hbc).entries_eq

theorem combineOut_idem_serEq {a : POut} (h : OutWF a) : OutSerEq (combineOut a a) a := by
  refine foldOut_serEq (.node (.leaf a) (.leaf a)) (.leaf a) ?_ ?_
  · intro l hl l' hl'
    simp only [CTree.leaves, List.mem_append, List.mem_singleton, or_self] at hl hl'
    subst hl; subst hl'
    exact OutCompat.of_wf h
  · intro l
    simp only [CTree.leaves, List.mem_append, List.mem_singleton, or_self]

theorem combineOut_idem_ser {a : POut} (h : OutWF a) : (combineOut a a).entries = a.entries :=
  (combineOut_idem_serEq h).entries_eq

/-! ## 5. whole PSBTs -/

theorem zipCombine_length {α : Type} (f : α → α → α) (as bs : List α) :
    (zipCombine f as bs).length = as.length := by
  induction as generalizing bs with
  | nil => cases bs <;> simp [zipCombine]
  | cons a as ih =>
    cases bs with
    | nil => simp [zipCombine]
    | cons b bs => simp [zipCombine, ih]

/-- position `i` of `for x, y in zip(xs, ys): x.combine(y)` on lists of equal length (`d`: a default
    that combines with itself to itself, read beyond the end) -/
theorem zipCombine_getD {α : Type} (f : α → α → α) {d : α} (hd : f d d = d) {as bs : List α}
    (hlen : as.length = bs.length) (i : Nat) :
    (zipCombine f as bs).getD i d = f (as.getD i d) (bs.getD i d) := by
  induction as generalizing bs i with
  | nil =>
    cases bs with
    | nil => simp [zipCombine, hd]
    | cons b bs => simp at hlen
  | cons a as ih =>
    cases bs with
    | nil => simp at hlen
    | cons b bs =>
      cases i with
      | zero => simp [zipCombine]
      | succ i =>
        simp only [zipCombine, List.getD_cons_succ]
        exact ih (by simpa using hlen) i

theorem serializeAll_congr {α : Type} (f : α → Option Bytes) (d : α) {as bs : List α}
    (hlen : as.length = bs.length) (h : ∀ i, f (as.getD i d) = f (bs.getD i d)) :
    serializeAll f as = serializeAll f bs := by
  induction as generalizing bs with
  | nil =>
    cases bs with
    | nil => rfl
    | cons b bs => simp at hlen
  | cons a as ih =>
    cases bs with
    | nil => simp at hlen
    | cons b bs =>
      have h0 := h 0
      simp only [List.getD_cons_zero] at h0
      have ht : serializeAll f as = serializeAll f bs :=
        ih (by simpa using hlen) (fun i => by have := h (i + 1); simpa only [List.getD_cons_succ] using this)
      simp only [serializeAll, h0, ht]

/-- a pointwise relation on two lists of equal length, read with a default beyond the end -/
theorem rel_getD {α : Type} {R : α → α → Prop} {d : α} (hd : R d d) {as bs : List α}
    (hlen : as.length = bs.length)
    (h : ∀ (i : Nat) p q, as[i]? = some p → bs[i]? = some q → R p q) (i : Nat) : R (as.getD i d) (bs.getD i d) := by
  rw [List.getD_eq_getElem?_getD, List.getD_eq_getElem?_getD]
  by_cases hi : i < as.length
  · have hi' : i < bs.length := hlen ▸ hi
    rw [List.getElem?_eq_getElem hi, List.getElem?_eq_getElem hi']
    exact h i _ _ (List.getElem?_eq_getElem hi) (List.getElem?_eq_getElem hi')
  · have hi' : ¬ i < bs.length := hlen ▸ hi
    rw [List.getElem?_eq_none (Nat.le_of_not_lt hi), List.getElem?_eq_none (Nat.le_of_not_lt hi')]
    exact hd

/-- what PSBT.combine returns when the transaction hashes agree -/
def combineCore (a b : Psbt Tx) : Psbt Tx :=
  { a with
    hdPubs := dunion b.hdPubs a.hdPubs
    extra := dunion b.extra a.extra
    ins := zipCombine combineIn a.ins b.ins
    outs := zipCombine combineOut a.outs b.outs }

theorem combine_eq_core (C : TxCodec Tx) {a b : Psbt Tx} {h : Bytes} (hh : C.hash a.tx = some h)
    (e : b.tx = a.tx) : combine C a b = some (combineCore a b) := by
  unfold combine
  rw [e, hh]
  simp [req, combineCore]

/-- a history of PSBT.combine calls; a refusal anywhere makes the whole history fail -/
def CTree.evalP (C : TxCodec Tx) : CTree (Psbt Tx) → Option (Psbt Tx)
  | .leaf p => some p
  | .node l r => do
    let x ← l.evalP C
    let y ← r.evalP C
    combine C x y

theorem CTree.evalP_eq_fold (C : TxCodec Tx) {tx0 : Tx} {h : Bytes} (hh : C.hash tx0 = some h)
    (t : CTree (Psbt Tx)) (hl : ∀ l, l ∈ t.leaves → l.tx = tx0) :
    t.evalP C = some (t.fold combineCore) ∧ (t.fold combineCore).tx = tx0 := by
  induction t with
  | leaf a => exact ⟨rfl, hl a (by simp [CTree.leaves])⟩
  | node l r ihl ihr =>
    obtain ⟨e1, t1⟩ := ihl fun x hx => hl x (CTree.mem_leaves_left hx)
    obtain ⟨e2, t2⟩ := ihr fun x hx => hl x (CTree.mem_leaves_right hx)
    refine ⟨?_, t1⟩
    show (do let x ← l.evalP C; let y ← r.evalP C; combine C x y) = _
    rw [e1, e2]
    exact combine_eq_core C (by rw [t1]; exact hh) (t2.trans t1.symm)

/-- all dicts of a PSBT are Python dicts -/
structure PsbtWF (a : Psbt Tx) : Prop where
  hd : DNodup a.hdPubs
  extra : DNodup a.extra
  ins : ∀ p, p ∈ a.ins → InWF p
  outs : ∀ p, p ∈ a.outs → OutWF p

/-- two PSBTs of the same transaction whose maps are compatible position by position.  (`network` is
    not serialised and need not agree; the global xpub records are written from the VALUES of
    `hdPubs`, so agreement of the values on common keys is what is asked.) -/
structure PsbtCompat (a b : Psbt Tx) : Prop where
  tx : a.tx = b.tx
  ins_len : a.ins.length = b.ins.length
  outs_len : a.outs.length = b.outs.length
  ins : ∀ (i : Nat) p q, a.ins[i]? = some p → b.ins[i]? = some q → InCompat p q
  outs : ∀ (i : Nat) p q, a.outs[i]? = some p → b.outs[i]? = some q → OutCompat p q
  hd_l : DNodup a.hdPubs
  hd_r : DNodup b.hdPubs
  extra_l : DNodup a.extra
  extra_r : DNodup b.extra
  hd : DAgree a.hdPubs b.hdPubs
  extra : DAgree a.extra b.extra

theorem PsbtCompat.symm {a b : Psbt Tx} (h : PsbtCompat a b) : PsbtCompat b a :=
  { tx := h.tx.symm
    ins_len := h.ins_len.symm
    outs_len := h.outs_len.symm
    ins := fun i p q hp hq => (h.ins i q p hq hp).symm
    outs := fun i p q hp hq => (h.outs i q p hq hp).symm
    hd_l := h.hd_r
    hd_r := h.hd_l
    extra_l := h.extra_r
    extra_r := h.extra_l
    hd := h.hd.symm
    extra := h.extra.symm }

theorem PsbtCompat.of_wf {a : Psbt Tx} (h : PsbtWF a) : PsbtCompat a a :=
  { tx := rfl
    ins_len := rfl
    outs_len := rfl
    ins := fun i p q hp hq => by
      rw [hp] at hq; cases hq
      exact InCompat.of_wf (h.ins p (List.mem_of_getElem? hp))
    outs := fun i p q hp hq => by
      rw [hp] at hq; cases hq
      exact OutCompat.of_wf (h.outs p (List.mem_of_getElem? hp))
    hd_l := h.hd
    hd_r := h.hd
    extra_l := h.extra
    extra_r := h.extra
    hd := DAgree.refl _
    extra := DAgree.refl _ }

theorem PsbtCompat.wf_left {a b : Psbt Tx} (h : PsbtCompat a b) : PsbtWF a :=
  { hd := h.hd_l
    extra := h.extra_l
    ins := fun p hp => by
      obtain ⟨i, hi, e⟩ := List.getElem_of_mem hp
      have hi' : i < b.ins.length := h.ins_len ▸ hi
      exact (h.ins i p _ (by rw [List.getElem?_eq_getElem hi, e]) (List.getElem?_eq_getElem hi')).wf_l
    outs := fun p hp => by
      obtain ⟨i, hi, e⟩ := List.getElem_of_mem hp
      have hi' : i < b.outs.length := h.outs_len ▸ hi
      exact (h.outs i p _ (by rw [List.getElem?_eq_getElem hi, e]) (List.getElem?_eq_getElem hi')).wf_l }

theorem PsbtCompat.self_left {a b : Psbt Tx} (h : PsbtCompat a b) : PsbtCompat a a :=
  PsbtCompat.of_wf h.wf_left

theorem inWF_empty : InWF ({} : PIn Tx) := ⟨List.nodup_nil, List.nodup_nil, List.nodup_nil⟩
theorem outWF_empty : OutWF ({} : POut) := ⟨List.nodup_nil, List.nodup_nil⟩

/-- the i-th input map (an empty map beyond the end) -/
def inAt (i : Nat) (p : Psbt Tx) : PIn Tx := p.ins.getD i {}
/-- the i-th output map -/
def outAt (i : Nat) (p : Psbt Tx) : POut := p.outs.getD i {}

/-- the invariant of a combination history: the transaction and the numbers of maps -/
def PInv (tx0 : Tx) (n m : Nat) (p : Psbt Tx) : Prop := p.tx = tx0 ∧ p.ins.length = n ∧ p.outs.length = m

theorem combineCore_inv {tx0 : Tx} {n m : Nat} (a b : Psbt Tx) (ha : PInv tx0 n m a) (_hb : PInv tx0 n m b) :
    PInv tx0 n m (combineCore a b) :=
  ⟨ha.1, (zipCombine_length _ _ _).trans ha.2.1, (zipCombine_length _ _ _).trans ha.2.2⟩

theorem inAt_combineCore {tx0 : Tx} {n m : Nat} (i : Nat) (a b : Psbt Tx) (ha : PInv tx0 n m a)
    (hb : PInv tx0 n m b) : inAt i (combineCore a b) = combineIn (inAt i a) (inAt i b) :=
  zipCombine_getD combineIn rfl (ha.2.1.trans hb.2.1.symm) i

theorem outAt_combineCore {tx0 : Tx} {n m : Nat} (i : Nat) (a b : Psbt Tx) (ha : PInv tx0 n m a)
    (hb : PInv tx0 n m b) : outAt i (combineCore a b) = combineOut (outAt i a) (outAt i b) :=
  zipCombine_getD combineOut rfl (ha.2.2.trans hb.2.2.symm) i

theorem PsbtCompat.inAt {a b : Psbt Tx} (h : PsbtCompat a b) (i : Nat) : InCompat (inAt i a) (inAt i b) :=
  rel_getD (InCompat.of_wf inWF_empty) h.ins_len h.ins i

theorem PsbtCompat.outAt {a b : Psbt Tx} (h : PsbtCompat a b) (i : Nat) : OutCompat (outAt i a) (outAt i b) :=
  rel_getD (OutCompat.of_wf outWF_empty) h.outs_len h.outs i

/-- what `PSBT.serialize` reads -/
theorem Psbt.serialize_congr (C : TxCodec Tx) {x y : Psbt Tx} (htx : x.tx = y.tx)
    (hhd : sortedItems x.hdPubs = sortedItems y.hdPubs) (hex : sortedItems x.extra = sortedItems y.extra)
    (hins : serializeAll (PIn.serialize C) x.ins = serializeAll (PIn.serialize C) y.ins)
    (houts : serializeAll POut.serialize x.outs = serializeAll POut.serialize y.outs) :
    x.serialize C = y.serialize C := by
  unfold Psbt.serialize Psbt.globalEntries
  rw [htx, hhd, hex, hins, houts]

/-- two histories (with the hash test taken as passed) over the same set of pairwise compatible PSBTs
    serialise to the same bytes -/
theorem fold_combineCore_serialize (C : TxCodec Tx) (t1 t2 : CTree (Psbt Tx))
    (hc : ∀ l, l ∈ t1.leaves → ∀ l', l' ∈ t1.leaves → PsbtCompat l l')
    (hs : ∀ l, l ∈ t1.leaves ↔ l ∈ t2.leaves) :
    (t1.fold combineCore).serialize C = (t2.fold combineCore).serialize C := by
  obtain ⟨l0, hl0⟩ := t1.exists_leaf
  have hl : ∀ l, l ∈ t1.leaves → PInv l0.tx l0.ins.length l0.outs.length l := fun l h =>
    ⟨(hc l0 hl0 l h).tx.symm, (hc l0 hl0 l h).ins_len.symm, (hc l0 hl0 l h).outs_len.symm⟩
  have hl' : ∀ l, l ∈ t2.leaves → PInv l0.tx l0.ins.length l0.outs.length l := fun l h => hl l ((hs l).mpr h)
  have i1 := CTree.fold_inv (f := combineCore) combineCore_inv t1 hl
  have i2 := CTree.fold_inv (f := combineCore) combineCore_inv t2 hl'
  have dhd := CTree.fold_dict_eq (fun a : Psbt Tx => a.hdPubs) combineCore_inv
    (fun _ _ _ _ => Or.inr rfl) t1 t2 hl (fun l h => (hc l h l h).hd_l) (fun l h l' h' => (hc l h l' h').hd) hs
  have dex := CTree.fold_dict_eq (fun a : Psbt Tx => a.extra) combineCore_inv
    (fun _ _ _ _ => Or.inr rfl) t1 t2 hl (fun l h => (hc l h l h).extra_l)
    (fun l h l' h' => (hc l h l' h').extra) hs
  apply Psbt.serialize_congr
  · exact i1.1.trans i2.1.symm
  · exact sortedItems_ext dhd.1 dhd.2.1 dhd.2.2
  · exact sortedItems_ext dex.1 dex.2.1 dex.2.2
  · refine serializeAll_congr _ {} (i1.2.1.trans i2.2.1.symm) fun i => ?_
    exact (CTree.fold_inSerEq (inAt i) combineCore_inv (inAt_combineCore i) t1 t2 hl
      (fun l h l' h' => (hc l h l' h').inAt i) hs).serialize_eq C
  · refine serializeAll_congr _ {} (i1.2.2.trans i2.2.2.symm) fun i => ?_
    exact (CTree.fold_outSerEq (outAt i) combineCore_inv (outAt_combineCore i) t1 t2 hl
      (fun l h l' h' => (hc l h l' h').outAt i) hs).serialize_eq

/-- THE HISTORY THEOREM.  Two histories of PSBT.combine over the same SET of pairwise compatible PSBTs
    of a hashable transaction both succeed and serialise to the same bytes: neither the order of the
    operands, nor the bracketing, nor repetitions matter.  (Pairwise compatibility and hashability are
    asked of the leaves of `t1`; those of `t2` are the same set.) -/
theorem combine_tree_bytes_independent (C : TxCodec Tx) (t1 t2 : CTree (Psbt Tx))
    (hc : ∀ l, l ∈ t1.leaves → ∀ l', l' ∈ t1.leaves → PsbtCompat l l')
    (hh : ∀ l, l ∈ t1.leaves → (C.hash l.tx).isSome = true)
    (hs : ∀ l, l ∈ t1.leaves ↔ l ∈ t2.leaves) :
    ∃ x y, t1.evalP C = some x ∧ t2.evalP C = some y ∧ x.serialize C = y.serialize C := by
  obtain ⟨l0, hl0⟩ := t1.exists_leaf
  obtain ⟨h, hh0⟩ := Option.isSome_iff_exists.mp (hh l0 hl0)
  have e1 := CTree.evalP_eq_fold C hh0 t1 fun l hl => (hc l0 hl0 l hl).tx.symm
  have e2 := CTree.evalP_eq_fold C hh0 t2 fun l hl => (hc l0 hl0 l ((hs l).mpr hl)).tx.symm
  exact ⟨_, _, e1.1, e2.1, fold_combineCore_serialize C t1 t2 hc hs⟩

/-- PSBT.combine is commutative up to serialisation -/
theorem combine_comm_ser (C : TxCodec Tx) {a b : Psbt Tx} {h : Bytes} (hc : PsbtCompat a b)
    (hh : C.hash a.tx = some h) :
    ∃ x y, combine C a b = some x ∧ combine C b a = some y ∧ x.serialize C = y.serialize C := by
  refine ⟨_, _, combine_eq_core C hh hc.tx.symm, combine_eq_core C (hc.tx ▸ hh) hc.tx, ?_⟩
  refine fold_combineCore_serialize C (.node (.leaf a) (.leaf b)) (.node (.leaf b) (.leaf a)) ?_ ?_
  · intro l hl l' hl'
    simp only [CTree.leaves, List.mem_append, List.mem_singleton] at hl hl'
    rcases hl with rfl | rfl <;> rcases hl' with rfl | rfl <;>
      first | exact hc | exact hc.symm | exact hc.self_left | exact hc.symm.self_left
  · intro l
    simp only [CTree.leaves, List.mem_append, List.mem_singleton]
    exact Or.comm

/-- PSBT.combine is associative up to serialisation: both bracketings succeed, same bytes -/
theorem combine_assoc_ser (C : TxCodec Tx) {a b c : Psbt Tx} {h : Bytes}
    (hab : PsbtCompat a b) (hac : PsbtCompat a c) (hbc : PsbtCompat b c) (hh : C.hash a.tx = some h) :
    ∃ ab bc x y, combine C a b = some ab ∧ combine C ab c = some x ∧
      combine C b c = some bc ∧ combine C a bc = some y ∧ x.serialize C = y.serialize C := by
  have hhb : C.hash b.tx = some h := hab.tx ▸ hh
  refine ⟨combineCore a b, combineCore b c, combineCore (combineCore a b) c, combineCore a (combineCore b c),
    combine_eq_core C hh hab.tx.symm, combine_eq_core C hh hac.tx.symm,
    combine_eq_core C hhb hbc.tx.symm, combine_eq_core C hh hab.tx.symm, ?_⟩
  refine fold_combineCore_serialize C (.node (.node (.leaf a) (.leaf b)) (.leaf c))
    (.node (.leaf a) (.node (.leaf b) (.leaf c))) ?_ ?_
  · intro l hl l' hl'
    simp only [CTree.leaves, List.mem_append, List.mem_singleton] at hl hl'
    rcases hl with (rfl | rfl) | rfl <;> rcases hl' with (rfl | rfl) | rfl <;>
      first | exact hab | exact hab.symm | exact hac | exact hac.symm | exact hbc | exact hbc.symm
            | exact hab.self_left | exact hab.symm.self_left | exact hbc.symm.self_left
  · intro l
    simp only [CTree.leaves, List.mem_append, List.mem_singleton]
    exact or_assoc

/-- PSBT.combine is idempotent up to serialisation -/
theorem combine_idem_ser (C : TxCodec Tx) {a : Psbt Tx} {h : Bytes} (hw : PsbtWF a)
    (hh : C.hash a.tx = some h) : ∃ x, combine C a a = some x ∧ x.serialize C = a.serialize C := by
  refine ⟨_, combine_eq_core C hh rfl, ?_⟩
  refine fold_combineCore_serialize C (.node (.leaf a) (.leaf a)) (.leaf a) ?_ ?_
  · intro l hl l' hl'
    simp only [CTree.leaves, List.mem_append, List.mem_singleton, or_self] at hl hl'
    subst hl; subst hl'
    exact PsbtCompat.of_wf hw
  · intro l
    simp only [CTree.leaves, List.mem_append, List.mem_singleton, or_self]

/-! ## 6. non-vacuity

  Two signers' copies of one input map: different signature keys, overlapping derivations with the
  same value, the same sighash type, one of them with an (empty, hence unserialised) final witness.
  `#eval` of both `(combineIn exA exB).entries exC` and `(combineIn exB exA).entries exC` gives
  `some [([2,2,0],[49,1]), ([2,2,1],[48,1]), ([3],[1,0,0,0]), ([6,2,0],[8]), ([6,2,1],[9]), ([240],[1])]`
  although the combined dicts differ as lists. -/
section examples

def exC : TxCodec Unit :=
  { parseLegacy := fun _ => none, parse := fun _ => none, serialize := fun _ => some [0xAA],
    serializeLegacy := fun _ => some [0xAA], hash := fun _ => some [0xBB], ins := fun _ => [],
    outs := fun _ => [], finalSerialize := fun _ _ => none }

def exA : PIn Unit :=
  { sigs := [([2, 1], [0x30, 1])], namedPubs := [([2, 1], [9])], hashType := some 1, extra := [([0xF0], [1])] }

def exB : PIn Unit :=
  { sigs := [([2, 0], [0x31, 1])], namedPubs := [([2, 0], [8]), ([2, 1], [9])], hashType := some 1,
    witness := some [] }

/-- the hypotheses of the input-map theorems are satisfiable by maps with different signature keys -/
theorem exA_exB_compat : InCompat exA exB :=
  { wf_l := ⟨by unfold DNodup; decide, by unfold DNodup; decide, by unfold DNodup; decide⟩
    wf_r := ⟨by unfold DNodup; decide, by unfold DNodup; decide, by unfold DNodup; decide⟩
    sigs := dagree_of_forall_mem (by decide)
    named := dagree_of_forall_mem (by decide)
    extra := dagree_of_forall_mem (by decide)
    prevTx := OAgree.refl _
    prevOut := OAgree.refl _
    hashType := OAgree.refl _
    redeem := OAgree.refl _
    witnessScript := OAgree.refl _
    scriptSig := OAgree.refl _
    witness := OAgree.none_left _ }

/-- the combination is NOT commutative on the nose (the dicts come out in different orders) … -/
example : (combineIn exA exB).sigs ≠ (combineIn exB exA).sigs := by decide

/-- … but it is up to serialisation -/
example : (combineIn exA exB).entries exC = (combineIn exB exA).entries exC :=
  combineIn_comm_ser exC exA_exB_compat

/-- agreement on common keys is necessary: two different signatures under one key -/
def exA' : PIn Unit := { sigs := [([2, 1], [0x55, 1])] }

example : (combineIn exA exA').entries exC ≠ (combineIn exA' exA).entries exC := by decide +kernel

/-- agreement of the RAW optional values is necessary: `hash_type` 0 against 1 -/
def exH0 : PIn Unit := { hashType := some 0 }
def exH1 : PIn Unit := { hashType := some 1 }

example : OAgree (eff htT exH0.hashType) (eff htT exH1.hashType) := OAgree.none_left _

example : (combineIn exH0 exH1).entries exC ≠ (combineIn exH1 exH0).entries exC := by decide +kernel

def exPA : Psbt Unit := { tx := (), ins := [exA], outs := [{}], hdPubs := [([1], ⟨[1], [7]⟩)] }
def exPB : Psbt Unit := { tx := (), ins := [exB], outs := [{ extra := [([0xF1], [2])] }] }

/-- the hypotheses of the PSBT theorems are satisfiable -/
theorem exPA_exPB_compat : PsbtCompat exPA exPB :=
  { tx := rfl
    ins_len := rfl
    outs_len := rfl
    ins := fun i p q hp hq => by
      cases i with
      | zero => cases hp; cases hq; exact exA_exB_compat
      | succ i => cases hp
    outs := fun i p q hp hq => by
      cases i with
      | zero =>
        cases hp; cases hq
        exact ⟨⟨by unfold DNodup; decide, by unfold DNodup; decide⟩,
          ⟨by unfold DNodup; decide, by unfold DNodup; decide⟩,
          dagree_of_forall_mem (by decide), dagree_of_forall_mem (by decide), OAgree.refl _, OAgree.refl _⟩
      | succ i => cases hp
    hd_l := by unfold DNodup; decide
    hd_r := by unfold DNodup; decide
    extra_l := by unfold DNodup; decide
    extra_r := by unfold DNodup; decide
    hd := dagree_of_forall_mem (by decide)
    extra := dagree_of_forall_mem (by decide) }

example : ∃ x y, combine exC exPA exPB = some x ∧ combine exC exPB exPA = some y ∧
    x.serialize exC = y.serialize exC :=
  combine_comm_ser exC exPA_exPB_compat rfl

/-- three signers in two different orders and bracketings, one of them twice -/
example : ∃ x y,
    (CTree.node (.node (.leaf exPA) (.leaf exPB)) (.leaf exPA)).evalP exC = some x ∧
    (CTree.node (.leaf exPB) (.leaf exPA)).evalP exC = some y ∧ x.serialize exC = y.serialize exC := by
  apply combine_tree_bytes_independent
  · intro l hl l' hl'
    simp only [CTree.leaves, List.mem_append, List.mem_singleton] at hl hl'
    rcases hl with (rfl | rfl) | rfl <;> rcases hl' with (rfl | rfl) | rfl <;>
      first | exact exPA_exPB_compat | exact exPA_exPB_compat.symm | exact exPA_exPB_compat.self_left
            | exact exPA_exPB_compat.symm.self_left
  · intro l _; rfl
  · intro l
    simp only [CTree.leaves, List.mem_append, List.mem_singleton]
    constructor
    · rintro ((h | h) | h)
      · exact Or.inr h
      · exact Or.inl h
      · exact Or.inr h
    · rintro (h | h)
      · exact Or.inl (Or.inr h)
      · exact Or.inl (Or.inl h)

end examples

end Buidl.Psbt
