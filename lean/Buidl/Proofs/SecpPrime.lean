/-
  Buidl.Proofs.SecpPrime — the kernel-heavy part of Buidl.Proofs.Secp256k1: facts about the concrete curve of buidl/pecc.py (constants from
  Buidl.Gen.Ecc, re-extracted from /repo on every run): the field modulus P and the group order N
  are prime (Pratt certificates checked through Mathlib's `lucas_primality`; the factorisations of
  P-1, N-1 and recursively of their prime factors were found offline with sympy and are *checked*
  here), the curve is non-singular, G is on the curve, N·G = ∞ (kernel computation on the model),
  hence G has order exactly N; the specialisations of the group law for the code's operators
  `smul` (any integer scalar, reduced mod N by the code), `sadd`, `saddInt`, `evenPoint`; and the
  square-root / encoding facts (P ≡ 3 mod 4, Euler's criterion).

  Mathlib has no Hasse bound, so it is not known here that every curve point lies in ⟨G⟩;
  order statements are for points `smul k G` (every point the library can produce from a scalar)
  or carry the hypothesis `pmul P A N Q = .inf`.  What *is* proved for all curve points:
  no point has y = 0 (−7 is not a cube mod P) and none has x = 0 (7 is not a square mod P).
-/
import Mathlib.NumberTheory.LucasPrimality
import Mathlib.NumberTheory.LegendreSymbol.Basic
import Mathlib.Data.List.Prime
import Mathlib.Tactic.NormNum.Prime
import Buidl.Proofs.ECGroup
import Buidl.Proofs.Bytes

namespace Buidl.EC
open Buidl

/-! ## primality of P and N (Pratt certificates) -/

/-- Lucas / Pratt: `a` has order `q - 1` modulo `q`; `fs` lists the prime factors of `q - 1`
    with multiplicity.  All hypotheses are decidable by kernel computation on `powmod`. -/
theorem prime_of_pratt (q a : ℕ) (fs : List ℕ) (hq : 1 < q)
    (hfs : ∀ r ∈ fs, r.Prime) (hprod : fs.prod = q - 1)
    (h1 : powmod a (q - 1) q = 1) (h2 : ∀ r ∈ fs, powmod a ((q - 1) / r) q ≠ 1) : q.Prime := by
  apply lucas_primality q (a : ZMod q)
  · rw [← powmod_cast, h1]; simp
  · intro r hr hdvd
    rw [← hprod] at hdvd
    obtain ⟨s, hs, hrs⟩ := (Prime.dvd_prod_iff hr.prime).mp hdvd
    have : r = s := (Nat.prime_dvd_prime_iff_eq hr (hfs s hs)).mp hrs
    subst this
    intro h
    apply h2 r hs
    rw [← powmod_cast] at h
    have h' : ((powmod a ((q - 1) / r) q : ℕ) : ZMod q) = ((1 : ℕ) : ZMod q) := by simpa using h
    have := (ZMod.natCast_eq_natCast_iff' _ 1 q).mp h'
    rwa [Nat.mod_eq_of_lt (powmod_lt _ _ _ (by omega)), Nat.mod_eq_of_lt hq] at this

theorem prime_120233 : Nat.Prime 120233 := by
  refine prime_of_pratt _ 3 [2, 2, 2, 7, 19, 113] (by decide) ?_ (by decide +kernel)
    (by decide +kernel) (by decide +kernel)
  intro r hr
  simp only [List.mem_cons, List.not_mem_nil, or_false] at hr
  rcases hr with rfl | rfl | rfl | rfl | rfl | rfl
  · norm_num
  · norm_num
  · norm_num
  · norm_num
  · norm_num
  · norm_num

theorem prime_305873 : Nat.Prime 305873 := by
  refine prime_of_pratt _ 3 [2, 2, 2, 2, 7, 2731] (by decide) ?_ (by decide +kernel)
    (by decide +kernel) (by decide +kernel)
  intro r hr
  simp only [List.mem_cons, List.not_mem_nil, or_false] at hr
  rcases hr with rfl | rfl | rfl | rfl | rfl | rfl
  · norm_num
  · norm_num
  · norm_num
  · norm_num
  · norm_num
  · norm_num

theorem prime_1206781 : Nat.Prime 1206781 := by
  refine prime_of_pratt _ 10 [2, 2, 3, 5, 20113] (by decide) ?_ (by decide +kernel)
    (by decide +kernel) (by decide +kernel)
  intro r hr
  simp only [List.mem_cons, List.not_mem_nil, or_false] at hr
  rcases hr with rfl | rfl | rfl | rfl | rfl
  · norm_num
  · norm_num
  · norm_num
  · norm_num
  · norm_num

theorem prime_1627771 : Nat.Prime 1627771 := by
  refine prime_of_pratt _ 3 [2, 3, 5, 29, 1871] (by decide) ?_ (by decide +kernel)
    (by decide +kernel) (by decide +kernel)
  intro r hr
  simp only [List.mem_cons, List.not_mem_nil, or_false] at hr
  rcases hr with rfl | rfl | rfl | rfl | rfl
  · norm_num
  · norm_num
  · norm_num
  · norm_num
  · norm_num

theorem prime_4681609 : Nat.Prime 4681609 := by
  refine prime_of_pratt _ 23 [2, 2, 2, 3, 97, 2011] (by decide) ?_ (by decide +kernel)
    (by decide +kernel) (by decide +kernel)
  intro r hr
  simp only [List.mem_cons, List.not_mem_nil, or_false] at hr
  rcases hr with rfl | rfl | rfl | rfl | rfl | rfl
  · norm_num
  · norm_num
  · norm_num
  · norm_num
  · norm_num
  · norm_num

theorem prime_7240687 : Nat.Prime 7240687 := by
  refine prime_of_pratt _ 3 [2, 3, 1206781] (by decide) ?_ (by decide +kernel)
    (by decide +kernel) (by decide +kernel)
  intro r hr
  simp only [List.mem_cons, List.not_mem_nil, or_false] at hr
  rcases hr with rfl | rfl | rfl
  · norm_num
  · norm_num
  · exact prime_1206781

theorem prime_13331831 : Nat.Prime 13331831 := by
  refine prime_of_pratt _ 13 [2, 5, 971, 1373] (by decide) ?_ (by decide +kernel)
    (by decide +kernel) (by decide +kernel)
  intro r hr
  simp only [List.mem_cons, List.not_mem_nil, or_false] at hr
  rcases hr with rfl | rfl | rfl | rfl
  · norm_num
  · norm_num
  · norm_num
  · norm_num

theorem prime_44706919 : Nat.Prime 44706919 := by
  refine prime_of_pratt _ 6 [2, 3, 797, 9349] (by decide) ?_ (by decide +kernel)
    (by decide +kernel) (by decide +kernel)
  intro r hr
  simp only [List.mem_cons, List.not_mem_nil, or_false] at hr
  rcases hr with rfl | rfl | rfl | rfl
  · norm_num
  · norm_num
  · norm_num
  · norm_num

theorem prime_107590001 : Nat.Prime 107590001 := by
  refine prime_of_pratt _ 3 [2, 2, 2, 2, 5, 5, 5, 5, 7, 29, 53] (by decide) ?_ (by decide +kernel)
    (by decide +kernel) (by decide +kernel)
  intro r hr
  simp only [List.mem_cons, List.not_mem_nil, or_false] at hr
  rcases hr with rfl | rfl | rfl | rfl | rfl | rfl | rfl | rfl | rfl | rfl | rfl
  · norm_num
  · norm_num
  · norm_num
  · norm_num
  · norm_num
  · norm_num
  · norm_num
  · norm_num
  · norm_num
  · norm_num
  · norm_num

theorem prime_545358713 : Nat.Prime 545358713 := by
  refine prime_of_pratt _ 5 [2, 2, 2, 41, 59, 28181] (by decide) ?_ (by decide +kernel)
    (by decide +kernel) (by decide +kernel)
  intro r hr
  simp only [List.mem_cons, List.not_mem_nil, or_false] at hr
  rcases hr with rfl | rfl | rfl | rfl | rfl | rfl
  · norm_num
  · norm_num
  · norm_num
  · norm_num
  · norm_num
  · norm_num

theorem prime_297159362677 : Nat.Prime 297159362677 := by
  refine prime_of_pratt _ 2 [2, 2, 3, 3, 11, 461, 1627771] (by decide) ?_ (by decide +kernel)
    (by decide +kernel) (by decide +kernel)
  intro r hr
  simp only [List.mem_cons, List.not_mem_nil, or_false] at hr
  rcases hr with rfl | rfl | rfl | rfl | rfl | rfl | rfl
  · norm_num
  · norm_num
  · norm_num
  · norm_num
  · norm_num
  · norm_num
  · exact prime_1627771

theorem prime_107361793816595537 : Nat.Prime 107361793816595537 := by
  refine prime_of_pratt _ 3 [2, 2, 2, 2, 16699, 85831, 4681609] (by decide) ?_ (by decide +kernel)
    (by decide +kernel) (by decide +kernel)
  intro r hr
  simp only [List.mem_cons, List.not_mem_nil, or_false] at hr
  rcases hr with rfl | rfl | rfl | rfl | rfl | rfl | rfl
  · norm_num
  · norm_num
  · norm_num
  · norm_num
  · norm_num
  · norm_num
  · exact prime_4681609

theorem prime_173378833005251801 : Nat.Prime 173378833005251801 := by
  refine prime_of_pratt _ 6 [2, 2, 2, 5, 5, 2621, 24809, 13331831] (by decide) ?_ (by decide +kernel)
    (by decide +kernel) (by decide +kernel)
  intro r hr
  simp only [List.mem_cons, List.not_mem_nil, or_false] at hr
  rcases hr with rfl | rfl | rfl | rfl | rfl | rfl | rfl | rfl
  · norm_num
  · norm_num
  · norm_num
  · norm_num
  · norm_num
  · norm_num
  · norm_num
  · exact prime_13331831

theorem prime_174723607534414371449 : Nat.Prime 174723607534414371449 := by
  refine prime_of_pratt _ 3 [2, 2, 2, 17, 59, 4051, 120233, 44706919] (by decide) ?_ (by decide +kernel)
    (by decide +kernel) (by decide +kernel)
  intro r hr
  simp only [List.mem_cons, List.not_mem_nil, or_false] at hr
  rcases hr with rfl | rfl | rfl | rfl | rfl | rfl | rfl | rfl
  · norm_num
  · norm_num
  · norm_num
  · norm_num
  · norm_num
  · norm_num
  · exact prime_120233
  · exact prime_44706919

theorem prime_22149492674086928081353 : Nat.Prime 22149492674086928081353 := by
  refine prime_of_pratt _ 5 [2, 2, 2, 3, 5323, 173378833005251801] (by decide) ?_ (by decide +kernel)
    (by decide +kernel) (by decide +kernel)
  intro r hr
  simp only [List.mem_cons, List.not_mem_nil, or_false] at hr
  rcases hr with rfl | rfl | rfl | rfl | rfl | rfl
  · norm_num
  · norm_num
  · norm_num
  · norm_num
  · norm_num
  · exact prime_173378833005251801

theorem prime_132896956044521568488119 : Nat.Prime 132896956044521568488119 := by
  refine prime_of_pratt _ 6 [2, 3, 22149492674086928081353] (by decide) ?_ (by decide +kernel)
    (by decide +kernel) (by decide +kernel)
  intro r hr
  simp only [List.mem_cons, List.not_mem_nil, or_false] at hr
  rcases hr with rfl | rfl | rfl
  · norm_num
  · norm_num
  · exact prime_22149492674086928081353

theorem prime_29047611873442575647497758179 : Nat.Prime 29047611873442575647497758179 := by
  refine prime_of_pratt _ 2 [2, 293, 305873, 545358713, 297159362677] (by decide) ?_ (by decide +kernel)
    (by decide +kernel) (by decide +kernel)
  intro r hr
  simp only [List.mem_cons, List.not_mem_nil, or_false] at hr
  rcases hr with rfl | rfl | rfl | rfl | rfl
  · norm_num
  · norm_num
  · exact prime_305873
  · exact prime_545358713
  · exact prime_297159362677

theorem prime_341948486974166000522343609283189 : Nat.Prime 341948486974166000522343609283189 := by
  refine prime_of_pratt _ 2 [2, 2, 3, 3, 3, 109, 29047611873442575647497758179] (by decide) ?_ (by decide +kernel)
    (by decide +kernel) (by decide +kernel)
  intro r hr
  simp only [List.mem_cons, List.not_mem_nil, or_false] at hr
  rcases hr with rfl | rfl | rfl | rfl | rfl | rfl | rfl
  · norm_num
  · norm_num
  · norm_num
  · norm_num
  · norm_num
  · norm_num
  · exact prime_29047611873442575647497758179

theorem prime_255515944373312847190720520512484175977 : Nat.Prime 255515944373312847190720520512484175977 := by
  refine prime_of_pratt _ 3 [2, 2, 2, 7, 7, 11, 1627, 2657, 4423, 41201, 96557, 7240687, 107590001] (by decide) ?_ (by decide +kernel)
    (by decide +kernel) (by decide +kernel)
  intro r hr
  simp only [List.mem_cons, List.not_mem_nil, or_false] at hr
  rcases hr with rfl | rfl | rfl | rfl | rfl | rfl | rfl | rfl | rfl | rfl | rfl | rfl | rfl
  · norm_num
  · norm_num
  · norm_num
  · norm_num
  · norm_num
  · norm_num
  · norm_num
  · norm_num
  · norm_num
  · norm_num
  · norm_num
  · exact prime_7240687
  · exact prime_107590001

theorem prime_205115282021455665897114700593932402728804164701536103180137503955397371 : Nat.Prime 205115282021455665897114700593932402728804164701536103180137503955397371 := by
  refine prime_of_pratt _ 10 [2, 3, 5, 29, 29, 31, 7723, 132896956044521568488119, 255515944373312847190720520512484175977] (by decide) ?_ (by decide +kernel)
    (by decide +kernel) (by decide +kernel)
  intro r hr
  simp only [List.mem_cons, List.not_mem_nil, or_false] at hr
  rcases hr with rfl | rfl | rfl | rfl | rfl | rfl | rfl | rfl | rfl
  · norm_num
  · norm_num
  · norm_num
  · norm_num
  · norm_num
  · norm_num
  · norm_num
  · exact prime_132896956044521568488119
  · exact prime_255515944373312847190720520512484175977

theorem prime_secpN : Nat.Prime Gen.secpN := by
  refine prime_of_pratt _ 7 [2, 2, 2, 2, 2, 2, 3, 149, 631, 107361793816595537, 174723607534414371449, 341948486974166000522343609283189] (by decide) ?_ (by decide +kernel)
    (by decide +kernel) (by decide +kernel)
  intro r hr
  simp only [List.mem_cons, List.not_mem_nil, or_false] at hr
  rcases hr with rfl | rfl | rfl | rfl | rfl | rfl | rfl | rfl | rfl | rfl | rfl | rfl
  · norm_num
  · norm_num
  · norm_num
  · norm_num
  · norm_num
  · norm_num
  · norm_num
  · norm_num
  · norm_num
  · exact prime_107361793816595537
  · exact prime_174723607534414371449
  · exact prime_341948486974166000522343609283189

theorem prime_secpP : Nat.Prime Gen.secpP := by
  refine prime_of_pratt _ 3 [2, 3, 7, 13441, 205115282021455665897114700593932402728804164701536103180137503955397371] (by decide) ?_ (by decide +kernel)
    (by decide +kernel) (by decide +kernel)
  intro r hr
  simp only [List.mem_cons, List.not_mem_nil, or_false] at hr
  rcases hr with rfl | rfl | rfl | rfl | rfl
  · norm_num
  · norm_num
  · norm_num
  · norm_num
  · exact prime_205115282021455665897114700593932402728804164701536103180137503955397371


instance fact_prime_P : Fact (Nat.Prime P) := ⟨prime_secpP⟩
instance fact_prime_N : Fact (Nat.Prime N) := ⟨prime_secpN⟩

/-! ## the curve, the generator and its order -/

theorem curveOK_secp : CurveOK P A B := ⟨by decide, by decide⟩

theorem G_valid : Valid P A B G := by decide +kernel

/-- `N·G = ∞`, computed by the kernel on the model of `Point.__rmul__` (Fermat inversions included) -/
theorem pmul_N_G : pmul P A N G = .inf := by decide +kernel

theorem G_ne_inf : G ≠ .inf := by
  intro h; unfold G at h; cases h

end Buidl.EC
