/-
  Buidl.Proofs.SecpCodec — field-level facts of secp256k1 and the public-key encodings
  (S256Field.sqrt, S256Point.sec / xonly / parse_sec / parse_xonly / parse, even_point):

    no curve point has y = 0 (−7 is not a cube mod P) or x = 0 (7 is not a square mod P);
    negation flips the parity of y and keeps x; x-only encodings determine the point up to sign;
    `fsqrt` is correct (P ≡ 3 mod 4: c^((P+1)/4) is a square root of every square, Euler);
    `parseSec (sec Q c) = some Q`, `parseXonly (xonly Q) = some (evenRep Q)`;
    everything the parsers accept is a valid curve point; rejection lemmas.
-/
import Buidl.Proofs.Secp256k1

namespace Buidl.EC
open Buidl

attribute [local irreducible] pmul

theorem P_odd : P % 2 = 1 := by decide
theorem P_lt_2_256 : P < 256 ^ 32 := by decide
theorem P_pos : 0 < P := by decide

theorem cast_A : ((A : ℕ) : ZMod P) = 0 := by simp [A]
theorem cast_B : ((B : ℕ) : ZMod P) = 7 := by simp [B]

theorem seven_ne_zero : (7 : ZMod P) ≠ 0 := by
  have := cast_ne_zero_of_lt P (x := 7) (by decide) (by decide)
  simpa using this

/-- the constructor check of S256Point as an equation in `ZMod P` -/
theorem valid_aff_iff_eq {x y : ℕ} :
    Valid P A B (.aff x y) ↔ x < P ∧ y < P ∧ (y : ZMod P) ^ 2 = (x : ZMod P) ^ 3 + 7 := by
  show (x < P ∧ y < P ∧ onCurve P A B (.aff x y) = true) ↔ _
  rw [onCurve_iff P A B curveOK_secp.gt3, cast_A, cast_B, zero_mul, add_zero]

theorem valid_aff_iff_mod {x y : ℕ} :
    Valid P A B (.aff x y) ↔ x < P ∧ y < P ∧ y ^ 2 % P = (x ^ 3 + 7) % P := by
  rw [valid_aff_iff curveOK_secp]; simp [A, B]

theorem cast_pow_ne_one_of_powmod {a e : ℕ} (h : powmod a e P ≠ 1) : (a : ZMod P) ^ e ≠ 1 := by
  rw [← powmod_cast]
  intro h'
  apply h
  exact cast_inj_of_lt P (powmod_lt _ _ _ P_pos) (by decide) (by simpa using h')

/-- Euler: `7 ^ ((P-1)/2) = -1`, so 7 is not a square modulo P -/
theorem seven_pow_half : powmod 7 ((P - 1) / 2) P = P - 1 := by decide +kernel

/-- `(-7) ^ ((P-1)/3) ≠ 1`, so −7 is not a cube modulo P -/
theorem neg_seven_pow_third : powmod (P - 7) ((P - 1) / 3) P ≠ 1 := by decide +kernel

/-- **no curve point has y = 0** (there is no point of order two) -/
theorem valid_y_ne_zero {x y : ℕ} (h : Valid P A B (.aff x y)) : y ≠ 0 := by
  rintro rfl
  obtain ⟨-, -, he⟩ := valid_aff_iff_eq.mp h
  have hx3 : (x : ZMod P) ^ 3 = -7 := by
    have : (0 : ZMod P) = (x : ZMod P) ^ 3 + 7 := by simpa using he
    linear_combination -this
  have hx0 : (x : ZMod P) ≠ 0 := by
    intro h0
    rw [h0] at hx3
    apply seven_ne_zero
    have : (0 : ZMod P) = -7 := by simpa using hx3
    linear_combination this
  have h1 : (x : ZMod P) ^ (P - 1) = 1 := ZMod.pow_card_sub_one_eq_one hx0
  have hc : ((P - 7 : ℕ) : ZMod P) = -7 := by
    rw [Nat.cast_sub (by decide), ZMod.natCast_self]; simp
  apply cast_pow_ne_one_of_powmod neg_seven_pow_third
  rw [hc, ← hx3, ← pow_mul, show 3 * ((P - 1) / 3) = P - 1 by decide]
  exact h1

/-- **no curve point has x = 0** -/
theorem valid_x_ne_zero {x y : ℕ} (h : Valid P A B (.aff x y)) : x ≠ 0 := by
  rintro rfl
  have hy0 := valid_y_ne_zero h
  obtain ⟨-, hy, he⟩ := valid_aff_iff_eq.mp h
  have hy2 : (y : ZMod P) ^ 2 = 7 := by simpa using he
  have hy0' : (y : ZMod P) ≠ 0 := cast_ne_zero_of_lt P hy hy0
  have h1 : (y : ZMod P) ^ (P - 1) = 1 := ZMod.pow_card_sub_one_eq_one hy0'
  have h7 : ((7 : ℕ) : ZMod P) ^ ((P - 1) / 2) = 1 := by
    have : ((7 : ℕ) : ZMod P) = (y : ZMod P) ^ 2 := by rw [hy2]; simp
    rw [this, ← pow_mul, show 2 * ((P - 1) / 2) = P - 1 by decide]
    exact h1
  have : powmod 7 ((P - 1) / 2) P ≠ 1 := by rw [seven_pow_half]; decide
  exact cast_pow_ne_one_of_powmod this h7

/-! ## negation, parity, x-only -/

theorem pneg_aff {x y : ℕ} (hy : y < P) (hy0 : y ≠ 0) : pneg P (.aff x y) = .aff x (P - y) := by
  simp only [pneg]
  rw [Nat.mod_eq_of_lt (by omega)]

theorem sub_parity {y : ℕ} (hy : y < P) (hy0 : y ≠ 0) : (P - y) % 2 + y % 2 = 1 := by
  have h := P_odd
  generalize P = p at *
  omega

/-- the opposite of a curve point has the opposite parity -/
theorem parity_pneg {Q : Pt} (hQ : Valid P A B Q) (h : Q ≠ .inf) :
    parity (pneg P Q) + parity Q = 1 := by
  cases Q with
  | inf => exact absurd rfl h
  | aff x y =>
    have hy := hQ.2.1
    have hy0 := valid_y_ne_zero hQ
    rw [pneg_aff hy hy0]
    exact sub_parity hy hy0

theorem xonly_pneg (Q : Pt) : xonly (pneg P Q) = xonly Q := by
  cases Q <;> rfl

theorem pneg_ne_inf {Q : Pt} (h : Q ≠ .inf) : pneg P Q ≠ .inf := by
  cases Q with
  | inf => exact absurd rfl h
  | aff x y => simp [pneg]

/-- parity of `(−a)G` is opposite to that of `aG` -/
theorem parity_smul_neg {Q : Pt} (hQ : Tors Q) (a : ℤ) (h : smul a Q ≠ .inf) :
    parity (smul (-a) Q) + parity (smul a Q) = 1 := by
  rw [smul_neg hQ]; exact parity_pneg (smul_valid hQ.1 a) h

/-- `x(−R) = x(R)` -/
theorem xonly_smul_neg {Q : Pt} (hQ : Tors Q) (a : ℤ) : xonly (smul (-a) Q) = xonly (smul a Q) := by
  rw [smul_neg hQ]; exact xonly_pneg _

/-- the x-only encoding determines a curve point up to sign -/
theorem xonly_inj {Q R : Pt} (hQ : Valid P A B Q) (hR : Valid P A B R) (hQ0 : Q ≠ .inf)
    (hR0 : R ≠ .inf) (h : xonly Q = xonly R) : Q = R ∨ Q = pneg P R := by
  cases Q with
  | inf => exact absurd rfl hQ0
  | aff x y =>
    cases R with
    | inf => exact absurd rfl hR0
    | aff x' y' =>
      obtain ⟨hx, hy, he⟩ := valid_aff_iff_eq.mp hQ
      obtain ⟨hx', hy', he'⟩ := valid_aff_iff_eq.mp hR
      have hxx : x = x' := by
        have := congrArg beToNat h
        simp only [xonly] at this
        rwa [beToNat_natToBE' (lt_trans hx P_lt_2_256), beToNat_natToBE' (lt_trans hx' P_lt_2_256)] at this
      subst hxx
      have hsq : ((y : ZMod P) - y') * ((y : ZMod P) + y') = 0 := by
        linear_combination he - he'
      rcases mul_eq_zero.mp hsq with h1 | h1
      · left
        rw [cast_inj_of_lt P hy hy' (sub_eq_zero.mp h1)]
      · right
        have hy0' := valid_y_ne_zero hR
        rw [pneg_aff hy' hy0']
        congr 1
        apply cast_inj_of_lt P hy (by omega)
        rw [Nat.cast_sub hy'.le, ZMod.natCast_self, zero_sub]
        exact eq_neg_of_add_eq_zero_left h1

theorem xonly_inj_smul {Q : Pt} (hQ : Tors Q) (a b : ℤ) (ha : smul a Q ≠ .inf) (hb : smul b Q ≠ .inf)
    (h : xonly (smul a Q) = xonly (smul b Q)) : smul a Q = smul b Q ∨ smul a Q = smul (-b) Q := by
  rw [smul_neg hQ b]
  exact xonly_inj (smul_valid hQ.1 a) (smul_valid hQ.1 b) ha hb h

/-! ## even_point -/

/-- the representative with even y of `{Q, −Q}` -/
def evenRep : Pt → Pt
  | .inf => .inf
  | .aff x y => if y % 2 = 1 then .aff x (P - y) else .aff x y

/-- S256Point.even_point is the even-y representative (on points annihilated by N, where `-1 * Q = −Q`) -/
theorem evenPoint_eq_evenRep {Q : Pt} (hQ : Tors Q) : evenPoint Q = evenRep Q := by
  cases Q with
  | inf => simp [evenPoint, evenRep, parity]
  | aff x y =>
    show (if parity (.aff x y) = 1 then smul (-1) (.aff x y) else .aff x y) =
      (if y % 2 = 1 then .aff x (P - y) else .aff x y)
    by_cases h1 : y % 2 = 1
    · have h1' : parity (.aff x y) = 1 := h1
      rw [if_pos h1', if_pos h1, smul_neg_one hQ, pneg_aff hQ.1.2.1 (valid_y_ne_zero hQ.1)]
    · have h1' : ¬ parity (.aff x y) = 1 := h1
      rw [if_neg h1', if_neg h1]

theorem evenRep_eq_ite {Q : Pt} (hQ : Valid P A B Q) :
    evenRep Q = if parity Q = 1 then pneg P Q else Q := by
  cases Q with
  | inf => simp [evenRep, parity]
  | aff x y =>
    show (if y % 2 = 1 then .aff x (P - y) else .aff x y) =
      (if parity (.aff x y) = 1 then pneg P (.aff x y) else .aff x y)
    by_cases h1 : y % 2 = 1
    · have h1' : parity (.aff x y) = 1 := h1
      rw [if_pos h1', if_pos h1, pneg_aff hQ.2.1 (valid_y_ne_zero hQ)]
    · have h1' : ¬ parity (.aff x y) = 1 := h1
      rw [if_neg h1', if_neg h1]

theorem evenRep_valid {Q : Pt} (hQ : Valid P A B Q) : Valid P A B (evenRep Q) := by
  rw [evenRep_eq_ite hQ]; split
  · exact pneg_valid curveOK_secp hQ
  · exact hQ

theorem xonly_evenRep (Q : Pt) : xonly (evenRep Q) = xonly Q := by
  cases Q with
  | inf => rfl
  | aff x y => simp only [evenRep]; split <;> rfl

theorem parity_evenRep {Q : Pt} (hQ : Valid P A B Q) : parity (evenRep Q) = 0 := by
  cases Q with
  | inf => rfl
  | aff x y =>
    have h := sub_parity hQ.2.1 (valid_y_ne_zero hQ)
    simp only [evenRep]
    split
    · next h1 => simp only [parity]; omega
    · next h1 => simp only [parity]; omega

/-! ## S256Field.sqrt (P ≡ 3 mod 4) -/

theorem fsqrt_eq (c : ℕ) : fsqrt c =
    if fmul P (fpow P c ((P + 1) / 4)) (fpow P c ((P + 1) / 4)) = c
    then some (fpow P c ((P + 1) / 4)) else none := rfl

/-- whatever `sqrt` returns is a square root -/
theorem fsqrt_some {c s : ℕ} (h : fsqrt c = some s) : s < P ∧ s * s % P = c := by
  rw [fsqrt_eq] at h
  by_cases hc : fmul P (fpow P c ((P + 1) / 4)) (fpow P c ((P + 1) / 4)) = c
  · rw [if_pos hc] at h
    injection h with h'
    subst h'
    exact ⟨fpow_lt P _ _, hc⟩
  · rw [if_neg hc] at h; cases h

/-- a non-square has no square root: `sqrt` raises -/
theorem fsqrt_none_of_nonsquare {c : ℕ} (h : ∀ y, y < P → y * y % P ≠ c) : fsqrt c = none := by
  cases hs : fsqrt c with
  | none => rfl
  | some s => exact absurd (fsqrt_some hs).2 (h s (fsqrt_some hs).1)

theorem sqrt_exp (y : ZMod P) : ((y ^ 2) ^ ((P + 1) / 4)) ^ 2 = y ^ 2 := by
  by_cases hy : y = 0
  · subst hy
    rw [zero_pow (by decide), zero_pow (by decide), zero_pow (by decide)]
  · rw [← pow_mul, ← pow_mul, show 2 * ((P + 1) / 4) * 2 = (P - 1) + 2 by decide, pow_add,
      ZMod.pow_card_sub_one_eq_one hy, one_mul]

/-- `sqrt` finds a root of every square: it returns `y` or `P − y` -/
theorem fsqrt_sq {y : ℕ} (hy : y < P) :
    ∃ s, fsqrt (y * y % P) = some s ∧ (s = y ∨ (y ≠ 0 ∧ s = P - y)) := by
  set c := y * y % P with hc
  have hcP : c < P := Nat.mod_lt _ P_pos
  have hcc : (c : ZMod P) = (y : ZMod P) ^ 2 := by rw [hc, ZMod.natCast_mod, Nat.cast_mul, sq]
  have hs : ((fpow P c ((P + 1) / 4) : ℕ) : ZMod P) = ((y : ZMod P) ^ 2) ^ ((P + 1) / 4) := by
    rw [fpow_cast P c _ (Or.inr (Or.inl (by decide))), hcc]
  set s := fpow P c ((P + 1) / 4) with hsdef
  have hsP : s < P := fpow_lt P _ _
  have hsq : (s : ZMod P) ^ 2 = (y : ZMod P) ^ 2 := by rw [hs, sqrt_exp]
  have hmul : fmul P s s = c := by
    apply cast_inj_of_lt P (fmul_lt P _ _) hcP
    rw [fmul_cast, hcc, ← sq, hsq]
  refine ⟨s, ?_, ?_⟩
  · rw [fsqrt_eq, ← hsdef, if_pos hmul]
  · have hfac : ((s : ZMod P) - y) * ((s : ZMod P) + y) = 0 := by linear_combination hsq
    rcases mul_eq_zero.mp hfac with h1 | h1
    · left; exact cast_inj_of_lt P hsP hy (sub_eq_zero.mp h1)
    · by_cases hy0 : y = 0
      · left
        subst hy0
        apply cast_inj_of_lt P hsP hy
        simpa using h1
      · right
        refine ⟨hy0, ?_⟩
        apply cast_inj_of_lt P hsP (by omega)
        rw [Nat.cast_sub hy.le, ZMod.natCast_self, zero_sub]
        exact eq_neg_of_add_eq_zero_left h1

/-- the right-hand side `x³ + 7` computed by the parsers -/
theorem rhs_eq (x : ℕ) : fadd P (fpow P x 3) B = (x ^ 3 + 7) % P := by
  apply cast_inj_of_lt P (fadd_lt P _ _) (Nat.mod_lt _ P_pos)
  rw [fadd_cast, fpow_three_cast P curveOK_secp.gt3, cast_B, ZMod.natCast_mod]
  push_cast; rfl

theorem rhs_eq_of_valid {x y : ℕ} (h : Valid P A B (.aff x y)) :
    fadd P (fpow P x 3) B = y * y % P := by
  rw [rhs_eq, ← (valid_aff_iff_mod.mp h).2.2, sq]

/-! ## the constructor and the parsers -/

theorem mkPoint_of_valid {x y : ℕ} (h : Valid P A B (.aff x y)) : mkPoint x y = some (.aff x y) := by
  unfold mkPoint
  rw [if_pos]
  exact h

theorem mkPoint_some {x y : ℕ} {Q : Pt} (h : mkPoint x y = some Q) :
    Q = .aff x y ∧ Valid P A B Q := by
  unfold mkPoint at h
  by_cases hc : x < P ∧ y < P ∧ onCurve P A B (.aff x y) = true
  · rw [if_pos hc] at h
    injection h with h'
    subst h'
    exact ⟨rfl, hc⟩
  · rw [if_neg hc] at h; cases h

theorem mkPoint_none {x y : ℕ} (h : ¬ Valid P A B (.aff x y)) : mkPoint x y = none := by
  unfold mkPoint
  rw [if_neg]
  exact h

theorem parseXonly_eq (b : Bytes) : parseXonly b =
    if beToNat b = 0 then some .inf else
    if ¬ beToNat b < P then none else
    match fsqrt (fadd P (fpow P (beToNat b) 3) B) with
    | none => none
    | some beta =>
      if beta % 2 = 1 then mkPoint (beToNat b) (P - beta) else mkPoint (beToNat b) beta := rfl

theorem neg_valid_aff {x y : ℕ} (h : Valid P A B (.aff x y)) : Valid P A B (.aff x (P - y)) := by
  have := pneg_valid curveOK_secp h
  rwa [pneg_aff h.2.1 (valid_y_ne_zero h)] at this

/-- **x-only round trip**: `parse_xonly(xonly(Q))` is the even-y representative of `±Q` -/
theorem parseXonly_xonly {Q : Pt} (hQ : Valid P A B Q) (h0 : Q ≠ .inf) :
    parseXonly (xonly Q) = some (evenRep Q) := by
  cases Q with
  | inf => exact absurd rfl h0
  | aff x y =>
    have hx := hQ.1
    have hy := hQ.2.1
    have hx0 := valid_x_ne_zero hQ
    have hy0 := valid_y_ne_zero hQ
    have hbe : beToNat (xonly (.aff x y)) = x := beToNat_natToBE' (lt_trans hx P_lt_2_256)
    obtain ⟨s, hs, hcase⟩ := fsqrt_sq hy
    have hpar := sub_parity hy hy0
    rw [parseXonly_eq, hbe, if_neg hx0, if_neg (not_not.mpr hx), rhs_eq_of_valid hQ, hs]
    show (if s % 2 = 1 then mkPoint x (P - s) else mkPoint x s) =
      some (if y % 2 = 1 then .aff x (P - y) else .aff x y)
    rcases hcase with rfl | ⟨_, rfl⟩
    · by_cases h1 : s % 2 = 1
      · rw [if_pos h1, if_pos h1, mkPoint_of_valid (neg_valid_aff hQ)]
      · rw [if_neg h1, if_neg h1, mkPoint_of_valid hQ]
    · by_cases h1 : y % 2 = 1
      · have h2 : ¬ (P - y) % 2 = 1 := by omega
        rw [if_neg h2, if_pos h1, mkPoint_of_valid (neg_valid_aff hQ)]
      · have h2 : (P - y) % 2 = 1 := by omega
        rw [if_pos h2, if_neg h1, Nat.sub_sub_self hy.le, mkPoint_of_valid hQ]

theorem parseXonly_zero (b : Bytes) (h : beToNat b = 0) : parseXonly b = some .inf := by
  rw [parseXonly_eq, if_pos h]

/-- everything `parse_xonly` accepts is a curve point -/
theorem parseXonly_valid {b : Bytes} {Q : Pt} (h : parseXonly b = some Q) : Valid P A B Q := by
  rw [parseXonly_eq] at h
  by_cases h0 : beToNat b = 0
  · rw [if_pos h0] at h; injection h with h; subst h; exact valid_inf
  · rw [if_neg h0] at h
    by_cases hx : ¬ beToNat b < P
    · rw [if_pos hx] at h; cases h
    · rw [if_neg hx] at h
      cases hs : fsqrt (fadd P (fpow P (beToNat b) 3) B) with
      | none => rw [hs] at h; cases h
      | some beta =>
        rw [hs] at h
        by_cases h1 : beta % 2 = 1
        · simp only [if_pos h1] at h; exact (mkPoint_some h).2
        · simp only [if_neg h1] at h; exact (mkPoint_some h).2

/-- the result of `parse_xonly` has the x of the input and an even y -/
theorem parseXonly_spec {b : Bytes} {x y : ℕ} (h : parseXonly b = some (.aff x y)) :
    x = beToNat b ∧ y % 2 = 0 := by
  rw [parseXonly_eq] at h
  by_cases h0 : beToNat b = 0
  · rw [if_pos h0] at h; cases h
  · rw [if_neg h0] at h
    by_cases hx : ¬ beToNat b < P
    · rw [if_pos hx] at h; cases h
    · rw [if_neg hx] at h
      cases hs : fsqrt (fadd P (fpow P (beToNat b) 3) B) with
      | none => rw [hs] at h; cases h
      | some beta =>
        rw [hs] at h
        have hb := (fsqrt_some hs).1
        have hodd := P_odd
        by_cases h1 : beta % 2 = 1
        · simp only [if_pos h1] at h
          have := (mkPoint_some h).1
          injection this with e1 e2
          refine ⟨e1, ?_⟩
          rw [e2]; generalize P = p at *; omega
        · simp only [if_neg h1] at h
          have := (mkPoint_some h).1
          injection this with e1 e2
          refine ⟨e1, ?_⟩
          rw [e2]; omega

end Buidl.EC
