/-
  Buidl.Proofs.SecpCodec — field-level facts of secp256k1 and the public-key encodings
  (S256Field.sqrt, S256Point.sec / xonly / parse_sec / parse_xonly / parse, even_point):

    no curve point has y = 0 (−7 is not a cube mod P) or x = 0 (7 is not a square mod P);
    negation flips the parity of y and keeps x; x-only encodings determine the point up to sign;
    `fsqrt` is correct (P ≡ 3 mod 4: c^((P+1)/4) is a square root of every square, Euler);
    `parseSec (sec Q c) = some Q`, `parseXonly (xonly Q) = some (evenRep Q)`;
    everything the parsers accept is a valid curve point; rejection lemmas.
-/
import Buidl.Proofs.Secp256k1

namespace Buidl.EC
open Buidl

attribute [local irreducible] pmul

theorem P_odd : P % 2 = 1 := by decide
theorem P_lt_2_256 : P < 256 ^ 32 := by decide
theorem P_pos : 0 < P := by decide

theorem cast_A : ((A : ℕ) : ZMod P) = 0 := by simp [A]
theorem cast_B : ((B : ℕ) : ZMod P) = 7 := by simp [B]

theorem seven_ne_zero : (7 : ZMod P) ≠ 0 := by
  have := cast_ne_zero_of_lt P (x := 7) (by decide) (by decide)
  simpa using this

/-- the constructor check of S256Point as an equation in `ZMod P` -/
theorem valid_aff_iff_eq {x y : ℕ} :
    Valid P A B (.aff x y) ↔ x < P ∧ y < P ∧ (y : ZMod P) ^ 2 = (x : ZMod P) ^ 3 + 7 := by
  show (x < P ∧ y < P ∧ onCurve P A B (.aff x y) = true) ↔ _
  rw [onCurve_iff P A B curveOK_secp.gt3, cast_A, cast_B, zero_mul, add_zero]

theorem valid_aff_iff_mod {x y : ℕ} :
    Valid P A B (.aff x y) ↔ x < P ∧ y < P ∧ y ^ 2 % P = (x ^ 3 + 7) % P := by
  rw [valid_aff_iff curveOK_secp]; simp [A, B]

theorem cast_pow_ne_one_of_powmod {a e : ℕ} (h : powmod a e P ≠ 1) : (a : ZMod P) ^ e ≠ 1 := by
  rw [← powmod_cast]
  intro h'
  apply h
  exact cast_inj_of_lt P (powmod_lt _ _ _ P_pos) (by decide) (by simpa using h')

/-- Euler: `7 ^ ((P-1)/2) = -1`, so 7 is not a square modulo P -/
theorem seven_pow_half : powmod 7 ((P - 1) / 2) P = P - 1 := by decide +kernel

/-- `(-7) ^ ((P-1)/3) ≠ 1`, so −7 is not a cube modulo P -/
theorem neg_seven_pow_third : powmod (P - 7) ((P - 1) / 3) P ≠ 1 := by decide +kernel

/-- **no curve point has y = 0** (there is no point of order two) -/
theorem valid_y_ne_zero {x y : ℕ} (h : Valid P A B (.aff x y)) : y ≠ 0 := by
  rintro rfl
  obtain ⟨-, -, he⟩ := valid_aff_iff_eq.mp h
  have hx3 : (x : ZMod P) ^ 3 = -7 := by
    have : (0 : ZMod P) = (x : ZMod P) ^ 3 + 7 := by simpa using he
    linear_combination -this
  have hx0 : (x : ZMod P) ≠ 0 := by
    intro h0
    rw [h0] at hx3
    apply seven_ne_zero
    have : (0 : ZMod P) = -7 := by simpa using hx3
    linear_combination this
  have h1 : (x : ZMod P) ^ (P - 1) = 1 := ZMod.pow_card_sub_one_eq_one hx0
  have hc : ((P - 7 : ℕ) : ZMod P) = -7 := by
    rw [Nat.cast_sub (by decide), ZMod.natCast_self]; simp
  apply cast_pow_ne_one_of_powmod neg_seven_pow_third
  rw [hc, ← hx3, ← pow_mul, show 3 * ((P - 1) / 3) = P - 1 by decide]
  exact h1

/-- **no curve point has x = 0** -/
theorem valid_x_ne_zero {x y : ℕ} (h : Valid P A B (.aff x y)) : x ≠ 0 := by
  rintro rfl
  have hy0 := valid_y_ne_zero h
  obtain ⟨-, hy, he⟩ := valid_aff_iff_eq.mp h
  have hy2 : (y : ZMod P) ^ 2 = 7 := by simpa using he
  have hy0' : (y : ZMod P) ≠ 0 := cast_ne_zero_of_lt P hy hy0
  have h1 : (y : ZMod P) ^ (P - 1) = 1 := ZMod.pow_card_sub_one_eq_one hy0'
  have h7 : ((7 : ℕ) : ZMod P) ^ ((P - 1) / 2) = 1 := by
    have : ((7 : ℕ) : ZMod P) = (y : ZMod P) ^ 2 := by rw [hy2]; simp
    rw [this, ← pow_mul, show 2 * ((P - 1) / 2) = P - 1 by decide]
    exact h1
  have : powmod 7 ((P - 1) / 2) P ≠ 1 := by rw [seven_pow_half]; decide
  exact cast_pow_ne_one_of_powmod this h7

/-! ## negation, parity, x-only -/

theorem pneg_aff {x y : ℕ} (hy : y < P) (hy0 : y ≠ 0) : pneg P (.aff x y) = .aff x (P - y) := by
  simp only [pneg]
  rw [Nat.mod_eq_of_lt (by omega)]

theorem sub_parity {y : ℕ} (hy : y < P) (hy0 : y ≠ 0) : (P - y) % 2 + y % 2 = 1 := by
  have h := P_odd
  generalize P = p at *
  omega

/-- the opposite of a curve point has the opposite parity -/
theorem parity_pneg {Q : Pt} (hQ : Valid P A B Q) (h : Q ≠ .inf) :
    parity (pneg P Q) + parity Q = 1 := by
  cases Q with
  | inf => exact absurd rfl h
  | aff x y =>
    have hy := hQ.2.1
    have hy0 := valid_y_ne_zero hQ
    rw [pneg_aff hy hy0]
    exact sub_parity hy hy0

theorem xonly_pneg (Q : Pt) : xonly (pneg P Q) = xonly Q := by
  cases Q <;> rfl

theorem pneg_ne_inf {Q : Pt} (h : Q ≠ .inf) : pneg P Q ≠ .inf := by
  cases Q with
  | inf => exact absurd rfl h
  | aff x y => simp [pneg]

/-- parity of `(−a)G` is opposite to that of `aG` -/
theorem parity_smul_neg {Q : Pt} (hQ : Tors Q) (a : ℤ) (h : smul a Q ≠ .inf) :
    parity (smul (-a) Q) + parity (smul a Q) = 1 := by
  rw [smul_neg hQ]; exact parity_pneg (smul_valid hQ.1 a) h

/-- `x(−R) = x(R)` -/
theorem xonly_smul_neg {Q : Pt} (hQ : Tors Q) (a : ℤ) : xonly (smul (-a) Q) = xonly (smul a Q) := by
  rw [smul_neg hQ]; exact xonly_pneg _

/-- the x-only encoding determines a curve point up to sign -/
theorem xonly_inj {Q R : Pt} (hQ : Valid P A B Q) (hR : Valid P A B R) (hQ0 : Q ≠ .inf)
    (hR0 : R ≠ .inf) (h : xonly Q = xonly R) : Q = R ∨ Q = pneg P R := by
  cases Q with
  | inf => exact absurd rfl hQ0
  | aff x y =>
    cases R with
    | inf => exact absurd rfl hR0
    | aff x' y' =>
      obtain ⟨hx, hy, he⟩ := valid_aff_iff_eq.mp hQ
      obtain ⟨hx', hy', he'⟩ := valid_aff_iff_eq.mp hR
      have hxx : x = x' := by
        have := congrArg beToNat h
        simp only [xonly] at this
        rwa [beToNat_natToBE' (lt_trans hx P_lt_2_256), beToNat_natToBE' (lt_trans hx' P_lt_2_256)] at this
      subst hxx
      have hsq : ((y : ZMod P) - y') * ((y : ZMod P) + y') = 0 := by
        linear_combination he - he'
      rcases mul_eq_zero.mp hsq with h1 | h1
      · left
        rw [cast_inj_of_lt P hy hy' (sub_eq_zero.mp h1)]
      · right
        have hy0' := valid_y_ne_zero hR
        rw [pneg_aff hy' hy0']
        congr 1
        apply cast_inj_of_lt P hy (by omega)
        rw [Nat.cast_sub hy'.le, ZMod.natCast_self, zero_sub]
        exact eq_neg_of_add_eq_zero_left h1

theorem xonly_inj_smul {Q : Pt} (hQ : Tors Q) (a b : ℤ) (ha : smul a Q ≠ .inf) (hb : smul b Q ≠ .inf)
    (h : xonly (smul a Q) = xonly (smul b Q)) : smul a Q = smul b Q ∨ smul a Q = smul (-b) Q := by
  rw [smul_neg hQ b]
  exact xonly_inj (smul_valid hQ.1 a) (smul_valid hQ.1 b) ha hb h

/-! ## even_point -/

/-- the representative with even y of `{Q, −Q}` -/
def evenRep : Pt → Pt
  | .inf => .inf
  | .aff x y => if y % 2 = 1 then .aff x (P - y) else .aff x y

/-- S256Point.even_point is the even-y representative (on points annihilated by N, where `-1 * Q = −Q`) -/
theorem evenPoint_eq_evenRep {Q : Pt} (hQ : Tors Q) : evenPoint Q = evenRep Q := by
  cases Q with
  | inf => simp [evenPoint, evenRep, parity]
  | aff x y =>
    show (if parity (.aff x y) = 1 then smul (-1) (.aff x y) else .aff x y) =
      (if y % 2 = 1 then .aff x (P - y) else .aff x y)
    by_cases h1 : y % 2 = 1
    · have h1' : parity (.aff x y) = 1 := h1
      rw [if_pos h1', if_pos h1, smul_neg_one hQ, pneg_aff hQ.1.2.1 (valid_y_ne_zero hQ.1)]
    · have h1' : ¬ parity (.aff x y) = 1 := h1
      rw [if_neg h1', if_neg h1]

theorem evenRep_eq_ite {Q : Pt} (hQ : Valid P A B Q) :
    evenRep Q = if parity Q = 1 then pneg P Q else Q := by
  cases Q with
  | inf => simp [evenRep, parity]
  | aff x y =>
    show (if y % 2 = 1 then .aff x (P - y) else .aff x y) =
      (if parity (.aff x y) = 1 then pneg P (.aff x y) else .aff x y)
    by_cases h1 : y % 2 = 1
    · have h1' : parity (.aff x y) = 1 := h1
      rw [if_pos h1', if_pos h1, pneg_aff hQ.2.1 (valid_y_ne_zero hQ)]
    · have h1' : ¬ parity (.aff x y) = 1 := h1
      rw [if_neg h1', if_neg h1]

theorem evenRep_valid {Q : Pt} (hQ : Valid P A B Q) : Valid P A B (evenRep Q) := by
  rw [evenRep_eq_ite hQ]; split
  · exact pneg_valid curveOK_secp hQ
  · exact hQ

theorem xonly_evenRep (Q : Pt) : xonly (evenRep Q) = xonly Q := by
  cases Q with
  | inf => rfl
  | aff x y => simp only [evenRep]; split <;> rfl

theorem parity_evenRep {Q : Pt} (hQ : Valid P A B Q) : parity (evenRep Q) = 0 := by
  cases Q with
  | inf => rfl
  | aff x y =>
    have h := sub_parity hQ.2.1 (valid_y_ne_zero hQ)
    simp only [evenRep]
    split
    · next h1 => simp only [parity]; omega
    · next h1 => simp only [parity]; omega

/-! ## S256Field.sqrt (P ≡ 3 mod 4) -/

theorem fsqrt_eq (c : ℕ) : fsqrt c =
    if fmul P (fpow P c ((P + 1) / 4)) (fpow P c ((P + 1) / 4)) = c
    then some (fpow P c ((P + 1) / 4)) else none := rfl

/-- whatever `sqrt` returns is a square root -/
theorem fsqrt_some {c s : ℕ} (h : fsqrt c = some s) : s < P ∧ s * s % P = c := by
  rw [fsqrt_eq] at h
  by_cases hc : fmul P (fpow P c ((P + 1) / 4)) (fpow P c ((P + 1) / 4)) = c
  · rw [if_pos hc] at h
    injection h with h'
    subst h'
    exact ⟨fpow_lt P _ _, hc⟩
  · rw [if_neg hc] at h; cases h

/-- a non-square has no square root: `sqrt` raises -/
theorem fsqrt_none_of_nonsquare {c : ℕ} (h : ∀ y, y < P → y * y % P ≠ c) : fsqrt c = none := by
  cases hs : fsqrt c with
  | none => rfl
  | some s => exact absurd (fsqrt_some hs).2 (h s (fsqrt_some hs).1)

theorem sqrt_exp (y : ZMod P) : ((y ^ 2) ^ ((P + 1) / 4)) ^ 2 = y ^ 2 := by
  by_cases hy : y = 0
  · subst hy
    rw [zero_pow (by decide), zero_pow (by decide), zero_pow (by decide)]
  · rw [← pow_mul, ← pow_mul, show 2 * ((P + 1) / 4 * 2) = (P - 1) + 2 by decide, pow_add,
      ZMod.pow_card_sub_one_eq_one hy, one_mul]

/-- `sqrt` finds a root of every square: it returns `y` or `P − y` -/
theorem fsqrt_sq {y : ℕ} (hy : y < P) :
    ∃ s, fsqrt (y * y % P) = some s ∧ (s = y ∨ (y ≠ 0 ∧ s = P - y)) := by
  set c := y * y % P with hc
  have hcP : c < P := Nat.mod_lt _ P_pos
  have hcc : (c : ZMod P) = (y : ZMod P) ^ 2 := by rw [hc, ZMod.natCast_mod, Nat.cast_mul, sq]
  have hs : ((fpow P c ((P + 1) / 4) : ℕ) : ZMod P) = ((y : ZMod P) ^ 2) ^ ((P + 1) / 4) := by
    rw [fpow_cast P c _ (Or.inr (Or.inl (by decide))), hcc]
  set s := fpow P c ((P + 1) / 4) with hsdef
  have hsP : s < P := fpow_lt P _ _
  have hsq : (s : ZMod P) ^ 2 = (y : ZMod P) ^ 2 := by rw [hs, sqrt_exp]
  have hmul : fmul P s s = c := by
    apply cast_inj_of_lt P (fmul_lt P _ _) hcP
    rw [fmul_cast, hcc, ← sq, hsq]
  refine ⟨s, ?_, ?_⟩
  · rw [fsqrt_eq, ← hsdef, if_pos hmul]
  · have hfac : ((s : ZMod P) - y) * ((s : ZMod P) + y) = 0 := by linear_combination hsq
    rcases mul_eq_zero.mp hfac with h1 | h1
    · left; exact cast_inj_of_lt P hsP hy (sub_eq_zero.mp h1)
    · by_cases hy0 : y = 0
      · left
        subst hy0
        apply cast_inj_of_lt P hsP hy
        rw [Nat.cast_zero, add_zero] at h1
        rw [Nat.cast_zero]; exact h1
      · right
        refine ⟨hy0, ?_⟩
        apply cast_inj_of_lt P hsP (by omega)
        rw [Nat.cast_sub hy.le, ZMod.natCast_self, zero_sub]
        exact eq_neg_of_add_eq_zero_left h1

/-- the right-hand side `x³ + 7` computed by the parsers -/
theorem rhs_eq (x : ℕ) : fadd P (fpow P x 3) B = (x ^ 3 + 7) % P := by
  apply cast_inj_of_lt P (fadd_lt P _ _) (Nat.mod_lt _ P_pos)
  rw [fadd_cast, fpow_three_cast P curveOK_secp.gt3, cast_B, ZMod.natCast_mod]
  push_cast; rfl

theorem rhs_eq_of_valid {x y : ℕ} (h : Valid P A B (.aff x y)) :
    fadd P (fpow P x 3) B = y * y % P := by
  rw [rhs_eq, ← (valid_aff_iff_mod.mp h).2.2, sq]

/-! ## the constructor and the parsers -/

theorem mkPoint_of_valid {x y : ℕ} (h : Valid P A B (.aff x y)) : mkPoint x y = some (.aff x y) := by
  unfold mkPoint
  rw [if_pos]
  exact h

theorem mkPoint_some {x y : ℕ} {Q : Pt} (h : mkPoint x y = some Q) :
    Q = .aff x y ∧ Valid P A B Q := by
  unfold mkPoint at h
  by_cases hc : x < P ∧ y < P ∧ onCurve P A B (.aff x y) = true
  · rw [if_pos hc] at h
    injection h with h'
    subst h'
    exact ⟨rfl, hc⟩
  · rw [if_neg hc] at h; cases h

theorem mkPoint_none {x y : ℕ} (h : ¬ Valid P A B (.aff x y)) : mkPoint x y = none := by
  unfold mkPoint
  rw [if_neg]
  exact h

-- keep `whnf` from unrolling the 256 squarings of the square root when it compares `match`es
attribute [local irreducible] fsqrt fpow

theorem parseXonly_eq (b : Bytes) : parseXonly b =
    if beToNat b = 0 then some .inf else
    if ¬ beToNat b < P then none else
    match fsqrt (fadd P (fpow P (beToNat b) 3) B) with
    | none => none
    | some beta =>
      if beta % 2 = 1 then mkPoint (beToNat b) (P - beta) else mkPoint (beToNat b) beta := by
  unfold parseXonly; rfl

theorem neg_valid_aff {x y : ℕ} (h : Valid P A B (.aff x y)) : Valid P A B (.aff x (P - y)) := by
  have := pneg_valid curveOK_secp h
  rwa [pneg_aff h.2.1 (valid_y_ne_zero h)] at this

/-- **x-only round trip**: `parse_xonly(xonly(Q))` is the even-y representative of `±Q` -/
theorem parseXonly_xonly {Q : Pt} (hQ : Valid P A B Q) (h0 : Q ≠ .inf) :
    parseXonly (xonly Q) = some (evenRep Q) := by
  cases Q with
  | inf => exact absurd rfl h0
  | aff x y =>
    have hx := hQ.1
    have hy := hQ.2.1
    have hx0 := valid_x_ne_zero hQ
    have hy0 := valid_y_ne_zero hQ
    have hbe : beToNat (xonly (.aff x y)) = x := beToNat_natToBE' (lt_trans hx P_lt_2_256)
    obtain ⟨s, hs, hcase⟩ := fsqrt_sq hy
    have hpar := sub_parity hy hy0
    rw [parseXonly_eq, hbe, if_neg hx0, if_neg (not_not.mpr hx), rhs_eq_of_valid hQ, hs]
    show (if s % 2 = 1 then mkPoint x (P - s) else mkPoint x s) =
      some (if y % 2 = 1 then .aff x (P - y) else .aff x y)
    rcases hcase with rfl | ⟨_, rfl⟩
    · by_cases h1 : s % 2 = 1
      · rw [if_pos h1, if_pos h1, mkPoint_of_valid (neg_valid_aff hQ)]
      · rw [if_neg h1, if_neg h1, mkPoint_of_valid hQ]
    · by_cases h1 : y % 2 = 1
      · have h2 : ¬ (P - y) % 2 = 1 := by omega
        rw [if_neg h2, if_pos h1, mkPoint_of_valid (neg_valid_aff hQ)]
      · have h2 : (P - y) % 2 = 1 := by omega
        rw [if_pos h2, if_neg h1, Nat.sub_sub_self hy.le, mkPoint_of_valid hQ]

theorem parseXonly_zero (b : Bytes) (h : beToNat b = 0) : parseXonly b = some .inf := by
  rw [parseXonly_eq, if_pos h]

/-- everything `parse_xonly` accepts is a curve point -/
theorem parseXonly_valid {b : Bytes} {Q : Pt} (h : parseXonly b = some Q) : Valid P A B Q := by
  rw [parseXonly_eq] at h
  by_cases h0 : beToNat b = 0
  · rw [if_pos h0] at h; injection h with h; subst h; exact valid_inf
  · rw [if_neg h0] at h
    by_cases hx : ¬ beToNat b < P
    · rw [if_pos hx] at h; cases h
    · rw [if_neg hx] at h
      cases hs : fsqrt (fadd P (fpow P (beToNat b) 3) B) with
      | none => rw [hs] at h; cases h
      | some beta =>
        rw [hs] at h
        by_cases h1 : beta % 2 = 1
        · simp only [if_pos h1] at h; exact (mkPoint_some h).2
        · simp only [if_neg h1] at h; exact (mkPoint_some h).2

/-- the result of `parse_xonly` has the x of the input and an even y -/
theorem parseXonly_spec {b : Bytes} {x y : ℕ} (h : parseXonly b = some (.aff x y)) :
    x = beToNat b ∧ y % 2 = 0 := by
  rw [parseXonly_eq] at h
  by_cases h0 : beToNat b = 0
  · rw [if_pos h0] at h; cases h
  · rw [if_neg h0] at h
    by_cases hx : ¬ beToNat b < P
    · rw [if_pos hx] at h; cases h
    · rw [if_neg hx] at h
      cases hs : fsqrt (fadd P (fpow P (beToNat b) 3) B) with
      | none => rw [hs] at h; cases h
      | some beta =>
        rw [hs] at h
        have hb := (fsqrt_some hs).1
        have hodd := P_odd
        by_cases h1 : beta % 2 = 1
        · simp only [if_pos h1] at h
          have := (mkPoint_some h).1
          injection this with e1 e2
          refine ⟨e1, ?_⟩
          rw [e2]; generalize P = p at *; omega
        · simp only [if_neg h1] at h
          have := (mkPoint_some h).1
          injection this with e1 e2
          refine ⟨e1, ?_⟩
          rw [e2]; omega

/-! ## SEC encodings -/

theorem parseSec_cons (pre : UInt8) (rest : Bytes) : parseSec (pre :: rest) =
    if pre = 4 then
      if (pre :: rest).length ≠ 65 then none
      else mkPoint (beToNat (rest.take 32)) (beToNat ((rest.drop 32).take 32))
    else if (pre ≠ 2 ∧ pre ≠ 3) ∨ (pre :: rest).length ≠ 33 then none
    else
      if ¬ beToNat rest < P then none else
      match fsqrt (fadd P (fpow P (beToNat rest) 3) B) with
      | none => none
      | some beta =>
        if beta = 0 then none
        else mkPoint (beToNat rest)
          (if pre = 2 then (if beta % 2 = 0 then beta else P - beta)
           else (if beta % 2 = 0 then P - beta else beta)) := by
  unfold parseSec; rfl

theorem sec_compressed (x y : ℕ) :
    sec (.aff x y) true = some ((if y % 2 = 1 then 3 else 2) :: natToBE' 32 x) := rfl

theorem sec_uncompressed (x y : ℕ) :
    sec (.aff x y) false = some (4 :: natToBE' 32 x ++ natToBE' 32 y) := rfl

theorem sec_length {Q : Pt} {c : Bool} {s : Bytes} (h : sec Q c = some s) :
    s.length = if c then 33 else 65 := by
  cases Q with
  | inf => cases h
  | aff x y =>
    cases c
    · rw [sec_uncompressed] at h; injection h with h; subst h; simp
    · rw [sec_compressed] at h; injection h with h; subst h; simp

/-- compressed SEC round trip -/
theorem parseSec_sec_compressed {x y : ℕ} (hQ : Valid P A B (.aff x y)) :
    parseSec ((if y % 2 = 1 then 3 else 2) :: natToBE' 32 x) = some (.aff x y) := by
  have hx := hQ.1
  have hy := hQ.2.1
  have hy0 := valid_y_ne_zero hQ
  have hbe : beToNat (natToBE' 32 x) = x := beToNat_natToBE' (lt_trans hx P_lt_2_256)
  obtain ⟨s, hs, hcase⟩ := fsqrt_sq hy
  have hpar := sub_parity hy hy0
  have hs0 : s ≠ 0 := by rcases hcase with rfl | ⟨_, rfl⟩ <;> omega
  rw [parseSec_cons, hbe, rhs_eq_of_valid hQ, hs]
  by_cases h1 : y % 2 = 1
  · rw [if_pos h1, if_neg (by decide), if_neg (by simp), if_neg (not_not.mpr hx)]
    show (if s = 0 then none else mkPoint x (if (3 : UInt8) = 2 then _ else _)) = _
    rw [if_neg hs0, if_neg (by decide)]
    rcases hcase with rfl | ⟨_, rfl⟩
    · rw [if_neg (by omega), mkPoint_of_valid hQ]
    · rw [if_pos (by omega), Nat.sub_sub_self hy.le, mkPoint_of_valid hQ]
  · rw [if_neg h1, if_neg (by decide), if_neg (by simp), if_neg (not_not.mpr hx)]
    show (if s = 0 then none else mkPoint x (if (2 : UInt8) = 2 then _ else _)) = _
    rw [if_neg hs0, if_pos rfl]
    rcases hcase with rfl | ⟨_, rfl⟩
    · rw [if_pos (by omega), mkPoint_of_valid hQ]
    · rw [if_neg (by omega), Nat.sub_sub_self hy.le, mkPoint_of_valid hQ]

/-- uncompressed SEC round trip -/
theorem parseSec_sec_uncompressed {x y : ℕ} (hQ : Valid P A B (.aff x y)) :
    parseSec (4 :: natToBE' 32 x ++ natToBE' 32 y) = some (.aff x y) := by
  have hx := hQ.1
  have hy := hQ.2.1
  show parseSec (4 :: (natToBE' 32 x ++ natToBE' 32 y)) = _
  rw [parseSec_cons, if_pos rfl, if_neg (by simp),
    take_append_len _ _ 32 (natToBE'_length 32 x), drop_append_len _ _ 32 (natToBE'_length 32 x),
    List.take_of_length_le (by simp), beToNat_natToBE' (lt_trans hx P_lt_2_256),
    beToNat_natToBE' (lt_trans hy P_lt_2_256), mkPoint_of_valid hQ]

/-- **SEC round trip** for every curve point and both formats -/
theorem parseSec_sec {Q : Pt} (hQ : Valid P A B Q) (c : Bool) {s : Bytes} (h : sec Q c = some s) :
    parseSec s = some Q := by
  cases Q with
  | inf => cases h
  | aff x y =>
    cases c
    · rw [sec_uncompressed] at h; injection h with h; subst h; exact parseSec_sec_uncompressed hQ
    · rw [sec_compressed] at h; injection h with h; subst h; exact parseSec_sec_compressed hQ

/-- S256Point.parse dispatches on the length -/
theorem parsePoint_sec {Q : Pt} (hQ : Valid P A B Q) (c : Bool) {s : Bytes} (h : sec Q c = some s) :
    parsePoint s = some Q := by
  have hl := sec_length h
  unfold parsePoint
  cases c
  · simp only [Bool.false_eq_true, if_false] at hl
    rw [if_neg (by omega), if_pos (by omega)]; exact parseSec_sec hQ false h
  · simp only [if_true] at hl
    rw [if_neg (by omega), if_pos (by omega)]; exact parseSec_sec hQ true h

theorem xonly_length (Q : Pt) : (xonly Q).length = 32 := by cases Q <;> simp [xonly]

theorem parsePoint_xonly {Q : Pt} (hQ : Valid P A B Q) (h0 : Q ≠ .inf) :
    parsePoint (xonly Q) = some (evenRep Q) := by
  unfold parsePoint
  rw [if_pos (xonly_length Q)]; exact parseXonly_xonly hQ h0

/-- everything `parse_sec` accepts is a curve point -/
theorem parseSec_valid {b : Bytes} {Q : Pt} (h : parseSec b = some Q) : Valid P A B Q := by
  cases b with
  | nil => cases h
  | cons pre rest =>
    rw [parseSec_cons] at h
    by_cases h4 : pre = 4
    · rw [if_pos h4] at h
      by_cases hl : (pre :: rest).length ≠ 65
      · rw [if_pos hl] at h; cases h
      · rw [if_neg hl] at h; exact (mkPoint_some h).2
    · rw [if_neg h4] at h
      by_cases hg : (pre ≠ 2 ∧ pre ≠ 3) ∨ (pre :: rest).length ≠ 33
      · rw [if_pos hg] at h; cases h
      · rw [if_neg hg] at h
        by_cases hx : ¬ beToNat rest < P
        · rw [if_pos hx] at h; cases h
        · rw [if_neg hx] at h
          cases hs : fsqrt (fadd P (fpow P (beToNat rest) 3) B) with
          | none => rw [hs] at h; cases h
          | some beta =>
            rw [hs] at h
            by_cases hb : beta = 0
            · simp only [if_pos hb] at h; cases h
            · simp only [if_neg hb] at h; exact (mkPoint_some h).2

theorem parsePoint_valid {b : Bytes} {Q : Pt} (h : parsePoint b = some Q) : Valid P A B Q := by
  unfold parsePoint at h
  by_cases h32 : b.length = 32
  · rw [if_pos h32] at h; exact parseXonly_valid h
  · rw [if_neg h32] at h
    by_cases hl : b.length = 33 ∨ b.length = 65
    · rw [if_pos hl] at h; exact parseSec_valid h
    · rw [if_neg hl] at h; cases h

/-! ### rejection -/

theorem parseSec_nil : parseSec [] = none := rfl

/-- prefix discipline: a first byte other than 02, 03, 04 is refused (F03a) -/
theorem parseSec_bad_prefix (pre : UInt8) (rest : Bytes) (h2 : pre ≠ 2) (h3 : pre ≠ 3) (h4 : pre ≠ 4) :
    parseSec (pre :: rest) = none := by
  rw [parseSec_cons, if_neg h4, if_pos (Or.inl ⟨h2, h3⟩)]

/-- length discipline: prefix 04 needs 65 bytes, prefixes 02/03 need 33 bytes (F03a) -/
theorem parseSec_bad_length (pre : UInt8) (rest : Bytes)
    (h : (pre = 4 ∧ rest.length ≠ 64) ∨ (pre ≠ 4 ∧ rest.length ≠ 32)) :
    parseSec (pre :: rest) = none := by
  rw [parseSec_cons]
  rcases h with ⟨h4, hl⟩ | ⟨h4, hl⟩
  · rw [if_pos h4, if_pos (by simp; omega)]
  · rw [if_neg h4, if_pos (Or.inr (by simp; omega))]

/-- a compressed key whose x is not a field element is refused -/
theorem parseSec_x_ge_p (pre : UInt8) (rest : Bytes) (h4 : pre ≠ 4) (hx : P ≤ beToNat rest) :
    parseSec (pre :: rest) = none := by
  rw [parseSec_cons, if_neg h4]
  by_cases hg : (pre ≠ 2 ∧ pre ≠ 3) ∨ (pre :: rest).length ≠ 33
  · rw [if_pos hg]
  · rw [if_neg hg, if_pos (by omega)]

/-- a compressed key whose `x³ + 7` is not a square is refused -/
theorem parseSec_nonresidue (pre : UInt8) (rest : Bytes) (h4 : pre ≠ 4)
    (hn : ∀ y, y < P → y * y % P ≠ (beToNat rest ^ 3 + 7) % P) :
    parseSec (pre :: rest) = none := by
  rw [parseSec_cons, if_neg h4]
  by_cases hg : (pre ≠ 2 ∧ pre ≠ 3) ∨ (pre :: rest).length ≠ 33
  · rw [if_pos hg]
  · rw [if_neg hg]
    by_cases hx : ¬ beToNat rest < P
    · rw [if_pos hx]
    · rw [if_neg hx, rhs_eq, fsqrt_none_of_nonsquare hn]

theorem parseXonly_x_ge_p (b : Bytes) (hx : P ≤ beToNat b) : parseXonly b = none := by
  have hP := P_pos
  rw [parseXonly_eq, if_neg (by omega), if_pos (by omega)]

theorem parseXonly_nonresidue (b : Bytes) (h0 : beToNat b ≠ 0)
    (hn : ∀ y, y < P → y * y % P ≠ (beToNat b ^ 3 + 7) % P) : parseXonly b = none := by
  rw [parseXonly_eq, if_neg h0]
  by_cases hx : ¬ beToNat b < P
  · rw [if_pos hx]
  · rw [if_neg hx, rhs_eq, fsqrt_none_of_nonsquare hn]

theorem parsePoint_bad_length (b : Bytes) (h : b.length ≠ 32 ∧ b.length ≠ 33 ∧ b.length ≠ 65) :
    parsePoint b = none := by
  unfold parsePoint
  rw [if_neg h.1, if_neg (by omega)]

/-! ### x-only round trip with the code's `even_point` (points annihilated by N, e.g. `kG`) -/

theorem parseXonly_xonly_tors {Q : Pt} (hQ : Tors Q) (h0 : Q ≠ .inf) :
    parseXonly (xonly Q) = some (evenPoint Q) := by
  rw [evenPoint_eq_evenRep hQ]; exact parseXonly_xonly hQ.1 h0

/-- BIP340 `lift_x`: `parse_xonly(xonly(aG)) = even_point(aG)` -/
theorem parseXonly_xonly_smul_G (a : ℤ) (h0 : smul a G ≠ .inf) :
    parseXonly (xonly (smul a G)) = some (evenPoint (smul a G)) :=
  parseXonly_xonly_tors (smul_tors G_tors a) h0

theorem evenPoint_tors {Q : Pt} (hQ : Tors Q) : Tors (evenPoint Q) := by
  unfold evenPoint; split
  · exact smul_tors hQ _
  · exact hQ

theorem parity_evenPoint {Q : Pt} (hQ : Tors Q) : parity (evenPoint Q) = 0 := by
  rw [evenPoint_eq_evenRep hQ]; exact parity_evenRep hQ.1

theorem xonly_evenPoint {Q : Pt} (hQ : Tors Q) : xonly (evenPoint Q) = xonly Q := by
  rw [evenPoint_eq_evenRep hQ]; exact xonly_evenRep Q

/-! ### Euler's criterion as a computable test, and canonicity of accepted encodings -/

/-- if `c^((P-1)/2) = -1` (a kernel-checkable computation) then `c` is not a square -/
theorem nonsquare_of_euler {c : ℕ} (h : powmod c ((P - 1) / 2) P = P - 1) :
    ∀ y, y < P → y * y % P ≠ c % P := by
  intro y hy he
  have hc : (c : ZMod P) = (y : ZMod P) ^ 2 := by
    have := congrArg (Nat.cast (R := ZMod P)) he
    rw [ZMod.natCast_mod, ZMod.natCast_mod, Nat.cast_mul] at this
    rw [← this, sq]
  have hne : powmod c ((P - 1) / 2) P ≠ 1 := by rw [h]; decide
  have hpow := cast_pow_ne_one_of_powmod hne
  by_cases hy0 : (y : ZMod P) = 0
  · have h0 : ((powmod c ((P - 1) / 2) P : ℕ) : ZMod P) = 0 := by
      rw [powmod_cast, hc, hy0, zero_pow (by decide), zero_pow (by decide)]
    rw [h, Nat.cast_sub (by decide), ZMod.natCast_self, zero_sub] at h0
    have h1 : (1 : ZMod P) = 0 := by simpa using h0
    exact one_ne_zero h1
  · apply hpow
    rw [hc, ← pow_mul, show 2 * ((P - 1) / 2) = P - 1 by decide]
    exact ZMod.pow_card_sub_one_eq_one hy0

/-- every string `parse_sec` accepts is exactly the SEC encoding of the point it returns -/
theorem sec_of_parseSec {b : Bytes} {Q : Pt} (h : parseSec b = some Q) :
    ∃ c, sec Q c = some b := by
  cases b with
  | nil => cases h
  | cons pre rest =>
    rw [parseSec_cons] at h
    by_cases h4 : pre = 4
    · rw [if_pos h4] at h
      by_cases hl : (pre :: rest).length ≠ 65
      · rw [if_pos hl] at h; cases h
      · rw [if_neg hl] at h
        have hlen : rest.length = 64 := by simp at hl; omega
        obtain ⟨rfl, -⟩ := mkPoint_some h
        refine ⟨false, ?_⟩
        rw [sec_uncompressed, h4]
        have h1 : natToBE' 32 (beToNat (rest.take 32)) = rest.take 32 := by
          have := natToBE'_beToNat (rest.take 32)
          rwa [List.length_take, hlen] at this
        have h2 : natToBE' 32 (beToNat ((rest.drop 32).take 32)) = rest.drop 32 := by
          have hd : (rest.drop 32).take 32 = rest.drop 32 :=
            List.take_of_length_le (by rw [List.length_drop, hlen])
          rw [hd]
          have := natToBE'_beToNat (rest.drop 32)
          rwa [List.length_drop, hlen] at this
        rw [h1, h2]
        show some (4 :: (rest.take 32 ++ rest.drop 32)) = _
        rw [List.take_append_drop]
    · rw [if_neg h4] at h
      by_cases hg : (pre ≠ 2 ∧ pre ≠ 3) ∨ (pre :: rest).length ≠ 33
      · rw [if_pos hg] at h; cases h
      · rw [if_neg hg] at h
        have hlen : rest.length = 32 := by
          have : ¬ (pre :: rest).length ≠ 33 := fun hh => hg (Or.inr hh)
          simp at this; omega
        have hpre : pre = 2 ∨ pre = 3 := by
          by_contra hcon
          exact hg (Or.inl ⟨fun h2 => hcon (Or.inl h2), fun h3 => hcon (Or.inr h3)⟩)
        by_cases hx : ¬ beToNat rest < P
        · rw [if_pos hx] at h; cases h
        · rw [if_neg hx] at h
          cases hs : fsqrt (fadd P (fpow P (beToNat rest) 3) B) with
          | none => rw [hs] at h; cases h
          | some beta =>
            rw [hs] at h
            have hbP := (fsqrt_some hs).1
            by_cases hb : beta = 0
            · simp only [if_pos hb] at h; cases h
            · simp only [if_neg hb] at h
              obtain ⟨rfl, -⟩ := mkPoint_some h
              refine ⟨true, ?_⟩
              rw [sec_compressed]
              have h1 : natToBE' 32 (beToNat rest) = rest := by
                have := natToBE'_beToNat rest
                rwa [hlen] at this
              rw [h1]
              have hodd := P_odd
              congr 2
              rcases hpre with rfl | rfl
              · rw [if_pos rfl]
                by_cases hb2 : beta % 2 = 0
                · rw [if_pos hb2, if_neg (by omega)]
                · rw [if_neg hb2, if_neg (by generalize P = p at *; omega)]
              · have h32 : ¬ ((3 : UInt8) = 2) := by decide
                rw [if_neg h32]
                by_cases hb2 : beta % 2 = 0
                · rw [if_pos hb2, if_pos (by generalize P = p at *; omega)]
                · rw [if_neg hb2, if_pos (by omega)]

end Buidl.EC
