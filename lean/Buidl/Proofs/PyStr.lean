/-
  Buidl.Proofs.PyStr — lemmas about the Python-string model (Buidl.Model.PyStr): split / join, strip,
  `int(str(n)) = n`, replace.  Mathlib-free.
-/
import Buidl.Model.PyStr
namespace Buidl.PyStr

/-! ## split / join -/

theorem split_ne_nil' (sep : Char) (s : Str) : split sep s ≠ [] := by
  cases s with
  | nil => simp [split]
  | cons x xs =>
    simp only [split]
    split
    · simp
    · split <;> simp

theorem split_no_sep (sep : Char) (s : Str) (h : sep ∉ s) : split sep s = [s] := by
  induction s with
  | nil => rfl
  | cons x xs ih =>
    have hx : x ≠ sep := fun e => h (by simp [e])
    have hxs : sep ∉ xs := fun e => h (by simp [e])
    simp [split, hx, ih hxs]

theorem split_append' (sep : Char) (a b : Str) : split sep (a ++ sep :: b) = split sep a ++ split sep b := by
  induction a with
  | nil => simp [split]
  | cons x a ih =>
    simp only [List.cons_append, split]
    by_cases hx : x = sep
    · simp [hx, ih]
    · simp only [hx, if_false, ih]
      cases hs : split sep a with
      | nil => exact absurd hs (split_ne_nil' sep a)
      | cons p ps => simp

theorem join_cons_cons (sep : Char) (p q : Str) (ps : List Str) :
    join sep (p :: q :: ps) = p ++ sep :: join sep (q :: ps) := by
  rw [join]; intro h; cases h

/-- `sep.join(parts).split(sep) = parts` when no part contains the separator (and there is at least one part) -/
theorem split_join (sep : Char) : ∀ (parts : List Str), parts ≠ [] → (∀ p ∈ parts, sep ∉ p) →
    split sep (join sep parts) = parts
  | [], h, _ => absurd rfl h
  | [p], _, hp => by simpa [join] using split_no_sep sep p (hp p (by simp))
  | p :: q :: ps, _, hp => by
    rw [join_cons_cons, split_append', split_no_sep sep p (hp p (by simp)),
      split_join sep (q :: ps) (by simp) (fun x hx => hp x (by simp [hx]))]
    rfl

/-- `sep.join(s.split(sep)) = s` -/
theorem join_split (sep : Char) (s : Str) : join sep (split sep s) = s := by
  induction s with
  | nil => rfl
  | cons x xs ih =>
    simp only [split]
    by_cases hx : x = sep
    · simp only [hx, if_true]
      cases hs : split sep xs with
      | nil => exact absurd hs (split_ne_nil' sep xs)
      | cons p ps => rw [join_cons_cons, ← hs, ih]; simp
    · simp only [hx, if_false]
      cases hs : split sep xs with
      | nil => exact absurd hs (split_ne_nil' sep xs)
      | cons p ps =>
        rw [hs] at ih
        cases ps with
        | nil => simp [join] at ih ⊢; exact ih
        | cons q qs => rw [join_cons_cons] at ih ⊢; simp at ih ⊢; exact ih

theorem mem_join (sep : Char) : ∀ (parts : List Str) (c : Char), c ∈ join sep parts → c = sep ∨ ∃ p ∈ parts, c ∈ p
  | [], c, h => by simp [join] at h
  | [p], c, h => Or.inr ⟨p, by simp, by simpa [join] using h⟩
  | p :: q :: ps, c, h => by
    rw [join_cons_cons] at h
    simp only [List.mem_append, List.mem_cons] at h
    rcases h with h | rfl | h
    · exact Or.inr ⟨p, by simp, h⟩
    · exact Or.inl rfl
    · rcases mem_join sep (q :: ps) c h with h | ⟨x, hx, hc⟩
      · exact Or.inl h
      · exact Or.inr ⟨x, by simp at hx ⊢; exact Or.inr hx, hc⟩

/-! ## decimal integers -/

theorem intDigits_digits : ∀ (l : Str), (∀ c ∈ l, c.isDigit = true) → ∀ (acc : Nat) (prev : Bool), (l ≠ [] ∨ prev = true) →
    intDigits l acc prev = some (Nat.ofDigitChars 10 l acc)
  | [], _, acc, prev, h => by
    rcases h with h | h
    · exact absurd rfl h
    · simp [intDigits, h]
  | c :: r, hl, acc, prev, _ => by
    have hc : c.isDigit = true := hl c (by simp)
    simp only [intDigits, hc, if_true, Nat.ofDigitChars_cons]
    rw [intDigits_digits r (fun x hx => hl x (by simp [hx])) _ true (Or.inr rfl), Nat.mul_comm]

theorem digit_not_space {c : Char} (h : c.isDigit = true) : isSpace c = false := by
  simp only [Char.isDigit, Bool.and_eq_true, decide_eq_true_eq] at h
  have h1 : 48 ≤ c.toNat := by have := h.1; simpa [Char.le_def, UInt32.le_iff_toNat_le] using this
  have h2 : c.toNat ≤ 57 := by have := h.2; simpa [Char.le_def, UInt32.le_iff_toNat_le] using this
  simp [isSpace]
  omega

theorem dropWhile_head_false {α} (p : α → Bool) (a : α) (l : List α) (h : p a = false) :
    (a :: l).dropWhile p = a :: l := by simp [List.dropWhile, h]

/-- `strip()` leaves a string that neither begins nor ends with white space unchanged -/
theorem strip_eq_self (s : Str) (h1 : ∀ c, s.head? = some c → isSpace c = false)
    (h2 : ∀ c, s.getLast? = some c → isSpace c = false) : strip s = s := by
  unfold strip
  cases s with
  | nil => rfl
  | cons a l =>
    rw [dropWhile_head_false _ a l (h1 a rfl)]
    cases hr : (a :: l).reverse with
    | nil => simp at hr
    | cons b m =>
      have hb : (a :: l).getLast? = some b := by
        rw [List.getLast?_eq_head?_reverse, hr]; rfl
      rw [dropWhile_head_false _ b m (h2 b hb), ← hr, List.reverse_reverse]

theorem natStr_digits (n : Nat) : ∀ c ∈ natStr n, c.isDigit = true :=
  fun _ hc => Nat.isDigit_of_mem_toDigits (by decide) (by decide) hc

theorem natStr_ne_nil (n : Nat) : natStr n ≠ [] := Nat.toDigits_ne_nil

theorem digit_ne_sign {c : Char} (h : c.isDigit = true) : c ≠ '-' ∧ c ≠ '+' := by
  constructor <;> (intro e; subst e; simp [Char.isDigit] at h)

theorem strip_digits (l : Str) (h : ∀ c ∈ l, c.isDigit = true) : strip l = l := by
  apply strip_eq_self
  · intro c hc
    exact digit_not_space (h c (List.mem_of_mem_head? hc))
  · intro c hc
    exact digit_not_space (h c (List.mem_of_mem_getLast? hc))

/-- `int(str(n)) = n` -/
theorem pyInt_natStr (n : Nat) : pyInt (natStr n) = some (n : Int) := by
  unfold pyInt
  rw [strip_digits _ (natStr_digits n)]
  have hd := natStr_digits n
  have hne := natStr_ne_nil n
  cases hs : natStr n with
  | nil => exact absurd hs hne
  | cons c r =>
    rw [hs] at hd
    obtain ⟨h1, h2⟩ := digit_ne_sign (hd c (by simp))
    have : intDigits (c :: r) 0 false = some n := by
      rw [intDigits_digits (c :: r) hd 0 false (Or.inl (by simp)), ← hs]
      simp [natStr]
    split
    · next heq => simp at heq; exact absurd heq.1 h1
    · next heq => simp at heq; exact absurd heq.1 h2
    · simp [this]

theorem pyInt_intStr (i : Int) : pyInt (intStr i) = some i := by
  cases i with
  | ofNat n => exact pyInt_natStr n
  | negSucc n =>
    unfold pyInt intStr
    have hd := natStr_digits (n + 1)
    have hne := natStr_ne_nil (n + 1)
    have hstrip : strip ('-' :: natStr (n + 1)) = '-' :: natStr (n + 1) := by
      apply strip_eq_self
      · intro c hc; simp at hc; subst hc; decide
      · intro c hc
        have : c ∈ natStr (n + 1) := by
          have hm := List.mem_of_mem_getLast? hc
          rcases List.mem_cons.mp hm with rfl | hm
          · cases hs : natStr (n + 1) with
            | nil => exact absurd hs hne
            | cons d r =>
              rw [hs] at hc
              simp [List.getLast?_cons_cons] at hc
              exact List.mem_of_mem_getLast? hc
          · exact hm
        exact digit_not_space (hd c this)
    rw [hstrip]
    simp only []
    rw [intDigits_digits _ hd 0 false (Or.inl hne)]
    simp [natStr, Int.negSucc_eq]

theorem unescapeSlashes_id : ∀ (s : Str), '\\' ∉ s → unescapeSlashes s = s
  | [], _ => rfl
  | c :: r, h => by
    have hc : c ≠ '\\' := fun e => h (by simp [e])
    have hr : '\\' ∉ r := fun e => h (by simp [e])
    have ih := unescapeSlashes_id r hr
    unfold unescapeSlashes
    split
    · next heq => simp at heq; exact absurd heq.1 hc
    · next heq => simp at heq; obtain ⟨rfl, rfl⟩ := heq; rw [ih]
    · next heq => simp at heq

end Buidl.PyStr
