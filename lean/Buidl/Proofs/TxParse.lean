/-
  Helper lemmas about Buidl.Model.Script / Buidl.Model.Tx on ARBITRARY byte strings (C04, malformed streams):
  the parse loop never runs out of fuel; what the parsers return; which parsed values are fixed points of
  serialise ∘ parse; everything a parser leaves unread is a suffix of its input.
-/
import Buidl.Proofs.Tx
namespace Buidl.Script
open Buidl

/-- the parse loop never runs out of fuel: any two fuels above the number of remaining bytes give the same result -/
theorem parseLoop_fuel (f1 : Nat) : ∀ (f2 : Nat) (s : Bytes) (acc : List Cmd), s.length < f1 → s.length < f2 →
    parseLoop f1 s acc = parseLoop f2 s acc := by
  induction f1 with
  | zero => intro f2 s acc h; omega
  | succ f1 ih =>
    intro f2 s acc h1 h2
    cases f2 with
    | zero => omega
    | succ f2 =>
      cases s with
      | nil => rfl
      | cons c r =>
        have hl : r.length < f1 := by simpa using h1
        have hl2 : r.length < f2 := by simpa using h2
        have key : ∀ (s' : Bytes) acc', s'.length ≤ r.length → parseLoop f1 s' acc' = parseLoop f2 s' acc' :=
          fun s' acc' hs => ih f2 _ _ (by omega) (by omega)
        simp only [parseLoop]
        repeat' split
        all_goals first | rfl | exact key _ _ (by first | exact Nat.le_refl _ | (simp only [List.length_drop]; omega))

/-- an opcode command as the parser produces it: never one of the push opcodes 1..78 -/
def OpOK : Cmd → Prop
  | .op n => (n = 0 ∨ 79 ≤ n) ∧ n ≤ 255
  | .push _ => True

theorem parseLoop_ops (f : Nat) : ∀ (s : Bytes) (acc : List Cmd), (∀ c ∈ acc, OpOK c) →
    ∀ c ∈ (parseLoop f s acc).1, OpOK c := by
  induction f with
  | zero => intro s acc h c hc; simp only [parseLoop, List.mem_reverse] at hc; exact h c hc
  | succ f ih =>
    intro s acc h
    cases s with
    | nil => intro c hc; simp only [parseLoop, List.mem_reverse] at hc; exact h c hc
    | cons b r =>
      have hp : ∀ d, ∀ c ∈ (Cmd.push d :: acc), OpOK c := by
        intro d c hc
        rcases List.mem_cons.mp hc with rfl | hc
        · trivial
        · exact h c hc
      have hfin : ∀ d, ∀ c ∈ (Cmd.push d :: acc).reverse, OpOK c := fun d c hc => hp d c (List.mem_reverse.mp hc)
      simp only [parseLoop, parseCmp0, parseCmp1, parseCmp2, parseCmp3, parseCmp4]
      split
      · split
        · exact hfin _
        · exact ih _ _ (hp _)
      · next h0 =>
        split
        · split
          · exact hfin _
          · exact ih _ _ (hp _)
        · next h1 =>
          split
          · split
            · exact hfin _
            · exact ih _ _ (hp _)
          · next h2 =>
            split
            · split
              · exact hfin _
              · exact ih _ _ (hp _)
            · next h3 =>
              apply ih
              intro c hc
              rcases List.mem_cons.mp hc with rfl | hc
              · have := b.toNat_lt
                simp only [Bool.and_eq_true, decide_eq_true_eq, not_and, beq_iff_eq] at h0 h1 h2 h3
                refine ⟨?_, by omega⟩
                by_cases hz : b.toNat ≥ 1
                · have := h0 hz; right; omega
                · left; omega
              · exact h c hc
end Buidl.Script

namespace Buidl.Tx
open Buidl Buidl.Script

/-- a data element the serialiser can write back and the parser reads back as itself -/
def PushOK : Cmd → Prop
  | .push d => d ≠ [] ∧ d.length ≤ 520
  | .op _ => True

instance : DecidablePred PushOK := fun c => by cases c <;> unfold PushOK <;> infer_instance

/-- a parsed script that survives serialise → parse unchanged: it carries `raw` (a push ran past the end:
    the bytes are kept verbatim), or none of its data elements is empty (read back as OP_0, N04c) or
    longer than 520 bytes (refused by the serialiser) -/
def Reencodable (s : Script) : Prop :=
  s.raw ≠ none ∨ ((∀ c ∈ s.cmds, PushOK c) ∧ cmdsSize s.cmds < 2 ^ 63)

instance (s : Script) : Decidable (Reencodable s) := by unfold Reencodable; infer_instance

/-- serialise, then parse (followed by anything): the same script -/
def ScriptFix (s : Script) : Prop :=
  ∃ e, Script.serialize s = some e ∧ ∀ rest, Script.parse (e ++ rest) = some (s, rest)

/-- what `Script.parse` returns: the parse of some byte string shorter than 2^63 -/
def ParsedScript (s : Script) : Prop := ∃ raw : Bytes, raw.length < 2 ^ 63 ∧ s = parseRaw raw

theorem parseRaw_raw (raw : Bytes) : (parseRaw raw).raw = none ∨ ((parseRaw raw).raw = some raw ∧ raw ≠ []) := by
  unfold parseRaw
  cases raw with
  | nil => left; rfl
  | cons a l =>
    rcases parseLoop ((a :: l).length + 1) (a :: l) [] with ⟨cmds, ok⟩
    cases ok
    · right; exact ⟨rfl, by simp⟩
    · left; rfl

theorem parseRaw_ops (raw : Bytes) : ∀ c ∈ (parseRaw raw).cmds, OpOK c := by
  unfold parseRaw
  exact parseLoop_ops _ _ _ (by intro c hc; cases hc)

theorem canon_eq_self {cs : List Cmd} (h : ∀ c ∈ cs, PushOK c) : canon cs = cs := by
  unfold canon
  conv => rhs; rw [← List.map_id cs]
  apply List.map_congr_left
  intro c hc
  cases c with
  | op n => rfl
  | push d =>
    have := h _ hc
    cases d with
    | nil => exact absurd rfl this.1
    | cons _ _ => rfl

theorem script_parse_encode (r e rest : Bytes) (hl : r.length < 2 ^ 63) (he : encodeVarstr r = some e) :
    Script.parse (e ++ rest) = some (parseRaw r, rest) := by
  simp [Script.parse, readVarstr_encodeVarstr r rest e hl he]

theorem encodeVarstr_isSome {r : Bytes} (hl : r.length < 2 ^ 64) : ∃ e, encodeVarstr r = some e := by
  obtain ⟨v, hv⟩ := encodeVarint_some hl
  exact ⟨v ++ r, by simp [encodeVarstr, hv]⟩

/-- every script the parser returns is a fixed point of serialise ∘ parse, provided it is `Reencodable` -/
theorem parsedScript_fix {s : Script} (hp : ParsedScript s) (hr : Reencodable s) : ScriptFix s := by
  obtain ⟨raw, hl, rfl⟩ := hp
  rcases parseRaw_raw raw with hnone | ⟨hsome, hne⟩
  · rcases hr with h | ⟨hpush, hsize⟩
    · exact absurd hnone h
    · have wf : ScriptWF (parseRaw raw) := by
        refine ⟨hnone, ?_, hsize⟩
        intro c hc
        have ho := parseRaw_ops raw c hc
        have hpk := hpush c hc
        cases c with
        | op n => unfold OpOK at ho; unfold CmdWF; omega
        | push d => exact hpk.2
      obtain ⟨_, e, _, _, h3, _⟩ := serialize_wf wf
      refine ⟨e, h3, fun rest => ?_⟩
      rw [script_parse_serialize rest wf h3]
      congr 2
      show ({ cmds := canon (parseRaw raw).cmds, raw := none } : Script) = parseRaw raw
      rw [canon_eq_self hpush, ← hnone]
  · obtain ⟨e, he⟩ := encodeVarstr_isSome (by omega : raw.length < 2 ^ 64)
    refine ⟨e, ?_, fun rest => script_parse_encode raw e rest hl he⟩
    simp [Script.serialize, rawSerialize, hsome, hne, he]

end Buidl.Tx

namespace Buidl.Tx
open Buidl Buidl.Script

/-! ### fixed points of serialise ∘ parse, component by component -/

/-- the five templates `ScriptPubKey.parse` rebuilds -/
def isTemplate (s : Script) : Bool := isP2pkh s || isP2sh s || isP2wpkh s || isP2wsh s || isP2tr s

theorem template_shape {s : Script} (ht : isTemplate s = true) :
    ∃ h : Bytes, (h.length = 20 ∨ h.length = 32) ∧
      (s.cmds = [.op 0x76, .op 0xA9, .push h, .op 0x88, .op 0xAC] ∨ s.cmds = [.op 0xA9, .push h, .op 0x87] ∨
       s.cmds = [.op 0, .push h] ∨ s.cmds = [.op 0x51, .push h]) := by
  simp only [isTemplate, Bool.or_eq_true] at ht
  rcases ht with (((h | h) | h) | h) | h
  · unfold isP2pkh at h; split at h
    · next x heq => exact ⟨x, Or.inl (by simpa using h), Or.inl heq⟩
    · cases h
  · unfold isP2sh at h; split at h
    · next x heq => exact ⟨x, Or.inl (by simpa using h), Or.inr (Or.inl heq)⟩
    · cases h
  · unfold isP2wpkh at h; split at h
    · next x heq => exact ⟨x, Or.inl (by simpa using h), Or.inr (Or.inr (Or.inl heq))⟩
    · cases h
  · unfold isP2wsh at h; split at h
    · next x heq => exact ⟨x, Or.inr (by simpa using h), Or.inr (Or.inr (Or.inl heq))⟩
    · cases h
  · unfold isP2tr at h; split at h
    · next x heq => exact ⟨x, Or.inr (by simpa using h), Or.inr (Or.inr (Or.inr heq))⟩
    · cases h

theorem template_wf {s : Script} (ht : isTemplate s = true) (hraw : s.raw = none) :
    ScriptWF s ∧ canonScript s = s := by
  obtain ⟨h, hl, hshape⟩ := template_shape ht
  obtain ⟨cmds, raw⟩ := s
  simp only at hraw hshape; subst hraw
  have hne : h ≠ [] := by intro e; subst e; simp at hl
  have hle : h.length ≤ 520 := by omega
  have hcanon : canonCmd (.push h) = .push h := canonCmd_push_ne hne
  rcases hshape with rfl | rfl | rfl | rfl
  all_goals
    refine ⟨⟨rfl, ?_, ?_⟩, ?_⟩
    · simp [CmdWF, hle]
    · simp only [cmdsSize, cmdSize]; split <;> omega
    · simp only [canonScript, canon, List.map_cons, List.map_nil, hcanon]; rfl


/-- serialise, then `ScriptPubKey.parse`: the same script -/
def SpkFix (s : Script) : Prop :=
  ∃ e, Script.serialize s = some e ∧ ∀ rest, parseScriptPubKey (e ++ rest) = some (s, rest)

/-- what `ScriptPubKey.parse` returns: a rebuilt template, or the parse of some bytes that is no template -/
def ParsedSpk (s : Script) : Prop :=
  (isTemplate s = true ∧ s.raw = none) ∨ (isTemplate s = false ∧ ParsedScript s)

theorem parsedSpk_fix {s : Script} (hp : ParsedSpk s) (hr : Reencodable s) : SpkFix s := by
  rcases hp with ⟨ht, hraw⟩ | ⟨ht, hps⟩
  · obtain ⟨wf, hc⟩ := template_wf ht hraw
    obtain ⟨_, e, _, _, h3, _⟩ := serialize_wf wf
    refine ⟨e, h3, fun rest => ?_⟩
    rw [parseScriptPubKey_serialize rest wf h3, hc]
  · obtain ⟨e, he, hpar⟩ := parsedScript_fix hps hr
    refine ⟨e, he, fun rest => ?_⟩
    have ht' : (isP2pkh s || isP2sh s || isP2wpkh s || isP2wsh s || isP2tr s) = false := ht
    simp only [parseScriptPubKey, hpar rest, Option.pure_def, Option.bind_eq_bind, Option.bind_some, ht']
    rfl

/-- an input as `TxIn.parse` returns it: no witness, no spent-output annotation -/
def bareIn (i : TxIn) : TxIn := { i with witness := {}, value := none, scriptPubkey := none }

def InFix (i : TxIn) : Prop :=
  ∃ e, i.serialize = some e ∧ ∀ rest, TxIn.parse (e ++ rest) = some (bareIn i, rest)

theorem txin_fix {i : TxIn} (hp : i.prevTx.length = 32) (hi : i.prevIndex < 2 ^ 32) (hq : i.sequence < 2 ^ 32)
    (hs : ScriptFix i.scriptSig) : InFix i := by
  obtain ⟨sc, hsc, hpar⟩ := hs
  have a : i.prevIndex < 256 ^ 4 := by omega
  have b : i.sequence < 256 ^ 4 := by omega
  have l1 : i.prevTx.reverse.length = 32 := by simp [hp]
  refine ⟨i.prevTx.reverse ++ natToLE' 4 i.prevIndex ++ sc ++ natToLE' 4 i.sequence, ?_, fun rest => ?_⟩
  · simp [TxIn.serialize, Gen.txinSerIndexW, Gen.sequenceSerW, natToLE_some a, natToLE_some b, hsc]
  · simp only [TxIn.parse, List.append_assoc, Gen.txinParPrevW, Gen.txinParIndexW, Gen.sequenceParW,
      sread_append 32 _ _ l1, sread_append 4 _ _ (natToLE'_length 4 _)]
    rw [hpar]
    simp only [Option.pure_def, Option.bind_eq_bind, Option.bind_some, sread_append 4 _ _ (natToLE'_length 4 _),
      leToNat_natToLE'_of_lt a, leToNat_natToLE'_of_lt b, List.reverse_reverse]
    have hr : inRange i.sequence Gen.maxSequence = true := by simp [inRange, Gen.maxSequence]; omega
    simp [hr, bareIn]

def OutFix (o : TxOut) : Prop :=
  ∃ e, o.serialize = some e ∧ ∀ rest, TxOut.parse (e ++ rest) = some (o, rest)

theorem txout_fix {o : TxOut} (ha : o.amount < 2 ^ 64) (hs : SpkFix o.scriptPubkey) : OutFix o := by
  obtain ⟨sc, hsc, hpar⟩ := hs
  have a : o.amount < 256 ^ 8 := by omega
  refine ⟨natToLE' 8 o.amount ++ sc, ?_, fun rest => ?_⟩
  · simp [TxOut.serialize, Gen.txoutSerAmountW, natToLE_some a, hsc]
  · simp only [TxOut.parse, List.append_assoc, Gen.txoutParAmountW, sread_append 8 _ _ (natToLE'_length 8 _),
      hpar, Option.pure_def, Option.bind_eq_bind, Option.bind_some, leToNat_natToLE'_of_lt a]

theorem parseIns_fix (ins : List TxIn) (h : ∀ i ∈ ins, InFix i) :
    ∃ b, serIns ins = some b ∧ ∀ rest, parseIns ins.length (b ++ rest) = some (ins.map bareIn, rest) := by
  induction ins with
  | nil => exact ⟨[], rfl, fun _ => rfl⟩
  | cons i r ih =>
    obtain ⟨b1, h1, p1⟩ := h i (by simp)
    obtain ⟨b2, h2, p2⟩ := ih (fun i hi => h i (by simp [hi]))
    refine ⟨b1 ++ b2, by simp [serIns, h1, h2], fun rest => ?_⟩
    simp only [List.length_cons, parseIns, List.append_assoc, p1, p2, Option.pure_def, Option.bind_eq_bind,
      Option.bind_some, List.map_cons]

theorem parseOuts_fix (outs : List TxOut) (h : ∀ o ∈ outs, OutFix o) :
    ∃ b, serOuts outs = some b ∧ ∀ rest, parseOuts outs.length (b ++ rest) = some (outs, rest) := by
  induction outs with
  | nil => exact ⟨[], rfl, fun _ => rfl⟩
  | cons o r ih =>
    obtain ⟨b1, h1, p1⟩ := h o (by simp)
    obtain ⟨b2, h2, p2⟩ := ih (fun o ho => h o (by simp [ho]))
    refine ⟨b1 ++ b2, by simp [serOuts, h1, h2], fun rest => ?_⟩
    simp only [List.length_cons, parseOuts, List.append_assoc, p1, p2, Option.pure_def, Option.bind_eq_bind,
      Option.bind_some]

theorem parseWitnesses_fix (ins : List TxIn) (h : ∀ i ∈ ins, WitnessWF i.witness ∧ i.value = none ∧ i.scriptPubkey = none) :
    ∃ b, serWitnesses ins = some b ∧ ∀ rest, parseWitnesses (ins.map bareIn) (b ++ rest) = some (ins, rest) := by
  induction ins with
  | nil => exact ⟨[], rfl, fun _ => rfl⟩
  | cons i r ih =>
    obtain ⟨hw, hv, hk⟩ := h i (by simp)
    obtain ⟨b1, h1⟩ := witness_serialize_isSome hw
    obtain ⟨b2, h2, p2⟩ := ih (fun i hi => h i (by simp [hi]))
    refine ⟨b1 ++ b2, by simp [serWitnesses, h1, h2], fun rest => ?_⟩
    simp only [List.map_cons, parseWitnesses, List.append_assoc, witness_parse_serialize _ hw h1, p2,
      Option.pure_def, Option.bind_eq_bind, Option.bind_some]
    cases i
    simp_all [bareIn]

/-- a transaction all of whose parts are fixed points is one itself -/
theorem tx_fix (t : Tx) (hv : t.version < 2 ^ 32) (hl : t.locktime < 2 ^ 32) (hn : t.ins.length < 2 ^ 64)
    (hm : t.outs.length < 2 ^ 64) (hins : ∀ i ∈ t.ins, InFix i) (houts : ∀ o ∈ t.outs, OutFix o)
    (hw : ∀ i ∈ t.ins, WitnessWF i.witness ∧ i.value = none ∧ i.scriptPubkey = none)
    (hleg : t.segwit = false → t.ins ≠ [] ∧ ∀ i ∈ t.ins, i.witness = {}) :
    ∃ e, t.serialize = some e ∧ ∀ rest, Tx.parse (e ++ rest) = some (t, rest) := by
  obtain ⟨n, en⟩ := encodeVarint_some hn
  obtain ⟨m, em⟩ := encodeVarint_some hm
  obtain ⟨ib, ei, pi⟩ := parseIns_fix t.ins hins
  obtain ⟨ob, eo, po⟩ := parseOuts_fix t.outs houts
  obtain ⟨wb, ew, pw⟩ := parseWitnesses_fix t.ins hw
  have a : t.version < 256 ^ 4 := by omega
  have b : t.locktime < 256 ^ 4 := by omega
  have hr : inRange t.locktime Gen.maxLocktime = true := by simp [inRange, Gen.maxLocktime]; omega
  have l4 := natToLE'_length 4 t.version
  cases hs : t.segwit with
  | true =>
    refine ⟨natToLE' 4 t.version ++ [0, 1] ++ n ++ ib ++ m ++ ob ++ wb ++ natToLE' 4 t.locktime, ?_, fun rest => ?_⟩
    · simp [Tx.serialize, hs, Tx.serializeSegwit, Gen.serSegwitVersionW, Gen.locktimeSerW, Gen.serSegwitMarker,
        natToLE_some a, natToLE_some b, en, ei, em, eo, ew]
    · have l2 : ([0, 1] : Bytes).length = 2 := rfl
      simp only [List.append_assoc, List.cons_append, List.nil_append]
      rw [parse_sniff _ _ _ l4, if_pos rfl]
      have := l2
      simp only [Tx.parseSegwit, Gen.parSegwitVersionW, Gen.parSegwitMarkerW, Gen.locktimeParW,
        sread_append 4 _ _ l4]
      rw [show (0 : UInt8) :: 1 :: (n ++ (ib ++ (m ++ (ob ++ (wb ++ (natToLE' 4 t.locktime ++ rest)))))) =
        [0, 1] ++ (n ++ (ib ++ (m ++ (ob ++ (wb ++ (natToLE' 4 t.locktime ++ rest)))))) from rfl]
      simp only [sread_append 2 _ _ l2, Gen.parSegwitMarker, ne_eq, not_true_eq_false, if_false,
        readVarint_encodeVarint _ _ _ en, Option.pure_def, Option.bind_eq_bind, Option.bind_some, pi,
        readVarint_encodeVarint _ _ _ em, po, pw, sread_append 4 _ _ (natToLE'_length 4 _),
        leToNat_natToLE'_of_lt a, leToNat_natToLE'_of_lt b]
      cases t; simp_all
  | false =>
    obtain ⟨hne, hwe⟩ := hleg hs
    have hpos : 1 ≤ t.ins.length := by
      cases hl' : t.ins with
      | nil => exact absurd hl' hne
      | cons _ _ => simp
    obtain ⟨x, tl, rfl, hx⟩ := encodeVarint_head_ne_zero en hpos
    refine ⟨natToLE' 4 t.version ++ (x :: tl) ++ ib ++ m ++ ob ++ natToLE' 4 t.locktime, ?_, fun rest => ?_⟩
    · simp [Tx.serialize, hs, Tx.serializeLegacy, Gen.serLegacyVersionW, Gen.locktimeSerW,
        natToLE_some a, natToLE_some b, en, ei, em, eo]
    · simp only [List.append_assoc, List.cons_append]
      rw [parse_sniff _ _ _ l4, if_neg hx]
      have en' := readVarint_encodeVarint _ (ib ++ (m ++ (ob ++ (natToLE' 4 t.locktime ++ rest)))) _ en
      simp only [List.cons_append] at en'
      simp only [Tx.parseLegacy, Gen.parLegacyVersionW, Gen.locktimeParW, sread_append 4 _ _ l4, en',
        Option.pure_def, Option.bind_eq_bind, Option.bind_some, pi, readVarint_encodeVarint _ _ _ em, po,
        sread_append 4 _ _ (natToLE'_length 4 _), leToNat_natToLE'_of_lt a, leToNat_natToLE'_of_lt b]
      have hb : t.ins.map bareIn = t.ins := by
        conv => rhs; rw [← List.map_id t.ins]
        apply List.map_congr_left
        intro i hi
        obtain ⟨_, h1, h2⟩ := hw i hi
        have h3 := hwe i hi
        cases i; simp_all [bareIn]
      cases t; simp_all

/-! ### what the parsers return, whatever the bytes -/

theorem leToNat_take_lt (n : Nat) (s : Bytes) : leToNat (s.take n) < 256 ^ n := by
  have h := leToNat_lt (s.take n)
  have : (s.take n).length ≤ n := by simp [List.length_take]; omega
  exact Nat.lt_of_lt_of_le h (Nat.pow_le_pow_right (by omega) this)

theorem readVarint_inv {s r : Bytes} {n : Nat} (h : readVarint s = some (n, r)) : n < 2 ^ 64 ∧ r <:+ s ∧ s ≠ [] := by
  unfold readVarint at h
  cases s with
  | nil => cases h
  | cons b t =>
    simp only [Gen.varintDecM0, Gen.varintDecM1, Gen.varintDecM2, Gen.varintDecW0, Gen.varintDecW1, Gen.varintDecW2] at h
    refine ⟨?_, ?_, by simp⟩
    · split at h
      · cases h; have := leToNat_take_lt 2 t; omega
      · split at h
        · cases h; have := leToNat_take_lt 4 t; omega
        · split at h
          · cases h; have := leToNat_take_lt 8 t; omega
          · cases h; have := b.toNat_lt; omega
    · have hd : ∀ k, t.drop k <:+ b :: t := fun k => (List.drop_suffix k t).trans (List.suffix_cons b t)
      split at h
      · cases h; exact hd 2
      · split at h
        · cases h; exact hd 4
        · split at h
          · cases h; exact hd 8
          · cases h; exact List.suffix_cons _ _

theorem readVarstr_inv {s x r : Bytes} (h : readVarstr s = some (x, r)) : x.length < 2 ^ 63 ∧ r <:+ s ∧ s ≠ [] := by
  unfold readVarstr at h
  cases hv : readVarint s with
  | none => rw [hv] at h; cases h
  | some p =>
    obtain ⟨n, t⟩ := p
    rw [hv] at h
    simp only at h
    obtain ⟨_, hs, hne⟩ := readVarint_inv hv
    split at h
    · next hn =>
      cases h
      refine ⟨?_, (List.drop_suffix n t).trans hs, hne⟩
      simp only [List.length_take]; omega
    · cases h

theorem script_parse_inv {s r : Bytes} {sc : Script} (h : Script.parse s = some (sc, r)) :
    ParsedScript sc ∧ r <:+ s ∧ s ≠ [] := by
  simp only [Script.parse, Option.pure_def, Option.bind_eq_bind, bind_some_iff] at h
  obtain ⟨⟨raw, rest⟩, hv, he⟩ := h
  cases he
  obtain ⟨hl, hs, hne⟩ := readVarstr_inv hv
  exact ⟨⟨raw, hl, rfl⟩, hs, hne⟩

theorem spk_parse_inv {s r : Bytes} {sc : Script} (h : parseScriptPubKey s = some (sc, r)) :
    ParsedSpk sc ∧ r <:+ s ∧ s ≠ [] := by
  simp only [parseScriptPubKey, Option.pure_def, Option.bind_eq_bind, bind_some_iff] at h
  obtain ⟨⟨p, rest⟩, hv, he⟩ := h
  obtain ⟨hp, hs, hne⟩ := script_parse_inv hv
  simp only at he
  by_cases ht : (isP2pkh p || isP2sh p || isP2wpkh p || isP2wsh p || isP2tr p) = true
  · rw [if_pos ht] at he; cases he
    refine ⟨Or.inl ⟨?_, rfl⟩, hs, hne⟩
    exact ht
  · rw [if_neg ht] at he; cases he
    refine ⟨Or.inr ⟨?_, hp⟩, hs, hne⟩
    simpa [isTemplate] using ht

theorem ite_none_some_inv {α} {c : Prop} [Decidable c] {a b : α} (h : (if c then none else some a) = some b) :
    ¬ c ∧ a = b := by
  by_cases hc : c
  · rw [if_pos hc] at h; cases h
  · rw [if_neg hc] at h; cases h; exact ⟨hc, rfl⟩

theorem ite_none_inv {α} {c : Prop} [Decidable c] {x : Option α} {b : α} (h : (if c then none else x) = some b) :
    ¬ c ∧ x = some b := by
  by_cases hc : c
  · rw [if_pos hc] at h; cases h
  · rw [if_neg hc] at h; exact ⟨hc, h⟩

theorem parseItems_inv : ∀ (n : Nat) (s : Bytes) (l : List Bytes) (r : Bytes), parseItems n s = some (l, r) →
    l.length = n ∧ (∀ i ∈ l, i.length < 2 ^ 63) ∧ r <:+ s := by
  intro n
  induction n with
  | zero => intro s l r h; simp only [parseItems, Option.some.injEq, Prod.mk.injEq] at h; obtain ⟨rfl, rfl⟩ := h; simp
  | succ n ih =>
    intro s l r h
    simp only [parseItems, Option.pure_def, Option.bind_eq_bind, bind_some_iff] at h
    obtain ⟨⟨i, s1⟩, h1, ⟨l', s2⟩, h2, he⟩ := h
    cases he
    obtain ⟨hl, hs, _⟩ := readVarstr_inv h1
    obtain ⟨a, b, c⟩ := ih _ _ _ h2
    refine ⟨by simp [a], ?_, c.trans hs⟩
    intro x hx
    rcases List.mem_cons.mp hx with rfl | hx
    · exact hl
    · exact b x hx

theorem witness_parse_inv {s r : Bytes} {w : Witness} (h : Witness.parse s = some (w, r)) :
    WitnessWF w ∧ r <:+ s := by
  simp only [Witness.parse, Option.pure_def, Option.bind_eq_bind, bind_some_iff] at h
  obtain ⟨⟨n, s1⟩, h1, ⟨l, s2⟩, h2, he⟩ := h
  cases he
  obtain ⟨hn, hs, _⟩ := readVarint_inv h1
  obtain ⟨a, b, c⟩ := parseItems_inv _ _ _ _ h2
  exact ⟨⟨by rw [a]; exact hn, b⟩, c.trans hs⟩

/-- what `TxIn.parse` returns -/
def ParsedIn (i : TxIn) : Prop :=
  i.prevTx.length = 32 ∧ i.prevIndex < 2 ^ 32 ∧ i.sequence < 2 ^ 32 ∧ ParsedScript i.scriptSig ∧
  i.value = none ∧ i.scriptPubkey = none

theorem txin_parse_inv {s r : Bytes} {i : TxIn} (h : TxIn.parse s = some (i, r)) :
    ParsedIn i ∧ i.witness = {} ∧ r <:+ s := by
  simp only [TxIn.parse, sread, Gen.txinParPrevW, Gen.txinParIndexW, Gen.sequenceParW, Option.pure_def,
    Option.bind_eq_bind, bind_some_iff] at h
  obtain ⟨⟨sc, s1⟩, h1, he⟩ := h
  obtain ⟨hp, hs, hne⟩ := script_parse_inv h1
  simp only at he
  obtain ⟨_, he⟩ := ite_none_some_inv he
  · cases he
    have h36 : 36 < s.length := by
      have : ((s.drop 32).drop 4).length ≠ 0 := by intro e; exact hne (List.length_eq_zero_iff.mp e)
      simp only [List.length_drop] at this; omega
    refine ⟨⟨?_, ?_, ?_, hp, rfl, rfl⟩, rfl, ?_⟩
    · simp only [List.length_reverse, List.length_take]; omega
    · have := leToNat_take_lt 4 (s.drop 32); omega
    · have := leToNat_take_lt 4 s1; omega
    · exact (List.drop_suffix 4 s1).trans (hs.trans ((List.drop_suffix 4 _).trans (List.drop_suffix 32 s)))

theorem txout_parse_inv {s r : Bytes} {o : TxOut} (h : TxOut.parse s = some (o, r)) :
    o.amount < 2 ^ 64 ∧ ParsedSpk o.scriptPubkey ∧ r <:+ s := by
  simp only [TxOut.parse, sread, Gen.txoutParAmountW, Option.pure_def, Option.bind_eq_bind, bind_some_iff] at h
  obtain ⟨⟨sc, s1⟩, h1, he⟩ := h
  cases he
  obtain ⟨hp, hs, _⟩ := spk_parse_inv h1
  refine ⟨?_, hp, hs.trans (List.drop_suffix 8 s)⟩
  have := leToNat_take_lt 8 s; omega

theorem parseIns_inv : ∀ (n : Nat) (s : Bytes) (l : List TxIn) (r : Bytes), parseIns n s = some (l, r) →
    l.length = n ∧ (∀ i ∈ l, ParsedIn i ∧ i.witness = {}) ∧ r <:+ s := by
  intro n
  induction n with
  | zero => intro s l r h; simp only [parseIns, Option.some.injEq, Prod.mk.injEq] at h; obtain ⟨rfl, rfl⟩ := h; simp
  | succ n ih =>
    intro s l r h
    simp only [parseIns, Option.pure_def, Option.bind_eq_bind, bind_some_iff] at h
    obtain ⟨⟨i, s1⟩, h1, ⟨l', s2⟩, h2, he⟩ := h
    cases he
    obtain ⟨hi, hw, hs⟩ := txin_parse_inv h1
    obtain ⟨a, b, c⟩ := ih _ _ _ h2
    refine ⟨by simp [a], ?_, c.trans hs⟩
    intro x hx
    rcases List.mem_cons.mp hx with rfl | hx
    · exact ⟨hi, hw⟩
    · exact b x hx

theorem parseOuts_inv : ∀ (n : Nat) (s : Bytes) (l : List TxOut) (r : Bytes), parseOuts n s = some (l, r) →
    l.length = n ∧ (∀ o ∈ l, o.amount < 2 ^ 64 ∧ ParsedSpk o.scriptPubkey) ∧ r <:+ s := by
  intro n
  induction n with
  | zero => intro s l r h; simp only [parseOuts, Option.some.injEq, Prod.mk.injEq] at h; obtain ⟨rfl, rfl⟩ := h; simp
  | succ n ih =>
    intro s l r h
    simp only [parseOuts, Option.pure_def, Option.bind_eq_bind, bind_some_iff] at h
    obtain ⟨⟨o, s1⟩, h1, ⟨l', s2⟩, h2, he⟩ := h
    cases he
    obtain ⟨ha, hp, hs⟩ := txout_parse_inv h1
    obtain ⟨a, b, c⟩ := ih _ _ _ h2
    refine ⟨by simp [a], ?_, c.trans hs⟩
    intro x hx
    rcases List.mem_cons.mp hx with rfl | hx
    · exact ⟨ha, hp⟩
    · exact b x hx

theorem parseWitnesses_inv : ∀ (l : List TxIn) (s : Bytes) (l' : List TxIn) (r : Bytes),
    parseWitnesses l s = some (l', r) → (∀ i ∈ l, ParsedIn i) →
    l'.length = l.length ∧ (∀ i ∈ l', ParsedIn i ∧ WitnessWF i.witness) ∧ r <:+ s := by
  intro l
  induction l with
  | nil => intro s l' r h _; simp only [parseWitnesses, Option.some.injEq, Prod.mk.injEq] at h; obtain ⟨rfl, rfl⟩ := h; simp
  | cons i t ih =>
    intro s l' r h hp
    simp only [parseWitnesses, Option.pure_def, Option.bind_eq_bind, bind_some_iff] at h
    obtain ⟨⟨w, s1⟩, h1, ⟨t', s2⟩, h2, he⟩ := h
    cases he
    obtain ⟨hw, hs⟩ := witness_parse_inv h1
    obtain ⟨a, b, c⟩ := ih _ _ _ h2 (fun x hx => hp x (by simp [hx]))
    refine ⟨by simp [a], ?_, c.trans hs⟩
    intro x hx
    rcases List.mem_cons.mp hx with rfl | hx
    · exact ⟨hp i (by simp), hw⟩
    · exact b x hx

/-- what `Tx.parse` returns, whatever the bytes -/
structure ParsedTx (t : Tx) : Prop where
  version : t.version < 2 ^ 32
  locktime : t.locktime < 2 ^ 32
  nins : t.ins.length < 2 ^ 64
  nouts : t.outs.length < 2 ^ 64
  ins : ∀ i ∈ t.ins, ParsedIn i ∧ WitnessWF i.witness
  outs : ∀ o ∈ t.outs, o.amount < 2 ^ 64 ∧ ParsedSpk o.scriptPubkey
  legacy : t.segwit = false → ∀ i ∈ t.ins, i.witness = {}

theorem witnessWF_empty : WitnessWF {} := ⟨by simp, by intro i hi; cases hi⟩

theorem parseLegacy_inv {s r : Bytes} {t : Tx} (h : Tx.parseLegacy s = some (t, r)) : ParsedTx t ∧ r <:+ s := by
  simp only [Tx.parseLegacy, sread, Gen.parLegacyVersionW, Gen.locktimeParW, Option.pure_def, Option.bind_eq_bind,
    bind_some_iff] at h
  obtain ⟨⟨n, s1⟩, h1, ⟨ins, s2⟩, h2, ⟨m, s3⟩, h3, ⟨outs, s4⟩, h4, he⟩ := h
  simp only at he
  obtain ⟨_, he⟩ := ite_none_some_inv he
  · cases he
    obtain ⟨hn, hs1, _⟩ := readVarint_inv h1
    obtain ⟨a2, b2, c2⟩ := parseIns_inv n s1 ins s2 h2
    obtain ⟨hm, hs3, _⟩ := readVarint_inv h3
    obtain ⟨a4, b4, c4⟩ := parseOuts_inv m s3 outs s4 h4
    refine ⟨⟨?_, ?_, by rw [a2]; exact hn, by rw [a4]; exact hm, ?_, b4, ?_⟩, ?_⟩
    · have := leToNat_take_lt 4 s; omega
    · have := leToNat_take_lt 4 s4; omega
    · intro i hi; obtain ⟨p, w⟩ := b2 i hi; exact ⟨p, by rw [w]; exact witnessWF_empty⟩
    · intro _ i hi; exact (b2 i hi).2
    · exact (List.drop_suffix 4 s4).trans (c4.trans (hs3.trans (c2.trans (hs1.trans (List.drop_suffix 4 s)))))

theorem parseSegwit_inv {s r : Bytes} {t : Tx} (h : Tx.parseSegwit s = some (t, r)) :
    ParsedTx t ∧ t.segwit = true ∧ r <:+ s := by
  simp only [Tx.parseSegwit, sread, Gen.parSegwitVersionW, Gen.parSegwitMarkerW, Gen.locktimeParW, Option.pure_def,
    Option.bind_eq_bind] at h
  obtain ⟨_, h⟩ := ite_none_inv h
  · simp only [bind_some_iff] at h
    obtain ⟨⟨n, s1⟩, h1, ⟨ins, s2⟩, h2, ⟨m, s3⟩, h3, ⟨outs, s4⟩, h4, ⟨ins', s5⟩, h5, he⟩ := h
    simp only at he
    obtain ⟨_, he⟩ := ite_none_some_inv he
    cases he
    obtain ⟨hn, hs1, _⟩ := readVarint_inv h1
    obtain ⟨a2, b2, c2⟩ := parseIns_inv n s1 ins s2 h2
    obtain ⟨hm, hs3, _⟩ := readVarint_inv h3
    obtain ⟨a4, b4, c4⟩ := parseOuts_inv m s3 outs s4 h4
    obtain ⟨a5, b5, c5⟩ := parseWitnesses_inv ins s4 ins' s5 h5 (fun i hi => (b2 i hi).1)
    refine ⟨⟨?_, ?_, by rw [a5, a2]; exact hn, by rw [a4]; exact hm, b5, b4, ?_⟩, rfl, ?_⟩
    · have := leToNat_take_lt 4 s; omega
    · have := leToNat_take_lt 4 s5; omega
    · intro hf; cases hf
    · exact (List.drop_suffix 4 s5).trans (c5.trans (c4.trans (hs3.trans (c2.trans (hs1.trans
        ((List.drop_suffix 2 _).trans (List.drop_suffix 4 s)))))))

theorem parse_inv {s r : Bytes} {t : Tx} (h : Tx.parse s = some (t, r)) : ParsedTx t ∧ r <:+ s := by
  unfold Tx.parse at h
  simp only [sread, Gen.sniffSkip, Gen.sniffWidth, Gen.sniffSeekBack, List.length_drop] at h
  split at h
  · cases h
  · next hlen =>
    have e : s.length - (s.length - 4 - 1) - 5 = 0 := by omega
    rw [e, List.drop_zero] at h
    split at h
    · obtain ⟨a, _, c⟩ := parseSegwit_inv h; exact ⟨a, c⟩
    · exact parseLegacy_inv h

/-- the transactions `Tx.parse` returns that survive serialise → parse unchanged: every script `Reencodable`,
    and not the legacy form with zero inputs (reachable only through a non-minimal input count; N04d) -/
def Reenc (t : Tx) : Prop :=
  (∀ i ∈ t.ins, Reencodable i.scriptSig) ∧ (∀ o ∈ t.outs, Reencodable o.scriptPubkey) ∧ (t.segwit = false → t.ins ≠ [])

instance (t : Tx) : Decidable (Reenc t) := by unfold Reenc; infer_instance

theorem parsedTx_fix (t : Tx) (hp : ParsedTx t) (hr : Reenc t) :
    ∃ e, t.serialize = some e ∧ ∀ rest, Tx.parse (e ++ rest) = some (t, rest) := by
  obtain ⟨hri, hro, hz⟩ := hr
  apply tx_fix t hp.version hp.locktime hp.nins hp.nouts
  · intro i hi
    obtain ⟨⟨h1, h2, h3, h4, _, _⟩, _⟩ := hp.ins i hi
    exact txin_fix h1 h2 h3 (parsedScript_fix h4 (hri i hi))
  · intro o ho
    obtain ⟨h1, h2⟩ := hp.outs o ho
    exact txout_fix h1 (parsedSpk_fix h2 (hro o ho))
  · intro i hi
    obtain ⟨⟨_, _, _, _, h5, h6⟩, hw⟩ := hp.ins i hi
    exact ⟨hw, h5, h6⟩
  · intro hs
    exact ⟨hz hs, hp.legacy hs⟩

/-! ### exactness for scripts: a parsed script with an empty or oversized data element is NOT a fixed point -/

theorem serCmds_mem {cs : List Cmd} {b : Bytes} (h : serCmds cs = some b) : ∀ c ∈ cs, ∃ x, serCmd c = some x := by
  induction cs generalizing b with
  | nil => intro c hc; cases hc
  | cons a r ih =>
    obtain ⟨b1, b2, h1, h2, _⟩ := serCmds_cons h
    intro c hc
    rcases List.mem_cons.mp hc with rfl | hc
    · exact ⟨b1, h1⟩
    · exact ih h2 c hc

theorem serCmd_push_some {d x : Bytes} (h : serCmd (.push d) = some x) : d.length ≤ 520 := by
  by_cases hl : d.length ≤ 520
  · exact hl
  · exfalso
    have a0 : ¬ d.length ≤ 75 := by omega
    have a1 : ¬ d.length < 256 := by omega
    simp [serCmd, rawSerCmp0, rawSerCmp1, rawSerCmp2, rawSerCmp3, rawSerCmp4, a0, a1, hl] at h

theorem map_eq_self_mem {α} {f : α → α} : ∀ {l : List α}, l.map f = l → ∀ x ∈ l, f x = x
  | [], _, x, hx => by cases hx
  | a :: r, h, x, hx => by
    simp only [List.map_cons, List.cons.injEq] at h
    rcases List.mem_cons.mp hx with rfl | hx
    · exact h.1
    · exact map_eq_self_mem h.2 x hx

theorem parsedScript_not_fix (raw : Bytes) (hnone : (parseRaw raw).raw = none)
    (hbad : ∃ c ∈ (parseRaw raw).cmds, ¬ PushOK c) : ¬ ScriptFix (parseRaw raw) := by
  rintro ⟨e, hser, hpar⟩
  obtain ⟨c, hc, hnp⟩ := hbad
  simp only [Script.serialize, rawSerialize, hnone, Option.pure_def, Option.bind_eq_bind, bind_some_iff] at hser
  obtain ⟨b, hb, he⟩ := hser
  have hall := serCmds_mem hb
  have wf : ∀ c ∈ (parseRaw raw).cmds, CmdWF c := by
    intro c hc
    have ho := parseRaw_ops raw c hc
    obtain ⟨x, hx⟩ := hall c hc
    cases c with
    | op n => unfold OpOK at ho; unfold CmdWF; omega
    | push d => exact serCmd_push_some hx
  have hp0 := hpar []
  rw [List.append_nil] at hp0
  simp only [encodeVarstr, Option.map_eq_some_iff] at he
  obtain ⟨v, hv, rfl⟩ := he
  simp only [Script.parse, readVarstr, readVarint_encodeVarint _ _ _ hv, Option.pure_def, Option.bind_eq_bind] at hp0
  by_cases hl : b.length < 2 ^ 63
  · simp only [hl, if_true, Option.bind_some, List.take_length, List.drop_length, Option.some.injEq, Prod.mk.injEq,
      and_true] at hp0
    rw [parseRaw_serCmds _ b wf hb] at hp0
    have hcm : canon (parseRaw raw).cmds = (parseRaw raw).cmds := by
      have := congrArg Script.cmds hp0; simpa using this
    have := map_eq_self_mem hcm c hc
    cases c with
    | op n => exact hnp trivial
    | push d =>
      cases d with
      | nil => simp [canonCmd] at this
      | cons x xs => exact hnp ⟨by simp, wf _ hc⟩
  · simp [hl] at hp0

/-! ### the two top-level statements -/

/-- **Parse soundness.**  Whatever the bytes: what `Tx.parse` leaves unread is a suffix of its input; the
    returned transaction has every field within its wire width; and if it is `Reenc` (decidable, on the
    result alone) it serialises, and its serialisation followed by anything parses back to exactly it —
    so the accepted bytes stand for the returned transaction. -/
theorem parse_sound {b rest : Bytes} {t : Tx} (h : Tx.parse b = some (t, rest)) :
    (∃ consumed, b = consumed ++ rest) ∧ ParsedTx t ∧
    (Reenc t → ∃ e, t.serialize = some e ∧ ∀ r, Tx.parse (e ++ r) = some (t, r)) := by
  obtain ⟨hp, hs⟩ := parse_inv h
  obtain ⟨c, hc⟩ := hs
  exact ⟨⟨c, hc.symm⟩, hp, parsedTx_fix t hp⟩

/-- **Truncation.**  Let `e` be the serialisation of a well-formed transaction and `p` a strict prefix of it.
    Because of Python's silent short reads `Tx.parse p` may succeed (a cut inside the locktime or inside the
    last witness item is not noticed) — but never as a transaction that stands for `p`: whatever it returns
    does not re-serialise to `p`. -/
theorem truncation (t : Tx) (e p x : Bytes) (wf : TxWF t) (he : t.serialize = some e) (hpx : e = p ++ x) (hx : x ≠ [])
    (t' : Tx) (r : Bytes) (hp : Tx.parse p = some (t', r)) (hr : Reenc t') : t'.serialize ≠ some p := by
  intro hs
  obtain ⟨e', h1, h2⟩ := parsedTx_fix t' (parse_inv hp).1 hr
  rw [hs] at h1; cases h1
  have a := h2 x
  have b := parse_serialize [] wf he
  rw [List.append_nil, hpx, a] at b
  simp only [Option.some.injEq, Prod.mk.injEq] at b
  exact hx b.2

end Buidl.Tx
