/-
  Bit regrouping: `group_32` (8 → 5 bits, always a final group) and `convertbits`, described by
  the positional value of their output.
-/
import Buidl.Proofs.Bytes
import Buidl.Model.Bech32
import Mathlib.Tactic.Ring
namespace Buidl.Bech32
open Buidl

/-! ### positional value of digit lists -/

/-- big-endian value of a digit list in base `B` -/
def valBE (B : Nat) (l : List Nat) : Nat := l.foldl (fun n d => n * B + d) 0

/-- little-endian value -/
def valLE (B : Nat) : List Nat → Nat
  | [] => 0
  | d :: ds => d + B * valLE B ds

@[simp] theorem valBE_nil (B : Nat) : valBE B [] = 0 := rfl

theorem valBE_snoc (B : Nat) (l : List Nat) (d : Nat) : valBE B (l ++ [d]) = valBE B l * B + d := by
  simp [valBE, List.foldl_append]

theorem valBE_rev_cons (B : Nat) (acc : List Nat) (d : Nat) :
    valBE B (d :: acc).reverse = valBE B acc.reverse * B + d := by
  rw [List.reverse_cons, valBE_snoc]

theorem valBE_reverse (B : Nat) (l : List Nat) : valBE B l.reverse = valLE B l := by
  induction l with
  | nil => rfl
  | cons d ds ih => rw [valBE_rev_cons, ih, valLE]; ring

theorem valLE_inj (B : Nat) (hB : 0 < B) (l1 l2 : List Nat) (hlen : l1.length = l2.length)
    (h1 : ∀ d ∈ l1, d < B) (h2 : ∀ d ∈ l2, d < B) (hv : valLE B l1 = valLE B l2) : l1 = l2 := by
  induction l1 generalizing l2 with
  | nil =>
    cases l2 with
    | nil => rfl
    | cons _ _ => simp at hlen
  | cons d ds ih =>
    cases l2 with
    | nil => simp at hlen
    | cons e es =>
      simp only [valLE] at hv
      have hd : d < B := h1 d (by simp)
      have he : e < B := h2 e (by simp)
      have hmod : (d + B * valLE B ds) % B = (e + B * valLE B es) % B := by rw [hv]
      rw [Nat.add_mul_mod_self_left, Nat.add_mul_mod_self_left, Nat.mod_eq_of_lt hd, Nat.mod_eq_of_lt he] at hmod
      subst hmod
      have hv' : B * valLE B ds = B * valLE B es := by omega
      have := Nat.eq_of_mul_eq_mul_left hB hv'
      rw [ih es (by simpa using hlen) (fun x hx => h1 x (by simp [hx])) (fun x hx => h2 x (by simp [hx])) this]

theorem valBE_inj (B : Nat) (hB : 0 < B) (l1 l2 : List Nat) (hlen : l1.length = l2.length)
    (h1 : ∀ d ∈ l1, d < B) (h2 : ∀ d ∈ l2, d < B) (hv : valBE B l1 = valBE B l2) : l1 = l2 := by
  have := valLE_inj B hB l1.reverse l2.reverse (by simpa using hlen)
    (fun d hd => h1 d (List.mem_reverse.mp hd)) (fun d hd => h2 d (List.mem_reverse.mp hd))
    (by rw [← valBE_reverse, ← valBE_reverse, List.reverse_reverse, List.reverse_reverse, hv])
  simpa using congrArg List.reverse this

theorem beToNatAux_eq_foldl (acc : Nat) (b : Bytes) :
    beToNatAux acc b = (b.map (·.toNat)).foldl (fun n d => n * 256 + d) acc := by
  induction b generalizing acc with
  | nil => rfl
  | cons x xs ih => simp [beToNatAux, ih]

theorem beToNat_eq_valBE (b : Bytes) : beToNat b = valBE 256 (b.map (·.toNat)) :=
  beToNatAux_eq_foldl 0 b

theorem beToNat_snoc (b : Bytes) (c : UInt8) : beToNat (b ++ [c]) = beToNat b * 256 + c.toNat := by
  simp [beToNat, beToNatAux_append, beToNatAux]

theorem beToNat_lt' (b : Bytes) : beToNat b < 256 ^ b.length := by
  have := leToNat_lt b.reverse
  rwa [← beToNat_reverse, List.reverse_reverse, List.length_reverse] at this

/-! ### group_32 -/

theorem g32cmp (u : Nat) : cmpAt Gen.g32Cmp 0 u = decide (u > 5) := by
  simp [cmpAt, cmpOp, Gen.g32Cmp]

theorem g32Drain_spec (fuel u cur : Nat) (acc : List Nat) (hf : u ≤ fuel) (hcur : cur < 2 ^ u)
    (hacc : ∀ d ∈ acc, d < 32) :
    ∃ u' cur' acc', g32Drain fuel u cur acc = (u', cur', acc') ∧ u' ≤ 5 ∧ (1 ≤ u → 1 ≤ u') ∧ cur' < 2 ^ u' ∧
      valBE 32 acc'.reverse * 2 ^ u' + cur' = valBE 32 acc.reverse * 2 ^ u + cur ∧
      5 * acc'.length + u' = 5 * acc.length + u ∧ ∀ d ∈ acc', d < 32 := by
  induction fuel generalizing u cur acc with
  | zero =>
    have : u = 0 := by omega
    subst this
    exact ⟨0, cur, acc, rfl, by omega, by omega, hcur, rfl, rfl, hacc⟩
  | succ f ih =>
    unfold g32Drain
    rw [g32cmp]
    by_cases hu : u > 5
    · simp only [hu, decide_true, if_true, Gen.g32Out]
      have hsplit : 2 ^ u = 2 ^ (u - 5) * 32 := by
        rw [show (32 : Nat) = 2 ^ 5 by rfl, ← Nat.pow_add]; congr 1; omega
      have hpos : 0 < 2 ^ (u - 5) := Nat.pow_pos (by omega)
      have hmask : cur &&& ((1 <<< (u - 5)) - 1) = cur % 2 ^ (u - 5) := by
        rw [Nat.one_shiftLeft, Nat.and_two_pow_sub_one_eq_mod]
      have hdig : cur >>> (u - 5) < 32 := by
        rw [Nat.shiftRight_eq_div_pow]
        exact Nat.div_lt_of_lt_mul (by rw [← hsplit]; exact hcur)
      obtain ⟨u', cur', acc', he, h1, h2, h3, h4, h5, h6⟩ :=
        ih (u - 5) (cur &&& ((1 <<< (u - 5)) - 1)) ((cur >>> (u - 5)) :: acc) (by omega)
          (by rw [hmask]; exact Nat.mod_lt _ hpos)
          (by intro d hd; rcases List.mem_cons.mp hd with rfl | hd; exact hdig; exact hacc d hd)
      refine ⟨u', cur', acc', he, h1, fun _ => h2 (by omega), h3, ?_, by simp at h5; omega, h6⟩
      rw [h4, valBE_rev_cons, hmask, Nat.shiftRight_eq_div_pow, hsplit]
      have := Nat.div_add_mod cur (2 ^ (u - 5))
      calc (valBE 32 acc.reverse * 32 + cur / 2 ^ (u - 5)) * 2 ^ (u - 5) + cur % 2 ^ (u - 5)
          = valBE 32 acc.reverse * (2 ^ (u - 5) * 32) + (2 ^ (u - 5) * (cur / 2 ^ (u - 5)) + cur % 2 ^ (u - 5)) := by ring
        _ = valBE 32 acc.reverse * (2 ^ (u - 5) * 32) + cur := by rw [this]
    · simp only [hu, decide_false, Bool.false_eq_true, if_false]
      exact ⟨u, cur, acc, rfl, by omega, fun h => h, hcur, rfl, rfl, hacc⟩

theorem g32Loop_spec (cs done : Bytes) (u cur : Nat) (acc : List Nat)
    (hu : u ≤ 5) (hcur : cur < 2 ^ u) (hacc : ∀ d ∈ acc, d < 32)
    (hval : valBE 32 acc.reverse * 2 ^ u + cur = beToNat done) (hlen : 5 * acc.length + u = 8 * done.length) :
    ∃ u' cur' acc', g32Loop cs u cur acc = (u', cur', acc') ∧ u' ≤ 5 ∧ (cs ≠ [] ∨ 1 ≤ u → 1 ≤ u') ∧ cur' < 2 ^ u' ∧
      valBE 32 acc'.reverse * 2 ^ u' + cur' = beToNat (done ++ cs) ∧
      5 * acc'.length + u' = 8 * (done ++ cs).length ∧ ∀ d ∈ acc', d < 32 := by
  induction cs generalizing done u cur acc with
  | nil =>
    refine ⟨u, cur, acc, rfl, hu, ?_, hcur, by simpa using hval, by simpa using hlen, hacc⟩
    intro h; rcases h with h | h
    · exact absurd rfl h
    · exact h
  | cons c cs ih =>
    have hc := c.toNat_lt
    have hcur1 : (cur <<< Gen.g32Shl) + c.toNat < 2 ^ (u + Gen.g32In) := by
      simp only [Gen.g32Shl, Gen.g32In, Nat.shiftLeft_eq, Nat.pow_add]
      have : (2 : Nat) ^ 8 = 256 := by rfl
      omega
    obtain ⟨u2, cur2, acc2, hd, h1, h2, h3, h4, h5, h6⟩ :=
      g32Drain_spec (u + Gen.g32In) (u + Gen.g32In) ((cur <<< Gen.g32Shl) + c.toNat) acc (Nat.le_refl _) hcur1 hacc
    have hval2 : valBE 32 acc2.reverse * 2 ^ u2 + cur2 = beToNat (done ++ [c]) := by
      rw [h4, beToNat_snoc, ← hval]
      simp only [Gen.g32Shl, Gen.g32In, Nat.shiftLeft_eq, Nat.pow_add]
      ring_nf
    have hlen2 : 5 * acc2.length + u2 = 8 * (done ++ [c]).length := by
      simp only [Gen.g32In] at h5; simp; omega
    obtain ⟨u', cur', acc', he, g1, g2, g3, g4, g5, g6⟩ := ih (done ++ [c]) u2 cur2 acc2 h1 h3 h6 hval2 hlen2
    refine ⟨u', cur', acc', ?_, g1, fun _ => g2 (Or.inr (h2 (by simp only [Gen.g32In]; omega))), g3, ?_, ?_, g6⟩
    · simp only [g32Loop, hd]; exact he
    · simpa using g4
    · simpa using g5

/-- `group_32` of a non-empty byte string: ⌈8L/5⌉ five-bit groups whose value is the bytes'
    value shifted left by the padding -/
theorem group32_spec (s : Bytes) (hs : s ≠ []) :
    ∃ pad, pad < 5 ∧ (group32 s).length * 5 = 8 * s.length + pad ∧
      valBE 32 (group32 s) = beToNat s * 2 ^ pad ∧ ∀ d ∈ group32 s, d < 32 := by
  obtain ⟨u', cur', acc', he, g1, g2, g3, g4, g5, g6⟩ :=
    g32Loop_spec s [] 0 0 [] (by omega) (by simp) (by simp) (by simp [beToNat, beToNatAux]) (by simp)
  have hu1 : 1 ≤ u' := g2 (Or.inl hs)
  simp only [List.nil_append] at g4 g5
  have hpow : 2 ^ u' * 2 ^ (5 - u') = 32 := by
    rw [← Nat.pow_add, show u' + (5 - u') = 5 by omega]
  have hlast : cur' <<< (Gen.g32Final - u') < 32 := by
    simp only [Gen.g32Final, Nat.shiftLeft_eq]
    have hp : 0 < 2 ^ (5 - u') := Nat.pow_pos (by omega)
    calc cur' * 2 ^ (5 - u') < 2 ^ u' * 2 ^ (5 - u') := (Nat.mul_lt_mul_right hp).mpr g3
      _ = 32 := hpow
  refine ⟨5 - u', by omega, ?_, ?_, ?_⟩
  · simp only [group32, he, List.length_reverse, List.length_cons]; omega
  · simp only [group32, he]
    rw [valBE_rev_cons, ← g4]
    simp only [Gen.g32Final, Nat.shiftLeft_eq]
    calc valBE 32 acc'.reverse * 32 + cur' * 2 ^ (5 - u')
        = valBE 32 acc'.reverse * (2 ^ u' * 2 ^ (5 - u')) + cur' * 2 ^ (5 - u') := by rw [hpow]
      _ = (valBE 32 acc'.reverse * 2 ^ u' + cur') * 2 ^ (5 - u') := by ring
  · intro d hd
    simp only [group32, he, List.mem_reverse, List.mem_cons] at hd
    rcases hd with rfl | hd
    · exact hlast
    · exact g6 d hd

/-! ### convertbits -/

theorem cbDrain_spec (t : Nat) (fuel bits acc : Nat) (ret : List Nat) (hf : bits ≤ fuel)
    (ht : 1 ≤ t) (hret : ∀ d ∈ ret, d < 2 ^ t) :
    ∃ bits' ret', cbDrain t ((1 <<< t) - 1) fuel bits acc ret = (bits', ret') ∧ bits' < t ∧
      valBE (2 ^ t) ret'.reverse * 2 ^ bits' + acc % 2 ^ bits' = valBE (2 ^ t) ret.reverse * 2 ^ bits + acc % 2 ^ bits ∧
      t * ret'.length + bits' = t * ret.length + bits ∧ ∀ d ∈ ret', d < 2 ^ t := by
  induction fuel generalizing bits ret with
  | zero =>
    have : bits = 0 := by omega
    subst this
    exact ⟨0, ret, rfl, by omega, rfl, rfl, hret⟩
  | succ f ih =>
    unfold cbDrain
    by_cases hb : bits ≥ t
    · simp only [hb, if_true]
      have hpt : 0 < 2 ^ t := Nat.pow_pos (by omega)
      have hdig : (acc >>> (bits - t)) &&& ((1 <<< t) - 1) = acc / 2 ^ (bits - t) % 2 ^ t := by
        rw [Nat.one_shiftLeft, Nat.and_two_pow_sub_one_eq_mod, Nat.shiftRight_eq_div_pow]
      obtain ⟨bits', ret', he, h1, h2, h3, h4⟩ :=
        ih (bits - t) (((acc >>> (bits - t)) &&& ((1 <<< t) - 1)) :: ret) (by omega)
          (by intro d hd; rcases List.mem_cons.mp hd with rfl | hd
              · rw [hdig]; exact Nat.mod_lt _ hpt
              · exact hret d hd)
      refine ⟨bits', ret', he, h1, ?_, by simp at h3; rw [h3]; have : t * (ret.length + 1) = t * ret.length + t := by ring
                                          omega, h4⟩
      rw [h2, valBE_rev_cons, hdig]
      have hsplit : 2 ^ bits = 2 ^ (bits - t) * 2 ^ t := by
        rw [← Nat.pow_add]; congr 1; omega
      rw [hsplit, Nat.mod_mul]
      ring
    · simp only [hb, if_false]
      exact ⟨bits, ret, rfl, by omega, rfl, rfl, hret⟩

/-- key step: appending `f` input bits to the (truncated) accumulator -/
theorem cb_acc_step (f t acc bits v : Nat) (hv : v < 2 ^ f) (hbits : bits + f ≤ f + t - 1) :
    (((acc <<< f) ||| v) &&& ((1 <<< (f + t - 1)) - 1)) % 2 ^ (bits + f) = (acc % 2 ^ bits) * 2 ^ f + v := by
  rw [← Nat.shiftLeft_add_eq_or_of_lt hv, Nat.one_shiftLeft, Nat.and_two_pow_sub_one_eq_mod, Nat.shiftLeft_eq,
    Nat.mod_mod_of_dvd _ (Nat.pow_dvd_pow 2 hbits)]
  have hpf : 0 < 2 ^ f := Nat.pow_pos (by omega)
  rw [show 2 ^ (bits + f) = 2 ^ f * 2 ^ bits by rw [← Nat.pow_add]; congr 1; omega, Nat.mod_mul]
  have h1 : (acc * 2 ^ f + v) % 2 ^ f = v := by
    rw [Nat.mul_comm, Nat.mul_add_mod, Nat.mod_eq_of_lt hv]
  have h2 : (acc * 2 ^ f + v) / 2 ^ f = acc := by
    rw [Nat.mul_comm, Nat.mul_add_div hpf, Nat.div_eq_of_lt hv, Nat.add_zero]
  rw [h1, h2]; ring

theorem cbLoop_spec (f t : Nat) (hf : 1 ≤ f) (ht : 1 ≤ t) (vs done : List Nat) (acc bits : Nat) (ret : List Nat)
    (hvs : ∀ v ∈ vs, v < 2 ^ f) (hbits : bits < t) (hret : ∀ d ∈ ret, d < 2 ^ t)
    (hval : valBE (2 ^ t) ret.reverse * 2 ^ bits + acc % 2 ^ bits = valBE (2 ^ f) done)
    (hlen : t * ret.length + bits = f * done.length) :
    ∃ acc' bits' ret', cbLoop f t ((1 <<< t) - 1) ((1 <<< (f + t - 1)) - 1) vs acc bits ret = some (acc', bits', ret') ∧
      bits' < t ∧ valBE (2 ^ t) ret'.reverse * 2 ^ bits' + acc' % 2 ^ bits' = valBE (2 ^ f) (done ++ vs) ∧
      t * ret'.length + bits' = f * (done ++ vs).length ∧ ∀ d ∈ ret', d < 2 ^ t := by
  induction vs generalizing done acc bits ret with
  | nil => exact ⟨acc, bits, ret, rfl, hbits, by simpa using hval, by simpa using hlen, hret⟩
  | cons v vs ih =>
    have hv : v < 2 ^ f := hvs v (by simp)
    have hv0 : v >>> f = 0 := by rw [Nat.shiftRight_eq_div_pow]; exact Nat.div_eq_of_lt hv
    obtain ⟨bits2, ret2, hd, h1, h2, h3, h4⟩ :=
      cbDrain_spec t (bits + f) (bits + f) (((acc <<< f) ||| v) &&& ((1 <<< (f + t - 1)) - 1)) ret (Nat.le_refl _) ht hret
    have hval2 : valBE (2 ^ t) ret2.reverse * 2 ^ bits2 +
        (((acc <<< f) ||| v) &&& ((1 <<< (f + t - 1)) - 1)) % 2 ^ bits2 = valBE (2 ^ f) (done ++ [v]) := by
      rw [h2, cb_acc_step f t acc bits v hv (by omega), valBE_snoc, ← hval, Nat.pow_add]
      ring
    have hlen2 : t * ret2.length + bits2 = f * (done ++ [v]).length := by
      rw [h3, List.length_append, List.length_singleton, Nat.mul_add, ← hlen]; omega
    obtain ⟨acc', bits', ret', he, g1, g2, g3, g4⟩ :=
      ih (done ++ [v]) _ bits2 ret2 (fun x hx => hvs x (by simp [hx])) h1 h4 hval2 hlen2
    refine ⟨acc', bits', ret', ?_, g1, by simpa using g2, by simpa using g3, g4⟩
    simp only [cbLoop, hv0, ne_eq, not_true_eq_false, if_false, hd]
    exact he

/-- convertbits with padding: ⌈f·n/t⌉ groups whose value is the input's value shifted left -/
theorem convertbits_pad_spec (f t : Nat) (hf : 1 ≤ f) (ht : 1 ≤ t) (data : List Nat) (hdata : ∀ v ∈ data, v < 2 ^ f) :
    ∃ out pad, convertbits data f t true = some out ∧ pad < t ∧ t * out.length = f * data.length + pad ∧
      valBE (2 ^ t) out = valBE (2 ^ f) data * 2 ^ pad ∧ ∀ d ∈ out, d < 2 ^ t := by
  obtain ⟨acc', bits', ret', he, g1, g2, g3, g4⟩ :=
    cbLoop_spec f t hf ht data [] 0 0 [] hdata (by omega) (by simp) (by simp) (by simp)
  simp only [List.nil_append] at g2 g3
  by_cases hb : bits' = 0
  · subst hb
    refine ⟨ret'.reverse, 0, ?_, by omega, by simpa using g3, by simpa [Nat.mod_one] using g2, by simpa using g4⟩
    simp [convertbits, he]
  · have hpt : 0 < 2 ^ t := Nat.pow_pos (by omega)
    have hsplit : 2 ^ t = 2 ^ bits' * 2 ^ (t - bits') := by
      rw [← Nat.pow_add]; congr 1; omega
    have hdig : (acc' <<< (t - bits')) &&& ((1 <<< t) - 1) = (acc' % 2 ^ bits') * 2 ^ (t - bits') := by
      rw [Nat.one_shiftLeft, Nat.and_two_pow_sub_one_eq_mod, Nat.shiftLeft_eq, hsplit, Nat.mul_mod_mul_right]
    refine ⟨(((acc' <<< (t - bits')) &&& ((1 <<< t) - 1)) :: ret').reverse, t - bits', ?_, by omega, ?_, ?_, ?_⟩
    · simp [convertbits, he, hb]
    · simp only [List.length_reverse, List.length_cons]
      have : t * (ret'.length + 1) = t * ret'.length + t := by ring
      omega
    · rw [valBE_rev_cons, hdig, ← g2]
      have : valBE (2 ^ t) ret'.reverse * 2 ^ t = valBE (2 ^ t) ret'.reverse * (2 ^ bits' * 2 ^ (t - bits')) := by
        rw [← hsplit]
      rw [this]
      ring
    · intro d hd
      simp only [List.mem_reverse, List.mem_cons] at hd
      rcases hd with rfl | hd
      · rw [Nat.one_shiftLeft, Nat.and_two_pow_sub_one_eq_mod]; exact Nat.mod_lt _ hpt
      · exact g4 d hd

/-- convertbits 5 → 8 without padding on groups that carry `L` bytes followed by `pad < 5`
    zero bits: exactly those bytes -/
theorem convertbits_5_8_nopad_spec (data : List Nat) (hdata : ∀ v ∈ data, v < 2 ^ 5) (N L pad : Nat) (hpad : pad < 5)
    (hval : valBE (2 ^ 5) data = N * 2 ^ pad) (hlen : 5 * data.length = 8 * L + pad) :
    ∃ out, convertbits data 5 8 false = some out ∧ out.length = L ∧ valBE (2 ^ 8) out = N ∧ ∀ d ∈ out, d < 2 ^ 8 := by
  obtain ⟨acc', bits', ret', he, g1, g2, g3, g4⟩ :=
    cbLoop_spec 5 8 (by omega) (by omega) data [] 0 0 [] hdata (by omega) (by simp) (by simp) (by simp)
  simp only [List.nil_append] at g2 g3
  have hbits : bits' = pad := by omega
  have hL : ret'.length = L := by omega
  subst hbits
  have hpp : 0 < 2 ^ bits' := Nat.pow_pos (by omega)
  have hP : acc' % 2 ^ bits' = 0 := by
    have hm : (2 ^ bits' * valBE (2 ^ 8) ret'.reverse + acc' % 2 ^ bits') % 2 ^ bits' = (N * 2 ^ bits') % 2 ^ bits' := by
      rw [Nat.mul_comm, g2, hval]
    rw [Nat.mul_add_mod, Nat.mod_mod] at hm
    simpa using hm
  have hV : valBE (2 ^ 8) ret'.reverse = N := by
    have := g2.trans hval
    rw [hP, Nat.add_zero] at this
    exact Nat.eq_of_mul_eq_mul_right hpp this
  have hsplit : 2 ^ 8 = 2 ^ bits' * 2 ^ (8 - bits') := by
    rw [← Nat.pow_add]; congr 1; omega
  have hdig : (acc' <<< (8 - bits')) &&& ((1 <<< 8) - 1) = 0 := by
    rw [Nat.one_shiftLeft, Nat.and_two_pow_sub_one_eq_mod, Nat.shiftLeft_eq, hsplit, Nat.mul_mod_mul_right, hP,
      Nat.zero_mul]
  refine ⟨ret'.reverse, ?_, by simpa using hL, hV, by simpa using g4⟩
  have hnb : ¬ (bits' ≥ 5) := by omega
  have he' : cbLoop 5 8 255 4095 data 0 0 [] = some (acc', bits', ret') := he
  have hdig' : (acc' <<< (8 - bits')) &&& 255 = 0 := hdig
  simp [convertbits, he', hnb, hdig']

end Buidl.Bech32
