/-
  Buidl.Proofs.MuSigSpec — the verification the MuSig model runs (MuSig.verifySchnorr over the abstract
  challenge hash) is Buidl.Model.Schnorr.verifySchnorr over SHA-256 with the tag cache, hence — by C02's
  `verifyRaw_iff_spec` — BIP340's Verify of Buidl.Spec.BIP340.
-/
import Buidl.Proofs.MuSig
import Buidl.Proofs.SchnorrVerify

namespace Buidl.MuSig
open Buidl Buidl.EC Buidl.Taproot

theorem parityOf_eq_schnorr (X : Pt) : Schnorr.parityOf X = Taproot.parityOf X := by cases X <;> rfl

theorem tagChallenge_eq : Gen.schnorrTagChallenge = Gen.tagChallenge := by decide

/-- the two transcriptions of pecc.verify_schnorr agree (up to the tag cache, which is not observable) -/
theorem verifySchnorr_bridge (sha256 : Bytes → Bytes) (c : Schnorr.Cache) (hc : Schnorr.CacheOK sha256 c)
    (X : Pt) (msg : Bytes) (R : Pt) (s : ℕ) :
    ∃ c', Schnorr.verifySchnorr sha256 c X msg R s =
      (verifySchnorr (Hashes.ofSha256 sha256) X msg R s).map (fun b => (b, c')) := by
  unfold Schnorr.verifySchnorr verifySchnorr evenPointOf
  rw [parityOf_eq_schnorr]
  cases hp : Taproot.parityOf X with
  | none => exact ⟨c, rfl⟩
  | some par =>
    simp only [Option.bind_eq_bind, Option.bind_some, Option.pure_def]
    cases R with
    | inf => exact ⟨c, rfl⟩
    | aff rx ry =>
      simp only
      obtain ⟨c', hh, _⟩ := Schnorr.taggedHash_spec sha256 c hc Gen.schnorrTagChallenge
        (xonly (.aff rx ry) ++ xonly (if par = 1 then smul (-1) X else X) ++ msg)
      refine ⟨c', ?_⟩
      unfold Schnorr.hashChallenge
      rw [hh]
      simp only [Option.bind_some]
      have hch : beToNat (Spec.BIP340.hashTag sha256 Gen.schnorrTagChallenge
          (xonly (.aff rx ry) ++ xonly (if par = 1 then smul (-1) X else X) ++ msg)) % N =
          challengeOf (Hashes.ofSha256 sha256) (.aff rx ry) (if par = 1 then smul (-1) X else X) msg := by
        unfold challengeOf Hashes.ofSha256 tagged Spec.BIP340.hashTag
        rw [tagChallenge_eq]
      rw [hch]
      cases saddInt (smul (-(challengeOf (Hashes.ofSha256 sha256) (.aff rx ry) (if par = 1 then smul (-1) X else X) msg : ℤ))
          (if par = 1 then smul (-1) X else X)) (s : ℤ) with
      | inf => rfl
      | aff wx wy =>
        simp only
        split <;> rfl

section
variable (gl : GroupLaw)
include gl

/-- **a signature accepted by `verify_schnorr` for the key `x_e·G` is a BIP340 signature for that key's x-only
    encoding** (tagged hashes instantiated with SHA-256) -/
theorem verify_is_bip340 (sha256 : Bytes → Bytes) (xe r : ℤ) (hxe : g xe ≠ .inf) (hr : g r ≠ .inf) (msg : Bytes) (s : ℕ)
    (hs : s < N) (hv : verifySchnorr (Hashes.ofSha256 sha256) (g xe) msg (evenPoint (g r)) s = some true) :
    Spec.BIP340.verify sha256 (xonly (g xe)) msg (xonly (g r) ++ natToBE' 32 s) = true := by
  have hxl : (xonly (g r)).length = 32 := xonly_length' _
  have hsl : (natToBE' 32 s).length = 32 := by simp [natToBE', natToLE'_length]
  apply (Schnorr.verifyRaw_iff_spec sha256 [] (Schnorr.cacheOK_nil sha256) _ _ _ (xonly_length' _)
    (by simp [hxl, hsl])).mp
  unfold Schnorr.verifyRaw
  have hpk : parsePoint (xonly (g xe)) = some (evenPoint (g xe)) := by
    unfold parsePoint; rw [if_pos (xonly_length' _)]; exact gl.lift_x xe hxe
  have hpr : parsePoint (xonly (g r)) = some (evenPoint (g r)) := by
    unfold parsePoint; rw [if_pos hxl]; exact gl.lift_x r hr
  have hlt : s < 256 ^ 32 := Nat.lt_trans hs N_lt_256_32
  rw [hpk, Schnorr.parse_eq, take_append_len _ _ 32 hxl, drop_append_len _ _ 32 hxl, hpr,
    List.take_of_length_le (by omega), beToNat_natToBE' hlt]
  simp only [Option.bind_eq_bind, Option.bind_some, Nat.not_le.mpr hs, if_false]
  obtain ⟨c', hb⟩ := verifySchnorr_bridge sha256 [] (Schnorr.cacheOK_nil sha256) (evenPoint (g xe)) msg (evenPoint (g r)) s
  refine ⟨c', ?_⟩
  rw [hb]
  -- verification on the even representative of the key is verification on the key
  have hev : verifySchnorr (Hashes.ofSha256 sha256) (evenPoint (g xe)) msg (evenPoint (g r)) s = some true := by
    rw [evenPoint_g gl xe]
    rw [verifySchnorr_iff gl _ xe r hxe hr] at hv
    rw [verifySchnorr_iff gl _ (ev xe) r (g_ev_ne_inf gl hxe) hr]
    have hee : ev (ev xe) = ev xe := by
      have h0 := parity_g_ev gl hxe
      show (if parity (g (ev xe)) = 1 then -(ev xe) else ev xe) = ev xe
      rw [if_neg (by omega)]
    have hch : challengeOf (Hashes.ofSha256 sha256) (evenPoint (g r)) (evenPoint (g (ev xe))) msg =
        challengeOf (Hashes.ofSha256 sha256) (evenPoint (g r)) (evenPoint (g xe)) msg := by
      unfold challengeOf
      have e1 : xonly (evenPoint (g (ev xe))) = xonly (g xe) := by
        rw [gl.xonly_evenPoint_smul]; exact xonly_g_ev gl xe
      have e2 : xonly (evenPoint (g xe)) = xonly (g xe) := gl.xonly_evenPoint_smul xe
      rw [e1, e2]
    rw [hee, hch]
    exact hv
  rw [hev]
  rfl

end

end Buidl.MuSig
