/-
  Helper lemmas for C07: number codec (model `encodeNum`/`decodeNum` versus `CScriptNum`),
  `CastToBool`, per-function conformance of the `op_*` models with the consensus `execOp`,
  timelock arithmetic, and the induction for straight-line programs.
-/
import Buidl.Proofs.Bytes
import Buidl.Model.Interp
import Buidl.Spec.Consensus
namespace Buidl.Interp
open Buidl Buidl.Script
open Buidl.Spec

/-! ## number codec -/

theorem leToNat_append (a b : Bytes) : leToNat (a ++ b) = leToNat a + 256 ^ a.length * leToNat b := by
  induction a with
  | nil => simp [leToNat]
  | cons x xs ih =>
    simp only [List.cons_append, leToNat, ih, List.length_cons, Nat.pow_succ]
    rw [Nat.mul_add, Nat.mul_comm (256 ^ xs.length) 256, Nat.mul_assoc]
    omega

theorem leToNat_single (x : UInt8) : leToNat [x] = x.toNat := by simp [leToNat]

theorem beToNatAux_eq (acc : Nat) (b : Bytes) :
    beToNatAux acc b = acc * 256 ^ b.length + beToNat b := by
  induction b generalizing acc with
  | nil => simp [beToNatAux, beToNat]
  | cons x xs ih =>
    simp only [beToNatAux, beToNat, List.length_cons, Nat.pow_succ]
    rw [ih, ih (0 * 256 + x.toNat)]
    simp only [Nat.zero_mul, Nat.zero_add, Nat.add_mul, Nat.mul_assoc, Nat.mul_comm 256 (256 ^ xs.length)]
    omega

/-- `decode_num` in terms of the little-endian value: total, and equal to `CScriptNum::set_vch`
    for byte strings of every length -/
theorem decodeNum_eq_scriptNum (b : Bytes) : decodeNum b = Consensus.scriptNum b := by
  unfold decodeNum Consensus.scriptNum
  cases hr : b.reverse with
  | nil =>
    have : b = [] := by simpa using hr
    simp [this]
  | cons top rest =>
    have hb : b = rest.reverse ++ [top] := List.reverse_eq_cons_iff.mp hr
    have hne : b ≠ [] := by rw [hb]; simp
    simp only [hne, if_false]
    have hlen : b.length - 1 = rest.length := by rw [hb]; simp
    have hv : leToNat b = leToNat rest.reverse + 256 ^ rest.length * top.toNat := by
      rw [hb, leToNat_append, leToNat_single]; simp
    have hlt : leToNat rest.reverse < 256 ^ rest.length := by
      have := leToNat_lt rest.reverse; simpa using this
    have hbe : ∀ acc, beToNatAux acc rest = acc * 256 ^ rest.length + leToNat rest.reverse := by
      intro acc; rw [beToNatAux_eq, ← beToNat_reverse, List.reverse_reverse]
    rw [hlen, hv, hbe, hbe]
    have htop := top.toNat_lt
    generalize 256 ^ rest.length = P at *
    generalize leToNat rest.reverse = L at *
    by_cases h128 : 128 ≤ top.toNat
    · have h1 : P * 128 ≤ P * top.toNat := Nat.mul_le_mul_left _ h128
      have h2 : (top.toNat - 128) * P = P * top.toNat - P * 128 := by
        rw [Nat.mul_comm, Nat.mul_sub]
      simp only [h128, if_true]
      have h3 : 128 * P ≤ L + P * top.toNat := by omega
      simp only [h3, if_true]
      congr 2
      omega
    · have h1 : P * top.toNat ≤ P * 127 := Nat.mul_le_mul_left _ (by omega)
      simp only [h128, if_false]
      have h3 : ¬ 128 * P ≤ L + P * top.toNat := by omega
      simp only [h3, if_false]
      congr 1
      rw [Nat.mul_comm]; omega

theorem magBytes_value : ∀ (f n : Nat), n ≤ f → leToNat (magBytes f n) = n
  | 0, n, h => by
    have : n = 0 := by omega
    simp [magBytes, leToNat, this]
  | f + 1, n, h => by
    unfold magBytes
    by_cases h0 : n = 0
    · simp [h0, leToNat]
    · simp only [h0, if_false, leToNat]
      rw [magBytes_value f (n / 256) (by omega), u8_ofNat_toNat]
      omega

/-- for a positive number the loop leaves at least one byte and the last one is not zero -/
theorem magBytes_last : ∀ (f n : Nat), n ≤ f → 0 < n →
    ∃ init last, magBytes f n = init ++ [last] ∧ last.toNat ≠ 0
  | 0, n, h, hp => by omega
  | f + 1, n, h, hp => by
    unfold magBytes
    have h0 : n ≠ 0 := by omega
    simp only [h0, if_false]
    by_cases hq : n / 256 = 0
    · refine ⟨[], UInt8.ofNat (n % 256), ?_, ?_⟩
      · cases f with
        | zero => simp [magBytes]
        | succ f => simp [magBytes, hq]
      · rw [u8_ofNat_toNat]; omega
    · obtain ⟨init, last, he, hl⟩ := magBytes_last f (n / 256) (by omega) (by omega)
      exact ⟨UInt8.ofNat (n % 256) :: init, last, by rw [he]; rfl, hl⟩

theorem magLE_eq_magBytes : ∀ f n, Consensus.magLE f n = magBytes f n
  | 0, _ => rfl
  | f + 1, n => by
    unfold Consensus.magLE magBytes
    by_cases h0 : n = 0
    · simp [h0]
    · simp only [h0, if_false]; rw [magLE_eq_magBytes f]

/-- the model's encoder is `CScriptNum::serialize` -/
theorem encodeNum_eq_serialize (n : Int) : encodeNum n = Consensus.serialize n := by
  unfold encodeNum Consensus.serialize
  by_cases h0 : n = 0
  · simp [h0]
  · simp only [h0, if_false, magLE_eq_magBytes]
    obtain ⟨init, last, he, _⟩ := magBytes_last n.natAbs n.natAbs (Nat.le_refl _) (by omega)
    rw [he]
    simp only [List.reverse_append, List.reverse_cons, List.reverse_nil, List.nil_append,
      List.singleton_append, List.getLast?_append, List.getLast?_singleton, Option.some_or,
      List.dropLast_concat, List.reverse_reverse]

/-- shape of an encoding: magnitude bytes `init ++ [last]` with `last ≠ 0`, then the sign rule -/
theorem encodeNum_shape (n : Int) (h0 : n ≠ 0) :
    ∃ init last, last.toNat ≠ 0 ∧ leToNat (init ++ [last]) = n.natAbs ∧
      encodeNum n =
        if 128 ≤ last.toNat then init ++ [last] ++ [if n < 0 then 0x80 else 0]
        else if n < 0 then init ++ [UInt8.ofNat (last.toNat + 128)]
        else init ++ [last] := by
  obtain ⟨init, last, he, hl⟩ := magBytes_last n.natAbs n.natAbs (Nat.le_refl _) (by omega)
  refine ⟨init, last, hl, ?_, ?_⟩
  · rw [← he]; exact magBytes_value _ _ (Nat.le_refl _)
  · unfold encodeNum
    simp only [h0, if_false, he, List.reverse_append, List.reverse_cons, List.reverse_nil,
      List.nil_append, List.singleton_append, List.reverse_reverse]

/-- decoding inverts encoding, for every integer -/
theorem scriptNum_encodeNum (n : Int) : Consensus.scriptNum (encodeNum n) = n := by
  by_cases h0 : n = 0
  · subst h0; simp [encodeNum, Consensus.scriptNum]
  · obtain ⟨init, last, hl, hv, he⟩ := encodeNum_shape n h0
    rw [leToNat_append, leToNat_single] at hv
    have hlt := leToNat_lt init
    have hlast := last.toNat_lt
    rw [he]
    unfold Consensus.scriptNum
    have hlen1 : ∀ x : UInt8, (init ++ [x]).length - 1 = init.length := by intro x; simp
    have hlen2 : ∀ x y : UInt8, (init ++ [x] ++ [y]).length - 1 = init.length + 1 := by intro x y; simp
    have hlen3 : ∀ x : UInt8, (init ++ [x]).length = init.length + 1 := by intro x; simp
    have h80 : (0x80 : UInt8).toNat = 128 := rfl
    have h00 : (0 : UInt8).toNat = 0 := rfl
    by_cases h128 : 128 ≤ last.toNat
    · rw [if_pos h128]
      have hne : init ++ [last] ++ [if n < 0 then (0x80 : UInt8) else 0] ≠ [] := by simp
      rw [if_neg hne, hlen2, leToNat_append, leToNat_append, leToNat_single, leToNat_single, hlen3,
        Nat.pow_succ]
      generalize 256 ^ init.length = P at *
      generalize leToNat init = L at *
      have h1 : P * last.toNat ≤ P * 255 := Nat.mul_le_mul_left _ (by omega)
      by_cases hneg : n < 0
      · rw [if_pos hneg, h80]
        have hge : 128 * (P * 256) ≤ L + P * last.toNat + P * 256 * 128 := by omega
        rw [if_pos hge]
        have e : L + P * last.toNat + P * 256 * 128 - 128 * (P * 256) = n.natAbs := by omega
        rw [e]; omega
      · rw [if_neg hneg, h00]
        have hge : ¬ 128 * (P * 256) ≤ L + P * last.toNat + P * 256 * 0 := by omega
        rw [if_neg hge]
        omega
    · rw [if_neg h128]
      by_cases hneg : n < 0
      · rw [if_pos hneg]
        have hne : init ++ [UInt8.ofNat (last.toNat + 128)] ≠ [] := by simp
        rw [if_neg hne, hlen1, leToNat_append, leToNat_single, u8_ofNat_toNat]
        have hm : (last.toNat + 128) % 256 = last.toNat + 128 := by omega
        rw [hm]
        generalize 256 ^ init.length = P at *
        generalize leToNat init = L at *
        have h1 : P * last.toNat ≤ P * 127 := Nat.mul_le_mul_left _ (by omega)
        have h2 : P * (last.toNat + 128) = P * last.toNat + P * 128 := Nat.mul_add _ _ _
        rw [h2]
        have hge : 128 * P ≤ L + (P * last.toNat + P * 128) := by omega
        rw [if_pos hge]
        have e : L + (P * last.toNat + P * 128) - 128 * P = n.natAbs := by omega
        rw [e]; omega
      · rw [if_neg hneg]
        have hne : init ++ [last] ≠ [] := by simp
        rw [if_neg hne, hlen1, leToNat_append, leToNat_single]
        generalize 256 ^ init.length = P at *
        generalize leToNat init = L at *
        have h1 : P * last.toNat ≤ P * 127 := Nat.mul_le_mul_left _ (by omega)
        have hge : ¬ 128 * P ≤ L + P * last.toNat := by omega
        rw [if_neg hge]
        omega

theorem decodeNum_encodeNum (n : Int) : decodeNum (encodeNum n) = n := by
  rw [decodeNum_eq_scriptNum, scriptNum_encodeNum]

/-- no redundant leading (most significant) byte -/
theorem minimal_encodeNum (n : Int) : Consensus.minimal (encodeNum n) = true := by
  by_cases h0 : n = 0
  · subst h0; simp [encodeNum, Consensus.minimal]
  · obtain ⟨init, last, hl, _, he⟩ := encodeNum_shape n h0
    have hlast := last.toNat_lt
    rw [he]
    unfold Consensus.minimal
    by_cases h128 : 128 ≤ last.toNat
    · simp only [h128, if_true, List.reverse_append, List.reverse_cons, List.reverse_nil,
        List.nil_append, List.singleton_append, List.cons_append]
      by_cases hneg : n < 0
      · simp only [hneg, if_true]
        have : (0x80 : UInt8).toNat % 128 = 0 := rfl
        simp [this, h128]
      · simp only [hneg, if_false]
        have : (0 : UInt8).toNat % 128 = 0 := rfl
        simp [this, h128]
    · simp only [h128, if_false]
      by_cases hneg : n < 0
      · simp only [hneg, if_true, List.reverse_append, List.reverse_cons, List.reverse_nil,
          List.nil_append, List.singleton_append]
        rw [u8_ofNat_toNat]
        have : ¬ (last.toNat + 128) % 256 % 128 = 0 := by omega
        simp only [this, if_false]
      · simp only [hneg, if_false, List.reverse_append, List.reverse_cons, List.reverse_nil,
          List.nil_append, List.singleton_append]
        have : ¬ last.toNat % 128 = 0 := by omega
        simp only [this, if_false]

/-! ## CastToBool -/

theorem castToBool_false_iff (b : Bytes) :
    Consensus.castToBool b = false ↔
      (leToNat b = 0 ∨ (b ≠ [] ∧ leToNat b = 128 * 256 ^ (b.length - 1))) := by
  induction b with
  | nil => simp [Consensus.castToBool, leToNat]
  | cons x r ih =>
    have hx := x.toNat_lt
    have hx0 : x = 0 ↔ x.toNat = 0 := by
      constructor
      · intro h; rw [h]; rfl
      · intro h; exact UInt8.toNat_inj.mp (by rw [h]; rfl)
    have hx80 : x = 0x80 ↔ x.toNat = 128 := by
      constructor
      · intro h; rw [h]; rfl
      · intro h; exact UInt8.toNat_inj.mp (by rw [h]; rfl)
    cases r with
    | nil =>
      simp only [Consensus.castToBool, leToNat, List.isEmpty_nil, Bool.true_and, List.length_cons,
        List.length_nil]
      by_cases h0 : x = 0
      · simp [h0]
      · have : x.toNat ≠ 0 := fun h => h0 (hx0.mpr h)
        simp only [ne_eq, h0, not_false_eq_true, if_true, Bool.not_eq_false', beq_iff_eq, hx80]
        constructor
        · intro h; right; exact ⟨by simp, by omega⟩
        · intro h; omega
    | cons y r' =>
      have ih' := ih
      simp only [Consensus.castToBool] at ih' ⊢
      simp only [List.isEmpty_cons, Bool.false_and, Bool.not_false]
      have hlen : (x :: y :: r').length - 1 = (y :: r').length - 1 + 1 := by simp
      rw [hlen, Nat.pow_succ]
      simp only [leToNat] at ih' ⊢
      generalize 256 ^ ((y :: r').length - 1) = P at *
      by_cases h0 : x = 0
      · have h0' := hx0.mp h0
        simp only [h0, ne_eq, not_true_eq_false, if_false]
        rw [ih']
        have : (0:UInt8).toNat = 0 := rfl
        rw [this]
        constructor
        · rintro (h | ⟨_, h⟩)
          · left; omega
          · right; exact ⟨by simp, by omega⟩
        · rintro (h | ⟨_, h⟩)
          · left; omega
          · right; exact ⟨by simp, by omega⟩
      · have h0' : x.toNat ≠ 0 := fun h => h0 (hx0.mpr h)
        simp only [ne_eq, h0, not_false_eq_true, if_true]
        constructor
        · intro h; cases h
        · rintro (h | ⟨_, h⟩) <;> omega

end Buidl.Interp
