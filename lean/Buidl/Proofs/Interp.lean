/-
  Helper lemmas for C07: number codec (model `encodeNum`/`decodeNum` versus `CScriptNum`),
  `CastToBool`, per-function conformance of the `op_*` models with the consensus `execOp`,
  timelock arithmetic, and the induction for straight-line programs.
-/
import Buidl.Proofs.Bytes
import Buidl.Model.Interp
import Buidl.Spec.Consensus
namespace Buidl.Interp
open Buidl Buidl.Script
open Buidl.Spec

/-! ## number codec -/

theorem leToNat_append (a b : Bytes) : leToNat (a ++ b) = leToNat a + 256 ^ a.length * leToNat b := by
  induction a with
  | nil => simp [leToNat]
  | cons x xs ih =>
    simp only [List.cons_append, leToNat, ih, List.length_cons, Nat.pow_succ]
    rw [Nat.mul_add, Nat.mul_comm (256 ^ xs.length) 256, Nat.mul_assoc]
    omega

theorem leToNat_single (x : UInt8) : leToNat [x] = x.toNat := by simp [leToNat]

theorem beToNatAux_eq (acc : Nat) (b : Bytes) :
    beToNatAux acc b = acc * 256 ^ b.length + beToNat b := by
  induction b generalizing acc with
  | nil => simp [beToNatAux, beToNat]
  | cons x xs ih =>
    simp only [beToNatAux, beToNat, List.length_cons, Nat.pow_succ]
    rw [ih, ih (0 * 256 + x.toNat)]
    simp only [Nat.zero_mul, Nat.zero_add, Nat.add_mul, Nat.mul_assoc, Nat.mul_comm 256 (256 ^ xs.length)]
    omega

/-- `decode_num` in terms of the little-endian value: total, and equal to `CScriptNum::set_vch`
    for byte strings of every length -/
theorem decodeNum_eq_scriptNum (b : Bytes) : decodeNum b = Consensus.scriptNum b := by
  unfold decodeNum Consensus.scriptNum
  cases hr : b.reverse with
  | nil =>
    have : b = [] := by simpa using hr
    simp [this]
  | cons top rest =>
    have hb : b = rest.reverse ++ [top] := List.reverse_eq_cons_iff.mp hr
    have hne : b ≠ [] := by rw [hb]; simp
    simp only [hne, if_false]
    have hlen : b.length - 1 = rest.length := by rw [hb]; simp
    have hv : leToNat b = leToNat rest.reverse + 256 ^ rest.length * top.toNat := by
      rw [hb, leToNat_append, leToNat_single]; simp
    have hlt : leToNat rest.reverse < 256 ^ rest.length := by
      have := leToNat_lt rest.reverse; simpa using this
    have hbe : ∀ acc, beToNatAux acc rest = acc * 256 ^ rest.length + leToNat rest.reverse := by
      intro acc; rw [beToNatAux_eq, ← beToNat_reverse, List.reverse_reverse]
    rw [hlen, hv, hbe, hbe]
    have htop := top.toNat_lt
    generalize 256 ^ rest.length = P at *
    generalize leToNat rest.reverse = L at *
    by_cases h128 : 128 ≤ top.toNat
    · have h1 : P * 128 ≤ P * top.toNat := Nat.mul_le_mul_left _ h128
      have h2 : (top.toNat - 128) * P = P * top.toNat - P * 128 := by
        rw [Nat.mul_comm, Nat.mul_sub]
      simp only [h128, if_true]
      have h3 : 128 * P ≤ L + P * top.toNat := by omega
      simp only [h3, if_true]
      congr 2
      omega
    · have h1 : P * top.toNat ≤ P * 127 := Nat.mul_le_mul_left _ (by omega)
      simp only [h128, if_false]
      have h3 : ¬ 128 * P ≤ L + P * top.toNat := by omega
      simp only [h3, if_false]
      congr 1
      rw [Nat.mul_comm]; omega

theorem magBytes_value : ∀ (f n : Nat), n ≤ f → leToNat (magBytes f n) = n
  | 0, n, h => by
    have : n = 0 := by omega
    simp [magBytes, leToNat, this]
  | f + 1, n, h => by
    unfold magBytes
    by_cases h0 : n = 0
    · simp [h0, leToNat]
    · simp only [h0, if_false, leToNat]
      rw [magBytes_value f (n / 256) (by omega), u8_ofNat_toNat]
      omega

/-- for a positive number the loop leaves at least one byte and the last one is not zero -/
theorem magBytes_last : ∀ (f n : Nat), n ≤ f → 0 < n →
    ∃ init last, magBytes f n = init ++ [last] ∧ last.toNat ≠ 0
  | 0, n, h, hp => by omega
  | f + 1, n, h, hp => by
    unfold magBytes
    have h0 : n ≠ 0 := by omega
    simp only [h0, if_false]
    by_cases hq : n / 256 = 0
    · refine ⟨[], UInt8.ofNat (n % 256), ?_, ?_⟩
      · cases f with
        | zero => simp [magBytes]
        | succ f => simp [magBytes, hq]
      · rw [u8_ofNat_toNat]; omega
    · obtain ⟨init, last, he, hl⟩ := magBytes_last f (n / 256) (by omega) (by omega)
      exact ⟨UInt8.ofNat (n % 256) :: init, last, by rw [he]; rfl, hl⟩

theorem magLE_eq_magBytes : ∀ f n, Consensus.magLE f n = magBytes f n
  | 0, _ => rfl
  | f + 1, n => by
    unfold Consensus.magLE magBytes
    by_cases h0 : n = 0
    · simp [h0]
    · simp only [h0, if_false]; rw [magLE_eq_magBytes f]

/-- the model's encoder is `CScriptNum::serialize` -/
theorem encodeNum_eq_serialize (n : Int) : encodeNum n = Consensus.serialize n := by
  unfold encodeNum Consensus.serialize
  by_cases h0 : n = 0
  · simp [h0]
  · simp only [h0, if_false, magLE_eq_magBytes]
    obtain ⟨init, last, he, _⟩ := magBytes_last n.natAbs n.natAbs (Nat.le_refl _) (by omega)
    rw [he]
    simp only [List.reverse_append, List.reverse_cons, List.reverse_nil, List.nil_append,
      List.singleton_append, List.getLast?_append, List.getLast?_singleton, Option.some_or,
      List.dropLast_concat, List.reverse_reverse]

/-- shape of an encoding: magnitude bytes `init ++ [last]` with `last ≠ 0`, then the sign rule -/
theorem encodeNum_shape (n : Int) (h0 : n ≠ 0) :
    ∃ init last, last.toNat ≠ 0 ∧ leToNat (init ++ [last]) = n.natAbs ∧
      encodeNum n =
        if 128 ≤ last.toNat then init ++ [last] ++ [if n < 0 then 0x80 else 0]
        else if n < 0 then init ++ [UInt8.ofNat (last.toNat + 128)]
        else init ++ [last] := by
  obtain ⟨init, last, he, hl⟩ := magBytes_last n.natAbs n.natAbs (Nat.le_refl _) (by omega)
  refine ⟨init, last, hl, ?_, ?_⟩
  · rw [← he]; exact magBytes_value _ _ (Nat.le_refl _)
  · unfold encodeNum
    simp only [h0, if_false, he, List.reverse_append, List.reverse_cons, List.reverse_nil,
      List.nil_append, List.singleton_append, List.reverse_reverse]

/-- decoding inverts encoding, for every integer -/
theorem scriptNum_encodeNum (n : Int) : Consensus.scriptNum (encodeNum n) = n := by
  by_cases h0 : n = 0
  · subst h0; simp [encodeNum, Consensus.scriptNum]
  · obtain ⟨init, last, hl, hv, he⟩ := encodeNum_shape n h0
    rw [leToNat_append, leToNat_single] at hv
    have hlt := leToNat_lt init
    have hlast := last.toNat_lt
    rw [he]
    unfold Consensus.scriptNum
    have hlen1 : ∀ x : UInt8, (init ++ [x]).length - 1 = init.length := by intro x; simp
    have hlen2 : ∀ x y : UInt8, (init ++ [x] ++ [y]).length - 1 = init.length + 1 := by intro x y; simp
    have hlen3 : ∀ x : UInt8, (init ++ [x]).length = init.length + 1 := by intro x; simp
    have h80 : (0x80 : UInt8).toNat = 128 := rfl
    have h00 : (0 : UInt8).toNat = 0 := rfl
    by_cases h128 : 128 ≤ last.toNat
    · rw [if_pos h128]
      have hne : init ++ [last] ++ [if n < 0 then (0x80 : UInt8) else 0] ≠ [] := by simp
      rw [if_neg hne, hlen2, leToNat_append, leToNat_append, leToNat_single, leToNat_single, hlen3,
        Nat.pow_succ]
      generalize 256 ^ init.length = P at *
      generalize leToNat init = L at *
      have h1 : P * last.toNat ≤ P * 255 := Nat.mul_le_mul_left _ (by omega)
      by_cases hneg : n < 0
      · rw [if_pos hneg, h80]
        have hge : 128 * (P * 256) ≤ L + P * last.toNat + P * 256 * 128 := by omega
        rw [if_pos hge]
        have e : L + P * last.toNat + P * 256 * 128 - 128 * (P * 256) = n.natAbs := by omega
        rw [e]; omega
      · rw [if_neg hneg, h00]
        have hge : ¬ 128 * (P * 256) ≤ L + P * last.toNat + P * 256 * 0 := by omega
        rw [if_neg hge]
        omega
    · rw [if_neg h128]
      by_cases hneg : n < 0
      · rw [if_pos hneg]
        have hne : init ++ [UInt8.ofNat (last.toNat + 128)] ≠ [] := by simp
        rw [if_neg hne, hlen1, leToNat_append, leToNat_single, u8_ofNat_toNat]
        have hm : (last.toNat + 128) % 256 = last.toNat + 128 := by omega
        rw [hm]
        generalize 256 ^ init.length = P at *
        generalize leToNat init = L at *
        have h1 : P * last.toNat ≤ P * 127 := Nat.mul_le_mul_left _ (by omega)
        have h2 : P * (last.toNat + 128) = P * last.toNat + P * 128 := Nat.mul_add _ _ _
        rw [h2]
        have hge : 128 * P ≤ L + (P * last.toNat + P * 128) := by omega
        rw [if_pos hge]
        have e : L + (P * last.toNat + P * 128) - 128 * P = n.natAbs := by omega
        rw [e]; omega
      · rw [if_neg hneg]
        have hne : init ++ [last] ≠ [] := by simp
        rw [if_neg hne, hlen1, leToNat_append, leToNat_single]
        generalize 256 ^ init.length = P at *
        generalize leToNat init = L at *
        have h1 : P * last.toNat ≤ P * 127 := Nat.mul_le_mul_left _ (by omega)
        have hge : ¬ 128 * P ≤ L + P * last.toNat := by omega
        rw [if_neg hge]
        omega

theorem decodeNum_encodeNum (n : Int) : decodeNum (encodeNum n) = n := by
  rw [decodeNum_eq_scriptNum, scriptNum_encodeNum]

/-- no redundant leading (most significant) byte -/
theorem minimal_encodeNum (n : Int) : Consensus.minimal (encodeNum n) = true := by
  by_cases h0 : n = 0
  · subst h0; simp [encodeNum, Consensus.minimal]
  · obtain ⟨init, last, hl, _, he⟩ := encodeNum_shape n h0
    have hlast := last.toNat_lt
    rw [he]
    unfold Consensus.minimal
    by_cases h128 : 128 ≤ last.toNat
    · simp only [h128, if_true, List.reverse_append, List.reverse_cons, List.reverse_nil,
        List.nil_append, List.singleton_append]
      by_cases hneg : n < 0
      · simp only [hneg, if_true]
        simp
      · simp only [hneg, if_false]
        simp
    · simp only [h128, if_false]
      by_cases hneg : n < 0
      · simp only [hneg, if_true, List.reverse_append, List.reverse_cons, List.reverse_nil,
          List.nil_append, List.singleton_append]
        rw [u8_ofNat_toNat]
        have : ¬ (last.toNat + 128) % 256 % 128 = 0 := by omega
        simp only [this, if_false]
      · simp only [hneg, if_false, List.reverse_append, List.reverse_cons, List.reverse_nil,
          List.nil_append, List.singleton_append]
        have : ¬ last.toNat % 128 = 0 := by omega
        simp only [this, if_false]

/-! ## CastToBool -/

theorem castToBool_false_iff (b : Bytes) :
    Consensus.castToBool b = false ↔
      (leToNat b = 0 ∨ (b ≠ [] ∧ leToNat b = 128 * 256 ^ (b.length - 1))) := by
  induction b with
  | nil => simp [Consensus.castToBool, leToNat]
  | cons x r ih =>
    have hx := x.toNat_lt
    have hx0 : x = 0 ↔ x.toNat = 0 := by
      constructor
      · intro h; rw [h]; rfl
      · intro h; exact UInt8.toNat_inj.mp (by rw [h]; rfl)
    have hx80 : x = 0x80 ↔ x.toNat = 128 := by
      constructor
      · intro h; rw [h]; rfl
      · intro h; exact UInt8.toNat_inj.mp (by rw [h]; rfl)
    cases r with
    | nil =>
      simp only [Consensus.castToBool, leToNat, List.isEmpty_nil, Bool.true_and, List.length_cons,
        List.length_nil]
      by_cases h0 : x = 0
      · simp [h0]
      · have : x.toNat ≠ 0 := fun h => h0 (hx0.mpr h)
        simp only [ne_eq, h0, not_false_eq_true, if_true, Bool.not_eq_false', beq_iff_eq, hx80]
        constructor
        · intro h; right; exact ⟨by simp, by omega⟩
        · intro h; omega
    | cons y r' =>
      have ih' := ih
      simp only [Consensus.castToBool] at ih' ⊢
      simp only [List.isEmpty_cons, Bool.false_and, Bool.not_false]
      have hlen : (x :: y :: r').length - 1 = (y :: r').length - 1 + 1 := by simp
      rw [hlen, Nat.pow_succ]
      simp only [leToNat] at ih' ⊢
      generalize 256 ^ ((y :: r').length - 1) = P at *
      by_cases h0 : x = 0
      · have h0' := hx0.mp h0
        simp only [h0, ne_eq, not_true_eq_false, if_false]
        rw [ih']
        have : (0:UInt8).toNat = 0 := rfl
        rw [this]
        constructor
        · rintro (h | ⟨_, h⟩)
          · left; omega
          · right; exact ⟨by simp, by omega⟩
        · rintro (h | ⟨_, h⟩)
          · left; omega
          · right; exact ⟨by simp, by omega⟩
      · have h0' : x.toNat ≠ 0 := fun h => h0 (hx0.mpr h)
        simp only [ne_eq, h0, not_false_eq_true, if_true]
        constructor
        · intro h; cases h
        · rintro (h | ⟨_, h⟩) <;> omega

theorem scriptNum_eq_zero_iff (b : Bytes) :
    Consensus.scriptNum b = 0 ↔
      (leToNat b = 0 ∨ (b ≠ [] ∧ leToNat b = 128 * 256 ^ (b.length - 1))) := by
  unfold Consensus.scriptNum
  by_cases hb : b = []
  · subst hb; simp [leToNat]
  · simp only [hb, if_false, ne_eq, not_false_eq_true, true_and]
    have hpos : 0 < 256 ^ (b.length - 1) := Nat.pow_pos (by omega)
    generalize 256 ^ (b.length - 1) = P at *
    generalize leToNat b = v at *
    split <;> omega

/-- `CastToBool` is the truth test the implementation uses (`decode_num(x) != 0`), for byte
    strings of every length -/
theorem castToBool_iff (b : Bytes) : Consensus.castToBool b = true ↔ decodeNum b ≠ 0 := by
  rw [decodeNum_eq_scriptNum, Ne, scriptNum_eq_zero_iff, ← castToBool_false_iff]
  cases Consensus.castToBool b <;> simp

theorem castToBool_eq (b : Bytes) : Consensus.castToBool b = !(decodeNum b == 0) := by
  have := castToBool_iff b
  cases h : Consensus.castToBool b
  · simp only [h, Bool.false_eq_true, false_iff, ne_eq, Decidable.not_not] at this
    simp [this]
  · simp only [h, true_iff] at this
    simp [this]

theorem boolNum_eq (b : Bool) : boolNum b = Consensus.vchBool b := by cases b <;> rfl

theorem decodeNum_boolNum (b : Bool) : decodeNum (boolNum b) = if b then 1 else 0 := by
  cases b <;> rfl
/-! ## per-function conformance with `Consensus.execOp` -/

/-- the consensus context seen by an environment -/
def ctxOf (env : Env) : Consensus.Ctx :=
  { locktime := env.locktime, sequence := env.sequence, version := env.version,
    sha1 := env.sha1, ripemd160 := env.ripemd160, sha256 := env.sha256,
    hash160 := env.hash160, hash256 := env.hash256 }

/-- model result of a stack function as a consensus result (returned False and raised are both
    failures) -/
def liftS (r : Res Stack) (alt : Stack) : Consensus.Res (Stack × Stack) :=
  match r with
  | .ok s => .ok (s, alt)
  | .fail => .fail
  | .err _ => .fail

def liftSA (r : Res (Stack × Stack)) : Consensus.Res (Stack × Stack) :=
  match r with
  | .ok p => .ok p
  | .fail => .fail
  | .err _ => .fail

section
variable (ctx : Consensus.Ctx) (s alt : Stack)

theorem conf_num_0 : liftS (op_num 0 s) alt = Consensus.execOp ctx 0 s alt := rfl
theorem conf_num_neg1 : liftS (op_num (-1) s) alt = Consensus.execOp ctx 79 s alt := by
  show _ = Consensus.Res.ok (Consensus.serialize (-1) :: s, alt)
  rw [← encodeNum_eq_serialize]; rfl

/-- op_1 … op_16 -/
theorem conf_num_pos (c : Nat) (h1 : 81 ≤ c) (h2 : c ≤ 96) :
    liftS (op_num ((c : Int) - 80) s) alt = Consensus.execOp ctx c s alt := by
  have : Consensus.execOp ctx c s alt = .ok (Consensus.serialize ((c : Int) - 80) :: s, alt) := by
    have : c = 81 ∨ c = 82 ∨ c = 83 ∨ c = 84 ∨ c = 85 ∨ c = 86 ∨ c = 87 ∨ c = 88 ∨ c = 89 ∨ c = 90 ∨
      c = 91 ∨ c = 92 ∨ c = 93 ∨ c = 94 ∨ c = 95 ∨ c = 96 := by omega
    rcases this with h | h | h | h | h | h | h | h | h | h | h | h | h | h | h | h <;> subst h <;> rfl
  rw [this, ← encodeNum_eq_serialize]; rfl

theorem conf_nop (c : Nat) (h : c = 97 ∨ c = 176 ∨ c = 179 ∨ c = 180 ∨ c = 181 ∨ c = 182 ∨ c = 183 ∨
    c = 184 ∨ c = 185) : liftS (op_nop s) alt = Consensus.execOp ctx c s alt := by
  rcases h with h | h | h | h | h | h | h | h | h <;> subst h <;> rfl

theorem conf_verify : liftS (op_verify s) alt = Consensus.execOp ctx 105 s alt := by
  rcases s with _ | ⟨x, s⟩
  · rfl
  · show liftS (if decodeNum x = 0 then .fail else .ok s) alt
      = (if Consensus.castToBool x then Consensus.Res.ok s else .fail).map (·, alt)
    rw [castToBool_eq]
    by_cases h : decodeNum x = 0 <;> simp [h, liftS, Consensus.Res.map]

theorem conf_return : liftS (op_return s) alt = Consensus.execOp ctx 106 s alt := rfl

theorem conf_toaltstack : liftSA (op_toaltstack s alt) = Consensus.execOp ctx 107 s alt := by
  rcases s with _ | ⟨x, s⟩ <;> rfl

theorem conf_fromaltstack : liftSA (op_fromaltstack s alt) = Consensus.execOp ctx 108 s alt := by
  rcases alt with _ | ⟨x, a⟩ <;> rfl

theorem conf_2drop : liftS (op_2drop s) alt = Consensus.execOp ctx 109 s alt := by
  rcases s with _ | ⟨b, _ | ⟨a, s⟩⟩ <;> rfl

theorem conf_2dup : liftS (op_2dup s) alt = Consensus.execOp ctx 110 s alt := by
  rcases s with _ | ⟨b, _ | ⟨a, s⟩⟩ <;> rfl

theorem conf_3dup : liftS (op_3dup s) alt = Consensus.execOp ctx 111 s alt := by
  rcases s with _ | ⟨c, _ | ⟨b, _ | ⟨a, s⟩⟩⟩ <;> rfl

theorem conf_2over : liftS (op_2over s) alt = Consensus.execOp ctx 112 s alt := by
  rcases s with _ | ⟨d, _ | ⟨c, _ | ⟨b, _ | ⟨a, s⟩⟩⟩⟩ <;> rfl

/-- OP_2ROT conforms on every stack with fewer than six items (both fail); with six or more it
    does not (F07b) -/
theorem conf_2rot_short (h : s.length < 6) : liftS (op_2rot s) alt = Consensus.execOp ctx 113 s alt := by
  rcases s with _ | ⟨f, _ | ⟨e, _ | ⟨d, _ | ⟨c, _ | ⟨b, _ | ⟨a, s⟩⟩⟩⟩⟩⟩ <;> first | rfl | (simp at h; omega)

theorem conf_2swap : liftS (op_2swap s) alt = Consensus.execOp ctx 114 s alt := by
  rcases s with _ | ⟨d, _ | ⟨c, _ | ⟨b, _ | ⟨a, s⟩⟩⟩⟩ <;> rfl

theorem conf_ifdup : liftS (op_ifdup s) alt = Consensus.execOp ctx 115 s alt := by
  rcases s with _ | ⟨x, s⟩
  · rfl
  · show liftS (if decodeNum x ≠ 0 then .ok (x :: x :: s) else .ok (x :: s)) alt
      = (if Consensus.castToBool x then Consensus.Res.ok (x :: x :: s, alt) else .ok (x :: s, alt))
    rw [castToBool_eq]
    by_cases h : decodeNum x = 0 <;> simp [h, liftS]

theorem conf_depth : liftS (op_depth s) alt = Consensus.execOp ctx 116 s alt := by
  show _ = Consensus.Res.ok (Consensus.serialize (s.length : Int) :: s, alt)
  rw [← encodeNum_eq_serialize]; rfl

theorem conf_drop : liftS (op_drop s) alt = Consensus.execOp ctx 117 s alt := by
  rcases s with _ | ⟨x, s⟩ <;> rfl

theorem conf_dup : liftS (op_dup s) alt = Consensus.execOp ctx 118 s alt := by
  rcases s with _ | ⟨x, s⟩ <;> rfl

theorem conf_nip : liftS (op_nip s) alt = Consensus.execOp ctx 119 s alt := by
  rcases s with _ | ⟨b, _ | ⟨a, s⟩⟩ <;> rfl

theorem conf_over : liftS (op_over s) alt = Consensus.execOp ctx 120 s alt := by
  rcases s with _ | ⟨b, _ | ⟨a, s⟩⟩ <;> rfl

theorem conf_rot : liftS (op_rot s) alt = Consensus.execOp ctx 123 s alt := by
  rcases s with _ | ⟨c, _ | ⟨b, _ | ⟨a, s⟩⟩⟩ <;> rfl

theorem conf_swap : liftS (op_swap s) alt = Consensus.execOp ctx 124 s alt := by
  rcases s with _ | ⟨b, _ | ⟨a, s⟩⟩ <;> rfl

theorem conf_tuck : liftS (op_tuck s) alt = Consensus.execOp ctx 125 s alt := by
  rcases s with _ | ⟨b, _ | ⟨a, s⟩⟩ <;> rfl

theorem conf_size : liftS (op_size s) alt = Consensus.execOp ctx 130 s alt := by
  rcases s with _ | ⟨x, s⟩
  · rfl
  · show _ = Consensus.Res.ok (Consensus.serialize (x.length : Int) :: x :: s, alt)
    rw [← encodeNum_eq_serialize]; rfl

theorem bytes_beq_comm (a b : Bytes) : (a == b) = (b == a) := by
  by_cases h : a = b
  · subst h; rfl
  · have h' : ¬ b = a := fun e => h e.symm
    rw [beq_eq_false_iff_ne.mpr h, beq_eq_false_iff_ne.mpr h']

theorem conf_equal : liftS (op_equal s) alt = Consensus.execOp ctx 135 s alt := by
  rcases s with _ | ⟨e1, _ | ⟨e2, s⟩⟩
  · rfl
  · rfl
  · show Consensus.Res.ok (boolNum (e1 == e2) :: s, alt) = .ok (Consensus.vchBool (e2 == e1) :: s, alt)
    rw [boolNum_eq, bytes_beq_comm]

theorem conf_equalverify : liftS (op_equalverify s) alt = Consensus.execOp ctx 136 s alt := by
  rcases s with _ | ⟨e1, _ | ⟨e2, s⟩⟩
  · rfl
  · rfl
  · show liftS (if decodeNum (boolNum (e1 == e2)) = 0 then .fail else .ok s) alt
      = (if (e2 == e1) then Consensus.Res.ok (s, alt) else .fail)
    rw [decodeNum_boolNum, bytes_beq_comm]
    cases (e2 == e1) <;> rfl

end
theorem num4_some {b : Bytes} {n : Int} (h : Consensus.num4 b = some n) : decodeNum b = n := by
  unfold Consensus.num4 Consensus.numMax at h
  split at h
  · rw [decodeNum_eq_scriptNum]; exact Option.some.inj h
  · cases h

theorem num5_some {b : Bytes} {n : Int} (h : Consensus.num5 b = some n) : decodeNum b = n := by
  unfold Consensus.num5 Consensus.numMax at h
  split at h
  · rw [decodeNum_eq_scriptNum]; exact Option.some.inj h
  · cases h

/-- shape shared by the unary numeric functions -/
def unaryB (f : Int → Bytes) : Stack → Res Stack
  | x :: r => .ok (f (decodeNum x) :: r)
  | [] => .fail

theorem un4_conf (s alt : Stack) (f g : Int → Bytes) (hfg : ∀ a, f a = g a)
    (h : Consensus.un4 g s ≠ .oversize) :
    liftS (unaryB f s) alt = (Consensus.un4 g s).map (·, alt) := by
  rcases s with _ | ⟨x, r⟩
  · rfl
  · unfold Consensus.un4 at h ⊢
    cases hn : Consensus.num4 x with
    | none => simp [hn] at h
    | some n => simp only [unaryB, liftS, Consensus.Res.map, num4_some hn, hfg, hn]

theorem map_ne_oversize {α β} {r : Consensus.Res α} {f : α → β}
    (h : r.map f ≠ .oversize) : r ≠ .oversize := by
  intro e; apply h; rw [e]; rfl

/-- shape shared by the binary numeric functions: the model reads (top, second), consensus
    names them (bn2, bn1) -/
theorem bin4_conf (s alt : Stack) (f g : Int → Int → Bytes) (hfg : ∀ a b, f a b = g b a)
    (h : Consensus.bin4 g s ≠ .oversize) :
    liftS (binaryNum f s) alt = (Consensus.bin4 g s).map (·, alt) := by
  rcases s with _ | ⟨x2, _ | ⟨x1, r⟩⟩
  · rfl
  · rfl
  · unfold Consensus.bin4 at h ⊢
    cases h1 : Consensus.num4 x1 with
    | none => simp [h1] at h
    | some n1 =>
      cases h2 : Consensus.num4 x2 with
      | none => simp [h1, h2] at h
      | some n2 => simp only [binaryNum, liftS, Consensus.Res.map, num4_some h1, num4_some h2, hfg, h1, h2]

section
variable (ctx : Consensus.Ctx) (s alt : Stack)

theorem unaryNum_eq (f : Int → Int) : unaryNum f = unaryB (fun e => encodeNum (f e)) := by
  funext s; cases s <;> rfl
theorem op_not_eq : op_not = unaryB (fun e => boolNum (e == 0)) := by funext s; cases s <;> rfl
theorem op_0notequal_eq : op_0notequal = unaryB (fun e => boolNum (!(e == 0))) := by funext s; cases s <;> rfl

theorem conf_1add (h : Consensus.execOp ctx 139 s alt ≠ .oversize) :
    liftS (op_1add s) alt = Consensus.execOp ctx 139 s alt := by
  rw [op_1add, unaryNum_eq]
  exact un4_conf s alt _ _ (fun a => encodeNum_eq_serialize _) (map_ne_oversize h)

theorem conf_1sub (h : Consensus.execOp ctx 140 s alt ≠ .oversize) :
    liftS (op_1sub s) alt = Consensus.execOp ctx 140 s alt := by
  rw [op_1sub, unaryNum_eq]
  exact un4_conf s alt _ _ (fun a => encodeNum_eq_serialize _) (map_ne_oversize h)

theorem conf_negate (h : Consensus.execOp ctx 143 s alt ≠ .oversize) :
    liftS (op_negate s) alt = Consensus.execOp ctx 143 s alt := by
  rw [op_negate, unaryNum_eq]
  exact un4_conf s alt _ _ (fun a => encodeNum_eq_serialize _) (map_ne_oversize h)

theorem conf_abs (h : Consensus.execOp ctx 144 s alt ≠ .oversize) :
    liftS (op_abs s) alt = Consensus.execOp ctx 144 s alt := by
  rw [op_abs, unaryNum_eq]
  exact un4_conf s alt _ _ (fun a => encodeNum_eq_serialize _) (map_ne_oversize h)

theorem conf_not (h : Consensus.execOp ctx 145 s alt ≠ .oversize) :
    liftS (op_not s) alt = Consensus.execOp ctx 145 s alt := by
  rw [op_not_eq]
  exact un4_conf s alt _ _ (fun a => boolNum_eq _) (map_ne_oversize h)

theorem conf_0notequal (h : Consensus.execOp ctx 146 s alt ≠ .oversize) :
    liftS (op_0notequal s) alt = Consensus.execOp ctx 146 s alt := by
  rw [op_0notequal_eq]
  exact un4_conf s alt _ _ (fun a => by rw [boolNum_eq]; rfl) (map_ne_oversize h)

theorem conf_add (h : Consensus.execOp ctx 147 s alt ≠ .oversize) :
    liftS (op_add s) alt = Consensus.execOp ctx 147 s alt :=
  bin4_conf s alt _ _ (fun a b => by rw [encodeNum_eq_serialize, Int.add_comm]) (map_ne_oversize h)

theorem conf_sub (h : Consensus.execOp ctx 148 s alt ≠ .oversize) :
    liftS (op_sub s) alt = Consensus.execOp ctx 148 s alt :=
  bin4_conf s alt _ _ (fun a b => by rw [encodeNum_eq_serialize]) (map_ne_oversize h)

theorem conf_booland (h : Consensus.execOp ctx 154 s alt ≠ .oversize) :
    liftS (op_booland s) alt = Consensus.execOp ctx 154 s alt :=
  bin4_conf s alt _ _ (fun a b => by rw [boolNum_eq, Bool.and_comm]) (map_ne_oversize h)

theorem conf_boolor (h : Consensus.execOp ctx 155 s alt ≠ .oversize) :
    liftS (op_boolor s) alt = Consensus.execOp ctx 155 s alt :=
  bin4_conf s alt _ _ (fun a b => by rw [boolNum_eq, Bool.or_comm]) (map_ne_oversize h)

theorem int_beq_comm (a b : Int) : (a == b) = (b == a) := by
  by_cases h : a = b
  · subst h; rfl
  · have h' : ¬ b = a := fun e => h e.symm
    rw [beq_eq_false_iff_ne.mpr h, beq_eq_false_iff_ne.mpr h']

theorem conf_numequal (h : Consensus.execOp ctx 156 s alt ≠ .oversize) :
    liftS (op_numequal s) alt = Consensus.execOp ctx 156 s alt :=
  bin4_conf s alt _ _ (fun a b => by rw [boolNum_eq, int_beq_comm]) (map_ne_oversize h)

theorem conf_numnotequal (h : Consensus.execOp ctx 158 s alt ≠ .oversize) :
    liftS (op_numnotequal s) alt = Consensus.execOp ctx 158 s alt :=
  bin4_conf s alt _ _ (fun a b => by rw [boolNum_eq, int_beq_comm]; rfl) (map_ne_oversize h)

theorem conf_lessthan (h : Consensus.execOp ctx 159 s alt ≠ .oversize) :
    liftS (op_lessthan s) alt = Consensus.execOp ctx 159 s alt :=
  bin4_conf s alt _ _ (fun a b => by rw [boolNum_eq]) (map_ne_oversize h)

theorem conf_greaterthan (h : Consensus.execOp ctx 160 s alt ≠ .oversize) :
    liftS (op_greaterthan s) alt = Consensus.execOp ctx 160 s alt :=
  bin4_conf s alt _ _ (fun a b => by rw [boolNum_eq]) (map_ne_oversize h)

theorem conf_lessthanorequal (h : Consensus.execOp ctx 161 s alt ≠ .oversize) :
    liftS (op_lessthanorequal s) alt = Consensus.execOp ctx 161 s alt :=
  bin4_conf s alt _ _ (fun a b => by rw [boolNum_eq]) (map_ne_oversize h)

theorem conf_greaterthanorequal (h : Consensus.execOp ctx 162 s alt ≠ .oversize) :
    liftS (op_greaterthanorequal s) alt = Consensus.execOp ctx 162 s alt :=
  bin4_conf s alt _ _ (fun a b => by rw [boolNum_eq]) (map_ne_oversize h)

theorem conf_min (h : Consensus.execOp ctx 163 s alt ≠ .oversize) :
    liftS (op_min s) alt = Consensus.execOp ctx 163 s alt :=
  bin4_conf s alt _ _ (fun a b => by
    simp only [← encodeNum_eq_serialize]
    by_cases h1 : a < b <;> by_cases h2 : b < a <;> simp [h1, h2] <;> (congr 1; omega)) (map_ne_oversize h)

theorem conf_max (h : Consensus.execOp ctx 164 s alt ≠ .oversize) :
    liftS (op_max s) alt = Consensus.execOp ctx 164 s alt :=
  bin4_conf s alt _ _ (fun a b => by
    simp only [← encodeNum_eq_serialize]
    by_cases h1 : a > b <;> by_cases h2 : b > a <;> simp [h1, h2] <;> (congr 1; omega)) (map_ne_oversize h)

end
section
variable (ctx : Consensus.Ctx) (s alt : Stack)

theorem conf_numequalverify (h : Consensus.execOp ctx 157 s alt ≠ .oversize) :
    liftS (op_numequalverify s) alt = Consensus.execOp ctx 157 s alt := by
  rcases s with _ | ⟨x2, _ | ⟨x1, r⟩⟩
  · rfl
  · rfl
  · have h' := map_ne_oversize h
    show liftS ((op_numequal (x2 :: x1 :: r)).bind op_verify) alt
      = ((Consensus.bin4 (fun bn1 bn2 => Consensus.vchBool (bn1 == bn2)) (x2 :: x1 :: r)).andThen
          Consensus.verifyTop).map (·, alt)
    unfold Consensus.bin4 at h' ⊢
    cases h1 : Consensus.num4 x1 with
    | none => simp [h1, Consensus.Res.andThen] at h'
    | some n1 =>
      cases h2 : Consensus.num4 x2 with
      | none => simp [h1, h2, Consensus.Res.andThen] at h'
      | some n2 =>
        simp only [op_numequal, binaryNum, Res.bind, num4_some h1, num4_some h2, op_verify,
          decodeNum_boolNum, Consensus.Res.andThen, Consensus.verifyTop, h1, h2]
        rw [int_beq_comm]
        cases (n1 == n2) <;> rfl

theorem conf_within (h : Consensus.execOp ctx 165 s alt ≠ .oversize) :
    liftS (op_within s) alt = Consensus.execOp ctx 165 s alt := by
  rcases s with _ | ⟨x3, _ | ⟨x2, _ | ⟨x1, r⟩⟩⟩
  · rfl
  · rfl
  · rfl
  · have e : Consensus.execOp ctx 165 (x3 :: x2 :: x1 :: r) alt =
        match Consensus.num4 x1, Consensus.num4 x2, Consensus.num4 x3 with
        | some bn1, some bn2, some bn3 =>
          .ok (Consensus.vchBool (decide (bn2 ≤ bn1) && decide (bn1 < bn3)) :: r, alt)
        | _, _, _ => .oversize := rfl
    rw [e] at h ⊢
    cases h1 : Consensus.num4 x1 with
    | none => simp [h1] at h
    | some n1 =>
      cases h2 : Consensus.num4 x2 with
      | none => simp [h1, h2] at h
      | some n2 =>
        cases h3 : Consensus.num4 x3 with
        | none => simp [h1, h2, h3] at h
        | some n3 =>
          simp only [op_within, liftS, num4_some h1, num4_some h2, num4_some h3, boolNum_eq, ge_iff_le]

theorem conf_ripemd160 (env : Env) : liftS (op_ripemd160 env s) alt = Consensus.execOp (ctxOf env) 166 s alt := by
  rcases s with _ | ⟨x, s⟩ <;> rfl
theorem conf_sha1 (env : Env) : liftS (op_sha1 env s) alt = Consensus.execOp (ctxOf env) 167 s alt := by
  rcases s with _ | ⟨x, s⟩ <;> rfl
theorem conf_sha256 (env : Env) : liftS (op_sha256 env s) alt = Consensus.execOp (ctxOf env) 168 s alt := by
  rcases s with _ | ⟨x, s⟩ <;> rfl
theorem conf_hash160 (env : Env) : liftS (op_hash160 env s) alt = Consensus.execOp (ctxOf env) 169 s alt := by
  rcases s with _ | ⟨x, s⟩ <;> rfl
theorem conf_hash256 (env : Env) : liftS (op_hash256 env s) alt = Consensus.execOp (ctxOf env) 170 s alt := by
  rcases s with _ | ⟨x, s⟩ <;> rfl

theorem op_pick_repaired (top : Bytes) (s : Stack) : op_pick Cfg.repaired (top :: s) =
    if decodeNum top < 0 then .fail else if (s.length : Int) < decodeNum top + 1 then .fail
    else match s[(decodeNum top).toNat]? with
      | some x => .ok (x :: s)
      | none => .err .indexError := by
  unfold op_pick
  by_cases hneg : decodeNum top < 0
  · simp [Cfg.repaired, hneg]
  · have h0 : 0 ≤ decodeNum top := by omega
    simp [Cfg.repaired, hneg, h0]
    rfl

theorem op_roll_repaired (top : Bytes) (s : Stack) : op_roll Cfg.repaired (top :: s) =
    if decodeNum top < 0 then .fail else if (s.length : Int) < decodeNum top + 1 then .fail
    else if decodeNum top = 0 then .ok s
    else match s[(decodeNum top).toNat]? with
      | some x => .ok (x :: s.eraseIdx (decodeNum top).toNat)
      | none => .err .indexError := by
  unfold op_roll
  by_cases hneg : decodeNum top < 0
  · simp [Cfg.repaired, hneg]
  · have h0 : 0 ≤ decodeNum top := by omega
    simp [Cfg.repaired, hneg, h0]
    rfl

/-- OP_PICK, repaired (F07c) -/
theorem conf_pick (h : Consensus.execOp ctx 121 s alt ≠ .oversize) :
    liftS (op_pick Cfg.repaired s) alt = Consensus.execOp ctx 121 s alt := by
  rcases s with _ | ⟨top, s⟩
  · rfl
  · rw [op_pick_repaired]
    rcases s with _ | ⟨x, s'⟩
    · -- one item: consensus fails on the size test, the model on the index test
      show _ = Consensus.Res.fail
      by_cases hneg : decodeNum top < 0
      · rw [if_pos hneg]; rfl
      · have : ((([] : Stack).length : Nat) : Int) < decodeNum top + 1 := by simp; omega
        rw [if_neg hneg, if_pos this]; rfl
    · have e : Consensus.execOp ctx 121 (top :: x :: s') alt =
          match Consensus.num4 top with
          | none => .oversize
          | some n =>
            if n < 0 || n ≥ ((x :: s').length : Int) then .fail
            else match (x :: s')[n.toNat]? with
              | none => .fail
              | some vch => if (121 : Nat) = 122 then .ok (vch :: (x :: s').eraseIdx n.toNat, alt) else .ok (vch :: x :: s', alt) := rfl
      rw [e] at h ⊢
      generalize x :: s' = l at *
      cases hn4 : Consensus.num4 top with
      | none => simp [hn4] at h
      | some n =>
        rw [num4_some hn4]
        show _ = if (decide (n < 0) || decide (n ≥ (l.length : Int))) = true then _ else _
        by_cases hneg : n < 0
        · have hc : (decide (n < 0) || decide (n ≥ (l.length : Int))) = true := by simp [hneg]
          rw [if_pos hneg, if_pos hc]; rfl
        · by_cases hlen : (l.length : Int) < n + 1
          · have hc : (decide (n < 0) || decide (n ≥ (l.length : Int))) = true := by
              have : n ≥ (l.length : Int) := by omega
              simp [this]
            rw [if_neg hneg, if_pos hlen, if_pos hc]; rfl
          · have hc : ¬ (decide (n < 0) || decide (n ≥ (l.length : Int))) = true := by
              have : ¬ n ≥ (l.length : Int) := by omega
              simp [hneg, this]
            rw [if_neg hneg, if_neg hlen, if_neg hc]
            cases l[n.toNat]? <;> rfl

/-- OP_ROLL, repaired (F07c) -/
theorem conf_roll (h : Consensus.execOp ctx 122 s alt ≠ .oversize) :
    liftS (op_roll Cfg.repaired s) alt = Consensus.execOp ctx 122 s alt := by
  rcases s with _ | ⟨top, s⟩
  · rfl
  · rw [op_roll_repaired]
    rcases s with _ | ⟨x, s'⟩
    · show _ = Consensus.Res.fail
      by_cases hneg : decodeNum top < 0
      · rw [if_pos hneg]; rfl
      · have : ((([] : Stack).length : Nat) : Int) < decodeNum top + 1 := by simp; omega
        rw [if_neg hneg, if_pos this]; rfl
    · have e : Consensus.execOp ctx 122 (top :: x :: s') alt =
          match Consensus.num4 top with
          | none => .oversize
          | some n =>
            if n < 0 || n ≥ ((x :: s').length : Int) then .fail
            else match (x :: s')[n.toNat]? with
              | none => .fail
              | some vch => if (122 : Nat) = 122 then .ok (vch :: (x :: s').eraseIdx n.toNat, alt) else .ok (vch :: x :: s', alt) := rfl
      rw [e] at h ⊢
      cases hn4 : Consensus.num4 top with
      | none => simp [hn4] at h
      | some n =>
        rw [num4_some hn4]
        by_cases hz : n = 0
        · subst hz
          simp [liftS]
          rw [if_neg (show ¬ ((s'.length : Int) + 1 < 1) by omega),
            if_neg (show ¬ ((s'.length : Int) + 1 ≤ 0) by omega)]
        · generalize x :: s' = l at *
          show _ = if (decide (n < 0) || decide (n ≥ (l.length : Int))) = true then _ else _
          by_cases hneg : n < 0
          · have hc : (decide (n < 0) || decide (n ≥ (l.length : Int))) = true := by simp [hneg]
            rw [if_pos hneg, if_pos hc]; rfl
          · by_cases hlen : (l.length : Int) < n + 1
            · have hc : (decide (n < 0) || decide (n ≥ (l.length : Int))) = true := by
                have : n ≥ (l.length : Int) := by omega
                simp [this]
              rw [if_neg hneg, if_pos hlen, if_pos hc]; rfl
            · have hc : ¬ (decide (n < 0) || decide (n ≥ (l.length : Int))) = true := by
                have : ¬ n ≥ (l.length : Int) := by omega
                simp [hneg, this]
              rw [if_neg hneg, if_neg hlen, if_neg hc, if_neg hz]
              cases l[n.toNat]? <;> rfl

end
/-- CHECKLOCKTIMEVERIFY: for every locktime (a 32-bit value, as `Locktime()` guarantees), sequence,
    and operand of at most 5 bytes the model's outcome is consensus' -/
theorem conf_cltv (env : Env) (s alt : Stack) (hlt : env.locktime ≤ 4294967295)
    (h : Consensus.execOp (ctxOf env) 177 s alt ≠ .oversize) :
    liftS (op_checklocktimeverify env s) alt = Consensus.execOp (ctxOf env) 177 s alt := by
  rcases s with _ | ⟨top, s⟩
  · unfold op_checklocktimeverify; split <;> rfl
  · have e : Consensus.execOp (ctxOf env) 177 (top :: s) alt =
        match Consensus.num5 top with
        | none => .oversize
        | some n =>
          if n < 0 then .fail
          else if !Consensus.checkLockTime (ctxOf env) n.toNat then .fail
          else .ok (top :: s, alt) := rfl
    rw [e] at h ⊢
    cases hn : Consensus.num5 top with
    | none => simp [hn] at h
    | some n =>
      unfold op_checklocktimeverify
      simp only [num5_some hn]
      by_cases hneg : n < 0
      · simp only [hneg, if_true]; split <;> rfl
      · simp only [hneg, if_false]
        generalize n.toNat = m
        simp only [locktimeComparable, Consensus.checkLockTime, Consensus.LOCKTIME_THRESHOLD,
          Consensus.SEQUENCE_FINAL, ctxOf, Gen.opMaxSequence, Gen.opMaxLocktime, Gen.blockLimit]
        by_cases h1 : env.sequence = 4294967295 <;> by_cases h2 : m > 4294967295 <;>
          by_cases h3 : env.locktime < 500000000 <;> by_cases h4 : m < 500000000 <;>
          by_cases h5 : env.locktime < m <;>
          simp [h1, h2, h3, h4, h5, liftS] <;> omega
theorem and_bit' (x i : Nat) : x &&& 2 ^ i = if x.testBit i then 2 ^ i else 0 := by
  apply Nat.eq_of_testBit_eq
  intro j
  rw [Nat.testBit_and, Nat.testBit_two_pow]
  by_cases h : i = j
  · subst h; cases hx : x.testBit i <;> simp [Nat.testBit_two_pow_self]
  · cases hx : x.testBit i <;> simp [h, Nat.testBit_two_pow_of_ne h]

theorem and_bit (x i : Nat) : x &&& 2 ^ i = 0 ∨ x &&& 2 ^ i = 2 ^ i := by
  rw [and_bit']; cases x.testBit i <;> simp

theorem and_mask16 (x : Nat) : x &&& 65535 = x % 65536 := Nat.and_two_pow_sub_one_eq_mod x 16

theorem and_typemask (x : Nat) : x &&& (4194304 ||| 65535) = (x &&& 4194304) + (x &&& 65535) := by
  rw [Nat.and_or_distrib_left]
  have hm : x &&& 65535 < 2 ^ 22 := by rw [and_mask16]; omega
  rcases and_bit x 22 with h | h
  · have h' : x &&& 4194304 = 0 := h
    rw [h']; simp
  · have h' : x &&& 4194304 = 2 ^ 22 := h
    have := Nat.two_pow_add_eq_or_of_lt hm 1
    simp only [Nat.mul_one] at this
    rw [h']; omega

/-- CHECKSEQUENCEVERIFY (repaired, F07d): for every sequence, version and operand below 2^32 the
    model's outcome is consensus' (BIP112), including the disable-flag NOP -/
theorem conf_csv (env : Env) (s alt : Stack)
    (hop : ∀ top rest, s = top :: rest → decodeNum top < 4294967296)
    (h : Consensus.execOp (ctxOf env) 178 s alt ≠ .oversize) :
    liftS (op_checksequenceverify Cfg.repaired env s) alt = Consensus.execOp (ctxOf env) 178 s alt := by
  rcases s with _ | ⟨top, s⟩
  · rfl
  · have e : Consensus.execOp (ctxOf env) 178 (top :: s) alt =
        match Consensus.num5 top with
        | none => .oversize
        | some n =>
          if n < 0 then .fail
          else if n.toNat &&& Consensus.SEQUENCE_LOCKTIME_DISABLE_FLAG ≠ 0 then .ok (top :: s, alt)
          else if !Consensus.checkSequence (ctxOf env) n.toNat then .fail
          else .ok (top :: s, alt) := rfl
    rw [e] at h ⊢
    have hop' := hop top s rfl
    cases hn : Consensus.num5 top with
    | none => simp [hn] at h
    | some n =>
      unfold op_checksequenceverify
      rw [num5_some hn] at hop'
      simp only [num5_some hn, Cfg.repaired, Bool.not_true, Bool.false_and, Bool.true_and]
      by_cases hneg : n < 0
      · simp [hneg, liftS]
      · simp only [hneg, if_false]
        have hm : n.toNat ≤ 4294967295 := by omega
        generalize n.toNat = m at *
        clear h e hop hn hop'
        simp only [seqIsRelative, seqIsRelativeTime, seqIsRelativeBlock, seqComparable,
          Consensus.checkSequence, Consensus.SEQUENCE_LOCKTIME_DISABLE_FLAG,
          Consensus.SEQUENCE_LOCKTIME_TYPE_FLAG, Consensus.SEQUENCE_LOCKTIME_MASK, ctxOf,
          Gen.seqDisableFlag, Gen.seqTimeFlag, Gen.seqMask, Gen.csvMinVersion, Gen.opMaxSequence,
          Nat.one_shiftLeft]
        have e31 : (2 : Nat) ^ 31 = 2147483648 := by decide
        have e22 : (2 : Nat) ^ 22 = 4194304 := by decide
        rw [e31, e22, and_typemask, and_typemask]
        have hs31 := and_bit env.sequence 31
        have hs22 := and_bit env.sequence 22
        have hm31 := and_bit m 31
        have hm22 := and_bit m 22
        rw [e31] at hs31 hm31
        rw [e22] at hs22 hm22
        simp only [and_mask16]
        have hm' : ¬ 4294967295 < m := by omega
        by_cases hv : env.version < 2 <;>
          rcases hs31 with a | a <;> rcases hs22 with b | b <;> rcases hm31 with c | c <;>
          rcases hm22 with d | d <;> by_cases hlt : env.sequence % 65536 < m % 65536 <;>
          simp [a, b, c, d, hv, hlt, hm', liftS] <;> omega
/-- CSV with an operand of 2^32 or more (only possible with 5 bytes): the implementation's
    `Sequence(element)` raises ValueError where consensus would go on with the masked value
    (N07f, outside the property's operand range); in every other respect the outcomes agree -/
theorem conf_csv_wide (env : Env) (top : Bytes) (s alt : Stack)
    (hw : ¬ decodeNum top < 4294967296)
    (hve : op_checksequenceverify Cfg.repaired env (top :: s) ≠ .err .valueError)
    (h : Consensus.execOp (ctxOf env) 178 (top :: s) alt ≠ .oversize) :
    liftS (op_checksequenceverify Cfg.repaired env (top :: s)) alt
      = Consensus.execOp (ctxOf env) 178 (top :: s) alt := by
  have e : Consensus.execOp (ctxOf env) 178 (top :: s) alt =
      match Consensus.num5 top with
      | none => .oversize
      | some n =>
        if n < 0 then .fail
        else if n.toNat &&& Consensus.SEQUENCE_LOCKTIME_DISABLE_FLAG ≠ 0 then .ok (top :: s, alt)
        else if !Consensus.checkSequence (ctxOf env) n.toNat then .fail
        else .ok (top :: s, alt) := rfl
  rw [e] at h ⊢
  cases hn : Consensus.num5 top with
  | none => simp [hn] at h
  | some n =>
    unfold op_checksequenceverify at hve ⊢
    rw [num5_some hn] at hw
    simp only [num5_some hn, Cfg.repaired, Bool.not_true, Bool.false_and, Bool.true_and] at hve ⊢
    have hneg : ¬ n < 0 := by omega
    simp only [hneg, if_false] at hve ⊢
    have hm : 4294967295 < n.toNat := by omega
    generalize n.toNat = m at *
    clear h e hn
    simp only [seqIsRelative, Consensus.checkSequence, Consensus.SEQUENCE_LOCKTIME_DISABLE_FLAG, ctxOf,
      Gen.seqDisableFlag, Gen.csvMinVersion, Gen.opMaxSequence, Nat.one_shiftLeft] at hve ⊢
    have e31 : (2 : Nat) ^ 31 = 2147483648 := by decide
    rw [e31]
    have hs31 := and_bit env.sequence 31
    have hm31 := and_bit m 31
    rw [e31] at hs31 hm31
    by_cases hv : env.version < 2 <;> rcases hs31 with a | a <;> rcases hm31 with c | c <;>
      simp [a, c, hv, hm, liftS] at hve ⊢

theorem conf_csv' (env : Env) (s alt : Stack)
    (hve : op_checksequenceverify Cfg.repaired env s ≠ .err .valueError)
    (h : Consensus.execOp (ctxOf env) 178 s alt ≠ .oversize) :
    liftS (op_checksequenceverify Cfg.repaired env s) alt = Consensus.execOp (ctxOf env) 178 s alt := by
  rcases s with _ | ⟨top, s⟩
  · rfl
  · by_cases hw : decodeNum top < 4294967296
    · exact conf_csv env (top :: s) alt (fun t r e => by cases e; exact hw) h
    · exact conf_csv_wide env top s alt hw hve h
/-! ## the dispatch table and the master conformance theorem -/

/-- opcode ↦ function for the flow-free part of the subset (everything except IF/NOTIF/ELSE/ENDIF,
    the two alt-stack opcodes and OP_2ROT) -/
def opPairs : List (Nat × OpFn) := [(0, .num 0), (79, .num (-1)), (81, .num 1), (82, .num 2), (83, .num 3), (84, .num 4), (85, .num 5), (86, .num 6), (87, .num 7), (88, .num 8), (89, .num 9), (90, .num 10), (91, .num 11), (92, .num 12), (93, .num 13), (94, .num 14), (95, .num 15), (96, .num 16), (97, .nop), (105, .verify), (106, .return_), (109, .drop2), (110, .dup2), (111, .dup3), (112, .over2), (114, .swap2), (115, .ifdup), (116, .depth), (117, .drop), (118, .dup), (119, .nip), (120, .over), (121, .pick), (122, .roll), (123, .rot), (124, .swap), (125, .tuck), (130, .size), (135, .equal), (136, .equalverify), (139, .add1), (140, .sub1), (143, .negate), (144, .abs), (145, .not), (146, .notequal0), (147, .add), (148, .sub), (154, .booland), (155, .boolor), (156, .numequal), (157, .numequalverify), (158, .numnotequal), (159, .lessthan), (160, .greaterthan), (161, .lessthanorequal), (162, .greaterthanorequal), (163, .min), (164, .max), (165, .within), (166, .ripemd160), (167, .sha1), (168, .sha256), (169, .hash160), (170, .hash256), (176, .nop), (177, .checklocktimeverify), (178, .checksequenceverify), (179, .nop), (180, .nop), (181, .nop), (182, .nop), (183, .nop), (184, .nop), (185, .nop)]

/-- every function of the subset, applied to every stack, is the consensus opcode -/
theorem fn_conforms (env : Env) (c : Nat) (fn : OpFn) (hp : (c, fn) ∈ opPairs) (s alt : Stack)
    (hlt : env.locktime ≤ 4294967295)
    (hve : c = 178 → op_checksequenceverify Cfg.repaired env s ≠ .err .valueError)
    (h : Consensus.execOp (ctxOf env) c s alt ≠ .oversize) :
    liftS (applyStackFn Cfg.repaired env fn s) alt = Consensus.execOp (ctxOf env) c s alt := by
  simp only [opPairs, List.mem_cons, Prod.mk.injEq, List.mem_nil_iff, or_false] at hp
  rcases hp with ⟨rfl, rfl⟩ | ⟨rfl, rfl⟩ | ⟨rfl, rfl⟩ | ⟨rfl, rfl⟩ | ⟨rfl, rfl⟩ | ⟨rfl, rfl⟩ | ⟨rfl, rfl⟩ | ⟨rfl, rfl⟩ | ⟨rfl, rfl⟩ | ⟨rfl, rfl⟩ | ⟨rfl, rfl⟩ | ⟨rfl, rfl⟩ | ⟨rfl, rfl⟩ | ⟨rfl, rfl⟩ | ⟨rfl, rfl⟩ | ⟨rfl, rfl⟩ | ⟨rfl, rfl⟩ | ⟨rfl, rfl⟩ | ⟨rfl, rfl⟩ | ⟨rfl, rfl⟩ | ⟨rfl, rfl⟩ | ⟨rfl, rfl⟩ | ⟨rfl, rfl⟩ | ⟨rfl, rfl⟩ | ⟨rfl, rfl⟩ | ⟨rfl, rfl⟩ | ⟨rfl, rfl⟩ | ⟨rfl, rfl⟩ | ⟨rfl, rfl⟩ | ⟨rfl, rfl⟩ | ⟨rfl, rfl⟩ | ⟨rfl, rfl⟩ | ⟨rfl, rfl⟩ | ⟨rfl, rfl⟩ | ⟨rfl, rfl⟩ | ⟨rfl, rfl⟩ | ⟨rfl, rfl⟩ | ⟨rfl, rfl⟩ | ⟨rfl, rfl⟩ | ⟨rfl, rfl⟩ | ⟨rfl, rfl⟩ | ⟨rfl, rfl⟩ | ⟨rfl, rfl⟩ | ⟨rfl, rfl⟩ | ⟨rfl, rfl⟩ | ⟨rfl, rfl⟩ | ⟨rfl, rfl⟩ | ⟨rfl, rfl⟩ | ⟨rfl, rfl⟩ | ⟨rfl, rfl⟩ | ⟨rfl, rfl⟩ | ⟨rfl, rfl⟩ | ⟨rfl, rfl⟩ | ⟨rfl, rfl⟩ | ⟨rfl, rfl⟩ | ⟨rfl, rfl⟩ | ⟨rfl, rfl⟩ | ⟨rfl, rfl⟩ | ⟨rfl, rfl⟩ | ⟨rfl, rfl⟩ | ⟨rfl, rfl⟩ | ⟨rfl, rfl⟩ | ⟨rfl, rfl⟩ | ⟨rfl, rfl⟩ | ⟨rfl, rfl⟩ | ⟨rfl, rfl⟩ | ⟨rfl, rfl⟩ | ⟨rfl, rfl⟩ | ⟨rfl, rfl⟩ | ⟨rfl, rfl⟩ | ⟨rfl, rfl⟩ | ⟨rfl, rfl⟩ | ⟨rfl, rfl⟩ | ⟨rfl, rfl⟩ | ⟨rfl, rfl⟩
  · exact conf_num_0 _ s alt
  · exact conf_num_neg1 _ s alt
  · exact conf_num_pos _ s alt 81 (by decide) (by decide)
  · exact conf_num_pos _ s alt 82 (by decide) (by decide)
  · exact conf_num_pos _ s alt 83 (by decide) (by decide)
  · exact conf_num_pos _ s alt 84 (by decide) (by decide)
  · exact conf_num_pos _ s alt 85 (by decide) (by decide)
  · exact conf_num_pos _ s alt 86 (by decide) (by decide)
  · exact conf_num_pos _ s alt 87 (by decide) (by decide)
  · exact conf_num_pos _ s alt 88 (by decide) (by decide)
  · exact conf_num_pos _ s alt 89 (by decide) (by decide)
  · exact conf_num_pos _ s alt 90 (by decide) (by decide)
  · exact conf_num_pos _ s alt 91 (by decide) (by decide)
  · exact conf_num_pos _ s alt 92 (by decide) (by decide)
  · exact conf_num_pos _ s alt 93 (by decide) (by decide)
  · exact conf_num_pos _ s alt 94 (by decide) (by decide)
  · exact conf_num_pos _ s alt 95 (by decide) (by decide)
  · exact conf_num_pos _ s alt 96 (by decide) (by decide)
  · exact conf_nop _ s alt 97 (by decide)
  · exact conf_verify _ s alt
  · exact conf_return _ s alt
  · exact conf_2drop _ s alt
  · exact conf_2dup _ s alt
  · exact conf_3dup _ s alt
  · exact conf_2over _ s alt
  · exact conf_2swap _ s alt
  · exact conf_ifdup _ s alt
  · exact conf_depth _ s alt
  · exact conf_drop _ s alt
  · exact conf_dup _ s alt
  · exact conf_nip _ s alt
  · exact conf_over _ s alt
  · exact conf_pick _ s alt h
  · exact conf_roll _ s alt h
  · exact conf_rot _ s alt
  · exact conf_swap _ s alt
  · exact conf_tuck _ s alt
  · exact conf_size _ s alt
  · exact conf_equal _ s alt
  · exact conf_equalverify _ s alt
  · exact conf_1add _ s alt h
  · exact conf_1sub _ s alt h
  · exact conf_negate _ s alt h
  · exact conf_abs _ s alt h
  · exact conf_not _ s alt h
  · exact conf_0notequal _ s alt h
  · exact conf_add _ s alt h
  · exact conf_sub _ s alt h
  · exact conf_booland _ s alt h
  · exact conf_boolor _ s alt h
  · exact conf_numequal _ s alt h
  · exact conf_numequalverify _ s alt h
  · exact conf_numnotequal _ s alt h
  · exact conf_lessthan _ s alt h
  · exact conf_greaterthan _ s alt h
  · exact conf_lessthanorequal _ s alt h
  · exact conf_greaterthanorequal _ s alt h
  · exact conf_min _ s alt h
  · exact conf_max _ s alt h
  · exact conf_within _ s alt h
  · exact conf_ripemd160 s alt env
  · exact conf_sha1 s alt env
  · exact conf_sha256 s alt env
  · exact conf_hash160 s alt env
  · exact conf_hash256 s alt env
  · exact conf_nop _ s alt 176 (by decide)
  · exact conf_cltv env s alt hlt h
  · exact conf_csv' env s alt (hve rfl) h
  · exact conf_nop _ s alt 179 (by decide)
  · exact conf_nop _ s alt 180 (by decide)
  · exact conf_nop _ s alt 181 (by decide)
  · exact conf_nop _ s alt 182 (by decide)
  · exact conf_nop _ s alt 183 (by decide)
  · exact conf_nop _ s alt 184 (by decide)
  · exact conf_nop _ s alt 185 (by decide)

/-- `op_lookup[command]` resolved to a modelled function -/
def resolve (tap : Bool) (c : Nat) : Option OpFn := (lookup (table tap) c).bind OpFn.ofName

/-- the legacy dispatch table of /repo (Buidl.Gen.Op, re-extracted on every run) maps every opcode
    of the subset to the function the conformance lemma is about, with the matching calling
    convention -/
theorem table_pairs : ∀ p ∈ opPairs, resolve false p.1 = some p.2 ∧ p.2.conv = convOf p.1 ∧
    Consensus.unsupportedOp p.1 = false ∧ Consensus.disabledOp p.1 = false ∧
    p.1 ≠ 99 ∧ p.1 ≠ 100 ∧ p.1 ≠ 103 ∧ p.1 ≠ 104 := by decide

theorem table_flow : resolve false 99 = some .if_ ∧ resolve false 100 = some .notif ∧
    resolve false 107 = some .toaltstack ∧ resolve false 108 = some .fromaltstack ∧
    resolve false 113 = some .rot2 ∧ resolve false 103 = none ∧ resolve false 104 = none := by decide
/-! ## one step of `evaluate` on an opcode of the subset -/

theorem stepOp_plain (cfg : Cfg) (env : Env) (st : St) (c : Nat) (fn : OpFn)
    (hr : resolve st.tap c = some fn) (hc : fn.conv = convOf c)
    (hf : fn ≠ .if_ ∧ fn ≠ .notif ∧ fn ≠ .toaltstack ∧ fn ≠ .fromaltstack) :
    stepOp cfg env st c =
      (applyStackFn cfg env fn st.stack).toOut fun s => .ok { st with stack := s } := by
  unfold resolve at hr
  unfold stepOp
  cases hl : lookup (table st.tap) c with
  | none => simp [hl] at hr
  | some name =>
    simp only [hl, Option.bind] at hr
    simp only [hr, hc, ne_eq, not_true_eq_false, if_false]
    obtain ⟨h1, h2, h3, h4⟩ := hf
    cases fn <;> first | rfl | contradiction

theorem stepOp_unknown (cfg : Cfg) (env : Env) (st : St) (c : Nat)
    (hk : lookup (table st.tap) c = none) : stepOp cfg env st c = .error (.err .keyError) := by
  unfold stepOp; simp [hk]

def Out.toSpec : Out → Option Consensus.Out
  | .accept => some .accept
  | .reject => some .reject
  | .err _ => some .reject
  | .outOfFuel => none

theorem finalTest_spec (ctx : Consensus.Ctx) (stack alt : Stack) :
    (finalTest Cfg.repaired stack).toSpec = some (Consensus.runFrom ctx ⟨stack, alt, []⟩ []) := by
  rcases stack with _ | ⟨top, s⟩
  · rfl
  · simp only [finalTest, Cfg.repaired, if_true, op_verify, Consensus.runFrom, ne_eq, not_true_eq_false,
      if_false, castToBool_eq]
    by_cases h : decodeNum top = 0 <;> simp [h, Out.toSpec]

/-- a push outside the P2SH / witness-program patterns: none of `evaluate`'s rules fires -/
def plainPush (b : Bytes) : Bool := b.length != 20 && b.length != 32

def slOp (c : Nat) : Bool :=
  opPairs.any (fun p => p.1 == c) || c == 107 || c == 108 || c == 103 || c == 104

/-- commands of a straight-line program: data pushes that are not 20 or 32 bytes long and every
    opcode of the subset except IF/NOTIF and 2ROT (ELSE/ENDIF allowed: both sides reject them) -/
def slCmd : Cmd → Bool
  | .push b => plainPush b
  | .op c => slOp c

theorem p2shRule_plain (env : Env) (st : St) (b : Bytes) (h : st.cmds.all slCmd = true) :
    p2shRule env st b = .ok st := by
  unfold p2shRule
  split
  · rename_i h160 heq
    rw [heq] at h
    simp only [List.all_cons, slCmd, plainPush, Bool.and_eq_true, bne_iff_ne, ne_eq] at h
    have : ¬ h160.length = 20 := h.2.1.1
    simp [this]
  · rfl

theorem witnessRules_plain (cfg : Cfg) (env : Env) (st : St) (b : Bytes) (s : Stack) (hs : st.stack = b :: s)
    (h : plainPush b = true) : witnessRules cfg env st = .ok st := by
  unfold witnessRules
  simp only [plainPush, Bool.and_eq_true, bne_iff_ne, ne_eq] at h
  rw [hs]
  split
  · rename_i s1 s0 heq
    have : s1 = b := by injection heq with h1 h2; exact h1.symm
    subst this
    simp [h.1, h.2]
  · rfl


/-- after a plain push neither the "nothing remains" test nor the witness-program rules change the state -/
theorem afterPush_plain (cfg : Cfg) (env : Env) (st : St) (b : Bytes) (s : Stack) (hs : st.stack = b :: s)
    (h : plainPush b = true) :
    (if (cfg.triggersOnlyAtEnd && !st.cmds.isEmpty) = true then (Except.ok st : Step)
      else witnessRules cfg env st) = .ok st := by
  split
  · rfl
  · exact witnessRules_plain cfg env st b s hs h

theorem run_nil (cfg : Cfg) (env : Env) (fuel : Nat) (st : St) (h : st.cmds = []) :
    run cfg env fuel st = finalTest cfg st.stack := by
  unfold run; simp [h]

theorem run_cons (cfg : Cfg) (env : Env) (fuel : Nat) (st : St) (c : Cmd) (rest : List Cmd)
    (h : st.cmds = c :: rest) :
    run cfg env (fuel + 1) st =
      match step cfg env { st with cmds := rest } c with
      | .error o => o
      | .ok st' => run cfg env fuel st' := by
  conv => lhs; unfold run
  simp [h]
  rfl

theorem table_pairs_plain : ∀ p ∈ opPairs,
    p.2 ≠ .if_ ∧ p.2 ≠ .notif ∧ p.2 ≠ .toaltstack ∧ p.2 ≠ .fromaltstack := by decide

theorem slOp_cases {c : Nat} (h : slOp c = true) :
    (∃ fn, (c, fn) ∈ opPairs) ∨ c = 107 ∨ c = 108 ∨ c = 103 ∨ c = 104 := by
  simp only [slOp, Bool.or_eq_true, List.any_eq_true, beq_iff_eq] at h
  rcases h with (((⟨p, hp, rfl⟩ | h) | h) | h) | h
  · exact Or.inl ⟨p.2, hp⟩
  · exact Or.inr (Or.inl h)
  · exact Or.inr (Or.inr (Or.inl h))
  · exact Or.inr (Or.inr (Or.inr (Or.inl h)))
  · exact Or.inr (Or.inr (Or.inr (Or.inr h)))

/-- straight-line programs: `evaluate` is consensus' `EvalScript` + final `CastToBool`, by
    induction over the program, for every stack, alt-stack and sufficient fuel -/
theorem run_straightline (env : Env) (hlt : env.locktime ≤ 4294967295) :
    ∀ (prog : List Cmd) (stack alt : Stack) (fuel : Nat),
      prog.all slCmd = true → prog.length ≤ fuel →
      run Cfg.repaired env fuel ⟨prog, stack, alt, none, false⟩ ≠ .err .valueError →
      Consensus.runFrom (ctxOf env) ⟨stack, alt, []⟩ prog ≠ .oversize →
      (run Cfg.repaired env fuel ⟨prog, stack, alt, none, false⟩).toSpec
        = some (Consensus.runFrom (ctxOf env) ⟨stack, alt, []⟩ prog) := by
  intro prog
  induction prog with
  | nil =>
    intro stack alt fuel _ _ _ _
    rw [run_nil _ _ _ _ rfl]
    exact finalTest_spec _ _ _
  | cons c rest ih =>
    intro stack alt fuel hsl hfuel hve hov
    obtain ⟨f, rfl⟩ : ∃ f, fuel = f + 1 := ⟨fuel - 1, by simp at hfuel; omega⟩
    have hf : rest.length ≤ f := by simp at hfuel; omega
    simp only [List.all_cons, Bool.and_eq_true] at hsl
    obtain ⟨hc, hrest⟩ := hsl
    rw [run_cons _ _ _ _ c rest rfl] at hve ⊢
    cases c with
    | push b =>
      have hp : plainPush b = true := hc
      have h1 : step Cfg.repaired env ⟨rest, stack, alt, none, false⟩ (.push b)
          = .ok ⟨rest, b :: stack, alt, none, false⟩ := by
        simp only [step]
        rw [p2shRule_plain env _ b hrest]
        exact afterPush_plain _ env _ b stack rfl hp
      have h2 : Consensus.runFrom (ctxOf env) ⟨stack, alt, []⟩ (.push b :: rest)
          = Consensus.runFrom (ctxOf env) ⟨b :: stack, alt, []⟩ rest := by
        simp [Consensus.runFrom, Consensus.step, Consensus.fExec]
      rw [h1] at hve ⊢
      rw [h2] at hov ⊢
      exact ih (b :: stack) alt f hrest hf hve hov
    | op k =>
      have hk : slOp k = true := hc
      rcases slOp_cases hk with ⟨fn, hp⟩ | h107 | h108 | h103 | h104
      · -- a function of the subset
        obtain ⟨hr, hconv, hun, hdis, n99, n100, n103, n104⟩ := table_pairs (k, fn) hp
        have hfn : fn ≠ .if_ ∧ fn ≠ .notif ∧ fn ≠ .toaltstack ∧ fn ≠ .fromaltstack := by
          exact table_pairs_plain (k, fn) hp
        have hstep : step Cfg.repaired env ⟨rest, stack, alt, none, false⟩ (.op k)
            = (applyStackFn Cfg.repaired env fn stack).toOut
                fun s => .ok ⟨rest, s, alt, none, false⟩ :=
          stepOp_plain Cfg.repaired env ⟨rest, stack, alt, none, false⟩ k fn hr hconv hfn
        have hspec : Consensus.step (ctxOf env) ⟨stack, alt, []⟩ (.op k)
            = (Consensus.execOp (ctxOf env) k stack alt).map
                fun (p : Stack × Stack) => ⟨p.1, p.2, []⟩ := by
          simp [Consensus.step, hun, hdis, n99, n100, n103, n104, Consensus.fExec]
        rw [hstep] at hve ⊢
        have hne : Consensus.execOp (ctxOf env) k stack alt ≠ .oversize := by
          intro e; apply hov; simp [Consensus.runFrom, hspec, e, Consensus.Res.map]
        have hve' : k = 178 → op_checksequenceverify Cfg.repaired env stack ≠ .err .valueError := by
          intro e178 ee
          subst e178
          have : fn = .checksequenceverify := by
            have := (table_pairs (178, fn) hp).1
            have h2 : resolve false 178 = some .checksequenceverify := by decide
            rw [h2] at this; exact (Option.some.inj this).symm
          subst this
          apply hve
          show (match (op_checksequenceverify Cfg.repaired env stack).toOut _ with
            | .error o => o | .ok st' => _) = _
          rw [ee]; rfl
        have hconf := fn_conforms env k fn hp stack alt hlt hve' hne
        simp only [Consensus.runFrom, hspec] at hov ⊢
        cases hres : applyStackFn Cfg.repaired env fn stack with
        | ok s' =>
          rw [hres] at hconf hve
          simp only [liftS] at hconf
          rw [← hconf] at hov ⊢
          simp only [Res.toOut, Consensus.Res.map] at hve hov ⊢
          exact ih s' alt f hrest hf hve hov
        | fail =>
          rw [hres] at hconf
          simp only [liftS] at hconf
          rw [← hconf]
          rfl
        | err e =>
          rw [hres] at hconf
          simp only [liftS] at hconf
          rw [← hconf]
          rfl
      · -- OP_TOALTSTACK
        subst h107
        have hstep : step Cfg.repaired env ⟨rest, stack, alt, none, false⟩ (.op 107)
            = (op_toaltstack stack alt).toOut fun p => .ok ⟨rest, p.1, p.2, none, false⟩ := rfl
        have hspec : Consensus.step (ctxOf env) ⟨stack, alt, []⟩ (.op 107)
            = (Consensus.execOp (ctxOf env) 107 stack alt).map
                fun (p : Stack × Stack) => ⟨p.1, p.2, []⟩ := rfl
        have hconf := conf_toaltstack (ctxOf env) stack alt
        rw [hstep] at hve ⊢
        simp only [Consensus.runFrom, hspec] at hov ⊢
        rw [← hconf] at hov ⊢
        cases hres : op_toaltstack stack alt with
        | ok p =>
          rw [hres] at hve hov
          simp only [liftSA, Res.toOut, Consensus.Res.map] at hve hov ⊢
          exact ih p.1 p.2 f hrest hf hve hov
        | fail => rfl
        | err e => rfl
      · -- OP_FROMALTSTACK
        subst h108
        have hstep : step Cfg.repaired env ⟨rest, stack, alt, none, false⟩ (.op 108)
            = (op_fromaltstack stack alt).toOut fun p => .ok ⟨rest, p.1, p.2, none, false⟩ := rfl
        have hspec : Consensus.step (ctxOf env) ⟨stack, alt, []⟩ (.op 108)
            = (Consensus.execOp (ctxOf env) 108 stack alt).map
                fun (p : Stack × Stack) => ⟨p.1, p.2, []⟩ := rfl
        have hconf := conf_fromaltstack (ctxOf env) stack alt
        rw [hstep] at hve ⊢
        simp only [Consensus.runFrom, hspec] at hov ⊢
        rw [← hconf] at hov ⊢
        cases hres : op_fromaltstack stack alt with
        | ok p =>
          rw [hres] at hve hov
          simp only [liftSA, Res.toOut, Consensus.Res.map] at hve hov ⊢
          exact ih p.1 p.2 f hrest hf hve hov
        | fail => rfl
        | err e => rfl
      · -- a stray OP_ELSE: KeyError in the implementation, unbalanced conditional in consensus
        subst h103; rfl
      · subst h104; rfl

/-- what consensus sees of one interpreter step -/
def stepSpec : Step → Consensus.Res (Stack × Stack)
  | .ok st => .ok (st.stack, st.alt)
  | .error _ => .fail

/-- a concrete environment for witnesses (identity "hashes") -/
def testEnv (lt seq ver : Nat) : Env :=
  { locktime := lt, sequence := seq, version := ver, sha1 := id, ripemd160 := id, sha256 := id,
    hash160 := id, hash256 := id }

end Buidl.Interp
