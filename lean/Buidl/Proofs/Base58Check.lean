/-
  Helper lemmas, second part: Base58Check round trip, the converse direction
  (encode ∘ decode = id on accepted strings) and the first character of an encoding.
-/
import Buidl.Proofs.Base58
namespace Buidl.Base58
open Buidl

/-! ### Python slices with negative bounds -/

theorem pyLast_append {α} (a b : List α) (n : Nat) (hb : b.length = n) : pyLast n (a ++ b) = b := by
  unfold pyLast
  rw [List.length_append, hb, Nat.add_sub_cancel]
  simp

theorem pyButLast_append {α} (a b : List α) (n : Nat) (hb : b.length = n) : pyButLast n (a ++ b) = a := by
  unfold pyButLast
  rw [List.length_append, hb, Nat.add_sub_cancel]
  simp

theorem pyButLast_append_pyLast {α} (n : Nat) (l : List α) : pyButLast n l ++ pyLast n l = l := by
  unfold pyButLast pyLast
  exact List.take_append_drop _ _

theorem pyLast_length {α} (n : Nat) (l : List α) (h : n ≤ l.length) : (pyLast n l).length = n := by
  unfold pyLast; simp; omega

/-! ### Base58Check round trip -/

theorem rawDecodeBase58_encodeBase58Checksum (hash256 : Bytes → Bytes) (hh : ∀ b, 4 ≤ (hash256 b).length)
    (p : Bytes) (s : Str) (he : encodeBase58Checksum hash256 p = some s) :
    rawDecodeBase58 hash256 s = some p := by
  unfold encodeBase58Checksum at he
  have hd := decodeCombined_encodeBase58 _ _ he
  have hl : ((hash256 p).take Gen.b58EncChecksumWidth).length = 4 := by
    have := hh p
    simp [Gen.b58EncChecksumWidth]; omega
  unfold rawDecodeBase58
  rw [hd]
  simp only [Gen.b58DecChecksumTail, Gen.b58DecHashedCut, Gen.b58DecHashWidth, Gen.b58DecReturnCut,
    pyLast_append _ _ 4 hl, pyButLast_append _ _ 4 hl]
  simp [Gen.b58EncChecksumWidth]

/-! ### the structure of an accepted string -/

theorem decodeLoop_some (s : Str) (z num z' num' : Nat) (hnum : num ≠ 0)
    (h : decodeLoop s z num = some (z', num')) :
    z' = z ∧ ∃ ds : List Nat, (∀ d ∈ ds, d < 58) ∧ s = ds.map b58char ∧ num' = accum num ds := by
  induction s generalizing num with
  | nil =>
    simp only [decodeLoop, Option.some.injEq, Prod.mk.injEq] at h
    exact ⟨h.1.symm, [], by simp, rfl, by simp [accum, h.2]⟩
  | cons c cs ih =>
    have hcond : ¬ (num = 0 ∧ [c] = Gen.b58DecPad.toList) := fun hc => hnum hc.1
    rw [decodeLoop, if_neg hcond] at h
    cases hi : indexOf? c alphabet with
    | none => rw [hi] at h; cases h
    | some i =>
      rw [hi] at h
      simp only at h
      obtain ⟨hi58, hci⟩ := b58char_of_indexOf? hi
      have hnz : Gen.b58DecBase * num + i ≠ 0 := by
        simp only [Gen.b58DecBase]; omega
      obtain ⟨hz, ds, hds, hs, hn⟩ := ih _ hnz h
      refine ⟨hz, i :: ds, ?_, ?_, ?_⟩
      · intro d hd
        rcases List.mem_cons.mp hd with rfl | hd
        · exact hi58
        · exact hds d hd
      · simp [hci, hs]
      · rw [hn]; simp [accum, Gen.b58DecBase]

theorem decodeLoop_some0 (s : Str) (z z' num' : Nat) (h : decodeLoop s z 0 = some (z', num')) :
    ∃ (k : Nat) (ds : List Nat), s = List.replicate k '1' ++ ds.map b58char ∧ z' = z + k ∧
      (∀ d ∈ ds, d < 58) ∧ (∀ hne : ds ≠ [], ds.head hne ≠ 0) ∧ num' = accum 0 ds := by
  induction s generalizing z with
  | nil =>
    simp only [decodeLoop, Option.some.injEq, Prod.mk.injEq] at h
    exact ⟨0, [], by simp, by omega, by simp, by simp, by simp [accum, h.2]⟩
  | cons c cs ih =>
    by_cases hc : [c] = Gen.b58DecPad.toList
    · rw [decodeLoop, if_pos ⟨rfl, hc⟩] at h
      obtain ⟨k, ds, hs, hz, hds, hhd, hn⟩ := ih _ h
      rw [decPad_eq] at hc
      have hc1 : c = '1' := by simpa using hc
      refine ⟨k + 1, ds, ?_, by omega, hds, hhd, hn⟩
      rw [List.replicate_succ, List.cons_append, hs, hc1]
    · have hcond : ¬ ((0 : Nat) = 0 ∧ [c] = Gen.b58DecPad.toList) := fun h' => hc h'.2
      rw [decodeLoop, if_neg hcond] at h
      cases hi : indexOf? c alphabet with
      | none => rw [hi] at h; cases h
      | some i =>
        rw [hi] at h
        simp only at h
        obtain ⟨hi58, hci⟩ := b58char_of_indexOf? hi
        have hi0 : i ≠ 0 := by
          intro e; subst e
          rw [b58char_zero] at hci
          rw [decPad_eq] at hc
          exact hc (by rw [← hci])
        have hnz : Gen.b58DecBase * 0 + i ≠ 0 := by simpa using hi0
        obtain ⟨hz, ds, hds, hs, hn⟩ := decodeLoop_some _ _ _ _ _ hnz h
        refine ⟨0, i :: ds, by simp [hci, hs], by omega, ?_, ?_, ?_⟩
        · intro d hd
          rcases List.mem_cons.mp hd with rfl | hd
          · exact hi58
          · exact hds d hd
        · intro _; simpa using hi0
        · rw [hn]; simp [accum, Gen.b58DecBase]

theorem takeWhile_zero_replicate_append (k : Nat) (bs : Bytes) (h : ∀ hne : bs ≠ [], bs.head hne ≠ 0) :
    ((List.replicate k (0 : UInt8) ++ bs).takeWhile (fun c => decide (c.toNat = 0))).length = k := by
  induction k with
  | zero =>
    cases bs with
    | nil => rfl
    | cons x xs =>
      have hx : x ≠ 0 := by simpa using h (by simp)
      have : ¬ x.toNat = 0 := fun e => hx (UInt8.toNat_inj.mp (by simpa using e))
      simp [this]
  | succ k ih =>
    rw [List.replicate_succ, List.cons_append, List.takeWhile_cons_of_pos (by decide), List.length_cons, ih]

theorem digits256_bytes (n : Nat) :
    ((Nat.digits 256 n).reverse.map UInt8.ofNat).reverse.map (·.toNat) = Nat.digits 256 n := by
  simp only [List.map_reverse, List.reverse_reverse, List.map_map]
  conv_rhs => rw [← List.map_id (Nat.digits 256 n)]
  apply List.map_congr_left
  intro d hd
  have : d < 256 := Nat.digits_lt_base (by omega) hd
  simp [UInt8.toNat_ofNat', Nat.mod_eq_of_lt this]

/-- `encodeBase58` inverts `decodeCombined` on every string whose decoding is not empty -/
theorem encodeBase58_decodeCombined (s : Str) (c : Bytes) (h : decodeCombined s = some c) (hc : c ≠ []) :
    encodeBase58 c = some s := by
  unfold decodeCombined at h
  obtain ⟨⟨z', num'⟩, hl, hcdef⟩ := Option.map_eq_some_iff.mp h
  obtain ⟨k, ds, hs, hz, hds, hhd, hn⟩ := decodeLoop_some0 _ _ _ _ hl
  simp only at hcdef
  rw [bytesBE_eq _ _ _ (Nat.le_refl _), List.append_nil] at hcdef
  have hz' : z' = k := by omega
  subst hz'
  set bs : Bytes := (Nat.digits 256 num').reverse.map UInt8.ofNat with hbs
  -- value and digits of num'
  have hnum : num' = Nat.ofDigits 58 ds.reverse := by rw [hn, accum_eq_ofDigits]
  have hdig : Nat.digits 58 num' = ds.reverse := by
    rw [hnum]
    apply Nat.digits_ofDigits 58 (by omega)
    · intro l hl'; exact hds l (List.mem_reverse.mp hl')
    · intro hne
      have hne' : ds ≠ [] := by intro e; subst e; simp at hne
      rw [List.getLast_reverse]
      exact hhd hne'
  have hbshead : ∀ hne : bs ≠ [], bs.head hne ≠ 0 := by
    intro hne h0
    have hnz : num' ≠ 0 := by
      intro e; rw [hbs, e] at hne; simp at hne
    have hlast := Nat.getLast_digit_ne_zero 256 hnz
    have hdne : Nat.digits 256 num' ≠ [] := Nat.digits_ne_nil_iff_ne_zero.mpr hnz
    have hlt : (Nat.digits 256 num').getLast hdne < 256 :=
      Nat.digits_lt_base (by omega) (List.getLast_mem _)
    have : bs.head hne = UInt8.ofNat ((Nat.digits 256 num').getLast hdne) := by
      simp [hbs, List.head_reverse]
    rw [this] at h0
    have : (UInt8.ofNat ((Nat.digits 256 num').getLast hdne)).toNat = 0 := by rw [h0]; rfl
    rw [UInt8.toNat_ofNat', Nat.mod_eq_of_lt hlt] at this
    exact hlast this
  have hval : beToNat c = num' := by
    rw [← hcdef, beToNat_replicate_zero, beToNat_eq_ofDigits, hbs, digits256_bytes, Nat.ofDigits_digits]
  unfold encodeBase58
  rw [if_neg hc]
  simp only [Gen.b58EncZeroByte, Gen.b58EncBase]
  rw [hval, digitsBE_eq 58 (by omega) _ _ _ (Nat.le_refl _), hdig, List.reverse_reverse, List.append_nil,
    lookupAll_eq _ hds]
  have hcount : (c.takeWhile (fun c => decide (c.toNat = 0))).length = z' := by
    rw [← hcdef]; exact takeWhile_zero_replicate_append z' bs hbshead
  rw [hcount, encPad_eq, hs]
  simp

/-- Base58Check: a string is accepted with payload `p` exactly when it is the Base58 text of
    `p ‖ hash256(p)[:4]` -/
theorem rawDecodeBase58_eq_some_iff (hash256 : Bytes → Bytes) (hh : ∀ b, 4 ≤ (hash256 b).length)
    (s : Str) (p : Bytes) :
    rawDecodeBase58 hash256 s = some p ↔ encodeBase58Checksum hash256 p = some s := by
  constructor
  · intro h
    unfold rawDecodeBase58 at h
    cases hd : decodeCombined s with
    | none => rw [hd] at h; cases h
    | some c =>
      rw [hd] at h
      simp only [Gen.b58DecChecksumTail, Gen.b58DecHashedCut, Gen.b58DecHashWidth, Gen.b58DecReturnCut] at h
      split at h
      · cases h
      · next hck =>
        simp only [ne_eq, Decidable.not_not] at hck
        cases h
        have hc : c = pyButLast 4 c ++ (hash256 (pyButLast 4 c)).take 4 := by
          rw [hck]; exact (pyButLast_append_pyLast 4 c).symm
        have hne : c ≠ [] := by
          intro e
          have h4 : ((hash256 (pyButLast 4 c)).take 4).length = 4 := by
            rw [List.length_take]; exact Nat.min_eq_left (hh _)
          have hl := congrArg List.length hc
          rw [List.length_append, h4, e] at hl
          simp at hl
        unfold encodeBase58Checksum
        simp only [Gen.b58EncChecksumWidth]
        rw [← hc]
        exact encodeBase58_decodeCombined s c hd hne
  · exact rawDecodeBase58_encodeBase58Checksum hash256 hh p s

/-! ### the first character of an encoding -/

theorem beToNatAux_eq (acc : Nat) (b : Bytes) : beToNatAux acc b = acc * 256 ^ b.length + beToNat b := by
  induction b generalizing acc with
  | nil => simp [beToNatAux, beToNat]
  | cons x xs ih =>
    unfold beToNat
    simp only [beToNatAux, List.length_cons, Nat.pow_succ]
    rw [ih, ih (0 * 256 + x.toNat)]
    unfold beToNat
    ring_nf

theorem beToNat_cons (v : UInt8) (rest : Bytes) :
    beToNat (v :: rest) = v.toNat * 256 ^ rest.length + beToNat rest := by
  unfold beToNat
  simp only [beToNatAux, Nat.zero_mul, Nat.zero_add]
  rw [beToNatAux_eq]; rfl

theorem beToNat_lt (b : Bytes) : beToNat b < 256 ^ b.length := by
  have := leToNat_lt b.reverse
  rwa [← beToNat_reverse, List.reverse_reverse, List.length_reverse] at this

theorem head_digits_reverse (k N : Nat) (h1 : 58 ^ k ≤ N) (h2 : N < 58 ^ (k + 1)) :
    (Nat.digits 58 N).reverse.head? = some (N / 58 ^ k) := by
  induction k generalizing N with
  | zero =>
    have hN : N ≠ 0 := by simp at h1; omega
    rw [Nat.digits_of_lt 58 N hN (by simpa using h2)]
    simp
  | succ k ih =>
    have hpos : 0 < N := by
      have : 0 < 58 ^ (k + 1) := Nat.pow_pos (by omega)
      omega
    rw [Nat.digits_def' (by omega) hpos, List.reverse_cons]
    have hlo : 58 ^ k ≤ N / 58 := by
      rw [Nat.le_div_iff_mul_le (by omega)]
      rw [Nat.pow_succ] at h1; exact h1
    have hhi : N / 58 < 58 ^ (k + 1) := by
      rw [Nat.div_lt_iff_lt_mul (by omega)]
      rw [Nat.pow_succ] at h2; exact h2
    have := ih (N / 58) hlo hhi
    have hne : (Nat.digits 58 (N / 58)).reverse ≠ [] := by
      intro e; rw [e] at this; simp at this
    rw [List.head?_append_of_ne_nil _ hne, this, Nat.div_div_eq_div_mul, Nat.pow_succ, Nat.mul_comm]

/-- the first character of the Base58 text of `v ‖ rest` (v ≠ 0) is determined by the two
    endpoints of the range of numbers with that leading byte -/
theorem encodeBase58_head (v : UInt8) (rest : Bytes) (s : Str) (k lo hi : Nat) (hv : v ≠ 0)
    (hlo1 : 1 ≤ lo) (hhi58 : hi ≤ 58)
    (hlo : lo * 58 ^ k ≤ v.toNat * 256 ^ rest.length)
    (hhi : (v.toNat + 1) * 256 ^ rest.length ≤ hi * 58 ^ k)
    (h : encodeBase58 (v :: rest) = some s) :
    ∃ d, lo ≤ d ∧ d < hi ∧ s.head? = some (b58char d) := by
  have hvn : ¬ v.toNat = 0 := fun e => hv (UInt8.toNat_inj.mp (by simpa using e))
  have hN := beToNat_cons v rest
  have hr := beToNat_lt rest
  set N := beToNat (v :: rest) with hNdef
  have hpow : 0 < 58 ^ k := Nat.pow_pos (by omega)
  have hNlo : lo * 58 ^ k ≤ N := by omega
  have hNhi : N < hi * 58 ^ k := by
    have : N < (v.toNat + 1) * 256 ^ rest.length := by rw [hN, Nat.add_mul]; omega
    omega
  have h1 : 58 ^ k ≤ N := by
    have : 1 * 58 ^ k ≤ lo * 58 ^ k := Nat.mul_le_mul_right _ hlo1
    omega
  have h2 : N < 58 ^ (k + 1) := by
    have : hi * 58 ^ k ≤ 58 * 58 ^ k := Nat.mul_le_mul_right _ hhi58
    rw [Nat.pow_succ]; omega
  have hhead := head_digits_reverse k N h1 h2
  unfold encodeBase58 at h
  rw [if_neg (by simp)] at h
  simp only [Gen.b58EncZeroByte, Gen.b58EncBase, List.takeWhile_cons, hvn, decide_false] at h
  rw [← hNdef, digitsBE_eq 58 (by omega) _ _ _ (Nat.le_refl _), List.append_nil] at h
  have hlt : ∀ d ∈ (Nat.digits 58 N).reverse, d < 58 := by
    intro d hd; exact Nat.digits_lt_base (by omega) (List.mem_reverse.mp hd)
  rw [lookupAll_eq _ hlt] at h
  simp only [Bool.false_eq_true, if_false, List.length_nil, List.replicate_zero, List.flatten_nil, List.nil_append,
    Option.map_some, Option.some.injEq] at h
  refine ⟨N / 58 ^ k, ?_, ?_, ?_⟩
  · exact (Nat.le_div_iff_mul_le hpow).mpr hNlo
  · exact (Nat.div_lt_iff_lt_mul hpow).mpr hNhi
  · rw [← h, List.head?_map, hhead]; rfl

/-- a payload that starts with a zero byte is written with a leading '1' -/
theorem encodeBase58_head_zero (rest : Bytes) (s : Str) (h : encodeBase58 (0 :: rest) = some s) :
    s.head? = some '1' := by
  unfold encodeBase58 at h
  rw [if_neg (by simp)] at h
  obtain ⟨r, _, hr⟩ := Option.map_eq_some_iff.mp h
  rw [← hr, encPad_eq]
  simp [Gen.b58EncZeroByte, List.takeWhile_cons, List.replicate_succ]

end Buidl.Base58
