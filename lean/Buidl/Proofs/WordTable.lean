/-
  Buidl.Proofs.WordTable — the checks over the generated word tables (`decide +kernel`), kept in a module of
  their own so that they are re-run only when a table or the checking function changes.
-/
import Buidl.Model.Slip39Table
namespace Buidl.Mnemonic
open Buidl

/-- the keys `WordList.__init__` stores for one word, in dict-assignment order reversed (prefix first) -/
def keysOf (w : PyStr) : List PyStr :=
  if cmpOp Gen.wlPrefixOp w.length Gen.wlPrefixOver then [w.take Gen.wlPrefixLen, w] else [w]

/-- an order-preserving numbering of short keys (left-aligned base-2^21 digits); used only as a
    certificate: equal keys have equal numbers -/
def encKey (k : PyStr) : Nat := (k ++ List.replicate (8 - k.length) 0).foldl (fun a c => a * 2097152 + c) 0

def increasingFrom : Nat → List Nat → Bool
  | _, [] => true
  | p, a :: r => decide (p < a) && increasingFrom a r

def increasing : List Nat → Bool
  | [] => true
  | a :: r => increasingFrom a r

def lowerWord (w : PyStr) : Bool := !w.isEmpty && w.all fun c => decide (97 ≤ c) && decide (c ≤ 122)

/-- one pass over a word table: all stored keys (word, four-letter prefix) listed table order are strictly
    increasing under `encKey` — hence pairwise distinct — and every word is a non-empty string of `a`..`z` -/
def tableOK (ws : List PyStr) : Bool :=
  increasing ((ws.flatMap keysOf).map encKey) && ws.all lowerWord

/-- everything the theorems use about a loaded word list -/
def checkWL (n : Nat) : Option WordList → Bool
  | none => false
  | some wl => wl.words.length == n && tableOK wl.words

set_option maxRecDepth 100000 in
/-- the BIP39 table of /repo: 2048 entries, all stored keys pairwise distinct, words in `a`..`z` -/
theorem bip39_check : checkWL 2048 BIP39? = true := by decide +kernel

set_option maxRecDepth 100000 in
/-- the SLIP39 table of /repo: 1024 entries, all stored keys pairwise distinct, words in `a`..`z` -/
theorem slip39_check : checkWL 1024 Buidl.Shamir.SLIP39? = true := by decide +kernel



end Buidl.Mnemonic
